/-
Agreement theorems, phase 6a, part 16: the public wrappers of functions.rs — `path_exists`, `path_match`, `get_by_path`,
`get_by_path_first`, `get_by_path_array` (`text` = the outcome of the JSON-text branch, universally quantified) — against
`Sel.exists_` / `Sel.predicateMatch` / `Sel.select` and the whole functions `T.pathExists` / `T.pathMatch` / `T.getByPath*`.
-/
import JsonbModel.Proofs.TranslatedAgreeG15
import JsonbModel.Functions.Text2

set_option linter.unusedSimpArgs false
set_option linter.unusedVariables false

namespace Jsonb.TrAgree
open Jsonb.Rs

theorem AgR.refl {α : Type} (r : Res α) : AgR (fun a => a) r r := by
  right; cases r <;> first | rfl | exact ⟨_, rfl⟩

theorem selector_new_agrees (jp : JsonPath) (mode : Sel.Mode) :
    Tr.Selector.new ⟨ofPaths jp⟩ (ofMode mode) = .ok (selOf jp mode) := rfl

/-! ## the sniffing test selects the branch -/

theorem path_exists_agrees (fuel : Nat) (value : Bytes) (jp : JsonPath) (text : Res Bool) :
    Tr.path_exists fuel value ⟨ofPaths jp⟩ text =
      if isJsonb value then Tr.Selector.exists fuel (selOf jp .mixed) value else text := by
  unfold Tr.path_exists
  have hn := selector_new_agrees jp .mixed
  simp only [ofMode] at hn
  rw [hn, is_jsonb_agrees]
  cases isJsonb value <;> simp [Ctl.ofRes, Ctl.run]

theorem path_match_agrees (fuel : Nat) (value : Bytes) (jp : JsonPath) (text : Res Bool) :
    Tr.path_match fuel value ⟨ofPaths jp⟩ text =
      if isJsonb value then Tr.Selector.predicate_match fuel (selOf jp .first) value else text := by
  unfold Tr.path_match
  have hn := selector_new_agrees jp .first
  simp only [ofMode] at hn
  rw [hn, is_jsonb_agrees]
  cases isJsonb value <;> simp [Ctl.ofRes, Ctl.run]

theorem get_by_path_agrees (fuel : Nat) (value : Bytes) (jp : JsonPath) (data : Bytes) (offs : List Int)
    (text : Res (Bytes × List Int)) :
    Tr.get_by_path fuel value ⟨ofPaths jp⟩ data offs text =
      if isJsonb value then Tr.Selector.select fuel (selOf jp .mixed) value data offs else text := by
  unfold Tr.get_by_path
  have hn := selector_new_agrees jp .mixed
  simp only [ofMode] at hn
  rw [hn, is_jsonb_agrees]
  cases isJsonb value
  · simp only [Ctl.ofRes_ok', Ctl.val_bind', Bool.not_false, if_true, Bool.false_eq_true, if_false]
    cases text with
    | ok a => obtain ⟨d, o⟩ := a; rfl
    | err e => rfl
    | panic s => rfl
    | fuel => rfl
  · simp only [Ctl.ofRes_ok', Ctl.val_bind', Bool.not_true, Bool.false_eq_true, if_false, if_true]
    cases Tr.Selector.select fuel (selOf jp .mixed) value data offs with
    | ok a => obtain ⟨d, o⟩ := a; rfl
    | err e => rfl
    | panic s => rfl
    | fuel => rfl

theorem get_by_path_first_agrees (fuel : Nat) (value : Bytes) (jp : JsonPath) (data : Bytes) (offs : List Int)
    (text : Res (Bytes × List Int)) :
    Tr.get_by_path_first fuel value ⟨ofPaths jp⟩ data offs text =
      if isJsonb value then Tr.Selector.select fuel (selOf jp .first) value data offs else text := by
  unfold Tr.get_by_path_first
  have hn := selector_new_agrees jp .first
  simp only [ofMode] at hn
  rw [hn, is_jsonb_agrees]
  cases isJsonb value
  · simp only [Ctl.ofRes_ok', Ctl.val_bind', Bool.not_false, if_true, Bool.false_eq_true, if_false]
    cases text with
    | ok a => obtain ⟨d, o⟩ := a; rfl
    | err e => rfl
    | panic s => rfl
    | fuel => rfl
  · simp only [Ctl.ofRes_ok', Ctl.val_bind', Bool.not_true, Bool.false_eq_true, if_false, if_true]
    cases Tr.Selector.select fuel (selOf jp .first) value data offs with
    | ok a => obtain ⟨d, o⟩ := a; rfl
    | err e => rfl
    | panic s => rfl
    | fuel => rfl

theorem get_by_path_array_agrees (fuel : Nat) (value : Bytes) (jp : JsonPath) (data : Bytes) (offs : List Int)
    (text : Res (Bytes × List Int)) :
    Tr.get_by_path_array fuel value ⟨ofPaths jp⟩ data offs text =
      if isJsonb value then Tr.Selector.select fuel (selOf jp .array) value data offs else text := by
  unfold Tr.get_by_path_array
  have hn := selector_new_agrees jp .array
  simp only [ofMode] at hn
  rw [hn, is_jsonb_agrees]
  cases isJsonb value
  · simp only [Ctl.ofRes_ok', Ctl.val_bind', Bool.not_false, if_true, Bool.false_eq_true, if_false]
    cases text with
    | ok a => obtain ⟨d, o⟩ := a; rfl
    | err e => rfl
    | panic s => rfl
    | fuel => rfl
  · simp only [Ctl.ofRes_ok', Ctl.val_bind', Bool.not_true, Bool.false_eq_true, if_false, if_true]
    cases Tr.Selector.select fuel (selOf jp .array) value data offs with
    | ok a => obtain ⟨d, o⟩ := a; rfl
    | err e => rfl
    | panic s => rfl
    | fuel => rfl

/-! ## on JSONB input: the model's selector functions -/

theorem path_exists_jsonb (fuel : Nat) (value : Bytes) (jp : JsonPath) (text : Res Bool) (hj : isJsonb value = true)
    (hok : PathsOK jp) (hlen : value.length < 9223372036854775808) (hne : Sel.findPositions fuel value none jp ≠ .fuel) :
    AgR (fun b => b) (Tr.path_exists fuel value ⟨ofPaths jp⟩ text) (Sel.exists_ jp value fuel) := by
  rw [path_exists_agrees, hj, if_pos rfl]
  exact exists_agrees jp .mixed value fuel hok hlen hne

theorem path_match_jsonb (fuel : Nat) (value : Bytes) (jp : JsonPath) (text : Res Bool) (hj : isJsonb value = true)
    (hok : PathsOK jp) (hlen : value.length < 9223372036854775808) (hne : Sel.findPositions fuel value none jp ≠ .fuel) :
    AgR (fun b => b) (Tr.path_match fuel value ⟨ofPaths jp⟩ text) (Sel.predicateMatch jp value fuel) := by
  rw [path_match_agrees, hj, if_pos rfl]
  exact predicate_match_agrees jp .first value fuel hok hlen hne

theorem get_by_path_jsonb (fuel : Nat) (value : Bytes) (jp : JsonPath) (data : Bytes) (offs : List Nat)
    (text : Res (Bytes × List Int)) (hj : isJsonb value = true)
    (hok : PathsOK jp) (hlen : value.length < 9223372036854775808) (hne : Sel.findPositions fuel value none jp ≠ .fuel)
    (hsize : ∀ ps, Sel.findPositions fuel value none jp = .ok ps →
      data.length + 4 + ps.length * (value.length + 8) < 18446744073709551616) :
    AgR (fun r => (r.1, natsG r.2)) (Tr.get_by_path fuel value ⟨ofPaths jp⟩ data (natsG offs) text)
      (Sel.select jp .mixed value data offs fuel) := by
  rw [get_by_path_agrees, hj, if_pos rfl]
  exact select_agrees' jp .mixed value data offs fuel hok hlen hne hsize

theorem get_by_path_first_jsonb (fuel : Nat) (value : Bytes) (jp : JsonPath) (data : Bytes) (offs : List Nat)
    (text : Res (Bytes × List Int)) (hj : isJsonb value = true)
    (hok : PathsOK jp) (hlen : value.length < 9223372036854775808) (hne : Sel.findPositions fuel value none jp ≠ .fuel)
    (hsize : ∀ ps, Sel.findPositions fuel value none jp = .ok ps →
      data.length + 4 + ps.length * (value.length + 8) < 18446744073709551616) :
    AgR (fun r => (r.1, natsG r.2)) (Tr.get_by_path_first fuel value ⟨ofPaths jp⟩ data (natsG offs) text)
      (Sel.select jp .first value data offs fuel) := by
  rw [get_by_path_first_agrees, hj, if_pos rfl]
  exact select_agrees' jp .first value data offs fuel hok hlen hne hsize

theorem get_by_path_array_jsonb (fuel : Nat) (value : Bytes) (jp : JsonPath) (data : Bytes) (offs : List Nat)
    (text : Res (Bytes × List Int)) (hj : isJsonb value = true)
    (hok : PathsOK jp) (hlen : value.length < 9223372036854775808) (hne : Sel.findPositions fuel value none jp ≠ .fuel)
    (hsize : ∀ ps, Sel.findPositions fuel value none jp = .ok ps →
      data.length + 4 + ps.length * (value.length + 8) < 18446744073709551616) :
    AgR (fun r => (r.1, natsG r.2)) (Tr.get_by_path_array fuel value ⟨ofPaths jp⟩ data (natsG offs) text)
      (Sel.select jp .array value data offs fuel) := by
  rw [get_by_path_array_agrees, hj, if_pos rfl]
  exact select_agrees' jp .array value data offs fuel hok hlen hne hsize

/-! ## the whole functions: passing the model's whole function for the text outcome is passing its text branch -/

theorem path_exists_whole (value : Bytes) (jp : JsonPath) (hok : PathsOK jp) (hlen : value.length < 9223372036854775808)
    (hne : Sel.findPositions (Sel.selFuel value jp) value none jp ≠ .fuel) :
    AgR (fun b => b) (Tr.path_exists (Sel.selFuel value jp) value ⟨ofPaths jp⟩ (T.pathExists value jp)) (T.pathExists value jp) := by
  cases hj : isJsonb value with
  | true =>
    have h := path_exists_jsonb (Sel.selFuel value jp) value jp (T.pathExists value jp) hj hok hlen hne
    have e : T.pathExists value jp = Sel.exists_ jp value (Sel.selFuel value jp) := by simp [T.pathExists, hj]
    rw [e] at h ⊢; exact h
  | false =>
    rw [path_exists_agrees, hj]
    exact AgR.refl _

theorem path_match_whole (value : Bytes) (jp : JsonPath) (hok : PathsOK jp) (hlen : value.length < 9223372036854775808)
    (hne : Sel.findPositions (Sel.selFuel value jp) value none jp ≠ .fuel) :
    AgR (fun b => b) (Tr.path_match (Sel.selFuel value jp) value ⟨ofPaths jp⟩ (T.pathMatch value jp)) (T.pathMatch value jp) := by
  cases hj : isJsonb value with
  | true =>
    have h := path_match_jsonb (Sel.selFuel value jp) value jp (T.pathMatch value jp) hj hok hlen hne
    have e : T.pathMatch value jp = Sel.predicateMatch jp value (Sel.selFuel value jp) := by simp [T.pathMatch, hj]
    rw [e] at h ⊢; exact h
  | false =>
    rw [path_match_agrees, hj]
    exact AgR.refl _

/-- the `(data, offsets)` outcome as Rust values -/
def ofOut (r : Res (Bytes × List Nat)) : Res (Bytes × List Int) := r.map (fun r => (r.1, natsG r.2))

theorem AgR.ofOut_refl (r : Res (Bytes × List Nat)) : AgR (fun r => (r.1, natsG r.2)) (ofOut r) r := by
  right; cases r <;> first | rfl | exact ⟨_, rfl⟩

theorem get_by_path_mode_whole (mode : Sel.Mode) (value : Bytes) (jp : JsonPath) (data : Bytes)
    (tr : Nat → Bytes → Tr.JsonPath → Bytes → List Int → Res (Bytes × List Int) → Res (Bytes × List Int))
    (htr : ∀ fuel text, tr fuel value ⟨ofPaths jp⟩ data (natsG []) text =
      if isJsonb value then Tr.Selector.select fuel (selOf jp mode) value data (natsG []) else text)
    (hok : PathsOK jp) (hlen : value.length < 9223372036854775808)
    (hne : Sel.findPositions (Sel.selFuel value jp) value none jp ≠ .fuel)
    (hsize : ∀ ps, Sel.findPositions (Sel.selFuel value jp) value none jp = .ok ps →
      data.length + 4 + ps.length * (value.length + 8) < 18446744073709551616) :
    AgR (fun r => (r.1, natsG r.2))
      (tr (Sel.selFuel value jp) value ⟨ofPaths jp⟩ data (natsG []) (ofOut (T.getByPathMode mode value jp data)))
      (T.getByPathMode mode value jp data) := by
  rw [htr]
  cases hj : isJsonb value with
  | true =>
    have e : T.getByPathMode mode value jp data = Sel.select jp mode value data [] (Sel.selFuel value jp) := by
      simp [T.getByPathMode, hj]
    rw [e, if_pos rfl]
    exact select_agrees' jp mode value data [] (Sel.selFuel value jp) hok hlen hne hsize
  | false =>
    simp only [Bool.false_eq_true, if_false]
    exact AgR.ofOut_refl _

theorem get_by_path_whole (value : Bytes) (jp : JsonPath) (data : Bytes)
    (hok : PathsOK jp) (hlen : value.length < 9223372036854775808)
    (hne : Sel.findPositions (Sel.selFuel value jp) value none jp ≠ .fuel)
    (hsize : ∀ ps, Sel.findPositions (Sel.selFuel value jp) value none jp = .ok ps →
      data.length + 4 + ps.length * (value.length + 8) < 18446744073709551616) :
    AgR (fun r => (r.1, natsG r.2))
      (Tr.get_by_path (Sel.selFuel value jp) value ⟨ofPaths jp⟩ data (natsG []) (ofOut (T.getByPath value jp data)))
      (T.getByPath value jp data) :=
  get_by_path_mode_whole .mixed value jp data Tr.get_by_path
    (fun fuel text => get_by_path_agrees fuel value jp data _ text) hok hlen hne hsize

theorem get_by_path_first_whole (value : Bytes) (jp : JsonPath) (data : Bytes)
    (hok : PathsOK jp) (hlen : value.length < 9223372036854775808)
    (hne : Sel.findPositions (Sel.selFuel value jp) value none jp ≠ .fuel)
    (hsize : ∀ ps, Sel.findPositions (Sel.selFuel value jp) value none jp = .ok ps →
      data.length + 4 + ps.length * (value.length + 8) < 18446744073709551616) :
    AgR (fun r => (r.1, natsG r.2))
      (Tr.get_by_path_first (Sel.selFuel value jp) value ⟨ofPaths jp⟩ data (natsG []) (ofOut (T.getByPathFirst value jp data)))
      (T.getByPathFirst value jp data) :=
  get_by_path_mode_whole .first value jp data Tr.get_by_path_first
    (fun fuel text => get_by_path_first_agrees fuel value jp data _ text) hok hlen hne hsize

theorem get_by_path_array_whole (value : Bytes) (jp : JsonPath) (data : Bytes)
    (hok : PathsOK jp) (hlen : value.length < 9223372036854775808)
    (hne : Sel.findPositions (Sel.selFuel value jp) value none jp ≠ .fuel)
    (hsize : ∀ ps, Sel.findPositions (Sel.selFuel value jp) value none jp = .ok ps →
      data.length + 4 + ps.length * (value.length + 8) < 18446744073709551616) :
    AgR (fun r => (r.1, natsG r.2))
      (Tr.get_by_path_array (Sel.selFuel value jp) value ⟨ofPaths jp⟩ data (natsG []) (ofOut (T.getByPathArray value jp data)))
      (T.getByPathArray value jp data) :=
  get_by_path_mode_whole .array value jp data Tr.get_by_path_array
    (fun fuel text => get_by_path_array_agrees fuel value jp data _ text) hok hlen hne hsize

end Jsonb.TrAgree
