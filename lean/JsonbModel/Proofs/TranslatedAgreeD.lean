/-
Agreement theorems, phase 4 (root): the builders of builder.rs and the byte-level editors of functions.rs,
translated from source by tools/rs2lean4.py (Generated/Translated4.lean), equal the hand-written model
functions of Builder.lean / Walk.lean / Functions/Edit.lean.  `lake build JsonbModel.Proofs.TranslatedAgreeD`.
  D1  representation maps, constructors, pushes (`BTreeMap::insert` = `bInsert`), one unfolding of
      `write_entry` / `build_into`, loop steps
  D2  `write_entry` = `buildEntry`, `ArrayBuilder::build_into` = `buildArrayInto`,
      `ObjectBuilder::build_into` = `buildObjectInto` (mutual structural induction, fuel > 2 * depth)
  D3  `for x in <iterator struct>` = collect, then fold; `iterate_array`; builders of raw entries
  D4  `delete_jsonb_by_index`, `delete_by_index` = `Fn.deleteByIndex`
  D5  `iterate_object_entries`, `ObjectEntryIterator::{fill_keys, next}` = `fillKeys` / `iterObjLoop`
  D6  pushes in a loop, object builders of raw entries, agreement modulo the text of a panic message
  D7  `concat_jsonb`, `concat` = `Fn.concat`
  D8  `delete_jsonb_by_name` = `Fn.deleteByName`
  D9  `BTreeSet` / `BTreeMap` as sorted lists (lawful derived orders), `object_delete_jsonb`, `object_pick_jsonb` = `Fn.objectFilter`
  D10 `array_insert_jsonb` = `Fn.arrayInsert`
  D11 `array_distinct_jsonb` = `Fn.arrayDistinct` (a `BTreeSet` of the elements seen)
  D12 `BTreeMap<K, i32>` against the model's count list (`countAdd`, `countGet`, `countDec`)
  D13 `array_intersection_jsonb`, `array_except_jsonb` = `Fn.arraySetOp true / false`
-/
import JsonbModel.Proofs.TranslatedAgreeD1
import JsonbModel.Proofs.TranslatedAgreeD2
import JsonbModel.Proofs.TranslatedAgreeD3
import JsonbModel.Proofs.TranslatedAgreeD4
import JsonbModel.Proofs.TranslatedAgreeD5
import JsonbModel.Proofs.TranslatedAgreeD6
import JsonbModel.Proofs.TranslatedAgreeD7
import JsonbModel.Proofs.TranslatedAgreeD8
import JsonbModel.Proofs.TranslatedAgreeD9
import JsonbModel.Proofs.TranslatedAgreeD10
import JsonbModel.Proofs.TranslatedAgreeD11
import JsonbModel.Proofs.TranslatedAgreeD12
import JsonbModel.Proofs.TranslatedAgreeD13
