/-
Layout-generic rendering of the token level of the JSONPath language and the proof that the
model of `jsonpath/parser.rs` reads every rendering back:
whitespace runs, keyword case (`last`, `to`), integers, names (`.name`, `."name"`, `:name`,
`:"name"`, `["name"]`), wildcards, index lists, ranges and `last` offsets.
Used by `PathRoundTrip2b` (expressions) and `PathRoundTrip2` (headline theorems).
-/
import JsonbModel.Proofs.PathRoundTrip
import JsonbModel.Proofs.NomFine

namespace Jsonb
namespace PathRT2
open Nom PathParser PathPrint PathRT

/-! ### bytes: exhaustive case analysis -/

theorem forall_uint8 (P : UInt8 → Prop) (h : ∀ n : Fin 256, P (UInt8.ofNat n.val)) : ∀ c, P c := by
  intro c
  have := h ⟨c.toNat, c.toNat_lt⟩
  simpa using this

/-- closes goals `∀ c : UInt8, P c` with decidable `P` by checking all 256 bytes in the kernel -/
macro "bytes_decide" : tactic => `(tactic| (apply forall_uint8; decide +kernel))

/-! ### rewriting lemmas for the combinators -/

theorem alt_error {α} {p q : Parser α} {i : Bytes} (h : p i = .error) : alt p q i = q i := by
  simp [alt, h]

theorem alt_ok {α} {p q : Parser α} {i : Bytes} {a : α} {r : Bytes} (h : p i = .ok a r) :
    alt p q i = .ok a r := by simp [alt, h]

theorem map_ok {α β} {p : Parser α} {f : α → β} {i : Bytes} {a : α} {r : Bytes}
    (h : p i = .ok a r) : map p f i = .ok (f a) r := by simp [map, h, PR.bind]

theorem map_error {α β} {p : Parser α} {f : α → β} {i : Bytes} (h : p i = .error) :
    map p f i = .error := by simp [map, h, PR.bind]

theorem value_ok {α β} {p : Parser α} {v : β} {i : Bytes} {a : α} {r : Bytes}
    (h : p i = .ok a r) : value v p i = .ok v r := by simp [value, h, PR.bind]

theorem value_error {α β} {p : Parser α} {v : β} {i : Bytes} (h : p i = .error) :
    value v p i = .error := by simp [value, h, PR.bind]

theorem char_miss (c b : UInt8) (t : Bytes) (h : b ≠ c) : char c (b :: t) = .error := by
  simp [char, h]

theorem char_nil (c : UInt8) : char c [] = .error := rfl

/-! ### whitespace runs and "what follows" conditions -/

/-- a run of whitespace bytes (space, tab, CR, LF), possibly empty -/
def Ws (w : Bytes) : Prop := w.all isSpace = true

instance (w : Bytes) : Decidable (Ws w) := by unfold Ws; infer_instance

theorem Ws.nil : Ws [] := rfl

theorem Ws.cons {b : UInt8} {t : Bytes} (h : Ws (b :: t)) : isSpace b = true ∧ Ws t := by
  simpa [Ws] using h

theorem Ws.append {a b : Bytes} (ha : Ws a) (hb : Ws b) : Ws (a ++ b) := by
  unfold Ws at *; simp [ha, hb]

theorem Ws.one : Ws [32] := by decide

theorem dropSpaces_ws (w r : Bytes) (h : Ws w) : dropSpaces (w ++ r) = dropSpaces r := by
  induction w with
  | nil => rfl
  | cons b t ih =>
    have hb := h.cons
    simp only [List.cons_append, dropSpaces, hb.1, if_true]
    exact ih hb.2

theorem dropSpaces_ws_nil (w : Bytes) (h : Ws w) : dropSpaces w = [] := by
  have := dropSpaces_ws w [] h
  simpa [dropSpaces] using this

/-- the head of `r` (if any) satisfies `Q` -/
def HeadOk (Q : UInt8 → Bool) (r : Bytes) : Prop := ∀ c t, r = c :: t → Q c = true

theorem HeadOk.nil {Q} : HeadOk Q [] := by intro c t e; cases e

theorem HeadOk.cons {Q} {c : UInt8} {t : Bytes} (h : Q c = true) : HeadOk Q (c :: t) := by
  intro c' t' e; cases e; exact h

theorem HeadOk.head {Q} {c : UInt8} {t : Bytes} (h : HeadOk Q (c :: t)) : Q c = true := h c t rfl

theorem HeadOk.mono {P Q : UInt8 → Bool} {r : Bytes} (h : HeadOk P r)
    (hpq : ∀ c, P c = true → Q c = true) : HeadOk Q r := fun c t e => hpq c (h c t e)

theorem HeadOk.append_of_ne {Q} {s r : Bytes} (hs : s ≠ []) (h : HeadOk Q s) : HeadOk Q (s ++ r) := by
  cases s with
  | nil => exact absurd rfl hs
  | cons c t => exact HeadOk.cons h.head

def notSpace (c : UInt8) : Bool := !isSpace c
def notDigit (c : UInt8) : Bool := !isDigit c

/-- `r` does not start with whitespace -/
abbrev NS (r : Bytes) : Prop := HeadOk notSpace r

theorem dropSpaces_ns {r : Bytes} (h : NS r) : dropSpaces r = r := by
  cases r with
  | nil => rfl
  | cons c t =>
    have : isSpace c = false := by simpa [notSpace] using h.head
    exact dropSpaces_nonspace c t this

theorem ns_dropSpaces (r : Bytes) : NS (dropSpaces r) := by
  induction r with
  | nil => exact HeadOk.nil
  | cons c t ih =>
    unfold dropSpaces
    split
    · exact ih
    · rename_i h
      exact HeadOk.cons (by simpa [notSpace] using h)

theorem dropSpaces_idem (r : Bytes) : dropSpaces (dropSpaces r) = dropSpaces r :=
  dropSpaces_ns (ns_dropSpaces r)

/-- a property of the first non-space byte, allowed on spaces too, holds for the first byte -/
theorem HeadOk.of_dropSpaces {Q} {r : Bytes} (hsp : ∀ c, isSpace c = true → Q c = true)
    (h : HeadOk Q (dropSpaces r)) : HeadOk Q r := by
  cases r with
  | nil => exact HeadOk.nil
  | cons c t =>
    cases hc : isSpace c with
    | true => exact HeadOk.cons (hsp c hc)
    | false => rw [dropSpaces_nonspace c t hc] at h; exact h

theorem HeadOk.ws_append {Q} {w r : Bytes} (hsp : ∀ c, isSpace c = true → Q c = true)
    (hw : Ws w) (h : HeadOk Q r) : HeadOk Q (w ++ r) := by
  cases w with
  | nil => exact h
  | cons b t => exact HeadOk.cons (hsp b hw.cons.1)

theorem noDigitHead_of {r : Bytes} (h : HeadOk notDigit r) : noDigitHead r := by
  intro b t e
  have := h b t e
  simpa [notDigit] using this

theorem delimHead_of {r : Bytes} (h : HeadOk isRawDelim r) : delimHead r := by
  cases r with
  | nil => exact Or.inl rfl
  | cons c t => exact Or.inr ⟨c, t, rfl, h.head⟩

theorem space_notDigit : ∀ c, isSpace c = true → notDigit c = true := by bytes_decide
theorem space_rawDelim : ∀ c, isSpace c = true → isRawDelim c = true := by bytes_decide

/-! ### keywords in any letter case (`tag_no_case`) -/

/-- `s` is `kw` up to ASCII letter case -/
def KwOf (kw s : Bytes) : Prop := s.map lowerByte = kw.map lowerByte

instance (kw s : Bytes) : Decidable (KwOf kw s) := by unfold KwOf; infer_instance

theorem KwOf.refl (kw : Bytes) : KwOf kw kw := rfl

theorem KwOf.length {kw s : Bytes} (h : KwOf kw s) : s.length = kw.length := by
  have := congrArg List.length h
  simpa using this

theorem isPrefixNoCase_kw (r : Bytes) : ∀ (kw s : Bytes), KwOf kw s → isPrefixNoCase kw (s ++ r) = true := by
  intro kw
  induction kw with
  | nil => intro s _; simp [isPrefixNoCase]
  | cons k kw ih =>
    intro s h
    cases s with
    | nil => simp [KwOf] at h
    | cons c s =>
      have h' : lowerByte c = lowerByte k ∧ KwOf kw s := by simpa [KwOf] using h
      simp [isPrefixNoCase, h'.1, ih s h'.2]

theorem tagNoCase_kw (kw s r : Bytes) (h : KwOf kw s) : tagNoCase kw (s ++ r) = .ok s r := by
  unfold tagNoCase
  rw [isPrefixNoCase_kw r kw s h, if_pos rfl, ← h.length]
  simp

theorem lower_l : ∀ c : UInt8, lowerByte c = 108 → c = 108 ∨ c = 76 := by bytes_decide
theorem lower_t : ∀ c : UInt8, lowerByte c = 116 → c = 116 ∨ c = 84 := by bytes_decide

theorem kwLast_head {s : Bytes} (h : KwOf kwLast s) : ∃ c t, s = c :: t ∧ (c = 108 ∨ c = 76) := by
  cases s with
  | nil => simp [KwOf, kwLast] at h
  | cons c t =>
    have : lowerByte c = 108 := by
      have := h; simp [KwOf, kwLast] at this
      have e : lowerByte 108 = 108 := by decide
      rw [e] at this; exact this.1
    exact ⟨c, t, rfl, lower_l c this⟩

theorem kwTo_head {s : Bytes} (h : KwOf kwTo s) : ∃ c t, s = c :: t ∧ (c = 116 ∨ c = 84) := by
  cases s with
  | nil => simp [KwOf, kwTo] at h
  | cons c t =>
    have : lowerByte c = 116 := by
      have := h; simp [KwOf, kwTo] at this
      have e : lowerByte 116 = 116 := by decide
      rw [e] at this; exact this.1
    exact ⟨c, t, rfl, lower_t c this⟩

/-! ### array indices with layout -/

def inI64 (i : Int) : Prop := -9223372036854775808 ≤ i ∧ i ≤ 9223372036854775807

instance (i : Int) : Decidable (inI64 i) := by unfold inI64; infer_instance

/-- Renderings of an `Index`: a decimal `i32`; `last` in any letter case; `last + n`,
`last - n` with any whitespace around the sign (`last - v` for an `i64` `v` denotes
`LastIndex(clamp(-v))`, exactly as the Rust closure computes it). -/
inductive RIndex : Index → Bytes → Prop
  | index (n : Int) : inI32 n → RIndex (.index n) (intBytes n)
  | last0 (kw : Bytes) : KwOf kwLast kw → RIndex (.last 0) kw
  | lastPlus (kw w1 w2 : Bytes) (n : Int) : KwOf kwLast kw → Ws w1 → Ws w2 → inI32 n →
      RIndex (.last n) (kw ++ (w1 ++ 43 :: (w2 ++ intBytes n)))
  | lastMinus (kw w1 w2 : Bytes) (v : Int) : KwOf kwLast kw → Ws w1 → Ws w2 → inI64 v →
      RIndex (lastMinus v) (kw ++ (w1 ++ 45 :: (w2 ++ intBytes v)))

/-- what may follow an `Index`: whitespace, then `,` `]` or the keyword `to` (first letter) -/
def IdxFollow (r : Bytes) : Prop :=
  ∃ w c t, r = w ++ c :: t ∧ Ws w ∧ (c = 44 ∨ c = 93 ∨ c = 116 ∨ c = 84)

theorem IdxFollow.props {r : Bytes} (h : IdxFollow r) :
    noDigitHead r ∧ char 45 (dropSpaces r) = .error ∧ char 43 (dropSpaces r) = .error := by
  obtain ⟨w, c, t, rfl, hw, hc⟩ := h
  have hq : HeadOk notDigit (c :: t) := HeadOk.cons (by rcases hc with rfl | rfl | rfl | rfl <;> decide)
  have hns : isSpace c = false := by rcases hc with rfl | rfl | rfl | rfl <;> decide
  refine ⟨noDigitHead_of (HeadOk.ws_append space_notDigit hw hq), ?_, ?_⟩
  · rw [dropSpaces_ws w _ hw, dropSpaces_nonspace c t hns]
    rcases hc with rfl | rfl | rfl | rfl <;> simp [char]
  · rw [dropSpaces_ws w _ hw, dropSpaces_nonspace c t hns]
    rcases hc with rfl | rfl | rfl | rfl <;> simp [char]

theorem i32_kwLast {s : Bytes} (h : KwOf kwLast s) (r : Bytes) : i32 (s ++ r) = .error := by
  obtain ⟨c, t, rfl, hc⟩ := kwLast_head h
  rcases hc with rfl | rfl <;> exact i32_nondigit _ _ (by decide) (by decide) (by decide)

theorem intBytes_ns (i : Int) (r : Bytes) : dropSpaces (intBytes i ++ r) = intBytes i ++ r := by
  obtain ⟨b, t, hbt, hsp, _⟩ := intBytes_head i
  rw [hbt]; exact dropSpaces_nonspace _ _ hsp

/-- `index` reads back every rendering of an `Index` -/
theorem index_render {x : Index} {s : Bytes} (hx : RIndex x s) (r : Bytes) (hr : IdxFollow r) :
    index (s ++ r) = .ok x r := by
  obtain ⟨hnd, hm, hp⟩ := hr.props
  cases hx with
  | index n hn =>
    simp [index, alt, map, i32_intBytes n hn r hnd, PR.bind]
  | last0 kw hkw =>
    have h1 := i32_kwLast hkw r
    have h2 := tagNoCase_kw kwLast _ r hkw
    simp [index, alt, map, preceded, tuple4, h1, h2, ws_eq, hm, hp, PR.bind]
  | lastPlus kw w1 w2 n hkw hw1 hw2 hn =>
    simp only [List.append_assoc, List.cons_append]
    have h1 := i32_kwLast hkw (w1 ++ 43 :: (w2 ++ (intBytes n ++ r)))
    have h2 := tagNoCase_kw kwLast kw (w1 ++ 43 :: (w2 ++ (intBytes n ++ r))) hkw
    have h3 : dropSpaces (w1 ++ 43 :: (w2 ++ (intBytes n ++ r))) = 43 :: (w2 ++ (intBytes n ++ r)) := by
      rw [dropSpaces_ws _ _ hw1]
      simp [dropSpaces, isSpace]
    have h4 : dropSpaces (w2 ++ (intBytes n ++ r)) = intBytes n ++ r := by
      rw [dropSpaces_ws _ _ hw2, intBytes_ns]
    have hi := i32_intBytes n hn r hnd
    simp [index, alt, map, preceded, tuple4, h1, h2, ws_eq, h3, h4, char, hi, PR.bind]
  | lastMinus kw w1 w2 v hkw hw1 hw2 hv =>
    simp only [List.append_assoc, List.cons_append]
    have h1 := i32_kwLast hkw (w1 ++ 45 :: (w2 ++ (intBytes v ++ r)))
    have h2 := tagNoCase_kw kwLast kw (w1 ++ 45 :: (w2 ++ (intBytes v ++ r))) hkw
    have h3 : dropSpaces (w1 ++ 45 :: (w2 ++ (intBytes v ++ r))) = 45 :: (w2 ++ (intBytes v ++ r)) := by
      rw [dropSpaces_ws _ _ hw1]
      simp [dropSpaces, isSpace]
    have h4 : dropSpaces (w2 ++ (intBytes v ++ r)) = intBytes v ++ r := by
      rw [dropSpaces_ws _ _ hw2, intBytes_ns]
    have hi := i64_intBytes v hv r hnd
    simp [index, alt, map, preceded, tuple4, h1, h2, ws_eq, h3, h4, char, hi, PR.bind]

theorem RIndex.head {x : Index} {s : Bytes} (h : RIndex x s) :
    ∃ c t, s = c :: t ∧ isSpace c = false ∧ c ≠ 42 ∧ c ≠ 34 := by
  cases h with
  | index n hn =>
    obtain ⟨b, t, h, h1, h2, h3, _⟩ := intBytes_head n
    exact ⟨b, t, h, h1, h3, h2⟩
  | last0 _ hkw =>
    obtain ⟨c, t, rfl, hc⟩ := kwLast_head hkw
    exact ⟨c, t, rfl, by rcases hc with rfl | rfl <;> decide, by rcases hc with rfl | rfl <;> decide,
      by rcases hc with rfl | rfl <;> decide⟩
  | lastPlus kw w1 w2 n hkw =>
    obtain ⟨c, t, rfl, hc⟩ := kwLast_head hkw
    exact ⟨c, _, rfl, by rcases hc with rfl | rfl <;> decide, by rcases hc with rfl | rfl <;> decide,
      by rcases hc with rfl | rfl <;> decide⟩
  | lastMinus kw w1 w2 n hkw =>
    obtain ⟨c, t, rfl, hc⟩ := kwLast_head hkw
    exact ⟨c, _, rfl, by rcases hc with rfl | rfl <;> decide, by rcases hc with rfl | rfl <;> decide,
      by rcases hc with rfl | rfl <;> decide⟩

theorem RIndex.ns {x : Index} {s : Bytes} (h : RIndex x s) (r : Bytes) :
    dropSpaces (s ++ r) = s ++ r := by
  obtain ⟨c, t, rfl, hc, _⟩ := h.head
  exact dropSpaces_nonspace _ _ hc

/-- Renderings of an `ArrayIndex`: an index, or `a to b` (keyword in any letter case, any
whitespace around it, including none). -/
inductive RArrayIndex : ArrayIndex → Bytes → Prop
  | index (i : Index) (s : Bytes) : RIndex i s → RArrayIndex (.index i) s
  | slice (a b : Index) (sa sb w1 kw w2 : Bytes) : RIndex a sa → RIndex b sb → Ws w1 →
      KwOf kwTo kw → Ws w2 → RArrayIndex (.slice a b) (sa ++ (w1 ++ (kw ++ (w2 ++ sb))))

theorem RArrayIndex.head {a : ArrayIndex} {s : Bytes} (h : RArrayIndex a s) :
    ∃ c t, s = c :: t ∧ isSpace c = false ∧ c ≠ 42 ∧ c ≠ 34 := by
  cases h with
  | index i s hi => exact hi.head
  | slice a b sa sb w1 kw w2 ha =>
    obtain ⟨c, t, rfl, hc⟩ := ha.head
    exact ⟨c, _, rfl, hc⟩

theorem RArrayIndex.ns {a : ArrayIndex} {s : Bytes} (h : RArrayIndex a s) (r : Bytes) :
    dropSpaces (s ++ r) = s ++ r := by
  obtain ⟨c, t, rfl, hc, _⟩ := h.head
  exact dropSpaces_nonspace _ _ hc

/-- what may follow an `ArrayIndex`: whitespace, then `,` or `]` -/
def AiFollow (r : Bytes) : Prop := ∃ w c t, r = w ++ c :: t ∧ Ws w ∧ (c = 44 ∨ c = 93)

/-- `array_index` reads back every rendering of an `ArrayIndex` -/
theorem arrayIndex_render {a : ArrayIndex} {s : Bytes} (ha : RArrayIndex a s) (r : Bytes)
    (hr : AiFollow r) : arrayIndex (s ++ r) = .ok a r := by
  obtain ⟨w, c, t, rfl, hw, hc⟩ := hr
  have hcs : isSpace c = false := by rcases hc with rfl | rfl <;> decide
  have hds : dropSpaces (w ++ c :: t) = c :: t := by
    rw [dropSpaces_ws _ _ hw, dropSpaces_nonspace c t hcs]
  cases ha with
  | index i s hi =>
    have h1 := index_render hi (w ++ c :: t)
      ⟨w, c, t, rfl, hw, by rcases hc with rfl | rfl <;> simp⟩
    simp [arrayIndex, alt, map, separatedPair, delimited, h1, ws_eq, hds,
      tagNoCase_to_miss c t hc, PR.bind]
  | slice a b sa sb w1 kw w2 ha hb hw1 hkw hw2 =>
    simp only [List.append_assoc]
    obtain ⟨k, kt, hk, hkc⟩ := kwTo_head hkw
    have h1 := index_render ha (w1 ++ (kw ++ (w2 ++ (sb ++ (w ++ c :: t)))))
      ⟨w1, k, kt ++ (w2 ++ (sb ++ (w ++ c :: t))), by rw [hk]; simp, hw1,
        by rcases hkc with rfl | rfl <;> simp⟩
    have h2 : dropSpaces (w1 ++ (kw ++ (w2 ++ (sb ++ (w ++ c :: t)))))
        = kw ++ (w2 ++ (sb ++ (w ++ c :: t))) := by
      rw [dropSpaces_ws _ _ hw1, hk]
      exact dropSpaces_nonspace _ _ (by rcases hkc with rfl | rfl <;> decide)
    have h3 := tagNoCase_kw kwTo kw (w2 ++ (sb ++ (w ++ c :: t))) hkw
    have h4 : dropSpaces (w2 ++ (sb ++ (w ++ c :: t))) = sb ++ (w ++ c :: t) := by
      rw [dropSpaces_ws _ _ hw2, hb.ns]
    have h5 := index_render hb (w ++ c :: t) ⟨w, c, t, rfl, hw, by rcases hc with rfl | rfl <;> simp⟩
    simp [arrayIndex, alt, map, separatedPair, delimited, h1, ws_eq, h2, h3, h4, h5, PR.bind]

/-- `delimited(multispace0, array_index, multispace0)` on an element with whitespace around it -/
theorem arrayIndexWs_render {a : ArrayIndex} {s w w' : Bytes} (ha : RArrayIndex a s) (hw : Ws w)
    (hw' : Ws w') (c : UInt8) (t : Bytes) (hc : c = 44 ∨ c = 93) :
    delimited ws arrayIndex ws (w ++ (s ++ (w' ++ c :: t))) = .ok a (c :: t) := by
  have h1 : dropSpaces (w ++ (s ++ (w' ++ c :: t))) = s ++ (w' ++ c :: t) := by
    rw [dropSpaces_ws _ _ hw, ha.ns]
  have h2 := arrayIndex_render ha (w' ++ c :: t) ⟨w', c, t, rfl, hw', hc⟩
  have h3 : dropSpaces (w' ++ c :: t) = c :: t := by
    rw [dropSpaces_ws _ _ hw', dropSpaces_nonspace c t (by rcases hc with rfl | rfl <;> decide)]
  simp [delimited, ws_eq, h1, h2, h3, PR.bind]

/-- Renderings of the body of `[ … ]`: elements with any whitespace around them, separated by
commas. -/
inductive RAiList : List ArrayIndex → Bytes → Prop
  | one (a : ArrayIndex) (w s w' : Bytes) : Ws w → RArrayIndex a s → Ws w' →
      RAiList [a] (w ++ (s ++ w'))
  | cons (a : ArrayIndex) (as : List ArrayIndex) (w s w' t : Bytes) : Ws w → RArrayIndex a s →
      Ws w' → RAiList as t → RAiList (a :: as) (w ++ (s ++ (w' ++ 44 :: t)))

theorem RAiList.length_pos {as : List ArrayIndex} {t : Bytes} (h : RAiList as t) : 0 < t.length := by
  cases h with
  | one a w s w' hw ha hw' =>
    obtain ⟨c, t', rfl, _⟩ := ha.head
    simp; omega
  | cons a as w s w' t hw ha hw' ht =>
    obtain ⟨c, t', rfl, _⟩ := ha.head
    simp; omega

theorem aiList_loop {as : List ArrayIndex} {t : Bytes} (h : RAiList as t) (r : Bytes) :
    ∀ (n : Nat) (acc : List ArrayIndex), t.length < n →
    sepList1Loop (char 44) (delimited ws arrayIndex ws) n (44 :: (t ++ 93 :: r)) acc =
      .ok (acc.reverse ++ as) (93 :: r) := by
  induction h with
  | one a w s w' hw ha hw' =>
    intro n acc hn
    obtain ⟨c, t', hs, _⟩ := ha.head
    have hl : 0 < s.length := by rw [hs]; simp
    obtain ⟨n, rfl⟩ : ∃ m, n = m + 1 := ⟨n - 1, by omega⟩
    obtain ⟨n, rfl⟩ : ∃ m, n = m + 1 := ⟨n - 1, by simp at hn; omega⟩
    have hstep := arrayIndexWs_render ha hw hw' 93 r (Or.inr rfl)
    simp only [List.append_assoc]
    simp only [sepList1Loop, char, beq_self_eq_true, if_true]
    rw [if_neg (by simp)]
    rw [hstep]
    simp
  | cons a as w s w' t hw ha hw' ht ih =>
    intro n acc hn
    obtain ⟨n, rfl⟩ : ∃ m, n = m + 1 := ⟨n - 1, by omega⟩
    have hstep := arrayIndexWs_render ha hw hw' 44 (t ++ 93 :: r) (Or.inl rfl)
    simp only [List.append_assoc, List.cons_append]
    simp only [sepList1Loop, char, beq_self_eq_true, if_true]
    rw [if_neg (by simp)]
    rw [hstep]
    simp only []
    rw [ih n (a :: acc) (by simp at hn; omega)]
    simp

/-- `array_indices` reads back `[`, a rendered element list, `]` -/
theorem arrayIndices_render {as : List ArrayIndex} {t : Bytes} (h : RAiList as t) (r : Bytes) :
    arrayIndices (91 :: (t ++ 93 :: r)) = .ok as r := by
  have hsl : separatedList1 (char 44) (delimited ws arrayIndex ws) (t ++ 93 :: r)
      = .ok as (93 :: r) := by
    cases h with
    | one a w s w' hw ha hw' =>
      have hstep := arrayIndexWs_render ha hw hw' 93 r (Or.inr rfl)
      simp only [List.append_assoc]
      unfold separatedList1
      rw [hstep]
      simp [PR.bind, sepList1Loop, char]
    | cons a as w s w' t hw ha hw' ht =>
      have hstep := arrayIndexWs_render ha hw hw' 44 (t ++ 93 :: r) (Or.inl rfl)
      simp only [List.append_assoc, List.cons_append]
      unfold separatedList1
      rw [hstep]
      simp only [PR.bind]
      rw [aiList_loop ht r _ [a] (by simp; omega)]
      simp
  simp only [arrayIndices, delimited, char_hit, PR.bind, hsl]

/-! ### quoted strings, with the two-byte escapes -/

/-- the escapes `\\ \" \/ \b \f \n \r \t`: escape letter ↦ decoded byte -/
def simpleEsc (x : UInt8) : Option UInt8 :=
  if x == 92 then some 92 else if x == 34 then some 34 else if x == 47 then some 47
  else if x == 98 then some 8 else if x == 102 then some 12 else if x == 110 then some 10
  else if x == 114 then some 13 else if x == 116 then some 9 else none

/-- `QBody d q e`: the text `q` between the quotes decodes to `d` and contains `e` escapes:
every byte other than `\` and `"` stands for itself, `\x` for the byte `simpleEsc x`, and
`\uXXXX` (four hex digits, not a surrogate) for the UTF-8 encoding of that code point. -/
inductive QBody : Bytes → Bytes → Nat → Prop
  | nil : QBody [] [] 0
  | plain (b : UInt8) (d q : Bytes) (e : Nat) : b ≠ 92 → b ≠ 34 → QBody d q e →
      QBody (b :: d) (b :: q) e
  | esc (x y : UInt8) (d q : Bytes) (e : Nat) : simpleEsc x = some y → QBody d q e →
      QBody (y :: d) (92 :: x :: q) (e + 1)
  | uni (h1 h2 h3 h4 : UInt8) (n : Nat) (d q : Bytes) (e : Nat) : h1 ≠ 123 →
      PathStr.decodeHexEscape [h1, h2, h3, h4] = .ok n →
      (n < 0xD800 ∨ (0xDFFF < n ∧ n ≤ 0xFFFF)) → QBody d q e →
      QBody (PathStr.utf8Encode n ++ d) (92 :: 117 :: h1 :: h2 :: h3 :: h4 :: q) (e + 1)

/-- a quoted string token: `"`, a body decoding to the valid UTF-8 string `s`, `"` -/
inductive RQuoted : Bytes → Bytes → Prop
  | mk (s body : Bytes) (e : Nat) : QBody s body e → validUtf8 s = true →
      RQuoted s (34 :: (body ++ [34]))

theorem QBody.of_plain (s : Bytes) (hs : s.all (fun b => b != 92 && b != 34) = true) : QBody s s 0 := by
  induction s with
  | nil => exact .nil
  | cons b t ih =>
    have h : (b ≠ 92 ∧ b ≠ 34) ∧ t.all (fun b => b != 92 && b != 34) = true := by simpa using hs
    exact .plain b t t 0 h.1.1 h.1.2 (ih h.2)

/-- a string without `\` and `"`, written between quotes as it is -/
theorem RQuoted.of_good (s : Bytes) (h : goodQuoted s = true) : RQuoted s (34 :: (s ++ [34])) := by
  have hq : s.all (fun b => b != 92 && b != 34) = true ∧ validUtf8 s = true := by
    simpa [goodQuoted] using h
  exact .mk s s 0 (QBody.of_plain s hq.1) hq.2

theorem simpleEsc_cases : ∀ x : UInt8, simpleEsc x = none ∨ x = 92 ∨ x = 34 ∨ x = 47 ∨ x = 98 ∨
    x = 102 ∨ x = 110 ∨ x = 114 ∨ x = 116 := by bytes_decide

theorem simpleEsc_spec {x y : UInt8} (h : simpleEsc x = some y) (q : Bytes) :
    PathStr.parseEscaped (x :: q) = .ok ([y], q) ∧ x ≠ 117 := by
  rcases simpleEsc_cases x with h0 | rfl | rfl | rfl | rfl | rfl | rfl | rfl | rfl
  · rw [h0] at h; cases h
  all_goals
    have hy : some y = _ := h.symm
    simp [simpleEsc] at hy
    subst hy
    exact ⟨by simp [PathStr.parseEscaped], by decide⟩

theorem QBody.escapes_le {d q : Bytes} {e : Nat} (h : QBody d q e) : e ≤ q.length := by
  induction h with
  | nil => simp
  | plain b d q e _ _ _ ih => simp; omega
  | esc x y d q e _ _ ih => simp; omega
  | uni h1 h2 h3 h4 n d q e _ _ _ _ ih => simp; omega

theorem QBody.eq_of_zero {d q : Bytes} {e : Nat} (h : QBody d q e) : e = 0 → q = d := by
  induction h with
  | nil => intro _; rfl
  | plain b d q e _ _ _ ih => intro he; rw [ih he]
  | esc x y d q e _ _ ih => intro he; omega
  | uni h1 h2 h3 h4 n d q e _ _ _ _ ih => intro he; omega

theorem scan_qbody {d q : Bytes} {e : Nat} (h : QBody d q e) (rest : Bytes) :
    ∀ (n i e0 : Nat), q.length + 1 ≤ n →
      strScan n (q ++ 34 :: rest) i e0 = .ok (i + q.length, e0 + e) := by
  induction h with
  | nil =>
    intro n i e0 hn
    obtain ⟨n, rfl⟩ : ∃ m, n = m + 1 := ⟨n - 1, by omega⟩
    simp [strScan, scan]
  | plain b d q e hb1 hb2 _ ih =>
    intro n i e0 hn
    obtain ⟨n, rfl⟩ : ∃ m, n = m + 1 := ⟨n - 1, by omega⟩
    have h1 : (b == 92) = false := by simpa using hb1
    have h2 : (b == 34) = false := by simpa using hb2
    simp only [strScan, List.cons_append, scan, h1, h2, Bool.false_eq_true, if_false]
    have := ih n (i + 1) e0 (by simp at hn; omega)
    simp only [strScan] at this
    rw [this]
    simp only [List.length_cons]
    congr 2; omega
  | esc x y d q e hx _ ih =>
    intro n i e0 hn
    obtain ⟨n, rfl⟩ : ∃ m, n = m + 1 := ⟨n - 1, by omega⟩
    have hx117 : (x == 117) = false := by simpa using (simpleEsc_spec hx []).2
    have hce : checkEscaped (92 :: x :: (q ++ 34 :: rest)) = some 2 := by
      simp [checkEscaped, hx117]
    simp only [strScan, List.cons_append, scan, beq_self_eq_true, if_true, hce]
    have := ih n (i + 2) (e0 + 1) (by simp at hn; omega)
    simp only [strScan] at this
    simp only [List.drop_succ_cons, List.drop_zero]
    rw [this]
    simp only [List.length_cons]
    congr 2 <;> omega
  | uni h1 h2 h3 h4 n d q e hh _ _ _ ih =>
    intro m i e0 hn
    obtain ⟨m, rfl⟩ : ∃ k, m = k + 1 := ⟨m - 1, by omega⟩
    have hce : checkEscaped (92 :: 117 :: h1 :: h2 :: h3 :: h4 :: (q ++ 34 :: rest)) = some 6 := by
      simp [checkEscaped, hh]
    simp only [strScan, List.cons_append, scan, beq_self_eq_true, if_true, hce]
    have := ih m (i + 6) (e0 + 1) (by simp at hn; omega)
    simp only [strScan] at this
    simp only [List.drop_succ_cons, List.drop_zero]
    rw [this]
    simp only [List.length_cons]
    congr 2 <;> omega

theorem parseStringLoop_qbody {d q : Bytes} {e : Nat} (h : QBody d q e) :
    ∀ (n : Nat) (buf : Bytes), q.length + 1 ≤ n →
      PathStr.parseStringLoop n q buf = .ok (buf ++ d) := by
  induction h with
  | nil =>
    intro n buf hn
    obtain ⟨n, rfl⟩ : ∃ m, n = m + 1 := ⟨n - 1, by omega⟩
    simp [PathStr.parseStringLoop]
  | plain b d q e hb1 hb2 _ ih =>
    intro n buf hn
    obtain ⟨n, rfl⟩ : ∃ m, n = m + 1 := ⟨n - 1, by omega⟩
    have h1 : (b == 92) = false := by simpa using hb1
    simp only [PathStr.parseStringLoop, h1, Bool.false_eq_true, if_false]
    rw [ih n _ (by simp at hn; omega)]
    simp
  | esc x y d q e hx _ ih =>
    intro n buf hn
    obtain ⟨n, rfl⟩ : ∃ m, n = m + 1 := ⟨n - 1, by omega⟩
    simp only [PathStr.parseStringLoop, beq_self_eq_true, if_true, (simpleEsc_spec hx q).1, Res.bind]
    rw [ih n _ (by simp at hn; omega)]
    simp
  | uni h1 h2 h3 h4 n d q e hh hdec hn' _ ih =>
    intro m buf hm
    obtain ⟨m, rfl⟩ : ∃ k, m = k + 1 := ⟨m - 1, by omega⟩
    have hru : PathStr.readUnicode (h1 :: h2 :: h3 :: h4 :: q) = .ok ([h1, h2, h3, h4], q) := by
      have : (h1 == 123) = false := by simpa using hh
      simp [PathStr.readUnicode, this, PathStr.readExact4]
    have hcu : PathStr.charFromU32Unwrap n = .ok (PathStr.utf8Encode n) := by
      unfold PathStr.charFromU32Unwrap
      rw [if_neg (by omega)]
    have hpu : PathStr.parseEscapedU (h1 :: h2 :: h3 :: h4 :: q) = .ok (PathStr.utf8Encode n, q) := by
      unfold PathStr.parseEscapedU
      rw [hru]
      simp only [Res.bind, hdec]
      rw [if_neg (by omega), if_neg (by omega), hcu]
    have hpe : PathStr.parseEscaped (117 :: h1 :: h2 :: h3 :: h4 :: q) = .ok (PathStr.utf8Encode n, q) := by
      simp [PathStr.parseEscaped, hpu]
    simp only [PathStr.parseStringLoop, beq_self_eq_true, if_true, hpe, Res.bind]
    rw [ih m _ (by simp at hm; omega)]
    simp

/-- `string` reads back every quoted token -/
theorem string_quoted {s q : Bytes} (h : RQuoted s q) (r : Bytes) : string (q ++ r) = .ok s r := by
  cases h with
  | mk body e hb hu =>
    have hscan : strScan ((34 :: (body ++ 34 :: r)).length + 1) (body ++ 34 :: r) 1 0
        = .ok (1 + body.length, 0 + e) := scan_qbody hb r _ 1 0 (by simp; omega)
    have e0 : 34 :: (body ++ [34]) ++ r = 34 :: (body ++ 34 :: r) := by simp
    rw [e0]
    unfold string
    simp only [bne_self_eq_false, Bool.false_eq_true, if_false]
    rw [hscan]
    have hlt : 1 + body.length < (34 :: (body ++ 34 :: r)).length := by simp; omega
    simp only []
    rw [if_pos hlt]
    have htake : (List.take (1 + body.length) (34 :: (body ++ 34 :: r))).drop 1 = body := by
      rw [Nat.add_comm, List.take_succ_cons]; simp
    have hdrop : List.drop (1 + body.length + 1) (34 :: (body ++ 34 :: r)) = r := by
      rw [Nat.add_comm 1 body.length]
      simp
    rw [htake, hdrop]
    by_cases he : e = 0
    · have := hb.eq_of_zero he
      subst he
      subst this
      simp [hu]
    · have hle := hb.escapes_le
      have hne : (0 + e == 0) = false := by simpa using he
      rw [hne]
      simp only [Bool.false_eq_true, if_false]
      rw [if_neg (by omega)]
      have hp : PathStr.parseString body = .ok s := by
        unfold PathStr.parseString
        rw [parseStringLoop_qbody hb _ [] (by omega)]
        simp [Res.bind, hu]
      rw [hp]
      rfl

/-! ### names and steps -/

/-- Renderings of a member name after `.` or `:`: unquoted (`goodField`: non-empty, no
delimiter, no backslash, valid UTF-8) or a quoted token. -/
inductive RName : Bytes → Bytes → Prop
  | raw (s : Bytes) : goodField s = true → RName s s
  | quoted (s q : Bytes) : RQuoted s q → RName s q

theorem RName.head {s t : Bytes} (h : RName s t) :
    ∃ c t', t = c :: t' ∧ c ≠ 42 ∧ isSpace c = false := by
  cases h with
  | raw hs =>
    cases s with
    | nil => simp [goodField] at hs
    | cons b t =>
      have hg : (b :: t).all plainNameByte = true ∧ validUtf8 (b :: t) = true := by
        simpa [goodField] using hs
      have hb : plainNameByte b = true := (List.all_eq_true.mp hg.1) b (by simp)
      exact ⟨b, t, rfl, (plainNameByte_props b hb).2.2.2, plainNameByte_not_space b hb⟩
  | quoted q hq =>
    cases hq with
    | mk body e _ _ => exact ⟨34, _, rfl, by decide, by decide⟩

/-- `alt((preceded(char(c), string), preceded(char(c), raw_string)))` on `c`, a rendered name -/
theorem field_render (c : UInt8) {s t : Bytes} (h : RName s t) (r : Bytes) (hr : HeadOk isRawDelim r) :
    alt (preceded (char c) string) (preceded (char c) rawString) (c :: (t ++ r)) = .ok s r := by
  cases h with
  | raw hs =>
    cases s with
    | nil => simp [goodField] at hs
    | cons b t =>
      have hg : (b :: t).all plainNameByte = true ∧ validUtf8 (b :: t) = true := by
        simpa [goodField] using hs
      have hb : plainNameByte b = true := (List.all_eq_true.mp hg.1) b (by simp)
      obtain ⟨_, _, p3, _⟩ := plainNameByte_props b hb
      have h2 : string (b :: t ++ r) = .error :=
        string_error _ (by intro t' e; simp at e; exact p3 e.1)
      have h3 := rawString_plain (b :: t) r (by simp) hg.1 hg.2 (delimHead_of hr)
      generalize b :: t ++ r = X at h2 h3 ⊢
      simp [alt, preceded, char, h2, h3, PR.bind]
  | quoted q hq =>
    have h1 := string_quoted hq r
    generalize t ++ r = X at h1 ⊢
    simp [alt, preceded, char, h1, PR.bind]

/-- Renderings of one plain path step (no surrounding whitespace). -/
inductive RStep : Path → Bytes → Prop
  | dotWildcard : RStep .dotWildcard [46, 42]
  | bracketWildcard (w1 w2 : Bytes) : Ws w1 → Ws w2 →
      RStep .bracketWildcard (91 :: (w1 ++ 42 :: (w2 ++ [93])))
  | dotField (s t : Bytes) : RName s t → RStep (.dotField s) (46 :: t)
  | colonField (s t : Bytes) : RName s t → RStep (.colonField s) (58 :: t)
  | objectField (s q w1 w2 : Bytes) : RQuoted s q → Ws w1 → Ws w2 →
      RStep (.objectField s) (91 :: (w1 ++ (q ++ (w2 ++ [93]))))
  | arrayIndices (as : List ArrayIndex) (t : Bytes) : RAiList as t →
      RStep (.arrayIndices as) (91 :: (t ++ [93]))

/-- a step starts with `.`, `:` or `[` -/
def stepHead (c : UInt8) : Bool := c == 46 || c == 58 || c == 91

theorem RStep.head {p : Path} {s : Bytes} (h : RStep p s) : ∃ c t, s = c :: t ∧ stepHead c = true := by
  cases h <;> exact ⟨_, _, rfl, by decide⟩

theorem RStep.ns {p : Path} {s : Bytes} (h : RStep p s) (r : Bytes) : dropSpaces (s ++ r) = s ++ r := by
  obtain ⟨c, t, rfl, hc⟩ := h.head
  have : ∀ c, stepHead c = true → isSpace c = false := by bytes_decide
  exact dropSpaces_nonspace _ _ (this c hc)

theorem RQuoted.head {s q : Bytes} (h : RQuoted s q) : ∃ t, q = 34 :: t := by
  cases h; exact ⟨_, rfl⟩

theorem index_quote (t : Bytes) : index (34 :: t) = .error := by
  have h1 : i32 (34 :: t) = .error := i32_nondigit _ _ (by decide) (by decide) (by decide)
  simp [index, alt, map, preceded, tuple4, h1, tagNoCase, isPrefixNoCase, kwLast, lowerByte, PR.bind]

theorem bracketWildcard_miss (X : Bytes) (c : UInt8) (t : Bytes) (h : dropSpaces X = c :: t)
    (hc : c ≠ 42) : bracketWildcard (91 :: X) = .error := by
  simp [bracketWildcard, value, delimited, char, ws_eq, h, hc, PR.bind]

theorem innerPath_dot (X r s : Bytes) (c : UInt8) (t : Bytes) (hX : X = c :: t) (hc : c ≠ 42)
    (hf : dotField (46 :: X) = .ok s r) : innerPath (46 :: X) = .ok (.dotField s) r := by
  have hb42 : (42 == c) = false := by simpa using (fun h : (42 : UInt8) = c => hc h.symm)
  have h1 : value Path.dotWildcard (tag [46, 42]) (46 :: X) = .error := by
    rw [hX]; simp [value, tag, isPrefix, hb42, PR.bind]
  have h2 : value Path.bracketWildcard bracketWildcard (46 :: X) = .error := by
    simp [value, bracketWildcard, delimited, char, PR.bind]
  have h3 : map colonField Path.colonField (46 :: X) = .error := by
    simp [map, colonField, alt, preceded, char, PR.bind]
  unfold innerPath
  rw [alt_error h1, alt_error h2, alt_error h3, alt_ok (map_ok hf)]

theorem innerPath_colon (X r s : Bytes) (hf : colonField (58 :: X) = .ok s r) :
    innerPath (58 :: X) = .ok (.colonField s) r := by
  have h1 : value Path.dotWildcard (tag [46, 42]) (58 :: X) = .error := by
    simp [value, tag, isPrefix, PR.bind]
  have h2 : value Path.bracketWildcard bracketWildcard (58 :: X) = .error := by
    simp [value, bracketWildcard, delimited, char, PR.bind]
  unfold innerPath
  rw [alt_error h1, alt_error h2, alt_ok (map_ok hf)]

theorem innerPath_bracket_pre (X : Bytes) :
    value Path.dotWildcard (tag [46, 42]) (91 :: X) = .error ∧
    map colonField Path.colonField (91 :: X) = .error ∧
    map dotField Path.dotField (91 :: X) = .error := by
  refine ⟨?_, ?_, ?_⟩
  · simp [value, tag, isPrefix, PR.bind]
  · simp [map, colonField, alt, preceded, char, PR.bind]
  · simp [map, dotField, alt, preceded, char, PR.bind]

theorem innerPath_bw (X r : Bytes) (h : bracketWildcard (91 :: X) = .ok () r) :
    innerPath (91 :: X) = .ok .bracketWildcard r := by
  obtain ⟨h1, _, _⟩ := innerPath_bracket_pre X
  unfold innerPath
  rw [alt_error h1, alt_ok (value_ok h)]

theorem innerPath_ai (X r : Bytes) (as : List ArrayIndex) (hbw : bracketWildcard (91 :: X) = .error)
    (h : arrayIndices (91 :: X) = .ok as r) : innerPath (91 :: X) = .ok (.arrayIndices as) r := by
  obtain ⟨h1, h3, h4⟩ := innerPath_bracket_pre X
  unfold innerPath
  rw [alt_error h1, alt_error (value_error hbw), alt_error h3, alt_error h4, alt_ok (map_ok h)]

theorem innerPath_of (X r s : Bytes) (hbw : bracketWildcard (91 :: X) = .error)
    (hai : arrayIndices (91 :: X) = .error)
    (h : objectField (91 :: X) = .ok s r) : innerPath (91 :: X) = .ok (.objectField s) r := by
  obtain ⟨h1, h3, h4⟩ := innerPath_bracket_pre X
  unfold innerPath
  rw [alt_error h1, alt_error (value_error hbw), alt_error h3, alt_error h4,
    alt_error (map_error hai), map_ok h]

theorem bracketWildcard_hit (X Y r : Bytes) (h1 : dropSpaces X = 42 :: Y)
    (h2 : dropSpaces Y = 93 :: r) : bracketWildcard (91 :: X) = .ok () r := by
  simp [bracketWildcard, value, delimited, char, ws_eq, h1, h2, PR.bind]

theorem objectField_hit (X Y Z r s : Bytes) (h1 : dropSpaces X = Y) (h2 : string Y = .ok s Z)
    (h3 : dropSpaces Z = 93 :: r) : objectField (91 :: X) = .ok s r := by
  simp [objectField, delimited, terminated, preceded, char, ws_eq, h1, h2, h3, PR.bind]

theorem arrayIndices_quote (X t : Bytes) (h : dropSpaces X = 34 :: t) :
    arrayIndices (91 :: X) = .error := by
  have h4 : arrayIndex (34 :: t) = .error := by
    simp [arrayIndex, alt, map, separatedPair, index_quote, PR.bind]
  simp [arrayIndices, delimited, separatedList1, char, ws_eq, h, h4, PR.bind]

/-- `inner_path` reads back every rendering of a plain step -/
theorem innerPath_render {p : Path} {s : Bytes} (h : RStep p s) (r : Bytes)
    (hr : HeadOk isRawDelim r) : innerPath (s ++ r) = .ok p r := by
  cases h with
  | dotWildcard =>
    simp [innerPath, alt, value, tag, isPrefix, PR.bind]
  | bracketWildcard w1 w2 hw1 hw2 =>
    simp only [List.append_assoc, List.cons_append, List.nil_append]
    have h1 : dropSpaces (w1 ++ 42 :: (w2 ++ 93 :: r)) = 42 :: (w2 ++ 93 :: r) := by
      rw [dropSpaces_ws _ _ hw1]; exact dropSpaces_nonspace _ _ (by decide)
    have h2 : dropSpaces (w2 ++ 93 :: r) = 93 :: r := by
      rw [dropSpaces_ws _ _ hw2]; exact dropSpaces_nonspace _ _ (by decide)
    exact innerPath_bw _ _ (bracketWildcard_hit _ _ _ h1 h2)
  | dotField s t hn =>
    obtain ⟨c, t', rfl, hc42, _⟩ := hn.head
    exact innerPath_dot (c :: t' ++ r) r s c (t' ++ r) rfl hc42 (field_render 46 hn r hr)
  | colonField s t hn =>
    exact innerPath_colon (t ++ r) r s (field_render 58 hn r hr)
  | objectField s q w1 w2 hq hw1 hw2 =>
    simp only [List.append_assoc, List.cons_append, List.nil_append]
    obtain ⟨qt, hqt⟩ := hq.head
    have h1 : dropSpaces (w1 ++ (q ++ (w2 ++ 93 :: r))) = q ++ (w2 ++ 93 :: r) := by
      rw [dropSpaces_ws _ _ hw1, hqt]; exact dropSpaces_nonspace _ _ (by decide)
    have h1' : dropSpaces (w1 ++ (q ++ (w2 ++ 93 :: r))) = 34 :: (qt ++ (w2 ++ 93 :: r)) := by
      rw [h1, hqt]; rfl
    have h2 : dropSpaces (w2 ++ 93 :: r) = 93 :: r := by
      rw [dropSpaces_ws _ _ hw2]; exact dropSpaces_nonspace _ _ (by decide)
    have h3 := string_quoted hq (w2 ++ 93 :: r)
    exact innerPath_of _ _ _ (bracketWildcard_miss _ _ _ h1' (by decide))
      (arrayIndices_quote _ _ h1') (objectField_hit _ _ _ _ _ h1 h3 h2)
  | arrayIndices as t ht =>
    simp only [List.append_assoc, List.cons_append, List.nil_append]
    have hai := arrayIndices_render ht r
    have hbw : bracketWildcard (91 :: (t ++ 93 :: r)) = .error := by
      cases ht with
      | one a w s w' hw ha hw' =>
        obtain ⟨c, t', rfl, hc1, hc2, _⟩ := ha.head
        have h1 : dropSpaces (w ++ (c :: t' ++ w') ++ 93 :: r) = c :: (t' ++ (w' ++ 93 :: r)) := by
          simp only [List.append_assoc, List.cons_append]
          rw [dropSpaces_ws _ _ hw, dropSpaces_nonspace _ _ hc1]
        exact bracketWildcard_miss _ _ _ h1 hc2
      | cons a as w s w' t hw ha hw' ht =>
        obtain ⟨c, t', rfl, hc1, hc2, _⟩ := ha.head
        have h1 : dropSpaces (w ++ (c :: t' ++ (w' ++ 44 :: t)) ++ 93 :: r)
            = c :: (t' ++ (w' ++ 44 :: (t ++ 93 :: r))) := by
          simp only [List.append_assoc, List.cons_append]
          rw [dropSpaces_ws _ _ hw, dropSpaces_nonspace _ _ hc1]
        exact bracketWildcard_miss _ _ _ h1 hc2
    exact innerPath_ai _ _ _ hbw hai

/-- `inner_path` fails on input that does not start with `.`, `:` or `[` -/
theorem innerPath_error (r : Bytes) (h : HeadOk (fun c => !stepHead c) r) : innerPath r = .error := by
  cases r with
  | nil =>
    simp [innerPath, alt, value, map, tag, isPrefix, bracketWildcard, delimited,
      colonField, dotField, arrayIndices, objectField, preceded, terminated, char, PR.bind]
  | cons c t =>
    have hc : c ≠ 46 ∧ c ≠ 58 ∧ c ≠ 91 := by
      have := h.head
      simpa [stepHead, and_assoc] using this
    have h1 : (46 == c) = false := by simpa using (fun e : (46 : UInt8) = c => hc.1 e.symm)
    simp [innerPath, alt, value, map, tag, isPrefix, bracketWildcard, delimited,
      colonField, dotField, arrayIndices, objectField, preceded, terminated, char, hc.1, hc.2.1,
      hc.2.2, h1, PR.bind]

/-- `delimited(multispace0, inner_path, multispace0)`: only the input after the leading
whitespace matters -/
theorem innerPathWs_render {p : Path} {s : Bytes} (h : RStep p s) (x : Bytes)
    (hx : HeadOk isRawDelim x) (i : Bytes) (hi : dropSpaces i = s ++ x) :
    delimited ws innerPath ws i = .ok p (dropSpaces x) := by
  simp [delimited, ws_eq, hi, innerPath_render h x hx, PR.bind]

theorem innerPathWs_error (i : Bytes) (h : HeadOk (fun c => !stepHead c) (dropSpaces i)) :
    delimited ws innerPath ws i = .error := by
  simp [delimited, ws_eq, innerPath_error _ h, PR.bind]

/-- Renderings of a sequence of plain steps: any whitespace before and after each step. -/
inductive RPlainSteps : List Path → Bytes → Prop
  | nil : RPlainSteps [] []
  | cons (p : Path) (ps : List Path) (w s w' t : Bytes) : Ws w → RStep p s → Ws w' →
      RPlainSteps ps t → RPlainSteps (p :: ps) (w ++ (s ++ (w' ++ t)))

/-- what may follow a step sequence (after whitespace): a delimiter that does not start a step -/
def afterSteps (c : UInt8) : Bool := isRawDelim c && !stepHead c

theorem afterSteps_delim : ∀ c, afterSteps c = true → isRawDelim c = true := by bytes_decide
theorem afterSteps_noStep : ∀ c, afterSteps c = true → (!stepHead c) = true := by bytes_decide
theorem stepHead_delim : ∀ c, stepHead c = true → isRawDelim c = true := by bytes_decide

theorem RPlainSteps.follow {ps : List Path} {t : Bytes} (h : RPlainSteps ps t) (r : Bytes)
    (hr : HeadOk isRawDelim r) : HeadOk isRawDelim (t ++ r) := by
  cases h with
  | nil => exact hr
  | cons p ps w s w' t hw hs hw' ht =>
    cases w with
    | nil =>
      obtain ⟨c, t', rfl, hc⟩ := hs.head
      exact HeadOk.cons (stepHead_delim c hc)
    | cons b w => exact HeadOk.cons (space_rawDelim b hw.cons.1)

/-- `many0(delimited(multispace0, inner_path, multispace0))` reads back a rendered sequence of
plain steps and stops at `r`; the remaining input is `r` up to leading whitespace. -/
theorem plainSteps_loop {ps : List Path} {s : Bytes} (h : RPlainSteps ps s) (r : Bytes)
    (hr : HeadOk afterSteps (dropSpaces r)) :
    ∀ (i : Bytes), dropSpaces i = dropSpaces (s ++ r) → ∀ (m : Nat) (acc : List Path),
      i.length < m → ∃ r', many0Loop (delimited ws innerPath ws) m i acc
        = .ok (acc.reverse ++ ps) r' ∧ dropSpaces r' = dropSpaces r := by
  have hrd : HeadOk isRawDelim r :=
    HeadOk.of_dropSpaces space_rawDelim (hr.mono afterSteps_delim)
  induction h with
  | nil =>
    intro i hi m acc hm
    obtain ⟨m, rfl⟩ : ∃ k, m = k + 1 := ⟨m - 1, by omega⟩
    have he := innerPathWs_error i (by rw [hi]; exact hr.mono afterSteps_noStep)
    exact ⟨i, by simp [many0Loop, he], hi⟩
  | cons p ps w s w' t hw hs hw' ht ih =>
    intro i hi m acc hm
    obtain ⟨m, rfl⟩ : ∃ k, m = k + 1 := ⟨m - 1, by omega⟩
    have hi' : dropSpaces i = s ++ (w' ++ (t ++ r)) := by
      rw [hi]; simp only [List.append_assoc]
      rw [dropSpaces_ws _ _ hw, hs.ns]
    have hx : HeadOk isRawDelim (w' ++ (t ++ r)) :=
      HeadOk.ws_append space_rawDelim hw' (ht.follow r hrd)
    have hstep := innerPathWs_render hs _ hx i hi'
    have hd : dropSpaces (w' ++ (t ++ r)) = dropSpaces (t ++ r) := dropSpaces_ws _ _ hw'
    rw [hd] at hstep
    have hlen : (dropSpaces (t ++ r)).length < i.length := by
      have h1 := dropSpaces_length i
      have h2 := dropSpaces_length (t ++ r)
      rw [hi'] at h1
      obtain ⟨c, t', rfl, _⟩ := hs.head
      simp at h1 h2 ⊢
      omega
    have hne : ((dropSpaces (t ++ r)).length == i.length) = false := by
      simp; omega
    obtain ⟨r', h1, h2⟩ := ih (dropSpaces (t ++ r)) (dropSpaces_idem _) m (p :: acc) (by omega)
    refine ⟨r', ?_, h2⟩
    simp only [many0Loop, hstep, hne, Bool.false_eq_true, if_false]
    rw [h1]
    simp

end PathRT2
end Jsonb
