import JsonbModel.Proofs.TranslatedAgreeF12

set_option linter.unusedSimpArgs false
set_option linter.unusedVariables false

namespace Jsonb.TrAgree
open Jsonb.Rs

/-- what the loops assume about the function they call: it agrees with `keyScalar` below some fuel -/
def KeyRecOK (f : Nat) (rec : Int → Tr.JEntry → Bytes → Bytes → Res Bytes) : Prop :=
  ∀ f', f' < f → ∀ (depth : Nat) (je : JE) (value buf : Bytes) (k : Nat), depth ≤ 255 →
    value.length < 9223372036854775808 → je.len < 4294967296 → kasScalar k je.ty value = true →
    Fn.keyScalar f' depth je value ≠ .fuel →
    panicAny (rec (depth : Int) (ofJE je) value buf) = panicAny ((Fn.keyScalar f' depth je value).map (buf ++ ·))

theorem KeyRecOK.mono {f f' : Nat} {rec} (h : KeyRecOK f rec) (hf : f' ≤ f) : KeyRecOK f' rec :=
  fun f'' hlt => h f'' (by omega)

theorem map_map_append (r : Res Bytes) (a b : Bytes) :
    (r.map (b ++ ·)).map (a ++ ·) = r.map ((a ++ b) ++ ·) := by
  cases r <;> simp [Res.map, Res.bind, List.append_assoc]

/-- the final buffer once the loop is over -/
def finishA (c : Ctl Bytes (Bytes × Int × Int)) : Res Bytes :=
  match c with
  | .val s => .ok s.1
  | .ret r => r

theorem ka_loop1_step (rec : Int → Tr.JEntry → Bytes → Bytes → Res Bytes) (depth : Int) (value : Bytes)
    (i : Int) (buf : Bytes) (jo vo : Nat) (hjo : jo + 4 < 18446744073709551616)
    (hv : value.length < 9223372036854775808) :
    Tr.array_convert_to_comparable.loop1 rec depth value i (buf, (jo : Int), (vo : Int)) =
      match readU32At value jo with
      | none => Ctl.ret (.ok buf)
      | some w =>
        if vo ≤ value.length then
          (Ctl.ofRes (rec depth ⟨(jeType w : Nat), (jeLen w : Nat)⟩ (value.drop vo) buf) >>= fun b =>
            Ctl.val (.next (b, ((jo + 4 : Nat) : Int), ((vo + jeLen w : Nat) : Int))))
        else Ctl.ret (.panic "range start index out of range for slice") := by
  unfold Tr.array_convert_to_comparable.loop1
  dsimp only
  rw [read_u32_agrees value jo (Rs.le_max_of_lt hjo)]
  cases hw : readU32At value jo with
  | none => simp only [Rs.resOpt, Ctl.val_bind', Ctl.ret_bind', Rs.loopStep_ret']
  | some w =>
    have hl := jeLen_lt w
    have h4 : ((4 : Nat) : Int) = 4 := rfl
    simp only [Rs.resOpt, Ctl.val_bind', Ctl.pure_eq', decode_jentry_agrees, Ctl.ofRes_ok', sliceFrom_model]
    by_cases h1 : vo ≤ value.length
    · simp only [if_pos h1, sliceFrom_model_ok _ _ h1, Ctl.ofRes_ok', Ctl.val_bind']
      cases rec depth ⟨(jeType w : Nat), (jeLen w : Nat)⟩ (value.drop vo) buf with
      | err e => simp only [Ctl.ofRes_err', Ctl.ret_bind', Rs.loopStep_err']
      | panic s => simp only [Ctl.ofRes_panic', Ctl.ret_bind', Rs.loopStep_panic']
      | fuel => rfl
      | ok b =>
        simp only [Ctl.ofRes_ok', Ctl.val_bind', Ctl.pure_eq', ← h4, Rs.add_usize_nat jo 4 hjo,
          Rs.usize_nat (jeLen w) (by omega), Rs.add_usize_nat vo (jeLen w) (by omega), Rs.loopStep_val']
    · simp only [if_neg h1, sliceFrom_model_panic _ _ h1, Ctl.ofRes_panic', Ctl.ret_bind', Rs.loopStep_panic']

/-- the loop of `array_convert_to_comparable` is the model's `keyArray` -/
theorem ka_run (rec : Int → Tr.JEntry → Bytes → Bytes → Res Bytes) (depth : Nat) (value : Bytes) (hd : depth ≤ 255)
    (hv : value.length < 9223372036854775808) :
    ∀ (n f : Nat) (i : Int) (buf : Bytes) (jo vo nl k : Nat), KeyRecOK f rec → n ≤ nl →
      jo + 4 * n + 4 < 18446744073709551616 → kasItems k value nl jo vo = true →
      Fn.keyArray f depth n value jo vo ≠ .fuel →
      panicAny (finishA (Rs.forRangeAux (Tr.array_convert_to_comparable.loop1 rec (depth : Int) value) n i (buf, (jo : Int), (vo : Int)))) =
        panicAny ((Fn.keyArray f depth n value jo vo).map (buf ++ ·)) := by
  intro n
  induction n with
  | zero =>
    intro f i buf jo vo nl k hrec _ _ _ hne
    cases f with
    | zero => simp [Fn.keyArray] at hne
    | succ f => simp [Fn.keyArray, Rs.forRangeAux_zero, finishA, Res.map, Res.bind]
  | succ n ih =>
    intro f i buf jo vo nl k hrec hnl hjo hk hne
    cases f with
    | zero => simp [Fn.keyArray] at hne
    | succ f =>
      have hstep := ka_loop1_step rec (depth : Int) value i buf jo vo (by omega) hv
      obtain ⟨nl', rfl⟩ : ∃ m, nl = m + 1 := ⟨nl - 1, by omega⟩
      rw [Fn.keyArray] at hne ⊢
      cases hw : readU32At value jo with
      | none =>
        rw [hw] at hstep
        rw [Rs.forRangeAux_ret _ _ _ _ _ hstep]
        simp [finishA, Res.map, Res.bind]
      | some w =>
        rw [hw] at hstep hne
        dsimp only at hstep hne ⊢
        by_cases h1 : vo ≤ value.length
        swap
        · rw [if_neg h1] at hstep
          rw [Rs.forRangeAux_ret _ _ _ _ _ hstep, sliceFrom_model_panic _ _ h1]
          rfl
        rw [if_pos h1] at hstep
        rw [sliceFrom_model_ok _ _ h1] at hne ⊢
        dsimp only at hne ⊢
        obtain ⟨k', hk1, hk2⟩ := kasItems_succ k value nl' jo vo w hk hw
        have hs : Fn.keyScalar f depth (JE.ofWord w) (value.drop vo) ≠ .fuel := by
          intro c; rw [c] at hne; exact hne rfl
        have hcall := hrec f (by omega) depth (JE.ofWord w) (value.drop vo) buf k' hd (by simp; omega)
          (by have := jeLen_lt w; simp only [JE.ofWord]; omega) hk1 hs
        simp only [ofJE, JE.ofWord] at hcall
        cases hdd : Fn.keyScalar f depth (JE.ofWord w) (value.drop vo) with
        | fuel => exact absurd hdd hs
        | err e =>
          simp only [JE.ofWord] at hdd
          rw [hdd] at hcall
          rw [panicAny_err _ _ hcall] at hstep
          simp only [Ctl.ofRes_err', Ctl.ret_bind'] at hstep
          rw [Rs.forRangeAux_ret _ _ _ _ _ hstep]
          rfl
        | panic p =>
          simp only [JE.ofWord] at hdd
          rw [hdd] at hcall
          obtain ⟨p', hp'⟩ := panicAny_panic _ _ hcall
          rw [hp'] at hstep
          simp only [Ctl.ofRes_panic', Ctl.ret_bind'] at hstep
          rw [Rs.forRangeAux_ret _ _ _ _ _ hstep]
          rfl
        | ok kk =>
          rw [hdd] at hne
          simp only [JE.ofWord] at hdd
          rw [hdd] at hcall
          rw [panicAny_ok _ _ hcall] at hstep
          simp only [Ctl.ofRes_ok', Ctl.val_bind'] at hstep
          rw [Rs.forRangeAux_next _ _ _ _ _ hstep]
          dsimp only at hne ⊢
          have hne' : Fn.keyArray f depth n value (jo + 4) (vo + jeLen w) ≠ .fuel := by
            intro c; rw [c] at hne; exact hne rfl
          rw [ih f (i + 1) (buf ++ kk) (jo + 4) (vo + jeLen w) nl' k' (hrec.mono (by omega)) (by omega) (by omega) hk2 hne',
            map_map_append]

end Jsonb.TrAgree
