/-
C08 refinement, part 7: no panics, and errors exactly where the spec is undefined.

On a supported AST and a good document the model's evaluator, at any fuel, either runs out of
fuel, or succeeds (then `SelectRefine3` applies), or returns `Err` — and in that last case the
spec evaluator is `none` at *every* fuel (the expression is one the evaluator does not
support: arithmetic, or a bare operand in filter position).  It never panics.
-/
import JsonbModel.Proofs.SelectRefine6

namespace Jsonb
open JV Sel

def SNone {α : Type} (g : Nat → Option α) : Prop := ∀ f, g f = none

/-- out of fuel, or `Ok`, or `Err` with the side fact `sn`; never a panic -/
def Tri {α : Type} (r : Res α) (sn : Prop) : Prop :=
  r = .fuel ∨ (∃ a, r = .ok a) ∨ ((∃ e, r = .err e) ∧ sn)

theorem Tri_mono {α : Type} {r : Res α} {sn sn' : Prop} (h : Tri r sn) (hs : sn → sn') : Tri r sn' := by
  rcases h with h | h | ⟨h, h'⟩
  · exact .inl h
  · exact .inr (.inl h)
  · exact .inr (.inr ⟨h, hs h'⟩)

theorem SNone_succ {α : Type} {g : Nat → Option α} (h0 : g 0 = none) (hs : ∀ f, g (f + 1) = none) : SNone g := by
  intro f; cases f with
  | zero => exact h0
  | succ f => exact hs f

theorem evalSteps_zero (v : JV) (paths : List Path) (items : List JV) : Spec.evalSteps 0 v paths items = none := by
  simp [Spec.evalSteps]
theorem evalPaths_zero (v : JV) (cur : Option JV) (paths : List Path) : Spec.evalPaths 0 v cur paths = none := by
  simp [Spec.evalPaths]
theorem filterItems_zero (v : JV) (e : Expr) (items : List JV) : Spec.filterItems 0 v e items = none := by
  simp [Spec.filterItems]
theorem evalFilter_zero (v item : JV) (e : Expr) : Spec.evalFilter 0 v item e = none := by
  simp [Spec.evalFilter]

/-- `convert_expr_val` never fails on a supported operand (given one unit of fuel) -/
theorem exprVal_total (v₀ : JV) (hg : goodTop v₀ = true) (fuel : Nat) (pos : Pos) (w : JV) (e : Expr)
    (hs : suppOperand e = true) (hr : Sel.Rep (encodeSpec v₀) pos w) :
    ∃ vals, exprVal (fuel + 1) (encodeSpec v₀) pos e = .ok vals := by
  cases e with
  | value pv => exact ⟨[pv], by simp only [exprVal]⟩
  | paths paths =>
    simp only [suppOperand, Bool.and_eq_true] at hs
    have hrs := startOf_rep v₀ hg (some pos) (some w) paths _ (startOf_exprStart _ pos paths) hr
    obtain ⟨ps1, h1⟩ := operandSteps_total (encodeSpec v₀) (paths.drop 1)
      [exprStart (encodeSpec v₀) pos paths] [sstartOf v₀ (some w) paths] hs.2 ⟨hrs, trivial⟩
    obtain ⟨ws1, hr1, _⟩ := operandSteps_rep v₀ (encodeSpec v₀) (paths.drop 1) _
      [sstartOf v₀ (some w) paths] ps1 h1 ⟨hrs, trivial⟩
    obtain ⟨vals, h2, _⟩ := valuesOf_rep (encodeSpec v₀) ps1 ws1 hr1
    exact ⟨vals, by rw [exprVal_paths, h1]; exact h2⟩
  | binaryOp op l r => simp [suppOperand] at hs
  | arithUnary op e => simp [suppOperand] at hs
  | arithBinary op l r => simp [suppOperand] at hs
  | existsFn ps => simp [suppOperand] at hs

/-! ### the four fuel-indexed statements -/

def FindT (v₀ : JV) (fuel : Nat) : Prop :=
  ∀ (cur : Option Pos) (scur : Option JV) (paths : List Path), suppPaths paths = true →
    RepO (encodeSpec v₀) cur scur → (cur = none → paths.head? ≠ some .current) →
    Tri (findPositions fuel (encodeSpec v₀) cur paths) (SNone (fun f => Spec.evalPaths f v₀ scur paths))

def WalkT (v₀ : JV) (fuel : Nat) : Prop :=
  ∀ (paths : List Path) (ps : List Pos) (ws : List JV), suppPaths paths = true →
    Sel.RepL (encodeSpec v₀) ps ws →
    Tri (walk fuel (encodeSpec v₀) paths ps) (SNone (fun f => Spec.evalSteps f v₀ paths ws))

def FilterAllT (v₀ : JV) (fuel : Nat) : Prop :=
  ∀ (e : Expr) (ps : List Pos) (ws : List JV), suppFilter e = true →
    Sel.RepL (encodeSpec v₀) ps ws →
    Tri (filterAll fuel (encodeSpec v₀) e ps) (SNone (fun f => Spec.filterItems f v₀ e ws))

def FilterExprT (v₀ : JV) (fuel : Nat) : Prop :=
  ∀ (e : Expr) (pos : Pos) (w : JV), suppFilter e = true →
    Sel.Rep (encodeSpec v₀) pos w →
    Tri (filterExpr fuel (encodeSpec v₀) pos e) (SNone (fun f => Spec.evalFilter f v₀ w e))

theorem findT_succ (v₀ : JV) (hg : goodTop v₀ = true) (fuel : Nat) (hw : WalkT v₀ fuel) :
    FindT v₀ (fuel + 1) := by
  intro cur scur paths hs hc hcur
  obtain ⟨start, hst⟩ := startOf_total (encodeSpec v₀) cur paths hcur
  have hrs := startOf_rep v₀ hg cur scur paths start hst hc
  rw [findPositions_succ, hst]
  refine Tri_mono (hw paths [start] [sstartOf v₀ scur paths] hs ⟨hrs, trivial⟩) (fun hn => ?_)
  exact SNone_succ (evalPaths_zero _ _ _) (fun f => by rw [evalPaths_succ]; exact hn f)

theorem walkT_succ (v₀ : JV) (hg : goodTop v₀ = true) (fuel : Nat) (hw : WalkT v₀ fuel)
    (hfa : FilterAllT v₀ fuel) : WalkT v₀ (fuel + 1) := by
  intro paths ps ws hs hr
  cases paths with
  | nil => exact .inr (.inl ⟨ps, by simp only [walk]⟩)
  | cons p rest =>
    simp only [suppPaths, Bool.and_eq_true] at hs
    rcases path_cases p with hp | rfl | rfl | ⟨e, hpe⟩
    · obtain ⟨ps1, h1, h2⟩ := stepAll_rep _ p (supp_plain_isStep p hs.1 hp) ps ws hr
      rw [walk_plain fuel _ p hp, h1]
      refine Tri_mono (hw rest ps1 _ hs.2 h2) (fun hn => ?_)
      exact SNone_succ (evalSteps_zero _ _ _) (fun f => by rw [evalSteps_plain f v₀ p hp]; exact hn f)
    · have : walk (fuel + 1) (encodeSpec v₀) (Path.root :: rest) ps = walk fuel (encodeSpec v₀) rest ps := by
        simp only [walk]
      rw [this]
      refine Tri_mono (hw rest ps ws hs.2 hr) (fun hn => ?_)
      exact SNone_succ (evalSteps_zero _ _ _) (fun f => by rw [evalSteps_root]; exact hn f)
    · have : walk (fuel + 1) (encodeSpec v₀) (Path.current :: rest) ps = walk fuel (encodeSpec v₀) rest ps := by
        simp only [walk]
      rw [this]
      refine Tri_mono (hw rest ps ws hs.2 hr) (fun hn => ?_)
      exact SNone_succ (evalSteps_zero _ _ _) (fun f => by rw [evalSteps_current]; exact hn f)
    · have hse : suppFilter e = true := by
        rcases hpe with rfl | rfl <;> simpa [suppPath] using hs.1
      rw [walk_filter fuel _ p e hpe]
      rcases hfa e ps ws hse hr with hf | ⟨ps1, hf⟩ | ⟨⟨er, hf⟩, hn⟩
      · rw [hf]; exact .inl rfl
      · rw [hf]
        simp only []
        obtain ⟨ws1, hr1, hev1⟩ := (select_main v₀ hg fuel).2.2.1 e ps ws ps1 hf (suppFilter_ok e hse) hr
        refine Tri_mono (hw rest ps1 ws1 hs.2 hr1) (fun hn => ?_)
        refine SNone_succ (evalSteps_zero _ _ _) (fun f => ?_)
        rw [evalSteps_filter f v₀ p e hpe]
        cases hfi : Spec.filterItems f v₀ e ws with
        | none => rfl
        | some items' =>
          have := filterItems_some_eq hfi hev1
          subst this
          exact hn f
      · rw [hf]
        refine .inr (.inr ⟨⟨er, rfl⟩, SNone_succ (evalSteps_zero _ _ _) (fun f => ?_)⟩)
        have hnf := hn f; dsimp only at hnf; rw [evalSteps_filter f v₀ p e hpe, hnf]

theorem filterAllT_succ (v₀ : JV) (fuel : Nat) (hfe : FilterExprT v₀ fuel) (hfa : FilterAllT v₀ fuel) :
    FilterAllT v₀ (fuel + 1) := by
  intro e ps ws hs hr
  cases ps with
  | nil => exact .inr (.inl ⟨[], by simp only [filterAll]⟩)
  | cons pos rest =>
    cases ws with
    | nil => exact hr.elim
    | cons w ws =>
      simp only [filterAll]
      rcases hfe e pos w hs hr.1 with hf | ⟨keep, hf⟩ | ⟨⟨er, hf⟩, hn⟩
      · rw [hf]; exact .inl rfl
      · rw [hf]
        simp only []
        rcases hfa e rest ws hs hr.2 with hf2 | ⟨r, hf2⟩ | ⟨⟨er, hf2⟩, hn⟩
        · rw [hf2]; exact .inl rfl
        · rw [hf2]; exact .inr (.inl ⟨_, rfl⟩)
        · rw [hf2]
          refine .inr (.inr ⟨⟨er, rfl⟩, SNone_succ (filterItems_zero _ _ _) (fun f => ?_)⟩)
          have hnf := hn f; dsimp only at hnf; rw [filterItems_cons, hnf]
          cases Spec.evalFilter f v₀ w e <;> rfl
      · rw [hf]
        refine .inr (.inr ⟨⟨er, rfl⟩, SNone_succ (filterItems_zero _ _ _) (fun f => ?_)⟩)
        have hnf := hn f; dsimp only at hnf; rw [filterItems_cons, hnf]

theorem filterExprT_succ (v₀ : JV) (hg : goodTop v₀ = true) (fuel : Nat) (hfe : FilterExprT v₀ fuel)
    (hfp : FindT v₀ fuel) : FilterExprT v₀ (fuel + 1) := by
  intro e pos w hs hr
  cases e with
  | binaryOp op l r =>
    simp only [suppFilter] at hs
    by_cases hor : op = .or
    · subst hor
      simp only [isLogic, if_true, Bool.and_eq_true] at hs
      simp only [filterExpr]
      rcases hfe l pos w hs.1 hr with hf | ⟨a, hf⟩ | ⟨⟨er, hf⟩, hn⟩
      · rw [hf]; exact .inl rfl
      · rw [hf]
        rcases hfe r pos w hs.2 hr with hf2 | ⟨c, hf2⟩ | ⟨⟨er, hf2⟩, hn⟩
        · rw [hf2]; exact .inl rfl
        · rw [hf2]; exact .inr (.inl ⟨_, rfl⟩)
        · rw [hf2]
          refine .inr (.inr ⟨⟨er, rfl⟩, SNone_succ (evalFilter_zero _ _ _) (fun f => ?_)⟩)
          have hnf := hn f; dsimp only at hnf; rw [evalFilter_or, hnf]
          cases Spec.evalFilter f v₀ w l <;> rfl
      · rw [hf]
        refine .inr (.inr ⟨⟨er, rfl⟩, SNone_succ (evalFilter_zero _ _ _) (fun f => ?_)⟩)
        have hnf := hn f; dsimp only at hnf; rw [evalFilter_or, hnf]
    · by_cases hand : op = .and
      · subst hand
        simp only [isLogic, if_true, Bool.and_eq_true] at hs
        simp only [filterExpr]
        rcases hfe l pos w hs.1 hr with hf | ⟨a, hf⟩ | ⟨⟨er, hf⟩, hn⟩
        · rw [hf]; exact .inl rfl
        · rw [hf]
          rcases hfe r pos w hs.2 hr with hf2 | ⟨c, hf2⟩ | ⟨⟨er, hf2⟩, hn⟩
          · rw [hf2]; exact .inl rfl
          · rw [hf2]; exact .inr (.inl ⟨_, rfl⟩)
          · rw [hf2]
            refine .inr (.inr ⟨⟨er, rfl⟩, SNone_succ (evalFilter_zero _ _ _) (fun f => ?_)⟩)
            have hnf := hn f; dsimp only at hnf; rw [evalFilter_and, hnf]
            cases Spec.evalFilter f v₀ w l <;> rfl
        · rw [hf]
          refine .inr (.inr ⟨⟨er, rfl⟩, SNone_succ (evalFilter_zero _ _ _) (fun f => ?_)⟩)
          have hnf := hn f; dsimp only at hnf; rw [evalFilter_and, hnf]
      · have hlg : isLogic op = false := by cases op <;> simp_all [isLogic]
        simp only [hlg, Bool.false_eq_true, if_false, Bool.and_eq_true] at hs
        rw [filterExpr_cmp fuel _ pos op hand hor]
        cases fuel with
        | zero => exact .inl (by simp [exprVal])
        | succ k =>
          obtain ⟨lv, hl⟩ := exprVal_total v₀ hg k pos w l hs.1 hr
          obtain ⟨rv, hrv⟩ := exprVal_total v₀ hg k pos w r hs.2 hr
          obtain ⟨b, hb⟩ := anyPair_total op hand hor lv rv
          rw [hl, hrv]
          exact .inr (.inl ⟨b, hb⟩)
  | existsFn paths =>
    simp only [suppFilter] at hs
    simp only [filterExpr]
    rcases hfp (some pos) (some w) paths hs hr (fun hn => by simp at hn) with hf | ⟨ps, hf⟩ | ⟨⟨er, hf⟩, hn⟩
    · rw [hf]; exact .inl rfl
    · rw [hf]; exact .inr (.inl ⟨_, rfl⟩)
    · rw [hf]
      refine .inr (.inr ⟨⟨er, rfl⟩, SNone_succ (evalFilter_zero _ _ _) (fun f => ?_)⟩)
      have hnf := hn f; dsimp only at hnf; rw [evalFilter_exists, hnf]; rfl
  | paths ps =>
    exact .inr (.inr ⟨⟨"InvalidJsonPath", by simp only [filterExpr]⟩,
      SNone_succ (evalFilter_zero _ _ _) (fun f => by simp only [Spec.evalFilter])⟩)
  | value pv =>
    exact .inr (.inr ⟨⟨"InvalidJsonPath", by simp only [filterExpr]⟩,
      SNone_succ (evalFilter_zero _ _ _) (fun f => by simp only [Spec.evalFilter])⟩)
  | arithUnary op e =>
    exact .inr (.inr ⟨⟨"InvalidJsonPath", by simp only [filterExpr]⟩,
      SNone_succ (evalFilter_zero _ _ _) (fun f => by simp only [Spec.evalFilter])⟩)
  | arithBinary op l r =>
    exact .inr (.inr ⟨⟨"InvalidJsonPath", by simp only [filterExpr]⟩,
      SNone_succ (evalFilter_zero _ _ _) (fun f => by simp only [Spec.evalFilter])⟩)

theorem select_tri_main (v₀ : JV) (hg : goodTop v₀ = true) : ∀ fuel,
    FindT v₀ fuel ∧ WalkT v₀ fuel ∧ FilterAllT v₀ fuel ∧ FilterExprT v₀ fuel
  | 0 => by
    refine ⟨?_, ?_, ?_, ?_⟩
    · intro cur scur paths _ _ _; exact .inl (by simp only [findPositions])
    · intro paths ps ws _ _; exact .inl (by simp only [walk])
    · intro e ps ws _ _; exact .inl (by simp only [filterAll])
    · intro e pos w _ _; exact .inl (by simp only [filterExpr])
  | fuel + 1 => by
    obtain ⟨h1, h2, h3, h4⟩ := select_tri_main v₀ hg fuel
    exact ⟨findT_succ v₀ hg fuel h2, walkT_succ v₀ hg fuel h2 h3, filterAllT_succ v₀ fuel h4 h3,
      filterExprT_succ v₀ hg fuel h4 h1⟩

/-- **no panic; `Err` exactly where the spec is undefined; `Ok` exactly the denoted items** —
`find_positions` on a supported path (not starting with `@`) and a good document, at any fuel -/
theorem findPositions_trichotomy (v₀ : JV) (hg : goodTop v₀ = true) (jp : JsonPath) (hs : suppPaths jp = true)
    (hhead : jp.head? ≠ some .current) (fuel : Nat) :
    findPositions fuel (encodeSpec v₀) none jp = .fuel ∨
    (∃ ps items, findPositions fuel (encodeSpec v₀) none jp = .ok ps ∧ Sel.RepL (encodeSpec v₀) ps items ∧
      Ev (fun f => Spec.evalPaths f v₀ none jp) items) ∨
    (∃ e, findPositions fuel (encodeSpec v₀) none jp = .err e ∧ ∀ f, Spec.evalPaths f v₀ none jp = none) := by
  rcases (select_tri_main v₀ hg fuel).1 none none jp hs trivial (fun _ => hhead) with h | ⟨ps, h⟩ | ⟨⟨e, h⟩, hn⟩
  · exact .inl h
  · obtain ⟨items, h1, h2⟩ := findPositions_refines v₀ hg jp (suppPaths_ok jp hs) fuel ps h
    exact .inr (.inl ⟨ps, items, h, h1, h2⟩)
  · exact .inr (.inr ⟨e, h, hn⟩)

/-- in particular the evaluator never panics on such inputs -/
theorem findPositions_no_panic (v₀ : JV) (hg : goodTop v₀ = true) (jp : JsonPath) (hs : suppPaths jp = true)
    (hhead : jp.head? ≠ some .current) (fuel : Nat) (s : String) :
    findPositions fuel (encodeSpec v₀) none jp ≠ .panic s := by
  rcases findPositions_trichotomy v₀ hg jp hs hhead fuel with h | ⟨_, _, h, _⟩ | ⟨_, h, _⟩ <;> rw [h] <;> simp

/-- a model `Err` means the spec is undefined at every fuel … -/
theorem findPositions_err_sound (v₀ : JV) (hg : goodTop v₀ = true) (jp : JsonPath) (hs : suppPaths jp = true)
    (hhead : jp.head? ≠ some .current) (fuel : Nat) (e : String)
    (h : findPositions fuel (encodeSpec v₀) none jp = .err e) (f : Nat) :
    Spec.evalPaths f v₀ none jp = none := by
  rcases findPositions_trichotomy v₀ hg jp hs hhead fuel with h' | ⟨_, _, h', _⟩ | ⟨_, _, hn⟩
  · rw [h'] at h; simp at h
  · rw [h'] at h; simp at h
  · exact hn f

/-- … and when the spec is undefined at every fuel the model can only answer `Err` (or run out
of fuel) -/
theorem findPositions_none_err (v₀ : JV) (hg : goodTop v₀ = true) (jp : JsonPath) (hs : suppPaths jp = true)
    (hhead : jp.head? ≠ some .current) (fuel : Nat) (hn : ∀ f, Spec.evalPaths f v₀ none jp = none) :
    findPositions fuel (encodeSpec v₀) none jp = .fuel ∨ ∃ e, findPositions fuel (encodeSpec v₀) none jp = .err e := by
  rcases findPositions_trichotomy v₀ hg jp hs hhead fuel with h | ⟨_, items, _, _, ⟨F, hF⟩⟩ | ⟨e, h, _⟩
  · exact .inl h
  · have := hF F (Nat.le_refl _)
    dsimp only at this
    rw [hn F] at this; simp at this
  · exact .inr ⟨e, h⟩

end Jsonb
