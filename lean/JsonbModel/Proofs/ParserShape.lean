/-
The shape of the ASTs built by `parse_json_path`, part 2 (headline theorems): the hypotheses
`suppPaths jp = true` and `jp.head? ≠ some .current` of the evaluator refinement theorems (C08,
`Proofs/SelectRefine5.lean` / `SelectRefine9.lean`) hold for EVERY path the parser accepts.

* `parseJsonPath_shape`   : `parseJsonPath bs = .ok jp → parserShape jp = true` (part 1);
* `parserShape_supp`      : `parserShape jp = true → suppPaths jp = true` — including the paths
  with arithmetic: the parser only ever puts an arithmetic expression where `suppFilter` has its
  "supported error" arm (a whole filter / predicate / `&&`-`||` operand), never inside a comparison;
* `parserShape_head`      : `parserShape jp = true → jp.head? ≠ some .current`;
* `parserShape_strict`    : without arithmetic the catch-all arm of `suppFilter` is never used:
  `parserShape jp = true → hasArith jp = false → strictPaths jp = true`;
* `parserShape_arithAtLeaves` : arithmetic is never nested (not inside a comparison, not inside
  arithmetic), and `Path::ArithmeticExpr` is never built;
* `parseJsonPath_supp`, `parseJsonPath_noArith`, `parseJsonPath_supp_or_arith`,
  `parseJsonPath_predicate`, `parseJsonPath_wellformed` : the corollaries stated directly on
  `parseJsonPath` (the last one with `parseJsonPath_typed` of part 3: `i32` indices, `u64`/`i64`
  literals, UTF-8 names).
No Mathlib.
-/
import JsonbModel.Proofs.ParserShape1
import JsonbModel.Proofs.ParserShape2
import JsonbModel.Proofs.SelectRefine5

namespace Jsonb
open PShape Sel

set_option autoImplicit false

/-! ### arithmetic anywhere in a path -/

mutual
/-- an arithmetic node (`Path::ArithmeticExpr`, `ArithmeticFunc::Unary`, `ArithmeticFunc::Binary`)
occurs somewhere in the step -/
def hasArithPath : Path → Bool
  | .arithmeticExpr _ => true
  | .filterExpr e | .predicate e => hasArithExpr e
  | _ => false
def hasArithExpr : Expr → Bool
  | .arithUnary _ _ | .arithBinary _ _ _ => true
  | .binaryOp _ l r => hasArithExpr l || hasArithExpr r
  | .paths ps | .existsFn ps => hasArith ps
  | .value _ => false
/-- an arithmetic node occurs somewhere in the path -/
def hasArith : List Path → Bool
  | [] => false
  | p :: ps => hasArithPath p || hasArith ps
end

/-! ### `suppPaths` without its catch-all arm -/

mutual
/-- `suppPath`, with `strictFilter` for the filters -/
def strictPath : Path → Bool
  | .arithmeticExpr _ => false
  | .filterExpr e | .predicate e => strictFilter e
  | _ => true
/-- `suppFilter` without the arm `| _ => true` (arithmetic or a bare operand in filter position,
which the evaluator answers with an error): only `&&`, `||`, comparisons of operands, `exists` -/
def strictFilter : Expr → Bool
  | .binaryOp op l r =>
    if isLogic op then strictFilter l && strictFilter r else suppOperand l && suppOperand r
  | .existsFn ps => strictPaths ps
  | _ => false
def strictPaths : List Path → Bool
  | [] => true
  | p :: ps => strictPath p && strictPaths ps
end

mutual
theorem strictPath_supp : (p : Path) → strictPath p = true → suppPath p = true
  | .filterExpr e, h => by simp only [strictPath] at h; simp only [suppPath]; exact strictFilter_supp e h
  | .predicate e, h => by simp only [strictPath] at h; simp only [suppPath]; exact strictFilter_supp e h
  | .arithmeticExpr _, h => by simp [strictPath] at h
  | .root, _ => rfl
  | .current, _ => rfl
  | .dotWildcard, _ => rfl
  | .bracketWildcard, _ => rfl
  | .dotField _, _ => rfl
  | .colonField _, _ => rfl
  | .objectField _, _ => rfl
  | .arrayIndices _, _ => rfl
theorem strictFilter_supp : (e : Expr) → strictFilter e = true → suppFilter e = true
  | .binaryOp op l r, h => by
    simp only [strictFilter] at h
    simp only [suppFilter]
    by_cases hl : isLogic op = true
    · rw [if_pos hl] at h ⊢
      simp only [Bool.and_eq_true] at h ⊢
      exact ⟨strictFilter_supp l h.1, strictFilter_supp r h.2⟩
    · rw [if_neg hl] at h ⊢
      exact h
  | .existsFn ps, h => by simp only [strictFilter] at h; simp only [suppFilter]; exact strictPaths_supp ps h
  | .paths _, _ => rfl
  | .value _, _ => rfl
  | .arithUnary _ _, _ => rfl
  | .arithBinary _ _ _, _ => rfl
/-- the strict description implies the one used by the C08 theorems -/
theorem strictPaths_supp : (ps : List Path) → strictPaths ps = true → suppPaths ps = true
  | [], _ => rfl
  | p :: ps, h => by
    simp only [strictPaths, Bool.and_eq_true] at h
    simp only [suppPaths, Bool.and_eq_true]
    exact ⟨strictPath_supp p h.1, strictPaths_supp ps h.2⟩
end

/-! ### operands -/

theorem isInner_isStep (p : Path) (h : isInner p = true) : isStep p = true := by
  cases p <;> first | rfl | (simp [isInner] at h)

theorem all_isInner_isStep (ps : List Path) (h : ps.all isInner = true) : ps.all isStep = true := by
  rw [List.all_eq_true] at h ⊢
  exact fun p hp => isInner_isStep p (h p hp)

/-- what `inner_expr` builds is a supported comparison operand -/
theorem shapeOperand_supp (rp : Bool) (e : Expr) (h : shapeOperand rp e = true) : suppOperand e = true := by
  cases e with
  | value v => rfl
  | paths ps =>
    simp only [shapeOperand] at h
    simp only [suppOperand, Bool.and_eq_true]
    cases ps with
    | nil => simp [shapeOperandPaths] at h
    | cons p ps =>
      cases p <;> first
        | (simp only [shapeOperandPaths] at h
           exact ⟨rfl, all_isInner_isStep ps h⟩)
        | (simp only [shapeOperandPaths, Bool.and_eq_true] at h
           exact ⟨rfl, all_isInner_isStep ps (by simpa using h.2)⟩)
        | (simp [shapeOperandPaths] at h)
  | binaryOp _ _ _ => simp [shapeOperand] at h
  | arithUnary _ _ => simp [shapeOperand] at h
  | arithBinary _ _ _ => simp [shapeOperand] at h
  | existsFn _ => simp [shapeOperand] at h

/-- operands contain no arithmetic (and no filter: only `inner_path` steps) -/
theorem hasArith_of_all_isInner : (ps : List Path) → ps.all isInner = true → hasArith ps = false
  | [], _ => rfl
  | p :: ps, h => by
    simp only [List.all_cons, Bool.and_eq_true] at h
    simp only [hasArith, Bool.or_eq_false_iff]
    refine ⟨?_, hasArith_of_all_isInner ps h.2⟩
    have := h.1
    cases p <;> first | rfl | (simp [isInner] at this)

theorem shapeOperand_noArith (rp : Bool) (e : Expr) (h : shapeOperand rp e = true) : hasArithExpr e = false := by
  cases e with
  | value v => rfl
  | paths ps =>
    simp only [shapeOperand] at h
    simp only [hasArithExpr]
    cases ps with
    | nil => rfl
    | cons p ps =>
      cases p <;> first
        | (simp only [shapeOperandPaths] at h
           simp only [hasArith, hasArithPath, Bool.false_or]
           exact hasArith_of_all_isInner ps h)
        | (simp only [shapeOperandPaths, Bool.and_eq_true] at h
           simp only [hasArith, hasArithPath, Bool.false_or]
           exact hasArith_of_all_isInner ps (by simpa using h.2))
        | (simp [shapeOperandPaths] at h)
  | binaryOp _ _ _ => simp [shapeOperand] at h
  | arithUnary _ _ => simp [shapeOperand] at h
  | arithBinary _ _ _ => simp [shapeOperand] at h
  | existsFn _ => simp [shapeOperand] at h

/-! ### parser shape ⟹ `suppPaths` -/

mutual
theorem shapeExpr_supp : (rp : Bool) → (e : Expr) → shapeExpr rp e = true → suppFilter e = true
  | rp, .binaryOp op l r, h => by
    simp only [suppFilter]
    cases op <;> simp only [shapeExpr, Bool.and_eq_true] at h <;>
      simp only [isLogic, if_true, Bool.false_eq_true, if_false, Bool.and_eq_true]
    · exact ⟨shapeExpr_supp rp l h.1, shapeExpr_supp rp r h.2⟩
    · exact ⟨shapeExpr_supp rp l h.1, shapeExpr_supp rp r h.2⟩
    all_goals exact ⟨shapeOperand_supp rp l h.1, shapeOperand_supp rp r h.2⟩
  | _, .existsFn ps, h => by
    simp only [shapeExpr] at h; simp only [suppFilter]; exact shapeExists_supp ps h
  | _, .paths _, _ => rfl
  | _, .value _, _ => rfl
  | _, .arithUnary _ _, _ => rfl
  | _, .arithBinary _ _ _, _ => rfl
theorem shapeExists_supp : (ps : List Path) → shapeExists ps = true → suppPaths ps = true
  | [], _ => rfl
  | p :: ps, h => by
    simp only [shapeExists, Bool.and_eq_true] at h
    simp only [suppPaths, Bool.and_eq_true]
    refine ⟨?_, shapeSteps_supp ps h.2⟩
    have := h.1
    cases p <;> first | rfl | (simp [isHead] at this)
theorem shapeSteps_supp : (ps : List Path) → shapeSteps ps = true → suppPaths ps = true
  | [], _ => rfl
  | p :: ps, h => by
    simp only [shapeSteps, Bool.and_eq_true] at h
    simp only [suppPaths, Bool.and_eq_true]
    exact ⟨shapeStep_supp p h.1, shapeSteps_supp ps h.2⟩
theorem shapeStep_supp : (p : Path) → shapeStep p = true → suppPath p = true
  | .filterExpr e, h => by
    simp only [shapeStep] at h; simp only [suppPath]; exact shapeExpr_supp false e h
  | .predicate _, h => by simp [shapeStep, isInner] at h
  | .arithmeticExpr _, h => by simp [shapeStep, isInner] at h
  | .root, _ => rfl
  | .current, _ => rfl
  | .dotWildcard, _ => rfl
  | .bracketWildcard, _ => rfl
  | .dotField _, _ => rfl
  | .colonField _, _ => rfl
  | .objectField _, _ => rfl
  | .arrayIndices _, _ => rfl
end

/-- the three forms of a parser-shaped path -/
theorem parserShape_cases (jp : JsonPath) (h : parserShape jp = true) :
    (∃ e, jp = [.predicate e] ∧ shapeExpr true e = true) ∨
    (∃ ps, jp = .root :: ps ∧ shapeSteps ps = true) ∨
    shapeSteps jp = true := by
  unfold parserShape at h
  split at h
  · exact .inl ⟨_, rfl, h⟩
  · exact .inr (.inl ⟨_, rfl, h⟩)
  · exact .inr (.inr h)

/-- **Every parser-shaped path is in the fragment covered by the evaluator theorems.** -/
theorem parserShape_supp (jp : JsonPath) (h : parserShape jp = true) : suppPaths jp = true := by
  rcases parserShape_cases jp h with ⟨e, rfl, he⟩ | ⟨ps, rfl, hps⟩ | hps
  · simp only [suppPaths, suppPath, Bool.and_true]; exact shapeExpr_supp true e he
  · simp only [suppPaths, suppPath, Bool.true_and]; exact shapeSteps_supp ps hps
  · exact shapeSteps_supp jp hps

theorem shapeStep_ne_current (p : Path) (h : shapeStep p = true) : p ≠ .current := by
  intro e; rw [e] at h; simp [shapeStep, isInner] at h

/-- **The top-level path never starts with `@`.** -/
theorem parserShape_head (jp : JsonPath) (h : parserShape jp = true) : jp.head? ≠ some .current := by
  rcases parserShape_cases jp h with ⟨e, rfl, _⟩ | ⟨ps, rfl, _⟩ | hps
  · simp
  · simp
  · cases jp with
    | nil => simp
    | cons p ps =>
      simp only [shapeSteps, Bool.and_eq_true] at hps
      simp only [List.head?_cons, ne_eq, Option.some.injEq]
      exact shapeStep_ne_current p hps.1

/-! ### without arithmetic: the strict fragment -/

mutual
theorem shapeExpr_strict : (rp : Bool) → (e : Expr) → shapeExpr rp e = true → hasArithExpr e = false →
    strictFilter e = true
  | rp, .binaryOp op l r, h, ha => by
    simp only [hasArithExpr, Bool.or_eq_false_iff] at ha
    simp only [strictFilter]
    cases op <;> simp only [shapeExpr, Bool.and_eq_true] at h <;>
      simp only [isLogic, if_true, Bool.false_eq_true, if_false, Bool.and_eq_true]
    · exact ⟨shapeExpr_strict rp l h.1 ha.1, shapeExpr_strict rp r h.2 ha.2⟩
    · exact ⟨shapeExpr_strict rp l h.1 ha.1, shapeExpr_strict rp r h.2 ha.2⟩
    all_goals exact ⟨shapeOperand_supp rp l h.1, shapeOperand_supp rp r h.2⟩
  | _, .existsFn ps, h, ha => by
    simp only [shapeExpr] at h; simp only [hasArithExpr] at ha
    simp only [strictFilter]; exact shapeExists_strict ps h ha
  | _, .paths _, h, _ => by simp [shapeExpr] at h
  | _, .value _, h, _ => by simp [shapeExpr] at h
  | _, .arithUnary _ _, _, ha => by simp [hasArithExpr] at ha
  | _, .arithBinary _ _ _, _, ha => by simp [hasArithExpr] at ha
theorem shapeExists_strict : (ps : List Path) → shapeExists ps = true → hasArith ps = false →
    strictPaths ps = true
  | [], _, _ => rfl
  | p :: ps, h, ha => by
    simp only [shapeExists, Bool.and_eq_true] at h
    simp only [hasArith, Bool.or_eq_false_iff] at ha
    simp only [strictPaths, Bool.and_eq_true]
    refine ⟨?_, shapeSteps_strict ps h.2 ha.2⟩
    have := h.1
    cases p <;> first | rfl | (simp [isHead] at this)
theorem shapeSteps_strict : (ps : List Path) → shapeSteps ps = true → hasArith ps = false →
    strictPaths ps = true
  | [], _, _ => rfl
  | p :: ps, h, ha => by
    simp only [shapeSteps, Bool.and_eq_true] at h
    simp only [hasArith, Bool.or_eq_false_iff] at ha
    simp only [strictPaths, Bool.and_eq_true]
    exact ⟨shapeStep_strict p h.1 ha.1, shapeSteps_strict ps h.2 ha.2⟩
theorem shapeStep_strict : (p : Path) → shapeStep p = true → hasArithPath p = false →
    strictPath p = true
  | .filterExpr e, h, ha => by
    simp only [shapeStep] at h; simp only [hasArithPath] at ha
    simp only [strictPath]; exact shapeExpr_strict false e h ha
  | .predicate _, h, _ => by simp [shapeStep, isInner] at h
  | .arithmeticExpr _, h, _ => by simp [shapeStep, isInner] at h
  | .root, _, _ => rfl
  | .current, _, _ => rfl
  | .dotWildcard, _, _ => rfl
  | .bracketWildcard, _, _ => rfl
  | .dotField _, _, _ => rfl
  | .colonField _, _, _ => rfl
  | .objectField _, _, _ => rfl
  | .arrayIndices _, _, _ => rfl
end

/-- **Without arithmetic, a parser-shaped path lies in the strict fragment**: every filter is
built from `&&`, `||`, `exists(…)` and comparisons of supported operands only. -/
theorem parserShape_strict (jp : JsonPath) (h : parserShape jp = true) (ha : hasArith jp = false) :
    strictPaths jp = true := by
  rcases parserShape_cases jp h with ⟨e, rfl, he⟩ | ⟨ps, rfl, hps⟩ | hps
  · simp only [hasArith, hasArithPath, Bool.or_false] at ha
    simp only [strictPaths, strictPath, Bool.and_true]; exact shapeExpr_strict true e he ha
  · simp only [hasArith, hasArithPath, Bool.false_or] at ha
    simp only [strictPaths, strictPath, Bool.true_and]; exact shapeSteps_strict ps hps ha
  · exact shapeSteps_strict jp hps ha

/-! ### where the arithmetic sits -/

mutual
/-- every filter / predicate expression of the step is, below its `&&`/`||`, either arithmetic-free
or itself an arithmetic node whose operands are plain operands -/
def arithAtLeavesPath : Path → Bool
  | .arithmeticExpr _ => false
  | .filterExpr e | .predicate e => arithAtLeavesExpr e
  | _ => true
def arithAtLeavesExpr : Expr → Bool
  | .binaryOp op l r =>
    if isLogic op then arithAtLeavesExpr l && arithAtLeavesExpr r
    else !hasArithExpr l && !hasArithExpr r
  | .arithBinary _ l r => !hasArithExpr l && !hasArithExpr r
  | .arithUnary _ e => !hasArithExpr e
  | .existsFn ps => arithAtLeaves ps
  | _ => true
def arithAtLeaves : List Path → Bool
  | [] => true
  | p :: ps => arithAtLeavesPath p && arithAtLeaves ps
end

mutual
theorem shapeExpr_arithAtLeaves : (rp : Bool) → (e : Expr) → shapeExpr rp e = true →
    arithAtLeavesExpr e = true
  | rp, .binaryOp op l r, h => by
    simp only [arithAtLeavesExpr]
    cases op <;> simp only [shapeExpr, Bool.and_eq_true] at h <;>
      simp only [isLogic, if_true, Bool.false_eq_true, if_false, Bool.and_eq_true]
    · exact ⟨shapeExpr_arithAtLeaves rp l h.1, shapeExpr_arithAtLeaves rp r h.2⟩
    · exact ⟨shapeExpr_arithAtLeaves rp l h.1, shapeExpr_arithAtLeaves rp r h.2⟩
    all_goals
      rw [shapeOperand_noArith rp l h.1, shapeOperand_noArith rp r h.2]; exact ⟨rfl, rfl⟩
  | rp, .arithBinary _ l r, h => by
    simp only [shapeExpr, Bool.and_eq_true] at h
    simp only [arithAtLeavesExpr, Bool.and_eq_true]
    rw [shapeOperand_noArith rp l h.1, shapeOperand_noArith rp r h.2]; exact ⟨rfl, rfl⟩
  | rp, .arithUnary _ e, h => by
    simp only [shapeExpr] at h
    simp only [arithAtLeavesExpr]
    rw [shapeOperand_noArith rp e h]; rfl
  | _, .existsFn ps, h => by
    simp only [shapeExpr] at h; simp only [arithAtLeavesExpr]; exact shapeExists_arithAtLeaves ps h
  | _, .paths _, _ => rfl
  | _, .value _, _ => rfl
theorem shapeExists_arithAtLeaves : (ps : List Path) → shapeExists ps = true → arithAtLeaves ps = true
  | [], _ => rfl
  | p :: ps, h => by
    simp only [shapeExists, Bool.and_eq_true] at h
    simp only [arithAtLeaves, Bool.and_eq_true]
    refine ⟨?_, shapeSteps_arithAtLeaves ps h.2⟩
    have := h.1
    cases p <;> first | rfl | (simp [isHead] at this)
theorem shapeSteps_arithAtLeaves : (ps : List Path) → shapeSteps ps = true → arithAtLeaves ps = true
  | [], _ => rfl
  | p :: ps, h => by
    simp only [shapeSteps, Bool.and_eq_true] at h
    simp only [arithAtLeaves, Bool.and_eq_true]
    exact ⟨shapeStep_arithAtLeaves p h.1, shapeSteps_arithAtLeaves ps h.2⟩
theorem shapeStep_arithAtLeaves : (p : Path) → shapeStep p = true → arithAtLeavesPath p = true
  | .filterExpr e, h => by
    simp only [shapeStep] at h; simp only [arithAtLeavesPath]; exact shapeExpr_arithAtLeaves false e h
  | .predicate _, h => by simp [shapeStep, isInner] at h
  | .arithmeticExpr _, h => by simp [shapeStep, isInner] at h
  | .root, _ => rfl
  | .current, _ => rfl
  | .dotWildcard, _ => rfl
  | .bracketWildcard, _ => rfl
  | .dotField _, _ => rfl
  | .colonField _, _ => rfl
  | .objectField _, _ => rfl
  | .arrayIndices _, _ => rfl
end

/-- **Arithmetic is never nested**: in a parser-shaped path an arithmetic node is always a whole
filter / predicate or an operand of `&&`/`||`, its own operands are arithmetic-free, comparison
operands are arithmetic-free, and `Path::ArithmeticExpr` does not occur. -/
theorem parserShape_arithAtLeaves (jp : JsonPath) (h : parserShape jp = true) : arithAtLeaves jp = true := by
  rcases parserShape_cases jp h with ⟨e, rfl, he⟩ | ⟨ps, rfl, hps⟩ | hps
  · simp only [arithAtLeaves, arithAtLeavesPath, Bool.and_true]; exact shapeExpr_arithAtLeaves true e he
  · simp only [arithAtLeaves, arithAtLeavesPath, Bool.true_and]; exact shapeSteps_arithAtLeaves ps hps
  · exact shapeSteps_arithAtLeaves jp hps

/-! ### headline corollaries on `parseJsonPath` -/

/-- **The hypotheses of the C08 evaluator theorems hold for every path `parse_json_path`
accepts** (arithmetic included: `suppFilter` counts a filter that *is* an arithmetic expression
as a supported error, and the parser never nests arithmetic anywhere else). -/
theorem parseJsonPath_supp (bs : Bytes) (jp : JsonPath) (h : parseJsonPath bs = .ok jp) :
    suppPaths jp = true ∧ okPaths jp = true ∧ jp.head? ≠ some .current := by
  have hs := parseJsonPath_shape bs jp h
  exact ⟨parserShape_supp jp hs, suppPaths_ok jp (parserShape_supp jp hs), parserShape_head jp hs⟩

/-- **Accepted paths without arithmetic**: the strict fragment (hence `suppPaths`), and no `@`
at the head. -/
theorem parseJsonPath_noArith (bs : Bytes) (jp : JsonPath) (h : parseJsonPath bs = .ok jp)
    (ha : hasArith jp = false) :
    strictPaths jp = true ∧ suppPaths jp = true ∧ jp.head? ≠ some .current := by
  have hs := parseJsonPath_shape bs jp h
  have hst := parserShape_strict jp hs ha
  exact ⟨hst, strictPaths_supp jp hst, parserShape_head jp hs⟩

/-- the dichotomy asked for: an accepted path is supported, or (in fact: and possibly) contains
arithmetic — the left disjunct always holds -/
theorem parseJsonPath_supp_or_arith (bs : Bytes) (jp : JsonPath) (h : parseJsonPath bs = .ok jp) :
    suppPaths jp = true ∨ hasArith jp = true :=
  .inl (parseJsonPath_supp bs jp h).1

/-- a root predicate is the whole path: `isPredicate` decides which C08 theorem applies, and a
non-predicate path contains no `Path::Predicate` step at all -/
theorem parseJsonPath_predicate (bs : Bytes) (jp : JsonPath) (h : parseJsonPath bs = .ok jp) :
    isPredicate jp = true ∨ (isPredicate jp = false ∧ ∀ p ∈ jp, ∀ e, p ≠ .predicate e) := by
  have hs := parseJsonPath_shape bs jp h
  have key : ∀ ps : List Path, shapeSteps ps = true → ∀ p ∈ ps, ∀ e, p ≠ .predicate e := by
    intro ps
    induction ps with
    | nil => intro _ p hp; cases hp
    | cons q qs ih =>
      intro hq p hp e hpe
      simp only [shapeSteps, Bool.and_eq_true] at hq
      rcases List.mem_cons.mp hp with rfl | hp
      · rw [hpe] at hq; simp [shapeStep, isInner] at hq
      · exact ih hq.2 p hp e hpe
  rcases parserShape_cases jp hs with ⟨e, rfl, _⟩ | ⟨ps, rfl, hps⟩ | hps
  · exact .inl rfl
  · refine .inr ⟨?_, ?_⟩
    · cases ps <;> rfl
    · intro p hp e hpe
      rcases List.mem_cons.mp hp with rfl | hp
      · cases hpe
      · exact key ps hps p hp e hpe
  · refine .inr ⟨?_, key jp hps⟩
    cases jp with
    | nil => rfl
    | cons q qs =>
      cases qs with
      | nil =>
        cases q <;> first | rfl | (simp [shapeSteps, shapeStep, isInner] at hps)
      | cons _ _ => cases q <;> rfl

/-- everything at once -/
theorem parseJsonPath_wellformed (bs : Bytes) (jp : JsonPath) (h : parseJsonPath bs = .ok jp) :
    parserShape jp = true ∧ typedPaths jp = true ∧ arithAtLeaves jp = true ∧
      suppPaths jp = true ∧ okPaths jp = true ∧ jp.head? ≠ some .current :=
  have hs := parseJsonPath_shape bs jp h
  ⟨hs, parseJsonPath_typed bs jp h, parserShape_arithAtLeaves jp hs, parseJsonPath_supp bs jp h⟩

/-! ### kernel-checked examples -/

section examples

private def shapeOf (s : String) : Option (Bool × Bool × Bool × Bool) :=
  match parseJsonPath s.toUTF8.toList with
  | .ok jp => some (parserShape jp, suppPaths jp, hasArith jp, strictPaths jp)
  | _ => none

/-- steps, index lists, nested filters, `exists`, `$`-rooted operands -/
example : shapeOf "$.a[*][0, last - 1, 2 to last]?(@.b > 1 && exists(@.c?(@.d == 1)) || $.d == \"x\").e"
    = some (true, true, false, true) := by decide +kernel
/-- a root predicate that is an arithmetic expression: parsed, supported (as an error), not strict -/
example : shapeOf "$.a + 3" = some (true, true, true, false) := by decide +kernel
example : shapeOf "-$.a" = some (true, true, true, false) := by decide +kernel
/-- arithmetic as a whole filter, and as an operand of `&&` -/
example : shapeOf "$?(@.a + 1)" = some (true, true, true, false) := by decide +kernel
example : shapeOf "$?(1 > 2 && ($.a == 1 || -3))" = some (true, true, true, false) := by decide +kernel
/-- arithmetic inside a comparison is rejected by the parser, with or without parentheses -/
example : shapeOf "$?(@.a + 1 > 2)" = none := by decide +kernel
example : shapeOf "$?((@.a + 1) > 2)" = none := by decide +kernel
/-- a bare operand is not a filter; a filter is not a comparison operand -/
example : shapeOf "$?(@.a)" = none := by decide +kernel
example : shapeOf "$?(@.a == @?(@.b > 1))" = none := by decide +kernel
/-- `@` is rejected at the top level, in a path and in a root predicate … -/
example : shapeOf "@.a" = none := by decide +kernel
example : shapeOf "@.a > 1" = none := by decide +kernel
/-- … but accepted inside `exists(…)` of a root predicate -/
example : shapeOf "exists(@.a)" = some (true, true, false, true) := by decide +kernel
/-- the empty path, a leading bare name, a leading step, a leading filter -/
example : shapeOf "" = some (true, true, false, true) := by decide +kernel
example : shapeOf "a.b" = some (true, true, false, true) := by decide +kernel
example : shapeOf "[1].b" = some (true, true, false, true) := by decide +kernel
example : shapeOf "?(@ > 1)" = some (true, true, false, true) := by decide +kernel

/-- the leaves: `last - n` is clamped to an `i32`, an integer literal beyond `u64` is a float -/
example : (match parseJsonPath "$[last - 99999999999, 2147483647 to last]?(@ == 18446744073709551616)".toUTF8.toList with
    | .ok [.root, .arrayIndices [.index (.last a), .slice (.index b) (.last c)],
        .filterExpr (.binaryOp .eq (.paths [.current]) (.value (.num (.float f))))] =>
      typedPaths [.root, .arrayIndices [.index (.last a), .slice (.index b) (.last c)]] &&
        a == -2147483648 && b == 2147483647 && c == 0 && f == 0x43F0000000000000
    | _ => false) = true := by decide +kernel
/-- an index beyond `i32` is rejected -/
example : shapeOf "$[2147483648]" = none := by decide +kernel

end examples

end Jsonb
