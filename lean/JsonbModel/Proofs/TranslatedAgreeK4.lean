/-
Agreement theorems, phase 7, part 4: `delete_by_index` with its `Value`-level text branch (`match &mut val {
Value::Array(arr) => { .. arr.remove(index as usize) .. } }` then `val.write_to_vec(buf)`) = the model's `T.deleteByIndex`.
-/
import JsonbModel.Proofs.TranslatedAgreeK1

set_option linter.unusedSimpArgs false
set_option linter.unusedVariables false

namespace Jsonb.TrAgree
open Jsonb.Rs

/-! ## removing one element keeps a value inside the domain of the encoder theorem -/

theorem removeAt_eq_eraseIdx {α} : ∀ (xs : List α) (n : Nat), Fn.removeAt xs n = xs.eraseIdx n
  | [], _ => rfl
  | _ :: _, 0 => rfl
  | x :: xs, n + 1 => by simp [Fn.removeAt, removeAt_eq_eraseIdx xs n]

theorem ofJVs_eraseIdx : ∀ (vs : List JV) (n : Nat), (ofJVs vs).eraseIdx n = ofJVs (vs.eraseIdx n)
  | [], _ => rfl
  | _ :: _, 0 => rfl
  | v :: vs, n + 1 => by simp [ofJVs, ofJVs_eraseIdx vs n]

theorem ofJVs_length (vs : List JV) : (ofJVs vs).length = vs.length := by simp [ofJVs_eq_map]

theorem numsWFL_eraseIdx : ∀ (vs : List JV) (n : Nat), numsWFL vs → numsWFL (vs.eraseIdx n)
  | [], _, h => h
  | _ :: _, 0, h => h.2
  | v :: vs, n + 1, h => ⟨h.1, numsWFL_eraseIdx vs n h.2⟩

theorem depthL_eraseIdx : ∀ (vs : List JV) (n : Nat), depthL (vs.eraseIdx n) ≤ depthL vs
  | [], _ => Nat.le_refl _
  | _ :: _, 0 => by simp only [List.eraseIdx, depthL]; omega
  | v :: vs, n + 1 => by
    have := depthL_eraseIdx vs n
    simp only [List.eraseIdx, depthL]; omega

theorem encSizeL_eraseIdx : ∀ (vs : List JV) (n : Nat), encSizeL (vs.eraseIdx n) ≤ encSizeL vs
  | [], _ => Nat.le_refl _
  | _ :: _, 0 => by simp only [List.eraseIdx, encSizeL]; omega
  | v :: vs, n + 1 => by
    have := encSizeL_eraseIdx vs n
    simp only [List.eraseIdx, encSizeL]; omega

theorem length_eraseIdx_le {α} (vs : List α) (n : Nat) : (vs.eraseIdx n).length ≤ vs.length := by
  rw [List.length_eraseIdx]; split <;> omega

/-- what the text branch of an in-place editor needs: the parser theorem's bounds, and the parsed value inside the domain
of the encoder theorem when it is appended to `buf` -/
structure TextEditOK (fuel : Nat) (buf value : Bytes) : Prop where
  len : value.length < 9223372036854775808
  pfuel : JP.fuelFor value ≤ fuel
  val : ∀ v, parseValue value = .ok v → numsWF v ∧ 2 * depth v < fuel ∧ buf.length + 8 + encSize v < 18446744073709551616

/-- **`delete_by_index`**, the whole public function.  `arr.len() as i32` wraps for an array of `2^31` or more elements
(the model compares with the length itself): hypothesis `hlen31` -/
theorem delete_by_index_whole (value : Bytes) (index : Int) (buf : Bytes) (fuel : Nat)
    (hidx : -2147483648 ≤ index ∧ index ≤ 2147483647) (hfuel : 536870912 < fuel)
    (hv : value.length < 4611686018427387904) (hb : buf.length < 4611686018427387904)
    (ht : isJsonb value = false → TextEditOK fuel buf value)
    (hlen31 : ∀ vs, isJsonb value = false → parseValue value = .ok (.arr vs) → vs.length < 2147483648) :
    Tr.Whole.delete_by_index fuel value index buf = T.deleteByIndex value index buf := by
  unfold Tr.Whole.delete_by_index T.deleteByIndex
  rw [is_jsonb_agrees]
  cases hj : isJsonb value
  · obtain ⟨hlen, hpf, hval⟩ := ht hj
    simp only [Ctl.ofRes_ok', Ctl.val_bind', Bool.not_false, if_true]
    rw [parse_value_agrees value hlen fuel hpf]
    cases hp : parseValue value with
    | ok v =>
      obtain ⟨hwf, hdep, hsz⟩ := hval v hp
      simp only [Res.map, Res.bind, Ctl.ofRes_ok', Ctl.val_bind']
      cases v with
      | arr vs =>
        have h31 := hlen31 vs hj hp
        have hcast : Rs.cast .i32 (Rs.len (ofJVs vs)) = (vs.length : Int) := by
          rw [Rs.len, ofJVs_length]
          apply Rs.cast_of_inRange
          rw [Rs.inRange_iff]; simp [IntTy.minVal, IntTy.maxVal, IntTy.signed, IntTy.bits]; omega
        simp only [ofJV, hcast, addI32_agrees]
        -- the adjusted index
        have hW : ∀ vs' : List JV, numsWFL vs' → depthL vs' ≤ depthL vs → encSizeL vs' ≤ encSizeL vs →
            vs'.length ≤ vs.length → Tr.Value.write_to_vec fuel (.Array (ofJVs vs')) buf = writeToVec buf (.arr vs') := by
          intro vs' h1 h2 h3 h4
          have hd' : 2 * depth (.arr vs') < fuel := by simp only [depth] at hdep ⊢; omega
          have hs' : buf.length + 8 + encSize (.arr vs') < 18446744073709551616 := by
            simp only [encSize] at hsz ⊢; omega
          have := write_to_vec_agrees (.arr vs') buf fuel hd' h1 hs'
          simpa only [ofJV] using this
        have hA : ∀ idx : Int, -2147483648 ≤ idx ∧ idx ≤ 2147483647 →
            (if (decide (idx ≥ (0 : Int)) && decide (idx < (vs.length : Int))) = true then
                ((Ctl.ofRes (Rs.vecRemove (ofJVs vs) (Rs.cast .usize idx)) : Ctl Bytes _) >>= fun tmp5 => Ctl.val tmp5)
              else Ctl.val (ofJVs vs)) =
            Ctl.val (ofJVs (if idx ≥ 0 ∧ idx < (vs.length : Int) then Fn.removeAt vs idx.toNat else vs)) := by
          intro idx hidx'
          by_cases hc : idx ≥ 0 ∧ idx < (vs.length : Int)
          · have hcu : Rs.cast .usize idx = idx := by
              apply Rs.cast_of_inRange
              rw [Rs.inRange_iff]; simp [IntTy.minVal, IntTy.maxVal, IntTy.signed, IntTy.bits]; omega
            have hrm : Rs.vecRemove (ofJVs vs) idx = .ok (ofJVs (vs.eraseIdx idx.toNat)) := by
              unfold Rs.vecRemove
              rw [if_pos (by rw [ofJVs_length]; omega), ofJVs_eraseIdx]
            rw [if_pos hc, if_pos (by simp [hc.1, hc.2]), hcu, hrm, removeAt_eq_eraseIdx]
            rfl
          · rw [if_neg hc, if_neg (by simpa using hc)]
        have hfin : ∀ idx : Int, numsWFL (if idx ≥ 0 ∧ idx < (vs.length : Int) then Fn.removeAt vs idx.toNat else vs) ∧
            depthL (if idx ≥ 0 ∧ idx < (vs.length : Int) then Fn.removeAt vs idx.toNat else vs) ≤ depthL vs ∧
            encSizeL (if idx ≥ 0 ∧ idx < (vs.length : Int) then Fn.removeAt vs idx.toNat else vs) ≤ encSizeL vs ∧
            (if idx ≥ 0 ∧ idx < (vs.length : Int) then Fn.removeAt vs idx.toNat else vs).length ≤ vs.length := by
          intro idx
          split
          · rw [removeAt_eq_eraseIdx]
            exact ⟨numsWFL_eraseIdx vs _ hwf, depthL_eraseIdx vs _, encSizeL_eraseIdx vs _, length_eraseIdx_le vs _⟩
          · exact ⟨hwf, Nat.le_refl _, Nat.le_refl _, Nat.le_refl _⟩
        by_cases hneg : index < 0
        · simp only [hneg, decide_true, if_true]
          unfold Fn.addI32
          dsimp only
          by_cases hr : -2147483648 ≤ (vs.length : Int) + index ∧ (vs.length : Int) + index ≤ 2147483647
          · rw [if_pos hr]
            simp only [Ctl.ofRes_ok', Ctl.val_bind', Ctl.pure_eq']
            obtain ⟨f1, f2, f3, f4⟩ := hfin ((vs.length : Int) + index)
            rw [hA _ hr]
            simp only [Ctl.val_bind']
            rw [hW _ f1 f2 f3 f4]
            cases writeToVec buf (.arr (if (vs.length : Int) + index ≥ 0 ∧ (vs.length : Int) + index < (vs.length : Int) then Fn.removeAt vs ((vs.length : Int) + index).toNat else vs)) <;> rfl
          · rw [if_neg hr]; rfl
        · simp only [hneg, decide_false, Bool.false_eq_true, if_false, Ctl.pure_eq', Ctl.val_bind']
          obtain ⟨f1, f2, f3, f4⟩ := hfin index
          rw [hA _ hidx]
          simp only [Ctl.val_bind']
          rw [hW _ f1 f2 f3 f4]
          cases writeToVec buf (.arr (if index ≥ 0 ∧ index < (vs.length : Int) then Fn.removeAt vs index.toNat else vs)) <;> rfl
      | null => rfl
      | bool b => rfl
      | num n => rfl
      | str s => rfl
      | obj kvs => rfl
    | err e => rfl
    | panic s => rfl
    | fuel => rfl
  · simp only [Ctl.ofRes_ok', Ctl.val_bind', Bool.not_true, Bool.false_eq_true, if_false, Ctl.pure_eq']
    rw [delete_jsonb_by_index_agrees value index buf fuel hidx hfuel hv hb]
    cases Fn.deleteByIndex value index buf <;> rfl

end Jsonb.TrAgree
