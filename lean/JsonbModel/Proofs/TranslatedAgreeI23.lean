/-
Phase 6c, editors: the `delete_by_keypath` family.  I23: the builders the model returns are inside the Rust domain
of `build_into`; `delete_by_keypath_jsonb` against `Fn.deleteByKeypath`.
-/
import JsonbModel.Proofs.TranslatedAgreeI22

set_option linter.unusedSimpArgs false
set_option linter.unusedVariables false

namespace Jsonb.TrAgree
open Jsonb.Rs

/-- what is known of the builders the model returns with fuel `f` -/
def DelBounds (f : Nat) : Prop :=
  ∀ (kp : List KeyPath) (h : Nat) (value : Bytes), value.length < 1152921504606846976 →
    (∀ es, Fn.delArrKp f kp h value = .ok (some es) → fitsB (.arr es) ∧ bdepthL es ≤ f) ∧
    (∀ m, Fn.delObjKp f kp h value = .ok (some m) → fitsB (.obj m) ∧ bdepthK m ≤ f)

theorem hitOf_bounds (f : Nat) (kp : List KeyPath) (IH : DelBounds f) (je : JE) (item : Bytes)
    (hx : item.length < 1152921504606846976) (e : BEntry)
    (h : hitOf (fun ih => Fn.delArrKp f kp ih item) (fun ih => Fn.delObjKp f kp ih item) je item = .ok (some e)) :
    fitsB e ∧ bdepth e ≤ f + 1 := by
  unfold hitOf at h
  split at h
  · cases hr : readU32At item 0 with
    | none => rw [hr] at h; cases h
    | some ih =>
      rw [hr] at h
      dsimp only at h
      split at h
      · cases hm : Fn.delArrKp f kp ih item with
        | ok o =>
          rw [hm] at h
          cases o with
          | none => simp [Res.map, Res.bind] at h
          | some es =>
            simp only [Res.map, Res.bind, Option.map, Res.ok.injEq, Option.some.injEq] at h
            subst h
            obtain ⟨a, b⟩ := (IH kp ih item hx).1 es hm
            exact ⟨a, by simp only [bdepth]; omega⟩
        | err e' => rw [hm] at h; cases h
        | panic s => rw [hm] at h; cases h
        | fuel => rw [hm] at h; cases h
      · split at h
        · cases hm : Fn.delObjKp f kp ih item with
          | ok o =>
            rw [hm] at h
            cases o with
            | none => simp [Res.map, Res.bind] at h
            | some es =>
              simp only [Res.map, Res.bind, Option.map, Res.ok.injEq, Option.some.injEq] at h
              subst h
              obtain ⟨a, b⟩ := (IH kp ih item hx).2 es hm
              exact ⟨a, by simp only [bdepth]; omega⟩
          | err e' => rw [hm] at h; cases h
          | panic s => rw [hm] at h; cases h
          | fuel => rw [hm] at h; cases h
        · cases h
  · cases h

theorem delArrItems_bounds : ∀ (items : List (JE × Bytes)) (f : Nat) (kp : List KeyPath) (idx i : Nat),
    (∀ f', f' < f → DelBounds f') →
    (∀ x ∈ items, JEFits x.1 ∧ x.2.length < 1152921504606846976) →
    ∀ es, Fn.delArrItems f kp items idx i = .ok (some es) → fitsBL es ∧ es.length ≤ items.length ∧ bdepthL es ≤ f
  | [], f, kp, idx, i, _, _, es, h => by
    cases f with
    | zero => simp [Fn.delArrItems] at h
    | succ f =>
      simp only [Fn.delArrItems, Res.ok.injEq, Option.some.injEq] at h
      subst h
      simp [fitsBL, bdepthL]
  | x :: items, f, kp, idx, i, IH, hb, es, h => by
    cases f with
    | zero => simp [Fn.delArrItems] at h
    | succ f =>
      have hx := hb x List.mem_cons_self
      have hrest : ∀ kp' j es', Fn.delArrItems f kp' items idx j = .ok (some es') →
          fitsBL es' ∧ es'.length ≤ items.length ∧ bdepthL es' ≤ f :=
        fun kp' j es' he => delArrItems_bounds items f kp' idx j (fun f' hf' => IH f' (by omega))
          (fun y hy => hb y (List.mem_cons_of_mem _ hy)) es' he
      by_cases hi : i = idx
      · subst hi
        cases kp with
        | nil =>
          rw [delArrItems_drop] at h
          obtain ⟨a, b, c⟩ := hrest _ _ _ h
          exact ⟨a, by simp only [List.length_cons]; omega, by omega⟩
        | cons p kp =>
          rw [delArrItems_hit] at h
          cases hm : hitOf (fun ih => Fn.delArrKp f (p :: kp) ih x.2) (fun ih => Fn.delObjKp f (p :: kp) ih x.2) x.1 x.2 with
          | ok o =>
            rw [hm] at h
            cases o with
            | none => cases h
            | some e =>
              dsimp only at h
              cases hr : Fn.delArrItems f [] items i (i + 1) with
              | ok o2 =>
                rw [hr] at h
                cases o2 with
                | none => cases h
                | some rest =>
                  simp only [Res.ok.injEq, Option.some.injEq] at h
                  subst h
                  obtain ⟨a1, a2⟩ := hitOf_bounds f (p :: kp) (IH f (by omega)) x.1 x.2 hx.2 e hm
                  obtain ⟨b1, b2, b3⟩ := hrest _ _ _ hr
                  exact ⟨⟨a1, b1⟩, by simp only [List.length_cons]; omega, bdepthL_cons_le e rest (f + 1) a2 (by omega)⟩
              | err e' => rw [hr] at h; cases h
              | panic s => rw [hr] at h; cases h
              | fuel => rw [hr] at h; cases h
          | err e' => rw [hm] at h; cases h
          | panic s => rw [hm] at h; cases h
          | fuel => rw [hm] at h; cases h
      · rw [delArrItems_other _ _ _ _ _ _ hi] at h
        cases hr : Fn.delArrItems f kp items idx (i + 1) with
        | ok o2 =>
          rw [hr] at h
          cases o2 with
          | none => cases h
          | some rest =>
            simp only [Res.ok.injEq, Option.some.injEq] at h
            subst h
            obtain ⟨b1, b2, b3⟩ := hrest _ _ _ hr
            exact ⟨⟨hx.1, b1⟩, by simp only [List.length_cons]; omega,
              bdepthL_cons_le _ rest (f + 1) (by simp [Fn.rawOf, bdepth]) (by omega)⟩
        | err e' => rw [hr] at h; cases h
        | panic s => rw [hr] at h; cases h
        | fuel => rw [hr] at h; cases h

theorem delObjMembers_bounds : ∀ (ms : List (Bytes × JE × Bytes)) (f : Nat) (kp : List KeyPath) (name : Bytes) (D : Nat),
    (∀ f', f' < f → DelBounds f') → f ≤ D →
    (∀ x ∈ ms, JEFits x.2.1 ∧ x.2.2.length < 1152921504606846976) →
    ∀ (acc r : List (Bytes × BEntry)), fitsBK acc → bdepthK acc ≤ D → Fn.delObjMembers f kp name ms acc = .ok (some r) →
    fitsBK r ∧ r.length ≤ acc.length + ms.length ∧ keySum r ≤ keySum acc + mKeySum ms ∧ bdepthK r ≤ D
  | [], f, kp, name, D, _, _, _, acc, r, hacc, hd, h => by
    cases f with
    | zero => simp [Fn.delObjMembers] at h
    | succ f =>
      simp only [Fn.delObjMembers, Res.ok.injEq, Option.some.injEq] at h
      subst h
      exact ⟨hacc, by simp, by simp [mKeySum], hd⟩
  | m :: ms, f, kp, name, D, IH, hD, hb, acc, r, hacc, hd, h => by
    cases f with
    | zero => simp [Fn.delObjMembers] at h
    | succ f =>
      have hx := hb m List.mem_cons_self
      have hrest : ∀ kp' acc' r', fitsBK acc' → bdepthK acc' ≤ D → Fn.delObjMembers f kp' name ms acc' = .ok (some r') →
          fitsBK r' ∧ r'.length ≤ acc'.length + ms.length ∧ keySum r' ≤ keySum acc' + mKeySum ms ∧ bdepthK r' ≤ D :=
        fun kp' acc' r' ha hda he => delObjMembers_bounds ms f kp' name D (fun f' hf' => IH f' (by omega)) (by omega)
          (fun y hy => hb y (List.mem_cons_of_mem _ hy)) acc' r' ha hda he
      by_cases hk : m.1 = name
      · cases kp with
        | nil =>
          rw [delObjMembers_drop _ _ _ _ _ hk] at h
          obtain ⟨a, b, c, d⟩ := hrest _ _ _ hacc hd h
          simp only [List.length_cons, mKeySum]
          exact ⟨a, by omega, by omega, d⟩
        | cons p kp =>
          rw [delObjMembers_hit _ _ _ _ _ _ _ hk] at h
          cases hm : hitOf (fun ih => Fn.delArrKp f (p :: kp) ih m.2.2) (fun ih => Fn.delObjKp f (p :: kp) ih m.2.2) m.2.1 m.2.2 with
          | ok o =>
            rw [hm] at h
            cases o with
            | none => cases h
            | some e =>
              dsimp only at h
              obtain ⟨a1, a2⟩ := hitOf_bounds f (p :: kp) (IH f (by omega)) m.2.1 m.2.2 hx.2 e hm
              obtain ⟨i1, i2, i3, i4⟩ := bInsert_gen m.1 e D a1 (by omega) acc hacc hd
              obtain ⟨a, b, c, d⟩ := hrest _ _ _ i1 i4 h
              simp only [List.length_cons, mKeySum]
              exact ⟨a, by omega, by omega, d⟩
          | err e' => rw [hm] at h; cases h
          | panic s => rw [hm] at h; cases h
          | fuel => rw [hm] at h; cases h
      · rw [delObjMembers_other _ _ _ _ _ _ hk] at h
        obtain ⟨i1, i2, i3, i4⟩ := bInsert_gen m.1 (.raw m.2.1.ty m.2.1.len m.2.2) D hx.1 (by simp [bdepth]) acc hacc hd
        obtain ⟨a, b, c, d⟩ := hrest _ _ _ i1 i4 h
        simp only [List.length_cons, mKeySum]
        exact ⟨a, by omega, by omega, d⟩

/-- the builders of the model are inside the domain of `build_into` -/
theorem del_bounds : ∀ f : Nat, DelBounds f := by
  intro f
  induction f using Nat.strong_induction_on with
  | _ f IH =>
    intro kp h value hlen
    have hL := hdrLen_lt h
    cases f with
    | zero =>
      exact ⟨fun es hes => by simp [Fn.delArrKp] at hes, fun m hm => by simp [Fn.delObjKp] at hm⟩
    | succ f =>
      constructor
      · intro es hes
        cases kp with
        | nil => rw [Fn.delArrKp] at hes; cases hes
        | cons p kp =>
          cases p with
          | index idx0 =>
            rw [Fn.delArrKp] at hes
            split at hes
            · rename_i idx hidx
              split at hes
              · cases hes
              · cases hit : iterArray value h with
                | ok items =>
                  rw [hit] at hes
                  dsimp only at hes
                  obtain ⟨hb1, hb2, hb3⟩ := iterArray_bounds value h items hit
                  obtain ⟨a1, a2, a3⟩ := delArrItems_bounds items f kp idx.toNat 0 (fun f' hf' => IH f' (by omega))
                    (fun x hx => ⟨hb2 x hx, by have := iterArray_item_le value h items hit x hx; omega⟩) es hes
                  have hs := bsizeL_le es
                  refine ⟨?_, by omega⟩
                  simp only [fitsB]
                  exact ⟨a1, by omega⟩
                | err e => rw [hit] at hes; cases hes
                | panic s => rw [hit] at hes; cases hes
                | fuel => rw [hit] at hes; cases hes
            · cases hes
            · cases hes
            · cases hes
          | quoted s =>
            rw [Fn.delArrKp] at hes
            · cases hes
            · intro idx0 c; cases c
          | name s =>
            rw [Fn.delArrKp] at hes
            · cases hes
            · intro idx0 c; cases c
      · intro m hm
        have key : ∀ (name : Bytes) (kp' : List KeyPath),
            (match iterObjEntries value h with
              | .ok ms => Fn.delObjMembers f kp' name ms []
              | .err e => .err e
              | .panic s => .panic s
              | .fuel => .fuel) = .ok (some m) → fitsB (.obj m) ∧ bdepthK m ≤ f + 1 := by
          intro name kp' hm
          cases hms : iterObjEntries value h with
          | ok ms =>
            rw [hms] at hm
            dsimp only at hm
            have hbounds : ms.length ≤ hdrLen h ∧ (∀ m ∈ ms, JEFits m.2.1) ∧ mKeySum ms ≤ value.length ∧ mPaySum ms ≤ value.length := by
              unfold iterObjEntries at hms
              dsimp only at hms
              cases hfk : fillKeys value (hdrLen h) 4 (4 + hdrLen h * 8) with
              | none => rw [hfk] at hms; cases hms
              | some q => obtain ⟨ks, jo, vo⟩ := q; rw [hfk] at hms; exact obj_members_bounds value h ks jo vo ms hfk hms
            obtain ⟨hb1, hb2, hb3, hb4⟩ := hbounds
            obtain ⟨a1, a2, a3, a4⟩ := delObjMembers_bounds ms f kp' name f (fun f' hf' => IH f' (by omega)) (Nat.le_refl _)
              (fun x hx => ⟨hb2 x hx, by have := iterObjEntries_item_le value h ms hms x hx; omega⟩) [] m
              (by simp [fitsBK]) (by simp [bdepthK]) hm
            simp only [List.length_nil, keySum, Nat.zero_add] at a2 a3
            have hs := bsizeK_le m
            refine ⟨?_, by omega⟩
            simp only [fitsB, bkeyBytes_length]
            exact ⟨a1, by omega⟩
          | err e => rw [hms] at hm; cases hm
          | panic s => rw [hms] at hm; cases hm
          | fuel => rw [hms] at hm; cases hm
        cases kp with
        | nil => rw [Fn.delObjKp] at hm; cases hm
        | cons p kp =>
          cases p with
          | index idx0 => rw [Fn.delObjKp] at hm; cases hm
          | quoted s => rw [Fn.delObjKp] at hm; exact key s kp hm
          | name s => rw [Fn.delObjKp] at hm; exact key s kp hm

/-! ## `delete_by_keypath_jsonb` -/

/-- **`delete_by_keypath_jsonb`** computes the model's `deleteByKeypath` on documents none of whose (nested) objects
repeats a key, wherever the model does not panic and its output is a byte string a `Vec<u8>` can hold -/
theorem delete_by_keypath_jsonb_agrees (value buf : Bytes) (kp : List KeyPath) (fuel : Nat)
    (hfuel : 2 * value.length + 4 * kp.length + 536870932 < fuel) (hv : value.length < 1152921504606846976)
    (hkd : KeysDistinct value)
    (hne : Fn.deleteByKeypath value kp buf ≠ .fuel) (hnp : (Fn.deleteByKeypath value kp buf).isPanic = false)
    (hout : ∀ out, Fn.deleteByKeypath value kp buf = .ok out → out.length < 9223372036854775808) :
    Tr.delete_by_keypath_jsonb fuel value (kp.map ofKPath) buf = Fn.deleteByKeypath value kp buf := by
  unfold Tr.delete_by_keypath_jsonb
  unfold Fn.deleteByKeypath at hne hnp hout ⊢
  simp only [read_u32_zero]
  cases hr : readU32At value 0 with
  | none => simp only [Ctl.ofRes_err', Ctl.ret_bind', Ctl.run_ret']
  | some h =>
    rw [hr] at hne hnp hout
    dsimp only at hne hnp hout ⊢
    simp only [Ctl.ofRes_ok', Ctl.val_bind', hdrType_eq]
    simp only [decide_eq_true_eq]
    have hall := del_all value hv hkd (value.length + 2 * kp.length + 8) fuel (by omega) value h kp (SubDoc.root) hr
    by_cases hA : hdrType h = C.ARRAY_CONTAINER_TAG
    · simp only [if_pos hA] at hne hnp hout ⊢
      cases hm : Fn.delArrKp (value.length + 2 * kp.length + 8) kp h value with
      | fuel => rw [hm] at hne; exact absurd rfl hne
      | panic s => rw [hm] at hnp; simp [Res.isPanic] at hnp
      | err e =>
        have hag := hall.1 hA (by rw [hm]; exact fun c => by cases c) (by rw [hm]; rfl)
        rw [hm] at hag
        simp only [DelRel] at hag
        simp only [hag, Ctl.ofRes_err', Ctl.ret_bind', Ctl.run_ret']
      | ok o =>
        have hag := hall.1 hA (by rw [hm]; exact fun c => by cases c) (by rw [hm]; rfl)
        rw [hm] at hag hout
        cases o with
        | none =>
          simp only [DelRel] at hag
          obtain ⟨kp2, hag⟩ := hag
          simp only [hag, Ctl.ofRes_ok', Ctl.val_bind', Ctl.pure_eq', Ctl.run_ret', Rs.extendFromSlice]
        | some es =>
          simp only [DelRel] at hag
          obtain ⟨kp2, hag⟩ := hag
          obtain ⟨hfit, hdep⟩ := (del_bounds _ kp h value hv).1 es hm
          dsimp only at hout ⊢
          have hspec := buildArrayInto_spec buf es
          have hol := hout _ hspec
          simp only [List.length_append] at hol
          have hbi := array_build_into_agrees es buf fuel (by omega) hfit (by simp only [bpay]; omega)
          simp only [hag, Res.map, Res.bind, Ctl.ofRes_ok', Ctl.val_bind', arrB] at hbi ⊢
          rw [hbi, hspec]
          simp only [Res.map, Res.bind, Ctl.ofRes_ok', Ctl.val_bind', Ctl.pure_eq', Ctl.run_ret']
    simp only [if_neg hA] at hne hnp hout ⊢
    by_cases hO : hdrType h = C.OBJECT_CONTAINER_TAG
    · simp only [if_pos hO] at hne hnp hout ⊢
      cases hm : Fn.delObjKp (value.length + 2 * kp.length + 8) kp h value with
      | fuel => rw [hm] at hne; exact absurd rfl hne
      | panic s => rw [hm] at hnp; simp [Res.isPanic] at hnp
      | err e =>
        have hag := hall.2 hO (by rw [hm]; exact fun c => by cases c) (by rw [hm]; rfl)
        rw [hm] at hag
        simp only [DelRel] at hag
        simp only [hag, Ctl.ofRes_err', Ctl.ret_bind', Ctl.run_ret']
      | ok o =>
        have hag := hall.2 hO (by rw [hm]; exact fun c => by cases c) (by rw [hm]; rfl)
        rw [hm] at hag hout
        cases o with
        | none =>
          simp only [DelRel] at hag
          obtain ⟨kp2, hag⟩ := hag
          simp only [hag, Ctl.ofRes_ok', Ctl.val_bind', Ctl.pure_eq', Ctl.run_ret', Rs.extendFromSlice]
        | some m =>
          simp only [DelRel] at hag
          obtain ⟨kp2, hag⟩ := hag
          obtain ⟨hfit, hdep⟩ := (del_bounds _ kp h value hv).2 m hm
          dsimp only at hout ⊢
          have hspec := buildObjectInto_spec buf m
          have hol := hout _ hspec
          simp only [List.length_append] at hol
          have hbi := object_build_into_agrees m buf fuel (by omega) hfit (by simp only [bpay]; omega)
          simp only [hag, Res.map, Res.bind, Ctl.ofRes_ok', Ctl.val_bind', objB] at hbi ⊢
          rw [hbi, hspec]
          simp only [Res.map, Res.bind, Ctl.ofRes_ok', Ctl.val_bind', Ctl.pure_eq', Ctl.run_ret']
    · simp only [if_neg hO, Ctl.ret_bind', Ctl.run_ret']

end Jsonb.TrAgree
