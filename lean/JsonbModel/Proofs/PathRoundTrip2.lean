/-
C09 — the path languages: completeness of the parsers on the documented grammar and the
print → parse round trip, for JSONPath (`jsonpath/parser.rs`, `jsonpath/path.rs`) including
filter expressions, and for key paths (`keypath.rs`).

Headline theorems (proofs in `PathRoundTrip2a … 2g`):

* `parseJsonPath_printJsonPath_good`  : print → parse is the identity on `goodJsonPath`
  (`$` + plain/filter steps, or a top-level predicate; comparisons, `&&`, `||` in any nesting,
  `exists(path)` with nested filters; literals of every kind).
* `parseJsonPath_printJsonPath_unrooted` : the same for paths printed without `$`.
* `parseJsonPath_render` : every layout `Style` (whitespace runs, `LAST`/`TO` case, `."name"`,
  `<>`) of a good path parses back to it.
* `parseJsonPath_rendering_rooted`, `_predicate`, `_unrooted` : the most general form — every text
  in the rendering relation `PathRT2.R` (independent whitespace run at every position, either
  name quoting per name, `last ± n`, escapes in quoted names, all literal spellings) parses to
  the rendered AST.
* `parseJsonPath_rendering_bare` : paths starting with a bare member name (`store.book`).
* precedence: `parseJsonPath_or_and`, `parseJsonPath_and_or` (+ filter and printed variants).
* key paths: `parseKeyPaths_rendering`, `parseKeyPaths_rendering_empty`.
* discrepancies found: section "findings" at the end.
-/
import JsonbModel.Proofs.PathRoundTrip2e
import JsonbModel.Proofs.PathRoundTrip2g
import JsonbModel.Proofs.PathRoundTrip2h

namespace Jsonb
open PathRT2

/-! ## 1. print → parse -/

/-- **Print → parse, JSONPath with filters.**  For every `jp` with `goodJsonPath fmtF64 jp`
(decidable; see `PathRT2.goodJsonPath`, `goodSteps`, `goodExpr`, `goodOperand`, `goodValue`):
`parse_json_path(format!("{jp}")) = Ok(jp)`.  Covered: `$` followed by any sequence of
`.*`, `[*]`, `.name`, `:name`, `["name"]`, `[i, a to b, last±k]` and filter steps `?(e)`; or a
single top-level predicate `e`; where `e` is built from comparisons (`== != < <= > >=`) of
operands (`$`/`@` + plain steps, or literals `null`/`true`/`false`/`UInt64`/negative `Int64`/
floats whose formatter output `goodFloat` accepts/strings without `"` and `\`), `&&`, `||` (any
nesting — the printer's parentheses are faithful) and `exists($|@ steps…)` whose steps may again
contain filters. -/
theorem parseJsonPath_printJsonPath_good (fmtF64 : Nat → Bytes) (jp : JsonPath)
    (h : goodJsonPath fmtF64 jp = true) : parseJsonPath (printJsonPath fmtF64 jp) = .ok jp :=
  parse_print fmtF64 jp h

/-- **Print → parse for paths without the leading `$`** (`.a[0]?(…)`; also the empty path):
good steps whose printout does not start with `.` followed by a digit (see finding F-C09-1). -/
theorem parseJsonPath_printJsonPath_unrooted (fmtF64 : Nat → Bytes) (jp : JsonPath)
    (h : goodUnrooted fmtF64 jp = true) : parseJsonPath (printJsonPath fmtF64 jp) = .ok jp :=
  parse_print_unrooted fmtF64 jp h

/-! ## 2. precedence -/

/-- **`&&` binds tighter than `||` (1).**  For atoms `a b c` (comparison, `exists(…)`, or a
parenthesised expression) rendered as `sa sb sc`, and any whitespace runs `w1 … w4`, the text
`sa w1 || w2 sb w3 && w4 sc` parses to `Or(a, And(b, c))`. -/
theorem parseJsonPath_or_and {a b c : Expr} {sa sb sc : Bytes} (ha : R .atom true a sa)
    (hb : R .atom true b sb) (hc : R .atom true c sc) (w1 w2 w3 w4 : Bytes) (hw1 : Ws w1)
    (hw2 : Ws w2) (hw3 : Ws w3) (hw4 : Ws w4) :
    parseJsonPath (sa ++ (w1 ++ 124 :: 124 :: (w2 ++ (sb ++ (w3 ++ 38 :: 38 :: (w4 ++ sc))))))
      = .ok [.predicate (.binaryOp .or a (.binaryOp .and b c))] :=
  parse_or_and ha hb hc w1 w2 w3 w4 hw1 hw2 hw3 hw4

/-- **`&&` binds tighter than `||` (2).**  `sa w1 && w2 sb w3 || w4 sc` parses to
`Or(And(a, b), c)`. -/
theorem parseJsonPath_and_or {a b c : Expr} {sa sb sc : Bytes} (ha : R .atom true a sa)
    (hb : R .atom true b sb) (hc : R .atom true c sc) (w1 w2 w3 w4 : Bytes) (hw1 : Ws w1)
    (hw2 : Ws w2) (hw3 : Ws w3) (hw4 : Ws w4) :
    parseJsonPath (sa ++ (w1 ++ 38 :: 38 :: (w2 ++ (sb ++ (w3 ++ 124 :: 124 :: (w4 ++ sc))))))
      = .ok [.predicate (.binaryOp .or (.binaryOp .and a b) c)] :=
  parse_and_or ha hb hc w1 w2 w3 w4 hw1 hw2 hw3 hw4

/-- the same inside a filter: `$?(a || b && c)` -/
theorem parseJsonPath_filter_or_and {a b c : Expr} {sa sb sc : Bytes} (ha : R .atom false a sa)
    (hb : R .atom false b sb) (hc : R .atom false c sc) (w1 w2 w3 w4 : Bytes) (hw1 : Ws w1)
    (hw2 : Ws w2) (hw3 : Ws w3) (hw4 : Ws w4) :
    parseJsonPath (36 :: 63 :: 40 ::
        (sa ++ (w1 ++ 124 :: 124 :: (w2 ++ (sb ++ (w3 ++ 38 :: 38 :: (w4 ++ sc))))) ++ [41]))
      = .ok [.root, .filterExpr (.binaryOp .or a (.binaryOp .and b c))] :=
  parse_filter_or_and ha hb hc w1 w2 w3 w4 hw1 hw2 hw3 hw4

/-- the same inside a filter: `$?(a && b || c)` -/
theorem parseJsonPath_filter_and_or {a b c : Expr} {sa sb sc : Bytes} (ha : R .atom false a sa)
    (hb : R .atom false b sb) (hc : R .atom false c sc) (w1 w2 w3 w4 : Bytes) (hw1 : Ws w1)
    (hw2 : Ws w2) (hw3 : Ws w3) (hw4 : Ws w4) :
    parseJsonPath (36 :: 63 :: 40 ::
        (sa ++ (w1 ++ 38 :: 38 :: (w2 ++ (sb ++ (w3 ++ 124 :: 124 :: (w4 ++ sc))))) ++ [41]))
      = .ok [.root, .filterExpr (.binaryOp .or (.binaryOp .and a b) c)] :=
  parse_filter_and_or ha hb hc w1 w2 w3 w4 hw1 hw2 hw3 hw4

/-- Precedence on printed operands: for good expressions `a b c` (anything `goodExpr` accepts;
`atomText` is the printer's text of an operand, with its parentheses if it is an `&&`/`||`),
`A || B && C` parses to `Or(a, And(b, c))` and `A && B || C` to `Or(And(a, b), c)`. -/
theorem parseJsonPath_printed_precedence (fmtF64 : Nat → Bytes) (a b c : Expr)
    (ha : goodExpr fmtF64 true a = true) (hb : goodExpr fmtF64 true b = true)
    (hc : goodExpr fmtF64 true c = true) :
    parseJsonPath (atomText fmtF64 a ++ ([32] ++ 124 :: 124 :: ([32] ++ (atomText fmtF64 b ++
        ([32] ++ 38 :: 38 :: ([32] ++ atomText fmtF64 c))))))
      = .ok [.predicate (.binaryOp .or a (.binaryOp .and b c))] ∧
    parseJsonPath (atomText fmtF64 a ++ ([32] ++ 38 :: 38 :: ([32] ++ (atomText fmtF64 b ++
        ([32] ++ 124 :: 124 :: ([32] ++ atomText fmtF64 c))))))
      = .ok [.predicate (.binaryOp .or (.binaryOp .and a b) c)] :=
  ⟨parse_or_and (atom_of_good _ _ a ha) (atom_of_good _ _ b hb) (atom_of_good _ _ c hc)
      [32] [32] [32] [32] Ws.one Ws.one Ws.one Ws.one,
   parse_and_or (atom_of_good _ _ a ha) (atom_of_good _ _ b hb) (atom_of_good _ _ c hc)
      [32] [32] [32] [32] Ws.one Ws.one Ws.one Ws.one⟩

/-! ## 3. spacing, keyword case, quoting: every rendering is accepted -/

/-- **Layout styles.**  For every `Style` whose four runs are whitespace (space, tab, CR, LF;
possibly empty) — with `last`/`to` in either case, names as `.name` or `."name"`, `!=` or `<>` —
the rendering of a good JSONPath parses back to it. -/
theorem parseJsonPath_render (st : Style) (hst : st.ok = true) (fmtF64 : Nat → Bytes)
    (jp : JsonPath) (h : goodJsonPath fmtF64 jp = true) :
    parseJsonPath (st.render fmtF64 jp) = .ok jp :=
  parse_render st hst fmtF64 jp h

/-- **Every rendering, rooted paths.**  `R .steps false (.paths ps) t` says that `t` is a
rendering of the steps `ps` with an arbitrary whitespace run (`Ws`) at every position where the
grammar has `multispace0`; then `ws $ t ws` parses to `Root :: ps`. -/
theorem parseJsonPath_rendering_rooted {ps : List Path} {t : Bytes}
    (h : R .steps false (.paths ps) t) (w0 w1 : Bytes) (hw0 : Ws w0) (hw1 : Ws w1) :
    parseJsonPath (w0 ++ 36 :: (t ++ w1)) = .ok (.root :: ps) :=
  parse_rooted h w0 w1 hw0 hw1

/-- **Every rendering, top-level predicates.** -/
theorem parseJsonPath_rendering_predicate {e : Expr} {s : Bytes} (h : R .orL true e s)
    (w0 w1 : Bytes) (hw0 : Ws w0) (hw1 : Ws w1) :
    parseJsonPath (w0 ++ (s ++ w1)) = .ok [.predicate e] :=
  parse_predicate h w0 w1 hw0 hw1

/-- **Every rendering, paths without `$`** (not starting with `.` + digit). -/
theorem parseJsonPath_rendering_unrooted {ps : List Path} {t : Bytes}
    (h : R .steps false (.paths ps) t) (w0 w1 : Bytes) (hw0 : Ws w0) (hw1 : Ws w1)
    (hok : unrootedOk (Nom.dropSpaces t) = true) : parseJsonPath (w0 ++ (t ++ w1)) = .ok ps :=
  parse_unrooted h w0 w1 hw0 hw1 hok

/-- **Every rendering, paths starting with a bare member name** (`store.book[0]`, second
alternative of `pre_path`): the name is a `goodField` whose first byte is not a digit (`bareHead`);
names that begin like a keyword (`true.x`, `nullable`, `exists`, `infinity`) are covered. -/
theorem parseJsonPath_rendering_bare {ps : List Path} {t : Bytes}
    (h : R .steps false (.paths ps) t) (c : UInt8) (nm w0 w w1 : Bytes) (hc : bareHead c = true)
    (hnm : PathRT.goodField (c :: nm) = true) (hw0 : Ws w0) (hw : Ws w) (hw1 : Ws w1) :
    parseJsonPath (w0 ++ (c :: nm ++ (w ++ (t ++ w1)))) = .ok (.dotField (c :: nm) :: ps) :=
  parse_bare h c nm w0 w w1 hc hnm hw0 hw hw1

/-! ## 4. key paths -/

/-- **Key paths, every rendering.**  `ws { ws e1 ws , … , ws en ws } ws` (n ≥ 1) with elements
a decimal `i32`, a quoted name (two-byte escapes decoded) or an unquoted `goodName` parses to
`[e1, …, en]`. -/
theorem parseKeyPaths_rendering {ks : List KeyPath} {t : Bytes} (h : RKeyList ks t) (w0 w1 : Bytes)
    (hw0 : Ws w0) (hw1 : Ws w1) : parseKeyPaths (w0 ++ 123 :: (t ++ 125 :: w1)) = .ok ks :=
  parse_keyPaths_render h w0 w1 hw0 hw1

/-- `ws { ws } ws` is the empty key path list. -/
theorem parseKeyPaths_rendering_empty (w0 w w1 : Bytes) (hw0 : Ws w0) (hw : Ws w) (hw1 : Ws w1) :
    parseKeyPaths (w0 ++ 123 :: (w ++ 125 :: w1)) = .ok [] :=
  parse_keyPaths_empty w0 w w1 hw0 hw hw1

/-- print → parse for key paths, re-derived from the rendering theorem (same statement as
`parseKeyPaths_printKeyPaths`) -/
theorem parseKeyPaths_printKeyPaths' (k : KeyPath) (ks : List KeyPath)
    (h : (k :: ks).all PathRT.goodKP = true) :
    parseKeyPaths (printKeyPaths (k :: ks)) = .ok (k :: ks) := by
  have := parse_keyPaths_render (keyList_print_rend ks k h) [] [] Ws.nil Ws.nil
  simpa [printKeyPaths, PathPrint.printKeyPaths, PathRT.printKeyPathList_cons] using this

/-! ## examples (kernel-checked) -/
namespace PathRT2.Examples

/-- a float formatter on a few bit patterns, as Rust's `{}` (ryu) prints them -/
def fmtDemo (b : Nat) : Bytes :=
  if b = 0x3FF8000000000000 then [49, 46, 53]             -- 1.5
  else if b = 0xC004000000000000 then [45, 50, 46, 53]    -- -2.5
  else if b = 0x444B1AE4D6E2EF50 then [49, 101, 50, 49]   -- 1e21
  else if b = 0x3E7AD7F29ABCAF48 then [49, 101, 45, 55]   -- 1e-7
  else if b = 0x7FF8000000000000 then [78, 97, 78]        -- NaN
  else if b = 0x7FF0000000000000 then [105, 110, 102]     -- inf
  else if b = 0xFFF0000000000000 then [45, 105, 110, 102] -- -inf
  else []

example : goodFloat fmtDemo 0x3FF8000000000000 = true := by decide +kernel
example : goodFloat fmtDemo 0xC004000000000000 = true := by decide +kernel
example : goodFloat fmtDemo 0x444B1AE4D6E2EF50 = true := by decide +kernel
example : goodFloat fmtDemo 0x3E7AD7F29ABCAF48 = true := by decide +kernel
example : goodFloat fmtDemo 0x7FF8000000000000 = true := by decide +kernel
example : goodFloat fmtDemo 0x7FF0000000000000 = true := by decide +kernel
/-- `-inf` is not read back -/
example : goodFloat fmtDemo 0xFFF0000000000000 = false := by decide +kernel

/-- `$.store.book[*]?(@.price < 10 && (@.a == "x" || exists(@.b))).title` -/
def sample : JsonPath :=
  [.root, .dotField [115, 116, 111, 114, 101], .dotField [98, 111, 111, 107], .bracketWildcard,
   .filterExpr (.binaryOp .and
     (.binaryOp .lt (.paths [.current, .dotField [112, 114, 105, 99, 101]]) (.value (.num (.uint 10))))
     (.binaryOp .or
       (.binaryOp .eq (.paths [.current, .dotField [97]]) (.value (.str [120])))
       (.existsFn [.current, .dotField [98]]))),
   .dotField [116, 105, 116, 108, 101]]

def samplePrinted : Bytes :=
  [36, 46, 115, 116, 111, 114, 101, 46, 98, 111, 111, 107, 91, 42, 93, 63, 40, 64, 46, 112, 114, 105,
   99, 101, 32, 60, 32, 49, 48, 32, 38, 38, 32, 40, 64, 46, 97, 32, 61, 61, 32, 34, 120, 34, 32, 124,
   124, 32, 101, 120, 105, 115, 116, 115, 40, 64, 46, 98, 41, 41, 41, 46, 116, 105, 116, 108, 101]

example : goodJsonPath fmtDemo sample = true := by decide +kernel
example : printJsonPath fmtDemo sample = samplePrinted := by decide +kernel
example : parseJsonPath samplePrinted = .ok sample := by
  have := parseJsonPath_printJsonPath_good fmtDemo sample (by decide +kernel)
  rwa [show printJsonPath fmtDemo sample = samplePrinted by decide +kernel] at this

/-- the same path written
` $ .store ."book" [ * ] ?( @.price<10&&( @ .a=="x"||exists ( @.b ) ) ) .title ` -/
example : parseJsonPath
    [32, 36, 32, 46, 115, 116, 111, 114, 101, 32, 46, 34, 98, 111, 111, 107, 34, 32, 91, 32, 42, 32, 93,
     32, 63, 40, 32, 64, 46, 112, 114, 105, 99, 101, 60, 49, 48, 38, 38, 40, 32, 64, 32, 46, 97, 61, 61,
     34, 120, 34, 124, 124, 101, 120, 105, 115, 116, 115, 32, 40, 32, 64, 46, 98, 32, 41, 32, 41, 32, 41,
     32, 46, 116, 105, 116, 108, 101, 32] = .ok sample := by rfl

/-- a path exercising every feature: nested and/or on both sides, nested filter inside `exists`,
all literal kinds, index lists with ranges and `last` offsets, `["k"]`, `:c` -/
def sample2 : JsonPath :=
  [.root, .arrayIndices [.index (.index 0), .slice (.index 1) (.last (-1)), .index (.last 2),
      .index (.last 0), .slice (.last (-2147483648)) (.index (-2147483648))],
   .objectField [107, 32, 49], .colonField [99], .dotWildcard,
   .filterExpr (.binaryOp .or
     (.binaryOp .and
       (.binaryOp .and
         (.binaryOp .ne (.paths [.current, .dotField [97]]) (.value .null))
         (.binaryOp .le (.value (.num (.int (-7)))) (.paths [.root, .bracketWildcard])))
       (.binaryOp .or
         (.binaryOp .gt (.paths [.current]) (.value (.num (.float 0x3FF8000000000000))))
         (.binaryOp .ge (.value (.bool true)) (.value (.num (.float 0x3E7AD7F29ABCAF48))))))
     (.binaryOp .or
       (.existsFn [.root, .dotField [98],
          .filterExpr (.binaryOp .eq (.paths [.current, .dotField [99]]) (.value (.str [])))])
       (.binaryOp .and
         (.binaryOp .eq (.value (.num (.float 0x7FF8000000000000))) (.value (.num (.float 0x7FF0000000000000))))
         (.binaryOp .lt (.value (.bool false)) (.value (.num (.uint 18446744073709551615)))))))]

example : goodJsonPath fmtDemo sample2 = true := by decide +kernel
example : parseJsonPath (printJsonPath fmtDemo sample2) = .ok sample2 :=
  parseJsonPath_printJsonPath_good _ _ (by decide +kernel)

/-- two layouts of the same path -/
def compact : Style := ⟨[], [], [], [], false, false, false⟩
def loose : Style := ⟨[32], [32, 9], [13, 10], [10, 32], true, true, true⟩

example : parseJsonPath (compact.render fmtDemo sample2) = .ok sample2 :=
  parseJsonPath_render compact (by decide) _ _ (by decide +kernel)
example : parseJsonPath (loose.render fmtDemo sample2) = .ok sample2 :=
  parseJsonPath_render loose (by decide) _ _ (by decide +kernel)

/-- compact layout of `sample`: `$.store.book[*]?(@.price<10&&(@.a=="x"||exists(@.b))).title` -/
example : compact.render fmtDemo sample =
    [36, 46, 115, 116, 111, 114, 101, 46, 98, 111, 111, 107, 91, 42, 93, 63, 40, 64, 46, 112, 114, 105,
     99, 101, 60, 49, 48, 38, 38, 40, 64, 46, 97, 61, 61, 34, 120, 34, 124, 124, 101, 120, 105, 115,
     116, 115, 40, 64, 46, 98, 41, 41, 41, 46, 116, 105, 116, 108, 101] := by decide +kernel

/-- top-level predicate `$.a == 1 || $.b <> -2.5e-3 && $.c >= "q\n"` (escape `\n` in the text):
`||` is the root, its right operand is the `&&` -/
example : parseJsonPath
    [36, 46, 97, 32, 61, 61, 32, 49, 32, 124, 124, 32, 36, 46, 98, 32, 60, 62, 32, 45, 50, 46, 53, 101,
     45, 51, 32, 38, 38, 32, 36, 46, 99, 32, 62, 61, 32, 34, 113, 92, 110, 34]
    = .ok [.predicate (.binaryOp .or
        (.binaryOp .eq (.paths [.root, .dotField [97]]) (.value (.num (.uint 1))))
        (.binaryOp .and
          (.binaryOp .ne (.paths [.root, .dotField [98]]) (.value (.num (.float 0xBF647AE147AE147B))))
          (.binaryOp .ge (.paths [.root, .dotField [99]]) (.value (.str [113, 10])))))] := by rfl

/-- the rendering relation on a concrete text with irregular layout:
`$[ 0 , 1 TO Last - 1,last+2 ]["k"]:c.*` -/
example : parseJsonPath
    [36, 91, 32, 48, 32, 44, 32, 49, 32, 84, 79, 32, 76, 97, 115, 116, 32, 45, 32, 49, 44, 108, 97, 115,
     116, 43, 50, 32, 93, 91, 34, 107, 34, 93, 58, 99, 46, 42]
    = .ok [.root, .arrayIndices [.index (.index 0), .slice (.index 1) (.last (-1)), .index (.last 2)],
        .objectField [107], .colonField [99], .dotWildcard] := by
  have i0 : RArrayIndex (.index (.index 0)) (PathPrint.intBytes 0) := .index _ _ (.index 0 (by decide))
  have i1 : RArrayIndex (.slice (.index 1) (.last (-1))) _ :=
    .slice _ _ _ _ [32] [84, 79] [32] (.index 1 (by decide))
      (RIndex.lastMinus [76, 97, 115, 116] [32] [32] 1 (by decide) (by decide) (by decide) (by decide))
      (by decide) (by decide) (by decide)
  have i2 : RArrayIndex (.index (.last 2)) _ :=
    .index _ _ (RIndex.lastPlus [108, 97, 115, 116] [] [] 2 (by decide) (by decide) (by decide) (by decide))
  have l : RAiList _ _ :=
    .cons _ _ [32] _ [32] _ (by decide) i0 (by decide)
      (.cons _ _ [32] _ [] _ (by decide) i1 (by decide) (.one _ [] _ [32] (by decide) i2 (by decide)))
  have hk : RQuoted [107] (34 :: ([107] ++ [34])) := .of_good [107] (by decide)
  have hs : R .steps false (.paths _) _ :=
    .stepsPlain _ _ [] _ [] _ Ws.nil (.arrayIndices _ _ l) Ws.nil
      (.stepsPlain _ _ [] _ [] _ Ws.nil (.objectField [107] _ [] [] hk Ws.nil Ws.nil) Ws.nil
        (.stepsPlain _ _ [] _ [] _ Ws.nil (.colonField [99] [99] (.raw [99] (by decide))) Ws.nil
          (.stepsPlain _ _ [] _ [] _ Ws.nil .dotWildcard Ws.nil .stepsNil)))
  have := parseJsonPath_rendering_rooted hs [] [] Ws.nil Ws.nil
  refine Eq.trans (congrArg parseJsonPath ?_) this
  decide +kernel

/-- bare first names, also ones that begin like a keyword: `true.x`, ` exists [0]`, `infinity` -/
example : parseJsonPath [116, 114, 117, 101, 46, 120] = .ok [.dotField [116, 114, 117, 101], .dotField [120]] :=
  parseJsonPath_rendering_bare
    (.stepsPlain _ _ [] _ [] _ Ws.nil (.dotField [120] [120] (.raw [120] (by decide))) Ws.nil .stepsNil)
    116 [114, 117, 101] [] [] [] (by decide) (by decide) Ws.nil Ws.nil Ws.nil
example : parseJsonPath [32, 101, 120, 105, 115, 116, 115, 32, 91, 48, 93] = .ok [.dotField [101, 120, 105, 115, 116, 115], .arrayIndices [.index (.index 0)]] := by rfl
example : parseJsonPath [105, 110, 102, 105, 110, 105, 116, 121] = .ok [.dotField [105, 110, 102, 105, 110, 105, 116, 121]] :=
  parseJsonPath_rendering_bare .stepsNil 105 [110, 102, 105, 110, 105, 116, 121] [] [] []
    (by decide) (by decide) Ws.nil Ws.nil Ws.nil

/-- keywords: `last` and `to` are case-insensitive, `null`/`true`/`false`/`exists` are not -/
example : parseJsonPath [36, 91, 76, 65, 83, 84, 93] = .ok [.root, .arrayIndices [.index (.last 0)]] := by rfl
example : parseJsonPath [36, 63, 40, 64, 61, 61, 78, 85, 76, 76, 41] = .err "InvalidJsonPath" := by rfl   -- `$?(@==NULL)`
example : parseJsonPath [36, 63, 40, 69, 88, 73, 83, 84, 83, 40, 64, 41, 41] = .err "InvalidJsonPath" := by rfl -- `$?(EXISTS(@))`

/-- key paths: ` { a , "b\"c" ,<TAB>-3 } ` -/
example : parseKeyPaths [32, 123, 32, 97, 32, 44, 32, 34, 98, 92, 34, 99, 34, 32, 44, 9, 45, 51, 32, 125, 32]
    = .ok [.name [97], .quoted [98, 34, 99], .index (-3)] := by
  have hq : RQuoted [98, 34, 99] (34 :: ([98, 92, 34, 99] ++ [34])) :=
    .mk _ _ 1 (.plain 98 _ _ _ (by decide) (by decide)
      (.esc 34 34 _ _ _ rfl (.plain 99 _ _ _ (by decide) (by decide) .nil))) (by decide)
  have l : RKeyList _ _ :=
    .cons _ _ [32] _ [32] _ (by decide) (.name [97] (by decide)) (by decide)
      (.cons _ _ [32] _ [32] _ (by decide) (.quoted _ _ hq) (by decide)
        (.one _ [9] _ [32] (by decide) (.index (-3) (by decide)) (by decide)))
  have := parseKeyPaths_rendering l [32] [32] (by decide) (by decide)
  refine Eq.trans (congrArg parseKeyPaths ?_) this
  decide +kernel

/-- a `\uXXXX` escape: `{"caf\u00e9"}` is the name `café` -/
example : parseKeyPaths [123, 34, 99, 97, 102, 92, 117, 48, 48, 101, 57, 34, 125]
    = .ok [.quoted [99, 97, 102, 0xC3, 0xA9]] := by
  have hq : RQuoted [99, 97, 102, 0xC3, 0xA9] (34 :: ([99, 97, 102, 92, 117, 48, 48, 101, 57] ++ [34])) :=
    .mk _ _ 1 (.plain 99 _ _ _ (by decide) (by decide) (.plain 97 _ _ _ (by decide) (by decide)
      (.plain 102 _ _ _ (by decide) (by decide)
        (.uni 48 48 101 57 233 [] [] 0 (by decide) (by decide +kernel) (by decide) .nil))))
      (by decide +kernel)
  have l : RKeyList _ _ := .one _ [] _ [] (by decide) (.quoted _ _ hq) (by decide)
  have := parseKeyPaths_rendering l [] [] (by decide) (by decide)
  refine Eq.trans (congrArg parseKeyPaths ?_) this
  decide +kernel

example : parseKeyPaths [123, 32, 10, 125, 9] = .ok [] :=
  parseKeyPaths_rendering_empty [] [32, 10] [9] (by decide) (by decide) (by decide)

end PathRT2.Examples

/-! ## findings: parser-producible ASTs whose printout does not parse back to them -/
namespace PathRT2.Findings

/-- **F-C09-1.**  `."5e"` parses to `[DotField("5e")]` (no `$`); `Display` prints `.5e`; on `.5e`
the `predicate` alternative, tried first, runs nom's `double`, which reads `.5`, sees the exponent
marker and FAILS (`cut(digit1)`), so the whole parse fails.  The name `5e` contains nothing that
needs quoting (`$.5e` round-trips).  Same cause as the known `1e` finding (F2). -/
theorem dot5e :
    parseJsonPath [46, 34, 53, 101, 34] = .ok [.dotField [53, 101]] ∧
    (∀ f, printJsonPath f [.dotField [53, 101]] = [46, 53, 101]) ∧
    parseJsonPath [46, 53, 101] = .err "InvalidJsonPath" ∧
    parseJsonPath [36, 46, 53, 101] = .ok [.root, .dotField [53, 101]] :=
  ⟨by rfl, fun _ => by rfl, by rfl, by rfl⟩

/-- **F-C09-2.**  `+5 == $` parses to the literal `Int64(5)` (nom's `i64` accepts the `+`);
`Display` prints `5 == $`, which parses to `UInt64(5)`: a different AST (the two numbers compare
equal, so the selection result is the same). -/
theorem plus5 (f : Nat → Bytes) :
    parseJsonPath [43, 53, 32, 61, 61, 32, 36]
      = .ok [.predicate (.binaryOp .eq (.value (.num (.int 5))) (.paths [.root]))] ∧
    printJsonPath f [.predicate (.binaryOp .eq (.value (.num (.int 5))) (.paths [.root]))]
      = [53, 32, 61, 61, 32, 36] ∧
    parseJsonPath [53, 32, 61, 61, 32, 36]
      = .ok [.predicate (.binaryOp .eq (.value (.num (.uint 5))) (.paths [.root]))] :=
  ⟨by rfl, by
    have e : PathPrint.intBytes 5 = [53] := by decide +kernel
    simp [printJsonPath, PathPrint.printJsonPath, PathPrint.printPaths, PathPrint.printPath,
      PathPrint.printExpr, PathPrint.needsParens, PathPrint.printPathValue, PathPrint.printNum,
      PathPrint.printBinOp, e], by rfl⟩

/-- **F-C09-3.**  `$ == -1e999` parses to the literal `Float64(-∞)`; Rust prints `-inf`, and
`$ == -inf` is rejected (nom's `double` knows `inf` only without sign).  `NaN` and `inf` do parse
back. -/
theorem negInf :
    parseJsonPath [36, 32, 61, 61, 32, 45, 49, 101, 57, 57, 57]
      = .ok [.predicate (.binaryOp .eq (.paths [.root]) (.value (.num (.float 0xFFF0000000000000))))] ∧
    parseJsonPath [36, 32, 61, 61, 32, 45, 105, 110, 102] = .err "InvalidJsonPath" ∧
    parseJsonPath [36, 32, 61, 61, 32, 105, 110, 102]
      = .ok [.predicate (.binaryOp .eq (.paths [.root]) (.value (.num (.float 0x7FF0000000000000))))] ∧
    parseJsonPath [36, 32, 61, 61, 32, 78, 97, 78]
      = .ok [.predicate (.binaryOp .eq (.paths [.root]) (.value (.num (.float 0x7FF8000000000000))))] :=
  ⟨by rfl, by rfl, by rfl, by rfl⟩

end PathRT2.Findings
end Jsonb

#print axioms Jsonb.parseJsonPath_printJsonPath_good
#print axioms Jsonb.parseJsonPath_printJsonPath_unrooted
#print axioms Jsonb.parseJsonPath_or_and
#print axioms Jsonb.parseJsonPath_and_or
#print axioms Jsonb.parseJsonPath_filter_or_and
#print axioms Jsonb.parseJsonPath_filter_and_or
#print axioms Jsonb.parseJsonPath_printed_precedence
#print axioms Jsonb.parseJsonPath_render
#print axioms Jsonb.parseJsonPath_rendering_rooted
#print axioms Jsonb.parseJsonPath_rendering_predicate
#print axioms Jsonb.parseJsonPath_rendering_unrooted
#print axioms Jsonb.parseJsonPath_rendering_bare
#print axioms Jsonb.parseKeyPaths_rendering
#print axioms Jsonb.parseKeyPaths_rendering_empty
#print axioms Jsonb.parseKeyPaths_printKeyPaths'
#print axioms Jsonb.PathRT2.Findings.dot5e
#print axioms Jsonb.PathRT2.Findings.plus5
#print axioms Jsonb.PathRT2.Findings.negInf
