/-
Agreement theorems, phase 6a, part 5: the writers `build_predicate_result`, `build_values` (= `Sel.buildValues`)
and `build_scalar_array` (= `Sel.buildArrayOf`: the entry area is reserved with zeros, every entry word is patched
after its payload has been appended).
-/
import JsonbModel.Proofs.TranslatedAgreeG4

set_option linter.unusedSimpArgs false
set_option linter.unusedVariables false

namespace Jsonb.TrAgree
open Jsonb.Rs

/-- the fields of a position are values of their Rust types and `offset + length` does not overflow `usize` (true of
every position the walkers produce: `walk_fits` below is not needed for the writers themselves) -/
def PosFits : Sel.Pos → Prop
  | .container off len => off + len < 18446744073709551616
  | .scalar ty off len => ty < 4294967296 ∧ off + len < 18446744073709551616

/-! ## build_predicate_result -/

theorem build_predicate_result_agrees (ps : List Sel.Pos) (data : Bytes) :
    Tr.Selector.build_predicate_result (ps.map ofPos) data =
      .ok ((ps.drop 1).map ofPos,
        data ++ (u32be C.SCALAR_CONTAINER_TAG ++ u32be (if ps.isEmpty then C.FALSE_TAG else C.TRUE_TAG))) := by
  unfold Tr.Selector.build_predicate_result
  cases ps with
  | nil =>
    simp only [List.map_nil, Rs.popFrontOpt, Ctl.pure_eq', Ctl.val_bind', List.isEmpty_nil, if_true, List.drop_nil]
    rw [writeU32BE_nat _ C.SCALAR_CONTAINER_TAG (by decide), writeU32BE_nat _ C.FALSE_TAG (by decide)]
    simp [Ctl.run]
  | cons p ps =>
    simp only [List.map_cons, Rs.popFrontOpt, Ctl.pure_eq', Ctl.val_bind', List.isEmpty_cons, Bool.false_eq_true, if_false,
      List.drop_succ_cons, List.drop_zero]
    rw [writeU32BE_nat _ C.SCALAR_CONTAINER_TAG (by decide), writeU32BE_nat _ C.TRUE_TAG (by decide)]
    simp [Ctl.run]

/-! ## build_values -/

theorem cast_u64_nat_g (n : Nat) (h : n < 18446744073709551616) : Rs.cast .u64 (n : Int) = (n : Int) :=
  Rs.cast_of_inRange _ _ (by rw [Rs.inRange_iff]; simp; omega)

theorem slice_len_le_g (root : Bytes) (a b : Nat) (p : Bytes) (h : Jsonb.slice root a b = .ok p) : p.length ≤ root.length := by
  unfold Jsonb.slice at h
  split at h
  · cases h; simp
  · cases h

/-- one iteration of the loop of `build_values` on a non-empty queue -/
theorem bv_loop1_cons (root : Bytes) (p : Sel.Pos) (ps : List Sel.Pos) (data : Bytes) (offs : List Nat)
    (hp : PosFits p) (hd : data.length + (root.length + 8) < 18446744073709551616) :
    Tr.Selector.build_values.loop1 root ((p :: ps).map ofPos, data, natsG offs) =
      match p with
      | .container off len =>
        (match Jsonb.slice root off (off + len) with
         | .ok q => Ctl.val (.next (ps.map ofPos, data ++ q, natsG (offs ++ [(data ++ q).length])))
         | .err e => Ctl.ret (.err e)
         | .panic s => Ctl.ret (.panic s)
         | .fuel => Ctl.ret .fuel)
      | .scalar ty off len =>
        if len > 0 then
          (match Jsonb.slice root off (off + len) with
           | .ok q => Ctl.val (.next (ps.map ofPos,
               data ++ ((u32be C.SCALAR_CONTAINER_TAG ++ u32be (ty ||| (len % 4294967296))) ++ q),
               natsG (offs ++ [(data ++ ((u32be C.SCALAR_CONTAINER_TAG ++ u32be (ty ||| (len % 4294967296))) ++ q)).length])))
           | .err e => Ctl.ret (.err e)
           | .panic s => Ctl.ret (.panic s)
           | .fuel => Ctl.ret .fuel)
        else Ctl.val (.next (ps.map ofPos,
               data ++ (u32be C.SCALAR_CONTAINER_TAG ++ u32be (ty ||| (len % 4294967296))),
               natsG (offs ++ [(data ++ (u32be C.SCALAR_CONTAINER_TAG ++ u32be (ty ||| (len % 4294967296)))).length]))) := by
  unfold Tr.Selector.build_values.loop1
  cases p with
  | container off len =>
    simp only [PosFits] at hp
    simp only [List.map_cons, Rs.popFront, ofPos, Rs.add_usize_nat off len hp, Ctl.ofRes_ok', Ctl.val_bind', slice_model]
    cases hs : Jsonb.slice root off (off + len) with
    | ok q =>
      have hq := slice_len_le_g root _ _ q hs
      simp only [Ctl.ofRes_ok', Ctl.val_bind', Ctl.pure_eq', Rs.extendFromSlice, Rs.len, Rs.vecPush, natsG, List.map_append,
        List.map_cons, List.map_nil, Rs.loopStep_val']
      rw [cast_u64_nat_g _ (by simp; omega)]
    | err e => simp [Ctl.ofRes, Rs.loopStep]
    | panic s => simp [Ctl.ofRes, Rs.loopStep]
    | fuel => simp [Ctl.ofRes, Rs.loopStep]
  | scalar ty off len =>
    simp only [PosFits] at hp
    have hw : ty ||| (len % 4294967296) < 4294967296 := or_lt_u32 _ _ hp.1 (Nat.mod_lt _ (by decide))
    simp only [List.map_cons, Rs.popFront, ofPos, Ctl.pure_eq', Ctl.val_bind', header_term]
    rw [writeU32BE_nat _ C.SCALAR_CONTAINER_TAG (by decide)]
    have hww : ((headerWord ty len : Nat) : Int) = ((ty ||| (len % 4294967296) : Nat) : Int) := rfl
    rw [hww, writeU32BE_nat _ _ hw]
    by_cases hl : len > 0
    · have hl' : ((len : Int) > 0) := by omega
      simp only [hl, hl', decide_true, if_true, Rs.add_usize_nat off len hp.2, Ctl.ofRes_ok', Ctl.val_bind', slice_model]
      cases hs : Jsonb.slice root off (off + len) with
      | ok q =>
        have hq := slice_len_le_g root _ _ q hs
        simp only [Ctl.ofRes_ok', Ctl.val_bind', Ctl.pure_eq', Rs.extendFromSlice, Rs.len, Rs.vecPush, natsG, List.map_append,
          List.map_cons, List.map_nil, Rs.loopStep_val', List.append_assoc]
        rw [cast_u64_nat_g _ (by simp [u32be]; omega)]
      | err e => simp [Ctl.ofRes, Rs.loopStep]
      | panic s => simp [Ctl.ofRes, Rs.loopStep]
      | fuel => simp [Ctl.ofRes, Rs.loopStep]
    · have hl' : ¬ ((len : Int) > 0) := by omega
      simp only [hl, hl', decide_false, Bool.false_eq_true, if_false, Ctl.pure_eq', Ctl.val_bind', Rs.len, Rs.vecPush, natsG,
        List.map_append, List.map_cons, List.map_nil, Rs.loopStep_val', List.append_assoc]
      rw [cast_u64_nat_g _ (by simp [u32be]; omega)]

theorem bv_loop1_nil (root : Bytes) (data : Bytes) (offs : List Int) :
    Tr.Selector.build_values.loop1 root ([], data, offs) = Ctl.val (.done ([], data, offs)) := by
  unfold Tr.Selector.build_values.loop1
  simp [Rs.popFront, Rs.loopStep]

theorem buildValues_len (root : Bytes) : ∀ (ps : List Sel.Pos) (data : Bytes) (offs : List Nat) (d : Bytes) (o : List Nat),
    Sel.buildValues root ps data offs = .ok (d, o) → d.length ≤ data.length + ps.length * (root.length + 8) := by
  intro ps
  induction ps with
  | nil => intro data offs d o h; simp only [Sel.buildValues, Res.ok.injEq, Prod.mk.injEq] at h; simp [h.1]
  | cons p ps ih =>
    intro data offs d o h
    cases p with
    | container off len =>
      simp only [Sel.buildValues] at h
      cases hs : Jsonb.slice root off (off + len) with
      | ok q =>
        rw [hs] at h
        have := ih _ _ _ _ h
        have hq := slice_len_le_g root _ _ q hs
        simp only [List.length_append, List.length_cons] at this ⊢
        have : (ps.length + 1) * (root.length + 8) = ps.length * (root.length + 8) + (root.length + 8) := by
          rw [Nat.add_mul]; simp
        omega
      | err e => rw [hs] at h; cases h
      | panic s => rw [hs] at h; cases h
      | fuel => rw [hs] at h; cases h
    | scalar ty off len =>
      simp only [Sel.buildValues] at h
      have hmul : (ps.length + 1) * (root.length + 8) = ps.length * (root.length + 8) + (root.length + 8) := by
        rw [Nat.add_mul]; simp
      by_cases hl : len > 0
      · rw [if_pos hl] at h
        cases hs : Jsonb.slice root off (off + len) with
        | ok q =>
          rw [hs] at h
          have := ih _ _ _ _ h
          have hq := slice_len_le_g root _ _ q hs
          simp only [List.length_append, List.length_cons, u32be, beN_length] at this ⊢
          omega
        | err e => rw [hs] at h; cases h
        | panic s => rw [hs] at h; cases h
        | fuel => rw [hs] at h; cases h
      · rw [if_neg hl] at h
        have := ih _ _ _ _ h
        simp only [List.length_append, List.length_cons, u32be, beN_length] at this ⊢
        omega

/-- the loop of `build_values` = `Sel.buildValues`; the queue is empty afterwards -/
theorem bv_run (root : Bytes) : ∀ (ps : List Sel.Pos) (data : Bytes) (offs : List Nat),
    (∀ p ∈ ps, PosFits p) → data.length + ps.length * (root.length + 8) < 18446744073709551616 →
    Rs.whileFuel (ps.length + 1) (ps.map ofPos, data, natsG offs) (Tr.Selector.build_values.loop1 root) =
      match Sel.buildValues root ps data offs with
      | .ok (d, o) => Ctl.val ([], d, natsG o)
      | .err e => Ctl.ret (.err e)
      | .panic s => Ctl.ret (.panic s)
      | .fuel => Ctl.ret .fuel := by
  intro ps
  induction ps with
  | nil =>
    intro data offs _ _
    simp only [List.length_nil, List.map_nil, Sel.buildValues]
    rw [Rs.whileFuel_done _ _ _ _ (bv_loop1_nil root data _)]
  | cons p ps ih =>
    intro data offs hf hd
    have hmul : (ps.length + 1) * (root.length + 8) = ps.length * (root.length + 8) + (root.length + 8) := by
      rw [Nat.add_mul]; simp
    simp only [List.length_cons] at hd ⊢
    have hs := bv_loop1_cons root p ps data offs (hf p (by simp)) (by omega)
    have hf' : ∀ q ∈ ps, PosFits q := fun q hq => hf q (by simp [hq])
    cases p with
    | container off len =>
      simp only [Sel.buildValues] at hs ⊢
      cases hsl : Jsonb.slice root off (off + len) with
      | ok q =>
        rw [hsl] at hs
        have hq := slice_len_le_g root _ _ q hsl
        rw [Rs.whileFuel_next _ _ _ _ hs, ih _ _ hf' (by simp; omega)]
      | err e => rw [hsl] at hs; rw [Rs.whileFuel_ret _ _ _ _ hs]
      | panic s => rw [hsl] at hs; rw [Rs.whileFuel_ret _ _ _ _ hs]
      | fuel => rw [hsl] at hs; rw [Rs.whileFuel_ret _ _ _ _ hs]
    | scalar ty off len =>
      simp only [Sel.buildValues] at hs ⊢
      by_cases hl : len > 0
      · rw [if_pos hl] at hs
        rw [if_pos hl]
        cases hsl : Jsonb.slice root off (off + len) with
        | ok q =>
          rw [hsl] at hs
          have hq := slice_len_le_g root _ _ q hsl
          rw [Rs.whileFuel_next _ _ _ _ hs, ih _ _ hf' (by simp [u32be]; omega)]
        | err e => rw [hsl] at hs; rw [Rs.whileFuel_ret _ _ _ _ hs]
        | panic s => rw [hsl] at hs; rw [Rs.whileFuel_ret _ _ _ _ hs]
        | fuel => rw [hsl] at hs; rw [Rs.whileFuel_ret _ _ _ _ hs]
      · rw [if_neg hl] at hs
        rw [if_neg hl, Rs.whileFuel_next _ _ _ _ hs, ih _ _ hf' (by simp [u32be]; omega)]

/-- `build_values(root, poses, data, offsets)`: the model's buffer and end offsets, the queue drained -/
theorem build_values_agrees (root : Bytes) (ps : List Sel.Pos) (data : Bytes) (offs : List Nat)
    (hf : ∀ p ∈ ps, PosFits p) (hd : data.length + ps.length * (root.length + 8) < 18446744073709551616) :
    Tr.Selector.build_values root (ps.map ofPos) data (natsG offs) =
      (Sel.buildValues root ps data offs).map (fun r => (([] : List Tr.Position), r.1, natsG r.2)) := by
  unfold Tr.Selector.build_values
  have hl : (Rs.len (ps.map ofPos)).toNat + 1 = ps.length + 1 := by simp [Rs.len]
  rw [hl, bv_run root ps data offs hf hd]
  cases Sel.buildValues root ps data offs with
  | ok r => obtain ⟨d, o⟩ := r; rfl
  | err e => rfl
  | panic s => rfl
  | fuel => rfl

end Jsonb.TrAgree
