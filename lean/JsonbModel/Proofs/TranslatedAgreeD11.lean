/-
Phase 4: `array_distinct_jsonb` of functions.rs, translated from source (a `BTreeSet<(JEntry, &[u8])>` of the
elements seen), against `Fn.arrayDistinct` / `Fn.distinctLoop` (Functions/Edit.lean).
-/
import JsonbModel.Proofs.TranslatedAgreeD10

set_option linter.unusedSimpArgs false
set_option linter.unusedVariables false

namespace Jsonb.TrAgree
open Jsonb.Rs

/-- the key order of the sets / maps of the set functions: derived `Ord` of `(JEntry, &[u8])` -/
abbrev keyCmp : (Tr.JEntry × Bytes) → (Tr.JEntry × Bytes) → Ordering := Rs.cmpLex Tr.JEntry.cmp Rs.cmpBytes

/-- the model's element identity `(type, length, bytes)` as a key of the translated set -/
def kOf (t : Nat × Nat × Bytes) : Tr.JEntry × Bytes := (⟨(t.1 : Nat), (t.2.1 : Nat)⟩, t.2.2)

theorem kOf_ident (x : JE × Bytes) : kOf (Fn.ident x) = ofItem x := rfl

theorem kOf_inj (a b : Nat × Nat × Bytes) (h : kOf a = kOf b) : a = b := by
  obtain ⟨a1, a2, a3⟩ := a
  obtain ⟨b1, b2, b3⟩ := b
  simp only [kOf, Prod.mk.injEq, Tr.JEntry.mk.injEq] at h
  obtain ⟨⟨h1, h2⟩, h3⟩ := h
  have e1 : a1 = b1 := by omega
  have e2 : a2 = b2 := by omega
  subst e1; subst e2; subst h3; rfl

/-- the translated set holds exactly the identities the model has seen -/
def SetInv (S : List (Tr.JEntry × Bytes)) (seen : List (Nat × Nat × Bytes)) : Prop :=
  SortedBy keyCmp S ∧ ∀ t, kOf t ∈ S ↔ t ∈ seen

theorem setInv_contains {S : List (Tr.JEntry × Bytes)} {seen : List (Nat × Nat × Bytes)} (h : SetInv S seen)
    (x : JE × Bytes) : Rs.setContains keyCmp S (ofItem x) = seen.contains (Fn.ident x) := by
  have h1 := setContains_iff lawful_key_cmp S h.1 (ofItem x)
  have h2 := h.2 (Fn.ident x)
  rw [kOf_ident] at h2
  cases hc : Rs.setContains keyCmp S (ofItem x) <;> cases hs : seen.contains (Fn.ident x) <;> simp_all

theorem setInv_insert {S : List (Tr.JEntry × Bytes)} {seen : List (Nat × Nat × Bytes)} (h : SetInv S seen)
    (x : JE × Bytes) : SetInv (Rs.setInsert keyCmp S (ofItem x)) (Fn.ident x :: seen) := by
  obtain ⟨i1, i2, _⟩ := setInsert_sorted lawful_key_cmp S h.1 (ofItem x)
  refine ⟨i1, fun t => ?_⟩
  rw [i2, List.mem_cons, h.2 t, ← kOf_ident]
  constructor
  · rintro (e | e)
    · exact Or.inl (kOf_inj _ _ e)
    · exact Or.inr e
  · rintro (e | e)
    · exact Or.inl (by rw [e])
    · exact Or.inr e

/-! ## the loop -/

def adStep (x : Tr.JEntry × Bytes) (st : List (Tr.JEntry × Bytes) × Tr.ArrayBuilder) :
    List (Tr.JEntry × Bytes) × Tr.ArrayBuilder :=
  if !(Rs.setContains keyCmp st.1 x) then (Rs.setInsert keyCmp st.1 x, pushArr x st.2) else st

theorem ad_loop1_step (x : Tr.JEntry × Bytes) (st : List (Tr.JEntry × Bytes) × Tr.ArrayBuilder) :
    Tr.array_distinct_jsonb.loop1 x st =
      (Ctl.val (.next (adStep x st)) : Ctl Bytes (Step (List (Tr.JEntry × Bytes) × Tr.ArrayBuilder))) := by
  obtain ⟨je, d⟩ := x
  obtain ⟨S, b⟩ := st
  unfold Tr.array_distinct_jsonb.loop1 adStep pushArr
  dsimp only
  cases Rs.setContains (Rs.cmpLex Tr.JEntry.cmp Rs.cmpBytes) S (je, d)
  · simp only [Bool.not_false, if_true, array_push_raw_any, Ctl.ofRes_ok', Ctl.val_bind', Ctl.pure_eq', Rs.loopStep_val']
  · simp only [Bool.not_true, Bool.false_eq_true, if_false, Ctl.pure_eq', Ctl.val_bind', Rs.loopStep_val']

theorem ad_fold : ∀ (items : List (JE × Bytes)) (S : List (Tr.JEntry × Bytes)) (seen : List (Nat × Nat × Bytes))
    (acc : List BEntry), SetInv S seen →
    ∃ S', (items.map ofItem).foldl (fun s x => adStep x s) (S, ⟨ofBEs acc⟩) =
      (S', ⟨ofBEs (acc ++ (Fn.distinctLoop items seen).map Fn.rawOf)⟩)
  | [], S, seen, acc, _ => ⟨S, by simp [Fn.distinctLoop]⟩
  | x :: xs, S, seen, acc, h => by
    simp only [List.map_cons, List.foldl_cons, adStep, setInv_contains h x, Fn.distinctLoop]
    cases hc : seen.contains (Fn.ident x)
    · simp only [Bool.not_false, if_true, Bool.false_eq_true, if_false, List.map_cons]
      obtain ⟨S', hS'⟩ := ad_fold xs (Rs.setInsert keyCmp S (ofItem x)) (Fn.ident x :: seen) (acc ++ [Fn.rawOf x])
        (setInv_insert h x)
      refine ⟨S', ?_⟩
      simp only [pushArr, ofBEs_append, ofBEs, ofBE_rawOf, List.append_assoc, List.cons_append, List.nil_append] at hS' ⊢
      exact hS'
    · simp only [Bool.not_true, Bool.false_eq_true, if_false, if_true]
      exact ad_fold xs S seen acc h

/-- `distinctLoop` keeps a sub-list -/
theorem distinctLoop_bounds : ∀ (items : List (JE × Bytes)) (seen : List (Nat × Nat × Bytes)),
    (Fn.distinctLoop items seen).length ≤ items.length ∧ sumLen (Fn.distinctLoop items seen) ≤ sumLen items ∧
      ∀ x ∈ Fn.distinctLoop items seen, x ∈ items
  | [], seen => by simp [Fn.distinctLoop]
  | x :: xs, seen => by
    simp only [Fn.distinctLoop]
    cases seen.contains (Fn.ident x)
    · obtain ⟨h1, h2, h3⟩ := distinctLoop_bounds xs (Fn.ident x :: seen)
      simp only [Bool.false_eq_true, if_false, List.length_cons, sumLen, List.mem_cons]
      refine ⟨by omega, by omega, ?_⟩
      rintro y (e | e)
      · exact Or.inl e
      · exact Or.inr (h3 y e)
    · obtain ⟨h1, h2, h3⟩ := distinctLoop_bounds xs seen
      simp only [if_true, List.length_cons, sumLen, List.mem_cons]
      exact ⟨by omega, by omega, fun y e => Or.inr (h3 y e)⟩

/-! ## the function -/

/-- **`array_distinct_jsonb`, translated from source, is the model's `Fn.arrayDistinct`** -/
theorem array_distinct_jsonb_agrees (value buf : Bytes) (fuel : Nat) (hfuel : 536870913 < fuel)
    (hv : value.length < 1152921504606846976) (hb : buf.length < 1152921504606846976) :
    Tr.array_distinct_jsonb fuel value buf = Fn.arrayDistinct value buf := by
  unfold Tr.array_distinct_jsonb Fn.arrayDistinct
  simp only [read_u32_zero]
  cases hr : readU32At value 0 with
  | none => simp only [Ctl.ofRes_err', Ctl.ret_bind', Ctl.run_ret']
  | some h =>
    have hL0 := hdrLen_lt h
    have h0 : ((0 : Nat) : Int) = 0 := rfl
    simp only [Ctl.ofRes_ok', Ctl.val_bind', hdrType_eq, ← h0, array_builder_new_agrees 0 (by omega), iterate_array_agrees,
      read_u32_four, make_container_jentry_agrees, Rs.len, array_push_raw_any, ofBEs, List.nil_append]
    simp only [decide_eq_true_eq]
    by_cases hA : hdrType h = C.ARRAY_CONTAINER_TAG
    · simp only [eq_true hA, if_true, Rs.setNew]
      rw [forIter_array value h fuel (by omega) adStep _ ad_loop1_step]
      cases hit : iterArray value h with
      | ok items =>
        obtain ⟨hb1, hb2, hb3⟩ := iterArray_bounds value h items hit
        have hinv : SetInv [] [] := ⟨trivial, fun t => by simp⟩
        obtain ⟨S', hfold⟩ := ad_fold items [] [] [] hinv
        have hbe : ([] : List Tr.Entry) = ofBEs [] := rfl
        simp only [Ctl.val_bind', Ctl.pure_eq']
        rw [hbe, hfold]
        simp only [List.nil_append]
        obtain ⟨d1, d2, d3⟩ := distinctLoop_bounds items []
        have hraw : RawFits ((Fn.distinctLoop items []).map Fn.rawOf) :=
          rawFits_map_rawOf _ (fun x hx => hb2 x (d3 x hx))
        obtain ⟨n, hT, hM⟩ := array_build_raw _ hraw buf fuel (by omega) (by simp only [List.length_map]; omega)
          (by rw [bpaysL_map_rawOf]; simp only [List.length_map]; omega)
        rw [hT, hM]
        simp only [Ctl.ofRes_ok', Ctl.val_bind', Ctl.run_ret']
      | err e => exact absurd hit (iterArray_ne_err _ _ _)
      | panic p => simp only [Ctl.ret_bind', Ctl.run_ret']
      | fuel => exact absurd hit (iterArray_ne_fuel _ _)
    · simp only [eq_false hA, if_false, Fn.setOperand, hr]
      by_cases hO : hdrType h = C.OBJECT_CONTAINER_TAG
      case' pos =>
        have he : ([Tr.Entry.Raw ⟨((C.CONTAINER_TAG : Nat) : Int), ((value.length % 4294967296 : Nat) : Int)⟩ value] : List Tr.Entry)
            = ofBEs [Fn.containerEntry value] := rfl
        have hf := containerEntry_fits value
        have hm : ([((⟨C.CONTAINER_TAG, value.length % 4294967296, C.CONTAINER_TAG ||| (value.length % 4294967296)⟩ : JE), value)] :
            List (JE × Bytes)).map Fn.rawOf = [Fn.containerEntry value] := rfl
        simp only [eq_true hO, if_true, Ctl.pure_eq', Ctl.val_bind', he, hm]
        generalize Fn.containerEntry value = e0 at hf ⊢
        clear he hm
        revert e0
      case' neg =>
        simp only [eq_false hO, if_false]
        cases hr4 : readU32At value 4
        case' none => simp only [Ctl.ofRes_err', Ctl.ret_bind', Ctl.run_ret']
        case' some w =>
          have h8 := readU32At_some_len value 4 w hr4
          have hw := readU32At_lt value 4 w hr4
          have he : ([Tr.Entry.Raw ⟨((jeType w : Nat) : Int), ((jeLen w : Nat) : Int)⟩ (value.drop 8)] : List Tr.Entry)
              = ofBEs [BEntry.raw (jeType w) (jeLen w) (value.drop 8)] := rfl
          have hf := scalarRaw_fits value w hw
          have hm : ([(JE.ofWord w, value.drop 8)] : List (JE × Bytes)).map Fn.rawOf =
              [BEntry.raw (jeType w) (jeLen w) (value.drop 8)] := rfl
          simp only [Ctl.ofRes_ok', Ctl.val_bind', decode_jentry_agrees, (sliceFrom_eight value (by omega)).1,
            (sliceFrom_eight value (by omega)).2, Ctl.pure_eq', he, hm]
          generalize BEntry.raw (jeType w) (jeLen w) (value.drop 8) = e0 at hf ⊢
          clear he hm hr4
          revert e0
      all_goals
        intro e0 hf
        obtain ⟨n, hT, hM⟩ := array_build_raw [e0] hf.1 buf fuel (by omega) (by simp)
          (by simp only [List.length_cons, List.length_nil]; omega)
        rw [hT, hM]
        simp only [Ctl.ofRes_ok', Ctl.val_bind', Ctl.run_ret']

end Jsonb.TrAgree
