/-
C19, part 2 (tree level): `From<Value> for serde_json::Value` (`toSJ`) and
`From<&serde_json::Value> for Value` (`fromSJ`) are mutually inverse on JSON documents.

* `fromSJ (toSJT v) = reparse v`: converting a document to serde_json and back gives the tree an
  independent strict parser reads from the text rendering of `v` (non-negative `Int64` come back
  as `UInt64`, nothing else changes), which is `valEq` to `v` and equal to `v` when `v` stores its
  non-negative integers unsigned.
* `toSJT (fromSJ s) = canon s`: converting a serde_json value to `Value` and back sorts the members
  of every object by key (`BTreeMap`); it is `s` itself when the members of `s` are sorted.
-/
import JsonbModel.Proofs.SerdeRefine1
import JsonbModel.Proofs.ToStringRender
import JsonbModel.Proofs.EditRefine2

namespace Jsonb
open JV Fn Spec

/-! ### documents whose objects are `BTreeMap`s -/

mutual
/-- every object of the tree has strictly increasing keys (the `BTreeMap` invariant) -/
def sortedJ : JV → Bool
  | .arr vs => sortedL vs
  | .obj kvs => keysSorted kvs && sortedK kvs
  | _ => true
def sortedL : List JV → Bool
  | [] => true
  | v :: vs => sortedJ v && sortedL vs
def sortedK : List (Bytes × JV) → Bool
  | [] => true
  | (_, v) :: kvs => sortedJ v && sortedK kvs
end

mutual
theorem sortedJ_of_good : (v : JV) → good v = true → sortedJ v = true
  | .null, _ => rfl
  | .bool _, _ => rfl
  | .num _, _ => rfl
  | .str _, _ => rfl
  | .arr vs, h => by
    simp only [good, Bool.and_eq_true] at h
    simp only [sortedJ]; exact sortedL_of_good vs h.2
  | .obj kvs, h => by
    simp only [good, Bool.and_eq_true] at h
    simp only [sortedJ, Bool.and_eq_true]; exact ⟨h.1.2, sortedK_of_good kvs h.2⟩
theorem sortedL_of_good : (vs : List JV) → goodL vs = true → sortedL vs = true
  | [], _ => rfl
  | v :: vs, h => by
    simp only [goodL, Bool.and_eq_true] at h
    simp only [sortedL, Bool.and_eq_true]; exact ⟨sortedJ_of_good v h.1, sortedL_of_good vs h.2⟩
theorem sortedK_of_good : (kvs : List (Bytes × JV)) → goodK kvs = true → sortedK kvs = true
  | [], _ => rfl
  | (k, v) :: kvs, h => by
    simp only [goodK, Bool.and_eq_true] at h
    simp only [sortedK, Bool.and_eq_true]; exact ⟨sortedJ_of_good v h.1.2, sortedK_of_good kvs h.2⟩
end

theorem sortedJ_of_goodTop (v : JV) (h : goodTop v = true) : sortedJ v = true := by
  cases v with
  | arr vs =>
    simp only [goodTop, Bool.and_eq_true] at h
    simp only [sortedJ]; exact sortedL_of_good vs h.2
  | obj kvs =>
    simp only [goodTop, Bool.and_eq_true] at h
    simp only [sortedJ, Bool.and_eq_true]; exact ⟨h.1.2, sortedK_of_good kvs h.2⟩
  | null => rfl
  | bool b => rfl
  | num n => rfl
  | str s => rfl

/-! ### inserting distinct keys into the insertion-ordered map appends them -/

theorem SJ.insert_append (k : Bytes) (x : SJ) (acc : List (Bytes × SJ))
    (h : ∀ p ∈ acc, p.1 ≠ k) : SJ.insert k x acc = acc ++ [(k, x)] := by
  induction acc with
  | nil => rfl
  | cons p acc ih =>
    obtain ⟨k', v'⟩ := p
    have h1 : (k' == k) = false := by
      have := h (k', v') (by simp)
      simpa using this
    simp only [SJ.insert, h1, Bool.false_eq_true, if_false, List.cons_append]
    rw [ih (fun p hp => h p (by simp [hp]))]

/-- the members of a document object, each value converted -/
def mapTK (kvs : List (Bytes × JV)) : List (Bytes × SJ) := kvs.map (fun kv => (kv.1, toSJT kv.2))

theorem mapTK_cons (k : Bytes) (v : JV) (kvs : List (Bytes × JV)) :
    mapTK ((k, v) :: kvs) = (k, toSJT v) :: mapTK kvs := rfl

theorem lexCmp_lt_ne {a b : Bytes} (h : lexCmp a b = .lt) : a ≠ b := by
  intro e; subst e; rw [lexCmp_refl] at h; cases h

/-- a sorted (hence duplicate-free) member list is converted member by member, in order -/
theorem toSJTK_sorted (kvs : List (Bytes × JV)) (hs : keysSorted kvs = true)
    (acc : List (Bytes × SJ)) (hacc : ∀ p ∈ acc, ∀ kv ∈ kvs, p.1 ≠ kv.1) :
    toSJTK kvs acc = acc ++ mapTK kvs := by
  induction kvs generalizing acc with
  | nil => simp [toSJTK, mapTK]
  | cons kv kvs ih =>
    obtain ⟨k, v⟩ := kv
    have ⟨hs', hlt⟩ := keysSorted_cons hs
    simp only [toSJTK]
    rw [SJ.insert_append k _ acc (fun p hp => hacc p hp (k, v) (by simp))]
    rw [ih hs' (acc ++ [(k, toSJT v)])]
    · simp [mapTK_cons]
    · intro p hp kv hkv
      simp only [List.mem_append, List.mem_singleton] at hp
      cases hp with
      | inl h1 => exact hacc p h1 kv (by simp [hkv])
      | inr h1 => subst h1; exact lexCmp_lt_ne (hlt kv hkv)

theorem toSJT_obj_sorted (kvs : List (Bytes × JV)) (hs : keysSorted kvs = true) :
    toSJT (.obj kvs) = .obj (mapTK kvs) := by
  have := toSJTK_sorted kvs hs [] (by intro p hp; simp at hp)
  simp only [toSJT, this, List.nil_append]

/-! ### `Value → serde_json → Value` -/

theorem fromSJ_sjOfInt (i : Int) : fromSJ (sjOfInt i) = .num (reNum (.int i)) := by
  by_cases hi : 0 ≤ i
  · simp [sjOfInt, reNum, hi, fromSJ]
  · simp [sjOfInt, reNum, hi, fromSJ]

mutual
/-- serde_json and back = what the strict parser reads from the text of `v` -/
theorem fromSJ_toSJT : (v : JV) → sortedJ v = true → fromSJ (toSJT v) = reparse v
  | .null, _ => rfl
  | .bool _, _ => rfl
  | .num (.int i), _ => by simp only [toSJT, fromSJ_sjOfInt, reparse]
  | .num (.uint _), _ => rfl
  | .num (.float _), _ => rfl
  | .str _, _ => rfl
  | .arr vs, h => by
    simp only [sortedJ] at h
    simp only [toSJT, fromSJ, fromSJL_toSJTL vs h, reparse]
  | .obj kvs, h => by
    simp only [sortedJ, Bool.and_eq_true] at h
    rw [toSJT_obj_sorted kvs h.1]
    simp only [fromSJ, fromSJK_mapTK kvs h.2, reparse]
    rw [mkObj_sorted _ (by rw [keysSorted_reparseK]; exact h.1)]
theorem fromSJL_toSJTL : (vs : List JV) → sortedL vs = true → fromSJL (toSJTL vs) = reparseL vs
  | [], _ => rfl
  | v :: vs, h => by
    simp only [sortedL, Bool.and_eq_true] at h
    simp only [toSJTL, fromSJL, fromSJ_toSJT v h.1, fromSJL_toSJTL vs h.2, reparseL]
theorem fromSJK_mapTK : (kvs : List (Bytes × JV)) → sortedK kvs = true →
    fromSJK (mapTK kvs) = reparseK kvs
  | [], _ => rfl
  | (k, v) :: kvs, h => by
    simp only [sortedK, Bool.and_eq_true] at h
    simp only [mapTK_cons, fromSJK, fromSJ_toSJT v h.1, fromSJK_mapTK kvs h.2, reparseK]
end

/-! ### serde_json values -/

namespace SJ

/-- strictly increasing keys -/
def keysSortedS : List (Bytes × SJ) → Bool
  | [] => true
  | [_] => true
  | (k1, _) :: (k2, v2) :: rest => lexCmp k1 k2 == .lt && keysSortedS ((k2, v2) :: rest)

mutual
/-- the invariants of `serde_json::Number`: `NegInt` is negative, `Float` is finite -/
def numsOK : SJ → Bool
  | .neg i => decide (i < 0)
  | .float b => F64.isFinite b
  | .arr vs => numsOKL vs
  | .obj kvs => numsOKK kvs
  | _ => true
def numsOKL : List SJ → Bool
  | [] => true
  | v :: vs => numsOK v && numsOKL vs
def numsOKK : List (Bytes × SJ) → Bool
  | [] => true
  | (_, v) :: kvs => numsOK v && numsOKK kvs
end

mutual
/-- the members of every object are in strictly increasing key order -/
def sortedS : SJ → Bool
  | .arr vs => sortedSL vs
  | .obj kvs => keysSortedS kvs && sortedSK kvs
  | _ => true
def sortedSL : List SJ → Bool
  | [] => true
  | v :: vs => sortedS v && sortedSL vs
def sortedSK : List (Bytes × SJ) → Bool
  | [] => true
  | (_, v) :: kvs => sortedS v && sortedSK kvs
end

/-- `BTreeMap::insert` on a sorted member list (mirror of `insertKV`) -/
def insSorted (k : Bytes) (v : SJ) : List (Bytes × SJ) → List (Bytes × SJ)
  | [] => [(k, v)]
  | (k', v') :: rest =>
    match lexCmp k k' with
    | .lt => (k, v) :: (k', v') :: rest
    | .eq => (k, v) :: rest
    | .gt => (k', v') :: insSorted k v rest

/-- members collected into a `BTreeMap`: sorted by key, a later duplicate replaces an earlier -/
def sortMembers (kvs : List (Bytes × SJ)) : List (Bytes × SJ) :=
  kvs.foldl (fun m kv => insSorted kv.1 kv.2 m) []

mutual
/-- the same serde_json value with the members of every object sorted by key -/
def canon : SJ → SJ
  | .arr vs => .arr (canonL vs)
  | .obj kvs => .obj (sortMembers (canonK kvs))
  | s => s
def canonL : List SJ → List SJ
  | [] => []
  | v :: vs => canon v :: canonL vs
def canonK : List (Bytes × SJ) → List (Bytes × SJ)
  | [] => []
  | (k, v) :: kvs => (k, canon v) :: canonK kvs
end

end SJ

open SJ

theorem keysSorted_fromSJK (kvs : List (Bytes × SJ)) : keysSorted (fromSJK kvs) = keysSortedS kvs := by
  induction kvs with
  | nil => rfl
  | cons kv kvs ih =>
    obtain ⟨k, v⟩ := kv
    cases kvs with
    | nil => simp [fromSJK, keysSorted, keysSortedS]
    | cons kv2 kvs2 =>
      obtain ⟨k2, v2⟩ := kv2
      simp only [fromSJK, keysSorted, keysSortedS] at ih ⊢
      rw [ih]

/-! ### membership characterisations -/

theorem finiteK_iff (kvs : List (Bytes × JV)) :
    finiteK kvs = true ↔ ∀ kv ∈ kvs, finiteJ kv.2 = true := by
  induction kvs with
  | nil => simp [finiteK]
  | cons kv kvs ih => obtain ⟨k, v⟩ := kv; simp [finiteK, ih]

theorem sortedK_iff (kvs : List (Bytes × JV)) :
    sortedK kvs = true ↔ ∀ kv ∈ kvs, sortedJ kv.2 = true := by
  induction kvs with
  | nil => simp [sortedK]
  | cons kv kvs ih => obtain ⟨k, v⟩ := kv; simp [sortedK, ih]

theorem allUnsignedK_iff (kvs : List (Bytes × JV)) :
    Driver.allUnsignedK kvs = true ↔ ∀ kv ∈ kvs, Driver.allUnsigned kv.2 = true := by
  induction kvs with
  | nil => simp [Driver.allUnsignedK]
  | cons kv kvs ih => obtain ⟨k, v⟩ := kv; simp [Driver.allUnsignedK, ih]

theorem mem_mergeKV {m es : List (Bytes × JV)} {kv : Bytes × JV} (h : kv ∈ mergeKV m es) :
    kv ∈ m ∨ kv ∈ es := by
  induction es generalizing m with
  | nil => exact Or.inl h
  | cons e es ih =>
    have h' : kv ∈ mergeKV (insertKV e.1 e.2 m) es := h
    rcases ih h' with h1 | h1
    · rcases mem_insertKV h1 with h2 | h2
      · exact Or.inr (by rw [h2]; simp)
      · exact Or.inl h2
    · exact Or.inr (by simp [h1])

theorem mem_mkObj {es : List (Bytes × JV)} {kv : Bytes × JV} (h : kv ∈ mkObj es) : kv ∈ es := by
  rcases mem_mergeKV (m := []) h with h1 | h1
  · simp at h1
  · exact h1

theorem keysSorted_mkObj (es : List (Bytes × JV)) : keysSorted (mkObj es) = true :=
  mergeKV_sorted [] es rfl

/-! ### what `fromSJ` produces -/

mutual
theorem finiteJ_fromSJ : (s : SJ) → numsOK s = true → finiteJ (fromSJ s) = true
  | .null, _ => rfl
  | .bool _, _ => rfl
  | .pos _, _ => rfl
  | .neg _, _ => rfl
  | .float b, h => by simpa [numsOK, fromSJ, finiteJ] using h
  | .str _, _ => rfl
  | .arr vs, h => by
    simp only [numsOK] at h
    simp only [fromSJ, finiteJ]; exact finiteL_fromSJL vs h
  | .obj kvs, h => by
    simp only [numsOK] at h
    simp only [fromSJ, finiteJ]
    rw [finiteK_iff]
    intro kv hkv
    exact (finiteK_iff _).mp (finiteK_fromSJK kvs h) kv (mem_mkObj hkv)
theorem finiteL_fromSJL : (vs : List SJ) → numsOKL vs = true → finiteL (fromSJL vs) = true
  | [], _ => rfl
  | v :: vs, h => by
    simp only [numsOKL, Bool.and_eq_true] at h
    simp only [fromSJL, finiteL, Bool.and_eq_true]
    exact ⟨finiteJ_fromSJ v h.1, finiteL_fromSJL vs h.2⟩
theorem finiteK_fromSJK : (kvs : List (Bytes × SJ)) → numsOKK kvs = true →
    finiteK (fromSJK kvs) = true
  | [], _ => rfl
  | (k, v) :: kvs, h => by
    simp only [numsOKK, Bool.and_eq_true] at h
    simp only [fromSJK, finiteK, Bool.and_eq_true]
    exact ⟨finiteJ_fromSJ v h.1, finiteK_fromSJK kvs h.2⟩
end

mutual
/-- every object produced by `fromSJ` is a `BTreeMap` -/
theorem sortedJ_fromSJ : (s : SJ) → sortedJ (fromSJ s) = true
  | .null => rfl
  | .bool _ => rfl
  | .pos _ => rfl
  | .neg _ => rfl
  | .float _ => rfl
  | .str _ => rfl
  | .arr vs => by simp only [fromSJ, sortedJ]; exact sortedL_fromSJL vs
  | .obj kvs => by
    simp only [fromSJ, sortedJ, Bool.and_eq_true]
    refine ⟨keysSorted_mkObj _, ?_⟩
    rw [sortedK_iff]
    intro kv hkv
    exact (sortedK_iff _).mp (sortedK_fromSJK kvs) kv (mem_mkObj hkv)
theorem sortedL_fromSJL : (vs : List SJ) → sortedL (fromSJL vs) = true
  | [] => rfl
  | v :: vs => by
    simp only [fromSJL, sortedL, Bool.and_eq_true]
    exact ⟨sortedJ_fromSJ v, sortedL_fromSJL vs⟩
theorem sortedK_fromSJK : (kvs : List (Bytes × SJ)) → sortedK (fromSJK kvs) = true
  | [] => rfl
  | (k, v) :: kvs => by
    simp only [fromSJK, sortedK, Bool.and_eq_true]
    exact ⟨sortedJ_fromSJ v, sortedK_fromSJK kvs⟩
end

mutual
/-- `fromSJ` stores every non-negative integer unsigned (it tries `as_u64` first) -/
theorem allUnsigned_fromSJ : (s : SJ) → numsOK s = true → Driver.allUnsigned (fromSJ s) = true
  | .null, _ => rfl
  | .bool _, _ => rfl
  | .pos _, _ => rfl
  | .neg i, h => by simpa [numsOK, fromSJ, Driver.allUnsigned] using h
  | .float _, _ => rfl
  | .str _, _ => rfl
  | .arr vs, h => by
    simp only [numsOK] at h
    simp only [fromSJ, Driver.allUnsigned]; exact allUnsignedL_fromSJL vs h
  | .obj kvs, h => by
    simp only [numsOK] at h
    simp only [fromSJ, Driver.allUnsigned]
    rw [allUnsignedK_iff]
    intro kv hkv
    exact (allUnsignedK_iff _).mp (allUnsignedK_fromSJK kvs h) kv (mem_mkObj hkv)
theorem allUnsignedL_fromSJL : (vs : List SJ) → numsOKL vs = true →
    Driver.allUnsignedL (fromSJL vs) = true
  | [], _ => rfl
  | v :: vs, h => by
    simp only [numsOKL, Bool.and_eq_true] at h
    simp only [fromSJL, Driver.allUnsignedL, Bool.and_eq_true]
    exact ⟨allUnsigned_fromSJ v h.1, allUnsignedL_fromSJL vs h.2⟩
theorem allUnsignedK_fromSJK : (kvs : List (Bytes × SJ)) → numsOKK kvs = true →
    Driver.allUnsignedK (fromSJK kvs) = true
  | [], _ => rfl
  | (k, v) :: kvs, h => by
    simp only [numsOKK, Bool.and_eq_true] at h
    simp only [fromSJK, Driver.allUnsignedK, Bool.and_eq_true]
    exact ⟨allUnsigned_fromSJ v h.1, allUnsignedK_fromSJK kvs h.2⟩
end

/-! ### `serde_json → Value → serde_json` on sorted values: the identity -/

theorem sjOfInt_neg (i : Int) (h : i < 0) : sjOfInt i = .neg i := by
  have : ¬ i ≥ 0 := by omega
  simp [sjOfInt, this]

mutual
theorem toSJT_fromSJ_sorted : (s : SJ) → numsOK s = true → sortedS s = true → toSJT (fromSJ s) = s
  | .null, _, _ => rfl
  | .bool _, _, _ => rfl
  | .pos _, _, _ => rfl
  | .neg i, h, _ => by
    simp only [numsOK, decide_eq_true_eq] at h
    simp only [fromSJ, toSJT, sjOfInt_neg i h]
  | .float _, _, _ => rfl
  | .str _, _, _ => rfl
  | .arr vs, h, hs => by
    simp only [numsOK] at h
    simp only [sortedS] at hs
    simp only [fromSJ, toSJT, toSJTL_fromSJL_sorted vs h hs]
  | .obj kvs, h, hs => by
    simp only [numsOK] at h
    simp only [sortedS, Bool.and_eq_true] at hs
    have hk : keysSorted (fromSJK kvs) = true := by rw [keysSorted_fromSJK]; exact hs.1
    simp only [fromSJ]
    rw [mkObj_sorted _ hk, toSJT_obj_sorted _ hk, mapTK_fromSJK_sorted kvs h hs.2]
theorem toSJTL_fromSJL_sorted : (vs : List SJ) → numsOKL vs = true → sortedSL vs = true →
    toSJTL (fromSJL vs) = vs
  | [], _, _ => rfl
  | v :: vs, h, hs => by
    simp only [numsOKL, Bool.and_eq_true] at h
    simp only [sortedSL, Bool.and_eq_true] at hs
    simp only [fromSJL, toSJTL, toSJT_fromSJ_sorted v h.1 hs.1, toSJTL_fromSJL_sorted vs h.2 hs.2]
theorem mapTK_fromSJK_sorted : (kvs : List (Bytes × SJ)) → numsOKK kvs = true → sortedSK kvs = true →
    mapTK (fromSJK kvs) = kvs
  | [], _, _ => rfl
  | (k, v) :: kvs, h, hs => by
    simp only [numsOKK, Bool.and_eq_true] at h
    simp only [sortedSK, Bool.and_eq_true] at hs
    simp only [fromSJK, mapTK_cons, toSJT_fromSJ_sorted v h.1 hs.1, mapTK_fromSJK_sorted kvs h.2 hs.2]
end

/-! ### `serde_json → Value → serde_json` in general: members sorted by key -/

theorem mapTK_insertKV (k : Bytes) (v : JV) (m : List (Bytes × JV)) :
    mapTK (insertKV k v m) = insSorted k (toSJT v) (mapTK m) := by
  induction m with
  | nil => rfl
  | cons kv m ih =>
    obtain ⟨k', v'⟩ := kv
    simp only [insertKV, mapTK_cons, insSorted]
    cases lexCmp k k' with
    | lt => rfl
    | eq => rfl
    | gt => simp only [mapTK_cons, ih]

theorem mapTK_mergeKV (m es : List (Bytes × JV)) :
    mapTK (mergeKV m es) = (mapTK es).foldl (fun m kv => insSorted kv.1 kv.2 m) (mapTK m) := by
  induction es generalizing m with
  | nil => rfl
  | cons e es ih =>
    obtain ⟨k, v⟩ := e
    have h' : mergeKV m ((k, v) :: es) = mergeKV (insertKV k v m) es := rfl
    rw [h', ih, mapTK_insertKV, mapTK_cons]
    rfl

theorem mapTK_mkObj (es : List (Bytes × JV)) : mapTK (mkObj es) = sortMembers (mapTK es) :=
  mapTK_mergeKV [] es

mutual
theorem toSJT_fromSJ : (s : SJ) → numsOK s = true → toSJT (fromSJ s) = canon s
  | .null, _ => rfl
  | .bool _, _ => rfl
  | .pos _, _ => rfl
  | .neg i, h => by
    simp only [numsOK, decide_eq_true_eq] at h
    simp only [fromSJ, toSJT, sjOfInt_neg i h, canon]
  | .float _, _ => rfl
  | .str _, _ => rfl
  | .arr vs, h => by
    simp only [numsOK] at h
    simp only [fromSJ, toSJT, toSJTL_fromSJL vs h, canon]
  | .obj kvs, h => by
    simp only [numsOK] at h
    simp only [fromSJ]
    rw [toSJT_obj_sorted _ (keysSorted_mkObj _), mapTK_mkObj, mapTK_fromSJK kvs h]
    simp only [canon]
theorem toSJTL_fromSJL : (vs : List SJ) → numsOKL vs = true → toSJTL (fromSJL vs) = canonL vs
  | [], _ => rfl
  | v :: vs, h => by
    simp only [numsOKL, Bool.and_eq_true] at h
    simp only [fromSJL, toSJTL, toSJT_fromSJ v h.1, toSJTL_fromSJL vs h.2, canonL]
theorem mapTK_fromSJK : (kvs : List (Bytes × SJ)) → numsOKK kvs = true →
    mapTK (fromSJK kvs) = canonK kvs
  | [], _ => rfl
  | (k, v) :: kvs, h => by
    simp only [numsOKK, Bool.and_eq_true] at h
    simp only [fromSJK, mapTK_cons, toSJT_fromSJ v h.1, mapTK_fromSJK kvs h.2, canonK]
end

/-- sorting the members of an already sorted value changes nothing -/
theorem canon_sorted (s : SJ) (h : numsOK s = true) (hs : sortedS s = true) : canon s = s := by
  rw [← toSJT_fromSJ s h, toSJT_fromSJ_sorted s h hs]

/-- the round trip of a serde_json value denotes the same `Value` -/
theorem fromSJ_canon (s : SJ) (h : numsOK s = true) : fromSJ (canon s) = fromSJ s := by
  rw [← toSJT_fromSJ s h, fromSJ_toSJT _ (sortedJ_fromSJ s),
    reparse_allUnsigned _ (allUnsigned_fromSJ s h)]

end Jsonb
