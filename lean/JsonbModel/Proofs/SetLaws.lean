/-
C13: laws of the set functions at the level of element lists (identity = same entry word and
payload, i.e. same JSON value in the same number encoding).
-/
import JsonbModel.Spec.Edit

namespace Jsonb.Spec
open JV

theorem same_refl (a : JV) : same a a = true := by simp [same]
theorem same_symm (a b : JV) : same a b = same b a := by
  simp only [same]; exact Bool.eq_iff_iff.mpr ⟨fun h => by simpa using (beq_iff_eq.mp h).symm, fun h => by simpa using (beq_iff_eq.mp h).symm⟩
theorem same_trans {a b c : JV} (h1 : same a b = true) (h2 : same b c = true) : same a c = true := by
  simp only [same, beq_iff_eq] at *; rw [h1, h2]

/-- the decision sequence shared by intersection and except: `true` = the element is matched
against (and consumes) an occurrence in the second list -/
def mask : List JV → List JV → List Bool
  | [], _ => []
  | x :: xs, ys =>
    match removeFirst x ys with
    | some ys' => true :: mask xs ys'
    | none => false :: mask xs ys

def pick (want : Bool) : List JV → List Bool → List JV
  | x :: xs, m :: ms => if m == want then x :: pick want xs ms else pick want xs ms
  | _, _ => []

/-- intersection and except make the same decisions, so they PARTITION the first list -/
theorem interExcept_eq_pick (keep : Bool) (xs ys : List JV) :
    interExcept keep xs ys = pick keep xs (mask xs ys) := by
  induction xs generalizing ys with
  | nil => rfl
  | cons x xs ih =>
    simp only [interExcept, mask]
    cases h : removeFirst x ys with
    | some ys' => cases keep <;> simp [pick, ih]
    | none => cases keep <;> simp [pick, ih]

theorem mask_length (xs ys : List JV) : (mask xs ys).length = xs.length := by
  induction xs generalizing ys with
  | nil => rfl
  | cons x xs ih => simp only [mask]; split <;> simp [ih]

theorem pick_lengths (xs : List JV) (ms : List Bool) (h : ms.length = xs.length) :
    (pick true xs ms).length + (pick false xs ms).length = xs.length := by
  induction xs generalizing ms with
  | nil => cases ms <;> simp [pick]
  | cons x xs ih =>
    cases ms with
    | nil => simp at h
    | cons m ms =>
      have := ih ms (by simpa using h)
      cases m <;> simp [pick] <;> omega

/-- every element of the first list lands in exactly one of the two results -/
theorem inter_except_partition_length (xs ys : List JV) :
    (interExcept true xs ys).length + (interExcept false xs ys).length = xs.length := by
  rw [interExcept_eq_pick, interExcept_eq_pick]
  exact pick_lengths xs _ (mask_length xs ys)

theorem removeFirst_some_iff (x : JV) (ys : List JV) : (removeFirst x ys).isSome = ys.any (same x) := by
  induction ys with
  | nil => rfl
  | cons y ys ih =>
    simp only [removeFirst, List.any_cons]
    by_cases h : same x y = true
    · simp [h]
    · simp [h, ih]

/-- overlap is true exactly when the intersection is non-empty -/
theorem overlap_iff_inter_nonempty (xs ys : List JV) :
    xs.any (fun x => ys.any (same x)) = !(interExcept true xs ys).isEmpty := by
  induction xs generalizing ys with
  | nil => rfl
  | cons x xs ih =>
    simp only [List.any_cons, interExcept]
    have hr := removeFirst_some_iff x ys
    cases h : removeFirst x ys with
    | some ys' => simp [h] at hr; simp; exact Or.inl hr
    | none =>
      simp [h] at hr
      have : ys.any (same x) = false := by
        cases hh : ys.any (same x) with
        | false => rfl
        | true => simp only [List.any_eq_true] at hh; obtain ⟨y, hy, hs⟩ := hh; exact absurd hs (by simpa using hr y hy)
      simp [this, ih]

/-- nothing in the result of `distinct` is the same as something already seen or kept earlier -/
theorem distinct_not_seen (xs seen : List JV) :
    ∀ x ∈ distinct xs seen, seen.any (same x) = false := by
  induction xs generalizing seen with
  | nil => simp [distinct]
  | cons y ys ih =>
    intro x hx
    simp only [distinct] at hx
    by_cases hs : seen.any (same y) = true
    · simp only [hs, if_true] at hx; exact ih seen x hx
    · simp only [hs] at hx
      simp only [Bool.false_eq_true, if_false, List.mem_cons] at hx
      cases hx with
      | inl e => subst e; simpa using hs
      | inr h =>
        have := ih (y :: seen) x h
        simp only [List.any_cons, Bool.or_eq_false_iff] at this
        exact this.2

/-- distinct is idempotent -/
theorem distinct_idem_aux (xs seen : List JV) :
    distinct (distinct xs seen) seen = distinct xs seen := by
  induction xs generalizing seen with
  | nil => rfl
  | cons y ys ih =>
    simp only [distinct]
    by_cases hs : seen.any (same y) = true
    · simp only [hs, if_true]; exact ih seen
    · simp only [hs, Bool.false_eq_true, if_false, distinct]
      rw [ih (y :: seen)]

theorem distinct_idem (xs : List JV) : distinct (distinct xs []) [] = distinct xs [] :=
  distinct_idem_aux xs []

/-- distinct keeps the FIRST occurrence: the head always survives -/
theorem distinct_head (x : JV) (xs : List JV) : (distinct (x :: xs) []).head? = some x := by
  simp [distinct]

/-- distinct only drops elements: the result is a sublist (order kept) -/
theorem distinct_sublist (xs seen : List JV) : (distinct xs seen).Sublist xs := by
  induction xs generalizing seen with
  | nil => simp [distinct]
  | cons y ys ih =>
    simp only [distinct]
    split
    · exact (ih seen).cons y
    · exact (ih (y :: seen)).cons_cons y

theorem pick_sublist (want : Bool) (xs : List JV) (ms : List Bool) : (pick want xs ms).Sublist xs := by
  induction xs generalizing ms with
  | nil => cases ms <;> simp [pick]
  | cons x xs ih =>
    cases ms with
    | nil => simp [pick]
    | cons m ms =>
      simp only [pick]
      split
      · exact (ih ms).cons_cons x
      · exact (ih ms).cons x

end Jsonb.Spec
