/-
Agreement theorems, phase 7, part 6: `Value::array_length` and the whole `array_length` (its text branch is
`match parse_value(value) { Ok(val) => val.array_length(), Err(_) => None }`) = the model's `T.arrayLength`.
-/
import JsonbModel.Proofs.TranslatedAgreeK4

set_option linter.unusedSimpArgs false
set_option linter.unusedVariables false

namespace Jsonb.TrAgree
open Jsonb.Rs

/-- `Value::array_length` -/
theorem value_array_length_agrees (v : JV) :
    Tr.Value.array_length (ofJV v) = .ok (match v with | .arr vs => some (vs.length : Int) | _ => none) := by
  cases v <;> simp [Tr.Value.array_length, ofJV, Ctl.run_ret', Rs.len, ofJVs_length]

/-- **`array_length`**, the whole public function (the lengths as Rust `usize` values: `optNat`) -/
theorem array_length_whole_text (value : Bytes) (fuel : Nat)
    (ht : isJsonb value = false → value.length < 9223372036854775808 ∧ JP.fuelFor value ≤ fuel) :
    Tr.Whole.array_length fuel value = (T.arrayLength value).map optNat := by
  cases hj : isJsonb value
  · obtain ⟨hlen, hpf⟩ := ht hj
    unfold Tr.Whole.array_length T.arrayLength
    rw [is_jsonb_agrees, hj, parse_value_agrees value hlen fuel hpf]
    simp only [Ctl.ofRes_ok', Ctl.val_bind', Bool.not_false, if_true]
    cases hp : parseValue value with
    | ok v =>
      simp only [Res.map, Res.bind, Rs.resOpt, Ctl.val_bind', value_array_length_agrees, Ctl.ofRes_ok']
      cases v <;> rfl
    | err e => rfl
    | panic s => rfl
    | fuel => rfl
  · have h1 : Tr.Whole.array_length fuel value = Tr.array_length value none := by
      unfold Tr.Whole.array_length Tr.array_length
      rw [is_jsonb_agrees, hj]
      rfl
    rw [h1, array_length_agrees, hj]
    simp [T.arrayLength, hj]

end Jsonb.TrAgree
