/-
Agreement theorems, phase 5a, part 7: `get_by_keypath` (a loop over the key-path items: `i32` index arithmetic with
negative indexes, `get_jentry_by_name` / `get_jentry_by_index` from the current container) = `Fn.getByKeypath`.
-/
import JsonbModel.Proofs.TranslatedAgreeE6

set_option linter.unusedSimpArgs false
set_option linter.unusedVariables false

namespace Jsonb.TrAgree
open Jsonb.Rs

/-! ## get_by_keypath -/

/-- the model's key-path item ↦ the translated `enum KeyPath` -/
def ofKP : KeyPath → Tr.KeyPath
  | .index i => .Index i
  | .quoted s => .QuotedName s
  | .name s => .Name s

/-- the Rust domain of a key-path item: an index is an `i32` -/
def KPFits : KeyPath → Prop
  | .index i => -2147483648 ≤ i ∧ i ≤ 2147483647
  | _ => True

/-- the loop state `(curr_jentry_encoded, curr_jentry, curr_val_offset)` -/
def kpState (off : Nat) (je : Option JE) : Int × Option Tr.JEntry × Int :=
  ((match je with | some j => ((j.enc : Nat) : Int) | none => 0), je.map ofJE, ((off : Nat) : Int))

/-- one item of the path: the next `(value offset, entry)`, `none` = `return None` -/
def kpNext (value : Bytes) (p : KeyPath) (off : Nat) (je : Option JE) : Res (Option (JE × Nat)) :=
  if (match je with | some j => j.ty != C.CONTAINER_TAG | none => false) then .ok none
  else
    match readU32At value off with
    | none => .ok none
    | some h =>
      match p with
      | .quoted nm | .name nm =>
        if hdrType h = C.OBJECT_CONTAINER_TAG then getJentryByName value off h nm false else .ok none
      | .index idx =>
        if hdrType h = C.ARRAY_CONTAINER_TAG then
          if idx > (hdrLen h : Int) ∨ (hdrLen h : Int) + idx < 0 then .ok none
          else .ok (getJentryByIndex value off h (if idx ≥ 0 then idx.toNat else ((hdrLen h : Int) + idx).toNat))
        else .ok none

theorem getByKeypathLoop_cons (value : Bytes) (p : KeyPath) (ps : List KeyPath) (off : Nat) (je : Option JE) :
    Fn.getByKeypathLoop value (p :: ps) off je =
      match kpNext value p off je with
      | .ok (some (j, vo)) => Fn.getByKeypathLoop value ps vo (some j)
      | .ok none => .ok none
      | .err e => .err e
      | .panic s => .panic s
      | .fuel => .fuel := by
  cases p with
  | quoted nm =>
    rw [Fn.getByKeypathLoop.eq_def]; unfold kpNext; simp only []
    have key : ∀ c : Bool, (if c = true then (Res.ok none : Res (Option (Nat × Option JE))) else
        match readU32At value off with
        | none => Res.ok none
        | some h => (if hdrType h = C.OBJECT_CONTAINER_TAG then
            match getJentryByName value off h nm false with
            | .ok (some (j, vo)) => Fn.getByKeypathLoop value ps vo (some j)
            | .ok none => .ok none
            | .err e => .err e
            | .panic s => .panic s
            | .fuel => .fuel
          else .ok none)) = (match (if c = true then (Res.ok none : Res (Option (JE × Nat))) else
        match readU32At value off with
        | none => Res.ok none
        | some h => (if hdrType h = C.OBJECT_CONTAINER_TAG then getJentryByName value off h nm false else .ok none)) with
      | .ok (some (j, vo)) => Fn.getByKeypathLoop value ps vo (some j)
      | .ok none => .ok none
      | .err e => .err e
      | .panic s => .panic s
      | .fuel => .fuel) := by
      intro c
      cases c with
      | true => rfl
      | false =>
        simp only [Bool.false_eq_true, if_false]
        cases readU32At value off with
        | none => rfl
        | some h =>
          simp only []
          split
          · cases getJentryByName value off h nm false with
            | ok o => cases o with
              | none => rfl
              | some q => obtain ⟨j, vo⟩ := q; rfl
            | err e => rfl
            | panic e => rfl
            | fuel => rfl
          · rfl
    cases je with
    | none => exact key false
    | some j => exact key (j.ty != C.CONTAINER_TAG)
  | name nm =>
    rw [Fn.getByKeypathLoop.eq_def]; unfold kpNext; simp only []
    have key : ∀ c : Bool, (if c = true then (Res.ok none : Res (Option (Nat × Option JE))) else
        match readU32At value off with
        | none => Res.ok none
        | some h => (if hdrType h = C.OBJECT_CONTAINER_TAG then
            match getJentryByName value off h nm false with
            | .ok (some (j, vo)) => Fn.getByKeypathLoop value ps vo (some j)
            | .ok none => .ok none
            | .err e => .err e
            | .panic s => .panic s
            | .fuel => .fuel
          else .ok none)) = (match (if c = true then (Res.ok none : Res (Option (JE × Nat))) else
        match readU32At value off with
        | none => Res.ok none
        | some h => (if hdrType h = C.OBJECT_CONTAINER_TAG then getJentryByName value off h nm false else .ok none)) with
      | .ok (some (j, vo)) => Fn.getByKeypathLoop value ps vo (some j)
      | .ok none => .ok none
      | .err e => .err e
      | .panic s => .panic s
      | .fuel => .fuel) := by
      intro c
      cases c with
      | true => rfl
      | false =>
        simp only [Bool.false_eq_true, if_false]
        cases readU32At value off with
        | none => rfl
        | some h =>
          simp only []
          split
          · cases getJentryByName value off h nm false with
            | ok o => cases o with
              | none => rfl
              | some q => obtain ⟨j, vo⟩ := q; rfl
            | err e => rfl
            | panic e => rfl
            | fuel => rfl
          · rfl
    cases je with
    | none => exact key false
    | some j => exact key (j.ty != C.CONTAINER_TAG)
  | index idx =>
    rw [Fn.getByKeypathLoop.eq_def]; unfold kpNext; simp only []
    have key : ∀ c : Bool, (if c = true then (Res.ok none : Res (Option (Nat × Option JE))) else
        match readU32At value off with
        | none => Res.ok none
        | some h => (if hdrType h = C.ARRAY_CONTAINER_TAG then
            if idx > (hdrLen h : Int) ∨ (hdrLen h : Int) + idx < 0 then .ok none
            else
              match getJentryByIndex value off h (if idx ≥ 0 then idx.toNat else ((hdrLen h : Int) + idx).toNat) with
              | some (j, vo) => Fn.getByKeypathLoop value ps vo (some j)
              | none => .ok none
          else .ok none)) = (match (if c = true then (Res.ok none : Res (Option (JE × Nat))) else
        match readU32At value off with
        | none => Res.ok none
        | some h => (if hdrType h = C.ARRAY_CONTAINER_TAG then
            if idx > (hdrLen h : Int) ∨ (hdrLen h : Int) + idx < 0 then .ok none
            else .ok (getJentryByIndex value off h (if idx ≥ 0 then idx.toNat else ((hdrLen h : Int) + idx).toNat))
          else .ok none)) with
      | .ok (some (j, vo)) => Fn.getByKeypathLoop value ps vo (some j)
      | .ok none => .ok none
      | .err e => .err e
      | .panic s => .panic s
      | .fuel => .fuel) := by
      intro c
      cases c with
      | true => rfl
      | false =>
        simp only [Bool.false_eq_true, if_false]
        cases readU32At value off with
        | none => rfl
        | some h =>
          simp only []
          split
          · split
            · rfl
            · cases getJentryByIndex value off h (if idx ≥ 0 then idx.toNat else ((hdrLen h : Int) + idx).toNat) with
              | none => rfl
              | some q => obtain ⟨j, vo⟩ := q; rfl
          · rfl
    cases je with
    | none => exact key false
    | some j => exact key (j.ty != C.CONTAINER_TAG)

theorem readU32At_some_le (bs : Bytes) (i w : Nat) (h : readU32At bs i = some w) : i + 4 ≤ bs.length := by
  unfold readU32At at h
  split at h
  · assumption
  · cases h

/-- the next position of a successful step: an entry read from a word, not far behind the end of the buffer -/
theorem kpNext_bound (value : Bytes) (p : KeyPath) (off : Nat) (je : Option JE) (j : JE) (vo : Nat)
    (h : kpNext value p off je = .ok (some (j, vo))) :
    j.len < 268435456 ∧ j.enc < 4294967296 ∧ vo ≤ value.length + 576460752303423488 := by
  unfold kpNext at h
  generalize (match je with | some j => j.ty != C.CONTAINER_TAG | none => false) = c at h
  cases c with
  | true => rw [if_pos rfl] at h; cases h
  | false =>
    rw [if_neg (by simp)] at h
    cases hr : readU32At value off with
    | none => simp [hr] at h
    | some hd =>
      have hle := readU32At_some_le _ _ _ hr
      have hL := hdrLen_lt hd
      simp only [hr] at h
      cases p with
      | quoted nm =>
        simp only [] at h
        by_cases ht : hdrType hd = C.OBJECT_CONTAINER_TAG
        · rw [if_pos ht] at h; have := gjbn_hit value off hd nm false j vo h; omega
        · rw [if_neg ht] at h; cases h
      | name nm =>
        simp only [] at h
        by_cases ht : hdrType hd = C.OBJECT_CONTAINER_TAG
        · rw [if_pos ht] at h; have := gjbn_hit value off hd nm false j vo h; omega
        · rw [if_neg ht] at h; cases h
      | index idx =>
        simp only [] at h
        by_cases ht : hdrType hd = C.ARRAY_CONTAINER_TAG
        · rw [if_pos ht] at h
          by_cases hi : idx > (hdrLen hd : Int) ∨ (hdrLen hd : Int) + idx < 0
          · rw [if_pos hi] at h; cases h
          · rw [if_neg hi] at h
            simp only [Res.ok.injEq] at h
            have := gjbi_hit value off hd _ j vo h; omega
        · rw [if_neg ht] at h; cases h

theorem kp_stop_false (je : Option JE) : (∀ j, je = some j → j.ty = C.CONTAINER_TAG) →
    (match je with | some j => j.ty != C.CONTAINER_TAG | none => false) = false := by
  intro hgo
  cases je with
  | none => rfl
  | some j => have := hgo j rfl; simp [this]

theorem add_i32_ok' (x y : Int) (h : -2147483648 ≤ x + y ∧ x + y ≤ 2147483647) :
    Rs.add .i32 x y = .ok (x + y) := by
  rw [Rs.add_ok _ _ _ (by rw [Rs.inRange_iff]; simp; omega)]

theorem cast_usize_eq (z : Int) (n : Nat) (h : z = (n : Int)) (hn : n < 18446744073709551616) :
    Rs.cast .usize z = (n : Int) := by
  subst h; exact Rs.usize_nat n hn

theorem cast_i32_nat (n : Nat) (h : n < 2147483648) : Rs.cast .i32 (n : Int) = (n : Int) :=
  Rs.cast_of_inRange _ _ (by rw [Rs.inRange_iff]; simp; omega)

theorem gbk_loop1_step (value : Bytes) (hlen : value.length < 4611686018427387904) (p : KeyPath) (hp : KPFits p)
    (off : Nat) (je : Option JE) (hoff : off ≤ value.length + 576460752303423488) :
    Tr.get_by_keypath.loop1 value (ofKP p) (kpState off je) =
      match kpNext value p off je with
      | .ok (some (j, vo)) => Ctl.val (.next (kpState vo (some j)))
      | .ok none => Ctl.ret (.ok none)
      | .err e => Ctl.ret (.err e)
      | .panic s => Ctl.ret (.panic s)
      | .fuel => Ctl.ret .fuel := by
  unfold Tr.get_by_keypath.loop1 kpNext kpState
  dsimp only
  -- the entry reached so far must be a container
  have stop : (∃ j, je = some j ∧ j.ty ≠ C.CONTAINER_TAG) ∨ (∀ j, je = some j → j.ty = C.CONTAINER_TAG) := by
    cases je with
    | none => exact Or.inr (fun j h => by cases h)
    | some j =>
      by_cases ht : j.ty = C.CONTAINER_TAG
      · exact Or.inr (fun j' h => by cases h; exact ht)
      · exact Or.inl ⟨j, rfl, ht⟩
  rcases stop with ⟨j, rfl, ht⟩ | hgo
  · have : ¬ (((j.ty : Nat) : Int) = (C.CONTAINER_TAG : Int)) := by omega
    simp [ofJE, ht, this, Rs.loopStep]
  · rw [kp_stop_false je hgo]
    generalize hm : Option.map ofJE je = m
    have hmm : ∀ jentry, m = some jentry → jentry.type_code = (C.CONTAINER_TAG : Int) := by
      intro jentry h
      cases je with
      | none => simp at hm; subst hm; cases h
      | some j =>
        have := hgo j rfl
        simp only [Option.map_some] at hm
        subst hm; cases h; simp only [ofJE]; omega
    cases m
    case' some jentry => have hj := hmm jentry rfl
    case' some => simp only [hj, ne_eq, not_true_eq_false, decide_false, Bool.false_eq_true, if_false, Ctl.pure_eq']
    case' none => simp only [Ctl.pure_eq']
    all_goals clear hmm
    all_goals (
      simp only [Ctl.val_bind', Bool.false_eq_true, if_false]
      rw [read_u32_agrees value off (by omega)]
      cases hr : readU32At value off with
      | none => simp [Rs.okQ, Rs.loopStep]
      | some hd =>
        have hle := readU32At_some_le _ _ _ hr
        have hL := hdrLen_lt hd
        have hci : Rs.cast .i32 (Rs.bitand (hd : Int) (C.CONTAINER_HEADER_LEN_MASK : Int)) = ((hdrLen hd : Nat) : Int) := by
          rw [Rs.bitand_natCast]; exact cast_i32_nat _ (by unfold hdrLen at hL; omega)
        simp only [Rs.okQ_ok', Ctl.val_bind', hdrType_eq, hci]
        cases p with
        | quoted nm =>
          simp only [ofKP]
          by_cases ht : hdrType hd = C.OBJECT_CONTAINER_TAG
          · simp only [ht, decide_true, if_true]
            rw [get_jentry_by_name_agrees value off hd nm false (by omega)]
            cases getJentryByName value off hd nm false with
            | ok o =>
              cases o with
              | none => simp [Res.map, Res.bind, Rs.loopStep]
              | some q => obtain ⟨j, vo⟩ := q; simp [Res.map, Res.bind, Rs.loopStep, ofHit]
            | err e => simp [Res.map, Res.bind, Rs.loopStep, Ctl.ofRes]
            | panic e => simp [Res.map, Res.bind, Rs.loopStep, Ctl.ofRes]
            | fuel => simp [Res.map, Res.bind, Rs.loopStep, Ctl.ofRes]
          · simp [ht, Rs.loopStep]
        | name nm =>
          simp only [ofKP]
          by_cases ht : hdrType hd = C.OBJECT_CONTAINER_TAG
          · simp only [ht, decide_true, if_true]
            rw [get_jentry_by_name_agrees value off hd nm false (by omega)]
            cases getJentryByName value off hd nm false with
            | ok o =>
              cases o with
              | none => simp [Res.map, Res.bind, Rs.loopStep]
              | some q => obtain ⟨j, vo⟩ := q; simp [Res.map, Res.bind, Rs.loopStep, ofHit]
            | err e => simp [Res.map, Res.bind, Rs.loopStep, Ctl.ofRes]
            | panic e => simp [Res.map, Res.bind, Rs.loopStep, Ctl.ofRes]
            | fuel => simp [Res.map, Res.bind, Rs.loopStep, Ctl.ofRes]
          · simp [ht, Rs.loopStep]
        | index idx =>
          simp only [KPFits] at hp
          simp only [ofKP]
          by_cases ht : hdrType hd = C.ARRAY_CONTAINER_TAG
          · simp only [ht, decide_true, if_true]
            -- however the two tests and the sum are spelled
            by_cases c1 : idx > (hdrLen hd : Int)
            · have c1' : (hdrLen hd : Int) < idx := c1
              simp [c1, c1', Rs.loopStep]
            · have c1' : ¬ ((hdrLen hd : Int) < idx) := c1
              simp (disch := omega) only [c1, c1', decide_false, Bool.false_eq_true, if_false, add_i32_ok', Ctl.ofRes_ok',
                Ctl.val_bind', false_or]
              by_cases c2 : (hdrLen hd : Int) + idx < 0
              · have c2' : idx + (hdrLen hd : Int) < 0 := by omega
                simp [c2, c2', Rs.loopStep]
              · have c2' : ¬ (idx + (hdrLen hd : Int) < 0) := by omega
                simp only [c2, c2', decide_false, Bool.false_eq_true, if_false]
                -- the index as a `usize`
                by_cases c3 : idx ≥ 0
                · have c3' : (0 : Int) ≤ idx := c3
                  simp only [c3, c3', decide_true, if_true, Ctl.val_bind']
                  rw [cast_usize_eq idx idx.toNat (by omega) (by omega),
                    get_jentry_by_index_agrees value off hd _ (by omega)]
                  cases getJentryByIndex value off hd idx.toNat with
                  | none => simp [Rs.loopStep]
                  | some q => obtain ⟨j, vo⟩ := q; simp [Rs.loopStep, ofHit]
                · have c3' : ¬ ((0 : Int) ≤ idx) := c3
                  simp only [c3, c3', decide_false, Bool.false_eq_true, if_false, Ctl.val_bind']
                  rw [cast_usize_eq _ ((hdrLen hd : Int) + idx).toNat]
                  rotate_left
                  · omega
                  · omega
                  rw [get_jentry_by_index_agrees value off hd _ (by omega)]
                  cases getJentryByIndex value off hd ((hdrLen hd : Int) + idx).toNat with
                  | none => simp [Rs.loopStep]
                  | some q => obtain ⟨j, vo⟩ := q; simp [Rs.loopStep, ofHit]
          · simp [ht, Rs.loopStep])

/-- the entry reached so far: read from a word -/
def JEOk (je : Option JE) : Prop := ∀ j, je = some j → j.len < 268435456 ∧ j.enc < 4294967296

theorem getByKeypathLoop_bound (value : Bytes) : ∀ (ps : List KeyPath) (off : Nat) (je : Option JE) (o : Nat) (jo : Option JE),
    JEOk je → off ≤ value.length + 576460752303423488 →
    Fn.getByKeypathLoop value ps off je = .ok (some (o, jo)) →
    JEOk jo ∧ o ≤ value.length + 576460752303423488 := by
  intro ps
  induction ps with
  | nil =>
    intro off je o jo hje hoff h
    simp only [Fn.getByKeypathLoop, Res.ok.injEq, Option.some.injEq, Prod.mk.injEq] at h
    obtain ⟨rfl, rfl⟩ := h
    exact ⟨hje, hoff⟩
  | cons p ps ih =>
    intro off je o jo hje hoff h
    rw [getByKeypathLoop_cons] at h
    cases hk : kpNext value p off je with
    | ok r =>
      cases r with
      | none => simp [hk] at h
      | some q =>
        obtain ⟨j, vo⟩ := q
        simp only [hk] at h
        obtain ⟨h1, h2, h3⟩ := kpNext_bound value p off je j vo hk
        exact ih vo (some j) o jo (fun j' hj' => by cases hj'; exact ⟨h1, h2⟩) h3 h
    | err e => simp [hk] at h
    | panic e => simp [hk] at h
    | fuel => simp [hk] at h

theorem gbk_run (value : Bytes) (hlen : value.length < 4611686018427387904) : ∀ (ps : List KeyPath),
    (∀ p ∈ ps, KPFits p) → ∀ (off : Nat) (je : Option JE), off ≤ value.length + 576460752303423488 →
    Rs.forIn (ps.map ofKP) (kpState off je) (Tr.get_by_keypath.loop1 value) =
      match Fn.getByKeypathLoop value ps off je with
      | .ok (some (o, j)) => Ctl.val (kpState o j)
      | .ok none => Ctl.ret (.ok none)
      | .err e => Ctl.ret (.err e)
      | .panic s => Ctl.ret (.panic s)
      | .fuel => Ctl.ret .fuel := by
  intro ps
  induction ps with
  | nil => intro _ off je _; simp [Rs.forIn, Fn.getByKeypathLoop]
  | cons p ps ih =>
    intro hps off je hoff
    simp only [List.map_cons]
    rw [Rs.forIn, gbk_loop1_step value hlen p (hps p (by simp)) off je hoff, getByKeypathLoop_cons]
    cases hk : kpNext value p off je with
    | ok r =>
      cases r with
      | none => rfl
      | some q =>
        obtain ⟨j, vo⟩ := q
        obtain ⟨_, _, h3⟩ := kpNext_bound value p off je j vo hk
        simp only []
        exact ih (fun x hx => hps x (by simp [hx])) vo (some j) h3
    | err e => rfl
    | panic e => rfl
    | fuel => rfl

/-- `get_by_keypath(value, keypaths)` for every buffer below 2^62 bytes and every path whose indexes are `i32` values -/
theorem get_by_keypath_agrees (value : Bytes) (hlen : value.length < 4611686018427387904) (path : List KeyPath)
    (hpath : ∀ p ∈ path, KPFits p) (text : Res (Option Bytes)) :
    Tr.get_by_keypath value (path.map ofKP) text = if isJsonb value then Fn.getByKeypath value path else text := by
  unfold Tr.get_by_keypath Fn.getByKeypath
  rw [is_jsonb_agrees]
  cases hj : isJsonb value
  · simp [Ctl.ofRes, Ctl.run]
  · simp only [Ctl.ofRes_ok', Ctl.val_bind', Ctl.pure_eq', Bool.not_true, Bool.false_eq_true, if_false, if_true]
    have hrun := gbk_run value hlen path hpath 0 none (by omega)
    simp only [kpState, Option.map_none, Nat.cast_zero] at hrun
    rw [hrun]
    cases hg : Fn.getByKeypathLoop value path 0 none with
    | ok r =>
      cases r with
      | none => rfl
      | some q =>
        obtain ⟨o, jo⟩ := q
        obtain ⟨hjo, ho⟩ := getByKeypathLoop_bound value path 0 none o jo (fun j h => by cases h) (by omega) hg
        simp only [Ctl.val_bind']
        by_cases h0 : o = 0
        · subst h0; simp [Ctl.run]
        · have h0' : ¬ (((o : Nat) : Int) = 0) := by omega
          have h0'' : ¬ ((0 : Int) = ((o : Nat) : Int)) := by omega
          simp only [h0, h0', h0'', decide_false, Bool.false_eq_true, if_false, Ctl.pure_eq', Ctl.val_bind']
          cases jo with
          | none => rfl
          | some j =>
            obtain ⟨h1, h2⟩ := hjo j rfl
            simp only [Option.map_some, Fn.extractOpt]
            have := extract_by_jentry_agrees j o value (by omega) h2 (by omega)
            simp only [ofJE] at this ⊢
            rw [this]
            cases extractByJentry j o value <;> rfl
    | err e => rfl
    | panic e => rfl
    | fuel => rfl

theorem get_by_keypath_whole (value : Bytes) (hlen : value.length < 4611686018427387904) (path : List KeyPath)
    (hpath : ∀ p ∈ path, KPFits p) :
    Tr.get_by_keypath value (path.map ofKP) (T.getByKeypath value path) = T.getByKeypath value path := by
  rw [get_by_keypath_agrees value hlen path hpath]; cases hj : isJsonb value <;> simp [T.getByKeypath, hj]

end Jsonb.TrAgree
