/-
Agreement between the phase-3 machine translation (`Generated/Translated3.lean`, written by
tools/rs2lean3.py from /repo's current source: recursive functions, the codec of de.rs / ser.rs) and
the hand-written codec models the property theorems C01 / C10 / C17 are about.
Umbrella module: `lake build JsonbModel.Proofs.TranslatedAgreeC` re-checks every agreement theorem.
  part 1: representation maps (`ofJV`), primitives (cursor read, `BTreeMap::insert`), `decode_jentries`
  part 2: one unfolding of `decode_scalar` / `decode_jsonb`, the loops of `decode_array` / `decode_object`
  part 3: the decoder group = `decJsonb` / `decScalar` (`dec_agrees`)
  part 4: `Decoder::decode`, `parse_jsonb` = `parseJsonb`, `from_slice` = `T.fromSlice`
  part 5: encoder sizes / depths, one unfolding of `encode_value` / `encode_array` / `encode_object`, loop steps
  part 6: the encoder group = `encValue` / `encArrLoop` / `encObjKeys` / `encObjVals` (`enc_value_agrees`)
  part 7: `encode_value` = `encValue`, `encode_scalar` = `encScalarDoc`, `Encoder::encode` = `writeToVec`
See tools/RS2LEAN.md for the list of theorems.
-/
import JsonbModel.Proofs.TranslatedAgreeC1
import JsonbModel.Proofs.TranslatedAgreeC2
import JsonbModel.Proofs.TranslatedAgreeC3
import JsonbModel.Proofs.TranslatedAgreeC4
import JsonbModel.Proofs.TranslatedAgreeC5
import JsonbModel.Proofs.TranslatedAgreeC6
import JsonbModel.Proofs.TranslatedAgreeC7
