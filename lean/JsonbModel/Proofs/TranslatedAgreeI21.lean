/-
Phase 6c, editors: the `delete_by_keypath` family.  I21: the two loops against `Fn.delArrItems` / `Fn.delObjMembers`.
-/
import JsonbModel.Proofs.TranslatedAgreeI20

set_option linter.unusedSimpArgs false
set_option linter.unusedVariables false

namespace Jsonb.TrAgree
open Jsonb.Rs

/-- the loop of `delete_jsonb_array_by_keypath` is the model's `delArrItems` -/
theorem dka_run (root : Bytes) (recA : DelArrFn) (recO : DelObjFn) (idx : Nat) :
    ∀ (items : List (JE × Bytes)) (f i : Nat) (acc : List BEntry) (kp : List KeyPath), i ≤ idx →
      DelRecOK root f recA recO → (∀ x ∈ items, x.1.ty = C.CONTAINER_TAG → SubDoc root x.2) →
      ArrRel (Rs.forIn (Rs.enumerateFrom i (items.map ofItem)) (arrB acc, kp.map ofKPath)
          (Tr.delete_jsonb_array_by_keypath.loop1 recA recO (idx : Int))) acc (Fn.delArrItems f kp items idx i) := by
  intro items
  induction items with
  | nil =>
    intro f i acc kp _ _ _
    cases f with
    | zero => simp only [Fn.delArrItems, ArrRel]
    | succ f =>
      simp only [Fn.delArrItems, ArrRel, List.map_nil, Rs.enumerateFrom, Rs.forIn_nil, List.append_nil]
      exact ⟨_, rfl⟩
  | cons x rest ih =>
    intro f i acc kp hi hrec hsub
    cases f with
    | zero => simp only [Fn.delArrItems, ArrRel]
    | succ f =>
      rw [List.map_cons, Rs.enumerateFrom]
      by_cases hix : i = idx
      · subst hix
        cases kp with
        | nil =>
          have hs := dka_loop1_drop recA recO i x acc
          rw [delArrItems_drop, List.map_nil, Rs.forIn_next _ _ _ _ _ hs]
          exact dka_tail recA recO i rest f (i + 1) acc [] [] (by omega)
        | cons p kp' =>
          have hk : Rs.isEmpty ((p :: kp').map ofKPath) = false := rfl
          have hsx := hsub x List.mem_cons_self
          have hh := dka_loop1_hit recA recO i x acc ((p :: kp').map ofKPath) hk
            (fun ih => Fn.delArrKp f (p :: kp') ih x.2) (fun ih => Fn.delObjKp f (p :: kp') ih x.2)
            (fun ih hc hr ht h1 h2 => (hrec f (by omega) x.2 ih (p :: kp') (hsx hc) hr).1 ht h1 h2)
            (fun ih hc hr ht h1 h2 => (hrec f (by omega) x.2 ih (p :: kp') (hsx hc) hr).2 ht h1 h2)
          rw [delArrItems_hit]
          cases hm : hitOf (fun ih => Fn.delArrKp f (p :: kp') ih x.2) (fun ih => Fn.delObjKp f (p :: kp') ih x.2) x.1 x.2 with
          | fuel => simp only [ArrRel]
          | panic s => simp only [ArrRel]
          | err e =>
            rw [hm] at hh
            simp only [HitRel] at hh
            simp only [ArrRel]
            exact Rs.forIn_ret _ _ _ _ _ hh
          | ok o =>
            rw [hm] at hh
            cases o with
            | none =>
              simp only [HitRel] at hh
              obtain ⟨kp', hh⟩ := hh
              simp only [ArrRel]
              exact ⟨kp', Rs.forIn_ret _ _ _ _ _ hh⟩
            | some e =>
              simp only [HitRel] at hh
              obtain ⟨kp', hh⟩ := hh
              rw [Rs.forIn_next _ _ _ _ _ hh]
              have ht := dka_tail recA recO i rest f (i + 1) (acc ++ [e]) [] kp' (by omega)
              dsimp only
              cases hr : Fn.delArrItems f [] rest i (i + 1) with
              | fuel => simp only [ArrRel]
              | panic s => simp only [ArrRel]
              | err e' => rw [hr] at ht; simpa only [ArrRel] using ht
              | ok o' =>
                rw [hr] at ht
                cases o' with
                | none => simpa only [ArrRel] using ht
                | some es =>
                  simp only [ArrRel, List.append_assoc, List.singleton_append] at ht ⊢
                  exact ht
      · have hs := dka_loop1_other recA recO idx i x acc (kp.map ofKPath) hix
        rw [delArrItems_other f kp x rest idx i hix, Rs.forIn_next _ _ _ _ _ hs]
        have hn := ih f (i + 1) (acc ++ [Fn.rawOf x]) kp (by omega) (hrec.mono (by omega))
          (fun y hy => hsub y (List.mem_cons_of_mem _ hy))
        cases hm : Fn.delArrItems f kp rest idx (i + 1) with
        | fuel => simp only [ArrRel]
        | panic s => simp only [ArrRel]
        | err e => rw [hm] at hn; simpa only [ArrRel] using hn
        | ok o =>
          rw [hm] at hn
          cases o with
          | none => simpa only [ArrRel] using hn
          | some es =>
            simp only [ArrRel, List.append_assoc, List.singleton_append] at hn ⊢
            exact hn

/-- the loop of `delete_jsonb_object_by_keypath` is the model's `delObjMembers`, on an object that holds no key twice -/
theorem dko_run (root : Bytes) (recA : DelArrFn) (recO : DelObjFn) (name : Bytes) :
    ∀ (ms : List (Bytes × JE × Bytes)) (f : Nat) (acc : List (Bytes × BEntry)) (kp : List KeyPath),
      DelRecOK root f recA recO → (∀ m ∈ ms, m.2.1.ty = C.CONTAINER_TAG → SubDoc root m.2.2) →
      (ms.map (fun m => m.1)).Nodup →
      ObjRel (Rs.forIn (ms.map ofMember) (objB acc, kp.map ofKPath) (Tr.delete_jsonb_object_by_keypath.loop1 recA recO name))
        (Fn.delObjMembers f kp name ms acc) := by
  intro ms
  induction ms with
  | nil =>
    intro f acc kp _ _ _
    cases f with
    | zero => simp only [Fn.delObjMembers, ObjRel]
    | succ f =>
      simp only [Fn.delObjMembers, ObjRel, List.map_nil, Rs.forIn_nil]
      exact ⟨_, rfl⟩
  | cons m rest ih =>
    intro f acc kp hrec hsub hnd
    cases f with
    | zero => simp only [Fn.delObjMembers, ObjRel]
    | succ f =>
      rw [List.map_cons]
      simp only [List.map_cons, List.nodup_cons] at hnd
      by_cases hmn : m.1 = name
      · -- no later member carries the name
        have hrest : ∀ y ∈ rest, y.1 ≠ name := by
          intro y hy c
          apply hnd.1
          rw [hmn, ← c]
          exact List.mem_map.2 ⟨y, hy, rfl⟩
        cases kp with
        | nil =>
          have hs := dko_loop1_drop recA recO name m acc hmn
          rw [delObjMembers_drop f name m rest acc hmn, List.map_nil, Rs.forIn_next _ _ _ _ _ hs]
          exact dko_tail recA recO name rest f acc [] [] hrest
        | cons p kp' =>
          have hk : Rs.isEmpty ((p :: kp').map ofKPath) = false := rfl
          have hsx := hsub m List.mem_cons_self
          have hh := dko_loop1_hit recA recO name m acc ((p :: kp').map ofKPath) hk hmn
            (fun ih => Fn.delArrKp f (p :: kp') ih m.2.2) (fun ih => Fn.delObjKp f (p :: kp') ih m.2.2)
            (fun ih hc hr ht h1 h2 => (hrec f (by omega) m.2.2 ih (p :: kp') (hsx hc) hr).1 ht h1 h2)
            (fun ih hc hr ht h1 h2 => (hrec f (by omega) m.2.2 ih (p :: kp') (hsx hc) hr).2 ht h1 h2)
          rw [delObjMembers_hit f p kp' name m rest acc hmn]
          cases hm : hitOf (fun ih => Fn.delArrKp f (p :: kp') ih m.2.2) (fun ih => Fn.delObjKp f (p :: kp') ih m.2.2) m.2.1 m.2.2 with
          | fuel => simp only [ObjRel]
          | panic s => simp only [ObjRel]
          | err e =>
            rw [hm] at hh
            simp only [HitRel] at hh
            simp only [ObjRel]
            exact Rs.forIn_ret _ _ _ _ _ hh
          | ok o =>
            rw [hm] at hh
            cases o with
            | none =>
              simp only [HitRel] at hh
              obtain ⟨kp', hh⟩ := hh
              simp only [ObjRel]
              exact ⟨kp', Rs.forIn_ret _ _ _ _ _ hh⟩
            | some e =>
              simp only [HitRel] at hh
              obtain ⟨kp', hh⟩ := hh
              rw [Rs.forIn_next _ _ _ _ _ hh]
              exact dko_tail recA recO name rest f (bInsert m.1 e acc) [] kp' hrest
      · have hs := dko_loop1_other recA recO name m acc (kp.map ofKPath) hmn
        rw [delObjMembers_other f kp name m rest acc hmn, Rs.forIn_next _ _ _ _ _ hs]
        exact ih f _ kp (hrec.mono (by omega)) (fun y hy => hsub y (List.mem_cons_of_mem _ hy)) hnd.2

end Jsonb.TrAgree
