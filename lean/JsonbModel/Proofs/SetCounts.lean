/-
C13: the count formula of the array set functions.  `cnt e l` = number of elements of `l`
identical to `e` (`Spec.same` = same entry word and payload).  Intersection keeps each element of
the first list as many times as it also occurs in the second; except keeps the rest; both keep
the order of the first list.
-/
import JsonbModel.Proofs.SetLaws

namespace Jsonb.Spec
open JV

/-- occurrences of `e` in `l`, up to `same` -/
def cnt (e : JV) (l : List JV) : Nat := l.countP (same e)

theorem cnt_nil (e : JV) : cnt e [] = 0 := rfl
theorem cnt_cons (e x : JV) (l : List JV) :
    cnt e (x :: l) = cnt e l + (if same e x = true then 1 else 0) := by
  simp [cnt, List.countP_cons]

theorem same_congr_right {x y : JV} (h : same x y = true) (e : JV) : same e y = same e x := by
  simp only [same, beq_iff_eq] at h; simp [same, h]

/-- a successful `removeFirst x` removes exactly one element identical to `x` -/
theorem cnt_removeFirst_some (x e : JV) (ys ys' : List JV) (h : removeFirst x ys = some ys') :
    cnt e ys = cnt e ys' + (if same e x = true then 1 else 0) := by
  induction ys generalizing ys' with
  | nil => simp [removeFirst] at h
  | cons y ys ih =>
    simp only [removeFirst] at h
    by_cases hs : same x y = true
    · simp only [hs, if_true, Option.some.injEq] at h
      subst h
      rw [cnt_cons, same_congr_right hs e]
    · simp only [hs, Bool.false_eq_true, if_false] at h
      cases hr : removeFirst x ys with
      | none => simp [hr] at h
      | some zs =>
        simp only [hr, Option.map_some, Option.some.injEq] at h
        subst h
        rw [cnt_cons, cnt_cons, ih zs hr]; omega

/-- `removeFirst x` fails only when nothing identical to `x` is left -/
theorem cnt_removeFirst_none (x e : JV) (ys : List JV) (h : removeFirst x ys = none)
    (he : same e x = true) : cnt e ys = 0 := by
  induction ys with
  | nil => rfl
  | cons y ys ih =>
    simp only [removeFirst] at h
    by_cases hs : same x y = true
    · simp [hs] at h
    · simp only [hs, Bool.false_eq_true, if_false, Option.map_eq_none_iff] at h
      have hey : same e y = false := by
        cases hh : same e y with
        | false => rfl
        | true =>
          have : same x e = true := by rw [same_symm]; exact he
          exact absurd (same_trans this hh) hs
      rw [cnt_cons, ih h, hey]; simp

/-- intersection: each `e` occurs min(count in xs, count in ys) times -/
theorem cnt_inter (e : JV) (xs ys : List JV) :
    cnt e (interExcept true xs ys) = min (cnt e xs) (cnt e ys) := by
  induction xs generalizing ys with
  | nil => simp [interExcept, cnt_nil]
  | cons x xs ih =>
    simp only [interExcept]
    cases h : removeFirst x ys with
    | some ys' =>
      simp only [if_true]
      rw [cnt_cons, cnt_cons, ih ys', cnt_removeFirst_some x e ys ys' h]; omega
    | none =>
      simp only [if_true]
      rw [cnt_cons, ih ys]
      by_cases he : same e x = true
      · rw [cnt_removeFirst_none x e ys h he]; omega
      · simp only [he, Bool.false_eq_true, if_false]; omega

/-- except: the remaining occurrences -/
theorem cnt_except (e : JV) (xs ys : List JV) :
    cnt e (interExcept false xs ys) = cnt e xs - min (cnt e xs) (cnt e ys) := by
  induction xs generalizing ys with
  | nil => simp [interExcept, cnt_nil]
  | cons x xs ih =>
    simp only [interExcept]
    cases h : removeFirst x ys with
    | some ys' =>
      simp only [Bool.false_eq_true, if_false]
      rw [cnt_cons, ih ys', cnt_removeFirst_some x e ys ys' h]; omega
    | none =>
      simp only [Bool.false_eq_true, if_false]
      rw [cnt_cons, cnt_cons, ih ys]
      by_cases he : same e x = true
      · rw [cnt_removeFirst_none x e ys h he]; omega
      · simp only [he, Bool.false_eq_true, if_false]; omega

/-- both results keep the order of the first list -/
theorem interExcept_sublist (keep : Bool) (xs ys : List JV) : (interExcept keep xs ys).Sublist xs := by
  rw [interExcept_eq_pick]; exact pick_sublist keep xs _

/-- together they account for every occurrence in the first list -/
theorem cnt_inter_add_except (e : JV) (xs ys : List JV) :
    cnt e (interExcept true xs ys) + cnt e (interExcept false xs ys) = cnt e xs := by
  rw [cnt_inter, cnt_except]; omega

/-- C13 count formula, at the level of the JSON values -/
theorem C13_counts (a b e : JV) :
    cnt e (elems (arrayIntersection a b)) = min (cnt e (elems a)) (cnt e (elems b)) ∧
    cnt e (elems (arrayExcept a b)) = cnt e (elems a) - min (cnt e (elems a)) (cnt e (elems b)) ∧
    (elems (arrayIntersection a b)).Sublist (elems a) ∧
    (elems (arrayExcept a b)).Sublist (elems a) :=
  ⟨cnt_inter e _ _, cnt_except e _ _, interExcept_sublist true _ _, interExcept_sublist false _ _⟩

end Jsonb.Spec

