/-
C10 (strings): every string and every object key in a value returned by the stream decoder
model is well-formed UTF-8, for any bytes and any fuel.
-/
import JsonbModel.De

namespace Jsonb
open JV

mutual
/-- every `str` payload and every object key of the tree is well-formed UTF-8 -/
def allUtf8 : JV → Bool
  | .null => true
  | .bool _ => true
  | .num _ => true
  | .str s => validUtf8 s
  | .arr vs => allUtf8L vs
  | .obj kvs => allUtf8K kvs
def allUtf8L : List JV → Bool
  | [] => true
  | v :: vs => allUtf8 v && allUtf8L vs
def allUtf8K : List (Bytes × JV) → Bool
  | [] => true
  | (k, v) :: kvs => validUtf8 k && allUtf8 v && allUtf8K kvs
end

theorem allUtf8K_insertKV (k : Bytes) (v : JV) (m : List (Bytes × JV))
    (hk : validUtf8 k = true) (hv : allUtf8 v = true) (hm : allUtf8K m = true) :
    allUtf8K (insertKV k v m) = true := by
  induction m with
  | nil => simp [insertKV, allUtf8K, hk, hv]
  | cons kv m ih =>
    obtain ⟨k', v'⟩ := kv
    simp only [allUtf8K, Bool.and_eq_true] at hm
    simp only [insertKV]
    split
    · simp [allUtf8K, hk, hv, hm.1.1, hm.1.2, hm.2]
    · simp [allUtf8K, hk, hv, hm.2]
    · simp [allUtf8K, hm.1.1, hm.1.2, ih hm.2]

theorem allUtf8K_foldl (kvs m : List (Bytes × JV))
    (hkvs : allUtf8K kvs = true) (hm : allUtf8K m = true) :
    allUtf8K (kvs.foldl (fun m kv => insertKV kv.1 kv.2 m) m) = true := by
  induction kvs generalizing m with
  | nil => simpa using hm
  | cons kv kvs ih =>
    obtain ⟨k, v⟩ := kv
    simp only [allUtf8K, Bool.and_eq_true] at hkvs
    simp only [List.foldl_cons]
    exact ih _ hkvs.2 (allUtf8K_insertKV k v m hkvs.1.1 hkvs.1.2 hm)

theorem allUtf8K_mkObj (kvs : List (Bytes × JV)) (h : allUtf8K kvs = true) :
    allUtf8K (mkObj kvs) = true :=
  allUtf8K_foldl kvs [] h rfl

theorem allUtf8L_take (n : Nat) (vs : List JV) (h : allUtf8L vs = true) :
    allUtf8L (vs.take n) = true := by
  induction vs generalizing n with
  | nil => simp [allUtf8L]
  | cons v vs ih =>
    cases n with
    | zero => simp [allUtf8L]
    | succ n =>
      simp only [allUtf8L, Bool.and_eq_true] at h
      simp [allUtf8L, h.1, ih n h.2]

/-- The four decoder functions only return trees whose strings and keys are UTF-8. -/
theorem dec_allUtf8 (fuel : Nat) :
    (∀ bs v rest, decJsonb fuel bs = .ok (v, rest) → allUtf8 v = true) ∧
    (∀ ty len bs v rest, decScalar fuel ty len bs = .ok (v, rest) → allUtf8 v = true) ∧
    (∀ es bs vs rest, decItems fuel es bs = .ok (vs, rest) → allUtf8L vs = true) ∧
    (∀ ks es bs kvs rest, decObjVals fuel ks es bs = .ok (kvs, rest) →
        allUtf8L ks = true → allUtf8K kvs = true) := by
  induction fuel with
  | zero =>
    refine ⟨?_, ?_, ?_, ?_⟩ <;> intros <;> simp_all [decJsonb, decScalar, decItems, decObjVals]
  | succ f ih =>
    obtain ⟨ihJ, ihS, ihI, ihO⟩ := ih
    refine ⟨?_, ?_, ?_, ?_⟩
    · intro bs v rest h
      simp only [decJsonb] at h
      split at h
      · simp at h
      · rename_i hd bs1 _
        split at h
        · split at h
          · simp at h
          · split at h
            · simp at h
            · exact ihS _ _ _ _ _ h
        · split at h
          · split at h
            · simp at h
            · rename_i es bs2 _
              split at h
              · rename_i vs bs3 hi
                simp only [Res.ok.injEq, Prod.mk.injEq] at h
                rw [← h.1]; simp only [allUtf8]
                exact ihI _ _ _ _ hi
              all_goals simp at h
          · split at h
            · split at h
              · simp at h
              · rename_i es bs2 _
                split at h
                · rename_i ks bs3 hk
                  have hks := ihI _ _ _ _ hk
                  split at h
                  · rename_i kvs bs4 ho
                    simp only [Res.ok.injEq, Prod.mk.injEq] at h
                    rw [← h.1]; simp only [allUtf8]
                    exact allUtf8K_mkObj _ (ihO _ _ _ _ _ ho hks)
                  all_goals simp at h
                all_goals simp at h
            · simp at h
    · intro ty len bs v rest h
      simp only [decScalar] at h
      repeat' split at h
      all_goals first
        | (simp at h; done)
        | exact ihJ _ _ _ h
        | (simp only [Res.ok.injEq, Prod.mk.injEq] at h; rw [← h.1]; simp_all [allUtf8]; done)
    · intro es bs vs rest h
      cases es with
      | nil =>
        simp only [decItems, Res.ok.injEq, Prod.mk.injEq] at h
        rw [← h.1]; rfl
      | cons e es =>
        obtain ⟨ty, len⟩ := e
        simp only [decItems] at h
        split at h
        · rename_i v bs1 hs
          split at h
          · rename_i vs' bs2 hi
            simp only [Res.ok.injEq, Prod.mk.injEq] at h
            rw [← h.1]
            simp [allUtf8L, ihS _ _ _ _ _ hs, ihI _ _ _ _ hi]
          all_goals simp at h
        all_goals simp at h
    · intro ks es bs kvs rest h hks
      cases ks with
      | nil =>
        simp only [decObjVals, Res.ok.injEq, Prod.mk.injEq] at h
        rw [← h.1]; rfl
      | cons k ks =>
        cases es with
        | nil => simp [decObjVals] at h
        | cons e es =>
          obtain ⟨ty, len⟩ := e
          simp only [decObjVals] at h
          simp only [allUtf8L, Bool.and_eq_true] at hks
          split at h
          · rename_i s
            split at h
            · rename_i v bs1 hs
              split at h
              · rename_i kvs' bs2 ho
                simp only [Res.ok.injEq, Prod.mk.injEq] at h
                rw [← h.1]
                have hk : validUtf8 s = true := by simpa [allUtf8] using hks.1
                simp [allUtf8K, hk, ihS _ _ _ _ _ hs, ihO _ _ _ _ _ ho hks.2]
              all_goals simp at h
            all_goals simp at h
          · simp at h

/-- **Returned strings are UTF-8**, stream decoder, any bytes, any fuel. -/
theorem decJsonb_allUtf8 (fuel : Nat) (bs : Bytes) (v : JV) (rest : Bytes)
    (h : decJsonb fuel bs = .ok (v, rest)) : allUtf8 v = true :=
  (dec_allUtf8 fuel).1 bs v rest h

/-- **Returned strings are UTF-8**, `parse_jsonb`. -/
theorem parseJsonb_allUtf8 (bs : Bytes) (v : JV) (h : parseJsonb bs = .ok v) :
    allUtf8 v = true := by
  unfold parseJsonb at h
  split at h
  · simp at h
  · split at h
    · rename_i w rest hd
      simp only [Res.ok.injEq] at h
      rw [← h]; exact decJsonb_allUtf8 _ _ _ _ hd
    all_goals simp at h

end Jsonb
