/-
Agreement theorems, phase 6d, part 3 (property C16): the key-path grammar of keypath.rs translated from source
(`key_path`, `key_paths`, `parse_key_paths`) EQUALS the model (`PathParser.keyPath`, `keyPaths`, `parseKeyPaths`).
-/
import JsonbModel.Proofs.TranslatedAgreeJ2
import JsonbModel.Proofs.PathFuel

set_option linter.unusedSimpArgs false
set_option linter.unusedVariables false

namespace Jsonb.TrAgree
open Jsonb.Nom Jsonb.PathParser

/-! ## Representation maps of the payload types of earlier phases (own copies, so that this root does not depend on
the agreement proofs of phases 1 / 5a; `TranslatedAgreeJ9.lean` shows them equal to `ofKP`, `ofIndex`, `ofNum`) -/

/-- the model's key-path item ↦ the translated `enum KeyPath` -/
def ofKeyPath : KeyPath → Tr.KeyPath
  | .index i => .Index i
  | .quoted s => .QuotedName s
  | .name s => .Name s

/-- model `Index` ↦ translated `jsonpath::Index` -/
def ofIdx : Jsonb.Index → Tr.Index
  | .index n => .Index n
  | .last n => .LastIndex n

/-- model `Num` ↦ translated `Number` (payloads as Rust integer values / `f64` bit patterns) -/
def ofNumber : Num → Tr.Number
  | .int i => .Int64 i
  | .uint n => .UInt64 (n : Int)
  | .float b => .Float64 b

variable {L : Nat}

theorem agr_string (ps : Bytes → Int → Int → Res (Bytes × Int)) (hps : PSpec ps) (hL : L ≤ 9223372036854775808) :
    Agr L id PathParser.string (Rs.parserOf (Tr.string ps)) :=
  agr_parserOf _ (fun i hi => string_agrees ps hps i (by omega))

theorem agr_raw_string (ps : Bytes → Int → Int → Res (Bytes × Int)) (hps : PSpec ps) (hL : L ≤ 9223372036854775808) :
    Agr L id PathParser.rawString (Rs.parserOf (Tr.raw_string ps)) :=
  agr_parserOf _ (fun i hi => raw_string_agrees ps hps i (by omega))

theorem agr_ws : Agr L id ws Nom.multispace0 := agr_refl _
theorem agr_char (c : UInt8) : Agr L id (char c) (char c) := agr_refl _

theorem key_path_agr (ps : Bytes → Int → Int → Res (Bytes × Int)) (hps : PSpec ps) (hL : L ≤ 9223372036854775808) :
    Agr L ofKeyPath keyPath (Tr.key_path ps) := by
  unfold keyPath
  refine agr_congr rfl (by funext i; rfl) (agr_alt (agr_map (agr_refl i32) (fun a => rfl))
    (agr_alt (agr_map (agr_string ps hps hL) (fun a => rfl)) (agr_map (agr_raw_string ps hps hL) (fun a => rfl))))

theorem key_paths_agr (ps : Bytes → Int → Int → Res (Bytes × Int)) (hps : PSpec ps) (hL : L ≤ 9223372036854775808) :
    Agr L (List.map ofKeyPath) keyPaths (Tr.key_paths ps) := by
  unfold keyPaths
  refine agr_congr rfl (by funext i; rfl) (agr_alt
    (agr_delimited (agr_preceded agr_ws fine_ws (agr_char _)) (fine_preceded fine_ws (fine_char _))
      (agr_separatedList1 (agr_char _) (fine_char _)
        (agr_delimited agr_ws fine_ws (key_path_agr ps hps hL) fine_keyPath agr_ws) (fine_delimited fine_ws fine_keyPath fine_ws))
      (fine_separatedList1 (fine_char _) (fine_delimited fine_ws fine_keyPath fine_ws))
      (agr_terminated (agr_char _) (fine_char _) agr_ws))
    (agr_map (agr_delimited (agr_preceded agr_ws fine_ws (agr_char _)) (fine_preceded fine_ws (fine_char _)) agr_ws fine_ws
      (agr_terminated (agr_char _) (fine_char _) agr_ws)) (fun a => rfl)))

/-- the translated key paths of a model answer -/
def ofKeyPaths (l : List KeyPath) : Tr.KeyPaths := ⟨l.map ofKeyPath⟩

/-- **`parse_key_paths`** (C16): for every input shorter than 2^63 bytes and every callee `parse_string__` that answers
like the model's, the translated function computes the model's `parseKeyPaths` -/
theorem parse_key_paths_agrees (ps : Bytes → Int → Int → Res (Bytes × Int)) (hps : PSpec ps) (bs : Bytes)
    (hlen : bs.length < 9223372036854775808) :
    Tr.parse_key_paths ps bs = (parseKeyPaths bs).map ofKeyPaths := by
  unfold Tr.parse_key_paths parseKeyPaths
  rw [key_paths_agr ps hps (L := bs.length + 1) (by omega) bs (by omega)]
  cases keyPaths bs with
  | ok a r =>
    cases r with
    | nil => rfl
    | cons b r => rfl
  | error => rfl
  | failure => rfl
  | panic s => rfl
  | fuel => rfl

/-- `parse_key_paths` with the model's `parse_string` as callee -/
theorem parse_key_paths_model (bs : Bytes) (hlen : bs.length < 9223372036854775808) :
    Tr.parse_key_paths psModel bs = (parseKeyPaths bs).map ofKeyPaths :=
  parse_key_paths_agrees psModel pspec_model bs hlen

end Jsonb.TrAgree
