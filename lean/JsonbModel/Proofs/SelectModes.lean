/-
C15 / C17 on the selector model: the writers only append (frame property), and the four result
modes, `exists` and `predicate_match` are mutually consistent because they share one
`find_positions`.
-/
import JsonbModel.Selector

namespace Jsonb.Sel

/-- **frame property of `build_values`**: prior data and offsets are kept, the appended part
is what is written into empty buffers, offsets shifted by the prior length -/
theorem buildValues_frame (root : Bytes) (ps : List Pos) (data : Bytes) (offs : List Nat) :
    buildValues root ps data offs
      = (buildValues root ps [] []).map (fun r => (data ++ r.1, offs ++ r.2.map (· + data.length))) := by
  induction ps generalizing data offs with
  | nil => simp [buildValues, Res.map, Res.bind]
  | cons p ps ih =>
    cases p with
    | container off len =>
      simp only [buildValues]
      cases hs : slice root off (off + len) with
      | ok q =>
        simp only [List.nil_append]
        rw [ih (data ++ q) (offs ++ [(data ++ q).length]), ih q [q.length]]
        cases buildValues root ps [] [] with
        | ok r => simp [Res.map, Res.bind, List.append_assoc]; exact ⟨by omega, fun a _ => by omega⟩
        | err e => rfl
        | panic s => rfl
        | fuel => rfl
      | err e => rfl
      | panic s => rfl
      | fuel => rfl
    | scalar ty off len =>
      simp only [buildValues]
      split
      · cases hs : slice root off (off + len) with
        | ok q =>
          simp only [List.nil_append]
          rw [ih (data ++ _) (offs ++ [_]), ih (_ ++ q) [_]]
          cases buildValues root ps [] [] with
          | ok r => simp [Res.map, Res.bind, List.append_assoc]; exact ⟨by omega, fun a _ => by omega⟩
          | err e => rfl
          | panic s => rfl
          | fuel => rfl
        | err e => rfl
        | panic s => rfl
        | fuel => rfl
      · simp only [List.nil_append]
        rw [ih (data ++ _) (offs ++ [_]), ih _ [_]]
        cases buildValues root ps [] [] with
        | ok r => simp [Res.map, Res.bind, List.append_assoc]; exact ⟨by omega, fun a _ => by omega⟩
        | err e => rfl
        | panic s => rfl
        | fuel => rfl

/-- one offset per item; the last offset is the end of the data: offsets delimit the items -/
theorem buildValues_offsets (root : Bytes) (ps : List Pos) (d : Bytes) (o : List Nat)
    (h : buildValues root ps [] [] = .ok (d, o)) :
    o.length = ps.length ∧ (∀ x ∈ o, x ≤ d.length) ∧ (ps ≠ [] → o.getLast? = some d.length) := by
  induction ps generalizing d o with
  | nil => simp [buildValues] at h; obtain ⟨rfl, rfl⟩ := h; simp
  | cons p ps ih =>
    have step : ∀ (item : Bytes), buildValues root ps item [item.length] = .ok (d, o) →
        o.length = (p :: ps).length ∧ (∀ x ∈ o, x ≤ d.length) ∧ (p :: ps ≠ [] → o.getLast? = some d.length) := by
      intro item hb
      rw [buildValues_frame] at hb
      cases hr : buildValues root ps [] [] with
      | ok r =>
        obtain ⟨d', o'⟩ := r
        simp only [hr, Res.map, Res.bind, Res.ok.injEq, Prod.mk.injEq] at hb
        obtain ⟨rfl, rfl⟩ := hb
        have ⟨h1, h2, h3⟩ := ih d' o' hr
        refine ⟨by simp [h1], ?_, ?_⟩
        · intro x hx
          simp only [List.mem_append, List.mem_singleton, List.mem_map] at hx
          rcases hx with rfl | ⟨y, hy, rfl⟩
          · simp
          · have := h2 y hy; simp; omega
        · intro _
          by_cases hps : ps = []
          · subst hps; simp [buildValues] at hr; obtain ⟨rfl, rfl⟩ := hr; simp
          · have := h3 hps
            have hne : o' ≠ [] := by intro e; subst e; simp at this
            rw [List.getLast?_append, List.getLast?_map, this]
            simp [Nat.add_comm]
      | err e => simp [hr, Res.map, Res.bind] at hb
      | panic s => simp [hr, Res.map, Res.bind] at hb
      | fuel => simp [hr, Res.map, Res.bind] at hb
    cases p with
    | container off len =>
      simp only [buildValues] at h
      cases hs : slice root off (off + len) with
      | ok q => simp only [hs, List.nil_append] at h; exact step q h
      | err e => simp [hs] at h
      | panic s => simp [hs] at h
      | fuel => simp [hs] at h
    | scalar ty off len =>
      simp only [buildValues] at h
      split at h
      · cases hs : slice root off (off + len) with
        | ok q => simp only [hs, List.nil_append] at h; exact step _ h
        | err e => simp [hs] at h
        | panic s => simp [hs] at h
        | fuel => simp [hs] at h
      · simp only [List.nil_append] at h; exact step _ h

/-- first-mode is the first item of all-mode (or nothing) -/
theorem first_is_take_one (jp : JsonPath) (root data : Bytes) (offs : List Nat) (fuel : Nat) (ps : List Pos)
    (hp : findPositions fuel root none jp = .ok ps) (hnp : isPredicate jp = false) :
    select jp .first root data offs fuel = buildValues root (ps.take 1) data offs ∧
    select jp .all root data offs fuel = buildValues root ps data offs := by
  simp [select, hp, hnp]

/-- mixed-mode equals array-mode when there are two or more items and all-mode otherwise -/
theorem mixed_rule (jp : JsonPath) (root data : Bytes) (offs : List Nat) (fuel : Nat) (ps : List Pos)
    (hp : findPositions fuel root none jp = .ok ps) (hnp : isPredicate jp = false) :
    select jp .mixed root data offs fuel
      = if ps.length > 1 then select jp .array root data offs fuel else select jp .all root data offs fuel := by
  simp only [select, hp, hnp, Bool.false_eq_true, if_false]

/-- existence is true exactly when all-mode returns something -/
theorem exists_iff_all_nonempty (jp : JsonPath) (root : Bytes) (fuel : Nat) (ps : List Pos) (d : Bytes) (o : List Nat)
    (hp : findPositions fuel root none jp = .ok ps) (hnp : isPredicate jp = false)
    (ha : select jp .all root [] [] fuel = .ok (d, o)) :
    exists_ jp root fuel = .ok (!o.isEmpty) := by
  simp only [select, hp, hnp] at ha
  have := (buildValues_offsets root ps d o ha).1
  simp only [exists_, hnp, hp, Res.map, Res.bind]
  congr 1
  cases ps <;> cases o <;> simp_all

/-- for a predicate path every mode returns the single boolean that `predicate_match` reports,
no offset is pushed, and existence is true -/
theorem predicate_all_modes (jp : JsonPath) (root data : Bytes) (offs : List Nat) (fuel : Nat) (ps : List Pos)
    (hp : findPositions fuel root none jp = .ok ps) (hpred : isPredicate jp = true) (m : Mode) :
    select jp m root data offs fuel
      = .ok (data ++ (u32be C.SCALAR_CONTAINER_TAG ++ u32be (if ps.isEmpty then C.FALSE_TAG else C.TRUE_TAG)), offs) ∧
    predicateMatch jp root fuel = .ok (!ps.isEmpty) ∧ exists_ jp root fuel = .ok true := by
  simp [select, predicateMatch, exists_, hp, hpred, Res.map, Res.bind]

/-- selection writers only append: frame property of `select` in the item modes -/
theorem select_all_frame (jp : JsonPath) (root data : Bytes) (offs : List Nat) (fuel : Nat)
    (hnp : isPredicate jp = false) :
    select jp .all root data offs fuel
      = (select jp .all root [] [] fuel).map (fun r => (data ++ r.1, offs ++ r.2.map (· + data.length))) := by
  simp only [select, hnp]
  cases findPositions fuel root none jp with
  | ok ps => simp only [Bool.false_eq_true, if_false]; exact buildValues_frame root ps data offs
  | err e => rfl
  | panic s => rfl
  | fuel => rfl

end Jsonb.Sel
