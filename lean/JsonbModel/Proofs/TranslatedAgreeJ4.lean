/-
Agreement theorems, phase 6d, part 4 (property C09): the representation maps from the model's JSONPath syntax trees
(`PathAst.lean`) to the translated `enum`s of jsonpath/path.rs, and the non-recursive part of the grammar of
jsonpath/parser.rs (`bracket_wildcard` … `inner_expr`) translated from source EQUAL the model (`PathParser.*`).
-/
import JsonbModel.Proofs.TranslatedAgreeJ3

set_option linter.unusedSimpArgs false
set_option linter.unusedVariables false

namespace Jsonb.TrAgree
open Jsonb.Nom Jsonb.PathParser

/-! ## Representation maps -/

def ofArrayIndex : ArrayIndex → Tr.ArrayIndex
  | .index i => .Index (ofIdx i)
  | .slice s e => .Slice (ofIdx s, ofIdx e)

def ofPathValue : PathValue → Tr.PathValue
  | .null => .Null
  | .bool b => .Boolean b
  | .num n => .Number (ofNumber n)
  | .str s => .String s

def ofBinOp : BinOp → Tr.BinaryOperator
  | .and => .And | .or => .Or | .eq => .Eq | .ne => .NotEq | .lt => .Lt | .le => .Lte | .gt => .Gt | .ge => .Gte

def ofUnOp : UnOp → Tr.UnaryArithmeticOperator
  | .add => .Add | .sub => .Subtract

def ofArithOp : ArithOp → Tr.BinaryArithmeticOperator
  | .add => .Add | .sub => .Subtract | .mul => .Multiply | .div => .Divide | .mod => .Modulus

mutual
def ofPath : Path → Tr.Path
  | .root => .Root
  | .current => .Current
  | .dotWildcard => .DotWildcard
  | .bracketWildcard => .BracketWildcard
  | .dotField s => .DotField s
  | .colonField s => .ColonField s
  | .objectField s => .ObjectField s
  | .arrayIndices is => .ArrayIndices (is.map ofArrayIndex)
  | .arithmeticExpr e => .ArithmeticExpr (ofExpr e)
  | .filterExpr e => .FilterExpr (ofExpr e)
  | .predicate e => .Predicate (ofExpr e)
def ofExpr : Expr → Tr.Expr
  | .paths ps => .Paths (ofPaths ps)
  | .value v => .Value (ofPathValue v)
  | .binaryOp o l r => .BinaryOp (ofBinOp o) (ofExpr l) (ofExpr r)
  | .arithUnary o e => .ArithmeticFunc (.Unary (ofUnOp o) (ofExpr e))
  | .arithBinary o l r => .ArithmeticFunc (.Binary (ofArithOp o) (ofExpr l) (ofExpr r))
  | .existsFn ps => .FilterFunc (.Exists (ofPaths ps))
def ofPaths : List Path → List Tr.Path
  | [] => []
  | p :: ps => ofPath p :: ofPaths ps
end

theorem ofPaths_eq_map (ps : List Path) : ofPaths ps = ps.map ofPath := by
  induction ps with
  | nil => rfl
  | cons p ps ih => simp [ofPaths, ih]

def ofJsonPath (jp : JsonPath) : Tr.JsonPath := ⟨jp.map ofPath⟩

/-! ## literals -/

theorem lit_last : Rs.strLit "last" = kwLast := pp_strLit_bytes _ _ (by decide)
theorem lit_to : Rs.strLit "to" = kwTo := pp_strLit_bytes _ _ (by decide)
theorem lit_null : Rs.strLit "null" = kwNull := pp_strLit_bytes _ _ (by decide)
theorem lit_true : Rs.strLit "true" = kwTrue := pp_strLit_bytes _ _ (by decide)
theorem lit_false : Rs.strLit "false" = kwFalse := pp_strLit_bytes _ _ (by decide)
theorem lit_exists : Rs.strLit "exists" = kwExists := pp_strLit_bytes _ _ (by decide)
theorem lit_dotstar : Rs.strLit ".*" = [46, 42] := pp_strLit_bytes _ _ (by decide)
theorem lit_eqeq : Rs.strLit "==" = [61, 61] := pp_strLit_bytes _ _ (by decide)
theorem lit_ne : Rs.strLit "!=" = [33, 61] := pp_strLit_bytes _ _ (by decide)
theorem lit_ltgt : Rs.strLit "<>" = [60, 62] := pp_strLit_bytes _ _ (by decide)
theorem lit_le : Rs.strLit "<=" = [60, 61] := pp_strLit_bytes _ _ (by decide)
theorem lit_ge : Rs.strLit ">=" = [62, 61] := pp_strLit_bytes _ _ (by decide)
theorem lit_andand : Rs.strLit "&&" = [38, 38] := pp_strLit_bytes _ _ (by decide)
theorem lit_oror : Rs.strLit "||" = [124, 124] := pp_strLit_bytes _ _ (by decide)
theorem lit_dotE : Rs.strLit ".eE" = [46, 101, 69] := pp_strLit_bytes _ _ (by decide)

variable {L : Nat}

/-! ## the grammar, bottom-up -/

theorem bracket_wildcard_agr : Agr L id bracketWildcard Tr.bracket_wildcard :=
  agr_congr rfl (by funext i; rfl) (agr_refl _)

theorem colon_field_agr (ps : Bytes → Int → Int → Res (Bytes × Int)) (hps : PSpec ps) (hL : L ≤ 9223372036854775808) :
    Agr L id colonField (Tr.colon_field ps) := by
  unfold colonField
  exact agr_congr rfl (by funext i; rfl) (agr_alt (agr_preceded (agr_char _) (fine_char _) (agr_string ps hps hL))
    (agr_preceded (agr_char _) (fine_char _) (agr_raw_string ps hps hL)))

theorem dot_field_agr (ps : Bytes → Int → Int → Res (Bytes × Int)) (hps : PSpec ps) (hL : L ≤ 9223372036854775808) :
    Agr L id dotField (Tr.dot_field ps) := by
  unfold dotField
  exact agr_congr rfl (by funext i; rfl) (agr_alt (agr_preceded (agr_char _) (fine_char _) (agr_string ps hps hL))
    (agr_preceded (agr_char _) (fine_char _) (agr_raw_string ps hps hL)))

theorem object_field_agr (ps : Bytes → Int → Int → Res (Bytes × Int)) (hps : PSpec ps) (hL : L ≤ 9223372036854775808) :
    Agr L id objectField (Tr.object_field ps) := by
  unfold objectField
  exact agr_congr rfl (by funext i; rfl) (agr_delimited (agr_terminated (agr_char _) (fine_char _) agr_ws)
    (fine_terminated (fine_char _) fine_ws) (agr_string ps hps hL) fine_string (agr_preceded agr_ws fine_ws (agr_char _)))

/-- the closure of the `last - n` alternative: exact integer semantics of `saturating_neg`, `clamp`, `as i32` -/
theorem last_minus_closure (v : Int) :
    Tr.Index.LastIndex (Rs.cast .i32 (Rs.clamp (Rs.saturatingNeg .i64 v) (-2147483648) 2147483647)) = ofIdx (lastMinus v) := by
  unfold lastMinus ofIdx
  congr 1
  have hc : ∀ x : Int, -2147483648 ≤ x → x ≤ 2147483647 → Rs.cast .i32 x = x := fun x h1 h2 =>
    Rs.cast_of_inRange _ _ (by rw [Rs.inRange_iff]; simp; omega)
  unfold Rs.clamp Rs.saturatingNeg clampI32 saturatingNeg64
  simp only [Rs.maxVal_i64]
  split <;> split <;> split <;> (try split) <;> (try split) <;> first | (rw [hc _ (by omega) (by omega)]; done) | omega | (rw [hc _ (by omega) (by omega)]; omega)

theorem index_agr : Agr L ofIdx index Tr.index := by
  unfold index
  unfold Tr.index
  simp only [lit_last]
  exact agr_alt (agr_map (agr_refl i32) (fun a => rfl))
    (agr_alt (agr_map (agr_refl _) (fun a => last_minus_closure a))
      (agr_alt (agr_map (agr_refl _) (fun a => rfl)) (agr_map (agr_refl _) (fun a => rfl))))

theorem array_index_agr : Agr L ofArrayIndex arrayIndex Tr.array_index := by
  unfold arrayIndex
  unfold Tr.array_index
  simp only [lit_to]
  exact agr_alt (agr_map (agr_separatedPair index_agr fine_index (agr_refl _) (fine_delimited fine_ws (fine_tagNoCase _) fine_ws) index_agr)
      (fun a => rfl))
    (agr_map index_agr (fun a => rfl))

theorem array_indices_agr : Agr L (List.map ofArrayIndex) arrayIndices Tr.array_indices := by
  unfold arrayIndices
  exact agr_congr rfl (by funext i; rfl) (agr_delimited (agr_char _) (fine_char _)
    (agr_separatedList1 (agr_char _) (fine_char _) (agr_delimited agr_ws fine_ws array_index_agr fine_arrayIndex agr_ws)
      (fine_delimited fine_ws fine_arrayIndex fine_ws))
    (fine_separatedList1 (fine_char _) (fine_delimited fine_ws fine_arrayIndex fine_ws)) (agr_char _))

theorem inner_path_agr (ps : Bytes → Int → Int → Res (Bytes × Int)) (hps : PSpec ps) (hL : L ≤ 9223372036854775808) :
    Agr L ofPath innerPath (Tr.inner_path ps) := by
  unfold innerPath
  unfold Tr.inner_path
  simp only [lit_dotstar]
  exact agr_alt (agr_value (k := ofPath) Path.dotWildcard (agr_refl _))
    (agr_alt (agr_value (k := ofPath) Path.bracketWildcard bracket_wildcard_agr)
      (agr_alt (agr_map (colon_field_agr ps hps hL) (fun a => rfl))
        (agr_alt (agr_map (dot_field_agr ps hps hL) (fun a => rfl))
          (agr_alt (agr_map array_indices_agr (fun a => rfl)) (agr_map (object_field_agr ps hps hL) (fun a => rfl))))))

theorem pre_path_agr (ps : Bytes → Int → Int → Res (Bytes × Int)) (hps : PSpec ps) (hL : L ≤ 9223372036854775808) :
    Agr L ofPath prePath (Tr.pre_path ps) := by
  unfold prePath
  exact agr_congr rfl (by funext i; rfl) (agr_alt (agr_value (k := ofPath) Path.root (agr_char _))
    (agr_map (agr_delimited agr_ws fine_ws (agr_raw_string ps hps hL) fine_rawString agr_ws) (fun a => rfl)))

theorem expr_paths_agr (ps : Bytes → Int → Int → Res (Bytes × Int)) (hps : PSpec ps) (hL : L ≤ 9223372036854775808)
    (rp : Bool) : Agr L (List.map ofPath) (exprPaths rp) (fun i => Tr.expr_paths ps i rp) := by
  unfold exprPaths
  dsimp only [Tr.expr_paths]
  exact agr_mapTry_pure (h := Prod.map ofPath (List.map ofPath))
    (agr_pair (agr_alt (agr_value (k := ofPath) Path.root (agr_char _))
        (agr_mapRes (h := Option.map ofPath) (agr_cond _ (agr_value (k := ofPath) Path.current (agr_char _))) (fun a => by cases a <;> rfl)))
      (fine_alt (fine_value _ (fine_char _)) (fine_mapRes _ (fine_cond _ (fine_value _ (fine_char _)))))
      (agr_many0 (agr_delimited agr_ws fine_ws (inner_path_agr ps hps hL) fine_innerPath agr_ws)
        (fine_delimited fine_ws fine_innerPath fine_ws)))
    (fun a => rfl)

theorem op_agr : Agr L ofBinOp op Tr.op := by
  unfold op
  unfold Tr.op
  simp only [lit_eqeq, lit_ne, lit_ltgt, lit_le, lit_ge]
  exact agr_alt (agr_value (k := ofBinOp) BinOp.eq (agr_refl _)) (agr_alt (agr_value (k := ofBinOp) BinOp.ne (agr_refl _))
    (agr_alt (agr_value (k := ofBinOp) BinOp.ne (agr_refl _)) (agr_alt (agr_value (k := ofBinOp) BinOp.le (agr_refl _))
      (agr_alt (agr_value (k := ofBinOp) BinOp.lt (agr_refl _)) (agr_alt (agr_value (k := ofBinOp) BinOp.ge (agr_refl _))
        (agr_value (k := ofBinOp) BinOp.gt (agr_refl _)))))))

theorem unary_arith_op_agr : Agr L ofUnOp unaryArithOp Tr.unary_arith_op := by
  unfold unaryArithOp
  exact agr_congr rfl (by funext i; rfl) (agr_alt (agr_value (k := ofUnOp) UnOp.add (agr_refl _))
    (agr_value (k := ofUnOp) UnOp.sub (agr_refl _)))

theorem binary_arith_op_agr : Agr L ofArithOp binaryArithOp Tr.binary_arith_op := by
  unfold binaryArithOp
  exact agr_congr rfl (by funext i; rfl) (agr_alt (agr_value (k := ofArithOp) ArithOp.add (agr_refl _))
    (agr_alt (agr_value (k := ofArithOp) ArithOp.sub (agr_refl _)) (agr_alt (agr_value (k := ofArithOp) ArithOp.mul (agr_refl _))
      (agr_alt (agr_value (k := ofArithOp) ArithOp.div (agr_refl _)) (agr_value (k := ofArithOp) ArithOp.mod (agr_refl _))))))

theorem path_value_agr (ps : Bytes → Int → Int → Res (Bytes × Int)) (hps : PSpec ps) (hL : L ≤ 9223372036854775808) :
    Agr L ofPathValue pathValue (Tr.path_value ps) := by
  unfold pathValue dotOrE
  unfold Tr.path_value
  simp only [lit_null, lit_true, lit_false, lit_dotE]
  exact agr_alt (agr_value (k := ofPathValue) PathValue.null (agr_refl _))
    (agr_alt (agr_value (k := ofPathValue) (PathValue.bool true) (agr_refl _))
      (agr_alt (agr_value (k := ofPathValue) (PathValue.bool false) (agr_refl _))
        (agr_alt (agr_map (agr_terminated agr_nomU64 fine_u64 (agr_refl _)) (fun a => rfl))
          (agr_alt (agr_map (agr_terminated (agr_refl i64) fine_i64 (agr_refl _)) (fun a => rfl))
            (agr_alt (agr_map (agr_refl double) (fun a => rfl)) (agr_map (agr_string ps hps hL) (fun a => rfl)))))))

theorem inner_expr_agr (ps : Bytes → Int → Int → Res (Bytes × Int)) (hps : PSpec ps) (hL : L ≤ 9223372036854775808)
    (rp : Bool) : Agr L ofExpr (innerExpr rp) (fun i => Tr.inner_expr ps i rp) := by
  unfold innerExpr
  exact agr_congr rfl (by funext i; rfl) (agr_alt (agr_map (expr_paths_agr ps hps hL rp) (fun a => by simp [ofExpr, ofPaths_eq_map]))
    (agr_map (path_value_agr ps hps hL) (fun a => rfl)))

end Jsonb.TrAgree
