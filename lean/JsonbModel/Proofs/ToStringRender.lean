/-
C-text, part C (tree level): the canonical compact rendering `render fmt v` of a tree and the
strict parser.  `Strict.value` reads `render fmt v` back as `reparse v` (= `v` with non-negative
`Int64` stored as `UInt64`), which is `valEq` to `v` and identical to `v` when `allUnsigned v`.
-/
import JsonbModel.Proofs.ToStringEscape
import JsonbModel.Proofs.ToStringNumbers
import JsonbModel.Proofs.Codec
import JsonbModel.Spec.Order
import JsonbModel.Driver.TextOps

namespace Jsonb
open Fn Strict JV

/-! ### the rendering of a tree -/

def quote (s : Bytes) : Bytes := 0x22 :: (escapeBytes s ++ [0x22])

mutual
/-- compact JSON text of a tree (what `to_string` must print) -/
def render (fmt : Nat → Bytes) : JV → Bytes
  | .null => [0x6E, 0x75, 0x6C, 0x6C]
  | .bool true => [0x74, 0x72, 0x75, 0x65]
  | .bool false => [0x66, 0x61, 0x6C, 0x73, 0x65]
  | .num n => numToString fmt n
  | .str s => quote s
  | .arr vs => 0x5B :: (renderL fmt vs ++ [0x5D])
  | .obj kvs => 0x7B :: (renderK fmt kvs ++ [0x7D])
/-- elements separated by `,` -/
def renderL (fmt : Nat → Bytes) : List JV → Bytes
  | [] => []
  | [v] => render fmt v
  | v :: v' :: vs => render fmt v ++ 0x2C :: renderL fmt (v' :: vs)
/-- members `"k":v` separated by `,` -/
def renderK (fmt : Nat → Bytes) : List (Bytes × JV) → Bytes
  | [] => []
  | [(k, v)] => quote k ++ 0x3A :: render fmt v
  | (k, v) :: kv' :: kvs => quote k ++ 0x3A :: (render fmt v ++ 0x2C :: renderK fmt (kv' :: kvs))
end

/-! ### what the strict parser returns for it -/

def reNum : Num → Num
  | .int i => if 0 ≤ i then .uint i.toNat else .int i
  | n => n

mutual
def reparse : JV → JV
  | .null => .null
  | .bool b => .bool b
  | .num n => .num (reNum n)
  | .str s => .str s
  | .arr vs => .arr (reparseL vs)
  | .obj kvs => .obj (reparseK kvs)
def reparseL : List JV → List JV
  | [] => []
  | v :: vs => reparse v :: reparseL vs
def reparseK : List (Bytes × JV) → List (Bytes × JV)
  | [] => []
  | (k, v) :: kvs => (k, reparse v) :: reparseK kvs
end

/-! ### hypothesis on the external float formatter: what `goodFmt` checks, for each float of `v` -/

def numOK (fmt : Nat → Bytes) : Num → Prop
  | .float b => F64.isNaN b = false ∧ number (fmt b) = some (.float b, [])
  | _ => True

mutual
def fmtOK (fmt : Nat → Bytes) : JV → Prop
  | .null => True
  | .bool _ => True
  | .num n => numOK fmt n
  | .str _ => True
  | .arr vs => fmtOKL fmt vs
  | .obj kvs => fmtOKK fmt kvs
def fmtOKL (fmt : Nat → Bytes) : List JV → Prop
  | [] => True
  | v :: vs => fmtOK fmt v ∧ fmtOKL fmt vs
def fmtOKK (fmt : Nat → Bytes) : List (Bytes × JV) → Prop
  | [] => True
  | (_, v) :: kvs => fmtOK fmt v ∧ fmtOKK fmt kvs
end

/-! ### fuel -/

mutual
def fv : JV → Nat
  | .arr vs => 1 + fl vs
  | .obj kvs => 1 + fk kvs
  | _ => 1
def fl : List JV → Nat
  | [] => 0
  | v :: vs => 1 + fv v + fl vs
def fk : List (Bytes × JV) → Nat
  | [] => 0
  | (_, v) :: kvs => 1 + fv v + fk kvs
end

/-! ### `reparse` is the same document -/

theorem cmpOF_self (b : Nat) : F64.cmpOF b b = .eq := by
  unfold F64.cmpOF F64.geOF F64.ge
  cases F64.isNaN b <;> simp

theorem Num.cmp_reNum (n : Num) : Num.cmp (reNum n) n = .eq := by
  cases n with
  | int i =>
    by_cases h : 0 ≤ i
    · simp [reNum, h, Num.cmp]
    · simp [reNum, h, Num.cmp]
  | uint n => simp [reNum, Num.cmp]
  | float b => simp [reNum, Num.cmp, cmpOF_self]

mutual
theorem valEq_reparse : (v : JV) → Spec.valEq (reparse v) v = true
  | .null => by simp [reparse, Spec.valEq]
  | .bool b => by simp [reparse, Spec.valEq]
  | .num n => by simp [reparse, Spec.valEq, Num.cmp_reNum]
  | .str s => by simp [reparse, Spec.valEq]
  | .arr vs => by simp only [reparse, Spec.valEq]; exact valEqL_reparse vs
  | .obj kvs => by simp only [reparse, Spec.valEq]; exact valEqK_reparse kvs
theorem valEqL_reparse : (vs : List JV) → Spec.valEqL (reparseL vs) vs = true
  | [] => by simp [reparseL, Spec.valEqL]
  | v :: vs => by simp [reparseL, Spec.valEqL, valEq_reparse v, valEqL_reparse vs]
theorem valEqK_reparse : (kvs : List (Bytes × JV)) → Spec.valEqK (reparseK kvs) kvs = true
  | [] => by simp [reparseK, Spec.valEqK]
  | (k, v) :: kvs => by simp [reparseK, Spec.valEqK, valEq_reparse v, valEqK_reparse kvs]
end

open Driver in
mutual
/-- with no non-negative `Int64` in the tree the strict parser returns the tree itself -/
theorem reparse_allUnsigned : (v : JV) → allUnsigned v = true → reparse v = v
  | .null, _ => by simp [reparse]
  | .bool b, _ => by simp [reparse]
  | .num n, h => by
    cases n with
    | int i =>
      simp only [allUnsigned, decide_eq_true_eq] at h
      simp [reparse, reNum]; omega
    | uint n => simp [reparse, reNum]
    | float b => simp [reparse, reNum]
  | .str s, _ => by simp [reparse]
  | .arr vs, h => by
    simp only [allUnsigned] at h
    simp only [reparse, reparseL_allUnsigned vs h]
  | .obj kvs, h => by
    simp only [allUnsigned] at h
    simp only [reparse, reparseK_allUnsigned kvs h]
theorem reparseL_allUnsigned : (vs : List JV) → allUnsignedL vs = true → reparseL vs = vs
  | [], _ => by simp [reparseL]
  | v :: vs, h => by
    simp only [allUnsignedL, Bool.and_eq_true] at h
    simp only [reparseL, reparse_allUnsigned v h.1, reparseL_allUnsigned vs h.2]
theorem reparseK_allUnsigned : (kvs : List (Bytes × JV)) → allUnsignedK kvs = true → reparseK kvs = kvs
  | [], _ => by simp [reparseK]
  | (k, v) :: kvs, h => by
    simp only [allUnsignedK, Bool.and_eq_true] at h
    simp only [reparseK, reparse_allUnsigned v h.1, reparseK_allUnsigned kvs h.2]
end

theorem keysSorted_reparseK (kvs : List (Bytes × JV)) : keysSorted (reparseK kvs) = keysSorted kvs := by
  induction kvs with
  | nil => rfl
  | cons kv kvs ih =>
    obtain ⟨k, v⟩ := kv
    cases kvs with
    | nil => simp [reparseK, keysSorted]
    | cons kv2 kvs2 =>
      obtain ⟨k2, v2⟩ := kv2
      simp only [reparseK, keysSorted] at ih ⊢
      rw [ih]

/-! ### first bytes -/

/-- the bytes a JSON value can start with -/
def valStart (b : UInt8) : Bool :=
  b == 0x6E || b == 0x74 || b == 0x66 || b == 0x22 || b == 0x5B || b == 0x7B || b == 0x2D || isDigit b

theorem isDigit_toNat {b : UInt8} (h : isDigit b = true) : 48 ≤ b.toNat ∧ b.toNat ≤ 57 := by
  simp only [isDigit, Bool.and_eq_true, decide_eq_true_eq, UInt8.le_iff_toNat_le] at h
  simpa using h

theorem u8_ne_of_toNat {b c : UInt8} (h : b.toNat ≠ c.toNat) : b ≠ c := fun e => h (by rw [e])

theorem isDigit_notWs {b : UInt8} (h : isDigit b = true) : isWs b = false := by
  have := isDigit_toNat h
  have a1 : b ≠ 0x20 := u8_ne_of_toNat (by simp; omega)
  have a2 : b ≠ 0x09 := u8_ne_of_toNat (by simp; omega)
  have a3 : b ≠ 0x0A := u8_ne_of_toNat (by simp; omega)
  have a4 : b ≠ 0x0D := u8_ne_of_toNat (by simp; omega)
  simp [isWs, a1, a2, a3, a4]

theorem valStart_cases {b : UInt8} (h : valStart b = true) :
    b = 0x6E ∨ b = 0x74 ∨ b = 0x66 ∨ b = 0x22 ∨ b = 0x5B ∨ b = 0x7B ∨ b = 0x2D ∨ isDigit b = true := by
  simpa [valStart, or_assoc] using h

theorem valStart_notWs {b : UInt8} (h : valStart b = true) : isWs b = false := by
  rcases valStart_cases h with h | h | h | h | h | h | h | h
  all_goals (first | (subst h; decide) | exact isDigit_notWs h)

theorem valStart_ne_close {b : UInt8} (h : valStart b = true) : b ≠ 0x5D ∧ b ≠ 0x7D := by
  rcases valStart_cases h with h | h | h | h | h | h | h | h
  all_goals (first | (subst h; decide) | skip)
  have := isDigit_toNat h
  exact ⟨u8_ne_of_toNat (by simp; omega), u8_ne_of_toNat (by simp; omega)⟩

theorem natDigits_cons (n : Nat) : ∃ b t, natDigits n = b :: t ∧ isDigit b = true := by
  cases hd : natDigits n with
  | nil => exact absurd hd (natDigits_ne_nil n)
  | cons b t => exact ⟨b, t, rfl, natDigits_all n b (by rw [hd]; simp)⟩

theorem numToString_head (fmt : Nat → Bytes) (n : Num) (h : numOK fmt n) :
    ∃ b t, numToString fmt n = b :: t ∧ (b = 0x2D ∨ isDigit b = true) := by
  cases n with
  | int i =>
    simp only [numToString, intDigits]
    split
    · exact ⟨0x2D, _, rfl, Or.inl rfl⟩
    · obtain ⟨b, t, h1, h2⟩ := natDigits_cons i.toNat
      exact ⟨b, t, h1, Or.inr h2⟩
  | uint n =>
    obtain ⟨b, t, h1, h2⟩ := natDigits_cons n
    exact ⟨b, t, h1, Or.inr h2⟩
  | float b => exact number_head _ _ _ h.2

theorem render_head (fmt : Nat → Bytes) (v : JV) (h : fmtOK fmt v) :
    ∃ b t, render fmt v = b :: t ∧ valStart b = true := by
  cases v with
  | null => exact ⟨_, _, rfl, by decide⟩
  | bool b => cases b <;> exact ⟨_, _, rfl, by decide⟩
  | num n =>
    obtain ⟨b, t, h1, h2⟩ := numToString_head fmt n (by simpa [fmtOK] using h)
    refine ⟨b, t, by simp [render, h1], ?_⟩
    cases h2 with
    | inl e => subst e; decide
    | inr e => simp [valStart, e]
  | str s => exact ⟨_, _, rfl, by decide⟩
  | arr vs => exact ⟨_, _, by simp only [render]; rfl, by decide⟩
  | obj kvs => exact ⟨_, _, by simp only [render]; rfl, by decide⟩

theorem renderL_head (fmt : Nat → Bytes) (vs : List JV) (hne : vs ≠ []) (h : fmtOKL fmt vs) :
    ∃ b t, renderL fmt vs = b :: t ∧ valStart b = true := by
  match vs, hne, h with
  | [v], _, h =>
    simp only [fmtOKL] at h
    simpa [renderL] using render_head fmt v h.1
  | v :: v' :: vs, _, h =>
    simp only [fmtOKL] at h
    obtain ⟨b, t, h1, h2⟩ := render_head fmt v h.1
    exact ⟨b, t ++ 0x2C :: renderL fmt (v' :: vs), by simp [renderL, h1], h2⟩

theorem skipWs_cons {b : UInt8} (t : Bytes) (h : isWs b = false) : skipWs (b :: t) = b :: t := by
  simp [skipWs, h]

/-! ### numbers inside `Strict.value` -/

theorem number_numToString (fmt : Nat → Bytes) (n : Num) (hw : n.WF) (hok : numOK fmt n) (rest : Bytes)
    (hr : numEnd rest = true) : number (numToString fmt n ++ rest) = some (reNum n, rest) := by
  cases n with
  | int i =>
    simp only [Num.WF] at hw
    simp only [numToString, reNum]
    by_cases h : 0 ≤ i
    · rw [if_pos h]; exact number_intDigits_nonneg i h hw.2 rest hr
    · rw [if_neg h]; exact number_intDigits_neg i hw.1 (by omega) rest hr
  | uint n => exact number_natDigits n hw rest hr
  | float b => exact number_fmt fmt b hok.2 rest hr

theorem value_number (fuel : Nat) (b : UInt8) (t : Bytes) (n : Num) (rest : Bytes)
    (hb : b = 0x2D ∨ isDigit b = true) (h : number (b :: t) = some (n, rest)) :
    value (fuel + 1) (b :: t) = some (.num n, rest) := by
  have hws : isWs b = false := by
    cases hb with
    | inl e => subst e; decide
    | inr e => exact isDigit_notWs e
  have c : b ≠ 0x6E ∧ b ≠ 0x74 ∧ b ≠ 0x66 ∧ b ≠ 0x22 ∧ b ≠ 0x5B ∧ b ≠ 0x7B := by
    cases hb with
    | inl e => subst e; decide
    | inr e =>
      have := isDigit_toNat e
      refine ⟨?_, ?_, ?_, ?_, ?_, ?_⟩ <;> exact u8_ne_of_toNat (by simp; omega)
  have hd : (b == 0x2D || isDigit b) = true := by
    cases hb with
    | inl e => subst e; decide
    | inr e => simp [e]
  obtain ⟨c1, c2, c3, c4, c5, c6⟩ := c
  simp only [value, skipWs_cons _ hws]
  simp [c1, c2, c3, c4, c5, c6, hd, h]

/-! ### one step of the strict parser on each shape -/

theorem quote_append (s rest : Bytes) : quote s ++ rest = 0x22 :: (escapeBytes s ++ 0x22 :: rest) := by
  simp [quote]

theorem value_null (fuel : Nat) (rest : Bytes) :
    value (fuel + 1) (0x6E :: 0x75 :: 0x6C :: 0x6C :: rest) = some (.null, rest) := by
  simp [value, skipWs, isWs, expectLit]

theorem value_true (fuel : Nat) (rest : Bytes) :
    value (fuel + 1) (0x74 :: 0x72 :: 0x75 :: 0x65 :: rest) = some (.bool true, rest) := by
  simp [value, skipWs, isWs, expectLit]

theorem value_false (fuel : Nat) (rest : Bytes) :
    value (fuel + 1) (0x66 :: 0x61 :: 0x6C :: 0x73 :: 0x65 :: rest) = some (.bool false, rest) := by
  simp [value, skipWs, isWs, expectLit]

theorem value_str (fuel : Nat) (s rest : Bytes) (hu : validUtf8 s = true) :
    value (fuel + 1) (quote s ++ rest) = some (.str s, rest) := by
  rw [quote_append]
  have hs := strBody_escape_len s rest
  simp only [value, skipWs_cons _ (show isWs 0x22 = false by decide)]
  simp only [show ((0x22 : UInt8) == 0x6E) = false by decide, show ((0x22 : UInt8) == 0x74) = false by decide,
    show ((0x22 : UInt8) == 0x66) = false by decide, show ((0x22 : UInt8) == 0x22) = true by decide,
    Bool.false_eq_true, if_false, if_true, hs, hu]

theorem value_arr_nil (fuel : Nat) (rest : Bytes) :
    value (fuel + 1) (0x5B :: 0x5D :: rest) = some (.arr [], rest) := by
  simp [value, skipWs, isWs]

theorem value_obj_nil (fuel : Nat) (rest : Bytes) :
    value (fuel + 1) (0x7B :: 0x7D :: rest) = some (.obj [], rest) := by
  simp [value, skipWs, isWs]

theorem value_arr (fuel : Nat) (b : UInt8) (t : Bytes) (ws : List JV) (rest : Bytes)
    (hb : valStart b = true) (h : elements fuel (b :: t) = some (ws, rest)) :
    value (fuel + 1) (0x5B :: b :: t) = some (.arr ws, rest) := by
  have h1 := valStart_notWs hb
  have h2 := (valStart_ne_close hb).1
  simp only [value, skipWs_cons _ (show isWs 0x5B = false by decide), skipWs_cons _ h1]
  simp [h2, h]

theorem value_obj (fuel : Nat) (t : Bytes) (ws : List (Bytes × JV)) (rest : Bytes)
    (h : members fuel (0x22 :: t) = some (ws, rest)) :
    value (fuel + 1) (0x7B :: 0x22 :: t) = some (.obj (mkObj ws), rest) := by
  simp only [value, skipWs_cons _ (show isWs 0x7B = false by decide),
    skipWs_cons _ (show isWs 0x22 = false by decide)]
  simp [h]

theorem elements_last (fuel : Nat) (bs : Bytes) (v : JV) (rest : Bytes)
    (hv : value fuel bs = some (v, 0x5D :: rest)) : elements (fuel + 1) bs = some ([v], rest) := by
  simp [elements, hv, skipWs, isWs]

theorem elements_more (fuel : Nat) (bs : Bytes) (v : JV) (r : Bytes) (vs : List JV) (rest : Bytes)
    (hv : value fuel bs = some (v, 0x2C :: r)) (he : elements fuel r = some (vs, rest)) :
    elements (fuel + 1) bs = some (v :: vs, rest) := by
  simp [elements, hv, skipWs, isWs, he]

theorem members_last (fuel : Nat) (k r2 : Bytes) (v : JV) (rest : Bytes) (hu : validUtf8 k = true)
    (hv : value fuel r2 = some (v, 0x7D :: rest)) :
    members (fuel + 1) (quote k ++ 0x3A :: r2) = some ([(k, v)], rest) := by
  rw [quote_append]
  have hs := strBody_escape_len k (0x3A :: r2)
  simp only [members, skipWs_cons _ (show isWs 0x22 = false by decide), hs]
  simp [hu, hv, skipWs, isWs]

theorem members_more (fuel : Nat) (k r2 : Bytes) (v : JV) (r : Bytes) (kvs : List (Bytes × JV)) (rest : Bytes)
    (hu : validUtf8 k = true) (hv : value fuel r2 = some (v, 0x2C :: r))
    (hm : members fuel r = some (kvs, rest)) :
    members (fuel + 1) (quote k ++ 0x3A :: r2) = some ((k, v) :: kvs, rest) := by
  rw [quote_append]
  have hs := strBody_escape_len k (0x3A :: r2)
  simp only [members, skipWs_cons _ (show isWs 0x22 = false by decide), hs]
  simp [hu, hv, skipWs, isWs, hm]

theorem numEnd_comma (r : Bytes) : numEnd (0x2C :: r) = true := by simp [numEnd, isDigit]
theorem numEnd_rbracket (r : Bytes) : numEnd (0x5D :: r) = true := by simp [numEnd, isDigit]
theorem numEnd_rbrace (r : Bytes) : numEnd (0x7D :: r) = true := by simp [numEnd, isDigit]

theorem renderL_cons_ne (fmt : Nat → Bytes) (v : JV) (vs : List JV) (h : vs ≠ []) :
    renderL fmt (v :: vs) = render fmt v ++ 0x2C :: renderL fmt vs := by
  cases vs with
  | nil => exact absurd rfl h
  | cons v' vs => simp [renderL]

theorem renderK_cons_ne (fmt : Nat → Bytes) (k : Bytes) (v : JV) (kvs : List (Bytes × JV)) (h : kvs ≠ []) :
    renderK fmt ((k, v) :: kvs) = quote k ++ 0x3A :: (render fmt v ++ 0x2C :: renderK fmt kvs) := by
  cases kvs with
  | nil => exact absurd rfl h
  | cons kv' kvs => simp [renderK]

theorem renderK_head (fmt : Nat → Bytes) (kvs : List (Bytes × JV)) (h : kvs ≠ []) :
    ∃ t, renderK fmt kvs = 0x22 :: t := by
  match kvs, h with
  | [(k, v)], _ => exact ⟨escapeBytes k ++ 0x22 :: 0x3A :: render fmt v, by simp [renderK, quote]⟩
  | (k, v) :: kv' :: kvs, _ =>
    exact ⟨escapeBytes k ++ 0x22 :: 0x3A :: (render fmt v ++ 0x2C :: renderK fmt (kv' :: kvs)),
      by simp [renderK, quote]⟩

/-! ### C.5, first half: the strict parser reads the rendering of a good tree back -/

mutual
theorem value_render (fmt : Nat → Bytes) : (v : JV) → good v = true → fmtOK fmt v → (fuel : Nat) →
    fv v ≤ fuel → (rest : Bytes) → numEnd rest = true →
    value fuel (render fmt v ++ rest) = some (reparse v, rest)
  | .null, _, _, fuel, hf, rest, _ => by
    cases fuel with
    | zero => simp [fv] at hf
    | succ f => simp only [render, reparse, List.cons_append, List.nil_append]; exact value_null f rest
  | .bool b, _, _, fuel, hf, rest, _ => by
    cases fuel with
    | zero => simp [fv] at hf
    | succ f =>
      cases b
      · simp only [render, reparse, List.cons_append, List.nil_append]; exact value_false f rest
      · simp only [render, reparse, List.cons_append, List.nil_append]; exact value_true f rest
  | .num n, hg, hok, fuel, hf, rest, hr => by
    cases fuel with
    | zero => simp [fv] at hf
    | succ f =>
      simp only [good, decide_eq_true_eq] at hg
      simp only [fmtOK] at hok
      have hn := number_numToString fmt n hg hok rest hr
      obtain ⟨b, t, h1, h2⟩ := numToString_head fmt n hok
      simp only [render, reparse]
      rw [h1] at hn ⊢
      exact value_number f b (t ++ rest) (reNum n) rest h2 hn
  | .str s, hg, _, fuel, hf, rest, _ => by
    cases fuel with
    | zero => simp [fv] at hf
    | succ f =>
      simp only [good, Bool.and_eq_true] at hg
      simp only [render, reparse]
      exact value_str f s rest hg.2
  | .arr vs, hg, hok, fuel, hf, rest, _ => by
    cases fuel with
    | zero => simp [fv] at hf
    | succ f =>
      simp only [good, Bool.and_eq_true] at hg
      simp only [fmtOK] at hok
      simp only [fv] at hf
      simp only [render, reparse, List.cons_append, List.append_assoc, List.nil_append]
      by_cases hvs : vs = []
      · subst hvs; simp only [renderL, reparseL, List.nil_append]; exact value_arr_nil f rest
      · have ih := elements_render fmt vs hvs hg.2 hok f (by omega) rest
        obtain ⟨b, t, h1, h2⟩ := renderL_head fmt vs hvs hok
        rw [h1] at ih ⊢
        exact value_arr f b _ _ rest h2 ih
  | .obj kvs, hg, hok, fuel, hf, rest, _ => by
    cases fuel with
    | zero => simp [fv] at hf
    | succ f =>
      simp only [good, Bool.and_eq_true] at hg
      simp only [fmtOK] at hok
      simp only [fv] at hf
      simp only [render, reparse, List.cons_append, List.append_assoc, List.nil_append]
      by_cases hk : kvs = []
      · subst hk; simp only [renderK, reparseK, List.nil_append]; exact value_obj_nil f rest
      · have ih := members_render fmt kvs hk hg.2 hok f (by omega) rest
        obtain ⟨t, h1⟩ := renderK_head fmt kvs hk
        rw [h1] at ih ⊢
        have := value_obj f _ _ rest ih
        rw [mkObj_sorted _ (by rw [keysSorted_reparseK]; exact hg.1.2)] at this
        exact this
theorem elements_render (fmt : Nat → Bytes) : (vs : List JV) → vs ≠ [] → goodL vs = true →
    fmtOKL fmt vs → (fuel : Nat) → fl vs ≤ fuel → (rest : Bytes) →
    elements fuel (renderL fmt vs ++ 0x5D :: rest) = some (reparseL vs, rest)
  | [], hne, _, _, _, _, _ => absurd rfl hne
  | v :: vs, _, hg, hok, fuel, hf, rest => by
    simp only [fl] at hf
    cases fuel with
    | zero => omega
    | succ f =>
      simp only [goodL, Bool.and_eq_true] at hg
      simp only [fmtOKL] at hok
      by_cases hvs : vs = []
      · subst hvs
        have ih := value_render fmt v hg.1 hok.1 f (by omega) (0x5D :: rest) (numEnd_rbracket rest)
        simp only [renderL, reparseL]
        exact elements_last f _ _ rest ih
      · have ih1 := value_render fmt v hg.1 hok.1 f (by omega) (0x2C :: (renderL fmt vs ++ 0x5D :: rest))
          (numEnd_comma _)
        have ih2 := elements_render fmt vs hvs hg.2 hok.2 f (by omega) rest
        rw [renderL_cons_ne fmt v vs hvs]
        simp only [reparseL, List.append_assoc, List.cons_append]
        exact elements_more f _ _ _ _ rest ih1 ih2
theorem members_render (fmt : Nat → Bytes) : (kvs : List (Bytes × JV)) → kvs ≠ [] → goodK kvs = true →
    fmtOKK fmt kvs → (fuel : Nat) → fk kvs ≤ fuel → (rest : Bytes) →
    members fuel (renderK fmt kvs ++ 0x7D :: rest) = some (reparseK kvs, rest)
  | [], hne, _, _, _, _, _ => absurd rfl hne
  | (k, v) :: kvs, _, hg, hok, fuel, hf, rest => by
    simp only [fk] at hf
    cases fuel with
    | zero => omega
    | succ f =>
      simp only [goodK, Bool.and_eq_true] at hg
      simp only [fmtOKK] at hok
      by_cases hk : kvs = []
      · subst hk
        have ih := value_render fmt v hg.1.2 hok.1 f (by omega) (0x7D :: rest) (numEnd_rbrace rest)
        simp only [renderK, reparseK, List.append_assoc, List.cons_append]
        exact members_last f k _ _ rest hg.1.1.2 ih
      · have ih1 := value_render fmt v hg.1.2 hok.1 f (by omega) (0x2C :: (renderK fmt kvs ++ 0x7D :: rest))
          (numEnd_comma _)
        have ih2 := members_render fmt kvs hk hg.2 hok.2 f (by omega) rest
        rw [renderK_cons_ne fmt k v kvs hk]
        simp only [reparseK, List.append_assoc, List.cons_append]
        exact members_more f k _ _ _ _ rest hg.1.1.2 ih1 ih2
end

/-! ### whole texts -/

/-- the same for a top-level value (`goodTop`: the root container's own size is unbounded) -/
theorem value_render_top (fmt : Nat → Bytes) (v : JV) (hg : goodTop v = true) (hok : fmtOK fmt v)
    (fuel : Nat) (hf : fv v ≤ fuel) (rest : Bytes) (hr : numEnd rest = true) :
    value fuel (render fmt v ++ rest) = some (reparse v, rest) := by
  cases v with
  | null => exact value_render fmt _ (by simpa [goodTop] using hg) hok fuel hf rest hr
  | bool b => exact value_render fmt _ (by simpa [goodTop] using hg) hok fuel hf rest hr
  | num n => exact value_render fmt _ (by simpa [goodTop] using hg) hok fuel hf rest hr
  | str s => exact value_render fmt _ (by simpa [goodTop] using hg) hok fuel hf rest hr
  | arr vs =>
    cases fuel with
    | zero => simp [fv] at hf
    | succ f =>
      simp only [goodTop, Bool.and_eq_true] at hg
      simp only [fmtOK] at hok
      simp only [fv] at hf
      simp only [render, reparse, List.cons_append, List.append_assoc, List.nil_append]
      by_cases hvs : vs = []
      · subst hvs; simp only [renderL, reparseL, List.nil_append]; exact value_arr_nil f rest
      · have ih := elements_render fmt vs hvs hg.2 hok f (by omega) rest
        obtain ⟨b, t, h1, h2⟩ := renderL_head fmt vs hvs hok
        rw [h1] at ih ⊢
        exact value_arr f b _ _ rest h2 ih
  | obj kvs =>
    cases fuel with
    | zero => simp [fv] at hf
    | succ f =>
      simp only [goodTop, Bool.and_eq_true] at hg
      simp only [fmtOK] at hok
      simp only [fv] at hf
      simp only [render, reparse, List.cons_append, List.append_assoc, List.nil_append]
      by_cases hk : kvs = []
      · subst hk; simp only [renderK, reparseK, List.nil_append]; exact value_obj_nil f rest
      · have ih := members_render fmt kvs hk hg.2 hok f (by omega) rest
        obtain ⟨t, h1⟩ := renderK_head fmt kvs hk
        rw [h1] at ih ⊢
        have := value_obj f _ _ rest ih
        rw [mkObj_sorted _ (by rw [keysSorted_reparseK]; exact hg.1.2)] at this
        exact this

theorem quote_length (s : Bytes) : (quote s).length = (escapeBytes s).length + 2 := by simp [quote]

mutual
/-- the fuel `Strict.parse` provides (text length + 2) is enough -/
theorem fv_le (fmt : Nat → Bytes) : (v : JV) → fmtOK fmt v → fv v ≤ (render fmt v).length
  | .null, _ => by simp [fv, render]
  | .bool b, _ => by cases b <;> simp [fv, render]
  | .num n, h => by
    obtain ⟨b, t, h1, _⟩ := render_head fmt (.num n) h
    simp [fv, h1]
  | .str s, _ => by simp [fv, render, quote]
  | .arr vs, h => by
    simp only [fmtOK] at h
    have := fl_le fmt vs h
    simp only [fv, render, List.length_cons, List.length_append, List.length_nil]
    omega
  | .obj kvs, h => by
    simp only [fmtOK] at h
    have := fk_le fmt kvs h
    simp only [fv, render, List.length_cons, List.length_append, List.length_nil]
    omega
theorem fl_le (fmt : Nat → Bytes) : (vs : List JV) → fmtOKL fmt vs → fl vs ≤ (renderL fmt vs).length + 1
  | [], _ => by simp [fl]
  | v :: vs, h => by
    simp only [fmtOKL] at h
    have h1 := fv_le fmt v h.1
    have h2 := fl_le fmt vs h.2
    by_cases hvs : vs = []
    · subst hvs; simp only [fl, renderL]; omega
    · rw [renderL_cons_ne fmt v vs hvs]
      simp only [fl, List.length_append, List.length_cons]; omega
theorem fk_le (fmt : Nat → Bytes) : (kvs : List (Bytes × JV)) → fmtOKK fmt kvs → fk kvs ≤ (renderK fmt kvs).length + 1
  | [], _ => by simp [fk]
  | (k, v) :: kvs, h => by
    simp only [fmtOKK] at h
    have h1 := fv_le fmt v h.1
    have h2 := fk_le fmt kvs h.2
    by_cases hk : kvs = []
    · subst hk; simp only [fk, renderK, List.length_append, List.length_cons, quote_length]; omega
    · rw [renderK_cons_ne fmt k v kvs hk]
      simp only [fk, List.length_append, List.length_cons, quote_length]; omega
end

/-- **C.5 (tree level)** the rendering of a good document is strict RFC 8259 JSON and denotes
that document -/
theorem parse_render (fmt : Nat → Bytes) (v : JV) (hg : goodTop v = true) (hok : fmtOK fmt v) :
    Strict.parse (render fmt v) = some (reparse v) := by
  have h := value_render_top fmt v hg hok ((render fmt v).length + 2)
    (by have := fv_le fmt v hok; omega) [] rfl
  rw [List.append_nil] at h
  simp [parse, h, skipWs]

end Jsonb
