/-
Layout-generic rendering of literals, comparison operands and operators of the JSONPath
language, and the proof that `path_value`, `inner_expr` and `op` of the parser model read every
rendering back.
-/
import JsonbModel.Proofs.PathRoundTrip2a

namespace Jsonb
namespace PathRT2
open Nom PathParser PathPrint PathRT

/-! ### more combinator lemmas -/

theorem isPrefix_append (t X : Bytes) : isPrefix t (t ++ X) = true := by
  induction t with
  | nil => simp [isPrefix]
  | cons a t ih => simp [isPrefix, ih]

theorem tag_hit (t X : Bytes) : tag t (t ++ X) = .ok t X := by
  unfold tag
  rw [isPrefix_append, if_pos rfl]
  simp

theorem tag_miss (k : UInt8) (ks : Bytes) (c : UInt8) (X : Bytes) (h : c ≠ k) :
    tag (k :: ks) (c :: X) = .error := by
  have : (k == c) = false := by simpa using (fun e : k = c => h e.symm)
  simp [tag, isPrefix, this]

theorem tag_nil (k : UInt8) (ks : Bytes) : tag (k :: ks) [] = .error := by
  simp [tag, isPrefix]

/-! ### number literals -/

theorem decBytes_head' (n : Nat) : ∃ c t, decBytes n = c :: t ∧ isDigit c = true := by
  obtain ⟨d, hd, t, ht⟩ := decBytes_head n
  exact ⟨_, t, ht, (digit_props ⟨d, hd⟩).1⟩

theorem unsignedInt_decBytes (hi : Int) (n : Nat) (hn : (n : Int) ≤ hi) (r : Bytes)
    (hr : noDigitHead r) : unsignedInt hi (decBytes n ++ r) = .ok (n : Int) r := by
  unfold unsignedInt
  obtain ⟨c, t, ht, _⟩ := decBytes_head' n
  have hne : (decBytes n ++ r).isEmpty = false := by rw [ht]; rfl
  rw [hne]
  simp only [Bool.false_eq_true, if_false]
  have hs : sgn false n = (n : Int) := by simp [sgn]
  rw [intLoop_decBytes false 0 hi (by omega) (by omega) n r (by rw [hs]; omega) (by rw [hs]; exact hn),
    hs]
  exact intLoop_end _ _ _ _ _ hr

theorem u64_decBytes (n : Nat) (hn : n ≤ 18446744073709551615) (r : Bytes) (hr : noDigitHead r) :
    u64 (decBytes n ++ r) = .ok n r := by
  unfold u64
  rw [map_ok (unsignedInt_decBytes _ n (by omega) r hr)]
  simp

theorem intLoop_nondigit_first (neg : Bool) (lo hi : Int) (c : UInt8) (X : Bytes)
    (h : isDigit c = false) : intLoop neg lo hi (c :: X) 0 true = .error := by
  simp [intLoop, h]

theorem u64_nondigit (c : UInt8) (X : Bytes) (h : isDigit c = false) : u64 (c :: X) = .error := by
  unfold u64
  apply map_error
  unfold unsignedInt
  simp [intLoop_nondigit_first _ _ _ c X h]

theorem u64_nil : u64 [] = .error := by
  unfold u64; apply map_error; simp [unsignedInt]

theorem i64_nondigit (b : UInt8) (t : Bytes) (h1 : b ≠ 45) (h2 : b ≠ 43) (h3 : isDigit b = false) :
    i64 (b :: t) = .error := by
  unfold i64 signedInt
  rw [splitSign_other _ _ h1 h2]
  simp [intLoop, h3]

theorem i64_nil : i64 [] = .error := by simp [i64, signedInt, splitSign]

/-- `i64` on `+` followed by a decimal numeral -/
theorem i64_plus (n : Nat) (hn : (n : Int) ≤ 9223372036854775807) (r : Bytes) (hr : noDigitHead r) :
    i64 (43 :: (decBytes n ++ r)) = .ok (n : Int) r := by
  unfold i64 signedInt
  have hs : splitSign (43 :: (decBytes n ++ r)) = (false, decBytes n ++ r) := rfl
  rw [hs]
  obtain ⟨c, t, ht, _⟩ := decBytes_head' n
  have hne : (decBytes n ++ r).isEmpty = false := by rw [ht]; rfl
  simp only [hne, Bool.false_eq_true, if_false]
  have hs : sgn false n = (n : Int) := by simp [sgn]
  rw [intLoop_decBytes false _ _ (by omega) (by omega) n r (by rw [hs]; omega) (by rw [hs]; exact hn),
    hs]
  exact intLoop_end _ _ _ _ _ hr

/-- the loop of nom's integer parsers on a run of digits followed by a non-digit: either an
overflow error, or all digits are consumed -/
theorem intLoop_digits (neg : Bool) (lo hi : Int) (c : UInt8) (Y : Bytes) (hc : isDigit c = false) :
    ∀ (ds : Bytes) (v : Int) (first : Bool), ds.all isDigit = true → (first = false ∨ ds ≠ []) →
      intLoop neg lo hi (ds ++ c :: Y) v first = .error ∨
      ∃ v', intLoop neg lo hi (ds ++ c :: Y) v first = .ok v' (c :: Y) := by
  intro ds
  induction ds with
  | nil =>
    intro v first _ hf
    rcases hf with rfl | h
    · exact Or.inr ⟨v, by simp [intLoop, hc]⟩
    · exact absurd rfl h
  | cons d ds ih =>
    intro v first hd _
    have hd' : isDigit d = true ∧ ds.all isDigit = true := by simpa using hd
    simp only [List.cons_append]
    unfold intLoop
    rw [if_pos hd'.1]
    split
    · exact Or.inl rfl
    · split
      · exact Or.inl rfl
      · exact ih _ false hd'.2 (Or.inl rfl)

def dotOrEByte (c : UInt8) : Bool := c == 46 || c == 101 || c == 69

theorem not_dotOrE (r : Bytes) (h : HeadOk (fun c => !dotOrEByte c) r) :
    Nom.not dotOrE r = .ok () r := by
  cases r with
  | nil => rfl
  | cons c t =>
    have hc : c ≠ 46 ∧ c ≠ 101 ∧ c ≠ 69 := by
      have := h.head; simpa [dotOrEByte, and_assoc] using this
    simp [Nom.not, dotOrE, oneOf, hc.1, hc.2.1, hc.2.2]

theorem not_dotOrE_hit (c : UInt8) (Y : Bytes) (h : dotOrEByte c = true) :
    Nom.not dotOrE (c :: Y) = .error := by
  have hc : c = 46 ∨ c = 101 ∨ c = 69 := by simpa [dotOrEByte, or_assoc] using h
  rcases hc with rfl | rfl | rfl <;> simp [Nom.not, dotOrE, oneOf]

theorem dotOrE_notDigit : ∀ c, dotOrEByte c = true → isDigit c = false := by bytes_decide

/-- `terminated(u64, not(one_of(".eE")))` fails on digits followed by `.`, `e` or `E` -/
theorem u64_term_digits_error (ds : Bytes) (c : UInt8) (Y : Bytes) (hds : ds.all isDigit = true)
    (hc : dotOrEByte c = true) : terminated u64 (Nom.not dotOrE) (ds ++ c :: Y) = .error := by
  cases ds with
  | nil => simp [terminated, u64_nondigit c Y (dotOrE_notDigit c hc), PR.bind]
  | cons d ds =>
    have hne : ((d :: ds) ++ c :: Y).isEmpty = false := rfl
    rcases intLoop_digits false 0 18446744073709551615 c Y (dotOrE_notDigit c hc) (d :: ds) 0 true hds
        (Or.inr (by simp)) with h | ⟨v, h⟩
    · generalize (d :: ds) ++ c :: Y = X at h hne
      simp [terminated, u64, map, unsignedInt, hne, h, PR.bind]
    · generalize (d :: ds) ++ c :: Y = X at h hne
      simp [terminated, u64, map, unsignedInt, hne, h, not_dotOrE_hit c Y hc, PR.bind]

/-- `terminated(i64, not(one_of(".eE")))` fails on an optional `-`, digits, then `.`, `e` or `E` -/
theorem i64_term_digits_error (neg : Bool) (ds : Bytes) (c : UInt8) (Y : Bytes)
    (hds : ds.all isDigit = true) (hc : dotOrEByte c = true) :
    terminated i64 (Nom.not dotOrE) ((if neg then [45] else []) ++ (ds ++ c :: Y)) = .error := by
  have hcd := dotOrE_notDigit c hc
  have key : ∀ ng, (ds ++ c :: Y).isEmpty = false →
      (intLoop ng (-9223372036854775808) 9223372036854775807 (ds ++ c :: Y) 0 true).bind
        (fun a r => (Nom.not dotOrE r).bind fun _ r' => PR.ok a r') = .error := by
    intro ng _
    cases ds with
    | nil => simp [intLoop, hcd, PR.bind]
    | cons d ds =>
      rcases intLoop_digits ng (-9223372036854775808) 9223372036854775807 c Y hcd (d :: ds) 0 true hds
          (Or.inr (by simp)) with h | ⟨v, h⟩
      · generalize (d :: ds) ++ c :: Y = X at h
        simp [h, PR.bind]
      · generalize (d :: ds) ++ c :: Y = X at h
        simp [h, not_dotOrE_hit c Y hc, PR.bind]
  have hne : (ds ++ c :: Y).isEmpty = false := by cases ds <;> rfl
  cases neg with
  | true =>
    have hs : splitSign ([45] ++ (ds ++ c :: Y)) = (true, ds ++ c :: Y) := rfl
    simp only [if_true, terminated, i64, signedInt, hs, hne, Bool.false_eq_true, if_false]
    exact key true hne
  | false =>
    have hs : splitSign (ds ++ c :: Y) = (false, ds ++ c :: Y) := by
      cases ds with
      | nil =>
        have h45 : c ≠ 45 := by intro h; subst h; simp [dotOrEByte] at hc
        have h43 : c ≠ 43 := by intro h; subst h; simp [dotOrEByte] at hc
        exact splitSign_other _ _ h45 h43
      | cons d ds =>
        have hd : isDigit d = true := by
          have : isDigit d = true ∧ ds.all isDigit = true := by simpa using hds
          exact this.1
        have : ∀ d, isDigit d = true → d ≠ 45 ∧ d ≠ 43 := by bytes_decide
        exact splitSign_other _ _ (this d hd).1 (this d hd).2
    simp only [Bool.false_eq_true, if_false, List.nil_append, terminated, i64, signedInt, hs, hne]
    exact key false hne

/-! ### float literals -/

theorem spanDigits_run (X : Bytes) (hX : HeadOk notDigit X) :
    ∀ ds : Bytes, ds.all isDigit = true → spanDigits (ds ++ X) = (ds, X) := by
  intro ds
  induction ds with
  | nil =>
    intro _
    cases X with
    | nil => rfl
    | cons c t =>
      have : isDigit c = false := by simpa [notDigit] using hX.head
      simp [spanDigits, this]
  | cons d ds ih =>
    intro h
    have hd : isDigit d = true ∧ ds.all isDigit = true := by simpa using h
    simp [spanDigits, hd.1, ih hd.2]

theorem digit1_run (ds X : Bytes) (hds : ds.all isDigit = true) (hne : ds ≠ [])
    (hX : HeadOk notDigit X) : digit1 (ds ++ X) = .ok ds X := by
  unfold digit1
  rw [spanDigits_run X hX ds hds]
  cases ds with
  | nil => exact absurd rfl hne
  | cons d ds => rfl

theorem digit1_miss (X : Bytes) (hX : HeadOk notDigit X) : digit1 X = .error := by
  have := spanDigits_run X hX [] rfl
  simp only [List.nil_append] at this
  unfold digit1
  rw [this]

/-- the mantissa alternative of `recognize_float` -/
def mantP : Parser (Bytes × Bytes) :=
  alt
    (fun i => (digit1 i).bind fun ds r =>
      (opt (pair (char 46) (opt digit1)) r).bind fun o r' =>
        match o with
        | some (_, some fs) => .ok (ds, fs) r'
        | _ => .ok (ds, []) r')
    (fun i => (char 46 i).bind fun _ r => (digit1 r).bind fun fs r' => .ok ([], fs) r')

/-- the exponent option of `recognize_float` -/
def expP : Parser (Option (UInt8 × Bool × Bytes)) :=
  opt (tuple3 (alt (char 101) (char 69)) optSign (cut digit1))

set_option linter.unusedSimpArgs false in
theorem recognizeFloat_eq (i : Bytes) :
    recognizeFloat i = (optSign i).bind fun neg r0 =>
      (mantP r0).bind fun dsfs r1 =>
      (expP r1).bind fun o r2 =>
        match o with
        | some (_, eneg, eds) => .ok ⟨neg, dsfs.1, dsfs.2, eneg, eds⟩ r2
        | none => .ok ⟨neg, dsfs.1, dsfs.2, false, []⟩ r2 := by
  unfold recognizeFloat mantP expP
  cases optSign i <;> simp only [PR.bind]
  rename_i neg r0
  cases alt _ _ r0 <;> simp only [PR.bind]
  rename_i a r1
  cases a
  rfl

/-- the layout of a float literal: sign, integer digits, fraction digits, exponent marker case,
exponent sign (`none`: no sign, `some false`: `+`, `some true`: `-`), exponent digits -/
structure FloatText where
  neg : Bool
  ints : Bytes
  fracs : Bytes
  upperE : Bool
  expSign : Option Bool
  exps : Bytes

namespace FloatText

def fracPart (x : FloatText) : Bytes := if x.fracs.isEmpty then [] else 46 :: x.fracs

def expSignBytes (x : FloatText) : Bytes :=
  match x.expSign with
  | none => []
  | some false => [43]
  | some true => [45]

def expPart (x : FloatText) : Bytes :=
  if x.exps.isEmpty then [] else (if x.upperE then 69 else 101) :: (x.expSignBytes ++ x.exps)

/-- the text of the literal -/
def render (x : FloatText) : Bytes :=
  (if x.neg then [45] else []) ++ (x.ints ++ (x.fracPart ++ x.expPart))

/-- the parts `recognize_float` splits the text into -/
def lit (x : FloatText) : FloatLit :=
  ⟨x.neg, x.ints, x.fracs, !x.exps.isEmpty && x.expSign == some true, x.exps⟩

/-- well-formed and not an integer literal: digits only; an integer or a fraction part; a
fraction or an exponent part -/
def good (x : FloatText) : Bool :=
  x.ints.all isDigit && x.fracs.all isDigit && x.exps.all isDigit &&
  (!x.ints.isEmpty || !x.fracs.isEmpty) && (!x.fracs.isEmpty || !x.exps.isEmpty)

end FloatText

/-- what may follow a number literal: not a digit, `.`, `e`, `E` -/
def numFollow (c : UInt8) : Bool := !isDigit c && !dotOrEByte c

theorem numFollow_notDigit : ∀ c, numFollow c = true → notDigit c = true := by bytes_decide
theorem numFollow_notDotOrE : ∀ c, numFollow c = true → (!dotOrEByte c) = true := by bytes_decide
theorem space_numFollow : ∀ c, isSpace c = true → numFollow c = true := by bytes_decide

theorem mantP_render (ints fracs X : Bytes) (hi : ints.all isDigit = true)
    (hf : fracs.all isDigit = true) (hne : ints ≠ [] ∨ fracs ≠ [])
    (hX : HeadOk (fun c => !isDigit c && c != 46) X) :
    mantP (ints ++ ((if fracs.isEmpty then [] else 46 :: fracs) ++ X)) = .ok (ints, fracs) X := by
  have hXd : HeadOk notDigit X := hX.mono (by bytes_decide)
  have hdot : HeadOk notDigit (46 :: (fracs ++ X)) := HeadOk.cons (by decide)
  unfold mantP
  by_cases hi0 : ints = []
  · subst hi0
    have hf0 : fracs ≠ [] := by rcases hne with h | h; exact absurd rfl h; exact h
    have hfe : fracs.isEmpty = false := by cases fracs; exact absurd rfl hf0; rfl
    simp only [hfe, Bool.false_eq_true, if_false, List.nil_append, List.cons_append]
    have h1 : digit1 (46 :: (fracs ++ X)) = .error := digit1_miss _ hdot
    have h2 : digit1 (fracs ++ X) = .ok fracs X := digit1_run _ _ hf hf0 hXd
    simp [alt, h1, h2, char, PR.bind]
  · by_cases hf0 : fracs = []
    · subst hf0
      simp only [List.isEmpty_nil, if_true, List.nil_append]
      have h1 : digit1 (ints ++ X) = .ok ints X := digit1_run _ _ hi hi0 hXd
      have h2 : char 46 X = .error := by
        cases X with
        | nil => rfl
        | cons c t =>
          have : c ≠ 46 := by have := hX.head; simp at this; exact this.2
          exact char_miss _ _ _ this
      simp [alt, h1, h2, opt, pair, PR.bind]
    · have hfe : fracs.isEmpty = false := by cases fracs; exact absurd rfl hf0; rfl
      simp only [hfe, Bool.false_eq_true, if_false, List.cons_append]
      have h1 : digit1 (ints ++ 46 :: (fracs ++ X)) = .ok ints (46 :: (fracs ++ X)) :=
        digit1_run _ _ hi hi0 hdot
      have h2 : digit1 (fracs ++ X) = .ok fracs X := digit1_run _ _ hf hf0 hXd
      simp [alt, h1, h2, opt, pair, char, PR.bind]

theorem expP_render (x : FloatText) (r : Bytes) (he : x.exps.all isDigit = true)
    (hr : HeadOk numFollow r) :
    expP (x.expPart ++ r) =
      .ok (if x.exps.isEmpty then none
           else some ((if x.upperE then 69 else 101), x.expSign == some true, x.exps)) r := by
  have hrd : HeadOk notDigit r := hr.mono numFollow_notDigit
  unfold expP FloatText.expPart
  by_cases he0 : x.exps = []
  · rw [he0]
    simp only [List.isEmpty_nil, if_true, List.nil_append]
    have h1 : alt (char 101) (char 69) r = .error := by
      cases r with
      | nil => rfl
      | cons c t =>
        have hnf : ∀ c, numFollow c = true → c ≠ 101 ∧ c ≠ 69 := by bytes_decide
        have := hnf c hr.head
        simp [alt, char_miss _ _ _ this.1, char_miss _ _ _ this.2]
    simp [opt, tuple3, h1, PR.bind]
  · have hee : x.exps.isEmpty = false := by cases h : x.exps; exact absurd h he0; rfl
    simp only [hee, Bool.false_eq_true, if_false, List.cons_append]
    have h2 : digit1 (x.exps ++ r) = .ok x.exps r := digit1_run _ _ he he0 hrd
    obtain ⟨d, t, hd, hdd⟩ : ∃ d t, x.exps = d :: t ∧ isDigit d = true := by
      cases h : x.exps with
      | nil => exact absurd h he0
      | cons d t =>
        rw [h] at he
        exact ⟨d, t, rfl, by have : isDigit d = true ∧ t.all isDigit = true := by simpa using he
                             exact this.1⟩
    have hd4 : ∀ d, isDigit d = true → d ≠ 43 ∧ d ≠ 45 := by bytes_decide
    have h3 : optSign (x.expSignBytes ++ (x.exps ++ r)) = .ok (x.expSign == some true) (x.exps ++ r) := by
      unfold FloatText.expSignBytes
      cases x.expSign with
      | none =>
        rw [hd]
        have := hd4 d hdd
        simp only [List.nil_append, List.cons_append]
        unfold optSign
        split
        · rename_i heq; simp at heq; exact absurd heq.1 this.1
        · rename_i heq; simp at heq; exact absurd heq.1 this.2
        · rfl
      | some b => cases b <;> rfl
    cases hu : x.upperE
    · simp [opt, tuple3, alt, char, cut, h2, h3, PR.bind]
    · simp [opt, tuple3, alt, char, cut, h2, h3, PR.bind]

/-- `recognize_float` splits every well-formed float text into its parts -/
theorem recognizeFloat_render (x : FloatText) (hx : x.good = true) (r : Bytes)
    (hr : HeadOk numFollow r) : recognizeFloat (x.render ++ r) = .ok x.lit r := by
  have hg : (((x.ints.all isDigit = true ∧ x.fracs.all isDigit = true) ∧ x.exps.all isDigit = true) ∧
      (x.ints ≠ [] ∨ x.fracs ≠ [])) ∧ (x.fracs ≠ [] ∨ x.exps ≠ []) := by
    simpa [FloatText.good] using hx
  obtain ⟨⟨⟨⟨hi, hf⟩, he⟩, hne⟩, hne2⟩ := hg
  have hexp := expP_render x r he hr
  -- what follows the mantissa
  have hX : HeadOk (fun c => !isDigit c && c != 46) (x.expPart ++ r) := by
    unfold FloatText.expPart
    by_cases he0 : x.exps.isEmpty = true
    · rw [if_pos he0]; exact hr.mono (by bytes_decide)
    · rw [if_neg he0]
      cases x.upperE <;> exact HeadOk.cons (by decide)
  have hmant := mantP_render x.ints x.fracs (x.expPart ++ r) hi hf hne hX
  -- the sign
  have hsign : optSign (x.render ++ r)
      = .ok x.neg (x.ints ++ ((if x.fracs.isEmpty then [] else 46 :: x.fracs) ++ (x.expPart ++ r))) := by
    have hhead : HeadOk (fun c => c != 43 && c != 45)
        (x.ints ++ ((if x.fracs.isEmpty then [] else 46 :: x.fracs) ++ (x.expPart ++ r))) := by
      have hd4 : ∀ d, isDigit d = true → (d != 43 && d != 45) = true := by bytes_decide
      cases hi' : x.ints with
      | cons d t =>
        rw [hi'] at hi
        have : isDigit d = true ∧ t.all isDigit = true := by simpa using hi
        exact HeadOk.cons (hd4 d this.1)
      | nil =>
        have hf0 : x.fracs ≠ [] := by rcases hne with h | h; exact absurd hi' h; exact h
        have hfe : x.fracs.isEmpty = false := by cases h : x.fracs; exact absurd h hf0; rfl
        simp only [hfe, Bool.false_eq_true, if_false, List.nil_append, List.cons_append]
        exact HeadOk.cons (by decide)
    unfold FloatText.render FloatText.fracPart
    simp only [List.append_assoc]
    generalize x.ints ++ ((if x.fracs.isEmpty then [] else 46 :: x.fracs) ++ (x.expPart ++ r)) = Y at hhead
    cases x.neg with
    | true => rfl
    | false =>
      simp only [Bool.false_eq_true, if_false, List.nil_append]
      cases Y with
      | nil => rfl
      | cons c t =>
        have : c ≠ 43 ∧ c ≠ 45 := by have := hhead.head; simpa using this
        unfold optSign
        split
        · rename_i heq; simp at heq; exact absurd heq.1 this.1
        · rename_i heq; simp at heq; exact absurd heq.1 this.2
        · rfl
  rw [recognizeFloat_eq, hsign]
  simp only [PR.bind, hmant, hexp]
  unfold FloatText.lit
  by_cases he0 : x.exps.isEmpty = true
  · have : x.exps = [] := by cases h : x.exps; rfl; rw [h] at he0; cases he0
    simp [this]
  · simp [he0]

theorem recognizeFloat_error_head (c : UInt8) (X : Bytes) (h1 : isDigit c = false) (h2 : c ≠ 43)
    (h3 : c ≠ 45) (h4 : c ≠ 46) : recognizeFloat (c :: X) = .error := by
  have hs : optSign (c :: X) = .ok false (c :: X) := by
    unfold optSign
    split
    · rename_i heq; simp at heq; exact absurd heq.1 h2
    · rename_i heq; simp at heq; exact absurd heq.1 h3
    · rfl
  have hd : digit1 (c :: X) = .error := digit1_miss _ (HeadOk.cons (by simp [notDigit, h1]))
  have hm : mantP (c :: X) = .error := by
    simp [mantP, alt, hd, char_miss _ _ _ h4, PR.bind]
  rw [recognizeFloat_eq, hs]; simp [PR.bind, hm]

theorem double_error_head (c : UInt8) (X : Bytes)
    (h : (isDigit c || c == 43 || c == 45 || c == 46 || lowerByte c == 110 || lowerByte c == 105) = false) :
    double (c :: X) = .error := by
  have hc : isDigit c = false ∧ c ≠ 43 ∧ c ≠ 45 ∧ c ≠ 46 ∧ lowerByte c ≠ 110 ∧ lowerByte c ≠ 105 := by
    simpa [and_assoc] using h
  obtain ⟨h1, h2, h3, h4, h5, h6⟩ := hc
  have hrf := recognizeFloat_error_head c X h1 h2 h3 h4
  have e1 : lowerByte 110 = 110 := by decide
  have e2 : lowerByte 105 = 105 := by decide
  have h5' : (110 == lowerByte c) = false := by simpa using (fun e : (110 : UInt8) = lowerByte c => h5 e.symm)
  have h6' : (105 == lowerByte c) = false := by simpa using (fun e : (105 : UInt8) = lowerByte c => h6 e.symm)
  simp [double, alt, map, hrf, value, tagNoCase, isPrefixNoCase, e1, e2, h5', h6', PR.bind]

theorem double_nil : double [] = .error := by
  simp [double, alt, map, recognizeFloat, optSign, digit1, spanDigits, char, value, tagNoCase,
    isPrefixNoCase, PR.bind]

/-! ### literals -/

def kwNan : Bytes := [110, 97, 110]   -- "nan"
def kwInf : Bytes := [105, 110, 102]  -- "inf"

theorem kw3_shape {kw s : Bytes} (hk : kw.length = 3) (h : KwOf kw s) :
    ∃ a b c, s = [a, b, c] := by
  have hl := h.length
  rw [hk] at hl
  match s, hl with
  | [a, b, c], _ => exact ⟨a, b, c, rfl⟩

/-- Renderings of a literal: `null`, `true`, `false` (lower case only: the parser uses `tag`);
an unsigned decimal `u64`; a negative decimal `i64`; `+n` (read by nom's `i64`, hence `Int64`);
a float text with fraction and/or exponent; the words `nan` and `inf` in any letter case (nom's
`double` accepts them; `NaN` and `inf` are what Rust prints for these two values);
a quoted string. -/
inductive RVal : PathValue → Bytes → Prop
  | null : RVal .null kwNull
  | litTrue : RVal (.bool true) kwTrue
  | litFalse : RVal (.bool false) kwFalse
  | uint (n : Nat) : n ≤ 18446744073709551615 → RVal (.num (.uint n)) (decBytes n)
  | int (i : Int) : inI64 i → i < 0 → RVal (.num (.int i)) (intBytes i)
  | intPlus (n : Nat) : (n : Int) ≤ 9223372036854775807 → RVal (.num (.int n)) (43 :: decBytes n)
  | float (x : FloatText) : x.good = true → RVal (.num (.float x.lit.bits)) x.render
  | nan (kw : Bytes) : KwOf kwNan kw → RVal (.num (.float F64.canonNaN)) kw
  | inf (kw : Bytes) : KwOf kwInf kw → RVal (.num (.float F64.posInf)) kw
  | str (s q : Bytes) : RQuoted s q → RVal (.str s) q

theorem lower_n : ∀ c : UInt8, lowerByte c = 110 → c = 110 ∨ c = 78 := by bytes_decide
theorem lower_a : ∀ c : UInt8, lowerByte c = 97 → c = 97 ∨ c = 65 := by bytes_decide
theorem lower_i : ∀ c : UInt8, lowerByte c = 105 → c = 105 ∨ c = 73 := by bytes_decide

theorem kwNan_shape {kw : Bytes} (h : KwOf kwNan kw) :
    ∃ a b c, kw = [a, b, c] ∧ (a = 110 ∨ a = 78) ∧ (b = 97 ∨ b = 65) := by
  obtain ⟨a, b, c, rfl⟩ := kw3_shape (kw := kwNan) rfl h
  have e1 : lowerByte 110 = 110 := by decide
  have e2 : lowerByte 97 = 97 := by decide
  have : lowerByte a = 110 ∧ lowerByte b = 97 ∧ lowerByte c = 110 := by
    simpa [KwOf, kwNan, e1, e2] using h
  exact ⟨a, b, c, rfl, lower_n a this.1, lower_a b this.2.1⟩

theorem kwInf_shape {kw : Bytes} (h : KwOf kwInf kw) :
    ∃ a b c, kw = [a, b, c] ∧ (a = 105 ∨ a = 73) ∧ (b = 110 ∨ b = 78) := by
  obtain ⟨a, b, c, rfl⟩ := kw3_shape (kw := kwInf) rfl h
  have e1 : lowerByte 105 = 105 := by decide
  have e2 : lowerByte 110 = 110 := by decide
  have e3 : lowerByte 102 = 102 := by decide
  have : lowerByte a = 105 ∧ lowerByte b = 110 ∧ lowerByte c = 102 := by
    simpa [KwOf, kwInf, e1, e2, e3] using h
  exact ⟨a, b, c, rfl, lower_i a this.1, lower_n b this.2.1⟩

/-- first byte of a literal -/
def valHead (c : UInt8) : Bool :=
  isDigit c || c == 45 || c == 43 || c == 46 || c == 34 || c == 110 || c == 116 || c == 102 ||
  c == 78 || c == 105 || c == 73

theorem FloatText.render_head (x : FloatText) (hx : x.good = true) :
    ∃ c t, x.render = c :: t ∧ (isDigit c || c == 45 || c == 46) = true := by
  have hg : (((x.ints.all isDigit = true ∧ x.fracs.all isDigit = true) ∧ x.exps.all isDigit = true) ∧
      (x.ints ≠ [] ∨ x.fracs ≠ [])) ∧ (x.fracs ≠ [] ∨ x.exps ≠ []) := by
    simpa [FloatText.good] using hx
  obtain ⟨⟨⟨⟨hi, hf⟩, he⟩, hne⟩, hne2⟩ := hg
  unfold FloatText.render
  cases x.neg with
  | true => exact ⟨45, _, rfl, by decide⟩
  | false =>
    simp only [Bool.false_eq_true, if_false, List.nil_append]
    cases hi' : x.ints with
    | cons d t =>
      rw [hi'] at hi
      have : isDigit d = true ∧ t.all isDigit = true := by simpa using hi
      exact ⟨d, _, rfl, by simp [this.1]⟩
    | nil =>
      have hf0 : x.fracs ≠ [] := by rcases hne with h | h; exact absurd hi' h; exact h
      have hfe : x.fracs.isEmpty = false := by cases h : x.fracs; exact absurd h hf0; rfl
      simp only [FloatText.fracPart, hfe, Bool.false_eq_true, if_false, List.nil_append,
        List.cons_append]
      exact ⟨46, _, rfl, by decide⟩

theorem RVal.head {v : PathValue} {s : Bytes} (h : RVal v s) :
    ∃ c t, s = c :: t ∧ valHead c = true := by
  cases h with
  | null => exact ⟨110, _, rfl, by decide⟩
  | litTrue => exact ⟨116, _, rfl, by decide⟩
  | litFalse => exact ⟨102, _, rfl, by decide⟩
  | uint n hn =>
    obtain ⟨c, t, ht, hc⟩ := decBytes_head' n
    exact ⟨c, t, ht, by simp [valHead, hc]⟩
  | int i hi hneg =>
    exact ⟨45, _, by unfold intBytes; rw [if_pos hneg], by decide⟩
  | intPlus n hn => exact ⟨43, _, rfl, by decide⟩
  | float x hx =>
    obtain ⟨c, t, ht, hc⟩ := x.render_head hx
    refine ⟨c, t, ht, ?_⟩
    have : ∀ c, (isDigit c || c == 45 || c == 46) = true → valHead c = true := by bytes_decide
    exact this c hc
  | nan kw hkw =>
    obtain ⟨a, b, c, rfl, ha, _⟩ := kwNan_shape hkw
    exact ⟨a, _, rfl, by rcases ha with rfl | rfl <;> decide⟩
  | inf kw hkw =>
    obtain ⟨a, b, c, rfl, ha, _⟩ := kwInf_shape hkw
    exact ⟨a, _, rfl, by rcases ha with rfl | rfl <;> decide⟩
  | str s q hq =>
    obtain ⟨t, rfl⟩ := hq.head
    exact ⟨34, t, rfl, by decide⟩

/-- the seven alternatives of `path_value` -/
def pvA1 : Parser PathValue := value PathValue.null (tag kwNull)
def pvA2 : Parser PathValue := value (PathValue.bool true) (tag kwTrue)
def pvA3 : Parser PathValue := value (PathValue.bool false) (tag kwFalse)
def pvA4 : Parser PathValue :=
  map (terminated u64 (Nom.not dotOrE)) (fun v => PathValue.num (Num.uint v))
def pvA5 : Parser PathValue :=
  map (terminated i64 (Nom.not dotOrE)) (fun v => PathValue.num (Num.int v))
def pvA6 : Parser PathValue := map double (fun b => PathValue.num (Num.float b))
def pvA7 : Parser PathValue := map string PathValue.str

theorem pathValue_eq : pathValue = alt pvA1 (alt pvA2 (alt pvA3 (alt pvA4 (alt pvA5 (alt pvA6 pvA7))))) :=
  rfl

theorem pvA123_error (c : UInt8) (X : Bytes) (h : c ≠ 110 ∧ c ≠ 116 ∧ c ≠ 102) :
    pvA1 (c :: X) = .error ∧ pvA2 (c :: X) = .error ∧ pvA3 (c :: X) = .error :=
  ⟨value_error (tag_miss _ _ _ _ h.1), value_error (tag_miss _ _ _ _ h.2.1),
   value_error (tag_miss _ _ _ _ h.2.2)⟩

theorem terminated_error {α β} {p : Parser α} {q : Parser β} {i : Bytes} (h : p i = .error) :
    terminated p q i = .error := by simp [terminated, h, PR.bind]

theorem terminated_ok {α β} {p : Parser α} {q : Parser β} {i r r' : Bytes} {a : α} {b : β}
    (h : p i = .ok a r) (h2 : q r = .ok b r') : terminated p q i = .ok a r' := by
  simp [terminated, h, h2, PR.bind]

/-- `path_value` on one of the words nom's `double` accepts -/
theorem pathValue_word (a b c : UInt8) (r : Bytes) (v : Nat)
    (ha : a = 110 ∨ a = 78 ∨ a = 105 ∨ a = 73) (hb : b ≠ 117)
    (hd : double (a :: b :: c :: r) = .ok v r) :
    pathValue (a :: b :: c :: r) = .ok (.num (.float v)) r := by
  have hb' : (117 == b) = false := by simpa using (fun e : (117 : UInt8) = b => hb e.symm)
  have h1 : pvA1 (a :: b :: c :: r) = .error := by
    apply value_error
    by_cases h110 : a = 110
    · subst h110; simp [tag, isPrefix, kwNull, hb']
    · exact tag_miss _ _ _ _ h110
  have h2 : pvA2 (a :: b :: c :: r) = .error :=
    value_error (tag_miss _ _ _ _ (by rcases ha with rfl | rfl | rfl | rfl <;> decide))
  have h3 : pvA3 (a :: b :: c :: r) = .error :=
    value_error (tag_miss _ _ _ _ (by rcases ha with rfl | rfl | rfl | rfl <;> decide))
  have h4 : pvA4 (a :: b :: c :: r) = .error :=
    map_error (terminated_error (u64_nondigit _ _ (by rcases ha with rfl | rfl | rfl | rfl <;> decide)))
  have h5 : pvA5 (a :: b :: c :: r) = .error :=
    map_error (terminated_error (i64_nondigit _ _ (by rcases ha with rfl | rfl | rfl | rfl <;> decide)
      (by rcases ha with rfl | rfl | rfl | rfl <;> decide)
      (by rcases ha with rfl | rfl | rfl | rfl <;> decide)))
  rw [pathValue_eq, alt_error h1, alt_error h2, alt_error h3, alt_error h4, alt_error h5]
  exact alt_ok (map_ok hd)

/-- `path_value` reads back every rendering of a literal -/
theorem pathValue_render {v : PathValue} {s : Bytes} (h : RVal v s) (r : Bytes)
    (hr : HeadOk numFollow r) : pathValue (s ++ r) = .ok v r := by
  have hnd : noDigitHead r := noDigitHead_of (hr.mono numFollow_notDigit)
  have hnot : Nom.not dotOrE r = .ok () r := not_dotOrE r (hr.mono numFollow_notDotOrE)
  rw [pathValue_eq]
  cases h with
  | null => exact alt_ok (value_ok (tag_hit _ _))
  | litTrue =>
    have h1 : pvA1 (kwTrue ++ r) = .error := value_error (tag_miss _ _ _ _ (by decide))
    rw [alt_error h1]
    exact alt_ok (value_ok (tag_hit _ _))
  | litFalse =>
    have h1 : pvA1 (kwFalse ++ r) = .error := value_error (tag_miss _ _ _ _ (by decide))
    have h2 : pvA2 (kwFalse ++ r) = .error := value_error (tag_miss _ _ _ _ (by decide))
    rw [alt_error h1, alt_error h2]
    exact alt_ok (value_ok (tag_hit _ _))
  | uint n hn =>
    obtain ⟨c, t, ht, hc⟩ := decBytes_head' n
    have hd3 : ∀ c, isDigit c = true → c ≠ 110 ∧ c ≠ 116 ∧ c ≠ 102 := by bytes_decide
    have h123 := pvA123_error c (t ++ r) (hd3 c hc)
    have e : decBytes n ++ r = c :: (t ++ r) := by rw [ht]; rfl
    rw [← e] at h123
    rw [alt_error h123.1, alt_error h123.2.1, alt_error h123.2.2]
    exact alt_ok (map_ok (terminated_ok (u64_decBytes n hn r hnd) hnot))
  | int i hi hneg =>
    have e : intBytes i = 45 :: decBytes i.natAbs := by unfold intBytes; rw [if_pos hneg]
    have h123 := pvA123_error 45 (decBytes i.natAbs ++ r) (by decide)
    have h4 : pvA4 (45 :: (decBytes i.natAbs ++ r)) = .error :=
      map_error (terminated_error (u64_nondigit _ _ (by decide)))
    have h5 : pvA5 (intBytes i ++ r) = .ok (.num (.int i)) r :=
      map_ok (terminated_ok (i64_intBytes i hi r hnd) hnot)
    rw [e] at h5 ⊢
    simp only [List.cons_append] at h5 ⊢
    rw [alt_error h123.1, alt_error h123.2.1, alt_error h123.2.2, alt_error h4]
    exact alt_ok h5
  | intPlus n hn =>
    have h123 := pvA123_error 43 (decBytes n ++ r) (by decide)
    have h4 : pvA4 (43 :: (decBytes n ++ r)) = .error :=
      map_error (terminated_error (u64_nondigit _ _ (by decide)))
    have h5 : pvA5 (43 :: (decBytes n ++ r)) = .ok (.num (.int n)) r :=
      map_ok (terminated_ok (i64_plus n hn r hnd) hnot)
    simp only [List.cons_append]
    rw [alt_error h123.1, alt_error h123.2.1, alt_error h123.2.2, alt_error h4]
    exact alt_ok h5
  | float x hx =>
    obtain ⟨c, t, ht, hc⟩ := x.render_head hx
    have hd3 : ∀ c, (isDigit c || c == 45 || c == 46) = true → c ≠ 110 ∧ c ≠ 116 ∧ c ≠ 102 := by
      bytes_decide
    have h123 := pvA123_error c (t ++ r) (hd3 c hc)
    have e : x.render ++ r = c :: (t ++ r) := by rw [ht]; rfl
    rw [← e] at h123
    have hg : (((x.ints.all isDigit = true ∧ x.fracs.all isDigit = true) ∧ x.exps.all isDigit = true) ∧
        (x.ints ≠ [] ∨ x.fracs ≠ [])) ∧ (x.fracs ≠ [] ∨ x.exps ≠ []) := by
      simpa [FloatText.good] using hx
    obtain ⟨⟨⟨⟨hi, hf⟩, he⟩, hne⟩, hne2⟩ := hg
    -- the text is: sign, integer digits, then `.`, `e` or `E`
    have hsplit : ∃ c' Y, dotOrEByte c' = true ∧ x.fracPart ++ (x.expPart ++ r) = c' :: Y := by
      unfold FloatText.fracPart FloatText.expPart
      by_cases hf0 : x.fracs.isEmpty = true
      · have he0 : ¬ (x.exps.isEmpty = true) := by
          intro h0
          have h1 : x.fracs = [] := by cases h' : x.fracs; rfl; rw [h'] at hf0; cases hf0
          have h2 : x.exps = [] := by cases h' : x.exps; rfl; rw [h'] at h0; cases h0
          rcases hne2 with h | h
          · exact h h1
          · exact h h2
        rw [if_pos hf0, if_neg he0]
        cases x.upperE
        · exact ⟨101, x.expSignBytes ++ x.exps ++ r, by decide, by simp⟩
        · exact ⟨69, x.expSignBytes ++ x.exps ++ r, by decide, by simp⟩
      · rw [if_neg hf0]
        exact ⟨46, _, by decide, rfl⟩
    obtain ⟨c', Y, hc', hsp0⟩ := hsplit
    have hsp : x.render ++ r = (if x.neg then [45] else []) ++ (x.ints ++ c' :: Y) := by
      unfold FloatText.render
      simp only [List.append_assoc]
      rw [hsp0]
    have h5 : pvA5 (x.render ++ r) = .error := by
      rw [hsp]; exact map_error (i64_term_digits_error x.neg x.ints c' Y hi hc')
    have h4 : pvA4 (x.render ++ r) = .error := by
      rw [hsp]
      cases x.neg with
      | true => exact map_error (terminated_error (u64_nondigit _ _ (by decide)))
      | false => exact map_error (u64_term_digits_error x.ints c' Y hi hc')
    have h6 : pvA6 (x.render ++ r) = .ok (.num (.float x.lit.bits)) r := by
      apply map_ok
      unfold double
      exact alt_ok (map_ok (recognizeFloat_render x hx r hr))
    rw [alt_error h123.1, alt_error h123.2.1, alt_error h123.2.2, alt_error h4, alt_error h5]
    exact alt_ok h6
  | nan kw hkw =>
    obtain ⟨a, b, c, rfl, ha, hb⟩ := kwNan_shape hkw
    rw [← pathValue_eq]
    apply pathValue_word a b c r _ (by rcases ha with rfl | rfl <;> simp)
      (by rcases hb with rfl | rfl <;> decide)
    have hrf : recognizeFloat (a :: b :: c :: r) = .error :=
      recognizeFloat_error_head a _ (by rcases ha with rfl | rfl <;> decide)
        (by rcases ha with rfl | rfl <;> decide) (by rcases ha with rfl | rfl <;> decide)
        (by rcases ha with rfl | rfl <;> decide)
    have ht := tagNoCase_kw kwNan [a, b, c] r hkw
    unfold double
    rw [alt_error (map_error hrf)]
    exact alt_ok (value_ok ht)
  | inf kw hkw =>
    obtain ⟨a, b, c, rfl, ha, hb⟩ := kwInf_shape hkw
    rw [← pathValue_eq]
    apply pathValue_word a b c r _ (by rcases ha with rfl | rfl <;> simp)
      (by rcases hb with rfl | rfl <;> decide)
    have hrf : recognizeFloat (a :: b :: c :: r) = .error :=
      recognizeFloat_error_head a _ (by rcases ha with rfl | rfl <;> decide)
        (by rcases ha with rfl | rfl <;> decide) (by rcases ha with rfl | rfl <;> decide)
        (by rcases ha with rfl | rfl <;> decide)
    have hn : value F64.canonNaN (tagNoCase [110, 97, 110]) (a :: b :: c :: r) = .error := by
      apply value_error
      rcases ha with rfl | rfl <;> simp [tagNoCase, isPrefixNoCase, lowerByte]
    have ht := tagNoCase_kw kwInf [a, b, c] r hkw
    unfold double
    rw [alt_error (map_error hrf), alt_error hn]
    exact alt_ok (value_ok ht)
  | str s q hq =>
    obtain ⟨t, rfl⟩ := hq.head
    have h123 := pvA123_error 34 (t ++ r) (by decide)
    have h4 : pvA4 (34 :: (t ++ r)) = .error :=
      map_error (terminated_error (u64_nondigit _ _ (by decide)))
    have h5 : pvA5 (34 :: (t ++ r)) = .error :=
      map_error (terminated_error (i64_nondigit _ _ (by decide) (by decide) (by decide)))
    have h6 : pvA6 (34 :: (t ++ r)) = .error := map_error (double_error_head _ _ (by decide))
    have h7 : pvA7 (34 :: t ++ r) = .ok (.str s) r := map_ok (string_quoted hq r)
    simp only [List.cons_append] at h7 ⊢
    rw [alt_error h123.1, alt_error h123.2.1, alt_error h123.2.2, alt_error h4, alt_error h5,
      alt_error h6]
    exact h7

/-- bytes on which `path_value` fails at once -/
def notLitHead (c : UInt8) : Bool :=
  !(isDigit c || c == 43 || c == 45 || c == 46 || c == 34 || lowerByte c == 110 ||
    lowerByte c == 105 || c == 116 || c == 102)

theorem pathValue_error_head (c : UInt8) (X : Bytes) (h : notLitHead c = true) :
    pathValue (c :: X) = .error := by
  have f1 : ∀ c, notLitHead c = true → c ≠ 110 ∧ c ≠ 116 ∧ c ≠ 102 := by bytes_decide
  have f2 : ∀ c, notLitHead c = true → isDigit c = false ∧ c ≠ 45 ∧ c ≠ 43 ∧ c ≠ 34 := by bytes_decide
  have f3 : ∀ c, notLitHead c = true →
      (isDigit c || c == 43 || c == 45 || c == 46 || lowerByte c == 110 || lowerByte c == 105) = false := by
    bytes_decide
  have h123 := pvA123_error c X (f1 c h)
  obtain ⟨g1, g2, g3, g4⟩ := f2 c h
  have h4 : pvA4 (c :: X) = .error := map_error (terminated_error (u64_nondigit _ _ g1))
  have h5 : pvA5 (c :: X) = .error := map_error (terminated_error (i64_nondigit _ _ g2 g3 g1))
  have h6 : pvA6 (c :: X) = .error := map_error (double_error_head _ _ (f3 c h))
  have h7 : pvA7 (c :: X) = .error :=
    map_error (string_error _ (by intro t e; simp at e; exact g4 e.1))
  rw [pathValue_eq, alt_error h123.1, alt_error h123.2.1, alt_error h123.2.2, alt_error h4,
    alt_error h5, alt_error h6]
  exact h7

theorem pathValue_nil : pathValue [] = .error := by
  rw [pathValue_eq]
  have h1 : pvA1 [] = .error := value_error (tag_nil _ _)
  have h2 : pvA2 [] = .error := value_error (tag_nil _ _)
  have h3 : pvA3 [] = .error := value_error (tag_nil _ _)
  have h4 : pvA4 [] = .error := map_error (terminated_error u64_nil)
  have h5 : pvA5 [] = .error := map_error (terminated_error i64_nil)
  have h6 : pvA6 [] = .error := map_error double_nil
  have h7 : pvA7 [] = .error := map_error rfl
  rw [alt_error h1, alt_error h2, alt_error h3, alt_error h4, alt_error h5, alt_error h6]
  exact h7

/-! ### comparison operands -/

theorem delimited_ws {α} (P : Parser α) (i X r' : Bytes) (a : α) (hi : dropSpaces i = X)
    (hP : P X = .ok a r') : delimited ws P ws i = .ok a (dropSpaces r') := by
  simp [delimited, ws_eq, hi, hP, PR.bind]

theorem delimited_ws_error {α} (P : Parser α) (i X : Bytes) (hi : dropSpaces i = X)
    (hP : P X = .error) : delimited ws P ws i = .error := by
  simp [delimited, ws_eq, hi, hP, PR.bind]

/-- the first element of an operand path: `$`, or `@` where it is allowed (not in a top-level
predicate) -/
inductive RHead : Bool → Path → UInt8 → Prop
  | root (rp : Bool) : RHead rp .root 36
  | current : RHead false .current 64

theorem exprPaths_render {rp : Bool} {hd : Path} {c : UInt8} (h : RHead rp hd c) (X r' : Bytes)
    (ps : List Path) (hm : many0 (delimited ws innerPath ws) X = .ok ps r') :
    exprPaths rp (c :: X) = .ok (hd :: ps) r' := by
  cases h with
  | root => simp [exprPaths, map, pair, alt, value, char, hm, PR.bind]
  | current => simp [exprPaths, map, pair, alt, value, char, mapRes, Nom.cond, hm, PR.bind]

theorem exprPaths_error (rp : Bool) (c : UInt8) (X : Bytes) (h1 : c ≠ 36) (h2 : c ≠ 64) :
    exprPaths rp (c :: X) = .error := by
  cases rp <;> simp [exprPaths, map, pair, alt, value, char, mapRes, Nom.cond, h1, h2, PR.bind]

theorem exprPaths_nil (rp : Bool) : exprPaths rp [] = .error := by
  cases rp <;> simp [exprPaths, map, pair, alt, value, char, mapRes, Nom.cond, PR.bind]

/-- Renderings of a comparison operand: `$`/`@` followed by plain steps, or a literal; trailing
whitespace included. -/
inductive ROperand (rp : Bool) : Expr → Bytes → Prop
  | paths (hd : Path) (ps : List Path) (c : UInt8) (t w : Bytes) : RHead rp hd c →
      RPlainSteps ps t → Ws w → ROperand rp (.paths (hd :: ps)) (c :: (t ++ w))
  | value (v : PathValue) (s w : Bytes) : RVal v s → Ws w → ROperand rp (.value v) (s ++ w)

def operandHead (c : UInt8) : Bool := c == 36 || c == 64 || valHead c

theorem ROperand.head {rp : Bool} {x : Expr} {s : Bytes} (h : ROperand rp x s) :
    ∃ c t, s = c :: t ∧ operandHead c = true := by
  cases h with
  | paths hd ps c t w hh =>
    cases hh
    · exact ⟨36, _, rfl, by decide⟩
    · exact ⟨64, _, rfl, by decide⟩
  | value v s w hv =>
    obtain ⟨c, t, rfl, hc⟩ := hv.head
    exact ⟨c, _, rfl, by simp [operandHead, hc]⟩

theorem operandHead_ns : ∀ c, operandHead c = true → isSpace c = false := by bytes_decide

theorem ROperand.ns {rp : Bool} {x : Expr} {s : Bytes} (h : ROperand rp x s) (r : Bytes) :
    dropSpaces (s ++ r) = s ++ r := by
  obtain ⟨c, t, rfl, hc⟩ := h.head
  exact dropSpaces_nonspace _ _ (operandHead_ns c hc)

/-- what may follow an operand (after whitespace): a comparison operator, `)`, `&&`, `||` -/
def opFollow (c : UInt8) : Bool :=
  c == 61 || c == 33 || c == 60 || c == 62 || c == 41 || c == 38 || c == 124

theorem opFollow_afterSteps : ∀ c, opFollow c = true → afterSteps c = true := by bytes_decide
theorem opFollow_numFollow : ∀ c, opFollow c = true → numFollow c = true := by bytes_decide

/-- `delimited(multispace0, inner_expr, multispace0)` reads back every rendering of an operand;
only the input after the leading whitespace matters -/
theorem operand_render {rp : Bool} {x : Expr} {s : Bytes} (h : ROperand rp x s) (r : Bytes)
    (hr : HeadOk opFollow (dropSpaces r)) (i : Bytes) (hi : dropSpaces i = dropSpaces (s ++ r)) :
    delimited ws (innerExpr rp) ws i = .ok x (dropSpaces r) := by
  rw [h.ns] at hi
  cases h with
  | paths hd ps c t w hh ht hw =>
    have hd' : dropSpaces (w ++ r) = dropSpaces r := dropSpaces_ws _ _ hw
    obtain ⟨r', h1, h2⟩ := plainSteps_loop ht (w ++ r)
      (by rw [hd']; exact hr.mono opFollow_afterSteps) (t ++ (w ++ r)) rfl
      ((t ++ (w ++ r)).length + 1) [] (by omega)
    have hm : many0 (delimited ws innerPath ws) (t ++ (w ++ r)) = .ok ps r' := by
      unfold many0; rw [h1]; simp
    have he := exprPaths_render hh _ _ _ hm
    have hie : innerExpr rp (c :: (t ++ (w ++ r))) = .ok (.paths (hd :: ps)) r' := by
      unfold innerExpr
      exact alt_ok (map_ok he)
    have := delimited_ws (innerExpr rp) i _ _ _ (by rw [hi]; simp) hie
    rw [this, h2, hd']
  | value v s w hv hw =>
    obtain ⟨c, t, rfl, hc⟩ := hv.head
    have hc36 : ∀ c, valHead c = true → c ≠ 36 ∧ c ≠ 64 := by bytes_decide
    have hd' : dropSpaces (w ++ r) = dropSpaces r := dropSpaces_ws _ _ hw
    have hf : HeadOk numFollow (w ++ r) :=
      HeadOk.of_dropSpaces space_numFollow (by rw [hd']; exact hr.mono opFollow_numFollow)
    have hpv : pathValue (c :: (t ++ (w ++ r))) = .ok v (w ++ r) := pathValue_render hv (w ++ r) hf
    have hie : innerExpr rp (c :: (t ++ (w ++ r))) = .ok (.value v) (w ++ r) := by
      unfold innerExpr
      rw [alt_error (map_error (exprPaths_error rp c _ (hc36 c hc).1 (hc36 c hc).2))]
      exact map_ok hpv
    have := delimited_ws (innerExpr rp) i _ _ _ (by rw [hi]; simp) hie
    rw [this, hd']

/-- bytes on which `inner_expr` fails at once -/
def notExprHead (c : UInt8) : Bool := notLitHead c && c != 36 && c != 64

theorem innerExpr_error_head (rp : Bool) (c : UInt8) (X : Bytes) (h : notExprHead c = true) :
    innerExpr rp (c :: X) = .error := by
  have f : ∀ c, notExprHead c = true → notLitHead c = true ∧ c ≠ 36 ∧ c ≠ 64 := by bytes_decide
  obtain ⟨h1, h2, h3⟩ := f c h
  unfold innerExpr
  rw [alt_error (map_error (exprPaths_error rp c X h2 h3))]
  exact map_error (pathValue_error_head c X h1)

theorem innerExpr_nil (rp : Bool) : innerExpr rp [] = .error := by
  unfold innerExpr
  rw [alt_error (map_error (exprPaths_nil rp))]
  exact map_error pathValue_nil

/-! ### comparison operators -/

/-- Renderings of the comparison operators (`!=` and `<>` both denote `Ne`). -/
inductive ROp : BinOp → Bytes → Prop
  | eq : ROp .eq [61, 61]
  | ne : ROp .ne [33, 61]
  | ne' : ROp .ne [60, 62]
  | le : ROp .le [60, 61]
  | lt : ROp .lt [60]
  | ge : ROp .ge [62, 61]
  | gt : ROp .gt [62]

theorem ROp.head {o : BinOp} {s : Bytes} (h : ROp o s) :
    ∃ c t, s = c :: t ∧ opFollow c = true ∧ isSpace c = false := by
  cases h <;> exact ⟨_, _, rfl, by decide, by decide⟩

/-- `op` reads back every operator rendering, if the next byte is neither `=` nor `>` -/
theorem op_render {o : BinOp} {s : Bytes} (h : ROp o s) (X : Bytes)
    (hX : HeadOk (fun c => c != 61 && c != 62) X) : op (s ++ X) = .ok o X := by
  cases X with
  | nil => cases h <;> simp [op, alt, value, tag, isPrefix, char, PR.bind]
  | cons c t =>
    have hc : c ≠ 61 ∧ c ≠ 62 := by simpa using hX.head
    have h1 : (62 == c) = false := by simpa using (fun e : (62 : UInt8) = c => hc.2 e.symm)
    have h2 : (61 == c) = false := by simpa using (fun e : (61 : UInt8) = c => hc.1 e.symm)
    cases h <;> simp [op, alt, value, tag, isPrefix, char, h1, h2, PR.bind]

theorem binaryArithOp_error_op {o : BinOp} {s : Bytes} (h : ROp o s) (X : Bytes) :
    binaryArithOp (s ++ X) = .error := by
  cases h <;> simp [binaryArithOp, alt, value, char, PR.bind]

theorem tuple3_ok {α β γ} {p : Parser α} {q : Parser β} {s : Parser γ} {i r1 r2 r3 : Bytes}
    {a : α} {b : β} {c : γ} (h1 : p i = .ok a r1) (h2 : q r1 = .ok b r2) (h3 : s r2 = .ok c r3) :
    tuple3 p q s i = .ok (a, b, c) r3 := by simp [tuple3, h1, h2, h3, PR.bind]

theorem tuple3_error1 {α β γ} {p : Parser α} {q : Parser β} {s : Parser γ} {i : Bytes}
    (h1 : p i = .error) : tuple3 p q s i = .error := by simp [tuple3, h1, PR.bind]

theorem tuple3_error2 {α β γ} {p : Parser α} {q : Parser β} {s : Parser γ} {i r1 : Bytes} {a : α}
    (h1 : p i = .ok a r1) (h2 : q r1 = .error) : tuple3 p q s i = .error := by
  simp [tuple3, h1, h2, PR.bind]

theorem operandHead_notOp : ∀ c, (isSpace c || operandHead c) = true → (c != 61 && c != 62) = true := by
  bytes_decide

/-- the five alternatives of `expr_atom` -/
def eaB1 (rp : Bool) : Parser Expr :=
  map (tuple3 (delimited ws (innerExpr rp) ws) binaryArithOp (delimited ws (innerExpr rp) ws))
    (fun t => Expr.arithBinary t.2.1 t.1 t.2.2)
def eaB2 (rp : Bool) : Parser Expr :=
  map (tuple3 (delimited ws (innerExpr rp) ws) op (delimited ws (innerExpr rp) ws))
    (fun t => Expr.binaryOp t.2.1 t.1 t.2.2)
def eaB3 (rp : Bool) : Parser Expr :=
  map (pair unaryArithOp (delimited ws (innerExpr rp) ws)) (fun t => Expr.arithUnary t.1 t.2)
def eaB4 (R : Bool → Parser Expr) (rp : Bool) : Parser Expr :=
  delimited (terminated (char 40) ws) (R rp) (preceded ws (char 41))
def eaB5 (R : Bool → Parser Expr) : Parser Expr := map (existsFn R) Expr.existsFn

theorem exprAtom_eq (R : Bool → Parser Expr) (rp : Bool) :
    exprAtom R rp = alt (eaB1 rp) (alt (eaB2 rp) (alt (eaB3 rp) (alt (eaB4 R rp) (eaB5 R)))) := rfl

/-- `expr_atom` reads back every rendering of a comparison -/
theorem cmp_render (R : Bool → Parser Expr) {rp : Bool} {o : BinOp} {l r : Expr}
    {sl so sr : Bytes} (w1 : Bytes) (hl : ROperand rp l sl) (ho : ROp o so) (hw1 : Ws w1)
    (hr : ROperand rp r sr) (rest : Bytes) (hrest : HeadOk opFollow (dropSpaces rest)) (i : Bytes)
    (hi : dropSpaces i = dropSpaces (sl ++ (so ++ (w1 ++ (sr ++ rest))))) :
    exprAtom R rp i = .ok (.binaryOp o l r) (dropSpaces rest) := by
  obtain ⟨oc, ot, hso, hoc, hons⟩ := ho.head
  have hd1 : dropSpaces (so ++ (w1 ++ (sr ++ rest))) = so ++ (w1 ++ (sr ++ rest)) := by
    rw [hso]; exact dropSpaces_nonspace _ _ hons
  have hL1 : delimited ws (innerExpr rp) ws i = .ok l (so ++ (w1 ++ (sr ++ rest))) := by
    have := operand_render hl (so ++ (w1 ++ (sr ++ rest)))
      (by rw [hd1, hso]; exact HeadOk.cons hoc) i hi
    rw [this, hd1]
  have hX : HeadOk (fun c => c != 61 && c != 62) (w1 ++ (sr ++ rest)) := by
    obtain ⟨c, t, rfl, hc⟩ := hr.head
    cases w1 with
    | nil => exact HeadOk.cons (operandHead_notOp c (by simp [hc]))
    | cons b w => exact HeadOk.cons (operandHead_notOp b (by simp [hw1.cons.1]))
  have hop := op_render ho (w1 ++ (sr ++ rest)) hX
  have hL2 : delimited ws (innerExpr rp) ws (w1 ++ (sr ++ rest)) = .ok r (dropSpaces rest) :=
    operand_render hr rest hrest _ (dropSpaces_ws _ _ hw1)
  have hB1 : eaB1 rp i = .error :=
    map_error (tuple3_error2 hL1 (binaryArithOp_error_op ho _))
  have hB2 : eaB2 rp i = .ok (.binaryOp o l r) (dropSpaces rest) :=
    map_ok (tuple3_ok hL1 hop hL2)
  rw [exprAtom_eq, alt_error hB1]
  exact alt_ok hB2

end PathRT2
end Jsonb
