import JsonbModel.Proofs.TranslatedAgreeF5

set_option linter.unusedSimpArgs false
set_option linter.unusedVariables false

namespace Jsonb.TrAgree
open Jsonb.Rs

theorem kasScalar_string (bs : Bytes) : kasScalar 1 C.STRING_TAG bs = true := by
  simp [kasScalar, C.STRING_TAG, C.CONTAINER_TAG]

/-- what is known about the key entries: string-typed (the precondition), lengths of 28 bits -/
def KeysOK (ks : List (Nat × Nat)) : Prop := ∀ k ∈ ks, k.1 = C.STRING_TAG ∧ k.2 < 268435456

theorem KeysOK.cons {k : Nat × Nat} {ks : List (Nat × Nat)} (h : KeysOK (k :: ks)) :
    (k.1 = C.STRING_TAG ∧ k.2 < 268435456) ∧ KeysOK ks :=
  ⟨h k (by simp), fun x hx => h x (by simp [hx])⟩

/-- the member loop of `compare_object` is the model's `cmpObjLoop` (string-typed key entries) -/
theorem co_run3 (rec : Tr.JEntry → Bytes → Tr.JEntry → Bytes → Res Ordering) (left right : Bytes) (final : Ordering)
    (hl : left.length < 9223372036854775808) (hr : right.length < 9223372036854775808) :
    ∀ (n f : Nat) (i : Int) (lks rks : List (Nat × Nat)) (ljo rjo lko rko lvo rvo nl nr kl kr : Nat),
      CmpRecOK f rec → n ≤ lks.length → n ≤ rks.length → n ≤ nl → n ≤ nr → KeysOK lks → KeysOK rks →
      ljo + 4 * n + 4 < 18446744073709551616 → rjo + 4 * n + 4 < 18446744073709551616 →
      kasItems kl left nl ljo lvo = true → kasItems kr right nr rjo rvo = true →
      Fn.cmpObjLoop f left right n (lks.map Prod.snd) (rks.map Prod.snd) lko rko ljo rjo lvo rvo final ≠ .fuel →
      panicAny (finish (Rs.forRangeAux (Tr.compare_object.loop3 rec left right) n i
          (lks.map ofEntry, rks.map ofEntry, (ljo : Int), (rjo : Int), (lko : Int), (rko : Int), (lvo : Int), (rvo : Int))) final) =
        panicAny (Fn.cmpObjLoop f left right n (lks.map Prod.snd) (rks.map Prod.snd) lko rko ljo rjo lvo rvo final) := by
  intro n
  induction n with
  | zero =>
    intro f i lks rks ljo rjo lko rko lvo rvo nl nr kl kr hrec _ _ _ _ _ _ _ _ _ _ hne
    cases f with
    | zero => simp [Fn.cmpObjLoop] at hne
    | succ f => simp only [Fn.cmpObjLoop, Rs.forRangeAux_zero, finish]
  | succ n ih =>
    intro f i lks rks ljo rjo lko rko lvo rvo nl nr kl kr hrec hnlk hnrk hnl hnr hlks hrks hljo hrjo hkl hkr hne
    cases f with
    | zero => simp [Fn.cmpObjLoop] at hne
    | succ f =>
      cases lks with
      | nil => simp at hnlk
      | cons lk lks =>
      cases rks with
      | nil => simp at hnrk
      | cons rk rks =>
      obtain ⟨⟨hlk1, hlk2⟩, hlks'⟩ := hlks.cons
      obtain ⟨⟨hrk1, hrk2⟩, hrks'⟩ := hrks.cons
      obtain ⟨nl', rfl⟩ : ∃ m, nl = m + 1 := ⟨nl - 1, by omega⟩
      obtain ⟨nr', rfl⟩ : ∃ m, nr = m + 1 := ⟨nr - 1, by omega⟩
      have hstep := co_loop3_step rec left right i lk rk (lks.map ofEntry) (rks.map ofEntry) ljo rjo lko rko lvo rvo
        (by omega) (by omega) (by omega) (by omega) hl hr
      simp only [List.map_cons] at hne ⊢
      rw [Fn.cmpObjLoop] at hne ⊢
      by_cases h1 : lko ≤ left.length
      swap
      · rw [if_neg h1] at hstep
        rw [Rs.forRangeAux_ret _ _ _ _ _ hstep, sliceFrom_model_panic _ _ h1]
        rfl
      by_cases h2 : rko ≤ right.length
      swap
      · rw [if_pos h1, if_neg h2] at hstep
        rw [Rs.forRangeAux_ret _ _ _ _ _ hstep, sliceFrom_model_ok _ _ h1, sliceFrom_model_panic _ _ h2]
        rfl
      rw [if_pos h1, if_pos h2] at hstep
      rw [sliceFrom_model_ok _ _ h1, sliceFrom_model_ok _ _ h2] at hne ⊢
      dsimp only at hne ⊢
      have hks : Fn.cmpScalar f ⟨C.STRING_TAG, lk.2, 0⟩ (left.drop lko) ⟨C.STRING_TAG, rk.2, 0⟩ (right.drop rko) ≠ .fuel := by
        intro c; rw [c] at hne; exact hne rfl
      have hkcall := hrec f (by omega) ⟨C.STRING_TAG, lk.2, 0⟩ ⟨C.STRING_TAG, rk.2, 0⟩ (left.drop lko) (right.drop rko) 1 1
        (by simp; omega) (by simp; omega) (by simp only []; omega) (by simp only []; omega)
        (kasScalar_string _) (kasScalar_string _) hks
      have e1 : ofJE ⟨C.STRING_TAG, lk.2, 0⟩ = ofEntry lk := by
        obtain ⟨a, b⟩ := lk; simp only [] at hlk1; subst hlk1; rfl
      have e2 : ofJE ⟨C.STRING_TAG, rk.2, 0⟩ = ofEntry rk := by
        obtain ⟨a, b⟩ := rk; simp only [] at hrk1; subst hrk1; rfl
      rw [e1, e2] at hkcall
      cases hkd : Fn.cmpScalar f ⟨C.STRING_TAG, lk.2, 0⟩ (left.drop lko) ⟨C.STRING_TAG, rk.2, 0⟩ (right.drop rko) with
      | fuel => exact absurd hkd hks
      | err e =>
        rw [hkd] at hkcall
        rw [panicAny_err _ _ hkcall] at hstep
        simp only [Ctl.ofRes_err', Ctl.ret_bind'] at hstep
        rw [Rs.forRangeAux_ret _ _ _ _ _ hstep]
        rfl
      | panic p =>
        rw [hkd] at hkcall
        obtain ⟨p', hp'⟩ := panicAny_panic _ _ hkcall
        rw [hp'] at hstep
        simp only [Ctl.ofRes_panic', Ctl.ret_bind'] at hstep
        rw [Rs.forRangeAux_ret _ _ _ _ _ hstep]
        rfl
      | ok ko =>
        rw [hkd] at hkcall hne
        rw [panicAny_ok _ _ hkcall] at hstep
        simp only [Ctl.ofRes_ok', Ctl.val_bind'] at hstep
        cases ko with
        | lt =>
          simp only [ne_eq, reduceCtorEq, not_false_eq_true, if_true] at hstep
          rw [Rs.forRangeAux_ret _ _ _ _ _ hstep]
          rfl
        | gt =>
          simp only [ne_eq, reduceCtorEq, not_false_eq_true, if_true] at hstep
          rw [Rs.forRangeAux_ret _ _ _ _ _ hstep]
          rfl
        | eq =>
          simp only [ne_eq, not_true_eq_false, if_false] at hstep
          dsimp only at hne ⊢
          cases hlw : readU32At left ljo with
          | none =>
            rw [hlw] at hstep
            rw [Rs.forRangeAux_ret _ _ _ _ _ hstep, readJe_none _ _ hlw]
            rfl
          | some lw =>
            rw [hlw] at hstep
            rw [readJe_some _ _ _ hlw] at hne ⊢
            cases hrw : readU32At right rjo with
            | none =>
              rw [hrw] at hstep
              rw [Rs.forRangeAux_ret _ _ _ _ _ hstep, readJe_none _ _ hrw]
              rfl
            | some rw =>
              rw [hrw] at hstep
              rw [readJe_some _ _ _ hrw] at hne ⊢
              dsimp only at hstep hne ⊢
              by_cases h3 : lvo ≤ left.length
              swap
              · rw [if_neg h3] at hstep
                rw [Rs.forRangeAux_ret _ _ _ _ _ hstep, sliceFrom_model_panic _ _ h3]
                rfl
              by_cases h4 : rvo ≤ right.length
              swap
              · rw [if_pos h3, if_neg h4] at hstep
                rw [Rs.forRangeAux_ret _ _ _ _ _ hstep, sliceFrom_model_ok _ _ h3, sliceFrom_model_panic _ _ h4]
                rfl
              rw [if_pos h3, if_pos h4] at hstep
              rw [sliceFrom_model_ok _ _ h3, sliceFrom_model_ok _ _ h4] at hne ⊢
              dsimp only at hne ⊢
              obtain ⟨kl', hkl1, hkl2⟩ := kasItems_succ kl left nl' ljo lvo lw hkl hlw
              obtain ⟨kr', hkr1, hkr2⟩ := kasItems_succ kr right nr' rjo rvo rw hkr hrw
              have hs : Fn.cmpScalar f (JE.ofWord lw) (left.drop lvo) (JE.ofWord rw) (right.drop rvo) ≠ .fuel := by
                intro c; rw [c] at hne; exact hne rfl
              have hcall := hrec f (by omega) (JE.ofWord lw) (JE.ofWord rw) (left.drop lvo) (right.drop rvo) kl' kr'
                (by simp; omega) (by simp; omega) (by have := jeLen_lt lw; simp only [JE.ofWord]; omega)
                (by have := jeLen_lt rw; simp only [JE.ofWord]; omega) hkl1 hkr1 hs
              simp only [ofJE, JE.ofWord] at hcall
              cases hd : Fn.cmpScalar f (JE.ofWord lw) (left.drop lvo) (JE.ofWord rw) (right.drop rvo) with
              | fuel => exact absurd hd hs
              | err e =>
                simp only [JE.ofWord] at hd
                rw [hd] at hcall
                rw [panicAny_err _ _ hcall] at hstep
                simp only [Ctl.ofRes_err', Ctl.ret_bind'] at hstep
                rw [Rs.forRangeAux_ret _ _ _ _ _ hstep]
                rfl
              | panic p =>
                simp only [JE.ofWord] at hd
                rw [hd] at hcall
                obtain ⟨p', hp'⟩ := panicAny_panic _ _ hcall
                rw [hp'] at hstep
                simp only [Ctl.ofRes_panic', Ctl.ret_bind'] at hstep
                rw [Rs.forRangeAux_ret _ _ _ _ _ hstep]
                rfl
              | ok o =>
                rw [hd] at hne
                simp only [JE.ofWord] at hd
                rw [hd] at hcall
                rw [panicAny_ok _ _ hcall] at hstep
                simp only [Ctl.ofRes_ok', Ctl.val_bind'] at hstep
                cases o with
                | eq =>
                  simp only [ne_eq, not_true_eq_false, if_false] at hstep
                  rw [Rs.forRangeAux_next _ _ _ _ _ hstep]
                  dsimp only at hne ⊢
                  exact ih f (i + 1) lks rks (ljo + 4) (rjo + 4) (lko + lk.2) (rko + rk.2) (lvo + jeLen lw) (rvo + jeLen rw)
                    nl' nr' kl' kr' (hrec.mono (by omega))
                    (by simpa using hnlk) (by simpa using hnrk) (by omega) (by omega) hlks' hrks' (by omega) (by omega)
                    hkl2 hkr2 hne
                | lt =>
                  simp only [ne_eq, reduceCtorEq, not_false_eq_true, if_true] at hstep
                  rw [Rs.forRangeAux_ret _ _ _ _ _ hstep]
                  rfl
                | gt =>
                  simp only [ne_eq, reduceCtorEq, not_false_eq_true, if_true] at hstep
                  rw [Rs.forRangeAux_ret _ _ _ _ _ hstep]
                  rfl

end Jsonb.TrAgree
