/-
Integer exactness of the JSON text parser model: the decimal spelling of every `u64` parses to
`Num.uint`, of every negative `i64` to `Num.int`.  The lemmas are stated for a number at an
arbitrary cursor position followed by arbitrary non-number bytes, so that the renderer
completeness proof can reuse them.
-/
import JsonbModel.Proofs.JsonParserFuel

namespace Jsonb
namespace JP

/-! ### Suffix view of the cursor -/

theorem getv {buf : Bytes} {i : Nat} {s : Bytes} (h : buf.drop i = s) : buf[i]? = s.head? := by
  rw [← h, List.head?_drop]

theorem drop_succ_of_drop {buf : Bytes} {i : Nat} {c : UInt8} {s : Bytes}
    (h : buf.drop i = c :: s) : buf.drop (i + 1) = s := by
  have : buf.drop (i + 1) = (buf.drop i).drop 1 := by rw [List.drop_drop]
  rw [this, h]; rfl

theorem drop_add_of_drop {buf : Bytes} {i : Nat} {a b : Bytes}
    (h : buf.drop i = a ++ b) : buf.drop (i + a.length) = b := by
  have : buf.drop (i + a.length) = (buf.drop i).drop a.length := by rw [List.drop_drop]
  rw [this, h]; simp

theorem lt_of_drop_cons {buf : Bytes} {i : Nat} {c : UInt8} {s : Bytes}
    (h : buf.drop i = c :: s) : i < buf.length := by
  have := congrArg List.length h
  simp only [List.length_drop, List.length_cons] at this
  omega

theorem slice_of_drop {buf : Bytes} {i : Nat} {a b : Bytes} (site : String)
    (h : buf.drop i = a ++ b) (hi : i ≤ buf.length) : slice site buf i (i + a.length) = .ok a := by
  have hl := congrArg List.length h
  simp only [List.length_drop, List.length_append] at hl
  unfold slice
  rw [if_neg (by omega), if_neg (by omega), List.drop_take, h]
  simp

/-! ### Digit strings -/

theorem isDigit_iff (b : UInt8) : isDigit b = true ↔ 48 ≤ b.toNat ∧ b.toNat ≤ 57 := by
  simp [isDigit, UInt8.le_iff_toNat_le]

/-- what may follow a number for the lexer to stop there without error -/
def NumEnd (rest : Bytes) : Prop :=
  ∀ c, rest.head? = some c → isDigit c = false ∧ c ≠ 0x2E ∧ c ≠ 0x45 ∧ c ≠ 0x65

theorem stepDigitsLoop_view (buf : Bytes) (ds : Bytes) (hall : ∀ d ∈ ds, isDigit d = true) :
    ∀ (i n : Nat) (rest : Bytes), buf.drop i = ds ++ rest →
      (∀ c, rest.head? = some c → isDigit c = false) →
      stepDigitsLoop buf i n = .ok (n + ds.length, i + ds.length) := by
  induction ds with
  | nil =>
    intro i n rest h hr
    rw [stepDigitsLoop]
    split
    · rename_i hlt
      have hg : buf[i]? = rest.head? := getv (by simpa using h)
      rw [List.getElem?_eq_getElem hlt] at hg
      simp only [getUnwrap_lt _ _ _ hlt, bind_ok]
      rw [hr _ hg.symm]
      simp
    · simp
  | cons d ds ih =>
    intro i n rest h hr
    have hlt := lt_of_drop_cons (by simpa using h : buf.drop i = d :: (ds ++ rest))
    have hg : buf[i]? = some d := by rw [getv h]; rfl
    rw [List.getElem?_eq_getElem hlt] at hg
    rw [stepDigitsLoop, dif_pos hlt]
    simp only [getUnwrap_lt _ _ _ hlt, bind_ok]
    have hd : buf[i] = d := by simpa using hg
    rw [hd, hall d (by simp)]
    simp only [Bool.not_true, Bool.false_eq_true, if_false]
    rw [ih (fun x hx => hall x (by simp [hx])) (i + 1) (n + 1) rest
      (drop_succ_of_drop (by simpa using h)) hr]
    simp only [List.length_cons]
    congr 2 <;> omega

theorem checkNext_view {buf : Bytes} {i : Nat} {s : Bytes} (h : buf.drop i = s) (c : UInt8) :
    checkNext buf i c = .ok (s.head? == some c) := by rw [checkNext_eq, getv h]

theorem checkNextEither_view {buf : Bytes} {i : Nat} {s : Bytes} (h : buf.drop i = s) (c d : UInt8) :
    checkNextEither buf i c d = .ok (s.head? == some c || s.head? == some d) := by
  rw [checkNextEither_eq, getv h]

theorem lexFrac_none {buf : Bytes} {i : Nat} {rest : Bytes} (h : buf.drop i = rest)
    (hr : NumEnd rest) : lexFrac buf i = .ok (false, i) := by
  unfold lexFrac
  rw [checkNext_view h]
  have : (rest.head? == some 0x2E) = false := by
    cases hh : rest.head? with
    | none => rfl
    | some c => have := (hr c hh).2.1; simpa using this
  simp [this]

theorem lexExp_none {buf : Bytes} {i : Nat} {rest : Bytes} (h : buf.drop i = rest)
    (hr : NumEnd rest) : lexExp buf i = .ok (false, i) := by
  unfold lexExp
  rw [checkNextEither_view h]
  have : (rest.head? == some 0x45 || rest.head? == some 0x65) = false := by
    cases hh : rest.head? with
    | none => rfl
    | some c => have := (hr c hh).2.2; simpa using this
  simp [this]

/-- a JSON integer literal: `0`, or digits not starting with `0` -/
def IntLit (ds : Bytes) : Prop :=
  ds ≠ [] ∧ (∀ d ∈ ds, isDigit d = true) ∧ (ds.head? = some 0x30 → ds = [0x30])

theorem lexInt_view {buf : Bytes} {i : Nat} {ds rest : Bytes} (h : buf.drop i = ds ++ rest)
    (hl : IntLit ds) (hr : NumEnd rest) : lexInt buf i = .ok (i + ds.length) := by
  obtain ⟨hne, hall, hz⟩ := hl
  unfold lexInt
  rw [checkNext_view h]
  match ds, hne with
  | d :: ds', _ =>
    simp only [List.cons_append, List.head?_cons, bind_ok]
    by_cases hd : d = 0x30
    · subst hd
      have := hz rfl
      simp only [List.cons.injEq, true_and] at this
      subst this
      simp only [beq_self_eq_true, if_true] at h ⊢
      rw [checkDigit_eq, getv (drop_succ_of_drop h)]
      have : rest.head?.any isDigit = false := by
        cases hh : rest.head? with
        | none => rfl
        | some c => simpa using (hr c hh).1
      simp [this]
    · have hb : (some d == some (0x30 : UInt8)) = false := by simpa using hd
      simp only [hb, Bool.false_eq_true, if_false]
      have hlt := lt_of_drop_cons (by simpa using h : buf.drop i = d :: (ds' ++ rest))
      unfold stepDigits
      rw [if_neg (by simp; omega)]
      rw [stepDigitsLoop_view buf (d :: ds') hall i 0 rest (by simpa using h) (fun c hc => (hr c hc).1)]
      simp

theorem digitsVal_append (a : Bytes) (b : UInt8) :
    digitsVal (a ++ [b]) = digitsVal a * 10 + (b.toNat - 48) := by
  simp [digitsVal, List.foldl_append]

theorem parseU64_digits {ds : Bytes} (hl : IntLit ds) (hv : digitsVal ds < 18446744073709551616) :
    parseU64 ds = some (digitsVal ds) := by
  obtain ⟨hne, hall, -⟩ := hl
  unfold parseU64
  match ds, hne with
  | d :: ds', _ =>
    have hd : d ≠ 0x2B := by
      intro he
      have := (isDigit_iff d).mp (hall d (by simp))
      rw [he] at this
      simp at this
    have hm : stripPlus (d :: ds') = d :: ds' := by
      unfold stripPlus
      split
      · rename_i r heq
        simp only [List.cons.injEq] at heq
        exact absurd heq.1 hd
      · rfl
    simp only [hm]
    have hall' : (d :: ds').all isDigit = true := by
      rw [List.all_eq_true]; exact hall
    simp [hall', hv]

/-- a non-negative integer literal at the cursor is lexed, sliced and classified as `UInt64`
when it fits -/
theorem parseNumber_uint {buf : Bytes} {i : Nat} {ds rest : Bytes} (h : buf.drop i = ds ++ rest)
    (hl : IntLit ds) (hr : NumEnd rest) (hv : digitsVal ds < 18446744073709551616) :
    parseNumber buf i = .ok (.num (.uint (digitsVal ds)), i + ds.length) := by
  obtain ⟨d, ds', rfl⟩ := List.exists_cons_of_ne_nil hl.1
  have hdig := (isDigit_iff d).mp (hl.2.1 d (by simp))
  have hsign : lexSign buf i = .ok (false, i) := by
    unfold lexSign
    rw [checkNext_view h]
    have : (some d == some (0x2D : UInt8)) = false := by
      have : d ≠ 0x2D := by intro he; rw [he] at hdig; simp at hdig
      simpa using this
    simp [this]
  have hrest := drop_add_of_drop h
  unfold parseNumber lexNumber
  simp only [hsign, bind_ok, lexInt_view h hl hr, lexFrac_none hrest hr, lexExp_none hrest hr, pure_eq]
  rw [slice_of_drop _ h (Nat.le_of_lt (lt_of_drop_cons (by simpa using h)))]
  simp only [bind_ok, classifyNumber, Bool.not_false, Bool.and_self, if_true, parseU64_digits hl hv,
    Option.map_some]

theorem parseI64_digits {ds : Bytes} (hl : IntLit ds) (hv : digitsVal ds ≤ 9223372036854775808) :
    parseI64 (0x2D :: ds) = some (-(digitsVal ds : Int)) := by
  obtain ⟨hne, hall, -⟩ := hl
  unfold parseI64
  have hall' : ds.all isDigit = true := by rw [List.all_eq_true]; exact hall
  have he : ds.isEmpty = false := by cases ds <;> simp at hne ⊢
  simp [hall', he, hv]

theorem parseNumber_int {buf : Bytes} {i : Nat} {ds rest : Bytes}
    (h : buf.drop i = 0x2D :: (ds ++ rest))
    (hl : IntLit ds) (hr : NumEnd rest) (hv : digitsVal ds ≤ 9223372036854775808) :
    parseNumber buf i = .ok (.num (.int (-(digitsVal ds : Int))), i + 1 + ds.length) := by
  have hsign : lexSign buf i = .ok (true, i + 1) := by
    unfold lexSign
    rw [checkNext_view h]
    simp
  have h1 := drop_succ_of_drop h
  have hrest := drop_add_of_drop h1
  have hsl : slice "parse_json_number: buf[start_idx..idx]" buf i (i + 1 + ds.length) = .ok (0x2D :: ds) := by
    have := slice_of_drop (a := 0x2D :: ds) (b := rest) "parse_json_number: buf[start_idx..idx]"
      (by simpa using h) (Nat.le_of_lt (lt_of_drop_cons h))
    simpa [Nat.add_assoc, Nat.add_comm 1] using this
  unfold parseNumber lexNumber
  simp only [hsign, bind_ok, lexInt_view h1 hl hr, lexFrac_none hrest hr, lexExp_none hrest hr, pure_eq,
    hsl]
  simp only [classifyNumber, Bool.not_false, Bool.and_self, if_true, Bool.not_true, Bool.false_eq_true,
    if_false, parseI64_digits hl hv, Option.map_some, bind_ok]

/-! ### Decimal spelling of a natural number -/

/-- ASCII decimal digits of `n` (what `itoa` / `to_string` print) -/
def decBytes (n : Nat) : Bytes := (Nat.toDigits 10 n).map (fun c => UInt8.ofNat c.toNat)

theorem digitByte_toNat {d : Nat} (h : d < 10) : (UInt8.ofNat d.digitChar.toNat).toNat = 48 + d := by
  rw [Nat.toNat_digitChar_of_lt_ten h, UInt8.toNat_ofNat']
  omega

theorem decBytes_lt_ten {n : Nat} (h : n < 10) : decBytes n = [UInt8.ofNat n.digitChar.toNat] := by
  simp [decBytes, Nat.toDigits_of_lt_base h]

theorem decBytes_ge_ten {n : Nat} (h : 10 ≤ n) :
    decBytes n = decBytes (n / 10) ++ [UInt8.ofNat (n % 10).digitChar.toNat] := by
  simp [decBytes, Nat.toDigits_of_base_le (by decide : 1 < 10) h]

theorem decBytes_spec (n : Nat) :
    IntLit (decBytes n) ∧ digitsVal (decBytes n) = n ∧ (0 < n → (decBytes n).head? ≠ some 0x30) := by
  induction n using Nat.strongRecOn with
  | _ n ih =>
    by_cases h : n < 10
    · rw [decBytes_lt_ten h]
      have ht := digitByte_toNat h
      refine ⟨⟨by simp, ?_, ?_⟩, ?_, ?_⟩
      · intro d hd
        simp only [List.mem_singleton] at hd
        subst hd
        rw [isDigit_iff]; omega
      · intro _; 
        simp only [List.head?_cons, Option.some.injEq] at *
        rename_i h0
        rw [h0]
      · simp [digitsVal, ht]
      · intro hpos he
        simp only [List.head?_cons, Option.some.injEq] at he
        rw [he] at ht
        simp at ht
        omega
    · have h10 : 10 ≤ n := by omega
      obtain ⟨⟨ne, hall, hz⟩, hval, hhead⟩ := ih (n / 10) (by omega)
      have hq : 0 < n / 10 := by omega
      have ht := digitByte_toNat (Nat.mod_lt n (by decide : 0 < 10))
      rw [decBytes_ge_ten h10]
      have hh : (decBytes (n / 10) ++ [UInt8.ofNat (n % 10).digitChar.toNat]).head?
          = (decBytes (n / 10)).head? := by
        cases hd : decBytes (n / 10) with
        | nil => exact absurd hd ne
        | cons _ _ => rfl
      refine ⟨⟨by simp, ?_, ?_⟩, ?_, ?_⟩
      · intro d hd
        simp only [List.mem_append, List.mem_singleton] at hd
        rcases hd with hd | hd
        · exact hall d hd
        · subst hd; rw [isDigit_iff]; omega
      · intro h0
        rw [hh] at h0
        exact absurd h0 (hhead hq)
      · rw [digitsVal_append, hval, ht]; omega
      · intro _
        rw [hh]; exact hhead hq

/-! ### Dispatch -/

/-- what `skip_unused` does not skip -/
def Tok (s : Bytes) : Prop := ∀ c, s.head? = some c → isWs c = false ∧ c ≠ 0x5C

theorem skipUnused_view {buf : Bytes} {i : Nat} {s : Bytes} (h : buf.drop i = s) (ht : Tok s) :
    skipUnused buf i = .ok i := by
  rw [skipUnused]
  split
  · rename_i hlt
    have hg := getv h
    rw [List.getElem?_eq_getElem hlt] at hg
    obtain ⟨h1, h2⟩ := ht _ hg.symm
    have h2' : (buf[i] == 0x5C) = false := by simpa using h2
    simp [getUnwrap_lt _ _ _ hlt, h1, h2]
  · rfl

theorem Tok_nil : Tok [] := by intro c h; simp at h

theorem next_view {buf : Bytes} {i : Nat} {c : UInt8} {s : Bytes} (h : buf.drop i = c :: s) :
    next buf i = .ok c := by
  unfold next; rw [getv h]; rfl

theorem digit_facts {c : UInt8} (h : isDigit c = true ∨ c = 0x2D) :
    isWs c = false ∧ c ≠ 0x5C ∧ (c == 0x6E) = false ∧ (c == 0x74) = false ∧ (c == 0x66) = false := by
  rcases h with h | h
  · have := (isDigit_iff c).mp h
    refine ⟨?_, ?_, ?_, ?_, ?_⟩
    · simp only [isWs, Bool.or_eq_false_iff, beq_eq_false_iff_ne, ne_eq]
      refine ⟨⟨⟨⟨?_, ?_⟩, ?_⟩, ?_⟩, ?_⟩ <;> (intro he; rw [he] at this; simp at this)
    all_goals first
      | (intro he; rw [he] at this; simp at this)
      | (simp only [beq_eq_false_iff_ne, ne_eq]; intro he; rw [he] at this; simp at this)
  · subst h; decide

theorem parseJsonValue_number {buf : Bytes} {i : Nat} {c : UInt8} {s : Bytes} (fuel : Nat)
    (h : buf.drop i = c :: s) (hc : isDigit c = true ∨ c = 0x2D) :
    parseJsonValue (fuel + 1) buf i = parseNumber buf i := by
  obtain ⟨h1, h2, h3, h4, h5⟩ := digit_facts hc
  have hd : (isDigit c || c == 0x2D) = true := by
    rcases hc with hc | hc
    · simp [hc]
    · simp [hc]
  simp only [parseJsonValue]
  rw [skipUnused_view h (by intro x hx; simp only [List.head?_cons, Option.some.injEq] at hx; subst hx; exact ⟨h1, h2⟩)]
  simp only [bind_ok, next_view h, h3, h4, h5, hd, Bool.false_eq_true, if_false, if_true]

theorem NumEnd_nil : NumEnd [] := by intro c h; simp at h

end JP

open JP in
/-- **Integer exactness (unsigned)**: the decimal spelling of every `u64` parses to that
`UInt64`. -/
theorem parse_uint (n : Nat) (h : n < 2 ^ 64) :
    parseValue ((Nat.toDigits 10 n).map (fun c => UInt8.ofNat c.toNat)) = .ok (.num (.uint n)) := by
  show parseValue (decBytes n) = _
  obtain ⟨hl, hval, -⟩ := decBytes_spec n
  obtain ⟨d, ds', hd⟩ := List.exists_cons_of_ne_nil hl.1
  have hdrop : (decBytes n).drop 0 = decBytes n ++ [] := by simp
  have hnum := parseNumber_uint hdrop hl NumEnd_nil (by rw [hval]; simpa using h)
  have hdisp := parseJsonValue_number (buf := decBytes n) (i := 0) (c := d) (s := ds')
    (2 * (decBytes n).length + 1) (by simp [hd]) (Or.inl (hl.2.1 d (by simp [hd])))
  unfold parseValue fuelFor
  rw [hdisp, hnum]
  simp only [bind_ok, Nat.zero_add]
  rw [skipUnused_view (s := []) (by simp) Tok_nil]
  simp [hval]

open JP in
/-- **Integer exactness (negative)**: `-` followed by the decimal spelling of `m ≤ 2^63`
parses to `Int64(-m)`; in particular `-0` is `Int64(0)` and `-9223372036854775808` is
`i64::MIN`. -/
theorem parse_int (m : Nat) (h : m ≤ 2 ^ 63) :
    parseValue (0x2D :: (Nat.toDigits 10 m).map (fun c => UInt8.ofNat c.toNat))
      = .ok (.num (.int (-(m : Int)))) := by
  show parseValue (0x2D :: decBytes m) = _
  obtain ⟨hl, hval, -⟩ := decBytes_spec m
  have hdrop : (0x2D :: decBytes m).drop 0 = 0x2D :: (decBytes m ++ []) := by simp
  have hnum := parseNumber_int hdrop hl NumEnd_nil (by rw [hval]; simpa using h)
  have hdisp := parseJsonValue_number (buf := 0x2D :: decBytes m) (i := 0) (c := 0x2D) (s := decBytes m)
    (2 * (0x2D :: decBytes m).length + 1) (by simp) (Or.inr rfl)
  unfold parseValue fuelFor
  rw [hdisp, hnum]
  simp only [bind_ok, Nat.zero_add]
  rw [skipUnused_view (s := []) (by simp [Nat.add_comm]) Tok_nil]
  simp [hval, Nat.add_comm]

end Jsonb
