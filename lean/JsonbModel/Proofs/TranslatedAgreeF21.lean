/-
Phase 5b, containment.  F21: one unfolding of `contains_jsonb`, the group (`contains_jsonb` = `Fn.containsJsonb` wherever
the model answers without panicking), the public `contains`, and `contains` on two encoded good documents.
-/
import JsonbModel.Proofs.TranslatedAgreeF20
import JsonbModel.Proofs.ContainsRefine

set_option linter.unusedSimpArgs false
set_option linter.unusedVariables false

namespace Jsonb.TrAgree
open Jsonb.Rs

theorem iterObjLoop_item_le (value : Bytes) : ∀ (ks : List Nat) (ko jo vo : Nat) (ms : List (Bytes × JE × Bytes)),
    iterObjLoop value ks ko jo vo = .ok ms → ∀ m ∈ ms, m.2.2.length ≤ value.length := by
  intro ks
  induction ks with
  | nil => intro ko jo vo ms h; simp only [iterObjLoop, Res.ok.injEq] at h; subst h; simp
  | cons k ks ih =>
    intro ko jo vo ms h
    simp only [iterObjLoop] at h
    cases hk : Jsonb.slice value ko (ko + k) with
    | ok key =>
      rw [hk] at h
      dsimp only at h
      cases hw : readU32At value jo with
      | none => rw [hw] at h; simp only [Res.ok.injEq] at h; subst h; simp
      | some w =>
        rw [hw] at h
        dsimp only at h
        cases hs : Jsonb.slice value vo (vo + jeLen w) with
        | ok item =>
          rw [hs] at h
          dsimp only at h
          cases hr : iterObjLoop value ks (ko + k) (jo + 4) (vo + jeLen w) with
          | ok rest =>
            rw [hr] at h
            simp only [Res.ok.injEq] at h
            subst h
            intro m hm
            simp only [List.mem_cons] at hm
            rcases hm with rfl | hm
            · exact slice_length_le _ _ _ _ hs
            · exact ih _ _ _ _ hr m hm
          | err e => rw [hr] at h; cases h
          | panic p => rw [hr] at h; cases h
          | fuel => rw [hr] at h; cases h
        | err e => rw [hs] at h; cases h
        | panic p => rw [hs] at h; cases h
        | fuel => rw [hs] at h; cases h
    | err e => rw [hk] at h; cases h
    | panic p => rw [hk] at h; cases h
    | fuel => rw [hk] at h; cases h

theorem iterObjEntries_item_le (value : Bytes) (header : Nat) (ms : List (Bytes × JE × Bytes))
    (h : iterObjEntries value header = .ok ms) : ∀ m ∈ ms, m.2.2.length ≤ value.length := by
  unfold iterObjEntries at h
  dsimp only at h
  cases hf : fillKeys value (hdrLen header) 4 (4 + hdrLen header * 8) with
  | none => rw [hf] at h; cases h
  | some q =>
    obtain ⟨ks, jo, vo⟩ := q
    rw [hf] at h
    exact iterObjLoop_item_le value _ _ _ _ ms h

/-- the members of `iterate_object_entries(value, header)`, when the model can collect them -/
theorem drain_object_ok (value : Bytes) (header fuel : Nat) (ms : List (Bytes × JE × Bytes)) (hf : hdrLen header + 1 < fuel)
    (h : iterObjEntries value header = .ok ms) :
    drainIter Tr.ObjectEntryIterator.next fuel
        (objIt value 4 (4 + hdrLen header * 8) (4 + hdrLen header * 8) (hdrLen header) none) = .ok (ms.map ofMember) := by
  rw [iterate_object_entries_drain value header fuel hf]
  unfold iterObjEntries at h
  dsimp only at h
  cases hfk : fillKeys value (hdrLen header) 4 (4 + hdrLen header * 8) with
  | none => rw [hfk] at h; cases h
  | some q =>
    obtain ⟨ks, jo, vo⟩ := q
    rw [hfk] at h
    dsimp only at h ⊢
    rw [h]; rfl

theorem res_ok_of {α : Type} (r : Res α) (h1 : r ≠ .fuel) (h2 : r.isPanic = false) (h3 : ∀ e, r ≠ .err e) : ∃ a, r = .ok a := by
  cases r with
  | ok a => exact ⟨a, rfl⟩
  | err e => exact absurd rfl (h3 e)
  | panic s => simp [Res.isPanic] at h2
  | fuel => exact absurd rfl h1

theorem lt_cast (a b : Nat) : decide (((a : Nat) : Int) < ((b : Nat) : Int)) = decide (a < b) := by
  by_cases h : a < b
  · have : ((a : Int) < (b : Int)) := by omega
    simp [h, this]
  · have : ¬ ((a : Int) < (b : Int)) := by omega
    simp [h, this]

/-- one unfolding of `contains_jsonb`, for any callee fuel that outlasts both iterators -/
theorem contains_jsonb_step (g f : Nat) (left right : Bytes)
    (hl : left.length < 9223372036854775808) (hr : right.length < 9223372036854775808)
    (hg : 536870912 < g) (hrec : ContRecOK f (Tr.contains_jsonb g))
    (hne : Fn.containsJsonb (f + 1) left right ≠ .fuel) (hnp : (Fn.containsJsonb (f + 1) left right).isPanic = false) :
    Tr.contains_jsonb (g + 1) left right = Fn.containsJsonb (f + 1) left right := by
  rw [Tr.contains_jsonb]
  rw [Fn.containsJsonb] at hne hnp ⊢
  simp only [read_u32_zero]
  cases hlh : readU32At left 0 with
  | none => simp only [Ctl.ofRes_err', Ctl.ret_bind', Ctl.run_ret']
  | some lh =>
    cases hrh : readU32At right 0 with
    | none => simp only [Ctl.ofRes_ok', Ctl.ofRes_err', Ctl.val_bind', Ctl.ret_bind', Ctl.run_ret']
    | some rh =>
      rw [hlh, hrh] at hne hnp
      have hLl := hdrLen_lt lh
      have hLr := hdrLen_lt rh
      have h4l := readU32At_some_len _ _ _ hlh
      have h4r := readU32At_some_len _ _ _ hrh
      have h8 : ((8 : Nat) : Int) = 8 := rfl
      have hTl : lh &&& C.CONTAINER_HEADER_TYPE_MASK = hdrType lh := rfl
      have hTr : rh &&& C.CONTAINER_HEADER_TYPE_MASK = hdrType rh := rfl
      have hSl : lh &&& C.CONTAINER_HEADER_LEN_MASK = hdrLen lh := rfl
      have hSr : rh &&& C.CONTAINER_HEADER_LEN_MASK = hdrLen rh := rfl
      simp only [Ctl.ofRes_ok', Ctl.val_bind', Rs.bitand_natCast, hTl, hTr, hSl, hSr, tag_eq, ne_dec, lt_cast]
      simp only [Bool.and_eq_true, decide_eq_true_eq, Int.natCast_inj, ne_eq]
      dsimp only at hne hnp ⊢
      by_cases c1 : hdrType lh = C.ARRAY_CONTAINER_TAG ∧ hdrType rh = C.SCALAR_CONTAINER_TAG
      · simp only [if_pos c1, read_u32_four] at hne hnp ⊢
        cases hw : readU32At right 4 with
        | none => simp only [Ctl.ofRes_err', Ctl.ret_bind', Ctl.run_ret', readJe_none _ _ hw]
        | some w =>
          have h8r := readU32At_some_len _ _ _ hw
          simp only [readJe_some _ _ _ hw, sliceFrom_model_ok right 8 (by omega)] at hne hnp ⊢
          simp only [Ctl.ofRes_ok', Ctl.val_bind', decode_jentry_agrees, ← h8, sliceFrom_nat right 8 (by omega)]
          have hi : ∃ litems, iterArray left lh = .ok litems := by
            apply res_ok_of _ (iterArray_ne_fuel left lh) _ (iterArray_ne_err left lh)
            cases hia : iterArray left lh with
            | panic s => simp [Fn.arrayContains, hia, Res.map, Res.bind, Res.isPanic] at hnp
            | _ => rfl
          obtain ⟨litems, hli⟩ := hi
          rw [array_contains_agrees g left lh (right.drop 8) (jeType w) (jeLen w) litems hli (by omega) hl (by simp; omega)]
          simp only [JE.ofWord]
          cases Fn.arrayContains left lh (right.drop 8) (jeType w) <;> rfl
      simp only [if_neg c1, Ctl.pure_eq', Ctl.val_bind'] at hne hnp ⊢
      by_cases c2 : hdrType lh = hdrType rh
      swap
      · have c2s : ¬ hdrType rh = hdrType lh := fun c => c2 c.symm
        simp only [if_pos c2, if_pos c2s, Ctl.ret_bind', Ctl.run_ret', not_false_eq_true]
      have c2' : ¬ ¬ hdrType lh = hdrType rh := fun c => c c2
      have c2'' : ¬ ¬ hdrType rh = hdrType lh := fun c => c c2.symm
      simp only [if_neg c2', if_neg c2'', Ctl.pure_eq', Ctl.val_bind'] at hne hnp ⊢
      by_cases c3 : hdrType rh = C.OBJECT_CONTAINER_TAG
      · simp only [if_pos c3] at hne hnp ⊢
        by_cases c4 : hdrLen lh < hdrLen rh
        · simp only [if_pos c4, Ctl.ret_bind', Ctl.run_ret']
        simp only [if_neg c4, Ctl.pure_eq', Ctl.val_bind', iterate_object_entries_agrees, Ctl.ofRes_ok'] at hne hnp ⊢
        have hi : ∃ rms, iterObjEntries right rh = .ok rms := by
          apply res_ok_of
          · intro c; rw [c] at hne; exact hne rfl
          · cases hia : iterObjEntries right rh with
            | panic s => rw [hia] at hnp; simp [Res.isPanic] at hnp
            | _ => rfl
          · intro e c
            unfold iterObjEntries at c
            dsimp only at c
            cases hfk : fillKeys right (hdrLen rh) 4 (4 + hdrLen rh * 8) with
            | none => rw [hfk] at c; cases c
            | some q => obtain ⟨ks, jo, vo⟩ := q; rw [hfk] at c; exact iterObjLoop_ne_err right _ _ _ _ e c
        obtain ⟨rms, hrms⟩ := hi
        rw [hrms] at hne hnp ⊢
        dsimp only at hne hnp ⊢
        rw [forIter_of_drain _ _ g _ (rms.map ofMember) () (drain_object_ok right rh g rms (by omega) hrms)]
        have := cj_members (Tr.contains_jsonb g) left lh hl rms f hrec
          (fun m hm => by have := iterObjEntries_item_le right rh rms hrms m hm; omega) hne hnp
        rw [← this]
        cases Rs.forIn (rms.map ofMember) () (Tr.contains_jsonb.loop1 (Tr.contains_jsonb g) left (lh : Int)) <;> rfl
      simp only [if_neg c3] at hne hnp ⊢
      by_cases c5 : hdrType rh = C.ARRAY_CONTAINER_TAG
      · simp only [if_pos c5, iterate_array_agrees, Ctl.ofRes_ok', Ctl.val_bind'] at hne hnp ⊢
        have hri : ∃ ritems, iterArray right rh = .ok ritems := by
          apply res_ok_of _ (iterArray_ne_fuel right rh) _ (iterArray_ne_err right rh)
          cases hia : iterArray right rh with
          | panic s => rw [hia] at hnp; simp [Res.isPanic] at hnp
          | _ => rfl
        obtain ⟨ritems, hrit⟩ := hri
        rw [hrit] at hne hnp ⊢
        have hli' : ∃ litems, iterArray left lh = .ok litems := by
          apply res_ok_of _ (iterArray_ne_fuel left lh) _ (iterArray_ne_err left lh)
          cases hia : iterArray left lh with
          | panic s => rw [hia] at hnp; simp [Res.isPanic] at hnp
          | _ => rfl
        obtain ⟨litems, hlit⟩ := hli'
        rw [hlit] at hne hnp ⊢
        dsimp only at hne hnp ⊢
        rw [forIter_of_drain _ _ g _ (ritems.map ofItem) () (drain_array_ok right rh g ritems (by omega) hrit)]
        have := cj_items g (Tr.contains_jsonb g) left lh litems hlit (by omega) hl ritems f hrec
          (fun x hx => by have := iterArray_item_le right rh ritems hrit x hx; omega) hne hnp
        rw [← this]
        cases Rs.forIn (ritems.map ofItem) () (Tr.contains_jsonb.loop3 g (Tr.contains_jsonb g) left (lh : Int)) <;> rfl
      simp only [if_neg c5, read_u32_four] at hne hnp ⊢
      cases hlw : readU32At left 4 with
      | none => simp only [Ctl.ofRes_err', Ctl.ret_bind', Ctl.run_ret', readJe_none _ _ hlw]
      | some lw =>
        cases hrw : readU32At right 4 with
        | none =>
          simp only [Ctl.ofRes_ok', Ctl.ofRes_err', Ctl.val_bind', Ctl.ret_bind', Ctl.run_ret', decode_jentry_agrees,
            readJe_none _ _ hrw, readJe_some _ _ _ hlw]
        | some rw =>
          have h8l := readU32At_some_len _ _ _ hlw
          have h8r := readU32At_some_len _ _ _ hrw
          simp only [Ctl.ofRes_ok', Ctl.val_bind', decode_jentry_agrees, readJe_some _ _ _ hlw, readJe_some _ _ _ hrw,
            sliceFrom_model_ok left 8 (by omega), sliceFrom_model_ok right 8 (by omega), tag_eq, JE.ofWord]
          simp only [decide_eq_true_eq, Int.natCast_inj]
          by_cases c6 : jeType lw = jeType rw
          · have hb : (jeType lw == jeType rw) = true := by simp [c6]
            simp only [if_pos c6, ← h8, sliceFrom_nat left 8 (by omega), sliceFrom_nat right 8 (by omega), Ctl.ofRes_ok',
              Ctl.val_bind', scalar_eq_agrees (jeType lw) (left.drop 8) (right.drop 8) (by simp; omega) (by simp; omega),
              Ctl.pure_eq', Ctl.run_ret', hb, Bool.true_and]
          · have hb : (jeType lw == jeType rw) = false := by simp [c6]
            simp only [if_neg c6, Ctl.pure_eq', Ctl.val_bind', Ctl.run_ret', hb, Bool.false_and]

/-! ## the group -/

/-- **`contains_jsonb`**: wherever the model with fuel `f` answers without panicking, the translation with fuel
`g > f + 2^29 + 1` (every `for` over an iterator and every `collect` is bounded by the fuel; a header counts at most
`2^29 − 1` entries) computes the model's answer -/
theorem contains_jsonb_agrees : ∀ (f g : Nat) (left right : Bytes), f + 536870913 < g →
    left.length < 9223372036854775808 → right.length < 9223372036854775808 →
    Fn.containsJsonb f left right ≠ .fuel → (Fn.containsJsonb f left right).isPanic = false →
    Tr.contains_jsonb g left right = Fn.containsJsonb f left right := by
  intro f
  induction f using Nat.strongRecOn with
  | _ f IH =>
    intro g left right hfg hl hr hne hnp
    cases f with
    | zero => simp [Fn.containsJsonb] at hne
    | succ f =>
      obtain ⟨g, rfl⟩ : ∃ m, g = m + 1 := ⟨g - 1, by omega⟩
      exact contains_jsonb_step g f left right hl hr (by omega)
        (fun f' hf' l r h1 h2 h3 h4 => IH f' (by omega) g l r (by omega) h1 h2 h3 h4) hne hnp

/-! ## the public `contains` -/

/-- the text branch: `contains` returns what the branch computes -/
theorem contains_text_agrees (fuel : Nat) (left right : Bytes) (text : Res Bool)
    (h : ¬ (isJsonb left = true ∧ isJsonb right = true)) : Tr.contains fuel left right text = text := by
  unfold Tr.contains
  simp only [is_jsonb_agrees, Ctl.ofRes_ok', Ctl.val_bind']
  cases hl : isJsonb left <;> cases hr : isJsonb right <;>
    simp_all [Ctl.ret_bind', Ctl.run_ret', Ctl.pure_eq', Ctl.val_bind']

/-- **`contains` on two JSONB buffers**: the model's `Fn.contains` (errors become `false` on both sides), wherever the
model answers without panicking -/
theorem contains_jsonb_doc_agrees (fuel : Nat) (left right : Bytes) (text : Res Bool)
    (hjl : isJsonb left = true) (hjr : isJsonb right = true)
    (hfuel : 2 * (left.length + right.length) + 8 + 536870913 < fuel)
    (hl : left.length < 9223372036854775808) (hr : right.length < 9223372036854775808)
    (hne : Fn.contains left right ≠ .fuel) (hnp : (Fn.contains left right).isPanic = false) :
    Tr.contains fuel left right text = Fn.contains left right := by
  unfold Tr.contains
  unfold Fn.contains at hne hnp ⊢
  simp only [is_jsonb_agrees, hjl, hjr, Ctl.ofRes_ok', Ctl.val_bind', Bool.not_true, Bool.false_eq_true, if_false,
    Ctl.pure_eq']
  have hne' : Fn.containsJsonb (2 * (left.length + right.length) + 8) left right ≠ .fuel := by
    intro c; rw [c] at hne; exact hne rfl
  have hnp' : (Fn.containsJsonb (2 * (left.length + right.length) + 8) left right).isPanic = false := by
    cases hc : Fn.containsJsonb (2 * (left.length + right.length) + 8) left right with
    | panic s => rw [hc] at hnp; simp [Res.isPanic] at hnp
    | _ => rfl
  rw [contains_jsonb_agrees _ fuel left right hfuel hl hr hne' hnp']
  cases Fn.containsJsonb (2 * (left.length + right.length) + 8) left right <;> rfl

open JV in
/-- **C12, source-level corollary**: on the encodings of two good documents (that `is_jsonb` recognises) the translated
`contains` IS the model's `Fn.contains` (= the tree-level `Spec.contains a b`), for every adequate fuel and whatever the
text branch holds -/
theorem contains_encodeSpec_agrees (a b : JV) (ha : goodTop a = true) (hb : goodTop b = true)
    (hja : isJsonb (encodeSpec a) = true) (hjb : isJsonb (encodeSpec b) = true) (fuel : Nat)
    (hfuel : 2 * ((encodeSpec a).length + (encodeSpec b).length) + 8 + 536870913 < fuel) (text : Res Bool) :
    Tr.contains fuel (encodeSpec a) (encodeSpec b) text = Fn.contains (encodeSpec a) (encodeSpec b) := by
  have hr := Fn.contains_refines a b ha hb
  exact contains_jsonb_doc_agrees fuel _ _ text hja hjb hfuel (encodeSpec_length_lt a ha) (encodeSpec_length_lt b hb)
    (by rw [hr]; exact fun c => by cases c) (by rw [hr]; rfl)

open JV in
theorem contains_encodeSpec_spec (a b : JV) (ha : goodTop a = true) (hb : goodTop b = true)
    (hja : isJsonb (encodeSpec a) = true) (hjb : isJsonb (encodeSpec b) = true) (fuel : Nat)
    (hfuel : 2 * ((encodeSpec a).length + (encodeSpec b).length) + 8 + 536870913 < fuel) (text : Res Bool) :
    Tr.contains fuel (encodeSpec a) (encodeSpec b) text = .ok (Spec.contains a b) := by
  rw [contains_encodeSpec_agrees a b ha hb hja hjb fuel hfuel, Fn.contains_refines a b ha hb]

end Jsonb.TrAgree
