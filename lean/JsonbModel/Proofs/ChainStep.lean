/-
C07 (chains of operations), part 4: ONE step of a chain.

`OpOK v op` — the side conditions under which the step `op` on the current document `v` is
covered; `chainStep_refines` — under them the byte-level step on `encodeSpec v` returns exactly
the encoding of the tree-level step (or both refuse); `chainStep_good` — and the new document is
again canonical (`goodTop`).
No Mathlib.
-/
import JsonbModel.Proofs.ChainSelect

namespace Jsonb
open JV

/-- an `i32` argument -/
def I32 (i : Int) : Prop := -2147483648 ≤ i ∧ i ≤ 2147483647

/-- **side conditions of one chain step** on the current document `v`.

* literal document arguments are canonical: `goodTop` where the literal is a whole-document
  operand (`ArgTop`, `ArgSet`), `good` where it gets embedded (`ArgEmb`; for `self` / the empty
  key path this asks the current document itself to be below 2^28 bytes, proper sub-values picked
  by `Arg.sub kp` need nothing);
* integer arguments are `i32`; the indices of a key path to delete are `i32` (`kpOK`);
  (`get_by_keypath`, hence `Arg.sub kp`, needs no condition on `kp`);
* new object keys are valid UTF-8 and shorter than 2^28 bytes;
* the set functions view a non-array operand as a one-element list: it must then fit an entry
  (`goodL (Spec.elems ·)`, automatically true for arrays);
* JSONPath steps: `PathOK` (supported path, not starting with `@`, fuel adequacy);
* ONLY for the operations that can grow the document (`concat`, `array_insert`, `object_insert`,
  `build_object`, `get_by_path_array`) the tree result is asked to be `goodTop` (for `build_array`
  and `build_object` this is reduced to the count bound alone).  `ChainSizes.lean` reduces each
  of these `goodTop` hypotheses to pure count / size bounds.
* nothing is asked for the shrinking and extracting operations. -/
def OpOK (v : JV) : ChainOp JV → Prop
  | .concat a l => ArgTop a ∧
      ∀ w, Spec.argOf v a = some w → goodTop (if l then Spec.concat w v else Spec.concat v w) = true
  | .delName _ => True
  | .delIdx i => I32 i
  | .delKp kp => kpOK kp
  | .arrIns p a => I32 p ∧ ArgEmb v a ∧
      ∀ w, Spec.argOf v a = some w → goodTop (Spec.arrayInsert v p w) = true
  | .objIns k a u => k.length < 268435456 ∧ validUtf8 k = true ∧ ArgEmb v a ∧
      ∀ w r, Spec.argOf v a = some w → Spec.objectInsert v k w u = .ok r → goodTop r = true
  | .objDel _ => True
  | .objPick _ => True
  | .strip => True
  | .getIdx _ => True
  | .getName _ _ => True
  | .getKp _ => True
  | .keys => True
  | .distinct => goodL (Spec.elems v) = true
  | .inter a => goodL (Spec.elems v) = true ∧ ArgSet a
  | .except a => goodL (Spec.elems v) = true ∧ ArgSet a
  | .wrapArr as => (∀ a ∈ as, ArgEmb v a) ∧ as.length < 536870912
  | .wrapObj kas =>
      (∀ ka ∈ kas, ka.1.length < 268435456 ∧ validUtf8 ka.1 = true ∧ ArgEmb v ka.2) ∧
      ∀ ws, Spec.kargsOf v kas = some ws → (mkObj ws).length < 536870912
  | .selFirst jp => PathOK v jp
  | .selArr jp => PathOK v jp ∧
      (Sel.isPredicate jp = false → ∀ items,
        Spec.evalPaths (Spec.chainSelFuel v jp) v none jp = some items → goodTop (arr items) = true)

/-! ### small glue -/

theorem refuse_ok (x : Bytes) : Fn.refuse (.ok ([] ++ x)) = .ok (some x) := rfl

theorem refuse_match (o : Option JV) (e : String) :
    Fn.refuse (match o with
      | some r => Res.ok ([] ++ encodeSpec r)
      | none => Res.err e) = .ok (o.map encodeSpec) := by
  cases o <;> rfl

/-! ### the step theorem -/

/-- **one chain step refines**: on a canonical document and under `OpOK`, the byte-level
operation applied to the encoded document (with encoded literal arguments) succeeds and
returns exactly the encoding of the document the tree-level operation yields, or `none` exactly
when the tree-level operation yields no document -/
theorem chainStep_refines (v : JV) (hg : goodTop v = true) (op : ChainOp JV) (hok : OpOK v op) :
    Fn.chainStep (encodeSpec v) (op.map encodeSpec) = .ok ((Spec.chainStep v op).map encodeSpec) := by
  cases op with
  | concat a l =>
    simp only [ChainOp.map, Fn.chainStep, Spec.chainStep, withArg_refines v hg a]
    cases hw : Spec.argOf v a with
    | none => rfl
    | some w =>
      have hgw := argOf_goodTop hg hok.1 hw
      have hres := hok.2 w hw
      cases l with
      | true =>
        simp only [if_true] at hres ⊢
        rw [concat_refines w v hgw hg hres []]; rfl
      | false =>
        simp only [Bool.false_eq_true, if_false] at hres ⊢
        rw [concat_refines v w hg hgw hres []]; rfl
  | delName n =>
    simp only [ChainOp.map, Fn.chainStep, Spec.chainStep, deleteByName_refines v hg n []]
    exact refuse_match _ _
  | delIdx i =>
    simp only [ChainOp.map, Fn.chainStep, Spec.chainStep, deleteByIndex_refines v hg i hok []]
    exact refuse_match _ _
  | delKp kp =>
    simp only [ChainOp.map, Fn.chainStep, Spec.chainStep, deleteByKeypath_refines v hg kp hok []]
    exact refuse_match _ _
  | arrIns p a =>
    simp only [ChainOp.map, Fn.chainStep, Spec.chainStep, withArg_refines v hg a]
    cases hw : Spec.argOf v a with
    | none => rfl
    | some w =>
      have hgw := argOf_good hg hok.2.1 hw
      simp only []
      rw [arrayInsert_refines v w hg hgw p hok.1 (hok.2.2 w hw) []]; rfl
  | objIns k a u =>
    simp only [ChainOp.map, Fn.chainStep, Spec.chainStep, withArg_refines v hg a]
    cases hw : Spec.argOf v a with
    | none => rfl
    | some w =>
      have hgw := argOf_good hg hok.2.2.1 hw
      simp only [Option.bind_some]
      rw [objectInsert_refines v hg k w u hgw hok.1 hok.2.1 (fun r hr => hok.2.2.2 w r hw hr) []]
      cases hins : Spec.objectInsert v k w u with
      | ok r => rfl
      | error e => cases e <;> rfl
  | objDel ks =>
    simp only [ChainOp.map, Fn.chainStep, Spec.chainStep, objectDelete_refines v hg ks []]
    exact refuse_match _ _
  | objPick ks =>
    simp only [ChainOp.map, Fn.chainStep, Spec.chainStep, objectPick_refines v hg ks []]
    exact refuse_match _ _
  | strip =>
    simp only [ChainOp.map, Fn.chainStep, Spec.chainStep, stripNulls_refines v hg []]
    rfl
  | getIdx i => exact getByIndex_refines v hg i
  | getName n ic => exact getByName_refines v hg n ic
  | getKp kp => exact getByKeypath_refines v hg kp
  | keys => exact objectKeys_refines v hg
  | distinct =>
    simp only [ChainOp.map, Fn.chainStep, Spec.chainStep, arrayDistinct_refines v hg hok []]
    rfl
  | inter a =>
    simp only [ChainOp.map, Fn.chainStep, Spec.chainStep, withArg_refines v hg a]
    cases hw : Spec.argOf v a with
    | none => rfl
    | some w =>
      have hgw := argOf_set hg hok.1 hok.2 hw
      simp only []
      rw [arrayIntersection_refines v w hg hgw.1 hok.1 hgw.2 []]; rfl
  | except a =>
    simp only [ChainOp.map, Fn.chainStep, Spec.chainStep, withArg_refines v hg a]
    cases hw : Spec.argOf v a with
    | none => rfl
    | some w =>
      have hgw := argOf_set hg hok.1 hok.2 hw
      simp only []
      rw [arrayExcept_refines v w hg hgw.1 hok.1 hgw.2 []]; rfl
  | wrapArr as =>
    simp only [ChainOp.map, Fn.chainStep, Spec.chainStep, argsOf_refines v hg as]
    cases hws : Spec.argsOf v as with
    | none => rfl
    | some ws =>
      have ⟨hgl, hlen⟩ := argsOf_goodL hg hok.1 hws
      simp only [Option.map_some]
      rw [buildArray_refines ws (by rw [hlen]; exact hok.2) hgl []]; rfl
  | wrapObj kas =>
    simp only [ChainOp.map, Fn.chainStep, Spec.chainStep, kargsOf_refines v hg kas]
    cases hws : Spec.kargsOf v kas with
    | none => rfl
    | some ws =>
      have hgk := kargsOf_goodK hg hok.1 hws
      simp only [Option.map_some]
      rw [buildObject_refines ws hgk (hok.2 ws hws) []]; rfl
  | selFirst jp => exact selFirst_refines v hg jp hok
  | selArr jp => exact selArr_refines v hg jp hok.1 hok.2

/-! ### goodness preservation -/

/-- **one chain step keeps the document canonical**: for the shrinking / extracting operations
this is proved from `goodTop v` alone; for the growing ones it is the hypothesis in `OpOK` -/
theorem chainStep_good (v : JV) (hg : goodTop v = true) (op : ChainOp JV) (hok : OpOK v op) (r : JV)
    (h : Spec.chainStep v op = some r) : goodTop r = true := by
  cases op with
  | concat a l =>
    simp only [Spec.chainStep, Option.map_eq_some_iff] at h
    obtain ⟨w, hw, rfl⟩ := h
    exact hok.2 w hw
  | delName n => exact deleteByName_good v hg n r h
  | delIdx i => exact deleteByIndex_good v hg i r h
  | delKp kp => exact deleteByKeypath_good v hg kp hok r h
  | arrIns p a =>
    simp only [Spec.chainStep, Option.map_eq_some_iff] at h
    obtain ⟨w, hw, rfl⟩ := h
    exact hok.2.2 w hw
  | objIns k a u =>
    simp only [Spec.chainStep, Option.bind_eq_some_iff] at h
    obtain ⟨w, hw, h⟩ := h
    cases hins : Spec.objectInsert v k w u with
    | ok r' =>
      rw [hins] at h; simp only [Option.some.injEq] at h; subst h
      exact hok.2.2.2 w r' hw hins
    | error e => rw [hins] at h; simp at h
  | objDel ks => exact objectDelete_good v hg ks r h
  | objPick ks => exact objectPick_good v hg ks r h
  | strip =>
    simp only [Spec.chainStep, Option.some.injEq] at h; subst h
    exact goodTop_stripNulls v hg
  | getIdx i => exact good_goodTop r (spec_getByIndex_good v hg i r h)
  | getName n ic => exact good_goodTop r (spec_getByName_good v hg n ic r h)
  | getKp kp => exact getByKeypath_good v hg kp r h
  | keys => exact objectKeys_good v hg r h
  | distinct =>
    simp only [Spec.chainStep, Option.some.injEq] at h; subst h
    exact arrayDistinct_good v hg hok
  | inter a =>
    simp only [Spec.chainStep, Option.map_eq_some_iff] at h
    obtain ⟨w, _, rfl⟩ := h
    exact arraySetOp_good true v w hg hok.1
  | except a =>
    simp only [Spec.chainStep, Option.map_eq_some_iff] at h
    obtain ⟨w, _, rfl⟩ := h
    exact arraySetOp_good false v w hg hok.1
  | wrapArr as =>
    simp only [Spec.chainStep, Option.map_eq_some_iff] at h
    obtain ⟨ws, hws, rfl⟩ := h
    have ⟨hgl, hlen⟩ := argsOf_goodL hg hok.1 hws
    simp only [Spec.buildArray, goodTop, Bool.and_eq_true, decide_eq_true_eq]
    exact ⟨by rw [hlen]; exact hok.2, hgl⟩
  | wrapObj kas =>
    simp only [Spec.chainStep, Option.map_eq_some_iff] at h
    obtain ⟨ws, hws, rfl⟩ := h
    exact buildObject_good ws (kargsOf_goodK hg hok.1 hws) (hok.2 ws hws)
  | selFirst jp => exact selFirst_good v hg jp hok r h
  | selArr jp => exact selArr_good v jp hok.2 r h

end Jsonb
