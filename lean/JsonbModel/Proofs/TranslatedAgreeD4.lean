/-
Phase 4: `delete_jsonb_by_index` / `delete_by_index` of functions.rs, translated from source, against
`Fn.deleteByIndex` (Functions/Edit.lean).
-/
import JsonbModel.Proofs.TranslatedAgreeD3

set_option linter.unusedSimpArgs false
set_option linter.unusedVariables false

namespace Jsonb.TrAgree
open Jsonb.Rs

/-! ## shared facts about headers and raw pushes -/

theorem hdrLen_cast_i32 (header : Nat) :
    Rs.cast .i32 (Rs.bitand (header : Int) (C.CONTAINER_HEADER_LEN_MASK : Int)) = ((hdrLen header : Nat) : Int) := by
  have hL := hdrLen_lt header
  rw [Rs.bitand_natCast]
  exact Rs.cast_of_inRange _ _ (by rw [Rs.inRange_iff]; unfold hdrLen at hL; simp [IntTy.minVal, IntTy.maxVal, IntTy.signed, IntTy.bits]; omega)

theorem ofBE_rawOf (x : JE × Bytes) : ofBE (Fn.rawOf x) = .Raw (ofItem x).1 (ofItem x).2 := rfl

/-- `builder.push_raw(jentry, item)` on any builder value -/
theorem array_push_raw_any (b : Tr.ArrayBuilder) (je : Tr.JEntry) (d : Bytes) :
    Tr.ArrayBuilder.push_raw b je d = .ok ⟨b.entries ++ [.Raw je d]⟩ := by
  unfold Tr.ArrayBuilder.push_raw
  simp only [Ctl.run_ret', Rs.vecPush]

theorem addI32_agrees (a b : Int) : Rs.add .i32 a b = Fn.addI32 a b := by
  unfold Rs.add Rs.checked Fn.addI32
  simp only [Rs.inRange_iff, IntTy.minVal, IntTy.maxVal, IntTy.signed, IntTy.bits]
  rfl

/-! ## removeAt -/

theorem removeAt_mem {α : Type} : ∀ (l : List α) (n : Nat) (x : α), x ∈ Fn.removeAt l n → x ∈ l
  | [], _, x, h => by simp [Fn.removeAt] at h
  | y :: ys, 0, x, h => by simp only [Fn.removeAt] at h; simp [h]
  | y :: ys, n + 1, x, h => by
    simp only [Fn.removeAt, List.mem_cons] at h
    cases h with
    | inl h => simp [h]
    | inr h => simp [removeAt_mem ys n x h]

theorem removeAt_length_le' {α : Type} : ∀ (l : List α) (n : Nat), (Fn.removeAt l n).length ≤ l.length
  | [], _ => by simp [Fn.removeAt]
  | y :: ys, 0 => by simp [Fn.removeAt]
  | y :: ys, n + 1 => by simp [Fn.removeAt]; exact removeAt_length_le' ys n

theorem removeAt_sumLen : ∀ (l : List (JE × Bytes)) (n : Nat), sumLen (Fn.removeAt l n) ≤ sumLen l
  | [], _ => by simp [Fn.removeAt]
  | y :: ys, 0 => by simp [Fn.removeAt, sumLen]
  | y :: ys, n + 1 => by simp only [Fn.removeAt, sumLen]; have := removeAt_sumLen ys n; omega

/-! ## the loop -/

/-- the effect of one iteration of the `enumerate` loop on the builder -/
def dbiStep (index : Nat) (i : Nat) (x : Tr.JEntry × Bytes) (b : Tr.ArrayBuilder) : Tr.ArrayBuilder :=
  if i ≠ index then ⟨b.entries ++ [.Raw x.1 x.2]⟩ else b

theorem dbi_loop1_step (index i : Nat) (x : Tr.JEntry × Bytes) (b : Tr.ArrayBuilder) :
    Tr.delete_jsonb_by_index.loop1 (index : Int) ((i : Int), x) b = Ctl.val (.next (dbiStep index i x b)) := by
  unfold Tr.delete_jsonb_by_index.loop1 dbiStep
  dsimp only
  by_cases h : i = index
  · have e1 : ((i : Int) = (index : Int)) = True := eq_true (by omega)
    have e2 : ((index : Int) = (i : Int)) = True := eq_true (by omega)
    simp only [ne_eq, e1, e2, h, not_true_eq_false, decide_false, Bool.false_eq_true, if_false, Ctl.pure_eq', Ctl.val_bind',
      Rs.loopStep_val']
  · have e1 : ((i : Int) = (index : Int)) = False := eq_false (by omega)
    have e2 : ((index : Int) = (i : Int)) = False := eq_false (by omega)
    simp only [ne_eq, e1, e2, h, not_false_eq_true, decide_true, if_true, array_push_raw_any, Ctl.ofRes_ok', Ctl.pure_eq',
      Ctl.val_bind', Rs.loopStep_val']

theorem dbi_fold_after (index : Nat) : ∀ (items : List (JE × Bytes)) (i : Nat) (acc : List BEntry), index < i →
    foldIdx (dbiStep index) i (items.map ofItem) ⟨ofBEs acc⟩ = ⟨ofBEs (acc ++ items.map Fn.rawOf)⟩
  | [], i, acc, _ => by simp [foldIdx]
  | x :: xs, i, acc, h => by
    simp only [List.map_cons, foldIdx, dbiStep, if_pos (show i ≠ index by omega)]
    have := dbi_fold_after index xs (i + 1) (acc ++ [Fn.rawOf x]) (by omega)
    simp only [ofBEs_append, ofBEs, ofBE_rawOf, List.append_assoc, List.cons_append, List.nil_append] at this ⊢
    exact this

theorem dbi_fold (index : Nat) : ∀ (items : List (JE × Bytes)) (i : Nat) (acc : List BEntry), i ≤ index →
    foldIdx (dbiStep index) i (items.map ofItem) ⟨ofBEs acc⟩ =
      ⟨ofBEs (acc ++ (Fn.removeAt items (index - i)).map Fn.rawOf)⟩
  | [], i, acc, _ => by simp [foldIdx, Fn.removeAt]
  | x :: xs, i, acc, h => by
    by_cases hi : i = index
    · subst hi
      simp only [List.map_cons, foldIdx, dbiStep, ne_eq, not_true_eq_false, if_false, Nat.sub_self, Fn.removeAt]
      exact dbi_fold_after i xs (i + 1) acc (by omega)
    · obtain ⟨k, hk⟩ : ∃ k, index - i = k + 1 := ⟨index - i - 1, by omega⟩
      simp only [List.map_cons, foldIdx, dbiStep, if_pos hi, hk, Fn.removeAt]
      have := dbi_fold index xs (i + 1) (acc ++ [Fn.rawOf x]) (by omega)
      have hk' : index - (i + 1) = k := by omega
      simp only [hk', ofBEs_append, ofBEs, ofBE_rawOf, List.append_assoc, List.cons_append, List.nil_append,
        List.map_cons] at this ⊢
      exact this

/-! ## the function -/

/-- **`delete_jsonb_by_index`, translated from source, is the model's `Fn.deleteByIndex`**: for every byte
string `value` (JSONB or not), every `i32` index, every prior buffer, lengths below `2^62`, and every
fuel above the largest entry count a header can hold -/
theorem delete_jsonb_by_index_agrees (value : Bytes) (index : Int) (buf : Bytes) (fuel : Nat)
    (hidx : -2147483648 ≤ index ∧ index ≤ 2147483647) (hfuel : 536870912 < fuel)
    (hv : value.length < 4611686018427387904) (hb : buf.length < 4611686018427387904) :
    Tr.delete_jsonb_by_index fuel value index buf = Fn.deleteByIndex value index buf := by
  unfold Tr.delete_jsonb_by_index Fn.deleteByIndex
  rw [read_u32_zero]
  cases hr : readU32At value 0 with
  | none => simp only [Ctl.ofRes_err', Ctl.ret_bind', Ctl.run_ret']
  | some h =>
    have hL := hdrLen_lt h
    simp only [Ctl.ofRes_ok', Ctl.val_bind', hdrType_eq]
    by_cases ht : hdrType h = C.ARRAY_CONTAINER_TAG
    · simp only [ht, decide_true, if_true, hdrLen_cast_i32, hdrLen_cast]
      -- the adjusted index: both sides continue with the same `idx`, an `i32` value
      by_cases hneg : index < 0
      case' pos =>
        have hadd : Fn.addI32 ((hdrLen h : Nat) : Int) index = .ok (((hdrLen h : Nat) : Int) + index) := by
          unfold Fn.addI32; dsimp only; rw [if_pos (by omega)]
        have hbnd : -2147483648 ≤ ((hdrLen h : Nat) : Int) + index ∧ ((hdrLen h : Nat) : Int) + index ≤ 2147483647 := by omega
        have hin : IntTy.i32.InRange (((hdrLen h : Nat) : Int) + index) := by
          rw [Rs.inRange_iff]; simp [IntTy.minVal, IntTy.maxVal, IntTy.signed, IntTy.bits]; omega
        have hadd1 : Rs.add .i32 ((hdrLen h : Nat) : Int) index = .ok (((hdrLen h : Nat) : Int) + index) := Rs.add_ok _ _ _ hin
        have hadd2 : Rs.add .i32 index ((hdrLen h : Nat) : Int) = .ok (((hdrLen h : Nat) : Int) + index) := by
          have := Rs.add_ok .i32 index ((hdrLen h : Nat) : Int) (by rw [Int.add_comm]; exact hin)
          rw [Int.add_comm index] at this; exact this
        rw [if_pos (show decide (index < 0) = true by simpa using hneg), if_pos hneg, hadd]
        simp only [hadd1, hadd2, Ctl.ofRes_ok', Ctl.val_bind', Ctl.pure_eq']
        clear hadd1 hadd2 hin
        generalize ((hdrLen h : Nat) : Int) + index = idx at hbnd ⊢
        clear hadd hneg hidx
        revert idx
      case' neg =>
        have hbnd := hidx
        rw [if_neg (show ¬ (decide (index < 0) = true) by simpa using hneg), if_neg hneg]
        simp only [Ctl.pure_eq', Ctl.val_bind']
        clear hneg hidx
        revert index
      all_goals
        intro idx hbnd
        by_cases hout : idx < 0 ∨ idx ≥ ((hdrLen h : Nat) : Int)
        · have hdec : (decide (idx < 0) || decide (idx ≥ ((hdrLen h : Nat) : Int))) = true := by
            simp only [Bool.or_eq_true, decide_eq_true_eq]; exact hout
          simp only [hdec, if_true, hout, Rs.extendFromSlice, Ctl.pure_eq', Ctl.val_bind', Ctl.run_ret']
        · have hdec : (decide (idx < 0) || decide (idx ≥ ((hdrLen h : Nat) : Int))) = false := by
            rw [Bool.eq_false_iff]; simp only [ne_eq, Bool.or_eq_true, decide_eq_true_eq]; exact hout
          simp only [hdec, Bool.false_eq_true, if_false, hout]
          have hnew := array_builder_new_agrees (hdrLen h) (by omega)
          obtain ⟨k, hk⟩ : ∃ k : Nat, idx = (k : Int) := ⟨idx.toNat, by omega⟩
          subst hk
          have hkc : Rs.cast .usize ((k : Nat) : Int) = ((k : Nat) : Int) := Rs.usize_nat _ (by omega)
          simp only [hnew, Ctl.ofRes_ok', Ctl.val_bind', hkc, iterate_array_agrees, Int.toNat_natCast]
          rw [forIterEnum_array value h fuel (by omega) (dbiStep k) _ (dbi_loop1_step k)]
          cases hit : iterArray value h with
          | ok items =>
            simp only [Ctl.val_bind']
            have hfold := dbi_fold k items 0 [] (by omega)
            simp only [List.nil_append, Nat.sub_zero] at hfold
            rw [hfold]
            obtain ⟨hb1, hb2, hb3⟩ := iterArray_bounds value h items hit
            have hraw : RawFits ((Fn.removeAt items k).map Fn.rawOf) :=
              rawFits_map_rawOf _ (fun x hx => hb2 x (removeAt_mem items k x hx))
            have hlen := removeAt_length_le' items k
            have hsum := removeAt_sumLen items k
            obtain ⟨n, hT, hM⟩ := array_build_raw _ hraw buf fuel (by omega) (by simp only [List.length_map]; omega)
              (by rw [bpaysL_map_rawOf]; simp only [List.length_map]; omega)
            rw [hT, hM]
            simp only [Ctl.ofRes_ok', Ctl.val_bind', Ctl.pure_eq', Ctl.run_ret']
          | err e => simp only [Ctl.ret_bind', Ctl.run_ret']
          | panic p => simp only [Ctl.ret_bind', Ctl.run_ret']
          | fuel => exact absurd hit (iterArray_ne_fuel value h)
    · simp only [ht, decide_false, Bool.false_eq_true, if_false, Ctl.ret_bind', Ctl.run_ret']

/-- **`delete_by_index`**: on JSONB input the translated public function is the JSONB helper, otherwise the
result of the text branch (`text`, exactly where the source returns it) -/
theorem delete_by_index_agrees (value : Bytes) (index : Int) (buf : Bytes) (fuel : Nat) (text : Res Bytes)
    (hidx : -2147483648 ≤ index ∧ index ≤ 2147483647) (hfuel : 536870912 < fuel)
    (hv : value.length < 4611686018427387904) (hb : buf.length < 4611686018427387904) :
    Tr.delete_by_index fuel value index buf text =
      if isJsonb value then Fn.deleteByIndex value index buf else text := by
  unfold Tr.delete_by_index
  rw [is_jsonb_agrees, delete_jsonb_by_index_agrees value index buf fuel hidx hfuel hv hb]
  cases hj : isJsonb value
  · simp only [Ctl.ofRes_ok', Ctl.val_bind', Bool.not_false, if_true, Ctl.ret_bind', Ctl.run_ret', Bool.false_eq_true, if_false]
  · simp only [Ctl.ofRes_ok', Ctl.val_bind', Bool.not_true, Bool.false_eq_true, if_false, Ctl.pure_eq', if_true]
    cases Fn.deleteByIndex value index buf <;> rfl

end Jsonb.TrAgree
