/-
C05 (casts) — the number views, the type tests and the `to_*` casts on JSONB bytes agree with
their meaning on the document the bytes encode.

`Spec.*` below = the cast on the decoded tree, no bytes.  `Fn.*` = JSONB-level implementation
models (Functions/Access.lean); `T.*` = the whole public functions (sniffing + both branches,
Functions/Text2.lean), here on JSONB input.
-/
import JsonbModel.Proofs.TextEquiv5
import JsonbModel.Props.C18

namespace Jsonb.Spec
open JV

/-! ### number views.  The codec stores the normal form of a number (`Num.norm`: `Int64(0)` as
`UInt64(0)`, every NaN as `f64::NAN`), the views are taken of what is stored. -/
def asI64 : JV → Option Int
  | num n => Num.asI64 n.norm
  | _ => none
def asU64 : JV → Option Nat
  | num n => Num.asU64 n.norm
  | _ => none
/-- bits of the double; `Number::as_f64` is total -/
def asF64 : JV → Option Nat
  | num n => some (Num.asF64 n.norm)
  | _ => none

def isNull : JV → Bool | null => true | _ => false
def isBoolean : JV → Bool | JV.bool _ => true | _ => false
def isNumber : JV → Bool | num _ => true | _ => false
def isString : JV → Bool | str _ => true | _ => false
def isI64 (v : JV) : Bool := (asI64 v).isSome
def isU64 (v : JV) : Bool := (asU64 v).isSome
def isF64 (v : JV) : Bool := (asF64 v).isSome

/-- `to_bool`: a boolean itself; a string that is `true` / `false` ignoring ASCII case -/
def toBool : JV → Res Bool
  | JV.bool b => .ok b
  | str s =>
    if eqIgnoreAsciiCase s (Fn.lit "true") then .ok true
    else if eqIgnoreAsciiCase s (Fn.lit "false") then .ok false
    else .err "InvalidCast"
  | _ => .err "InvalidCast"

/-- `to_i64`: the i64 view of a number if it has one; a boolean as 1 / 0; a string through
`str::parse::<i64>` -/
def toI64 : JV → Res Int
  | num n => match Num.asI64 n.norm with | some i => .ok i | none => .err "InvalidCast"
  | JV.bool b => .ok (if b then 1 else 0)
  | str s => match Fn.parseI64 s with | some i => .ok i | none => .err "InvalidCast"
  | _ => .err "InvalidCast"

def toU64 : JV → Res Nat
  | num n => match Num.asU64 n.norm with | some u => .ok u | none => .err "InvalidCast"
  | JV.bool b => .ok (if b then 1 else 0)
  | str s => match Fn.parseU64 s with | some u => .ok u | none => .err "InvalidCast"
  | _ => .err "InvalidCast"

/-- `to_f64` (bits): every number has an f64 view; `true` = 1.0 = 0x3FF0000000000000 -/
def toF64 : JV → Res Nat
  | num n => .ok (Num.asF64 n.norm)
  | JV.bool b => .ok (if b then 0x3FF0000000000000 else 0)
  | str s => match Fn.parseF64 s with | some x => .ok x | none => .err "InvalidCast"
  | _ => .err "InvalidCast"

/-- `to_str`: a string itself; `true` / `false`; `format!("{}", number)` -/
def toStr (fmt : Nat → Bytes) : JV → Res Bytes
  | str s => .ok s
  | JV.bool b => .ok (if b then Fn.lit "true" else Fn.lit "false")
  | num n => .ok (Fn.numToString fmt n.norm)
  | _ => .err "InvalidCast"

end Jsonb.Spec

namespace Jsonb
open JV

/-! ### the normal form is invisible to the integer views, and to the f64 view up to NaN payload -/

theorem Spec.asI64_num (n : Num) : Spec.asI64 (num n) = Num.asI64 n := Num.asI64_norm n
theorem Spec.asU64_num (n : Num) : Spec.asU64 (num n) = Num.asU64 n := Num.asU64_norm n
theorem Spec.asF64_num (n : Num) (h : n.WF) : Spec.asF64 (num n) = some (F64.canon (Num.asF64 n)) := by
  simp only [Spec.asF64, Num.asF64_norm n h]
theorem Spec.asF64_num_exact (n : Num) (h : n.WF) (hnn : ∀ b, n = .float b → F64.isNaN b = false) :
    Spec.asF64 (num n) = some (Num.asF64 n) := by
  rw [Spec.asF64_num n h, F64.canon_of_not_nan _ (Num.asF64_not_nan n h hnn)]

/-- `to_i64` / `to_u64` / `to_f64` in the words of the property: the number view if present,
else a boolean as 1 / 0, else a string through the parse function, else `InvalidCast` -/
theorem Spec.toI64_eq (v : JV) : Spec.toI64 v =
    match Spec.asI64 v, Spec.asBool v, Spec.asStr v with
    | some i, _, _ => .ok i
    | none, some b, _ => .ok (if b then 1 else 0)
    | none, none, some s => (match Fn.parseI64 s with | some i => .ok i | none => .err "InvalidCast")
    | none, none, none => .err "InvalidCast" := by
  cases v with
  | num n => simp only [Spec.toI64, Spec.asI64, Spec.asBool, Spec.asStr]; cases Num.asI64 n.norm <;> rfl
  | _ => rfl
theorem Spec.toU64_eq (v : JV) : Spec.toU64 v =
    match Spec.asU64 v, Spec.asBool v, Spec.asStr v with
    | some i, _, _ => .ok i
    | none, some b, _ => .ok (if b then 1 else 0)
    | none, none, some s => (match Fn.parseU64 s with | some i => .ok i | none => .err "InvalidCast")
    | none, none, none => .err "InvalidCast" := by
  cases v with
  | num n => simp only [Spec.toU64, Spec.asU64, Spec.asBool, Spec.asStr]; cases Num.asU64 n.norm <;> rfl
  | _ => rfl
theorem Spec.toF64_eq (v : JV) : Spec.toF64 v =
    match Spec.asF64 v, Spec.asBool v, Spec.asStr v with
    | some x, _, _ => .ok x
    | none, some b, _ => .ok (if b then 0x3FF0000000000000 else 0)
    | none, none, some s => (match Fn.parseF64 s with | some x => .ok x | none => .err "InvalidCast")
    | none, none, none => .err "InvalidCast" := by
  cases v <;> rfl

theorem lowerEq_true (s : Bytes) : Fn.lowerEq s "true" = eqIgnoreAsciiCase s (Fn.lit "true") := by
  have : (Fn.lit "true").map lowerAscii = "true".toUTF8.toList := by
    show (Fn.lit "true").map lowerAscii = Fn.lit "true"
    rw [lit_true]; decide
  simp only [Fn.lowerEq, eqIgnoreAsciiCase, this]
theorem lowerEq_false (s : Bytes) : Fn.lowerEq s "false" = eqIgnoreAsciiCase s (Fn.lit "false") := by
  have : (Fn.lit "false").map lowerAscii = "false".toUTF8.toList := by
    show (Fn.lit "false").map lowerAscii = Fn.lit "false"
    rw [lit_false]; decide
  simp only [Fn.lowerEq, eqIgnoreAsciiCase, this]

namespace C05casts

/-! ### JSONB-level functions `Fn.*` -/

theorem asI64_refines (v : JV) (h : goodTop v = true) : Fn.asI64 (encodeSpec v) = .ok (Spec.asI64 v) := by
  simp only [Fn.asI64, asNumber_refines v h]
  cases v <;> rfl
theorem asU64_refines (v : JV) (h : goodTop v = true) : Fn.asU64 (encodeSpec v) = .ok (Spec.asU64 v) := by
  simp only [Fn.asU64, asNumber_refines v h]
  cases v <;> rfl

theorem toBool_refines (v : JV) (h : goodTop v = true) : Fn.toBool (encodeSpec v) = Spec.toBool v := by
  simp only [Fn.toBool, asBool_refines v h, asStr_refines v h, lowerEq_true, lowerEq_false]
  cases v <;> rfl

theorem toI64_refines (v : JV) (h : goodTop v = true) : Fn.toI64 (encodeSpec v) = Spec.toI64 v := by
  simp only [Fn.toI64, asI64_refines v h, asBool_refines v h, asStr_refines v h]
  cases v with
  | num n => simp only [Spec.asI64, Spec.toI64, Spec.asBool, Spec.asStr]; cases Num.asI64 n.norm <;> rfl
  | _ => rfl

theorem toU64_refines (v : JV) (h : goodTop v = true) : Fn.toU64 (encodeSpec v) = Spec.toU64 v := by
  simp only [Fn.toU64, asU64_refines v h, asBool_refines v h, asStr_refines v h]
  cases v with
  | num n => simp only [Spec.asU64, Spec.toU64, Spec.asBool, Spec.asStr]; cases Num.asU64 n.norm <;> rfl
  | _ => rfl

/-! ### the whole functions `T.*` on JSONB input.
`hs`: the document is sniffed as JSONB (`is_jsonb` looks at the whole first byte, so an array or
object with 2^24 or more members is taken for text: known finding D21, `Props.C11_sniff_false_huge`). -/

/-- every scalar document satisfies the sniffing hypothesis `hs` below -/
theorem topCount_scalar (v : JV) (h : Spec.isScalar v = true) : topCount v < 16777216 := by
  cases v <;> simp [Spec.isScalar, topCount] at h ⊢

section
variable (v : JV) (h : goodTop v = true) (hs : topCount v < 16777216)
include h hs

theorem T_asNull : T.asNull (encodeSpec v) = .ok (Spec.asNull v) := by
  simp [T.asNull, isJsonb_encodeSpec v hs, asNull_refines v h]
theorem T_asBool : T.asBool (encodeSpec v) = .ok (Spec.asBool v) := by
  simp [T.asBool, isJsonb_encodeSpec v hs, asBool_refines v h]
theorem T_asStr : T.asStr (encodeSpec v) = .ok (Spec.asStr v) := by
  simp [T.asStr, isJsonb_encodeSpec v hs, asStr_refines v h]
theorem T_asNumber : T.asNumber (encodeSpec v) = .ok ((Spec.asNumber v).map Num.norm) := by
  simp [T.asNumber, isJsonb_encodeSpec v hs, asNumber_refines v h]

theorem T_isNull_refines : T.isNull (encodeSpec v) = .ok (Spec.isNull v) := by
  simp only [T.isNull, T_asNull v h hs]; cases v <;> rfl
theorem T_isBoolean_refines : T.isBoolean (encodeSpec v) = .ok (Spec.isBoolean v) := by
  simp only [T.isBoolean, T_asBool v h hs]; cases v <;> rfl
theorem T_isNumber_refines : T.isNumber (encodeSpec v) = .ok (Spec.isNumber v) := by
  simp only [T.isNumber, T_asNumber v h hs]; cases v <;> rfl
theorem T_isString_refines : T.isString (encodeSpec v) = .ok (Spec.isString v) := by
  simp only [T.isString, T_asStr v h hs]; cases v <;> rfl

theorem T_asI64_refines : T.asI64 (encodeSpec v) = .ok (Spec.asI64 v) := by
  simp only [T.asI64, T_asNumber v h hs]; cases v <;> rfl
theorem T_asU64_refines : T.asU64 (encodeSpec v) = .ok (Spec.asU64 v) := by
  simp only [T.asU64, T_asNumber v h hs]; cases v <;> rfl
theorem T_asF64_refines : T.asF64 (encodeSpec v) = .ok (Spec.asF64 v) := by
  simp only [T.asF64, T_asNumber v h hs]; cases v <;> rfl

theorem T_isI64_refines : T.isI64 (encodeSpec v) = .ok (Spec.isI64 v) := by
  simp only [T.isI64, T_asI64_refines v h hs]; rfl
theorem T_isU64_refines : T.isU64 (encodeSpec v) = .ok (Spec.isU64 v) := by
  simp only [T.isU64, T_asU64_refines v h hs]; rfl
theorem T_isF64_refines : T.isF64 (encodeSpec v) = .ok (Spec.isF64 v) := by
  simp only [T.isF64, T_asF64_refines v h hs]; rfl

theorem T_toBool_refines : T.toBool (encodeSpec v) = Spec.toBool v := by
  simp only [T.toBool, T_asBool v h hs, T_asStr v h hs, lowerEq_true, lowerEq_false]
  cases v <;> rfl

theorem T_toI64_refines : T.toI64 (encodeSpec v) = Spec.toI64 v := by
  simp only [T.toI64, T.castTail, T_asI64_refines v h hs, T_asBool v h hs, T_asStr v h hs]
  cases v with
  | num n => simp only [Spec.asI64, Spec.toI64, Spec.asBool, Spec.asStr]; cases Num.asI64 n.norm <;> rfl
  | str s => simp only [Spec.asI64, Spec.toI64, Spec.asBool, Spec.asStr]; cases Fn.parseI64 s <;> rfl
  | _ => rfl
theorem T_toU64_refines : T.toU64 (encodeSpec v) = Spec.toU64 v := by
  simp only [T.toU64, T.castTail, T_asU64_refines v h hs, T_asBool v h hs, T_asStr v h hs]
  cases v with
  | num n => simp only [Spec.asU64, Spec.toU64, Spec.asBool, Spec.asStr]; cases Num.asU64 n.norm <;> rfl
  | str s => simp only [Spec.asU64, Spec.toU64, Spec.asBool, Spec.asStr]; cases Fn.parseU64 s <;> rfl
  | _ => rfl
theorem T_toF64_refines : T.toF64 (encodeSpec v) = Spec.toF64 v := by
  simp only [T.toF64, T.castTail, T_asF64_refines v h hs, T_asBool v h hs, T_asStr v h hs]
  cases v with
  | str s => simp only [Spec.asF64, Spec.toF64, Spec.asBool, Spec.asStr]; cases Fn.parseF64 s <;> rfl
  | _ => rfl
theorem T_toStr_refines (fmt : Nat → Bytes) : T.toStr fmt (encodeSpec v) = Spec.toStr fmt v := by
  simp only [T.toStr, T_asNumber v h hs, T_asBool v h hs, T_asStr v h hs]
  cases v <;> rfl

/-- the whole function and the JSONB-level function are the same function on JSONB input -/
theorem T_toBool_eq_Fn : T.toBool (encodeSpec v) = Fn.toBool (encodeSpec v) := by
  rw [T_toBool_refines v h hs, toBool_refines v h]
theorem T_toI64_eq_Fn : T.toI64 (encodeSpec v) = Fn.toI64 (encodeSpec v) := by
  rw [T_toI64_refines v h hs, toI64_refines v h]
theorem T_toU64_eq_Fn : T.toU64 (encodeSpec v) = Fn.toU64 (encodeSpec v) := by
  rw [T_toU64_refines v h hs, toU64_refines v h]
end

/-! ### "the i64 and u64 views are exact or absent" (with Props.C18_view_i64 / C18_view_u64) -/

/-- an i64 view `i` exists only of a number whose exact integer value is `i` -/
theorem asI64_exact (v : JV) (i : Int) (hv : Spec.asI64 v = some i) :
    ∃ n, v = num n ∧ (n = .int i ∨ ∃ u, n = .uint u ∧ (u : Int) = i) := by
  cases v with
  | num n => rw [Spec.asI64_num] at hv; exact ⟨n, rfl, Props.C18_view_i64 n i hv⟩
  | _ => simp [Spec.asI64] at hv
theorem asU64_exact (v : JV) (u : Nat) (hv : Spec.asU64 v = some u) :
    ∃ n, v = num n ∧ (n = .uint u ∨ ∃ j, n = .int j ∧ j = (u : Int)) := by
  cases v with
  | num n => rw [Spec.asU64_num] at hv; exact ⟨n, rfl, Props.C18_view_u64 n u hv⟩
  | _ => simp [Spec.asU64] at hv

/-- the same with the exact value `Num.val` that orders numbers (Props.C18_order_is_value_order) -/
theorem asI64_val (v : JV) (i : Int) (hv : Spec.asI64 v = some i) :
    ∃ n, v = num n ∧ (Num.val n).isInt i ∧ Num.cmp n (.int i) = .eq := by
  obtain ⟨n, rfl, hn⟩ := asI64_exact v i hv
  refine ⟨n, rfl, ?_⟩
  rcases hn with rfl | ⟨u, rfl, rfl⟩
  · simp [Num.val, ExtVal.isInt, Num.cmp]
  · refine ⟨by simp [Num.val, ExtVal.isInt], ?_⟩
    have : ¬ ((u : Int) < 0) := by omega
    simp [Num.cmp, this]
theorem asU64_val (v : JV) (u : Nat) (hv : Spec.asU64 v = some u) :
    ∃ n, v = num n ∧ (Num.val n).isInt u ∧ Num.cmp n (.uint u) = .eq := by
  obtain ⟨n, rfl, hn⟩ := asU64_exact v u hv
  refine ⟨n, rfl, ?_⟩
  rcases hn with rfl | ⟨j, rfl, rfl⟩
  · simp [Num.val, ExtVal.isInt, Num.cmp]
  · refine ⟨by simp [Num.val, ExtVal.isInt], ?_⟩
    have : ¬ ((u : Int) < 0) := by omega
    simp [Num.cmp, this]

/-- on the bytes: what `to_i64` answers for a number document is that number's exact value -/
theorem toI64_num_exact (n : Num) (h : n.WF) (i : Int) (hr : Fn.toI64 (encodeSpec (num n)) = .ok i) :
    n = .int i ∨ ∃ u, n = .uint u ∧ (u : Int) = i := by
  rw [toI64_refines (num n) (by simpa [goodTop, good] using h)] at hr
  simp only [Spec.toI64, Num.asI64_norm] at hr
  cases hn : Num.asI64 n with
  | none => simp [hn] at hr
  | some j =>
    simp only [hn, Res.ok.injEq] at hr
    exact Props.C18_view_i64 n i (hr ▸ hn)
theorem toU64_num_exact (n : Num) (h : n.WF) (u : Nat) (hr : Fn.toU64 (encodeSpec (num n)) = .ok u) :
    n = .uint u ∨ ∃ j, n = .int j ∧ j = (u : Int) := by
  rw [toU64_refines (num n) (by simpa [goodTop, good] using h)] at hr
  simp only [Spec.toU64, Num.asU64_norm] at hr
  cases hn : Num.asU64 n with
  | none => simp [hn] at hr
  | some j =>
    simp only [hn, Res.ok.injEq] at hr
    exact Props.C18_view_u64 n u (hr ▸ hn)

end C05casts

/-! ### concrete documents (kernel-checked) -/

/-- the float 2^63 = 0x43E0000000000000 has no i64 view: `to_i64` is an error, never a wrapped value -/
example : Fn.toI64 (encodeSpec (num (.float 0x43E0000000000000))) = .err "InvalidCast" := by decide +kernel
example : Fn.toBool (encodeSpec (str (Fn.lit "TRUE"))) = .ok true := by decide +kernel
example : Fn.toI64 (encodeSpec (str (Fn.lit "12"))) = .ok 12 := by decide +kernel
example : T.toF64 (encodeSpec (bool true)) = .ok 0x3FF0000000000000 := by decide +kernel
example : T.toU64 (encodeSpec (num (.int (-1)))) = .err "InvalidCast" := by decide +kernel
example : T.toI64 (encodeSpec (num (.float 0x43E0000000000000))) = .err "InvalidCast" := by decide +kernel
/-- `Int64(0)` is stored as the shared zero and still has both integer views -/
example : T.asI64 (encodeSpec (num (.int 0))) = .ok (some 0) ∧ T.asU64 (encodeSpec (num (.int 0))) = .ok (some 0) := by
  decide +kernel
example : T.toStr (fun _ => []) (encodeSpec (bool false)) = .ok (Fn.lit "false") := by decide +kernel
example : Fn.toBool (encodeSpec (arr [bool true])) = .err "InvalidCast" := by decide +kernel

end Jsonb
