/-
C19 — headline theorems: conversion to and from serde_json preserves the document.

Notation.  `encodeSpec v` is the README byte layout of the tree `v`; `goodTop v` = well formed
(numbers in range, strings UTF-8, object keys strictly increasing, counts and lengths inside the
format's fields); `finiteJ v` = every float is finite; `sortedJ v` = every object has strictly
increasing keys (implied by `goodTop`).  `Fn.toSerdeJson` / `Fn.toSerdeJsonObject` are the byte
walkers of functions.rs, `Spec.toSJ` / `Spec.fromSJ` the tree conversions of from.rs, `toSJT` is
`toSJ` without its failure arm, `reparse v` is the tree an independent strict JSON parser reads
from the text rendering of `v` (it differs from `v` only in storing non-negative `Int64` as
`UInt64`), `SJ.canon s` is `s` with the members of every object sorted by key.
-/
import JsonbModel.Proofs.SerdeRefine3
import JsonbModel.Proofs.ToStringDoc

namespace Jsonb
open JV Fn Spec SJ

/-! ### the strict parser's tree converts to the same serde_json value -/

theorem toSJ_reNum (n : Num) : toSJ (.num (reNum n)) = toSJ (.num n) := by
  cases n with
  | int i =>
    by_cases hi : 0 ≤ i
    · have e : reNum (.int i) = .uint i.toNat := by simp [reNum, hi]
      have hi' : i ≥ 0 := hi
      rw [e]; simp [toSJ, sjOfInt, hi']
    · have e : reNum (.int i) = .int i := by simp [reNum, hi]
      rw [e]
  | uint n => rfl
  | float b => rfl

mutual
theorem toSJ_reparse : (v : JV) → toSJ (reparse v) = toSJ v
  | .null => rfl
  | .bool _ => rfl
  | .num n => by simp only [reparse]; exact toSJ_reNum n
  | .str _ => rfl
  | .arr vs => by simp only [reparse, toSJ, toSJL_reparse vs]
  | .obj kvs => by simp only [reparse, toSJ, toSJK_reparse kvs []]
theorem toSJL_reparse : (vs : List JV) → toSJL (reparseL vs) = toSJL vs
  | [] => rfl
  | v :: vs => by simp only [reparseL, toSJL, toSJ_reparse v, toSJL_reparse vs]
theorem toSJK_reparse : (kvs : List (Bytes × JV)) → (acc : List (Bytes × SJ)) →
    toSJK (reparseK kvs) acc = toSJK kvs acc
  | [], _ => rfl
  | (k, v) :: kvs, acc => by
    simp only [reparseK, toSJK, toSJ_reparse v]
    cases toSJ v with
    | ok x => exact toSJK_reparse kvs _
    | err e => rfl
    | panic s => rfl
    | fuel => rfl
end

/-! ## 1. the byte walker -/

/-- **`to_serde_json` refines the tree conversion.**  For every well-formed document `v` whose
floats are all finite (any depth, any size), the byte walker run on the JSONB image of `v`, with
the fuel `2 * length + 8` that `Fn.toSerdeJson` supplies, returns exactly what
`From<Value> for serde_json::Value` returns on the tree: `.ok (toSJT v)` — same structure, same
strings, same members in key order, every number as the same `u64` (`pos`), negative `i64`
(`neg`) or `f64` bits (`float`).  The codec's number normalisation (`norm`: `Int64(0)` stored as
the shared zero, NaN canonicalised) is invisible: `toSJ (norm v) = toSJ v`. -/
theorem toSerdeJson_refines (v : JV) (hg : goodTop v = true) (hf : finiteJ v = true) :
    toSerdeJson (encodeSpec v) = toSJ v ∧ toSJ v = .ok (toSJT v) ∧ toSJ (norm v) = toSJ v := by
  refine ⟨?_, toSJ_finite v hf, toSJ_norm v⟩
  rw [toSerdeJson_relax v hg, toSJ_finite v hf]; rfl

/-- the same, stated against the decoded tree `norm v` (what `from_slice` returns for the bytes) -/
theorem toSerdeJson_refines_norm (v : JV) (hg : goodTop v = true) (hf : finiteJ v = true) :
    toSerdeJson (encodeSpec v) = toSJ (norm v) := by
  rw [toSJ_norm]; exact (toSerdeJson_refines v hg hf).1

/-- **Without the finiteness hypothesis** the two sides differ in the kind of failure only: the
walker is the tree conversion with its panic (`JsonNumber::from_f64(v).unwrap()`) read as
`Err(InvalidJson)`.  In particular a well-formed document containing NaN or ±∞ anywhere makes
`to_serde_json` return `Err(InvalidJson)` while `serde_json::Value::from(value)` panics. -/
theorem toSerdeJson_total (v : JV) (hg : goodTop v = true) :
    toSerdeJson (encodeSpec v) = relaxP (toSJ v) ∧
    (finiteJ v = true → toSerdeJson (encodeSpec v) = .ok (toSJT v)) ∧
    (finiteJ v = false → toSerdeJson (encodeSpec v) = .err "InvalidJson" ∧
      ∃ site, toSJ v = .panic site) := by
  refine ⟨toSerdeJson_relax v hg, ?_, ?_⟩
  · intro hf; rw [toSerdeJson_relax v hg, toSJ_finite v hf]; rfl
  · intro hf
    obtain ⟨site, hs⟩ := toSJ_nonfinite v hf
    exact ⟨by rw [toSerdeJson_relax v hg, hs]; rfl, site, hs⟩

/-- **The serde_json value is the document the strict parser reads from the text.**  For a
well-formed document with finite numbers (and a float formatter `fmt` whose output parses back to
the same `f64`, the hypothesis `fmtOK` of the `to_string` theorems): `to_string` prints a text,
the independent strict RFC 8259 parser reads it as a tree `v'`, and `to_serde_json` of the same
bytes is the serde_json value of `v'`; converting that value back with `fromSJ` gives `v'`
itself. -/
theorem toSerdeJson_text (fmt : Nat → Bytes) (v : JV) (hg : goodTop v = true)
    (hf : finiteJ v = true) (hok : fmtOK fmt v) :
    ∃ text v' s, toStringDoc fmt false (encodeSpec v) = .ok text ∧ Strict.parse text = some v' ∧
      toSerdeJson (encodeSpec v) = .ok s ∧ toSJ v' = .ok s ∧ fromSJ s = v' ∧
      valEq v' v = true := by
  refine ⟨render fmt v, reparse v, toSJT v, toStringDoc_render fmt v hg hok,
    parse_render fmt v hg hok, (toSerdeJson_total v hg).2.1 hf, ?_, ?_, valEq_reparse v⟩
  · rw [toSJ_reparse, toSJ_finite v hf]
  · exact fromSJ_toSJT v (sortedJ_of_goodTop v hg)

/-! ## 2. the object-only variant -/

/-- **`to_serde_json_object`** on the image of a well-formed document: for an object it is
`to_serde_json` wrapped in `Some` (so, with finite numbers, `Some` of the members in key order,
each converted); for an array or a scalar it is `Ok(None)`. -/
theorem toSerdeJsonObject_refines (v : JV) (hg : goodTop v = true) :
    toSerdeJsonObject (encodeSpec v) = (match v with
      | .obj _ => (toSerdeJson (encodeSpec v)).map some
      | _ => .ok none) ∧
    (∀ kvs, v = .obj kvs → finiteJ v = true →
      toSerdeJsonObject (encodeSpec v) = .ok (some (.obj (mapTK kvs)))) := by
  refine ⟨toSerdeJsonObject_eq v hg, ?_⟩
  intro kvs e hf
  subst e
  have hs : keysSorted kvs = true := by
    simp only [goodTop, Bool.and_eq_true] at hg; exact hg.1.2
  rw [toSerdeJsonObject_eq _ hg]
  simp only []
  rw [(toSerdeJson_total _ hg).2.1 hf, toSJT_obj_sorted kvs hs]
  rfl

/-! ## 3. the tree conversions are mutually inverse on JSON documents -/

/-- **`Value → serde_json → Value`.**  For every tree whose objects have strictly increasing
keys (every `Value`, being built on `BTreeMap`; implied by `goodTop`) and whose floats are finite:
`toSJ v` succeeds, and converting the result back gives `reparse v` — the tree the strict parser
reads from the text of `v` — which is equal to `v` as a JSON value (`valEq`: numbers compared by
value), and is `v` itself when `v` stores its non-negative integers as `UInt64`. -/
theorem fromSJ_toSJ_inverse (v : JV) (hs : sortedJ v = true) (hf : finiteJ v = true) :
    ∃ s, toSJ v = .ok s ∧ fromSJ s = reparse v ∧ valEq (fromSJ s) v = true ∧
      (Driver.allUnsigned v = true → fromSJ s = v) := by
  refine ⟨toSJT v, toSJ_finite v hf, fromSJ_toSJT v hs, ?_, ?_⟩
  · rw [fromSJ_toSJT v hs]; exact valEq_reparse v
  · intro hu; rw [fromSJ_toSJT v hs, reparse_allUnsigned v hu]

/-- the same from the well-formedness predicate of the byte-level theorems -/
theorem fromSJ_toSJ_inverse_good (v : JV) (hg : goodTop v = true) (hf : finiteJ v = true) :
    ∃ s, toSJ v = .ok s ∧ valEq (fromSJ s) v = true := by
  obtain ⟨s, h1, _, h3, _⟩ := fromSJ_toSJ_inverse v (sortedJ_of_goodTop v hg) hf
  exact ⟨s, h1, h3⟩

/-- **`serde_json → Value → serde_json`.**  For every serde_json value satisfying the invariants
of `serde_json::Number` (`NegInt` negative, `Float` finite — `numsOK`): converting to `Value` and
back succeeds and gives `canon s`, i.e. `s` with the members of every object sorted by key (a
`BTreeMap` in between; were a key repeated, the later member would win).  That is `s` itself when
the members of `s` are already in increasing key order (`sortedS`; e.g. serde_json without
`preserve_order`, or any value that came from a `Value`), and in every case it denotes the same
`Value`: `fromSJ (canon s) = fromSJ s`.  With `preserve_order` and members inserted out of key
order the result differs from `s` by the member order only (`canon_obj_perm`). -/
theorem toSJ_fromSJ_inverse (s : SJ) (h : numsOK s = true) :
    toSJ (fromSJ s) = .ok (canon s) ∧ (sortedS s = true → toSJ (fromSJ s) = .ok s) ∧
      fromSJ (canon s) = fromSJ s ∧ canon (canon s) = canon s := by
  have h1 : toSJ (fromSJ s) = .ok (canon s) := by
    rw [toSJ_finite _ (finiteJ_fromSJ s h), toSJT_fromSJ s h]
  refine ⟨h1, ?_, fromSJ_canon s h, canon_idem s h⟩
  intro hs; rw [h1, canon_sorted s h hs]

/-- **Bijection.**  Between the documents in the strict parser's normal form (sorted keys, finite
floats, non-negative integers unsigned) and the serde_json values with sorted members, `toSJ` and
`fromSJ` are inverse bijections: each maps into the other class and both round trips are the
identity. -/
theorem toSJ_fromSJ_bijection :
    (∀ v, sortedJ v = true → finiteJ v = true → Driver.allUnsigned v = true →
      toSJ v = .ok (toSJT v) ∧ numsOK (toSJT v) = true ∧ sortedS (toSJT v) = true ∧
        fromSJ (toSJT v) = v) ∧
    (∀ s, numsOK s = true → sortedS s = true →
      sortedJ (fromSJ s) = true ∧ finiteJ (fromSJ s) = true ∧
        Driver.allUnsigned (fromSJ s) = true ∧ toSJ (fromSJ s) = .ok s) := by
  constructor
  · intro v hs hf hu
    have hi := toSJT_image v hf hs
    exact ⟨toSJ_finite v hf, hi.1, hi.2, by rw [fromSJ_toSJT v hs, reparse_allUnsigned v hu]⟩
  · intro s h hs
    exact ⟨sortedJ_fromSJ s, finiteJ_fromSJ s h, allUnsigned_fromSJ s h,
      (toSJ_fromSJ_inverse s h).2.1 hs⟩

/-! ## non-vacuity (kernel-checked) -/

/-- `{"a":[5,-5,1.5,0],"b":{"c":"d","e":null}}` with `Int64` integers -/
def serdeSample : JV :=
  obj [([0x61], arr [num (.int 5), num (.int (-5)), num (.float 0x3ff8000000000000), num (.int 0)]),
       ([0x62], obj [([0x63], str [0x64]), ([0x65], null)])]

example : goodTop serdeSample = true ∧ finiteJ serdeSample = true ∧ sortedJ serdeSample = true := by
  decide +kernel

/-- the walker's output on the sample, computed by the kernel, is the tree conversion -/
example : (match toSerdeJson (encodeSpec serdeSample) with
    | .ok s => SJ.eqB s (.obj [([0x61], .arr [.pos 5, .neg (-5), .float 0x3ff8000000000000, .pos 0]),
                              ([0x62], .obj [([0x63], .str [0x64]), ([0x65], .null)])])
    | _ => false) = true := by decide +kernel

example : toSerdeJson (encodeSpec serdeSample) = .ok (toSJT serdeSample) :=
  (toSerdeJson_total serdeSample (by decide +kernel)).2.1 (by decide +kernel)

/-- back from serde_json: the non-negative `Int64` come back unsigned, same JSON value -/
example : encodeSpec (fromSJ (toSJT serdeSample))
    = encodeSpec (obj [([0x61], arr [num (.uint 5), num (.int (-5)), num (.float 0x3ff8000000000000), num (.uint 0)]),
                       ([0x62], obj [([0x63], str [0x64]), ([0x65], null)])]) ∧
    valEq (fromSJ (toSJT serdeSample)) serdeSample = true := by decide +kernel

/-- a NaN inside a well-formed document: `Err(InvalidJson)` from the walker, a panic from
`serde_json::Value::from(value)` -/
example : goodTop (arr [num (.float F64.canonNaN)]) = true ∧
    (match toSerdeJson (encodeSpec (arr [num (.float F64.canonNaN)])) with
      | .err e => e == "InvalidJson" | _ => false) = true ∧
    (match toSJ (arr [num (.float F64.canonNaN)]) with | .panic _ => true | _ => false) = true := by
  decide +kernel

/-- the object-only variant: `Some(members)` on an object, `None` on an array and on a scalar -/
example : (match toSerdeJsonObject (encodeSpec serdeSample) with
    | .ok (some s) => SJ.eqB s (toSJT serdeSample) | _ => false) = true ∧
    (match toSerdeJsonObject (encodeSpec (arr [null])) with | .ok none => true | _ => false) = true ∧
    (match toSerdeJsonObject (encodeSpec (num (.uint 7))) with | .ok none => true | _ => false) = true := by
  decide +kernel

/-- an insertion-ordered serde_json object `{"b":1,"a":-2}` comes back as `{"a":-2,"b":1}`:
the same members, sorted -/
example : numsOK (.obj [([0x62], .pos 1), ([0x61], .neg (-2))]) = true ∧
    (match toSJ (fromSJ (.obj [([0x62], .pos 1), ([0x61], .neg (-2))])) with
      | .ok s => SJ.eqB s (.obj [([0x61], .neg (-2)), ([0x62], .pos 1)]) | _ => false) = true ∧
    SJ.eqB (canon (.obj [([0x62], .pos 1), ([0x61], .neg (-2))]))
      (.obj [([0x62], .pos 1), ([0x61], .neg (-2))]) = false := by decide +kernel

/-- a sorted serde_json value comes back unchanged -/
example : sortedS (toSJT serdeSample) = true ∧ numsOK (toSJT serdeSample) = true ∧
    (match toSJ (fromSJ (toSJT serdeSample)) with
      | .ok s => SJ.eqB s (toSJT serdeSample) | _ => false) = true := by decide +kernel

end Jsonb
