import JsonbModel.Proofs.TranslatedAgreeF7

set_option linter.unusedSimpArgs false
set_option linter.unusedVariables false

namespace Jsonb.TrAgree
open Jsonb.Rs

/-! ## the group: `compare_scalar` / `compare_container` against `cmpScalar` / `cmpContainer` -/

/-- agreement of `compare_scalar` with the model at model fuel `f`, for every larger translation fuel -/
def ScalarAgree (f : Nat) : Prop :=
  ∀ (g : Nat) (lj rj : JE) (l r : Bytes) (kl kr : Nat), f < g →
    l.length < 9223372036854775808 → r.length < 9223372036854775808 →
    lj.len < 4294967296 → rj.len < 4294967296 →
    kasScalar kl lj.ty l = true → kasScalar kr rj.ty r = true →
    Fn.cmpScalar f lj l rj r ≠ .fuel →
    panicAny (Tr.compare_scalar g (ofJE lj) l (ofJE rj) r) = panicAny (Fn.cmpScalar f lj l rj r)

theorem recOK_of_IH (F g : Nat) (IH : ∀ f', f' < F → ScalarAgree f') (hg : F ≤ g) :
    CmpRecOK F (Tr.compare_scalar g) :=
  fun f' hf' lj rj l r kl kr h1 h2 h3 h4 h5 h6 h7 => IH f' hf' g lj rj l r kl kr (by omega) h1 h2 h3 h4 h5 h6 h7

theorem cmpContainer_arr (f : Nat) (l r : Bytes) (lh rh : Nat) (hlh : readU32At l 0 = some lh)
    (hrh : readU32At r 0 = some rh) (h1 : hdrType lh = C.ARRAY_CONTAINER_TAG) (h2 : hdrType rh = C.ARRAY_CONTAINER_TAG) :
    Fn.cmpContainer (f + 1) l r = Fn.cmpArrayLoop f (l.drop 4) (r.drop 4) (min (hdrLen lh) (hdrLen rh)) 0 (4 * hdrLen lh)
      (4 * hdrLen rh) (compare (hdrLen lh) (hdrLen rh)) := by
  have h4l := readU32At_some_len _ _ _ hlh
  have h4r := readU32At_some_len _ _ _ hrh
  rw [Fn.cmpContainer, hlh, hrh]
  simp only [h1, h2, and_self, if_true, sliceFrom_model_ok l 4 (by omega), sliceFrom_model_ok r 4 (by omega)]

theorem cmpContainer_obj (f : Nat) (l r : Bytes) (lh rh : Nat) (hlh : readU32At l 0 = some lh)
    (hrh : readU32At r 0 = some rh) (h1 : hdrType lh = C.OBJECT_CONTAINER_TAG) (h2 : hdrType rh = C.OBJECT_CONTAINER_TAG) :
    Fn.cmpContainer (f + 1) l r = Fn.cmpObject f lh (l.drop 4) rh (r.drop 4) := by
  have h4l := readU32At_some_len _ _ _ hlh
  have h4r := readU32At_some_len _ _ _ hrh
  rw [Fn.cmpContainer, hlh, hrh]
  simp only [h1, h2, and_self, if_true, sliceFrom_model_ok l 4 (by omega), sliceFrom_model_ok r 4 (by omega)]
  rw [if_neg (by decide)]

theorem kasContainer_arr (k : Nat) (bs : Bytes) (h : Nat) (hk : kasContainer k bs = true) (hh : readU32At bs 0 = some h)
    (ht : hdrType h = C.ARRAY_CONTAINER_TAG) : ∃ k', kasItems k' (bs.drop 4) (hdrLen h) 0 (4 * hdrLen h) = true := by
  cases k with
  | zero => simp [kasContainer] at hk
  | succ k =>
    simp only [kasContainer, hh, ht, if_true] at hk
    exact ⟨k, hk⟩

theorem kasContainer_obj (k : Nat) (bs : Bytes) (h : Nat) (hk : kasContainer k bs = true) (hh : readU32At bs 0 = some h)
    (ht : hdrType h = C.OBJECT_CONTAINER_TAG) : ∃ k', kasObject k' (hdrLen h) (bs.drop 4) = true := by
  cases k with
  | zero => simp [kasContainer] at hk
  | succ k =>
    simp only [kasContainer, hh, ht] at hk
    rw [if_neg (by decide)] at hk
    simp only [if_true] at hk
    exact ⟨k, hk⟩

/-- `compare_container` from the agreement of `compare_scalar` below `F` -/
theorem containerAgree (F : Nat) (IH : ∀ f', f' < F → ScalarAgree f') :
    ∀ (f g : Nat) (l r : Bytes) (kl kr : Nat), f ≤ F → f < g →
      l.length < 9223372036854775808 → r.length < 9223372036854775808 →
      kasContainer kl l = true → kasContainer kr r = true → Fn.cmpContainer f l r ≠ .fuel →
      panicAny (Tr.compare_container g l r) = panicAny (Fn.cmpContainer f l r) := by
  intro f g l r kl kr hfF hfg hl hr hkl hkr hne
  cases f with
  | zero => simp [Fn.cmpContainer] at hne
  | succ f =>
    obtain ⟨g, rfl⟩ : ∃ m, g = m + 1 := ⟨g - 1, by omega⟩
    refine compare_container_step g f l r ?_ ?_
    · intro lh rh hlh hrh h1 h2
      rw [cmpContainer_arr f l r lh rh hlh hrh h1 h2] at hne
      obtain ⟨g, rfl⟩ : ∃ m, g = m + 1 := ⟨g - 1, by omega⟩
      obtain ⟨kl', hkl'⟩ := kasContainer_arr kl l lh hkl hlh h1
      obtain ⟨kr', hkr'⟩ := kasContainer_arr kr r rh hkr hrh h2
      exact compare_array_step g f lh rh (l.drop 4) (r.drop 4) kl' kr' (by simp; omega) (by simp; omega)
        (recOK_of_IH f g (fun f' hf' => IH f' (by omega)) (by omega)) hkl' hkr' hne
    · intro lh rh hlh hrh h1 h2
      rw [cmpContainer_obj f l r lh rh hlh hrh h1 h2] at hne
      cases f with
      | zero => simp [Fn.cmpObject] at hne
      | succ f =>
        obtain ⟨g, rfl⟩ : ∃ m, g = m + 1 := ⟨g - 1, by omega⟩
        obtain ⟨kl', hkl'⟩ := kasContainer_obj kl l lh hkl hlh h1
        obtain ⟨kr', hkr'⟩ := kasContainer_obj kr r rh hkr hrh h2
        exact compare_object_step g f lh rh (l.drop 4) (r.drop 4) kl' kr' (by simp; omega) (by simp; omega)
          (recOK_of_IH f g (fun f' hf' => IH f' (by omega)) (by omega)) hkl' hkr' hne

theorem kasScalar_container (k ty : Nat) (bs : Bytes) (hk : kasScalar k ty bs = true) (ht : ty = C.CONTAINER_TAG) :
    ∃ k', kasContainer k' bs = true := by
  cases k with
  | zero => simp [kasScalar] at hk
  | succ k =>
    simp only [kasScalar, ht, if_true] at hk
    exact ⟨k, hk⟩

/-- **the `compare` group**: wherever the model with fuel `f` answers (not `.fuel`), the translation of
`compare_scalar` with any larger fuel computes the model's answer, up to the text of a panic message, on
buffers whose key entries are string-typed -/
theorem scalarAgree_all : ∀ f, ScalarAgree f := by
  intro f
  induction f using Nat.strongRecOn with
  | _ f IH =>
    intro g lj rj l r kl kr hfg hl hr hll hrl hkl hkr hne
    cases f with
    | zero => simp [Fn.cmpScalar] at hne
    | succ f =>
      obtain ⟨g, rfl⟩ : ∃ m, g = m + 1 := ⟨g - 1, by omega⟩
      refine compare_scalar_step g f lj rj l r hl hr hll hrl ?_
      intro h1 h2
      rw [Fn.cmpScalar_container f lj l rj r h1 h2] at hne
      obtain ⟨kl', hkl'⟩ := kasScalar_container kl _ l hkl h1
      obtain ⟨kr', hkr'⟩ := kasScalar_container kr _ r hkr h2
      exact containerAgree f (fun f' hf' => IH f' (by omega)) f g l r kl' kr' (Nat.le_refl _) (by omega) hl hr hkl' hkr' hne

theorem compare_scalar_agrees (f g : Nat) (lj rj : JE) (l r : Bytes) (kl kr : Nat) (hfg : f < g)
    (hl : l.length < 9223372036854775808) (hr : r.length < 9223372036854775808)
    (hll : lj.len < 4294967296) (hrl : rj.len < 4294967296)
    (hkl : kasScalar kl lj.ty l = true) (hkr : kasScalar kr rj.ty r = true)
    (hne : Fn.cmpScalar f lj l rj r ≠ .fuel) :
    panicAny (Tr.compare_scalar g (ofJE lj) l (ofJE rj) r) = panicAny (Fn.cmpScalar f lj l rj r) :=
  scalarAgree_all f g lj rj l r kl kr hfg hl hr hll hrl hkl hkr hne

theorem compare_container_agrees (f g : Nat) (l r : Bytes) (kl kr : Nat) (hfg : f < g)
    (hl : l.length < 9223372036854775808) (hr : r.length < 9223372036854775808)
    (hkl : kasContainer kl l = true) (hkr : kasContainer kr r = true)
    (hne : Fn.cmpContainer f l r ≠ .fuel) :
    panicAny (Tr.compare_container g l r) = panicAny (Fn.cmpContainer f l r) :=
  containerAgree f (fun f' _ => scalarAgree_all f') f g l r kl kr (Nat.le_refl _) hfg hl hr hkl hkr hne

end Jsonb.TrAgree
