/-
Phase 6c, editors: `build_array` (generic over `IntoIterator`: translated for a list of byte slices) against
`Fn.buildArray` / `Fn.partsOf` / `Fn.partOf` of Functions/Edit.lean.  The body lives in the private
`build_array_into`; the public `build_array` is the rollback wrapper around it (truncates the caller's buffer when an
item is rejected), translated as the callee's outcome: `build_array_into_agrees`, `build_array_eq_into`,
`build_array_agrees`.
-/
import JsonbModel.Proofs.TranslatedAgreeI15

set_option linter.unusedSimpArgs false
set_option linter.unusedVariables false

namespace Jsonb.TrAgree
open Jsonb.Rs

/-- `(CONTAINER_TAG | value.len() as u32).to_be_bytes()` -/
theorem container_word_bytes (n : Nat) :
    Rs.toBeBytes .u32 (Rs.bitor ((C.CONTAINER_TAG : Nat) : Int) (Rs.cast .u32 ((n : Nat) : Int))) =
      u32be (C.CONTAINER_TAG ||| (n % 4294967296)) := by
  have h1 : C.CONTAINER_TAG < 4294967296 := by decide
  have h2 : n % 4294967296 < 4294967296 := Nat.mod_lt _ (by omega)
  rw [cast_u32_nat, Rs.bitor_natCast, Rs.toBeBytes_u32_nat _ (or_lt_u32 _ _ h1 h2)]
  rfl

/-- `for (i, b) in word.to_be_bytes().iter().enumerate() { buf[start + i] = *b; }` for ANY loop body that performs that
assignment: the model's `setBytes` when the positions exist -/
theorem patch_run {ρ : Type} (idx : Nat) (body : (Int × Int) → Bytes → Ctl ρ (Step Bytes))
    (hbody : ∀ (k : Nat) (b : UInt8) (buf : Bytes), idx + k < buf.length → buf.length < 18446744073709551616 →
      body ((k : Int), ((b.toNat : Nat) : Int)) buf = Ctl.val (.next (buf.set (idx + k) b))) :
    ∀ (bs : Bytes) (k : Nat) (buf : Bytes), idx + k + bs.length ≤ buf.length → buf.length < 18446744073709551616 →
    Rs.forIn (Rs.enumerateFrom k (Rs.iterBytes bs)) buf body = Ctl.val (setBytes buf (idx + k) bs) := by
  intro bs
  induction bs with
  | nil => intro k buf _ _; simp [Rs.iterBytes, Rs.enumerateFrom, Rs.forIn, setBytes]
  | cons b bs ih =>
    intro k buf h hl
    simp only [List.length_cons] at h
    have hstep := hbody k b buf (by omega) hl
    simp only [Rs.iterBytes, List.map_cons, Rs.enumerateFrom] at ih ⊢
    rw [Rs.forIn_next _ _ _ _ _ hstep, ih (k + 1) _ (by simp; omega) (by simpa using hl), setBytes]
    congr 1

theorem ba_loop2_step (idx k : Nat) (b : UInt8) (buf : Bytes) (h : idx + k < buf.length) (hl : buf.length < 18446744073709551616) :
    Tr.build_array_into.loop2 (idx : Int) ((k : Int), ((b.toNat : Nat) : Int)) buf = Ctl.val (.next (buf.set (idx + k) b)) := by
  unfold Tr.build_array_into.loop2
  dsimp only
  simp only [Rs.add_usize_nat _ _ (show idx + k < 18446744073709551616 by omega), Ctl.ofRes_ok', Ctl.val_bind', setIndex_nat,
    if_pos h, Ctl.pure_eq', Rs.loopStep_val']

/-- one iteration of the item loop of `build_array` -/
theorem ba_loop1_step (value data buf : Bytes) (len : Nat) (hlen : value.length < 9223372036854775808) :
    Tr.build_array_into.loop1 value (data, ((len : Nat) : Int), buf) =
      match Fn.partOf value with
      | .ok (w, d) =>
        if len + 1 < 4294967296 then Ctl.val (.next (data ++ d, ((len + 1 : Nat) : Int), buf ++ w))
        else Ctl.ret (.panic "attempt to add with overflow")
      | .err e => Ctl.ret (.err e)
      | .panic s => Ctl.ret (.panic s)
      | .fuel => Ctl.ret .fuel := by
  unfold Tr.build_array_into.loop1 Fn.partOf
  dsimp only
  rw [read_u32_zero]
  cases hr : readU32At value 0 with
  | none => simp only [Ctl.ofRes_err', Ctl.ret_bind', Rs.loopStep_err']
  | some h =>
    have h4 : ((4 : Nat) : Int) = 4 := rfl
    have h8 : ((8 : Nat) : Int) = 8 := rfl
    have h1 : ((1 : Nat) : Int) = 1 := rfl
    have hadd : Rs.add .u32 ((len : Nat) : Int) ((1 : Nat) : Int) =
        if len + 1 < 4294967296 then .ok (((len + 1 : Nat)) : Int) else .panic "attempt to add with overflow" := by
      unfold Rs.add Rs.checked
      by_cases hc : len + 1 < 4294967296
      · rw [if_pos hc, if_pos (by rw [Rs.inRange_iff]; simp [IntTy.minVal, IntTy.maxVal, IntTy.signed, IntTy.bits]; omega)]
        simp
      · rw [if_neg hc, if_neg (by rw [Rs.inRange_iff]; simp [IntTy.minVal, IntTy.maxVal, IntTy.signed, IntTy.bits]; omega)]
    simp only [Ctl.ofRes_ok', Ctl.val_bind', hdrType_eq, ← h4, ← h8, ← h1, hadd, Rs.len, container_word_bytes]
    simp only [Bool.or_eq_true, decide_eq_true_eq]
    by_cases hS : hdrType h = C.SCALAR_CONTAINER_TAG
    · simp only [if_pos hS, slice_model]
      by_cases h8l : 8 ≤ value.length
      · have hs : Jsonb.slice value 4 8 = .ok ((value.drop 4).take 4) := by
          unfold Jsonb.slice; rw [if_pos ⟨by omega, h8l⟩]
        have hsl : ((value.drop 4).take 4).length = 4 := by simp; omega
        simp only [hs, sliceFrom_nat value 8 h8l, (sliceFrom_eight value h8l).2, Ctl.ofRes_ok', Ctl.val_bind',
          Rs.tryIntoArray_of_length 4 _ hsl, Rs.unwrap, Rs.extendFromSlice, Ctl.pure_eq']
        by_cases hc : len + 1 < 4294967296
        · simp only [if_pos hc, Ctl.ofRes_ok', Ctl.val_bind', Rs.loopStep_val']
        · simp only [if_neg hc, Ctl.ofRes_panic', Ctl.ret_bind', Rs.loopStep_panic']
      · have hs : Jsonb.slice value 4 8 = .panic "slice index out of range" := by
          unfold Jsonb.slice; rw [if_neg (fun c => h8l c.2)]
        simp only [hs, Ctl.ofRes_panic', Ctl.ret_bind', Rs.loopStep_panic']
    · simp only [if_neg hS]
      by_cases hC : hdrType h = C.ARRAY_CONTAINER_TAG ∨ hdrType h = C.OBJECT_CONTAINER_TAG
      · simp only [if_pos hC, Rs.extendFromSlice, Ctl.pure_eq', Ctl.val_bind']
        by_cases hc : len + 1 < 4294967296
        · simp only [if_pos hc, Ctl.ofRes_ok', Ctl.val_bind', Rs.loopStep_val']
        · simp only [if_neg hc, Ctl.ofRes_panic', Ctl.ret_bind', Rs.loopStep_panic']
      · simp only [if_neg hC, Ctl.ret_bind', Rs.loopStep_err']

/-- the words of the model's `partsOf`: four bytes per item -/
theorem partOf_word_length (value w d : Bytes) (h : Fn.partOf value = .ok (w, d)) : w.length = 4 := by
  unfold Fn.partOf at h
  cases hr : readU32At value 0 with
  | none => rw [hr] at h; cases h
  | some hd =>
    rw [hr] at h
    dsimp only at h
    by_cases hS : hdrType hd = C.SCALAR_CONTAINER_TAG
    · rw [if_pos hS] at h
      by_cases h8l : 8 ≤ value.length
      · have hs : Jsonb.slice value 4 8 = .ok ((value.drop 4).take 4) := by
          unfold Jsonb.slice; rw [if_pos ⟨by omega, h8l⟩]
        rw [hs, (sliceFrom_eight value h8l).2] at h
        simp only [Res.ok.injEq, Prod.mk.injEq] at h
        rw [← h.1]; simp; omega
      · have hs : Jsonb.slice value 4 8 = .panic "slice index out of range" := by
          unfold Jsonb.slice; rw [if_neg (fun c => h8l c.2)]
        rw [hs] at h
        cases hsf : Jsonb.sliceFrom value 8 <;> rw [hsf] at h <;> cases h
    · rw [if_neg hS] at h
      split at h
      · simp only [Res.ok.injEq, Prod.mk.injEq] at h
        rw [← h.1]; simp [u32be_length]
      · cases h

/-- the item loop is the model's `partsOf` -/
theorem ba_loop1_run : ∀ (items : List Bytes) (data buf : Bytes) (len : Nat),
    (∀ v ∈ items, v.length < 9223372036854775808) → len + items.length < 4294967296 →
    (Rs.forIn items (data, ((len : Nat) : Int), buf) Tr.build_array_into.loop1 : Ctl Bytes (Bytes × Int × Bytes)) =
      match Fn.partsOf items with
      | .ok (ws, ds) => Ctl.val (data ++ ds, ((len + items.length : Nat) : Int), buf ++ ws)
      | .err e => Ctl.ret (.err e)
      | .panic s => Ctl.ret (.panic s)
      | .fuel => Ctl.ret .fuel
  | [], data, buf, len, _, _ => by simp [Rs.forIn_nil, Fn.partsOf]
  | v :: vs, data, buf, len, hb, hl => by
    simp only [List.length_cons] at hl
    have hstep := ba_loop1_step v data buf len (hb v List.mem_cons_self)
    rw [Fn.partsOf]
    cases hp : Fn.partOf v with
    | ok wd =>
      obtain ⟨w, d⟩ := wd
      rw [hp] at hstep
      dsimp only at hstep ⊢
      rw [if_pos (by omega)] at hstep
      rw [Rs.forIn_next _ _ _ _ _ hstep, ba_loop1_run vs (data ++ d) (buf ++ w) (len + 1)
        (fun x hx => hb x (List.mem_cons_of_mem _ hx)) (by omega)]
      cases Fn.partsOf vs with
      | ok q =>
        obtain ⟨ws, ds⟩ := q
        simp only [Res.map, Res.bind, List.append_assoc, List.length_cons]
        congr 3
        omega
      | err e => rfl
      | panic s => rfl
      | fuel => rfl
    | err e => rw [hp] at hstep; exact Rs.forIn_ret _ _ _ _ _ hstep
    | panic s => rw [hp] at hstep; exact Rs.forIn_ret _ _ _ _ _ hstep
    | fuel => rw [hp] at hstep; exact Rs.forIn_ret _ _ _ _ _ hstep

theorem partsOf_words_length : ∀ (items : List Bytes) (ws ds : Bytes), Fn.partsOf items = .ok (ws, ds) → ws.length = 4 * items.length
  | [], ws, ds, h => by
    simp only [Fn.partsOf, Res.ok.injEq, Prod.mk.injEq] at h
    rw [← h.1]; rfl
  | v :: vs, ws, ds, h => by
    rw [Fn.partsOf] at h
    cases hp : Fn.partOf v with
    | ok wd =>
      obtain ⟨w, d⟩ := wd
      rw [hp] at h
      dsimp only at h
      cases hr : Fn.partsOf vs with
      | ok q =>
        obtain ⟨ws', ds'⟩ := q
        rw [hr] at h
        simp only [Res.map, Res.bind, Res.ok.injEq, Prod.mk.injEq] at h
        have h1 := partOf_word_length v w d hp
        have h2 := partsOf_words_length vs ws' ds' hr
        rw [← h.1]
        simp only [List.length_append, List.length_cons]
        omega
      | err e => rw [hr] at h; cases h
      | panic s => rw [hr] at h; cases h
      | fuel => rw [hr] at h; cases h
    | err e => rw [hp] at h; cases h
    | panic s => rw [hp] at h; cases h
    | fuel => rw [hp] at h; cases h

/-- the body of `build_array` (the private `build_array_into`, for a list of byte slices) is the model's `buildArray` -/
theorem build_array_into_agrees (items : List Bytes) (buf : Bytes)
    (hn : items.length < 4294967296) (hb : buf.length < 4611686018427387904)
    (hi : ∀ v ∈ items, v.length < 9223372036854775808) :
    Tr.build_array_into items buf = Fn.buildArray items buf := by
  unfold Tr.build_array_into Fn.buildArray
  have h4 : ((4 : Nat) : Int) = 4 := rfl
  have h0 : ((0 : Nat) : Int) = 0 := rfl
  simp only [Rs.len, ← h4, Rs.add_usize_nat buf.length 4 (by omega), Ctl.ofRes_ok', Ctl.val_bind',
    resize_zeros buf 4 _ rfl]
  rw [← h0, ba_loop1_run items [] (buf ++ zeros 4) 0 hi (by omega)]
  cases hp : Fn.partsOf items with
  | err e => simp only [Ctl.ret_bind', Ctl.run_ret']
  | panic s => simp only [Ctl.ret_bind', Ctl.run_ret']
  | fuel => simp only [Ctl.ret_bind', Ctl.run_ret']
  | ok q =>
    obtain ⟨ws, ds⟩ := q
    have hA : C.ARRAY_CONTAINER_TAG < 4294967296 := by decide
    have hw := or_lt_u32 C.ARRAY_CONTAINER_TAG items.length hA hn
    have hmod : items.length % 4294967296 = items.length := Nat.mod_eq_of_lt hn
    simp only [Ctl.val_bind', Nat.zero_add, Rs.bitor_natCast, Nat.or_comm items.length C.ARRAY_CONTAINER_TAG, Rs.toBeBytes_u32_nat _ hw, Rs.enumerate, List.nil_append, hmod]
    have hwl := partsOf_words_length items ws ds hp
    have hrun := patch_run (ρ := Bytes) buf.length (Tr.build_array_into.loop2 (buf.length : Int))
      (fun k b bf h hl => ba_loop2_step buf.length k b bf h hl) (beN 4 (C.ARRAY_CONTAINER_TAG ||| items.length)) 0
      (buf ++ zeros 4 ++ ws) (by simp [zeros, beN]) (by simp [zeros]; omega)
    rw [hrun]
    have hmid := setBytes_mid buf (zeros 4) ws (beN 4 (C.ARRAY_CONTAINER_TAG ||| items.length)) (by simp [zeros, beN])
    simp only [Nat.add_zero, List.append_assoc] at hmid ⊢
    rw [hmid]
    simp only [Ctl.val_bind', Rs.extendFromSlice, Ctl.run_ret', u32be, List.append_assoc]

/-- the public `build_array` — `let start = buf.len(); let res = build_array_into(items, buf); if res.is_err() {
buf.truncate(start); } res` — is translated as the outcome of `build_array_into` (the buffer is carried by `.ok` only) -/
theorem build_array_eq_into (items : List Bytes) (buf : Bytes) :
    Tr.build_array items buf = Tr.build_array_into items buf := rfl

/-- **`build_array`** (for a list of byte slices) is the model's `buildArray` -/
theorem build_array_agrees (items : List Bytes) (buf : Bytes)
    (hn : items.length < 4294967296) (hb : buf.length < 4611686018427387904)
    (hi : ∀ v ∈ items, v.length < 9223372036854775808) :
    Tr.build_array items buf = Fn.buildArray items buf := by
  rw [build_array_eq_into]
  exact build_array_into_agrees items buf hn hb hi

end Jsonb.TrAgree
