/-
Strict ⊆ relaxed, part 3: strings.

`StrTok d s k`: the raw bytes `d` between the quotes consist of RFC 8259 string tokens (plain
bytes, the eight two-character escapes, `\uXXXX` for a non-surrogate, an escaped surrogate
pair), decode to `s`, and contain `k` escapes as the crate's first pass counts them.
`strBody_tok` shows that whatever the strict reader accepts has this shape; `parseJsonString_tok`
shows that the crate's two passes (`parse_json_string`, `parse_string` + `parse_escaped_string`)
decode such bytes to the same `s`.
-/
import JsonbModel.Proofs.StrictSubset1

namespace Jsonb
namespace SS
open Jsonb.JP

/-! ### Hex digits -/

theorem encodeUtf8_eq (c : Nat) : Strict.encodeUtf8 c = Jsonb.encodeUtf8 c := rfl

set_option maxRecDepth 100000 in
theorem decodeHexVal_fin : ∀ k : Fin 256,
    decodeHexVal (UInt8.ofNat k.val) = .ok (Strict.hexVal (UInt8.ofNat k.val)) := by decide

/-- the crate's `HEX` table is the RFC hex-digit value -/
theorem decodeHexVal_eq (v : UInt8) : decodeHexVal v = .ok (Strict.hexVal v) := by
  have := decodeHexVal_fin ⟨v.toNat, v.toNat_lt⟩
  simpa using this

theorem hexVal_lt {v : UInt8} {n : Nat} (h : Strict.hexVal v = some n) : n < 16 := by
  rcases decodeHexVal_spec v with h' | ⟨m, h', hm⟩
  · rw [decodeHexVal_eq, h] at h'; simp at h'
  · rw [decodeHexVal_eq, h] at h'
    simp only [Res.ok.injEq, Option.some.injEq] at h'
    omega

theorem hexVal_ne_brace {v : UInt8} {n : Nat} (h : Strict.hexVal v = some n) : v ≠ 0x7B := by
  intro he; subst he
  have : Strict.hexVal 0x7B = none := by decide
  rw [this] at h; simp at h

/-- four hex digits denoting `u` -/
def Hex4 (a b c e : UInt8) (u : Nat) : Prop :=
  ∃ w x y z, Strict.hexVal a = some w ∧ Strict.hexVal b = some x ∧ Strict.hexVal c = some y ∧
    Strict.hexVal e = some z ∧ u = ((w * 16 + x) * 16 + y) * 16 + z

theorem hex4_some {bs : Bytes} {u : Nat} {rest : Bytes} (h : Strict.hex4 bs = some (u, rest)) :
    ∃ a b c e, bs = a :: b :: c :: e :: rest ∧ Hex4 a b c e u := by
  unfold Strict.hex4 at h
  split at h
  · rename_i a b c e rest'
    split at h
    · rename_i w x y z h1 h2 h3 h4
      simp only [Option.some.injEq, Prod.mk.injEq] at h
      obtain ⟨rfl, rfl⟩ := h
      exact ⟨a, b, c, e, rfl, w, x, y, z, h1, h2, h3, h4, rfl⟩
    · exact absurd h (by simp)
  · exact absurd h (by simp)

theorem Hex4_lt {a b c e : UInt8} {u : Nat} (h : Hex4 a b c e u) : u < 65536 := by
  obtain ⟨w, x, y, z, h1, h2, h3, h4, rfl⟩ := h
  have := hexVal_lt h1; have := hexVal_lt h2; have := hexVal_lt h3; have := hexVal_lt h4
  omega

theorem decodeHexEscape_Hex4 {a b c e : UInt8} {u : Nat} (h : Hex4 a b c e u) :
    decodeHexEscape [a, b, c, e] 0 = .ok u := by
  obtain ⟨w, x, y, z, h1, h2, h3, h4, rfl⟩ := h
  have := hexVal_lt h1; have := hexVal_lt h2; have := hexVal_lt h3; have := hexVal_lt h4
  simp only [decodeHexEscape, decodeHexVal_eq, bind_ok, h1, h2, h3, h4]
  have e1 : 0 * 16 % 65536 + w = w := by omega
  have e2 : w * 16 % 65536 + x = w * 16 + x := by omega
  have e3 : (w * 16 + x) * 16 % 65536 + y = (w * 16 + x) * 16 + y := by omega
  have e4 : ((w * 16 + x) * 16 + y) * 16 % 65536 + z = ((w * 16 + x) * 16 + y) * 16 + z := by omega
  simp only [e1, e2, e3, e4]
  rw [if_neg (by omega), if_neg (by omega), if_neg (by omega), if_neg (by omega)]

theorem readHex4_Hex4 (site : String) {a b c e : UInt8} {u : Nat} (h : Hex4 a b c e u) (d : Bytes) :
    readHex4 site (a :: b :: c :: e :: d) = .ok ([a, b, c, e], d) := by
  obtain ⟨w, x, y, z, h1, -⟩ := h
  exact readHex4_plain site a b c e d (hexVal_ne_brace h1)

/-! ### Escapes, crate side -/

/-- the eight two-character escapes of RFC 8259 -/
def simpleEsc (e : UInt8) : Option UInt8 :=
  if e == 0x22 then some 0x22
  else if e == 0x5C then some 0x5C
  else if e == 0x2F then some 0x2F
  else if e == 0x62 then some 0x08
  else if e == 0x66 then some 0x0C
  else if e == 0x6E then some 0x0A
  else if e == 0x72 then some 0x0D
  else if e == 0x74 then some 0x09
  else none

theorem simpleEsc_cases {e c : UInt8} (h : simpleEsc e = some c) :
    (e = 0x22 ∧ c = 0x22) ∨ (e = 0x5C ∧ c = 0x5C) ∨ (e = 0x2F ∧ c = 0x2F) ∨ (e = 0x62 ∧ c = 0x08) ∨
    (e = 0x66 ∧ c = 0x0C) ∨ (e = 0x6E ∧ c = 0x0A) ∨ (e = 0x72 ∧ c = 0x0D) ∨ (e = 0x74 ∧ c = 0x09) := by
  unfold simpleEsc at h
  repeat' split at h
  all_goals (cases h)
  all_goals (rename_i he; simp only [beq_iff_eq] at he; subst he; simp)

theorem simpleEsc_ne_u {e c : UInt8} (h : simpleEsc e = some c) : e ≠ 0x75 := by
  intro he; subst he; simp [simpleEsc] at h

theorem parseEscaped_simple {e c : UInt8} (h : simpleEsc e = some c) (d : Bytes) :
    parseEscaped (e :: d) = .ok (d, [c]) := by
  rcases simpleEsc_cases h with h | h | h | h | h | h | h | h <;>
    (obtain ⟨rfl, rfl⟩ := h; simp [parseEscaped, data0, dataFrom]; rfl)

theorem parseEscaped_u (rest : Bytes) :
    parseEscaped (0x75 :: rest) = (do
      let (numbers, data) ← readHex4 "parse_escaped_string(u):" rest
      afterHex numbers data) := by
  simp only [parseEscaped, data0, dataFrom, bind_ok, List.length_cons, List.drop_succ_cons,
    List.drop_zero]
  rw [if_pos (by omega)]
  simp only [bind_ok, u_beq_1, u_beq_2, u_beq_3, u_beq_4, u_beq_5, u_beq_6, u_beq_7, u_beq_8,
      beq_self_eq_true, Bool.false_eq_true, if_false, if_true]

/-- `\uXXXX` for a code point that is not a surrogate -/
theorem parseEscaped_uni {a b c e : UInt8} {u : Nat} (h : Hex4 a b c e u)
    (hu : u < 0xD800 ∨ 0xDFFF < u) (d : Bytes) :
    parseEscaped (0x75 :: a :: b :: c :: e :: d) = .ok (d, Jsonb.encodeUtf8 u) := by
  have hlt := Hex4_lt h
  rw [parseEscaped_u, readHex4_Hex4 _ h]
  simp only [bind_ok, afterHex, decodeHexEscape_Hex4 h]
  rw [if_neg (by omega), if_neg (by omega), charFromU32_ok _ _ (by omega)]
  rfl

theorem pairCombine_val {u l : Nat} (h1 : 0xD800 ≤ u ∧ u ≤ 0xDBFF) (h2 : 0xDC00 ≤ l ∧ l ≤ 0xDFFF) :
    pairCombine u l = .ok (0x10000 + (u - 0xD800) * 1024 + (l - 0xDC00)) := by
  have s1 : subUsize "parse_escaped_string: n1 - 0xD800" u 0xD800 = .ok (u - 0xD800) := by
    unfold subUsize; rw [if_neg (by omega)]
  have s2 : subUsize "parse_escaped_string: n2 - 0xDC00" l 0xDC00 = .ok (l - 0xDC00) := by
    unfold subUsize; rw [if_neg (by omega)]
  have hb : l - 0xDC00 < 2 ^ 10 := by omega
  have e0 : (u - 0xD800) <<< 10 = (u - 0xD800) * 1024 := by rw [Nat.shiftLeft_eq]
  have e1 : (u - 0xD800) <<< 10 % 4294967296 = (u - 0xD800) <<< 10 := by
    rw [e0]; exact Nat.mod_eq_of_lt (by omega)
  have e2 := Nat.shiftLeft_add_eq_or_of_lt hb (u - 0xD800)
  unfold pairCombine
  rw [s1, bind_ok, s2, bind_ok, e1, ← e2, e0]
  show (if (u - 0xD800) * 1024 + (l - 0xDC00) + 0x10000 ≥ 4294967296 then _ else _) = _
  rw [if_neg (by omega), charFromU32_ok _ _ (by right; omega)]
  rw [show (u - 0xD800) * 1024 + (l - 0xDC00) + 0x10000 = 0x10000 + (u - 0xD800) * 1024 + (l - 0xDC00) by omega]

/-- an escaped surrogate pair -/
theorem parseEscaped_pair {a b c e a' b' c' e' : UInt8} {u l : Nat} (h : Hex4 a b c e u)
    (hu : 0xD800 ≤ u ∧ u ≤ 0xDBFF) (h' : Hex4 a' b' c' e' l) (hl : 0xDC00 ≤ l ∧ l ≤ 0xDFFF)
    (d : Bytes) :
    parseEscaped (0x75 :: a :: b :: c :: e :: 0x5C :: 0x75 :: a' :: b' :: c' :: e' :: d) =
      .ok (d, Jsonb.encodeUtf8 (0x10000 + (u - 0xD800) * 1024 + (l - 0xDC00))) := by
  rw [parseEscaped_u, readHex4_Hex4 _ h]
  simp only [bind_ok, afterHex, decodeHexEscape_Hex4 h]
  rw [if_neg (by omega), if_pos (by omega)]
  simp only [List.length_cons, data0, bind_ok, beq_self_eq_true, if_true, bufIndex,
    List.getElem?_cons_succ, List.getElem?_cons_zero, pure_eq, Bool.not_true, Bool.false_eq_true,
    if_false, dataFrom, List.drop_succ_cons, List.drop_zero]
  rw [if_neg (by omega), if_pos (by omega)]
  simp only [bind_ok, pairLow, readHex4_Hex4 _ h', decodeHexEscape_Hex4 h']
  have : (!decide (0xDC00 ≤ l ∧ l ≤ 0xDFFF)) = false := by simp [hl]
  simp only [this, Bool.false_eq_true, if_false, pairCombine_val hu hl, bind_ok, pure_eq]

/-! ### String tokens -/

/-- `StrTok d s k`: raw bytes `d` (between the quotes), decoded bytes `s`, `k` escapes -/
inductive StrTok : Bytes → Bytes → Nat → Prop where
  | nil : StrTok [] [] 0
  | plain (b : UInt8) (d s : Bytes) (k : Nat) : b ≠ 0x22 → b ≠ 0x5C → StrTok d s k →
      StrTok (b :: d) (b :: s) k
  | simple (e c : UInt8) (d s : Bytes) (k : Nat) : simpleEsc e = some c → StrTok d s k →
      StrTok (0x5C :: e :: d) (c :: s) (k + 1)
  | uni (a b c e : UInt8) (u : Nat) (d s : Bytes) (k : Nat) : Hex4 a b c e u →
      u < 0xD800 ∨ 0xDFFF < u → StrTok d s k →
      StrTok (0x5C :: 0x75 :: a :: b :: c :: e :: d) (Jsonb.encodeUtf8 u ++ s) (k + 1)
  | pair (a b c e a' b' c' e' : UInt8) (u l : Nat) (d s : Bytes) (k : Nat) : Hex4 a b c e u →
      0xD800 ≤ u ∧ u ≤ 0xDBFF → Hex4 a' b' c' e' l → 0xDC00 ≤ l ∧ l ≤ 0xDFFF → StrTok d s k →
      StrTok (0x5C :: 0x75 :: a :: b :: c :: e :: 0x5C :: 0x75 :: a' :: b' :: c' :: e' :: d)
        (Jsonb.encodeUtf8 (0x10000 + (u - 0xD800) * 1024 + (l - 0xDC00)) ++ s) (k + 2)

theorem StrTok.esc_le {d s : Bytes} {k : Nat} (h : StrTok d s k) : 2 * k ≤ d.length := by
  induction h with
  | nil => simp
  | plain _ _ _ _ _ _ _ ih => simp only [List.length_cons]; omega
  | simple _ _ _ _ _ _ _ ih => simp only [List.length_cons]; omega
  | uni _ _ _ _ _ _ _ _ _ _ _ ih => simp only [List.length_cons]; omega
  | pair _ _ _ _ _ _ _ _ _ _ _ _ _ _ _ _ _ _ ih => simp only [List.length_cons]; omega

/-- without escapes the decoded bytes are the raw bytes (the crate's fast path) -/
theorem StrTok.no_esc {d s : Bytes} {k : Nat} (h : StrTok d s k) (hk : k = 0) : d = s := by
  induction h with
  | nil => rfl
  | plain _ _ _ _ _ _ _ ih => rw [ih hk]
  | simple _ _ _ _ _ _ _ _ => omega
  | uni _ _ _ _ _ _ _ _ _ _ _ _ => omega
  | pair _ _ _ _ _ _ _ _ _ _ _ _ _ _ _ _ _ _ _ => omega

/-- first pass (`parse_json_string`'s scanning loop) -/
theorem scanString_tok {buf : Bytes} {d s : Bytes} {k : Nat} (h : StrTok d s k) (r : Bytes) :
    ∀ (i e : Nat), buf.drop i = d ++ 0x22 :: r →
      scanString buf i e = .ok (i + d.length + 1, e + k) := by
  induction h with
  | nil => intro i e hd; simpa using scanString_quote (e := e) (by simpa using hd)
  | plain b d s k h1 h2 _ ih =>
    intro i e hd
    have hd' : buf.drop i = b :: (d ++ 0x22 :: r) := by simpa using hd
    rw [scanString_plain hd' h2 h1, ih (i + 1) e (drop_succ_of_drop hd')]
    simp only [List.length_cons]; congr 2; omega
  | simple x c d s k h1 _ ih =>
    intro i e hd
    have hd' : buf.drop i = 0x5C :: x :: (d ++ 0x22 :: r) := by simpa using hd
    rw [scanString_esc2 hd' (simpleEsc_ne_u h1),
      ih (i + 2) (e + 1) (drop_succ_of_drop (drop_succ_of_drop hd'))]
    simp only [List.length_cons]; congr 2 <;> omega
  | uni a b c x u d s k h1 _ _ ih =>
    intro i e hd
    have hd' : buf.drop i = 0x5C :: 0x75 :: a :: ([b, c, x] ++ (d ++ 0x22 :: r)) := by simpa using hd
    have h6 : buf.drop (i + 6) = d ++ 0x22 :: r := by
      have := drop_add_of_drop (a := [0x5C, 0x75, a, b, c, x]) (b := d ++ 0x22 :: r) (by simpa using hd)
      simpa using this
    have hne : a ≠ 0x7B := by obtain ⟨w, _, _, _, hw, -⟩ := h1; exact hexVal_ne_brace hw
    rw [scanString_escU hd' hne, ih (i + 6) (e + 1) h6]
    simp only [List.length_cons]; congr 2 <;> omega
  | pair a b c x a' b' c' x' u l d s k h1 _ h2 _ _ ih =>
    intro i e hd
    have hd' : buf.drop i = 0x5C :: 0x75 :: a :: ([b, c, x, 0x5C, 0x75, a', b', c', x'] ++ (d ++ 0x22 :: r)) := by
      simpa using hd
    have h6 : buf.drop (i + 6) = 0x5C :: 0x75 :: a' :: ([b', c', x'] ++ (d ++ 0x22 :: r)) := by
      have := drop_add_of_drop (a := [0x5C, 0x75, a, b, c, x])
        (b := 0x5C :: 0x75 :: a' :: ([b', c', x'] ++ (d ++ 0x22 :: r))) (by simpa using hd)
      simpa using this
    have h12 : buf.drop (i + 6 + 6) = d ++ 0x22 :: r := by
      have := drop_add_of_drop (a := [0x5C, 0x75, a', b', c', x']) (b := d ++ 0x22 :: r) (by simpa using h6)
      simpa using this
    have hne : a ≠ 0x7B := by obtain ⟨w, _, _, _, hw, -⟩ := h1; exact hexVal_ne_brace hw
    have hne' : a' ≠ 0x7B := by obtain ⟨w, _, _, _, hw, -⟩ := h2; exact hexVal_ne_brace hw
    rw [scanString_escU hd' hne, scanString_escU h6 hne', ih (i + 6 + 6) (e + 1 + 1) h12]
    simp only [List.length_cons]; congr 2 <;> omega

/-- second pass (`parse_string` + `parse_escaped_string`) -/
theorem parseStringLoop_tok {d s : Bytes} {k : Nat} (h : StrTok d s k) :
    ∀ (fuel : Nat) (acc : Bytes), d.length < fuel → parseStringLoop fuel d acc = .ok (acc ++ s) := by
  induction h with
  | nil =>
    intro fuel acc hf
    obtain ⟨f, rfl⟩ : ∃ f, fuel = f + 1 := ⟨fuel - 1, by omega⟩
    simp [parseStringLoop]
  | plain b d s k h1 h2 _ ih =>
    intro fuel acc hf
    obtain ⟨f, rfl⟩ : ∃ f, fuel = f + 1 := ⟨fuel - 1, by omega⟩
    simp only [List.length_cons] at hf
    have hb : (b == 0x5C) = false := by simpa using h2
    simp only [parseStringLoop, List.isEmpty_cons, Bool.false_eq_true, if_false, data0, bind_ok,
      hb, dataFrom, List.length_cons, List.drop_succ_cons, List.drop_zero]
    rw [if_pos (by omega)]
    simp only [bind_ok]
    rw [ih f (acc ++ [b]) (by omega)]
    simp
  | simple x c d s k h1 _ ih =>
    intro fuel acc hf
    obtain ⟨f, rfl⟩ : ∃ f, fuel = f + 1 := ⟨fuel - 1, by omega⟩
    simp only [List.length_cons] at hf
    simp only [parseStringLoop, List.isEmpty_cons, Bool.false_eq_true, if_false, data0, bind_ok,
      beq_self_eq_true, if_true, dataFrom, List.length_cons, List.drop_succ_cons, List.drop_zero]
    rw [if_pos (by omega)]
    simp only [bind_ok, parseEscaped_simple h1]
    rw [ih f (acc ++ [c]) (by omega)]
    simp
  | uni a b c x u d s k h1 h2 _ ih =>
    intro fuel acc hf
    obtain ⟨f, rfl⟩ : ∃ f, fuel = f + 1 := ⟨fuel - 1, by omega⟩
    simp only [List.length_cons] at hf
    simp only [parseStringLoop, List.isEmpty_cons, Bool.false_eq_true, if_false, data0, bind_ok,
      beq_self_eq_true, if_true, dataFrom, List.length_cons, List.drop_succ_cons, List.drop_zero]
    rw [if_pos (by omega)]
    simp only [bind_ok, parseEscaped_uni h1 h2]
    rw [ih f _ (by omega)]
    simp
  | pair a b c x a' b' c' x' u l d s k h1 hu h2 hl _ ih =>
    intro fuel acc hf
    obtain ⟨f, rfl⟩ : ∃ f, fuel = f + 1 := ⟨fuel - 1, by omega⟩
    simp only [List.length_cons] at hf
    simp only [parseStringLoop, List.isEmpty_cons, Bool.false_eq_true, if_false, data0, bind_ok,
      beq_self_eq_true, if_true, dataFrom, List.length_cons, List.drop_succ_cons, List.drop_zero]
    rw [if_pos (by omega)]
    simp only [bind_ok, parseEscaped_pair h1 hu h2 hl]
    rw [ih f _ (by omega)]
    simp

/-- **strings, crate side**: a quoted string whose body consists of RFC tokens and decodes to
valid UTF-8 `s` is read as `s`, and the cursor ends just past the closing quote -/
theorem parseJsonString_tok {buf : Bytes} {i : Nat} {d s r : Bytes} {k : Nat}
    (h : buf.drop i = 0x22 :: (d ++ 0x22 :: r)) (ht : StrTok d s k) (hu : validUtf8 s = true) :
    parseJsonString buf i = .ok (.str s, i + 1 + d.length + 1) ∧
      buf.drop (i + 1 + d.length + 1) = r := by
  have h1 := drop_succ_of_drop h
  have hlt := lt_of_drop_eq h1
  have hr : buf.drop (i + 1 + d.length + 1) = r := by
    have := drop_add_of_drop h1
    exact drop_succ_of_drop this
  refine ⟨?_, hr⟩
  have hle := ht.esc_le
  have hdata : (buf.take (i + 1 + d.length)).drop (i + 1) = d := take_drop_of_drop_eq h1
  have s1 : subUsize "parse_json_string: self.idx - 1" (i + 1 + d.length + 1) 1 = .ok (i + 1 + d.length) := by
    unfold subUsize; rw [if_neg (by omega)]; rfl
  have s2 : slice "parse_json_string: buf[start_idx..idx-1]" buf (i + 1) (i + 1 + d.length) = .ok d := by
    unfold slice; rw [if_neg (by omega), if_neg (by omega), hdata]
  have s3 : subUsize "parse_json_string: idx - 1 - start_idx" (i + 1 + d.length) (i + 1) = .ok d.length := by
    unfold subUsize; rw [if_neg (by omega)]; congr 1; omega
  have s4 : subUsize "parse_json_string: idx - 1 - start_idx - escapes" d.length k
      = .ok (d.length - k) := by
    unfold subUsize; rw [if_neg (by omega)]
  unfold parseJsonString
  rw [mustIs_view h]
  simp only [bind_ok, scanString_tok ht r (i + 1) 0 h1, s1, s2, Nat.zero_add]
  by_cases hk : k = 0
  · have := ht.no_esc hk
    subst this
    simp only [hk, Nat.lt_irrefl, gt_iff_lt, if_false, hu, if_true, pure_eq]
  · have hk' : k > 0 := by omega
    simp only [hk', if_true, s3, s4, bind_ok, parseString, parseStringLoop_tok ht (d.length + 1) [] (by omega),
      List.nil_append, hu, pure_eq]

/-- the `\u` arm of the strict string reader -/
def strU (fuel : Nat) (rest : Bytes) : Option (Bytes × Bytes) :=
  match Strict.hex4 rest with
  | none => none
  | some (u, rest) =>
    if 0xD800 ≤ u ∧ u ≤ 0xDBFF then
      match rest with
      | 0x5C :: 0x75 :: rest2 =>
        (match Strict.hex4 rest2 with
         | some (l, rest3) =>
           if 0xDC00 ≤ l ∧ l ≤ 0xDFFF then
             (Strict.strBody fuel rest3).map (fun (s, r) =>
               (Strict.encodeUtf8 (0x10000 + (u - 0xD800) * 1024 + (l - 0xDC00)) ++ s, r))
           else none
         | none => none)
      | _ => none
    else if 0xDC00 ≤ u ∧ u ≤ 0xDFFF then none
    else (Strict.strBody fuel rest).map (fun (s, r) => (Strict.encodeUtf8 u ++ s, r))

/-- the escape arm of the strict string reader -/
def strEsc (fuel : Nat) (bs : Bytes) : Option (Bytes × Bytes) :=
  match bs with
  | [] => none
  | e :: rest =>
    let simple (c : UInt8) := (Strict.strBody fuel rest).map (fun (s, r) => (c :: s, r))
    if e == 0x22 then simple 0x22
    else if e == 0x5C then simple 0x5C
    else if e == 0x2F then simple 0x2F
    else if e == 0x62 then simple 0x08
    else if e == 0x66 then simple 0x0C
    else if e == 0x6E then simple 0x0A
    else if e == 0x72 then simple 0x0D
    else if e == 0x74 then simple 0x09
    else if e == 0x75 then strU fuel rest
    else none

theorem strBody_cons (fuel : Nat) (b : UInt8) (bs : Bytes) :
    Strict.strBody (fuel + 1) (b :: bs) =
      if b == 0x22 then some ([], bs)
      else if b < 0x20 then none
      else if b == 0x5C then strEsc fuel bs
      else (Strict.strBody fuel bs).map (fun (s, r) => (b :: s, r)) := by
  conv => lhs; unfold Strict.strBody
  unfold strEsc strU
  rfl

theorem strEsc_cons (fuel : Nat) (e : UInt8) (rest : Bytes) :
    strEsc fuel (e :: rest) =
      match simpleEsc e with
      | some c => (Strict.strBody fuel rest).map (fun (s, r) => (c :: s, r))
      | none => if e == 0x75 then strU fuel rest else none := by
  simp only [strEsc, simpleEsc]
  repeat' split
  all_goals first | rfl | simp_all

theorem map_some_inv {s r : Bytes} {o : Option (Bytes × Bytes)} {f : Bytes → Bytes}
    (h : o.map (fun (s, r) => (f s, r)) = some (s, r)) :
    ∃ s', o = some (s', r) ∧ s = f s' := by
  cases o with
  | none => simp at h
  | some p =>
    obtain ⟨s', r'⟩ := p
    simp only [Option.map_some, Option.some.injEq, Prod.mk.injEq] at h
    exact ⟨s', by rw [h.2], h.1.symm⟩

/-- **strings, strict side**: whatever the strict reader accepts after the opening quote is a
sequence of RFC string tokens up to the closing quote, and it returns their decoding -/
theorem strBody_tok : ∀ (fuel : Nat) (bs s r : Bytes), Strict.strBody fuel bs = some (s, r) →
    ∃ d k, bs = d ++ 0x22 :: r ∧ StrTok d s k := by
  intro fuel
  induction fuel with
  | zero => intro bs s r h; simp [Strict.strBody] at h
  | succ fuel ih =>
    intro bs s r h
    cases bs with
    | nil => simp [Strict.strBody] at h
    | cons b bs =>
      rw [strBody_cons] at h
      split at h
      · rename_i hq
        simp only [beq_iff_eq] at hq
        simp only [Option.some.injEq, Prod.mk.injEq] at h
        obtain ⟨rfl, rfl⟩ := h
        exact ⟨[], 0, by simp [hq], StrTok.nil⟩
      rename_i hq
      have hq' : b ≠ 0x22 := by simpa using hq
      split at h
      · exact absurd h (by simp)
      split at h
      · rename_i hbs
        simp only [beq_iff_eq] at hbs
        subst hbs
        cases bs with
        | nil => simp [strEsc] at h
        | cons e rest =>
          rw [strEsc_cons] at h
          split at h
          · rename_i c hc
            obtain ⟨s', hs', rfl⟩ := map_some_inv (f := fun s => c :: s) h
            obtain ⟨d, k, hd, ht⟩ := ih rest s' r hs'
            exact ⟨0x5C :: e :: d, k + 1, by simp [hd], StrTok.simple e c d s' k hc ht⟩
          · split at h
            · rename_i hu
              simp only [beq_iff_eq] at hu
              subst hu
              unfold strU at h
              split at h
              · exact absurd h (by simp)
              rename_i u rest1 hh
              obtain ⟨a, b, c, x, rfl, hx⟩ := hex4_some hh
              split at h
              · rename_i hsur
                split at h
                · rename_i rest2
                  split at h
                  · rename_i l rest3 hh2
                    obtain ⟨a', b', c', x', rfl, hx'⟩ := hex4_some hh2
                    split at h
                    · rename_i hlow
                      simp only [encodeUtf8_eq] at h
                      obtain ⟨cp, hcp⟩ : ∃ cp, cp = 0x10000 + (u - 0xD800) * 1024 + (l - 0xDC00) := ⟨_, rfl⟩
                      rw [← hcp] at h
                      obtain ⟨s', hs', rfl⟩ := map_some_inv (f := fun s => Jsonb.encodeUtf8 cp ++ s) h
                      obtain ⟨d, k, hd, ht⟩ := ih rest3 s' r hs'
                      refine ⟨0x5C :: 0x75 :: a :: b :: c :: x :: 0x5C :: 0x75 :: a' :: b' :: c' :: x' :: d,
                        k + 2, ?_, ?_⟩
                      · rw [hd]; rfl
                      · rw [hcp]
                        exact StrTok.pair a b c x a' b' c' x' u l d s' k hx hsur hx' hlow ht
                    · exact absurd h (by simp)
                  · exact absurd h (by simp)
                · exact absurd h (by simp)
              · rename_i hnh
                split at h
                · exact absurd h (by simp)
                · rename_i hnl
                  simp only [encodeUtf8_eq] at h
                  obtain ⟨s', hs', rfl⟩ := map_some_inv (f := fun s => Jsonb.encodeUtf8 u ++ s) h
                  obtain ⟨d, k, hd, ht⟩ := ih rest1 s' r hs'
                  exact ⟨0x5C :: 0x75 :: a :: b :: c :: x :: d, k + 1, by rw [hd]; rfl,
                    StrTok.uni a b c x u d s' k hx (by omega) ht⟩
            · exact absurd h (by simp)
      · rename_i hbs
        have hbs' : b ≠ 0x5C := by simpa using hbs
        obtain ⟨s', hs', rfl⟩ := map_some_inv (f := fun s => b :: s) h
        obtain ⟨d, k, hd, ht⟩ := ih bs s' r hs'
        exact ⟨b :: d, k, by simp [hd], StrTok.plain b d s' k hq' hbs' ht⟩

/-- **strings**: if the strict reader reads a string body `s` (valid UTF-8) after the opening
quote and leaves `r`, the crate's `parse_json_string` at the opening quote returns `s` and leaves
`r` -/
theorem string_sim {buf : Bytes} {i : Nat} {bs s r : Bytes}
    (h : buf.drop i = 0x22 :: bs) (hs : Strict.strBody (bs.length + 1) bs = some (s, r))
    (hu : validUtf8 s = true) :
    ∃ j, parseJsonString buf i = .ok (.str s, j) ∧ buf.drop j = r := by
  obtain ⟨d, k, hd, ht⟩ := strBody_tok _ bs s r hs
  subst hd
  exact ⟨_, parseJsonString_tok h ht hu⟩

end SS
end Jsonb
