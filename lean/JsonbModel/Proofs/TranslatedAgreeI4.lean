/-
Phase 6c, renderer.  I4: one unfolding of `container_to_string`; the group (`container_to_string`, `scalar_to_string`)
against `Fn.containerToString` / `Fn.scalarToString` by strong induction on the model's fuel.
-/
import JsonbModel.Proofs.TranslatedAgreeI3

set_option linter.unusedSimpArgs false
set_option linter.unusedVariables false

namespace Jsonb.TrAgree
open Jsonb.Rs

theorem add_usize_lit (a b : Nat) (h : a + b < 18446744073709551616) :
    Rs.add .usize ((a : Nat) : Int) ((b : Nat) : Int) = .ok (((a + b : Nat)) : Int) := Rs.add_usize_nat a b h

/-- one unfolding of `container_to_string`, for a callee that agrees with `scalarToString` up to the fuel `f` -/
theorem container_to_string_step (fmt : Nat → Bytes) (g f : Nat) (value : Bytes) (offset : Nat) (json : Bytes)
    (pretty : Bool) (indent : Nat)
    (hlen : value.length < 4611686018427387904) (hoff : offset < 9223372036854775808)
    (hind : indent + 2 * f + 2 < 9223372036854775808)
    (hrec : RenderRecOK fmt (f + 1) value (Tr.scalar_to_string fmt g))
    (hru : ruContainer (f + 1) value offset = true) :
    Fn.containerToString fmt (f + 1) value offset pretty indent ≠ .fuel →
    Tr.container_to_string fmt (g + 1) value (offset : Int) json ⟨pretty, (indent : Int)⟩ =
      containerOut offset json (Fn.containerToString fmt (f + 1) value offset pretty indent) := by
  rw [Tr.container_to_string, Fn.containerToString]
  rw [read_u32_agrees value offset (by omega)]
  cases hh : readU32At value offset with
  | none => intro _; simp only [Ctl.ofRes_err', Ctl.ret_bind', Ctl.run_ret', containerOut, Res.map, Res.bind]
  | some h =>
    have hL := hdrLen_lt h
    have ho4 := readU32At_some_len _ _ _ hh
    have h4 : ((4 : Nat) : Int) = 4 := rfl
    have h8 : ((8 : Nat) : Int) = 8 := rfl
    have h0 : ((0 : Nat) : Int) = 0 := rfl
    simp only [ruContainer, hh] at hru
    rw [← h4, ← h8, ← h0]
    simp only [Ctl.ofRes_ok', Ctl.val_bind', hdrType_eq, hdrLen_cast]
    simp only [decide_eq_true_eq]
    by_cases h1 : hdrType h = C.SCALAR_CONTAINER_TAG
    · intro hne
      simp only [if_pos h1] at hru hne ⊢
      have hne' : Fn.scalarToString fmt f value (4 + offset) (8 + offset) pretty indent ≠ .fuel := by
        intro c; rw [c] at hne; exact hne rfl
      have hcall := hrec f (by omega) (4 + offset) (8 + offset) json pretty indent (by omega) (by omega) (by omega) hru hne'
      simp only [add_usize_lit 4 offset (by omega), add_usize_lit 8 offset (by omega), Ctl.ofRes_ok', Ctl.val_bind', hcall]
      cases hm : Fn.scalarToString fmt f value (4 + offset) (8 + offset) pretty indent with
      | fuel => exact absurd hm hne'
      | err e => simp only [scalarOut, containerOut, Res.map, Res.bind, Ctl.ofRes_err', Ctl.ret_bind', Ctl.run_ret']
      | panic s => simp only [scalarOut, containerOut, Res.map, Res.bind, Ctl.ofRes_panic', Ctl.ret_bind', Ctl.run_ret']
      | ok r =>
        simp only [scalarOut, containerOut, Res.map, Res.bind, Ctl.ofRes_ok', Ctl.val_bind', Ctl.pure_eq', Ctl.run_ret']
    simp only [if_neg h1] at hru ⊢
    by_cases h2 : hdrType h = C.ARRAY_CONTAINER_TAG
    · intro hne
      simp only [if_pos h2] at hru hne ⊢
      have hinc := pretty_opts_inc_indent_agrees pretty indent (by omega)
      have hmul : Rs.mul .usize ((4 : Nat) : Int) ((hdrLen h : Nat) : Int) = .ok ((4 * hdrLen h : Nat) : Int) :=
        Rs.mul_usize_nat 4 (hdrLen h) (by omega)
      have hmul' : Rs.mul .usize ((hdrLen h : Nat) : Int) ((4 : Nat) : Int) = .ok ((4 * hdrLen h : Nat) : Int) := by
        rw [Rs.mul_usize_nat (hdrLen h) 4 (by omega), Nat.mul_comm]
      have hrun := cts_arr_run fmt (Tr.scalar_to_string fmt g) value (offset : Int) pretty (indent : Int) (indent + 2)
        (hdrLen h) f ((0 : Nat) : Int) 0 (4 + offset) (4 + offset + 4 * hdrLen h)
        (json ++ (if pretty then Fn.lit "[\n" else Fn.lit "[")) rfl (hrec.mono (by omega)) (by omega) (by omega) (by omega) hru
      have hjson : (if pretty = true then Rs.pushStr json (Rs.strLit "[\n") else Rs.pushChar json 91)
          = json ++ (if pretty then Fn.lit "[\n" else Fn.lit "[") := by
        cases pretty <;> simp [pushStr_eq, pushChar_eq, strLit_eq_lit, encodeChar_lb]
      simp only [add_usize_lit 4 offset (by omega), hmul, hmul', add_usize_lit (4 + offset) (4 * hdrLen h) (by omega), hinc,
        Ctl.ofRes_ok', Ctl.val_bind', Rs.forRange_nat, Nat.sub_zero]
      cases hm : Fn.arrayItems fmt f value (hdrLen h) 0 (4 + offset) (4 + offset + 4 * hdrLen h) pretty (indent + 2) with
      | fuel => rw [hm] at hne; exact absurd rfl hne
      | err e =>
        rw [hm] at hrun
        simp only [LoopRes] at hrun
        cases pretty <;>
          simp only [Bool.false_eq_true, if_false, if_true, Ctl.pure_eq', Ctl.val_bind', pushStr_eq, pushChar_eq, strLit_eq_lit,
            encodeChar_lb] at hrun ⊢ <;>
          simp only [hrun, Ctl.ret_bind', Ctl.run_ret', containerOut, Res.map, Res.bind]
      | panic s =>
        rw [hm] at hrun
        simp only [LoopRes] at hrun
        cases pretty <;>
          simp only [Bool.false_eq_true, if_false, if_true, Ctl.pure_eq', Ctl.val_bind', pushStr_eq, pushChar_eq, strLit_eq_lit,
            encodeChar_lb] at hrun ⊢ <;>
          simp only [hrun, Ctl.ret_bind', Ctl.run_ret', containerOut, Res.map, Res.bind]
      | ok body =>
        rw [hm] at hrun
        simp only [LoopRes] at hrun
        obtain ⟨⟨sj, sjo, svo⟩, hs1, hs2⟩ := hrun
        dsimp only at hs2
        subst hs2
        have hgi := generate_indent_agrees pretty indent (by omega)
        cases pretty <;>
          simp only [Bool.false_eq_true, if_false, if_true, Ctl.pure_eq', Ctl.val_bind', pushStr_eq, pushChar_eq, strLit_eq_lit,
            encodeChar_lb] at hs1 ⊢ <;>
          simp only [hs1, Ctl.val_bind', hgi, Ctl.ofRes_ok', pushStr_eq, pushChar_eq, encodeChar_rb, encodeChar_nl,
            Ctl.run_ret', containerOut, Res.map, Res.bind, List.append_assoc, List.nil_append, List.cons_append]
    simp only [if_neg h2] at hru ⊢
    by_cases h3 : hdrType h = C.OBJECT_CONTAINER_TAG
    · intro hne
      simp only [if_pos h3] at hru hne ⊢
      have hinc := pretty_opts_inc_indent_agrees pretty indent (by omega)
      have hmul : Rs.mul .usize ((8 : Nat) : Int) ((hdrLen h : Nat) : Int) = .ok ((8 * hdrLen h : Nat) : Int) :=
        Rs.mul_usize_nat 8 (hdrLen h) (by omega)
      have hmul' : Rs.mul .usize ((hdrLen h : Nat) : Int) ((8 : Nat) : Int) = .ok ((8 * hdrLen h : Nat) : Int) := by
        rw [Rs.mul_usize_nat (hdrLen h) 8 (by omega), Nat.mul_comm]
      have hcap : Rs.vecWithCapacity (Int × Int) 16 ((hdrLen h : Nat) : Int) = .ok [] := by
        unfold Rs.vecWithCapacity
        have : IntTy.isize.maxVal = 9223372036854775807 := rfl
        rw [if_pos (by rw [this]; omega)]
      have hkeys := cts_loop2_run value (offset : Int) (json ++ (if pretty then Fn.lit "{\n" else Fn.lit "{")) (hdrLen h) ((0 : Nat) : Int) []
        (4 + offset) (4 + offset + 8 * hdrLen h) (by omega) (by omega)
      simp only [add_usize_lit 4 offset (by omega), hmul, hmul', add_usize_lit (4 + offset) (8 * hdrLen h) (by omega), hinc, hcap,
        Ctl.ofRes_ok', Ctl.val_bind', Rs.forRange_nat, Nat.sub_zero]
      cases hfk : fillKeys value (hdrLen h) (4 + offset) (4 + offset + 8 * hdrLen h) with
      | none =>
        rw [hfk] at hkeys
        cases pretty <;>
          simp only [Bool.false_eq_true, if_false, if_true, Ctl.pure_eq', Ctl.val_bind', pushStr_eq, pushChar_eq, strLit_eq_lit,
            encodeChar_lc] at hkeys ⊢ <;>
          simp only [hkeys, Ctl.ret_bind', Ctl.run_ret', containerOut, Res.map, Res.bind]
      | some q =>
        obtain ⟨ks, jo', vo'⟩ := q
        rw [hfk] at hkeys hru hne
        obtain ⟨hkl, _, hjo', hvo'⟩ := fillKeys_facts value _ _ _ _ _ _ hfk
        simp only [Bool.and_eq_true] at hru
        dsimp only at hne hkeys ⊢
        have hrun := cts_obj_run fmt (Tr.scalar_to_string fmt g) value (offset : Int) pretty (indent : Int) (indent + 2) hlen
          ks f ((0 : Nat) : Int) 0 (4 + offset + 8 * hdrLen h) jo' vo'
          (json ++ (if pretty then Fn.lit "{\n" else Fn.lit "{")) rfl (hrec.mono (by omega)) (by omega) (by omega) (by omega)
          hru.1 hru.2
        rw [hkl] at hrun
        simp only [List.nil_append] at hkeys
        cases hm : Fn.objectItems fmt f value ks 0 (4 + offset + 8 * hdrLen h) jo' vo' pretty (indent + 2) with
        | fuel => rw [hm] at hne; exact absurd rfl hne
        | err e =>
          rw [hm] at hrun
          simp only [LoopRes] at hrun
          cases pretty <;>
            simp only [Bool.false_eq_true, if_false, if_true, Ctl.pure_eq', Ctl.val_bind', pushStr_eq, pushChar_eq, strLit_eq_lit,
              encodeChar_lc] at hrun hkeys ⊢ <;>
            simp only [hkeys, Ctl.val_bind', hrun, Ctl.ret_bind', Ctl.run_ret', containerOut, Res.map, Res.bind]
        | panic s =>
          rw [hm] at hrun
          simp only [LoopRes] at hrun
          cases pretty <;>
            simp only [Bool.false_eq_true, if_false, if_true, Ctl.pure_eq', Ctl.val_bind', pushStr_eq, pushChar_eq, strLit_eq_lit,
              encodeChar_lc] at hrun hkeys ⊢ <;>
            simp only [hkeys, Ctl.val_bind', hrun, Ctl.ret_bind', Ctl.run_ret', containerOut, Res.map, Res.bind]
        | ok body =>
          rw [hm] at hrun
          simp only [LoopRes] at hrun
          obtain ⟨⟨sj, sk, sjo, svo⟩, hs1, hs2⟩ := hrun
          dsimp only at hs2
          subst hs2
          have hgi := generate_indent_agrees pretty indent (by omega)
          cases pretty <;>
            simp only [Bool.false_eq_true, if_false, if_true, Ctl.pure_eq', Ctl.val_bind', pushStr_eq, pushChar_eq, strLit_eq_lit,
              encodeChar_lc] at hs1 hkeys ⊢ <;>
            simp only [hkeys, hs1, Ctl.val_bind', hgi, Ctl.ofRes_ok', pushStr_eq, pushChar_eq, encodeChar_rc, encodeChar_nl,
              Ctl.run_ret', containerOut, Res.map, Res.bind, List.append_assoc, List.nil_append, List.cons_append]
    intro _
    simp only [if_neg h3, Ctl.pure_eq', Ctl.val_bind', Ctl.run_ret', containerOut, Res.map, Res.bind, List.append_nil]

end Jsonb.TrAgree
