/-
UTF-8 and string-literal support for the phase-2 agreement theorems (`TranslatedAgreeB2.lean`):
a well-formed UTF-8 string cut at an ASCII byte has well-formed halves; `from_utf8_lossy` is the
identity on well-formed input; string literals compute.  The second and third are copies of
`utf8Lossy_valid` (Proofs/TextEquiv5.lean) and `lit_eq` (Proofs/ToStringDoc.lean), repeated here so
that the agreement theorems do not import the property proofs.
-/
import JsonbModel.RustPrelude2Str
import JsonbModel.Functions.Text2

set_option linter.unusedSimpArgs false
set_option linter.unusedVariables false

namespace Jsonb.TrAgree

theorem ascii_not_cont (b : UInt8) (hb : b < 0x80) :
    isCont b = false ∧ (0xA0 ≤ b && b ≤ 0xBF) = false ∧ (0x80 ≤ b && b ≤ 0x9F) = false ∧
    (0x90 ≤ b && b ≤ 0xBF) = false ∧ (0x80 ≤ b && b ≤ 0x8F) = false := by
  have h : b.toNat < 128 := by simpa [UInt8.lt_iff_toNat_lt] using hb
  refine ⟨?_, ?_, ?_, ?_, ?_⟩ <;> simp [isCont, UInt8.le_iff_toNat_le] <;> omega

/-- a well-formed UTF-8 string cut at an ASCII byte: both sides are well formed -/
theorem validUtf8_split_aux : ∀ (n : Nat) (a : Bytes), a.length ≤ n → ∀ (b : UInt8) (c : Bytes), b < 0x80 →
    validUtf8 (a ++ b :: c) = true → validUtf8 a = true ∧ validUtf8 c = true
  | _, [], _, b, c, hb, hv => by
    unfold validUtf8 at hv
    simp only [List.nil_append, hb, if_true] at hv
    exact ⟨by unfold validUtf8; rfl, hv⟩
  | 0, _ :: _, hl, _, _, _, _ => by simp at hl
  | n + 1, a0 :: a', hl, b, c, hb, hv => by
    have IH := validUtf8_split_aux n
    obtain ⟨k1, k2, k3, k4, k5⟩ := ascii_not_cont b hb
    have hl' : a'.length ≤ n := by simp only [List.length_cons] at hl; omega
    rw [List.cons_append] at hv
    unfold validUtf8 at hv
    conv => lhs; unfold validUtf8
    by_cases c1 : a0 < 0x80
    · simp only [c1, if_true] at hv ⊢; exact IH a' hl' b c hb hv
    · simp only [c1, if_false] at hv ⊢
      by_cases c2 : (0xC2 ≤ a0 && a0 ≤ 0xDF) = true
      · simp only [c2, if_true] at hv ⊢
        rcases a' with _ | ⟨x1, r1⟩
        · first | (simp [k1, k2, k3, k4, k5] at hv; done) | (rcases c with _ | ⟨y1, c⟩ <;> first | (simp [k1, k2, k3, k4, k5] at hv; done) | (rcases c with _ | ⟨y2, c⟩ <;> simp [k1, k2, k3, k4, k5] at hv))
        · skip
          simp only [List.cons_append, Bool.and_eq_true] at hv ⊢
          obtain ⟨hp, hr⟩ := hv
          have ih := IH r1 (by simp only [List.length_cons] at hl; omega) b c hb hr
          exact ⟨⟨hp, ih.1⟩, ih.2⟩
      · simp only [c2, if_false, Bool.false_eq_true] at hv ⊢
        by_cases c3 : (a0 == 0xE0) = true
        · simp only [c3, if_true] at hv ⊢
          rcases a' with _ | ⟨x1, r1⟩
          · first | (simp [k1, k2, k3, k4, k5] at hv; done) | (rcases c with _ | ⟨y1, c⟩ <;> first | (simp [k1, k2, k3, k4, k5] at hv; done) | (rcases c with _ | ⟨y2, c⟩ <;> simp [k1, k2, k3, k4, k5] at hv))
          · skip
            rcases r1 with _ | ⟨x2, r2⟩
            · first | (simp [k1, k2, k3, k4, k5] at hv; done) | (rcases c with _ | ⟨y1, c⟩ <;> first | (simp [k1, k2, k3, k4, k5] at hv; done) | (rcases c with _ | ⟨y2, c⟩ <;> simp [k1, k2, k3, k4, k5] at hv))
            · skip
              simp only [List.cons_append, Bool.and_eq_true] at hv ⊢
              obtain ⟨hp, hr⟩ := hv
              have ih := IH r2 (by simp only [List.length_cons] at hl; omega) b c hb hr
              exact ⟨⟨hp, ih.1⟩, ih.2⟩
        · simp only [c3, if_false, Bool.false_eq_true] at hv ⊢
          by_cases c4 : ((0xE1 ≤ a0 && a0 ≤ 0xEC) || a0 == 0xEE || a0 == 0xEF) = true
          · simp only [c4, if_true] at hv ⊢
            rcases a' with _ | ⟨x1, r1⟩
            · first | (simp [k1, k2, k3, k4, k5] at hv; done) | (rcases c with _ | ⟨y1, c⟩ <;> first | (simp [k1, k2, k3, k4, k5] at hv; done) | (rcases c with _ | ⟨y2, c⟩ <;> simp [k1, k2, k3, k4, k5] at hv))
            · skip
              rcases r1 with _ | ⟨x2, r2⟩
              · first | (simp [k1, k2, k3, k4, k5] at hv; done) | (rcases c with _ | ⟨y1, c⟩ <;> first | (simp [k1, k2, k3, k4, k5] at hv; done) | (rcases c with _ | ⟨y2, c⟩ <;> simp [k1, k2, k3, k4, k5] at hv))
              · skip
                simp only [List.cons_append, Bool.and_eq_true] at hv ⊢
                obtain ⟨hp, hr⟩ := hv
                have ih := IH r2 (by simp only [List.length_cons] at hl; omega) b c hb hr
                exact ⟨⟨hp, ih.1⟩, ih.2⟩
          · simp only [c4, if_false, Bool.false_eq_true] at hv ⊢
            by_cases c5 : (a0 == 0xED) = true
            · simp only [c5, if_true] at hv ⊢
              rcases a' with _ | ⟨x1, r1⟩
              · first | (simp [k1, k2, k3, k4, k5] at hv; done) | (rcases c with _ | ⟨y1, c⟩ <;> first | (simp [k1, k2, k3, k4, k5] at hv; done) | (rcases c with _ | ⟨y2, c⟩ <;> simp [k1, k2, k3, k4, k5] at hv))
              · skip
                rcases r1 with _ | ⟨x2, r2⟩
                · first | (simp [k1, k2, k3, k4, k5] at hv; done) | (rcases c with _ | ⟨y1, c⟩ <;> first | (simp [k1, k2, k3, k4, k5] at hv; done) | (rcases c with _ | ⟨y2, c⟩ <;> simp [k1, k2, k3, k4, k5] at hv))
                · skip
                  simp only [List.cons_append, Bool.and_eq_true] at hv ⊢
                  obtain ⟨hp, hr⟩ := hv
                  have ih := IH r2 (by simp only [List.length_cons] at hl; omega) b c hb hr
                  exact ⟨⟨hp, ih.1⟩, ih.2⟩
            · simp only [c5, if_false, Bool.false_eq_true] at hv ⊢
              by_cases c6 : (a0 == 0xF0) = true
              · simp only [c6, if_true] at hv ⊢
                rcases a' with _ | ⟨x1, r1⟩
                · first | (simp [k1, k2, k3, k4, k5] at hv; done) | (rcases c with _ | ⟨y1, c⟩ <;> first | (simp [k1, k2, k3, k4, k5] at hv; done) | (rcases c with _ | ⟨y2, c⟩ <;> simp [k1, k2, k3, k4, k5] at hv))
                · skip
                  rcases r1 with _ | ⟨x2, r2⟩
                  · first | (simp [k1, k2, k3, k4, k5] at hv; done) | (rcases c with _ | ⟨y1, c⟩ <;> first | (simp [k1, k2, k3, k4, k5] at hv; done) | (rcases c with _ | ⟨y2, c⟩ <;> simp [k1, k2, k3, k4, k5] at hv))
                  · skip
                    rcases r2 with _ | ⟨x3, r3⟩
                    · first | (simp [k1, k2, k3, k4, k5] at hv; done) | (rcases c with _ | ⟨y1, c⟩ <;> first | (simp [k1, k2, k3, k4, k5] at hv; done) | (rcases c with _ | ⟨y2, c⟩ <;> simp [k1, k2, k3, k4, k5] at hv))
                    · skip
                      simp only [List.cons_append, Bool.and_eq_true] at hv ⊢
                      obtain ⟨hp, hr⟩ := hv
                      have ih := IH r3 (by simp only [List.length_cons] at hl; omega) b c hb hr
                      exact ⟨⟨hp, ih.1⟩, ih.2⟩
              · simp only [c6, if_false, Bool.false_eq_true] at hv ⊢
                by_cases c7 : (0xF1 ≤ a0 && a0 ≤ 0xF3) = true
                · simp only [c7, if_true] at hv ⊢
                  rcases a' with _ | ⟨x1, r1⟩
                  · first | (simp [k1, k2, k3, k4, k5] at hv; done) | (rcases c with _ | ⟨y1, c⟩ <;> first | (simp [k1, k2, k3, k4, k5] at hv; done) | (rcases c with _ | ⟨y2, c⟩ <;> simp [k1, k2, k3, k4, k5] at hv))
                  · skip
                    rcases r1 with _ | ⟨x2, r2⟩
                    · first | (simp [k1, k2, k3, k4, k5] at hv; done) | (rcases c with _ | ⟨y1, c⟩ <;> first | (simp [k1, k2, k3, k4, k5] at hv; done) | (rcases c with _ | ⟨y2, c⟩ <;> simp [k1, k2, k3, k4, k5] at hv))
                    · skip
                      rcases r2 with _ | ⟨x3, r3⟩
                      · first | (simp [k1, k2, k3, k4, k5] at hv; done) | (rcases c with _ | ⟨y1, c⟩ <;> first | (simp [k1, k2, k3, k4, k5] at hv; done) | (rcases c with _ | ⟨y2, c⟩ <;> simp [k1, k2, k3, k4, k5] at hv))
                      · skip
                        simp only [List.cons_append, Bool.and_eq_true] at hv ⊢
                        obtain ⟨hp, hr⟩ := hv
                        have ih := IH r3 (by simp only [List.length_cons] at hl; omega) b c hb hr
                        exact ⟨⟨hp, ih.1⟩, ih.2⟩
                · simp only [c7, if_false, Bool.false_eq_true] at hv ⊢
                  by_cases c8 : (a0 == 0xF4) = true
                  · simp only [c8, if_true] at hv ⊢
                    rcases a' with _ | ⟨x1, r1⟩
                    · first | (simp [k1, k2, k3, k4, k5] at hv; done) | (rcases c with _ | ⟨y1, c⟩ <;> first | (simp [k1, k2, k3, k4, k5] at hv; done) | (rcases c with _ | ⟨y2, c⟩ <;> simp [k1, k2, k3, k4, k5] at hv))
                    · skip
                      rcases r1 with _ | ⟨x2, r2⟩
                      · first | (simp [k1, k2, k3, k4, k5] at hv; done) | (rcases c with _ | ⟨y1, c⟩ <;> first | (simp [k1, k2, k3, k4, k5] at hv; done) | (rcases c with _ | ⟨y2, c⟩ <;> simp [k1, k2, k3, k4, k5] at hv))
                      · skip
                        rcases r2 with _ | ⟨x3, r3⟩
                        · first | (simp [k1, k2, k3, k4, k5] at hv; done) | (rcases c with _ | ⟨y1, c⟩ <;> first | (simp [k1, k2, k3, k4, k5] at hv; done) | (rcases c with _ | ⟨y2, c⟩ <;> simp [k1, k2, k3, k4, k5] at hv))
                        · skip
                          simp only [List.cons_append, Bool.and_eq_true] at hv ⊢
                          obtain ⟨hp, hr⟩ := hv
                          have ih := IH r3 (by simp only [List.length_cons] at hl; omega) b c hb hr
                          exact ⟨⟨hp, ih.1⟩, ih.2⟩
                  · simp only [c8, if_false, Bool.false_eq_true] at hv

theorem validUtf8_split (a : Bytes) (b : UInt8) (c : Bytes) (hb : b < 0x80) (h : validUtf8 (a ++ b :: c) = true) :
    validUtf8 a = true ∧ validUtf8 c = true :=
  validUtf8_split_aux a.length a (Nat.le_refl _) b c hb h


theorem utf8Lossy_valid_aux' : ∀ (n : Nat) (t : Bytes), t.length ≤ n → validUtf8 t = true → utf8Lossy t = t
  | _, [], _, _ => by unfold utf8Lossy; rfl
  | 0, _ :: _, hl, _ => by simp at hl
  | n + 1, b0 :: rest, hl, hv => by
    have IH := utf8Lossy_valid_aux' n
    unfold utf8Lossy
    unfold validUtf8 at hv
    by_cases c1 : b0 < 0x80
    · simp only [c1, if_true] at hv ⊢; rw [IH rest (by simp only [List.length_cons] at hl; omega) hv]
    · simp only [c1, if_false] at hv ⊢
      by_cases c2 : (0xC2 ≤ b0 && b0 ≤ 0xDF) = true
      · simp only [c2, if_true] at hv ⊢
        cases rest with
        | nil => simp at hv
        | cons b1 r =>
          simp only [Bool.and_eq_true] at hv
          simp only [hv.1, if_true]; rw [IH r (by simp only [List.length_cons] at hl; omega) hv.2]
      · simp only [c2, if_false, Bool.false_eq_true] at hv ⊢
        by_cases c3 : (b0 == 0xE0) = true
        · simp only [c3, if_true] at hv ⊢
          cases rest with
          | nil => simp at hv
          | cons b1 r1 =>
            cases r1 with
            | nil => simp at hv
            | cons b2 r2 =>
              simp only [Bool.and_eq_true] at hv
              have ih := IH r2 (by simp only [List.length_cons] at hl; omega) hv.2
              simp [hv.1.1.1, hv.1.1.2, hv.1.2, ih]
        · simp only [c3, if_false, Bool.false_eq_true] at hv ⊢
          by_cases c4 : ((0xE1 ≤ b0 && b0 ≤ 0xEC) || b0 == 0xEE || b0 == 0xEF) = true
          · simp only [c4, if_true] at hv ⊢
            cases rest with
            | nil => simp at hv
            | cons b1 r1 =>
              cases r1 with
              | nil => simp at hv
              | cons b2 r2 =>
                simp only [Bool.and_eq_true] at hv
                have ih := IH r2 (by simp only [List.length_cons] at hl; omega) hv.2
                simp [hv.1.1, hv.1.2, ih]
          · simp only [c4, if_false, Bool.false_eq_true] at hv ⊢
            by_cases c5 : (b0 == 0xED) = true
            · simp only [c5, if_true] at hv ⊢
              cases rest with
              | nil => simp at hv
              | cons b1 r1 =>
                cases r1 with
                | nil => simp at hv
                | cons b2 r2 =>
                  simp only [Bool.and_eq_true] at hv
                  have ih := IH r2 (by simp only [List.length_cons] at hl; omega) hv.2
                  simp [hv.1.1.1, hv.1.1.2, hv.1.2, ih]
            · simp only [c5, if_false, Bool.false_eq_true] at hv ⊢
              by_cases c6 : (b0 == 0xF0) = true
              · simp only [c6, if_true] at hv ⊢
                cases rest with
                | nil => simp at hv
                | cons b1 r1 =>
                  cases r1 with
                  | nil => simp at hv
                  | cons b2 r2 =>
                    cases r2 with
                    | nil => simp at hv
                    | cons b3 r3 =>
                      simp only [Bool.and_eq_true] at hv
                      have ih := IH r3 (by simp only [List.length_cons] at hl; omega) hv.2
                      simp [hv.1.1.1.1, hv.1.1.1.2, hv.1.1.2, hv.1.2, ih]
              · simp only [c6, if_false, Bool.false_eq_true] at hv ⊢
                by_cases c7 : (0xF1 ≤ b0 && b0 ≤ 0xF3) = true
                · simp only [c7, if_true] at hv ⊢
                  cases rest with
                  | nil => simp at hv
                  | cons b1 r1 =>
                    cases r1 with
                    | nil => simp at hv
                    | cons b2 r2 =>
                      cases r2 with
                      | nil => simp at hv
                      | cons b3 r3 =>
                        simp only [Bool.and_eq_true] at hv
                        have ih := IH r3 (by simp only [List.length_cons] at hl; omega) hv.2
                        simp [hv.1.1.1, hv.1.1.2, hv.1.2, ih]
                · simp only [c7, if_false, Bool.false_eq_true] at hv ⊢
                  by_cases c8 : (b0 == 0xF4) = true
                  · simp only [c8, if_true] at hv ⊢
                    cases rest with
                    | nil => simp at hv
                    | cons b1 r1 =>
                      cases r1 with
                      | nil => simp at hv
                      | cons b2 r2 =>
                        cases r2 with
                        | nil => simp at hv
                        | cons b3 r3 =>
                          simp only [Bool.and_eq_true] at hv
                          have ih := IH r3 (by simp only [List.length_cons] at hl; omega) hv.2
                          simp [hv.1.1.1.1, hv.1.1.1.2, hv.1.1.2, hv.1.2, ih]
                  · simp [c8] at hv

/-- on valid UTF-8 `from_utf8_lossy` is the identity -/
theorem utf8Lossy_valid' (t : Bytes) (h : validUtf8 t = true) : utf8Lossy t = t :=
  utf8Lossy_valid_aux' t.length t (Nat.le_refl _) h

theorem toList_loop_eq' (bs : ByteArray) (i : Nat) (r : List UInt8) :
    ByteArray.toList.loop bs i r = r.reverse ++ bs.data.toList.drop i := by
  fun_induction ByteArray.toList.loop bs i r with
  | case1 i r h ih =>
    rw [ih]
    have h' : i < bs.data.toList.length := by rw [Array.length_toList]; exact h
    have h'' : i < bs.data.size := h
    rw [List.drop_eq_getElem_cons h']
    have : bs.get! i = bs.data.toList[i] := by
      show bs.data[i]! = _
      rw [getElem!_pos bs.data i h'']
      simp
    simp [this]
  | case2 i r h =>
    have h' : bs.data.toList.length ≤ i := by rw [Array.length_toList]; exact Nat.le_of_not_lt h
    simp [List.drop_eq_nil_of_le h']

theorem byteArray_toList_eq' (bs : ByteArray) : bs.toList = bs.data.toList := by
  simp [ByteArray.toList, toList_loop_eq']

theorem strLit_eq (s : String) : Rs.strLit s = s.toByteArray.data.toList := by
  simp [Rs.strLit, byteArray_toList_eq']

end Jsonb.TrAgree
