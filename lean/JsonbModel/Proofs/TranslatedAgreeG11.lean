/-
Agreement theorems, phase 6a, part 11: the recursive group `find_positions` / `filter_expr` / `eval_exists` against
`Sel.findPositions` / `Sel.walk` / `Sel.filterAll` / `Sel.filterExpr` (strong induction on the model's fuel; the loops
for any callee that agrees with `Sel.filterExpr` below the fuel).
-/
import JsonbModel.Proofs.TranslatedAgreeG10

set_option linter.unusedSimpArgs false
set_option linter.unusedVariables false

namespace Jsonb.TrAgree
open Jsonb.Rs

/-- the callee `rec` (= `filter_expr` with some fuel) agrees with `Sel.filterExpr` for every model fuel below `W` -/
def RecFE (rec : Tr.Selector → Bytes → Tr.Position → Tr.Expr → Res Bool) (self : Tr.Selector) (root : Bytes) (W : Nat) : Prop :=
  ∀ w pos e, w < W → ExprOK e → Sel.filterExpr w root pos e ≠ .fuel →
    AgR (fun b => b) (rec self root (ofPos pos) (ofExpr e)) (Sel.filterExpr w root pos e)

/-! ## the filter loop = `Sel.filterAll` -/

theorem filterAll_succ_cons (w : Nat) (root : Bytes) (e : Expr) (pos : Sel.Pos) (rest : List Sel.Pos) :
    Sel.filterAll (w + 1) root e (pos :: rest) =
      (Sel.filterExpr w root pos e).bind (fun keep =>
        (Sel.filterAll w root e rest).map (fun r => if keep then pos :: r else r)) := by
  simp only [Sel.filterAll]
  cases Sel.filterExpr w root pos e with
  | ok keep => cases Sel.filterAll w root e rest <;> rfl
  | err e => rfl
  | panic s => rfl
  | fuel => rfl

theorem fp_loop1_step (rec : Tr.Selector → Bytes → Tr.Position → Tr.Expr → Res Bool) (self : Tr.Selector) (root : Bytes)
    (e : Expr) (w : Nat) (i : Int) (pos : Sel.Pos) (q : List Sel.Pos)
    (h : AgR (fun b => b) (rec self root (ofPos pos) (ofExpr e)) (Sel.filterExpr w root pos e)) :
    AgC (fun keep => Step.next ((if keep then q ++ [pos] else q).map ofPos))
      (Tr.Selector.find_positions.loop1 rec self root (ofExpr e) i ((pos :: q).map ofPos)) (Sel.filterExpr w root pos e) := by
  unfold Tr.Selector.find_positions.loop1
  simp only [List.map_cons, Rs.popFront, Rs.unwrap_some, Ctl.ofRes_ok', Ctl.val_bind']
  rcases h with h | h
  · left; rw [h]; rfl
  · right
    cases hm : Sel.filterExpr w root pos e with
    | ok keep => rw [hm] at h; simp only [] at h; rw [h]; cases keep <;> simp [Ctl.ofRes, Rs.pushBack, Rs.loopStep]
    | err e => rw [hm] at h; simp only [] at h; rw [h]; rfl
    | panic s => rw [hm] at h; obtain ⟨t, ht⟩ := h; exact ⟨t, by rw [ht]; rfl⟩
    | fuel => rw [hm] at h; simp only [] at h; rw [h]; rfl

theorem filterAll_run (rec : Tr.Selector → Bytes → Tr.Position → Tr.Expr → Res Bool) (self : Tr.Selector) (root : Bytes)
    (W : Nat) (hrec : RecFE rec self root W) (e : Expr) (he : ExprOK e) :
    ∀ (rem : List Sel.Pos) (w : Nat) (acc : List Sel.Pos) (i : Int), w ≤ W → Sel.filterAll w root e rem ≠ .fuel →
      AgC (fun r => (acc ++ r).map ofPos)
        (Rs.forRangeAux (Tr.Selector.find_positions.loop1 rec self root (ofExpr e)) rem.length i ((rem ++ acc).map ofPos))
        (Sel.filterAll w root e rem) := by
  intro rem
  induction rem with
  | nil =>
    intro w acc i hw hf
    cases w with
    | zero => exact absurd rfl hf
    | succ w => right; simp [Rs.forRangeAux, Sel.filterAll]
  | cons pos rem ih =>
    intro w acc i hw hf
    cases w with
    | zero => exact absurd rfl hf
    | succ w =>
      rw [filterAll_succ_cons] at hf ⊢
      have hne : Sel.filterExpr w root pos e ≠ .fuel := by
        intro hh; rw [hh] at hf; exact hf rfl
      have hb := fp_loop1_step rec self root e w i pos (rem ++ acc) (hrec w pos e (by omega) he hne)
      simp only [List.length_cons, List.cons_append]
      rcases hb with hb | hb
      · left; rw [Rs.forRangeAux_ret _ _ _ _ _ hb]
      · cases hm : Sel.filterExpr w root pos e with
        | ok keep =>
          rw [hm] at hb hf; simp only [] at hb
          rw [Rs.forRangeAux_next _ _ _ _ _ hb]
          simp only [Res.bind] at hf ⊢
          have hne2 : Sel.filterAll w root e rem ≠ .fuel := by
            intro hh; rw [hh] at hf; exact hf rfl
          cases keep with
          | true =>
            have := ih w (acc ++ [pos]) (i + 1) (by omega) hne2
            simp only [if_true, List.append_assoc] at this ⊢
            apply AgC.map_model (f := fun r => List.map ofPos (acc ++ r)) (g := fun r => pos :: r)
            simpa using this
          | false =>
            have := ih w acc (i + 1) (by omega) hne2
            simp only [Bool.false_eq_true, if_false] at this ⊢
            apply AgC.map_model (f := fun r => List.map ofPos (acc ++ r)) (g := fun r => r)
            exact this
        | err e =>
          rw [hm] at hb; simp only [] at hb
          right; rw [Rs.forRangeAux_ret _ _ _ _ _ hb]; rfl
        | panic s =>
          rw [hm] at hb; obtain ⟨t, ht⟩ := hb
          right; exact ⟨t, by rw [Rs.forRangeAux_ret _ _ _ _ _ ht]⟩
        | fuel => exact absurd hm hne

theorem filterAll_loop (rec : Tr.Selector → Bytes → Tr.Position → Tr.Expr → Res Bool) (self : Tr.Selector) (root : Bytes)
    (W : Nat) (hrec : RecFE rec self root W) (e : Expr) (he : ExprOK e) (ps : List Sel.Pos) (w : Nat) (hw : w ≤ W)
    (hf : Sel.filterAll w root e ps ≠ .fuel) :
    AgC (fun r => r.map ofPos)
      (Rs.forRange (0 : Int) (Rs.len (ps.map ofPos)) (ps.map ofPos) (Tr.Selector.find_positions.loop1 rec self root (ofExpr e)))
      (Sel.filterAll w root e ps) := by
  have hl : Rs.len (ps.map ofPos) = ((ps.length : Nat) : Int) := by simp [Rs.len]
  rw [hl, Rs.forRange_zero]
  have := filterAll_run rec self root W hrec e he ps w [] 0 hw hf
  simpa using this

/-! ## the path loop = `Sel.walk` -/

/-- one path element on the frontier -/
def walkStep (w : Nat) (root : Bytes) (p : Path) (ps : List Sel.Pos) : Res (List Sel.Pos) :=
  match p with
  | .root | .current => .ok ps
  | .filterExpr e | .predicate e => Sel.filterAll w root e ps
  | _ => Sel.stepAll root p ps

theorem walk_succ_cons (w : Nat) (root : Bytes) (p : Path) (rest : List Path) (ps : List Sel.Pos) :
    Sel.walk (w + 1) root (p :: rest) ps = (walkStep w root p ps).bind (fun ps' => Sel.walk w root rest ps') := by
  cases p <;> simp only [Sel.walk, walkStep, Res.bind]
  all_goals first | rfl | (cases Sel.stepAll root _ ps <;> rfl) | (cases Sel.filterAll w root _ ps <;> rfl)

theorem fp_loop3_step (rec : Tr.Selector → Bytes → Tr.Position → Tr.Expr → Res Bool) (self : Tr.Selector) (root : Bytes)
    (W : Nat) (hrec : RecFE rec self root W) (hlen : root.length < 9223372036854775808) (p : Path) (hp : PathOK p)
    (ps : List Sel.Pos) (w : Nat) (hw : w ≤ W) (hf : walkStep w root p ps ≠ .fuel) :
    AgC (fun r => Step.next (r.map ofPos)) (Tr.Selector.find_positions.loop3 rec self root (ofPath p) (ps.map ofPos))
      (walkStep w root p ps) := by
  have keyS : ∀ (q : Path), PathOK q →
      AgC (fun r => Step.next (r.map ofPos))
        (Rs.loopStep (ρ := List Tr.Position) (do
          let poses ← (do
            let len := Rs.len (ps.map ofPos)
            let poses ← Rs.forRange (0 : Int) len (ps.map ofPos) (Tr.Selector.find_positions.loop2 self root (ofPath q))
            pure poses)
          pure poses)) (Sel.stepAll root q ps) := by
    intro q hq
    have h := stepAll_loop root q (Tr.Selector.find_positions.loop2 self root (ofPath q))
      (fun i pos acc => fp_loop2_step self root q hq hlen i pos acc) ps
    rcases h with h | h
    · left; simp only [h]; rfl
    · right
      cases hm : Sel.stepAll root q ps with
      | ok r => rw [hm] at h; simp only [] at h; simp only [h]; rfl
      | err e => rw [hm] at h; simp only [] at h; simp only [h]; rfl
      | panic s => rw [hm] at h; obtain ⟨t, ht⟩ := h; exact ⟨t, by simp only [ht]; rfl⟩
      | fuel => rw [hm] at h; simp only [] at h; simp only [h]; rfl
  have keyF : ∀ (e : Expr), ExprOK e → Sel.filterAll w root e ps ≠ .fuel →
      AgC (fun r => Step.next (r.map ofPos))
        (Rs.loopStep (ρ := List Tr.Position) (do
          let poses ← (do
            let len := Rs.len (ps.map ofPos)
            let poses ← Rs.forRange (0 : Int) len (ps.map ofPos) (Tr.Selector.find_positions.loop1 rec self root (ofExpr e))
            pure poses)
          pure poses)) (Sel.filterAll w root e ps) := by
    intro e he hne
    have h := filterAll_loop rec self root W hrec e he ps w hw hne
    rcases h with h | h
    · left; simp only [h]; rfl
    · right
      cases hm : Sel.filterAll w root e ps with
      | ok r => rw [hm] at h; simp only [] at h; simp only [h]; rfl
      | err e => rw [hm] at h; simp only [] at h; simp only [h]; rfl
      | panic s => rw [hm] at h; obtain ⟨t, ht⟩ := h; exact ⟨t, by simp only [ht]; rfl⟩
      | fuel => exact absurd hm hne
  unfold Tr.Selector.find_positions.loop3
  cases p with
  | root => right; rfl
  | current => right; rfl
  | filterExpr e => simp only [PathOK] at hp; exact keyF e hp hf
  | predicate e => simp only [PathOK] at hp; exact keyF e hp hf
  | dotWildcard => exact keyS _ hp
  | bracketWildcard => exact keyS _ hp
  | dotField s => exact keyS _ hp
  | colonField s => exact keyS _ hp
  | objectField s => exact keyS _ hp
  | arrayIndices is => exact keyS _ hp
  | arithmeticExpr e => exact keyS _ hp

theorem walk_run (rec : Tr.Selector → Bytes → Tr.Position → Tr.Expr → Res Bool) (self : Tr.Selector) (root : Bytes)
    (W : Nat) (hrec : RecFE rec self root W) (hlen : root.length < 9223372036854775808) :
    ∀ (paths : List Path), PathsOK paths → ∀ (ps : List Sel.Pos) (w : Nat), w ≤ W + 1 → Sel.walk w root paths ps ≠ .fuel →
      AgC (fun r => r.map ofPos)
        (Rs.forIn (ofPaths paths) (ps.map ofPos) (Tr.Selector.find_positions.loop3 rec self root) : Ctl (List Tr.Position) _)
        (Sel.walk w root paths ps) := by
  intro paths
  induction paths with
  | nil =>
    intro _ ps w hw hf
    cases w with
    | zero => exact absurd rfl hf
    | succ w => right; simp [ofPaths, Rs.forIn, Sel.walk]
  | cons p rest ih =>
    intro hok ps w hw hf
    simp only [PathsOK] at hok
    cases w with
    | zero => exact absurd rfl hf
    | succ w =>
      rw [walk_succ_cons] at hf ⊢
      simp only [ofPaths]
      have hne : walkStep w root p ps ≠ .fuel := by
        intro hh; rw [hh] at hf; exact hf rfl
      have hb := fp_loop3_step rec self root W hrec hlen p hok.1 ps w (by omega) hne
      rcases hb with hb | hb
      · left; rw [Rs.forIn_ret _ _ _ _ _ hb]
      · cases hm : walkStep w root p ps with
        | ok r =>
          rw [hm] at hb hf; simp only [] at hb
          rw [Rs.forIn_next _ _ _ _ _ hb]
          simp only [Res.bind] at hf ⊢
          exact ih hok.2 r w (by omega) hf
        | err e =>
          rw [hm] at hb; simp only [] at hb
          right; rw [Rs.forIn_ret _ _ _ _ _ hb]; rfl
        | panic s =>
          rw [hm] at hb; obtain ⟨t, ht⟩ := hb
          right; exact ⟨t, by rw [Rs.forIn_ret _ _ _ _ _ ht]⟩
        | fuel => exact absurd hm hne

end Jsonb.TrAgree
