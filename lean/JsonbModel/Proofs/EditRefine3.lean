/-
C06 refinement, part 3: `objectFilter` (object_delete / object_pick), `objectInsert`,
`arrayInsert`, `buildArray`, `buildObject`.
-/
import JsonbModel.Proofs.EditRefine2

namespace Jsonb
open JV

/-! ### object_delete / object_pick -/

theorem objectFilter_obj (pick : Bool) (kvs : List (Bytes × JV)) (hn : kvs.length < 536870912)
    (hs : keysSorted kvs = true) (hg : goodK kvs = true) (keys : List Bytes) (buf : Bytes) :
    Fn.objectFilter pick (encodeSpec (obj kvs)) keys buf
      = .ok (buf ++ encodeSpec (obj (kvs.filter (fun kv => keys.contains kv.1 == pick)))) := by
  have hdr := readHdr (obj kvs) (by simp [goodTop, hn, hs, hg])
  simp only [hdrOf] at hdr
  simp only [Fn.objectFilter, hdr, hdrType_obj _ hn, ne_eq, not_true_eq_false, if_false,
    iterObjEntries_doc kvs hn hg]
  have hf : (kvs.map memberOf).filter (fun m => keys.contains m.1 == pick)
      = (kvs.filter (fun kv => keys.contains kv.1 == pick)).map memberOf := by
    rw [List.filter_map]; rfl
  have hsub : (kvs.filter (fun kv => keys.contains kv.1 == pick)).Sublist kvs := List.filter_sublist
  rw [hf, map_memberRaw_memberOf, pushAll_sorted _ (keysSorted_sublist hsub hs)]
  exact buildObjectInto_raw buf _ (Nat.lt_of_le_of_lt hsub.length_le hn) (goodK_sublist hsub hg)

theorem kindOf_ne_obj (v : JV) (hno : ∀ kvs, v ≠ obj kvs) : ¬ kindOf v = C.OBJECT_CONTAINER_TAG := by
  cases v with
  | obj kvs => exact absurd rfl (hno kvs)
  | arr vs => exact ne_arr_obj
  | null => exact ne_sca_obj
  | bool b => exact ne_sca_obj
  | num n => exact ne_sca_obj
  | str s => exact ne_sca_obj

theorem objectFilter_nonobj (pick : Bool) (v : JV) (hg : goodTop v = true) (hno : ∀ kvs, v ≠ obj kvs)
    (keys : List Bytes) (buf : Bytes) :
    Fn.objectFilter pick (encodeSpec v) keys buf = .err "InvalidObject" := by
  simp only [Fn.objectFilter, readHdr v hg, hdrType_hdrOf v hg, ne_eq, kindOf_ne_obj v hno,
    not_false_eq_true, if_true]

/-- **object_delete** -/
theorem objectDelete_refines (v : JV) (hg : goodTop v = true) (keys : List Bytes) (buf : Bytes) :
    Fn.objectFilter false (encodeSpec v) keys buf
      = match Spec.objectDelete v keys with
        | some r => .ok (buf ++ encodeSpec r)
        | none => .err "InvalidObject" := by
  by_cases ho : ∃ kvs, v = obj kvs
  · obtain ⟨kvs, rfl⟩ := ho
    simp only [goodTop, Bool.and_eq_true, decide_eq_true_eq] at hg
    rw [objectFilter_obj false kvs hg.1.1 hg.1.2 hg.2]
    simp only [Spec.objectDelete]
    congr 5
    funext kv
    cases keys.contains kv.1 <;> rfl
  · have hno : ∀ kvs, v ≠ obj kvs := fun kvs h => ho ⟨kvs, h⟩
    rw [objectFilter_nonobj false v hg hno]
    cases v <;> first | rfl | exact absurd rfl (hno _)

/-- **object_pick** -/
theorem objectPick_refines (v : JV) (hg : goodTop v = true) (keys : List Bytes) (buf : Bytes) :
    Fn.objectFilter true (encodeSpec v) keys buf
      = match Spec.objectPick v keys with
        | some r => .ok (buf ++ encodeSpec r)
        | none => .err "InvalidObject" := by
  by_cases ho : ∃ kvs, v = obj kvs
  · obtain ⟨kvs, rfl⟩ := ho
    simp only [goodTop, Bool.and_eq_true, decide_eq_true_eq] at hg
    rw [objectFilter_obj true kvs hg.1.1 hg.1.2 hg.2]
    simp only [Spec.objectPick]
    congr 5
    funext kv
    cases keys.contains kv.1 <;> rfl
  · have hno : ∀ kvs, v ≠ obj kvs := fun kvs h => ho ⟨kvs, h⟩
    rw [objectFilter_nonobj true v hg hno]
    cases v <;> first | rfl | exact absurd rfl (hno _)

/-! ### object_insert -/

theorem iterObjKeysLoop_spec (kvs : List (Bytes × JV)) (hg : goodK kvs = true) (pre mid post : Bytes) (jo ko : Nat)
    (hjo : jo = pre.length) (hko : ko = pre.length + 4 * kvs.length + mid.length) :
    iterObjKeysLoop (pre ++ (keyWords kvs ++ (mid ++ (keyBytes kvs ++ post)))) kvs.length jo ko
      = .ok (kvs.map (·.1)) := by
  induction kvs generalizing pre mid jo ko with
  | nil => simp [iterObjKeysLoop]
  | cons kv kvs ih =>
    obtain ⟨k, v⟩ := kv
    simp only [goodK, Bool.and_eq_true, decide_eq_true_eq] at hg
    have hl := hg.1.1.1
    have e0 : C.STRING_TAG = 1 * 268435456 := by decide
    have hjl : jeLen (C.STRING_TAG + k.length) = k.length := by rw [e0]; exact jeLen_add 1 _ hl
    simp only [List.length_cons, iterObjKeysLoop, keyWords, keyBytes, List.append_assoc]
    rw [readU32At_mid pre _ _ jo hjo (by rw [e0]; omega)]
    simp only [hjl]
    have e1 : pre ++ (u32be (C.STRING_TAG + k.length) ++ (keyWords kvs ++ (mid ++ (k ++ (keyBytes kvs ++ post)))))
        = (pre ++ (u32be (C.STRING_TAG + k.length) ++ (keyWords kvs ++ mid))) ++ (k ++ (keyBytes kvs ++ post)) := by
      simp
    rw [e1, slice_mid' _ _ _ ko (ko + k.length) (by simp [keyWords_length']; simp at hko; omega) (by
      simp [keyWords_length']; simp at hko; omega)]
    have e2 : (pre ++ (u32be (C.STRING_TAG + k.length) ++ (keyWords kvs ++ mid))) ++ (k ++ (keyBytes kvs ++ post))
        = (pre ++ u32be (C.STRING_TAG + k.length)) ++ (keyWords kvs ++ ((mid ++ k) ++ (keyBytes kvs ++ post))) := by
      simp
    rw [e2, ih hg.2 (pre ++ u32be (C.STRING_TAG + k.length)) (mid ++ k) (jo + 4) (ko + k.length)
      (by simp; omega) (by simp; simp at hko; omega)]
    rfl

/-- `iteate_object_keys` on a whole object document -/
theorem iterObjKeys_doc (kvs : List (Bytes × JV)) (hn : kvs.length < 536870912) (hg : goodK kvs = true) :
    iterObjKeys (encodeSpec (obj kvs)) (C.OBJECT_CONTAINER_TAG + kvs.length) = .ok (kvs.map (·.1)) := by
  unfold iterObjKeys
  rw [hdrLen_obj _ hn]
  simp only [encodeSpec, entry]
  have := iterObjKeysLoop_spec kvs hg (u32be (C.OBJECT_CONTAINER_TAG + kvs.length)) (wordsK kvs) (paysK kvs)
    4 (8 * kvs.length + 4) (by simp) (by simp [wordsK_length']; omega)
  exact this

/-- prefix of the members whose key is strictly below `key` -/
def below (key : Bytes) (kvs : List (Bytes × JV)) : List (Bytes × JV) :=
  kvs.takeWhile (fun kv => lexCmp key kv.1 == .gt)
def notBelow (key : Bytes) (kvs : List (Bytes × JV)) : List (Bytes × JV) :=
  kvs.dropWhile (fun kv => lexCmp key kv.1 == .gt)

theorem below_append (key : Bytes) (kvs : List (Bytes × JV)) : below key kvs ++ notBelow key kvs = kvs :=
  List.takeWhile_append_dropWhile

/-- the first loop of `object_insert` finds the split point -/
theorem insertPos_spec (key : Bytes) (update : Bool) (kvs : List (Bytes × JV)) (i : Nat) :
    Fn.insertPos key update (kvs.map (·.1)) i i =
      match notBelow key kvs with
      | (k, _) :: _ =>
        if key == k then (if !update then .err "ObjectDuplicateKey" else .ok (i + (below key kvs).length, true))
        else .ok (i + (below key kvs).length, false)
      | [] => .ok (i + (below key kvs).length, false) := by
  induction kvs generalizing i with
  | nil => simp [Fn.insertPos, notBelow, below]
  | cons kv kvs ih =>
    obtain ⟨k, v⟩ := kv
    simp only [List.map_cons, Fn.insertPos]
    by_cases he : key = k
    · subst he
      have hc : (lexCmp key key == Ordering.gt) = false := by rw [lexCmp_refl]; rfl
      simp only [notBelow, below, List.dropWhile_cons, List.takeWhile_cons, hc, beq_self_eq_true, if_true,
        Bool.false_eq_true, if_false, List.length_nil, Nat.add_zero]
    · have hne : (key == k) = false := by simpa using he
      simp only [hne, Bool.false_eq_true, if_false]
      by_cases hg : lexCmp key k = .gt
      · have hc : (lexCmp key k == Ordering.gt) = true := by rw [hg]; rfl
        simp only [hc, if_true, notBelow, below, List.dropWhile_cons, List.takeWhile_cons, List.length_cons]
        rw [ih (i + 1)]
        simp only [notBelow, below]
        have e : i + 1 + (List.takeWhile (fun kv => lexCmp key kv.1 == Ordering.gt) kvs).length
            = i + ((List.takeWhile (fun kv => lexCmp key kv.1 == Ordering.gt) kvs).length + 1) := by omega
        rw [e]
      · have hc : (lexCmp key k == Ordering.gt) = false := by
          cases h : lexCmp key k <;> first | rfl | exact absurd h hg
        simp only [hc, Bool.false_eq_true, if_false, notBelow, below, List.dropWhile_cons, List.takeWhile_cons,
          hne, List.length_nil, Nat.add_zero]

theorem below_allGt (key : Bytes) (kvs : List (Bytes × JV)) : ∀ kv ∈ below key kvs, lexCmp key kv.1 = .gt := by
  induction kvs with
  | nil => intro kv hkv; simp [below] at hkv
  | cons x kvs ih =>
    intro kv hkv
    simp only [below, List.takeWhile_cons] at hkv
    split at hkv
    · rename_i hx
      simp only [List.mem_cons] at hkv
      rcases hkv with h | h
      · subst h; simpa using hx
      · exact ih kv h
    · simp at hkv

theorem take_map_left {α β} (f : α → β) (a b : List α) : ((a ++ b).map f).take a.length = a.map f := by
  rw [List.map_append, List.take_left' (by simp)]
theorem drop_map_left {α β} (f : α → β) (a b : List α) : ((a ++ b).map f).drop a.length = b.map f := by
  rw [List.map_append, List.drop_left' (by simp)]

theorem insertKV_app_gt (key : Bytes) (new : JV) (a b : List (Bytes × JV))
    (ha : ∀ kv ∈ a, lexCmp key kv.1 = .gt) : insertKV key new (a ++ b) = a ++ insertKV key new b := by
  induction a with
  | nil => rfl
  | cons kv a ih =>
    obtain ⟨k, v⟩ := kv
    have h1 : lexCmp key k = .gt := ha (k, v) (by simp)
    simp only [List.cons_append, insertKV, h1]
    rw [ih (fun kv hkv => ha kv (by simp [hkv]))]

theorem lookup_app_gt (key : Bytes) (a b : List (Bytes × JV))
    (ha : ∀ kv ∈ a, lexCmp key kv.1 = .gt) : Spec.lookup key (a ++ b) = Spec.lookup key b := by
  induction a with
  | nil => rfl
  | cons kv a ih =>
    obtain ⟨k, v⟩ := kv
    have h1 : lexCmp key k = .gt := ha (k, v) (by simp)
    have hne : (k == key) = false := by
      have : ¬ k = key := by
        intro e; subst e; rw [lexCmp_refl] at h1; exact Ordering.noConfusion h1
      simpa using this
    simp only [List.cons_append, Spec.lookup, hne, Bool.false_eq_true, if_false]
    exact ih (fun kv hkv => ha kv (by simp [hkv]))

theorem lookup_none_of_lt (key : Bytes) (b : List (Bytes × JV))
    (hb : ∀ kv ∈ b, lexCmp key kv.1 = .lt) : Spec.lookup key b = none := by
  induction b with
  | nil => rfl
  | cons kv b ih =>
    obtain ⟨k, v⟩ := kv
    have h1 : lexCmp key k = .lt := hb (k, v) (by simp)
    have hne : (k == key) = false := by
      have : ¬ k = key := by
        intro e; subst e; rw [lexCmp_refl] at h1; exact Ordering.noConfusion h1
      simpa using this
    simp only [Spec.lookup, hne, Bool.false_eq_true, if_false]
    exact ih (fun kv hkv => hb kv (by simp [hkv]))

/-- merging a sorted run `rest` whose keys are all above everything in `pre` appends it -/
theorem mergeKV_append (pre rest : List (Bytes × JV)) (hs : keysSorted rest = true)
    (hp : ∀ kv ∈ rest, allLt pre kv.1) : mergeKV pre rest = pre ++ rest :=
  foldl_insert_sorted pre rest hs hp

/-- the tree-level content of the second half of `object_insert`: members below the key, the new
member, then the remaining members -/
theorem insert_split (key : Bytes) (new : JV) (a rest : List (Bytes × JV))
    (hsa : keysSorted a = true) (hsr : keysSorted rest = true)
    (ha : ∀ kv ∈ a, lexCmp key kv.1 = .gt) (hr : ∀ kv ∈ rest, lexCmp key kv.1 = .lt) :
    mergeKV (insertKV key new (mergeKV [] a)) rest = a ++ (key, new) :: rest := by
  rw [← mkObj_eq_mergeKV, mkObj_sorted a hsa]
  have h1 : insertKV key new a = a ++ [(key, new)] :=
    insertKV_append a key new (fun kv hkv => lexCmp_lt_of_gt (ha kv hkv))
  rw [h1, mergeKV_append _ rest hsr]
  · simp
  · intro kv hkv kv' hkv'
    simp only [List.mem_append, List.mem_singleton] at hkv'
    rcases hkv' with h | h
    · exact lexCmp_lt_trans (lexCmp_lt_of_gt (ha kv' h)) (hr kv hkv)
    · subst h; exact hr kv hkv

theorem objectInsert_obj (kvs : List (Bytes × JV)) (hn : kvs.length < 536870912)
    (hs : keysSorted kvs = true) (hg : goodK kvs = true) (key : Bytes) (new : JV) (update : Bool)
    (hnew : good new = true) (hk : key.length < 268435456) (hu : validUtf8 key = true)
    (hres : (insertKV key new kvs).length < 536870912) (buf : Bytes) :
    Fn.objectInsert (encodeSpec (obj kvs)) key (encodeSpec new) update buf
      = match Spec.objectInsert (obj kvs) key new update with
        | .ok r => .ok (buf ++ encodeSpec r)
        | .error .duplicateKey => .err "ObjectDuplicateKey"
        | .error .invalidObject => .err "InvalidObject" := by
  have hdr := readHdr (obj kvs) (by simp [goodTop, hn, hs, hg])
  simp only [hdrOf] at hdr
  have hgn := goodTop_of_good new hnew
  simp only [Fn.objectInsert, hdr, hdrType_obj _ hn, ne_eq, not_true_eq_false, if_false,
    iterObjKeys_doc kvs hn hg, insertPos_spec, Nat.zero_add, iterObjEntries_doc kvs hn hg,
    readHdr new hgn, newEntry_spec new hnew, Spec.objectInsert]
  -- structure of the sorted member list around the key
  have hsplit := below_append key kvs
  have hpw := (keysSorted_iff_pairwise kvs).mp hs
  rw [← hsplit, List.pairwise_append] at hpw
  obtain ⟨hpa, hpb, hab⟩ := hpw
  have hsa : keysSorted (below key kvs) = true := (keysSorted_iff_pairwise _).mpr hpa
  have hagt := below_allGt key kvs
  have htake : (kvs.map memberOf).take (below key kvs).length = (below key kvs).map memberOf := by
    have h := take_map_left memberOf (below key kvs) (notBelow key kvs); rwa [hsplit] at h
  have hdrop : (kvs.map memberOf).drop (below key kvs).length = (notBelow key kvs).map memberOf := by
    have h := drop_map_left memberOf (below key kvs) (notBelow key kvs); rwa [hsplit] at h
  have hlook : Spec.lookup key kvs = Spec.lookup key (notBelow key kvs) := by
    have h := lookup_app_gt key (below key kvs) (notBelow key kvs) hagt; rwa [hsplit] at h
  have hins : insertKV key new kvs = below key kvs ++ insertKV key new (notBelow key kvs) := by
    have h := insertKV_app_gt key new (below key kvs) (notBelow key kvs) hagt; rwa [hsplit] at h
  have hgres : goodK (insertKV key new kvs) = true := insertKV_good key new kvs hk hu hnew hg
  cases hb : notBelow key kvs with
  | nil =>
    rw [hb] at hdrop hlook hins
    simp only [hlook, Spec.lookup, Option.isSome_none, Bool.false_and, Bool.false_eq_true, if_false,
      htake, hdrop, map_memberRaw_memberOf]
    have e : Fn.pushAll [] ((below key kvs).map rawMember) = (mergeKV [] (below key kvs)).map rawMember := by
      have := pushAll_raw [] (below key kvs); simpa using this
    rw [e, bInsert_raw, pushAll_raw,
      insert_split key new (below key kvs) [] hsa rfl hagt (by simp)]
    have e2 : insertKV key new kvs = below key kvs ++ [(key, new)] := by rw [hins]; rfl
    rw [e2] at hres hgres
    rw [e2]
    exact buildObjectInto_raw buf _ hres hgres
  | cons kv b =>
    obtain ⟨k, old⟩ := kv
    rw [hb] at hdrop hlook hins hpb hab
    have hhead : ¬ lexCmp key k = .gt := by
      have hne : notBelow key kvs ≠ [] := by rw [hb]; simp
      have := List.head_dropWhile_not (fun kv : Bytes × JV => lexCmp key kv.1 == .gt) (l := kvs) hne
      simp only [notBelow] at hb
      simp only [hb, List.head_cons] at this
      intro h; rw [h] at this; simp at this
    rw [List.pairwise_cons] at hpb
    have hsb : keysSorted b = true := (keysSorted_iff_pairwise _).mpr hpb.2
    by_cases he : key = k
    · subst he
      simp only [beq_self_eq_true, if_true, hlook, Spec.lookup, Option.isSome_some, Bool.true_and]
      cases update with
      | false => simp
      | true =>
        simp only [Bool.not_true, Bool.false_eq_true, if_false, if_true, htake, hdrop, List.drop_succ_cons,
          List.drop_zero, List.map_cons, map_memberRaw_memberOf]
        have e : Fn.pushAll [] ((below key kvs).map rawMember) = (mergeKV [] (below key kvs)).map rawMember := by
          have := pushAll_raw [] (below key kvs); simpa using this
        have hblt : ∀ kv ∈ b, lexCmp key kv.1 = .lt := fun kv hkv => hpb.1 kv hkv
        rw [e, bInsert_raw, pushAll_raw, insert_split key new (below key kvs) b hsa hsb hagt hblt]
        have e2 : insertKV key new kvs = below key kvs ++ (key, new) :: b := by
          rw [hins]; simp [insertKV, lexCmp_refl]
        rw [e2] at hres hgres
        rw [e2]
        exact buildObjectInto_raw buf _ hres hgres
    · have hne : (key == k) = false := by simpa using he
      have hne' : (k == key) = false := by simpa using (fun e : k = key => he e.symm)
      have hlt : lexCmp key k = .lt := by
        cases h : lexCmp key k with
        | lt => rfl
        | eq => exact absurd ((lexCmp_eq_iff key k).mp h) he
        | gt => exact absurd h hhead
      have hblt : ∀ kv ∈ (k, old) :: b, lexCmp key kv.1 = .lt := by
        intro kv hkv
        simp only [List.mem_cons] at hkv
        rcases hkv with h | h
        · subst h; exact hlt
        · exact lexCmp_lt_trans hlt (hpb.1 kv h)
      have hln : Spec.lookup key ((k, old) :: b) = none := lookup_none_of_lt key _ hblt
      simp only [hne, Bool.false_eq_true, if_false, hlook, hln, Option.isSome_none, Bool.false_and,
        htake, hdrop, map_memberRaw_memberOf]
      have e : Fn.pushAll [] ((below key kvs).map rawMember) = (mergeKV [] (below key kvs)).map rawMember := by
        have := pushAll_raw [] (below key kvs); simpa using this
      have hsb' : keysSorted ((k, old) :: b) = true :=
        (keysSorted_iff_pairwise _).mpr (List.pairwise_cons.mpr hpb)
      rw [e, bInsert_raw, pushAll_raw, insert_split key new (below key kvs) ((k, old) :: b) hsa hsb' hagt hblt]
      have e2 : insertKV key new kvs = below key kvs ++ (key, new) :: (k, old) :: b := by
        rw [hins]; simp [insertKV, hlt]
      rw [e2] at hres hgres
      rw [e2]
      exact buildObjectInto_raw buf _ hres hgres

theorem objectInsert_nonobj (v : JV) (hg : goodTop v = true) (hno : ∀ kvs, v ≠ obj kvs)
    (key newValue : Bytes) (update : Bool) (buf : Bytes) :
    Fn.objectInsert (encodeSpec v) key newValue update buf = .err "InvalidObject" := by
  simp only [Fn.objectInsert, readHdr v hg, hdrType_hdrOf v hg, ne_eq, kindOf_ne_obj v hno,
    not_false_eq_true, if_true]

/-- **object_insert**: insert / update / `ObjectDuplicateKey` / `InvalidObject` -/
theorem objectInsert_refines (v : JV) (hg : goodTop v = true) (key : Bytes) (new : JV) (update : Bool)
    (hnew : good new = true) (hk : key.length < 268435456) (hu : validUtf8 key = true)
    (hres : ∀ r, Spec.objectInsert v key new update = .ok r → goodTop r = true) (buf : Bytes) :
    Fn.objectInsert (encodeSpec v) key (encodeSpec new) update buf
      = match Spec.objectInsert v key new update with
        | .ok r => .ok (buf ++ encodeSpec r)
        | .error .duplicateKey => .err "ObjectDuplicateKey"
        | .error .invalidObject => .err "InvalidObject" := by
  by_cases ho : ∃ kvs, v = obj kvs
  · obtain ⟨kvs, rfl⟩ := ho
    simp only [goodTop, Bool.and_eq_true, decide_eq_true_eq] at hg
    by_cases hd : ((Spec.lookup key kvs).isSome && !update) = true
    · -- duplicate key: no size condition needed
      have hsp : Spec.objectInsert (obj kvs) key new update = .error .duplicateKey := by
        simp only [Spec.objectInsert, hd, if_true]
      -- reuse the object theorem with a trivially small instance is not possible; prove directly
      have hdr := readHdr (obj kvs) (by simp [goodTop, hg.1.1, hg.1.2, hg.2])
      simp only [hdrOf] at hdr
      rw [hsp]
      simp only [Fn.objectInsert, hdr, hdrType_obj _ hg.1.1, ne_eq, not_true_eq_false, if_false,
        iterObjKeys_doc kvs hg.1.1 hg.2, insertPos_spec]
      simp only [Bool.and_eq_true, Bool.not_eq_true'] at hd
      obtain ⟨hd1, hd2⟩ := hd
      subst hd2
      have hlook : Spec.lookup key kvs = Spec.lookup key (notBelow key kvs) := by
        have h := lookup_app_gt key (below key kvs) (notBelow key kvs) (below_allGt key kvs)
        rwa [below_append] at h
      rw [hlook] at hd1
      cases hb : notBelow key kvs with
      | nil => rw [hb] at hd1; simp [Spec.lookup] at hd1
      | cons kv b =>
        obtain ⟨k, old⟩ := kv
        by_cases he : key = k
        · subst he; simp
        · exfalso
          have hpw := (keysSorted_iff_pairwise kvs).mp hg.1.2
          rw [← below_append key kvs, List.pairwise_append, hb, List.pairwise_cons] at hpw
          have hhead : ¬ lexCmp key k = .gt := by
            have hne : notBelow key kvs ≠ [] := by rw [hb]; simp
            have := List.head_dropWhile_not (fun kv : Bytes × JV => lexCmp key kv.1 == .gt) (l := kvs) hne
            simp only [notBelow] at hb
            simp only [hb, List.head_cons] at this
            intro h; rw [h] at this; simp at this
          have hlt : lexCmp key k = .lt := by
            cases h : lexCmp key k with
            | lt => rfl
            | eq => exact absurd ((lexCmp_eq_iff key k).mp h) he
            | gt => exact absurd h hhead
          have hblt : ∀ kv ∈ (k, old) :: b, lexCmp key kv.1 = .lt := by
            intro kv hkv
            simp only [List.mem_cons] at hkv
            rcases hkv with h | h
            · subst h; exact hlt
            · exact lexCmp_lt_trans hlt (hpw.2.1.1 kv h)
          rw [hb, lookup_none_of_lt key _ hblt] at hd1
          simp at hd1
    · have hsp : Spec.objectInsert (obj kvs) key new update = .ok (obj (insertKV key new kvs)) := by
        simp only [Spec.objectInsert, hd, Bool.false_eq_true, if_false]
      have hr := hres _ hsp
      simp only [goodTop, Bool.and_eq_true, decide_eq_true_eq] at hr
      exact objectInsert_obj kvs hg.1.1 hg.1.2 hg.2 key new update hnew hk hu hr.1.1 buf
  · have hno : ∀ kvs, v ≠ obj kvs := fun kvs h => ho ⟨kvs, h⟩
    rw [objectInsert_nonobj v hg hno]
    cases v <;> first | rfl | exact absurd rfl (hno _)

/-! ### array_insert -/

/-- `Spec.arrayInsert` on the element list (`Spec.elems`: a non-array counts as one element) -/
def insAt (L : List JV) (pos : Int) (new : JV) : JV :=
  let n : Int := L.length
  let idx0 := if pos < 0 then n + pos else pos
  let idx : Nat := if idx0 < 0 then 0 else if idx0 > n then L.length else idx0.toNat
  arr (L.take idx ++ new :: L.drop idx)

theorem spec_arrayInsert_eq (v : JV) (pos : Int) (new : JV) :
    Spec.arrayInsert v pos new = insAt (Spec.elems v) pos new := by
  cases v <;> rfl

theorem goodL_take_drop (L : List JV) (i : Nat) : (goodL (L.take i) && goodL (L.drop i)) = goodL L := by
  rw [← goodL_append, List.take_append_drop]

theorem insert_core (L : List JV) (new : JV) (idx : Nat)
    (hn : (L.take idx ++ new :: L.drop idx).length < 536870912)
    (hg : goodL (L.take idx ++ new :: L.drop idx) = true) (buf : Bytes) :
    buildArrayInto buf ((L.map rawItem).take idx ++ rawItem new :: (L.map rawItem).drop idx)
      = .ok (buf ++ encodeSpec (arr (L.take idx ++ new :: L.drop idx))) := by
  have e : (L.map rawItem).take idx ++ rawItem new :: (L.map rawItem).drop idx
      = (L.take idx ++ new :: L.drop idx).map rawItem := by
    simp [List.map_take, List.map_drop]
  rw [e]
  exact buildArrayInto_raw buf _ hn hg

theorem addI32_ok (len pos : Int) (hl : 0 ≤ len ∧ len < 536870912) (hp : -2147483648 ≤ pos ∧ pos ≤ 2147483647) :
    (if pos < 0 then Fn.addI32 len pos else Res.ok pos) = Res.ok (if pos < 0 then len + pos else pos) := by
  by_cases h : pos < 0
  · simp only [h, if_true, Fn.addI32]; rw [if_pos (by omega)]
  · simp [h]

theorem docItems_spec (v : JV) (hna : ∀ vs, v ≠ arr vs) (hg : good v = true) :
    (if kindOf v = C.OBJECT_CONTAINER_TAG then Res.ok [Fn.containerEntry (encodeSpec v)]
      else (Fn.scalarEntry (encodeSpec v)).map (fun e => [e])) = .ok [rawItem v] := by
  cases hs : Spec.isScalar v with
  | true =>
    rw [kindOf_scalar v hs, if_neg (by decide), scalarEntry_spec v hs hg]; rfl
  | false =>
    cases v with
    | obj kvs => rw [kindOf, if_pos rfl, containerEntry_spec _ hs hg]
    | arr vs => exact absurd rfl (hna vs)
    | null => simp [Spec.isScalar] at hs
    | bool b => simp [Spec.isScalar] at hs
    | num n => simp [Spec.isScalar] at hs
    | str s => simp [Spec.isScalar] at hs

theorem elems_nonarr (v : JV) (hna : ∀ vs, v ≠ arr vs) : Spec.elems v = [v] := by
  cases v <;> first | rfl | exact absurd rfl (hna _)

/-- **array_insert** for every i32 position (negative from the end, clamped at both ends); an
object or scalar target counts as a one-element list; the new value may be a container or a
scalar -/
theorem arrayInsert_refines (v new : JV) (hg : goodTop v = true) (hnew : good new = true)
    (pos : Int) (hp : -2147483648 ≤ pos ∧ pos ≤ 2147483647)
    (hres : goodTop (Spec.arrayInsert v pos new) = true) (buf : Bytes) :
    Fn.arrayInsert (encodeSpec v) pos (encodeSpec new) buf
      = .ok (buf ++ encodeSpec (Spec.arrayInsert v pos new)) := by
  have hgn := goodTop_of_good new hnew
  rw [spec_arrayInsert_eq] at hres ⊢
  by_cases hva : ∃ vs, v = arr vs
  · obtain ⟨vs, rfl⟩ := hva
    simp only [goodTop, Bool.and_eq_true, decide_eq_true_eq] at hg
    have hdr := readHdr (arr vs) (by simp [goodTop, hg.1, hg.2])
    simp only [hdrOf] at hdr
    simp only [Fn.arrayInsert, hdr, hdrType_arr _ hg.1, hdrLen_arr _ hg.1, if_true,
      addI32_ok (vs.length : Int) pos (by omega) hp, iterArray_doc vs hg.1 hg.2, Res.map, Res.bind,
      map_rawOf_itemOf, readHdr new hgn, newEntry_spec new hnew]
    simp only [Spec.elems, insAt, goodTop, Bool.and_eq_true, decide_eq_true_eq] at hres ⊢
    have e : (vs.length : Int).toNat = vs.length := by simp
    rw [e]
    exact insert_core vs new _ hres.1 hres.2 buf
  · have hna : ∀ vs, v ≠ arr vs := fun vs h => hva ⟨vs, h⟩
    rw [elems_nonarr v hna] at hres ⊢
    simp only [insAt, goodTop, Bool.and_eq_true, decide_eq_true_eq] at hres
    have hgv : good v = true := by
      have h1 := hres.2
      rw [goodL_append] at h1
      simp only [goodL, Bool.and_eq_true] at h1
      have h2 := goodL_take_drop [v]
        (if (if pos < 0 then ((1 : Nat) : Int) + pos else pos) < 0 then 0
          else if (if pos < 0 then ((1 : Nat) : Int) + pos else pos) > ((1 : Nat) : Int) then 1
          else (if pos < 0 then ((1 : Nat) : Int) + pos else pos).toNat)
      simp only [List.length_cons, List.length_nil, Nat.zero_add] at h1
      rw [h1.1, h1.2.2] at h2
      simpa [goodL] using h2.symm
    simp only [Fn.arrayInsert, readHdr v hg, hdrType_hdrOf v hg, kindOf_ne_arr v hna, if_false,
      addI32_ok 1 pos (by omega) hp, docItems_spec v hna hgv, readHdr new hgn, newEntry_spec new hnew]
    simp only [insAt, List.length_cons, List.length_nil, Nat.zero_add] at hres ⊢
    have e : (1 : Int).toNat = 1 := rfl
    have e1 : ((1 : Nat) : Int) = 1 := rfl
    rw [e]
    simp only [e1] at hres ⊢
    have := insert_core [v] new _ hres.1 hres.2 buf
    simpa using this

/-! ### build_array / build_object -/

theorem partOf_spec (v : JV) (hg : good v = true) :
    Fn.partOf (encodeSpec v) = .ok (u32be (entry v).1, (entry v).2) := by
  have hgt := goodTop_of_good v hg
  have hl := elen_lt_of_good v hg
  unfold Fn.partOf
  rw [readHdr v hgt]
  simp only [hdrType_hdrOf v hgt]
  cases hs : Spec.isScalar v with
  | true =>
    rw [kindOf_scalar v hs, if_pos rfl, encodeSpec_scalar v hs]
    have h1 : slice (u32be C.SCALAR_CONTAINER_TAG ++ (u32be (entry v).1 ++ (entry v).2)) 4 8 = .ok (u32be (entry v).1) :=
      slice_mid' _ _ _ 4 8 (by simp) (by simp)
    have h2 : sliceFrom (u32be C.SCALAR_CONTAINER_TAG ++ (u32be (entry v).1 ++ (entry v).2)) 8 = .ok (entry v).2 := by
      unfold sliceFrom
      rw [if_pos (by simp; omega)]
      rw [← List.append_assoc, List.drop_left' (by simp)]
    simp only [h1, h2]
  | false =>
    have hk := kindOf_container v hs
    have hns : ¬ kindOf v = C.SCALAR_CONTAINER_TAG := by
      rcases hk with h | h <;> rw [h] <;> decide
    rw [if_neg hns, if_pos hk, encodeSpec_container v hs]
    have e : (entry v).2.length = elen v := rfl
    have hw : C.CONTAINER_TAG ||| (elen v % 4294967296) = (entry v).1 := by
      have h1 := lor_eq_add_entry v hl
      have h2 : ety v = C.CONTAINER_TAG := by
        cases v <;> first | rfl | simp [Spec.isScalar] at hs
      rw [h2] at h1
      simpa [jentryWord] using h1
    rw [e, hw]

theorem partsOf_spec (vs : List JV) (hg : goodL vs = true) :
    Fn.partsOf (vs.map encodeSpec) = .ok (wordsL vs, paysL vs) := by
  induction vs with
  | nil => rfl
  | cons v vs ih =>
    simp only [goodL, Bool.and_eq_true] at hg
    simp only [List.map_cons, Fn.partsOf, partOf_spec v hg.1, ih hg.2, Res.map, Res.bind, wordsL, paysL]

/-- **build_array** of complete documents -/
theorem buildArray_refines (vs : List JV) (hn : vs.length < 536870912) (hg : goodL vs = true) (buf : Bytes) :
    Fn.buildArray (vs.map encodeSpec) buf = .ok (buf ++ encodeSpec (Spec.buildArray vs)) := by
  have hw : C.ARRAY_CONTAINER_TAG ||| (vs.length % 4294967296) = C.ARRAY_CONTAINER_TAG + vs.length := by
    have := headerWord_eq 4 vs.length hn
    rw [← tag_arr'] at this
    simpa [headerWord] using this
  simp only [Fn.buildArray, partsOf_spec vs hg, List.length_map, hw, Spec.buildArray, encodeSpec, entry]

/-- the `BTreeMap<String, &[u8]>` of `build_object` simulates `insertKV` -/
def docMember (kv : Bytes × JV) : Bytes × Bytes := (kv.1, encodeSpec kv.2)

theorem insertDoc_sim (k : Bytes) (v : JV) (m : List (Bytes × JV)) :
    Fn.insertDoc k (encodeSpec v) (m.map docMember) = (insertKV k v m).map docMember := by
  induction m with
  | nil => rfl
  | cons kv' m ih =>
    obtain ⟨k', v'⟩ := kv'
    simp only [List.map_cons, docMember, Fn.insertDoc, insertKV]
    cases lexCmp k k' with
    | lt => rfl
    | eq => rfl
    | gt =>
      simp only [List.map_cons, docMember]
      rw [ih]

theorem foldl_insertDoc_sim (m es : List (Bytes × JV)) :
    (es.map docMember).foldl (fun m kv => Fn.insertDoc kv.1 kv.2 m) (m.map docMember)
      = (mergeKV m es).map docMember := by
  induction es generalizing m with
  | nil => rfl
  | cons kv es ih =>
    simp only [List.map_cons, List.foldl_cons, mergeKV]
    have h := insertDoc_sim kv.1 kv.2 m
    have e1 : (docMember kv).1 = kv.1 := rfl
    have e2 : (docMember kv).2 = encodeSpec kv.2 := rfl
    rw [e1, e2, h]
    exact ih _

theorem partsOfK_spec (kvs : List (Bytes × JV)) (hg : goodK kvs = true) :
    Fn.partsOf ((kvs.map docMember).map (·.2)) = .ok (wordsK kvs, paysK kvs) := by
  induction kvs with
  | nil => rfl
  | cons kv kvs ih =>
    obtain ⟨k, v⟩ := kv
    simp only [goodK, Bool.and_eq_true] at hg
    simp only [List.map_cons, docMember, Fn.partsOf, partOf_spec v hg.1.2, Res.map, Res.bind, wordsK, paysK]
    have := ih hg.2
    simp only [List.map_map] at this ⊢
    rw [this]

theorem keyWords_flatten (kvs : List (Bytes × JV)) (hg : goodK kvs = true) :
    (((kvs.map docMember).map (fun kv => u32be (C.STRING_TAG ||| (kv.1.length % 4294967296)))).flatten)
      = keyWords kvs := by
  induction kvs with
  | nil => rfl
  | cons kv kvs ih =>
    obtain ⟨k, v⟩ := kv
    simp only [goodK, Bool.and_eq_true, decide_eq_true_eq] at hg
    have hw : C.STRING_TAG ||| (k.length % 4294967296) = C.STRING_TAG + k.length := by
      have := jentryWord_key k hg.1.1.1
      simpa [jentryWord] using this
    simp only [List.map_cons, List.flatten_cons, docMember, hw, keyWords]
    rw [ih hg.2]

theorem keyBytes_flatten (kvs : List (Bytes × JV)) :
    (((kvs.map docMember).map (·.1)).flatten) = keyBytes kvs := by
  induction kvs with
  | nil => rfl
  | cons kv kvs ih =>
    obtain ⟨k, v⟩ := kv
    simp only [List.map_cons, List.flatten_cons, docMember, keyBytes]
    rw [ih]

/-- **build_object** from `(key, document)` pairs in ANY order, repeated keys allowed (the last
one wins): the canonical sorted object -/
theorem buildObject_refines (kvs : List (Bytes × JV)) (hg : goodK kvs = true)
    (hn : (mkObj kvs).length < 536870912) (buf : Bytes) :
    Fn.buildObject (kvs.map docMember) buf = .ok (buf ++ encodeSpec (Spec.buildObject kvs)) := by
  have hm : (kvs.map docMember).foldl (fun m kv => Fn.insertDoc kv.1 kv.2 m) [] = (mkObj kvs).map docMember := by
    have := foldl_insertDoc_sim [] kvs
    simpa [mkObj_eq_mergeKV] using this
  have hgm : goodK (mkObj kvs) = true := mergeKV_good [] kvs rfl hg
  have hw : C.OBJECT_CONTAINER_TAG ||| ((mkObj kvs).length % 4294967296) = C.OBJECT_CONTAINER_TAG + (mkObj kvs).length := by
    have := headerWord_eq 2 (mkObj kvs).length hn
    rw [← tag_obj'] at this
    simpa [headerWord] using this
  simp only [Fn.buildObject, hm, partsOfK_spec _ hgm, keyWords_flatten _ hgm, keyBytes_flatten, List.length_map, hw,
    Spec.buildObject, encodeSpec, entry]

end Jsonb
