/-
Agreement theorems, phase 6d, part 1: the hand-written scanners of jsonpath/parser.rs translated from source by
tools/rs2lean6d.py (`Generated/Translated6d.lean`) EQUAL the model functions of `PathParser.lean`:
`check_escaped` (= `checkEscaped` on the unread suffix), the scanning loops of `raw_string` / `string` (= `scan`, same
fuel discipline), `raw_string` (= `rawString`) and `string` (= `PathParser.string`) for every input shorter than
2^63 bytes and every callee `parse_string__` that answers like the model's `PathStr.parseString` (`PSpec`).
-/
import JsonbModel.Generated.Translated6d
import JsonbModel.Proofs.RustPrelude2Lemmas
import JsonbModel.Proofs.PathStrTotal
import JsonbModel.PathParser

set_option linter.unusedSimpArgs false
set_option linter.unusedVariables false

namespace Jsonb.TrAgree
open Jsonb.Rs

theorem pp_len_append_nat (a b : Bytes) : Rs.len (a ++ b) = (a.length : Int) + (b.length : Int) := by
  simp [Rs.len]

/-- `s[k]` inside the buffer, `k` spelled in any way -/
theorem pp_index_off (pre rem : Bytes) (k : Int) (j : Nat) (x : UInt8) (hk : k = (pre.length : Int) + (j : Int))
    (h : rem[j]? = some x) : Rs.index (pre ++ rem) k = .ok ((x.toNat : Nat) : Int) := by
  subst hk
  unfold Rs.index
  have h0 : ¬ ((pre.length : Int) + (j : Int) < 0) := by omega
  rw [if_neg h0]
  have e : ((pre.length : Int) + (j : Int)).toNat = pre.length + j := by omega
  rw [e, List.getElem?_append_right (by omega)]
  simp [h]

theorem pp_ite_decide_pos {α : Sort _} (p : Prop) [Decidable p] (h : p) (a b : α) :
    (if decide p = true then a else b) = a := by simp [h]
theorem pp_ite_decide_neg {α : Sort _} (p : Prop) [Decidable p] (h : ¬ p) (a b : α) :
    (if decide p = true then a else b) = b := by simp [h]

theorem check_escaped_split (pre rem : Bytes) (hrem : rem ≠ [])
    (hlen : pre.length + rem.length < 9223372036854775808) :
    Tr.check_escaped (pre ++ rem) (pre.length : Int) =
      .ok (match PathParser.checkEscaped rem with
           | none => (false, (pre.length : Int))
           | some k => (true, ((pre.length + k : Nat) : Int))) := by
  unfold Tr.check_escaped
  have hU : (C.UNICODE_LEN : Int) = 4 := rfl
  rcases rem with _ | ⟨x, _ | ⟨c, rest⟩⟩
  · exact absurd rfl hrem
  · simp only [List.length_cons, List.length_nil] at hlen
    simp (disch := omega) only [Rs.add_usize_ok', pp_len_append_nat, List.length_cons, List.length_nil, Ctl.ofRes_ok',
      Ctl.val_bind', pp_ite_decide_pos, Ctl.ret_bind', Ctl.run_ret', PathParser.checkEscaped]
  · simp only [List.length_cons] at hlen
    have e1 := pp_index_off pre (x :: c :: rest) ((pre.length : Int) + 1) 1 c (by omega) rfl
    simp (disch := omega) only [Rs.add_usize_ok', pp_len_append_nat, List.length_cons, Ctl.ofRes_ok', Ctl.val_bind', e1, hU,
      pp_ite_decide_neg, Ctl.pure_eq']
    by_cases hc : c = 117
    · subst hc
      have h117 : ((UInt8.toNat 117 : Nat) : Int) = 117 := rfl
      simp only [h117, decide_true, if_true]
      by_cases h3 : rest.length ≤ 3
      · simp (disch := omega) only [pp_ite_decide_pos, Ctl.ret_bind', Ctl.run_ret']
        simp [PathParser.checkEscaped, h3]
      · obtain ⟨a, rest', rfl⟩ : ∃ a rest', rest = a :: rest' := by
          cases rest with
          | nil => simp at h3
          | cons a r => exact ⟨a, r, rfl⟩
        simp only [List.length_cons] at h3 hlen
        have e2 := pp_index_off pre (x :: 117 :: a :: rest') ((pre.length : Int) + 2) 2 a (by omega) rfl
        simp (disch := omega) only [pp_ite_decide_neg, List.length_cons, Ctl.val_bind', e2, Ctl.ofRes_ok']
        have hm1 : ¬ (rest'.length + 1 + 1 + 1 ≤ 5) := by omega
        by_cases ha : a = 123
        · subst ha
          have h123 : ((UInt8.toNat 123 : Nat) : Int) = 123 := rfl
          simp only [h123, decide_true, if_true]
          by_cases h7 : rest'.length ≤ 4
          · simp (disch := omega) only [pp_ite_decide_pos, Ctl.ret_bind', Ctl.run_ret']
            have hm2 : rest'.length + 1 + 1 + 1 ≤ 7 := by omega
            simp [PathParser.checkEscaped, hm1, hm2]
          · simp (disch := omega) only [pp_ite_decide_neg, Ctl.val_bind', Ctl.run_ret']
            have hm2 : ¬ (rest'.length + 1 + 1 + 1 ≤ 7) := by omega
            simp [PathParser.checkEscaped, hm1, hm2]
        · have ha' : ¬ (((a.toNat : Nat) : Int) = 123) := by
            intro h; apply ha; apply UInt8.toNat_inj.mp; simp; omega
          simp only [ha', decide_false, Bool.false_eq_true, if_false, Ctl.val_bind', Ctl.run_ret']
          simp [PathParser.checkEscaped, hm1, ha]
    · have hc' : ¬ (((c.toNat : Nat) : Int) = 117) := by
        intro h; apply hc; apply UInt8.toNat_inj.mp; simp; omega
      simp only [hc', decide_false, Bool.false_eq_true, if_false, Ctl.val_bind', Ctl.run_ret']
      simp [PathParser.checkEscaped, hc]


theorem pp_ite_not_decide_pos {α : Sort _} (p : Prop) [Decidable p] (h : ¬ p) (a b : α) :
    (if (!decide p) = true then a else b) = a := by simp [h]
theorem pp_ite_not_decide_neg {α : Sort _} (p : Prop) [Decidable p] (h : p) (a b : α) :
    (if (!decide p) = true then a else b) = b := by simp [h]

/-- one iteration of the scanning loop of `raw_string`, as a function of the unread suffix -/
def scanStep (stop : UInt8 → Bool) (pre rem : Bytes) (e : Nat) :
    Ctl (Bytes × Bytes) (Rs.Step (Int × Int)) :=
  match rem with
  | [] => .val (.done ((e : Int), (pre.length : Int)))
  | c :: r =>
    if c == 92 then
      match PathParser.checkEscaped (c :: r) with
      | none => .ret (.err "Error")
      | some k => .val (.next (((e + 1 : Nat) : Int), ((pre.length + k : Nat) : Int)))
    else if stop c then .val (.done ((e : Int), (pre.length : Int)))
    else .val (.next ((e : Int), ((pre.length + 1 : Nat) : Int)))

theorem raw_loop1_step (pre rem : Bytes) (e : Nat) (hlen : pre.length + rem.length < 9223372036854775808)
    (he : e ≤ pre.length) :
    Tr.raw_string.loop1 (pre ++ rem) ((e : Int), (pre.length : Int)) = scanStep PathParser.isRawDelim pre rem e := by
  unfold Tr.raw_string.loop1 scanStep
  cases rem with
  | nil =>
    simp (disch := omega) only [pp_len_append_nat, List.length_nil, pp_ite_not_decide_pos, Ctl.ret_bind', Rs.loopStep_brk']
  | cons c r =>
    simp only [List.length_cons] at hlen
    have e0 := pp_index_off pre (c :: r) (pre.length : Int) 0 c (by omega) rfl
    simp (disch := omega) only [pp_len_append_nat, List.length_cons, pp_ite_not_decide_neg, Ctl.pure_eq', Ctl.val_bind', e0, Ctl.ofRes_ok']
    by_cases hc : c = 92
    · subst hc
      have h92 : ((UInt8.toNat 92 : Nat) : Int) = 92 := rfl
      have hce := check_escaped_split pre (92 :: r) (by simp) (by simp only [List.length_cons]; omega)
      simp (disch := omega) only [h92, decide_true, if_true, Rs.add_usize_ok', Ctl.ofRes_ok', Ctl.val_bind', hce, beq_self_eq_true]
      cases hk : PathParser.checkEscaped (92 :: r) with
      | none => simp only [Bool.not_false, if_true, Ctl.ret_bind', Rs.loopStep_err']
      | some k => 
        simp only [Bool.not_true, Bool.false_eq_true, if_false, Ctl.pure_eq', Ctl.val_bind', Rs.loopStep_val']
        simp only [Ctl.val.injEq, Rs.Step.next.injEq, Prod.mk.injEq]; constructor <;> first | exact True.intro | (push_cast; first | rfl | exact Int.add_comm _ _) | omega
    · have hcn : c.toNat ≠ 92 := fun h => hc (UInt8.toNat_inj.mp (by simpa using h))
      have hc' : ¬ (((c.toNat : Nat) : Int) = 92) := by omega
      have hb : (c == 92) = false := by simpa using hc
      simp only [hc', decide_false, Bool.false_eq_true, if_false, hb]
      split
      · rename_i h
        have hd : PathParser.isRawDelim c = true := by
          simp only [Bool.or_eq_true, decide_eq_true_eq] at h
          simp only [PathParser.isRawDelim, PathParser.rawDelims, List.contains_cons, List.contains_nil, Bool.or_false,
            Bool.or_eq_true, beq_iff_eq, ← UInt8.toNat_inj, UInt8.toNat_ofNat]
          omega
        simp only [hd, if_true, Ctl.ret_bind', Rs.loopStep_brk']
      · rename_i h
        have hd : PathParser.isRawDelim c = false := by
          rw [← Bool.not_eq_true]
          intro hd; apply h
          simp only [Bool.or_eq_true, decide_eq_true_eq]
          simp only [PathParser.isRawDelim, PathParser.rawDelims, List.contains_cons, List.contains_nil, Bool.or_false,
            Bool.or_eq_true, beq_iff_eq, ← UInt8.toNat_inj, UInt8.toNat_ofNat] at hd
          omega
        simp (disch := omega) only [hd, Bool.false_eq_true, if_false, Rs.add_usize_ok', Ctl.ofRes_ok', Ctl.val_bind', Ctl.pure_eq', Rs.loopStep_val']
        simp only [Ctl.val.injEq, Rs.Step.next.injEq, Prod.mk.injEq]; constructor <;> first | exact True.intro | (push_cast; first | rfl | exact Int.add_comm _ _) | omega

def scanOut (r : Res (Nat × Nat)) : Ctl (Bytes × Bytes) (Int × Int) :=
  match r with
  | .ok (i', e') => .val ((e' : Int), (i' : Int))
  | .err _ => .ret (.err "Error")
  | .panic s => .ret (.panic s)
  | .fuel => .ret .fuel

theorem scan_run (stop : UInt8 → Bool) (loop : Int × Int → Ctl (Bytes × Bytes) (Step (Int × Int))) (input : Bytes)
    (hstep : ∀ pre rem e, input = pre ++ rem → e ≤ pre.length →
      loop ((e : Int), (pre.length : Int)) = scanStep stop pre rem e) :
    ∀ (n : Nat) (pre rem : Bytes) (e : Nat), input = pre ++ rem → e ≤ pre.length →
      Rs.whileFuel n ((e : Int), (pre.length : Int)) loop = scanOut (PathParser.scan stop n rem pre.length e) := by
  intro n
  induction n with
  | zero => intro pre rem e _ _; simp [Rs.whileFuel, PathParser.scan, scanOut]
  | succ n ih =>
    intro pre rem e hin he
    rw [Rs.whileFuel, hstep pre rem e hin he]
    cases rem with
    | nil => simp [scanStep, PathParser.scan, scanOut]
    | cons c r =>
      unfold scanStep PathParser.scan
      by_cases hc : (c == 92) = true
      · simp only [hc, if_true]
        cases hk : PathParser.checkEscaped (c :: r) with
        | none => simp [scanOut]
        | some k =>
          have hb := PathStr.checkEscaped_bounds _ _ hk
          have := ih (pre ++ (c :: r).take k) ((c :: r).drop k) (e + 1) (by simp [hin]) (by simp; omega)
          simp only [List.length_append, List.length_take, Nat.min_eq_left hb.2] at this
          simp only [this]
      · simp only [hc, Bool.false_eq_true, if_false]
        by_cases hs : stop c = true
        · simp [hs, scanOut]
        · simp only [hs, Bool.false_eq_true, if_false]
          have := ih (pre ++ [c]) r e (by simp [hin]) (by simp; omega)
          simp only [List.length_append, List.length_cons, List.length_nil] at this
          simp only [this]

/-- what the scanners need of the callee `util::parse_string`: called on `data` (with any capacity hint `len` and any
error position `idx`) it answers what the model's `PathStr.parseString data` answers, error values aside; only asked on data all of whose escapes passed `check_escaped` (`EscOK`), with a capacity hint
between 0 and the length of the data and the error position 0 or 1: what the two scanners pass -/
def PSpec (ps : Bytes → Int → Int → Res (Bytes × Int)) : Prop :=
  ∀ (data : Bytes) (len idx : Int) (rest : Bytes), PathStr.EscOK data → data.length < 9223372036854775808 →
    0 ≤ len ∧ len ≤ (data.length : Int) → 0 ≤ idx ∧ idx ≤ 1 →
    PathParser.ofRes ((ps data len idx).map Prod.fst) rest = PathParser.ofRes (PathStr.parseString data) rest

/-- the model's `parse_string` as a callee: the string and the (unused) error position -/
def psModel (data : Bytes) (len idx : Int) : Res (Bytes × Int) := (PathStr.parseString data).map (fun s => (s, idx))

theorem pspec_model : PSpec psModel := by
  intro data len idx rest _ _ _ _
  unfold psModel
  cases PathStr.parseString data <;> rfl

theorem pp_sliceTo_nat (s : Bytes) (b : Int) (n : Nat) (hb : b = (n : Int)) (h : n ≤ s.length) : Rs.sliceTo s b = .ok (s.take n) := by
  subst hb; unfold Rs.sliceTo; rw [if_pos (by omega)]; simp
theorem pp_sliceFrom_nat (s : Bytes) (b : Int) (n : Nat) (hb : b = (n : Int)) (h : n ≤ s.length) : Rs.sliceFrom s b = .ok (s.drop n) := by
  subst hb; unfold Rs.sliceFrom; rw [if_pos (by omega)]; simp

/-- what `raw_string` / `string` return after the call of the callee -/
def psOut (r : Res (Bytes × Int)) (rest : Bytes) : Res (Bytes × Bytes) :=
  match r with
  | .ok (s, _) => .ok (rest, s)
  | .err _ => .err "Error"
  | .panic s => .panic s
  | .fuel => .fuel

/-- the tail of `raw_string` / `string` from the call of the callee on, whatever the capacity hint `len` is spelled like -/
theorem ps_bind {α : Type} (ps : Bytes → Int → Int → Res (Bytes × Int)) (data : Bytes) (len idx : Int) (rest : Bytes) :
    ((Ctl.ofRes (Rs.mapErr (ps data len idx) "Error") : Ctl (Bytes × Bytes) (Bytes × Int)) >>= fun x =>
      (Ctl.ret (Res.ok (rest, x.fst)) : Ctl (Bytes × Bytes) α)) = Ctl.ret (psOut (ps data len idx) rest) := by
  cases ps data len idx with
  | ok a => obtain ⟨s, i⟩ := a; rfl
  | err e => rfl
  | panic s => rfl
  | fuel => rfl

theorem ps_out_eq (ps : Bytes → Int → Int → Res (Bytes × Int)) (hps : PSpec ps) (data : Bytes) (len idx : Int) (rest : Bytes)
    (hd : PathStr.EscOK data) (hl : data.length < 9223372036854775808) (hlen : 0 ≤ len ∧ len ≤ (data.length : Int))
    (hidx : 0 ≤ idx ∧ idx ≤ 1) :
    Rs.toPR (psOut (ps data len idx) rest) = PathParser.ofRes (PathStr.parseString data) rest := by
  rw [← hps data len idx rest hd hl hlen hidx]
  cases ps data len idx with
  | ok a => obtain ⟨s, i⟩ := a; rfl
  | err e => rfl
  | panic s => rfl
  | fuel => rfl

theorem raw_string_agrees (ps : Bytes → Int → Int → Res (Bytes × Int)) (hps : PSpec ps) (input : Bytes)
    (hlen : input.length < 9223372036854775808) :
    Rs.toPR (Tr.raw_string ps input) = PathParser.rawString input := by
  unfold Tr.raw_string PathParser.rawString PathParser.rawScan
  have hrun := scan_run PathParser.isRawDelim (Tr.raw_string.loop1 input) input
    (fun pre rem e hin he => by subst hin; exact raw_loop1_step pre rem e (by simpa using hlen) he)
    (input.length + 1) [] input 0 rfl (by simp)
  have hn : (Rs.len input).toNat + 1 = input.length + 1 := by simp [Rs.len]
  simp only [Ctl.val_bind', Ctl.pure_eq', hn]
  have hrun' : Rs.whileFuel (input.length + 1) ((0 : Int), (0 : Int)) (Tr.raw_string.loop1 input) =
      scanOut (PathParser.scan PathParser.isRawDelim (input.length + 1) input 0 0) := hrun
  rw [hrun']
  cases hs : PathParser.scan PathParser.isRawDelim (input.length + 1) input 0 0 with
  | ok a =>
    obtain ⟨i, e⟩ := a
    have ⟨_, h2, h3, h4⟩ := PathParser.scan_spec _ _ _ _ _ _ _ hs
    simp only [Nat.sub_zero] at h2 h4
    simp only [scanOut, Ctl.val_bind']
    have hst := pp_sliceTo_nat input (i : Int) i rfl h2
    have hsf := pp_sliceFrom_nat input (i : Int) i rfl h2
    by_cases hi : i > 0
    · have hi' : ((i : Int) > 0) := by omega
      have hnl : ¬ (i > input.length) := by omega
      simp only [hi, hi', decide_true, if_true, hnl, if_false, hst, hsf, Ctl.ofRes_ok', Ctl.val_bind']
      by_cases he : e = 0
      · subst he
        simp only [Int.natCast_zero, decide_true, if_true, beq_self_eq_true]
        unfold Rs.strFromUtf8
        by_cases hv : validUtf8 (input.take i) = true
        · simp [hv, Rs.resOpt, Rs.toPR]
        · simp [hv, Rs.resOpt, Rs.toPR]
      · have he' : ¬ ((e : Int) = 0) := by omega
        have hb : (e == 0) = false := by simpa using he
        have hne : ¬ (e > i) := by omega
        simp (disch := omega) only [he', decide_false, Bool.false_eq_true, if_false, hb, hne, Rs.sub_usize_ok', Ctl.ofRes_ok', Ctl.val_bind']
        simp only [ps_bind, Ctl.ret_bind', Ctl.run_ret']
        exact ps_out_eq ps hps _ _ _ _ h4 (by simp only [List.length_take]; omega) (by simp only [List.length_take]; omega) (by omega)
    · have hi' : ¬ ((i : Int) > 0) := by omega
      simp [hi, hi', Rs.toPR]
  | err e => simp [scanOut, Rs.toPR]
  | panic s => simp [scanOut, Rs.toPR]
  | fuel => simp [scanOut, Rs.toPR]

theorem string_loop1_step (pre rem : Bytes) (e : Nat) (hlen : pre.length + rem.length < 9223372036854775808)
    (he : e ≤ pre.length) :
    Tr.string.loop1 (pre ++ rem) ((e : Int), (pre.length : Int)) = scanStep (fun c => c == 34) pre rem e := by
  unfold Tr.string.loop1 scanStep
  cases rem with
  | nil =>
    simp (disch := omega) only [pp_len_append_nat, List.length_nil, pp_ite_not_decide_pos, Ctl.ret_bind', Rs.loopStep_brk']
  | cons c r =>
    simp only [List.length_cons] at hlen
    have e0 := pp_index_off pre (c :: r) (pre.length : Int) 0 c (by omega) rfl
    simp (disch := omega) only [pp_len_append_nat, List.length_cons, pp_ite_not_decide_neg, Ctl.pure_eq', Ctl.val_bind', e0, Ctl.ofRes_ok']
    by_cases hc : c = 92
    · subst hc
      have h92 : ((UInt8.toNat 92 : Nat) : Int) = 92 := rfl
      have hce := check_escaped_split pre (92 :: r) (by simp) (by simp only [List.length_cons]; omega)
      simp (disch := omega) only [h92, decide_true, if_true, Rs.add_usize_ok', Ctl.ofRes_ok', Ctl.val_bind', hce, beq_self_eq_true]
      cases hk : PathParser.checkEscaped (92 :: r) with
      | none => simp only [Bool.not_false, if_true, Ctl.ret_bind', Rs.loopStep_err']
      | some k =>
        simp only [Bool.not_true, Bool.false_eq_true, if_false, Ctl.pure_eq', Ctl.val_bind', Rs.loopStep_val']
        simp only [Ctl.val.injEq, Rs.Step.next.injEq, Prod.mk.injEq]; constructor <;> first | exact True.intro | (push_cast; first | rfl | exact Int.add_comm _ _) | omega
    · have hcn : c.toNat ≠ 92 := fun h => hc (UInt8.toNat_inj.mp (by simpa using h))
      have hc' : ¬ (((c.toNat : Nat) : Int) = 92) := by omega
      have hb : (c == 92) = false := by simpa using hc
      simp only [hc', decide_false, Bool.false_eq_true, if_false, hb]
      split
      · rename_i h
        have hd : (c == 34) = true := by
          simp only [Bool.or_eq_true, decide_eq_true_eq] at h
          simp only [beq_iff_eq, ← UInt8.toNat_inj, UInt8.toNat_ofNat]
          omega
        simp only [hd, if_true, Ctl.ret_bind', Rs.loopStep_brk']
      · rename_i h
        have hd : (c == 34) = false := by
          rw [← Bool.not_eq_true]
          intro hd; apply h
          simp only [Bool.or_eq_true, decide_eq_true_eq]
          simp only [beq_iff_eq, ← UInt8.toNat_inj, UInt8.toNat_ofNat] at hd
          omega
        simp (disch := omega) only [hd, Bool.false_eq_true, if_false, Rs.add_usize_ok', Ctl.ofRes_ok', Ctl.val_bind', Ctl.pure_eq', Rs.loopStep_val']
        simp only [Ctl.val.injEq, Rs.Step.next.injEq, Prod.mk.injEq]; constructor <;> first | exact True.intro | (push_cast; first | rfl | exact Int.add_comm _ _) | omega

theorem string_agrees (ps : Bytes → Int → Int → Res (Bytes × Int)) (hps : PSpec ps) (input : Bytes)
    (hlen : input.length < 9223372036854775808) :
    Rs.toPR (Tr.string ps input) = PathParser.string input := by
  unfold Tr.string PathParser.string PathParser.strScan
  cases input with
  | nil => simp [Rs.isEmpty, Rs.toPR]
  | cons q body =>
    simp only [List.length_cons] at hlen
    have e0 := pp_index_off [] (q :: body) 0 0 q (by simp) rfl
    simp only [List.nil_append] at e0
    have hemp : Rs.isEmpty (q :: body) = false := by simp [Rs.isEmpty]
    simp only [hemp, Bool.false_eq_true, if_false, e0, Ctl.ofRes_ok', Ctl.val_bind', Ctl.pure_eq']
    by_cases hq : q = 34
    · subst hq
      have h34 : ((UInt8.toNat 34 : Nat) : Int) = 34 := rfl
      have hne : ¬ ((34 : UInt8) != 34) = true := by simp
      simp only [h34, ne_eq, not_true_eq_false, decide_false, Bool.false_eq_true, if_false, hne]
      have hrun := scan_run (fun c => c == 34) (Tr.string.loop1 (34 :: body)) (34 :: body)
        (fun pre rem e hin he => by rw [hin]; exact string_loop1_step pre rem e (by rw [← List.length_append, ← hin]; simp; omega) he)
        (body.length + 1 + 1) [34] body 0 rfl (by simp)
      have hn : (Rs.len ((34 : UInt8) :: body)).toNat + 1 = body.length + 1 + 1 := by simp [Rs.len]
      have hrun' : Rs.whileFuel (body.length + 1 + 1) ((0 : Int), (1 : Int)) (Tr.string.loop1 (34 :: body)) =
          scanOut (PathParser.scan (fun c => c == 34) (body.length + 1 + 1) body 1 0) := hrun
      simp only [hn, List.length_cons]
      rw [hrun']
      cases hs : PathParser.scan (fun c => c == 34) (body.length + 1 + 1) body 1 0 with
      | ok a =>
        obtain ⟨i, e⟩ := a
        have ⟨h1, h2, h3, h4⟩ := PathParser.scan_spec _ _ _ _ _ _ _ hs
        simp only [scanOut, Ctl.val_bind']
        have hL : Rs.len ((34 : UInt8) :: body) = (body.length : Int) + 1 := by simp [Rs.len]
        rw [hL]
        by_cases hi : i < body.length + 1
        · have hi' : ((i : Int) < (body.length : Int) + 1) := by omega
          have hsl : Rs.slice ((34 : UInt8) :: body) 1 (i : Int) = .ok (List.drop 1 (List.take i (34 :: body))) := by
            have := Rs.slice_nat ((34 : UInt8) :: body) 1 i
            rw [if_pos (by simp only [List.length_cons]; omega), ← List.drop_take] at this
            exact this
          have hsf := pp_sliceFrom_nat ((34 : UInt8) :: body) ((i : Int) + 1) (i + 1) (by omega) (by simp only [List.length_cons]; omega)
          simp (disch := omega) only [hi, hi', decide_true, if_true, hsl, hsf, Ctl.ofRes_ok', Ctl.val_bind', Rs.add_usize_ok']
          have hd : PathStr.EscOK (List.drop 1 (List.take i ((34 : UInt8) :: body))) := by
            obtain ⟨m, rfl⟩ : ∃ m, i = m + 1 := ⟨i - 1, by omega⟩
            simpa using h4
          have hdl : (List.drop 1 (List.take i ((34 : UInt8) :: body))).length = i - 1 := by
            simp only [List.length_drop, List.length_take, List.length_cons]; omega
          generalize List.drop 1 (List.take i ((34 : UInt8) :: body)) = d at hd hdl ⊢
          generalize List.drop (i + 1) ((34 : UInt8) :: body) = rest
          by_cases he : e = 0
          · subst he
            simp only [Int.natCast_zero, decide_true, if_true, beq_self_eq_true]
            unfold Rs.strFromUtf8
            by_cases hv : validUtf8 d = true
            · simp [hv, Rs.resOpt, Rs.toPR]
            · simp [hv, Rs.resOpt, Rs.toPR]
          · have he' : ¬ ((e : Int) = 0) := by omega
            have hb : (e == 0) = false := by simpa using he
            have hne : ¬ (1 + e > i) := by omega
            simp (disch := omega) only [he', decide_false, Bool.false_eq_true, if_false, hb, hne, Rs.sub_usize_ok', Ctl.ofRes_ok', Ctl.val_bind']
            simp only [ps_bind, Ctl.ret_bind', Ctl.run_ret']
            exact ps_out_eq ps hps _ _ _ _ hd (by omega) (by omega) (by omega)
        · have hi' : ¬ ((i : Int) < (body.length : Int) + 1) := by omega
          simp [hi, hi', Rs.toPR]
      | err e => simp [scanOut, Rs.toPR]
      | panic s => simp [scanOut, Rs.toPR]
      | fuel => simp [scanOut, Rs.toPR]
    · have hqn : q.toNat ≠ 34 := fun h => hq (UInt8.toNat_inj.mp (by simpa using h))
      have hq' : ((q.toNat : Nat) : Int) ≠ 34 := by omega
      have hne : (q != 34) = true := by simpa using hq
      simp [hq', hne, Rs.toPR]
end Jsonb.TrAgree
