/-
Agreement theorems, phase 6a, part 7: the representation map of the JSONPath AST, the agreement relations `AgR` /
`AgC` (equality up to the text of a panic; the source may also stop with `capacity overflow`), `root_position`,
`select_path` and the frontier step (`Sel.stepAll`: the inner `for _ in 0..len` loops of `find_positions` and
`convert_expr_val`).
-/
import JsonbModel.Proofs.TranslatedAgreeG6

set_option linter.unusedSimpArgs false
set_option linter.unusedVariables false

namespace Jsonb.TrAgree
open Jsonb.Rs

/-! ## The AST of jsonpath/path.rs -/

def ofPV : PathValue → Tr.PathValue
  | .null => .Null
  | .bool b => .Boolean b
  | .num n => .Number (ofNum n)
  | .str s => .String s

def ofBinOp : BinOp → Tr.BinaryOperator
  | .and => .And | .or => .Or | .eq => .Eq | .ne => .NotEq
  | .lt => .Lt | .le => .Lte | .gt => .Gt | .ge => .Gte

def ofUnOp : UnOp → Tr.UnaryArithmeticOperator
  | .add => .Add | .sub => .Subtract

def ofArithOp : ArithOp → Tr.BinaryArithmeticOperator
  | .add => .Add | .sub => .Subtract | .mul => .Multiply | .div => .Divide | .mod => .Modulus

mutual
/-- `jsonpath::Path` -/
def ofPath : Path → Tr.Path
  | .root => .Root
  | .current => .Current
  | .dotWildcard => .DotWildcard
  | .bracketWildcard => .BracketWildcard
  | .dotField s => .DotField s
  | .colonField s => .ColonField s
  | .objectField s => .ObjectField s
  | .arrayIndices is => .ArrayIndices (is.map ofAI)
  | .arithmeticExpr e => .ArithmeticExpr (ofExpr e)
  | .filterExpr e => .FilterExpr (ofExpr e)
  | .predicate e => .Predicate (ofExpr e)
/-- `jsonpath::Expr` (the model inlines `ArithmeticFunc` and `FilterFunc`) -/
def ofExpr : Expr → Tr.Expr
  | .paths ps => .Paths (ofPaths ps)
  | .value v => .Value (ofPV v)
  | .binaryOp op l r => .BinaryOp (ofBinOp op) (ofExpr l) (ofExpr r)
  | .arithUnary op e => .ArithmeticFunc (.Unary (ofUnOp op) (ofExpr e))
  | .arithBinary op l r => .ArithmeticFunc (.Binary (ofArithOp op) (ofExpr l) (ofExpr r))
  | .existsFn ps => .FilterFunc (.Exists (ofPaths ps))
def ofPaths : List Path → List Tr.Path
  | [] => []
  | p :: ps => ofPath p :: ofPaths ps
end

theorem ofPaths_eq_map (ps : List Path) : ofPaths ps = ps.map ofPath := by
  induction ps with
  | nil => simp [ofPaths]
  | cons p ps ih => simp [ofPaths, ih]

/-- the literals of a path are values of their Rust types: index payloads are `i32`s, numbers are `Number`s -/
def PVOK : PathValue → Prop
  | .num n => n.WF
  | _ => True

mutual
def PathOK : Path → Prop
  | .arrayIndices is => ∀ ai ∈ is, AIFits ai
  | .arithmeticExpr e => ExprOK e
  | .filterExpr e => ExprOK e
  | .predicate e => ExprOK e
  | _ => True
def ExprOK : Expr → Prop
  | .paths ps => PathsOK ps
  | .value v => PVOK v
  | .binaryOp _ l r => ExprOK l ∧ ExprOK r
  | .arithUnary _ e => ExprOK e
  | .arithBinary _ l r => ExprOK l ∧ ExprOK r
  | .existsFn ps => PathsOK ps
def PathsOK : List Path → Prop
  | [] => True
  | p :: ps => PathOK p ∧ PathsOK ps
end

theorem pathsOK_mem : ∀ (ps : List Path), PathsOK ps → ∀ p ∈ ps, PathOK p := by
  intro ps
  induction ps with
  | nil => intro _ p hp; simp at hp
  | cons q ps ih =>
    intro h p hp
    simp only [PathsOK] at h
    simp only [List.mem_cons] at hp
    rcases hp with rfl | hp
    · exact h.1
    · exact ih h.2 p hp

theorem pathsOK_drop : ∀ (ps : List Path) (n : Nat), PathsOK ps → PathsOK (ps.drop n) := by
  intro ps
  induction ps with
  | nil => intro n h; simpa using h
  | cons q ps ih =>
    intro n h
    cases n with
    | zero => simpa using h
    | succ n => simp only [List.drop_succ_cons]; simp only [PathsOK] at h; exact ih n h.2

/-! ## Agreement up to the text of a panic -/

/-- the translated result `r` is the model's `m` (through the representation map `f`), a panic of the model being any
panic of the source; the source may also stop with `capacity overflow` (`Vec::with_capacity(poses.len())` in
`convert_expr_val`: the model does not bound the length of its lists, a Rust collection has at most `isize::MAX` bytes) -/
def AgR {α β : Type} (f : β → α) (r : Res α) (m : Res β) : Prop :=
  r = .panic "capacity overflow" ∨
    (match m with
     | .ok b => r = .ok (f b)
     | .err e => r = .err e
     | .panic _ => ∃ s, r = .panic s
     | .fuel => r = .fuel)

/-- the same for a computation inside a function body -/
def AgC {ρ α β : Type} (f : β → α) (c : Ctl ρ α) (m : Res β) : Prop :=
  c = .ret (.panic "capacity overflow") ∨
    (match m with
     | .ok b => c = .val (f b)
     | .err e => c = .ret (.err e)
     | .panic _ => ∃ s, c = .ret (.panic s)
     | .fuel => c = .ret .fuel)

theorem AgR.of_panicAny {α β : Type} (f : β → α) (r : Res α) (m : Res β) (h : panicAny r = panicAny (m.map f)) :
    AgR f r m := by
  right
  cases m with
  | ok b => exact panicAny_ok_g _ _ h
  | err e => exact panicAny_err_g _ _ h
  | panic s => cases r <;> simp [panicAny, Res.map, Res.bind] at h ⊢
  | fuel => cases r <;> simp [panicAny, Res.map, Res.bind] at h ⊢

theorem AgR.of_eq {α β : Type} (f : β → α) (r : Res α) (m : Res β) (h : r = m.map f) : AgR f r m := by
  apply AgR.of_panicAny; rw [h]

theorem AgC.of_res {ρ α β : Type} {f : β → α} {r : Res α} {m : Res β} (h : AgR f r m) :
    AgC f (Ctl.ofRes r : Ctl ρ α) m := by
  rcases h with h | h
  · left; rw [h]; rfl
  · right
    cases m with
    | ok b => rw [h]; rfl
    | err e => rw [h]; rfl
    | panic s => obtain ⟨t, ht⟩ := h; exact ⟨t, by rw [ht]; rfl⟩
    | fuel => rw [h]; rfl

/-- sequencing: the continuation only has to agree on the values the model can answer -/
theorem AgC.bind {ρ α β γ δ : Type} {f : β → α} {g : δ → γ} {c : Ctl ρ α} {m : Res β} {k : α → Ctl ρ γ} {n : β → Res δ}
    (h : AgC f c m) (hk : ∀ b, m = .ok b → AgC g (k (f b)) (n b)) : AgC g (c >>= k) (m.bind n) := by
  rcases h with h | h
  · left; rw [h]; rfl
  · cases m with
    | ok b => rw [h]; exact hk b rfl
    | err e => right; rw [h]; rfl
    | panic s => right; obtain ⟨t, ht⟩ := h; exact ⟨t, by rw [ht]; rfl⟩
    | fuel => right; rw [h]; rfl

theorem AgR.run {ρ β : Type} {f : β → ρ} {c : Ctl ρ ρ} {m : Res β} (h : AgC f c m) : AgR f (Ctl.run c) m := by
  rcases h with h | h
  · left; rw [h]; rfl
  · right
    cases m with
    | ok b => rw [h]; rfl
    | err e => rw [h]; rfl
    | panic s => obtain ⟨t, ht⟩ := h; exact ⟨t, by rw [ht]; rfl⟩
    | fuel => rw [h]; rfl

theorem AgC.val {ρ α β : Type} (f : β → α) (b : β) : AgC f (Ctl.val (f b) : Ctl ρ α) (.ok b) := Or.inr rfl

theorem AgC.congr_model {ρ α β : Type} {f : β → α} {c : Ctl ρ α} {m m' : Res β} (h : AgC f c m) (e : m = m') : AgC f c m' :=
  e ▸ h

theorem AgR.congr_model {α β : Type} {f : β → α} {r : Res α} {m m' : Res β} (h : AgR f r m) (e : m = m') : AgR f r m' :=
  e ▸ h

theorem AgR.map_fun {α β : Type} {f g : β → α} {r : Res α} {m : Res β} (h : AgR f r m) (e : ∀ b, m = .ok b → f b = g b) :
    AgR g r m := by
  rcases h with h | h
  · exact Or.inl h
  · right
    cases m with
    | ok b => rw [h, e b rfl]
    | err e => exact h
    | panic s => exact h
    | fuel => exact h

/-- where the model does not panic and the source does not overflow a capacity, the two are equal -/
theorem AgR.eq {α β : Type} {f : β → α} {r : Res α} {m : Res β} (h : AgR f r m) (hp : m.isPanic = false)
    (hc : r ≠ .panic "capacity overflow") : r = m.map f := by
  rcases h with h | h
  · exact absurd h hc
  · cases m with
    | ok b => exact h
    | err e => exact h
    | panic s => simp [Res.isPanic] at hp
    | fuel => exact h

/-! ## root_position -/

theorem jeType_lt_g (w : Nat) : jeType w < 4294967296 := by
  unfold jeType
  have : w &&& C.JENTRY_TYPE_MASK ≤ C.JENTRY_TYPE_MASK := Nat.and_le_right
  have h : C.JENTRY_TYPE_MASK = 1879048192 := rfl
  omega

theorem root_position_agrees (root : Bytes) : Tr.Selector.root_position root = .ok (ofPos (Sel.rootPosition root)) := by
  unfold Tr.Selector.root_position Sel.rootPosition
  have h0 := decode_header_drop root 0 (by omega)
  simp only [List.drop_zero, Nat.zero_add] at h0
  rw [h0]
  cases hr : readU32At root 0 with
  | none => simp [Rs.resOpt, Ctl.run, ofPos, Rs.len]
  | some w =>
    have h4 := readU32At_some_le_g root 0 w hr
    simp only [Rs.resOpt, Ctl.val_bind', tag_decide_g]
    by_cases hs : hdrType w = C.SCALAR_CONTAINER_TAG
    · simp only [hs, decide_true, if_true]
      rw [decode_jentry_drop root 4 (by omega)]
      cases hr4 : readU32At root 4 with
      | none => simp [Rs.resOpt, Ctl.run, ofPos, Rs.len]
      | some e =>
        simp only [Rs.resOpt, Ctl.val_bind', tag_decide_ne_g]
        by_cases hc : jeType e ≠ C.CONTAINER_TAG
        · simp [hc, Ctl.run, ofPos]
        · simp [hc, Ctl.run, ofPos, Rs.len]
    · simp [hs, Ctl.run, ofPos, Rs.len]

/-! ## select_path -/

theorem run_call_ret_g {ρ : Type} (r : Res ρ) :
    Ctl.run (((Ctl.ofRes r : Ctl ρ ρ) >>= fun x => pure x) >>= fun x => Ctl.ret (Res.ok x)) = r := by
  cases r <;> rfl

theorem run_call_ret_g' {ρ : Type} (r : Res ρ) :
    Ctl.run ((Ctl.ofRes r : Ctl ρ ρ) >>= fun x => Ctl.ret (Res.ok x)) = r := by
  cases r <;> rfl

theorem select_path_agrees (self : Tr.Selector) (root : Bytes) (off len : Nat) (p : Path) (hp : PathOK p)
    (poses : List Sel.Pos) (hlen : root.length < 9223372036854775808) :
    AgR (fun ps => (poses ++ ps).map ofPos)
      (Tr.Selector.select_path self root (off : Int) (len : Int) (ofPath p) (poses.map ofPos))
      (Sel.selectPath root off len p) := by
  unfold Tr.Selector.select_path Sel.selectPath
  cases p with
  | dotWildcard =>
    simp only [ofPath]
    rw [run_call_ret_g']
    exact AgR.of_panicAny _ _ _ (select_object_values_agrees self root off poses hlen)
  | bracketWildcard =>
    simp only [ofPath]
    rw [run_call_ret_g']
    exact AgR.of_panicAny _ _ _ (select_array_values_agrees self root off len poses hlen)
  | dotField nm =>
    simp only [ofPath]
    rw [run_call_ret_g']
    exact AgR.of_panicAny _ _ _ (select_by_name_agrees self root off nm poses hlen)
  | colonField nm =>
    simp only [ofPath]
    rw [run_call_ret_g']
    exact AgR.of_panicAny _ _ _ (select_by_name_agrees self root off nm poses hlen)
  | objectField nm =>
    simp only [ofPath]
    rw [run_call_ret_g']
    exact AgR.of_panicAny _ _ _ (select_by_name_agrees self root off nm poses hlen)
  | arrayIndices is =>
    simp only [ofPath]
    rw [run_call_ret_g']
    simp only [PathOK] at hp
    exact AgR.of_panicAny _ _ _ (select_by_indices_agrees self root off is poses hp hlen)
  | root => right; exact ⟨_, rfl⟩
  | current => right; exact ⟨_, rfl⟩
  | arithmeticExpr e => right; exact ⟨_, rfl⟩
  | filterExpr e => right; exact ⟨_, rfl⟩
  | predicate e => right; exact ⟨_, rfl⟩

end Jsonb.TrAgree
