/-
C08 refinement, part 1: the representation relation between the selector's raw-offset
`Position`s and sub-values of the document, the root position, and the four `select_*`
step functions (hence `select_path` / one step over the whole frontier): on a position that
represents the sub-value `w` every step succeeds and returns positions that represent, pointwise
and in order, exactly `Spec.stepItem p w`.
-/
import JsonbModel.Spec.PathEval
import JsonbModel.Proofs.AccessRefine4

namespace Jsonb
open JV Sel

/-! ### the representation relation -/

/-- position `pos` (raw offsets into `root`) denotes the sub-value `w` -/
def Sel.Rep (root : Bytes) : Pos → JV → Prop
  | .container off len, w => isScalar w = false ∧ goodTop w = true ∧ len = elen w ∧ At root off w
  | .scalar ty off len, w =>
    isScalar w = true ∧ good w = true ∧ ty = ety w ∧ len = elen w ∧ At root off w

/-- pointwise representation of a frontier: same length, same order -/
def Sel.RepL (root : Bytes) : List Pos → List JV → Prop
  | [], [] => True
  | p :: ps, w :: ws => Sel.Rep root p w ∧ Sel.RepL root ps ws
  | _, _ => False

theorem RepL_nil (root : Bytes) : Sel.RepL root [] [] := trivial

theorem RepL_cons {root : Bytes} {p : Pos} {w : JV} {ps : List Pos} {ws : List JV}
    (h : Sel.Rep root p w) (hs : Sel.RepL root ps ws) : Sel.RepL root (p :: ps) (w :: ws) := ⟨h, hs⟩

theorem RepL_length {root : Bytes} : ∀ {ps : List Pos} {ws : List JV}, Sel.RepL root ps ws → ps.length = ws.length
  | [], [], _ => rfl
  | _ :: ps, _ :: ws, h => by simp [RepL_length (ps := ps) (ws := ws) h.2]
  | [], _ :: _, h => h.elim
  | _ :: _, [], h => h.elim

theorem RepL_append {root : Bytes} : ∀ {ps : List Pos} {ws : List JV} {ps' : List Pos} {ws' : List JV},
    Sel.RepL root ps ws → Sel.RepL root ps' ws' → Sel.RepL root (ps ++ ps') (ws ++ ws')
  | [], [], _, _, _, h' => h'
  | _ :: ps, _ :: ws, _, _, h, h' => ⟨h.1, RepL_append (ps := ps) (ws := ws) h.2 h'⟩
  | [], _ :: _, _, _, h, _ => h.elim
  | _ :: _, [], _, _, h, _ => h.elim

theorem RepL_nil_left {root : Bytes} {ws : List JV} (h : Sel.RepL root [] ws) : ws = [] := by
  cases ws with
  | nil => rfl
  | cons _ _ => exact h.elim

theorem RepL_nil_right {root : Bytes} {ps : List Pos} (h : Sel.RepL root ps []) : ps = [] := by
  cases ps with
  | nil => rfl
  | cons _ _ => exact h.elim

theorem RepL_isEmpty {root : Bytes} {ps : List Pos} {ws : List JV} (h : Sel.RepL root ps ws) :
    ps.isEmpty = ws.isEmpty := by
  cases ps <;> cases ws <;> first | rfl | exact h.elim

/-- the `i`-th entries correspond (both missing or both present) -/
theorem RepL_get {root : Bytes} : ∀ {ps : List Pos} {ws : List JV}, Sel.RepL root ps ws → ∀ i : Nat,
    Sel.RepL root (ps[i]?).toList (ws[i]?).toList
  | [], [], _, i => by simp [Sel.RepL]
  | p :: ps, w :: ws, h, 0 => by simpa [Sel.RepL] using h.1
  | p :: ps, w :: ws, h, i+1 => by
    simpa using RepL_get (ps := ps) (ws := ws) h.2 i
  | [], _ :: _, h, _ => h.elim
  | _ :: _, [], h, _ => h.elim

theorem filterMap_eq_flatMap_toList {α β : Type} (f : α → Option β) (l : List α) :
    l.filterMap f = l.flatMap (fun x => (f x).toList) := by
  induction l with
  | nil => rfl
  | cons x xs ih =>
    simp only [List.filterMap_cons, List.flatMap_cons, ih]
    cases f x <;> rfl

/-- picking a list of indices (with repetitions, in the given order) preserves correspondence -/
theorem RepL_pick {root : Bytes} {ps : List Pos} {ws : List JV} (h : Sel.RepL root ps ws) (idxs : List Nat) :
    Sel.RepL root (idxs.filterMap (ps[·]?)) (idxs.filterMap (ws[·]?)) := by
  rw [filterMap_eq_flatMap_toList, filterMap_eq_flatMap_toList]
  induction idxs with
  | nil => exact trivial
  | cons i is ih =>
    simp only [List.flatMap_cons]
    exact RepL_append (RepL_get h i) ih

/-! ### tags -/

theorem ety_container_iff_isScalar (v : JV) : ety v = C.CONTAINER_TAG ↔ isScalar v = false := by
  cases v with
  | bool b => cases b <;> simp [ety, isScalar, tagDefs]
  | _ => simp [ety, isScalar, tagDefs]

theorem mkPos_rep (root : Bytes) (v : JV) (hg : good v = true) (off : Nat) (h : At root off v) :
    Sel.Rep root (mkPos (ety v) off (elen v)) v := by
  unfold mkPos
  by_cases hc : ety v = C.CONTAINER_TAG
  · rw [if_pos hc]
    exact ⟨(ety_container_iff_isScalar v).1 hc, good_goodTop v hg, rfl, h⟩
  · rw [if_neg hc]
    have hs : isScalar v = true := by
      cases hv : isScalar v with
      | true => rfl
      | false => exact absurd ((ety_container_iff_isScalar v).2 hv) hc
    exact ⟨hs, hg, rfl, rfl, h⟩

/-! ### the entry readers and the position layout -/

theorem entriesAt_wordsL (vs : List JV) (hg : goodL vs = true) (pre post : Bytes) (off : Nat)
    (hoff : off = pre.length) :
    entriesAt (pre ++ (wordsL vs ++ post)) vs.length off = .ok (entriesL vs) := by
  induction vs generalizing pre off with
  | nil => simp [entriesAt, entriesL]
  | cons v vs ih =>
    simp only [goodL, Bool.and_eq_true] at hg
    have hl := elen_lt_of_good v hg.1
    simp only [List.length_cons, entriesAt, wordsL, List.append_assoc]
    rw [readU32At_mid pre _ _ off hoff (entry_lt v hl)]
    simp only []
    have e1 : pre ++ (u32be (entry v).1 ++ (wordsL vs ++ post)) = (pre ++ u32be (entry v).1) ++ (wordsL vs ++ post) := by
      simp
    rw [e1, ih hg.2 (pre ++ u32be (entry v).1) (off + 4) (by simp; omega)]
    simp [Res.map, Res.bind, entriesL, jeType_entry v hl, jeLen_entry v hl]

theorem entriesAt_keyWords (kvs : List (Bytes × JV)) (hg : goodK kvs = true) (pre post : Bytes) (off : Nat)
    (hoff : off = pre.length) :
    entriesAt (pre ++ (keyWords kvs ++ post)) kvs.length off = .ok (keyEntries kvs) := by
  induction kvs generalizing pre off with
  | nil => simp [entriesAt, keyEntries]
  | cons kv kvs ih =>
    obtain ⟨k, v⟩ := kv
    simp only [goodK, Bool.and_eq_true, decide_eq_true_eq] at hg
    have hl := hg.1.1.1
    simp only [List.length_cons, entriesAt, keyWords, List.append_assoc]
    rw [readU32At_mid pre _ _ off hoff (keyWord_lt k hl)]
    simp only []
    have e1 : pre ++ (u32be (C.STRING_TAG + k.length) ++ (keyWords kvs ++ post))
        = (pre ++ u32be (C.STRING_TAG + k.length)) ++ (keyWords kvs ++ post) := by simp
    rw [e1, ih hg.2 (pre ++ u32be (C.STRING_TAG + k.length)) (off + 4) (by simp; omega)]
    simp [Res.map, Res.bind, keyEntries, jeType_keyWord k hl, jeLen_keyWord k hl]

theorem wordsL_snd (kvs : List (Bytes × JV)) : wordsL (kvs.map (·.2)) = wordsK kvs := by
  induction kvs with
  | nil => rfl
  | cons kv kvs ih => obtain ⟨k, v⟩ := kv; simp [wordsL, wordsK, ih]

theorem paysL_snd (kvs : List (Bytes × JV)) : paysL (kvs.map (·.2)) = paysK kvs := by
  induction kvs with
  | nil => rfl
  | cons kv kvs ih => obtain ⟨k, v⟩ := kv; simp [paysL, paysK, ih]

theorem entriesL_snd (kvs : List (Bytes × JV)) : entriesL (kvs.map (·.2)) = entriesK kvs := by
  simp [entriesL, entriesK, List.map_map, Function.comp_def]

theorem entriesAt_wordsK (kvs : List (Bytes × JV)) (hg : goodK kvs = true) (pre post : Bytes) (off : Nat)
    (hoff : off = pre.length) :
    entriesAt (pre ++ (wordsK kvs ++ post)) kvs.length off = .ok (entriesK kvs) := by
  have := entriesAt_wordsL (kvs.map (·.2)) (goodK_goodL kvs hg) pre post off hoff
  rwa [wordsL_snd, entriesL_snd, List.length_map] at this

theorem sumLens_keyEntries (kvs : List (Bytes × JV)) : sumLens (keyEntries kvs) = (keyBytes kvs).length := by
  induction kvs with
  | nil => rfl
  | cons kv kvs ih =>
    obtain ⟨k, v⟩ := kv
    simp only [sumLens, keyEntries, List.map_cons, List.sum_cons, keyBytes, List.length_append] at ih ⊢
    rw [ih]

/-- consecutive payloads starting at `off`: the laid-out positions represent the values -/
theorem layPos_rep (root : Bytes) (vs : List JV) (hg : goodL vs = true) (pre post : Bytes) (off : Nat)
    (hroot : root = pre ++ (paysL vs ++ post)) (hoff : off = pre.length) :
    Sel.RepL root (layPos (entriesL vs) off) vs := by
  induction vs generalizing pre off with
  | nil => exact trivial
  | cons v vs ih =>
    simp only [goodL, Bool.and_eq_true] at hg
    simp only [entriesL, List.map_cons, layPos]
    refine ⟨mkPos_rep root v hg.1 off ⟨pre, paysL vs ++ post, by simp [hroot, paysL], hoff⟩, ?_⟩
    exact ih hg.2 (pre ++ (entry v).2) (off + elen v) (by simp [hroot, paysL]) (by simp [elen, hoff])

/-! ### headers -/

theorem headerAt_arr (vs : List JV) (hn : vs.length < 536870912) (a b : Bytes) (off : Nat)
    (hoff : off = a.length) :
    headerAt (a ++ ((entry (arr vs)).2 ++ b)) off = .ok (C.ARRAY_CONTAINER_TAG, vs.length) := by
  unfold headerAt
  rw [if_neg (by simp; omega)]
  have hr : readU32At (a ++ ((entry (arr vs)).2 ++ b)) off = some (C.ARRAY_CONTAINER_TAG + vs.length) := by
    simp only [entry, List.append_assoc]
    exact readU32At_mid a _ _ _ hoff (arr_header_lt _ hn)
  rw [hr]
  simp only [hdrType_arr _ hn, hdrLen_arr _ hn]

theorem headerAt_obj (kvs : List (Bytes × JV)) (hn : kvs.length < 536870912) (a b : Bytes) (off : Nat)
    (hoff : off = a.length) :
    headerAt (a ++ ((entry (obj kvs)).2 ++ b)) off = .ok (C.OBJECT_CONTAINER_TAG, kvs.length) := by
  unfold headerAt
  rw [if_neg (by simp; omega)]
  have hr : readU32At (a ++ ((entry (obj kvs)).2 ++ b)) off = some (C.OBJECT_CONTAINER_TAG + kvs.length) := by
    simp only [entry, List.append_assoc]
    exact readU32At_mid a _ _ _ hoff (obj_header_lt _ hn)
  rw [hr]
  simp only [hdrType_obj _ hn, hdrLen_obj _ hn]

theorem goodTop_arr_parts {vs : List JV} (h : goodTop (arr vs) = true) :
    vs.length < 536870912 ∧ goodL vs = true := by
  simp only [goodTop, Bool.and_eq_true, decide_eq_true_eq] at h; exact h

theorem goodTop_obj_parts {kvs : List (Bytes × JV)} (h : goodTop (obj kvs) = true) :
    kvs.length < 536870912 ∧ goodK kvs = true := by
  simp only [goodTop, Bool.and_eq_true, decide_eq_true_eq] at h; exact ⟨h.1.1, h.2⟩

/-! ### 1. the root position -/

theorem rootPosition_rep (v : JV) (hg : goodTop v = true) :
    Sel.Rep (encodeSpec v) (rootPosition (encodeSpec v)) v := by
  by_cases hs : isScalar v = true
  · have hgv := goodTop_scalar v hs hg
    have hl := elen_lt_of_good v hgv
    have hw : readU32At (encodeSpec v) 4 = some (entry v).1 := by
      rw [encodeSpec_scalarA v hs]
      exact readU32At_mid _ _ _ 4 (by simp) (entry_lt v hl)
    have hne : ¬ ety v = C.CONTAINER_TAG := by
      intro h; rw [(ety_container_iff_isScalar v).1 h] at hs; simp at hs
    simp only [rootPosition, hdr_scalar v hs, hdrType_sca, if_true, hw, jeType_entry v hl, jeLen_entry v hl,
      ne_eq, hne, not_false_eq_true]
    refine ⟨hs, hgv, rfl, rfl, u32be C.SCALAR_CONTAINER_TAG ++ u32be (entry v).1, [], ?_, by simp⟩
    rw [encodeSpec_scalarA v hs]; simp
  · have hs' : isScalar v = false := by simpa using hs
    have henc : encodeSpec v = (entry v).2 := by
      cases v <;> simp_all [isScalar, encodeSpec]
    have hat : At (encodeSpec v) 0 v := ⟨[], [], by simp [henc], rfl⟩
    have hlen : (encodeSpec v).length = elen v := by rw [henc]; rfl
    cases v with
    | arr vs =>
      have ⟨hn, _⟩ := goodTop_arr_parts hg
      simp only [rootPosition, hdr_arr vs hn, hdrType_arr _ hn]
      rw [if_neg ne_arr_sca]
      exact ⟨hs', hg, hlen, hat⟩
    | obj kvs =>
      have ⟨hn, _⟩ := goodTop_obj_parts hg
      simp only [rootPosition, hdr_obj kvs hn, hdrType_obj _ hn]
      rw [if_neg ne_obj_sca]
      exact ⟨hs', hg, hlen, hat⟩
    | null => simp [isScalar] at hs
    | bool _ => simp [isScalar] at hs
    | num _ => simp [isScalar] at hs
    | str _ => simp [isScalar] at hs

/-- scalar documents give a scalar position at offset 8 -/
theorem rootPosition_scalar (v : JV) (hg : goodTop v = true) (hs : isScalar v = true) :
    rootPosition (encodeSpec v) = .scalar (ety v) 8 (elen v) := by
  have hgv := goodTop_scalar v hs hg
  have hl := elen_lt_of_good v hgv
  have hw : readU32At (encodeSpec v) 4 = some (entry v).1 := by
    rw [encodeSpec_scalarA v hs]
    exact readU32At_mid _ _ _ 4 (by simp) (entry_lt v hl)
  have hne : ¬ ety v = C.CONTAINER_TAG := by
    intro h; rw [(ety_container_iff_isScalar v).1 h] at hs; simp at hs
  simp only [rootPosition, hdr_scalar v hs, hdrType_sca, if_true, hw, jeType_entry v hl, jeLen_entry v hl,
    ne_eq, hne, not_false_eq_true]

/-- container documents give `container 0 len` -/
theorem rootPosition_container (v : JV) (hg : goodTop v = true) (hs : isScalar v = false) :
    rootPosition (encodeSpec v) = .container 0 (encodeSpec v).length := by
  cases v with
  | arr vs =>
    have ⟨hn, _⟩ := goodTop_arr_parts hg
    simp only [rootPosition, hdr_arr vs hn, hdrType_arr _ hn]
    rw [if_neg ne_arr_sca]
  | obj kvs =>
    have ⟨hn, _⟩ := goodTop_obj_parts hg
    simp only [rootPosition, hdr_obj kvs hn, hdrType_obj _ hn]
    rw [if_neg ne_obj_sca]
  | null => simp [isScalar] at hs
  | bool _ => simp [isScalar] at hs
  | num _ => simp [isScalar] at hs
  | str _ => simp [isScalar] at hs

/-! ### 2. the step functions on a representing container position -/

/-- a container position represents an array or an object -/
theorem rep_container_cases {root : Bytes} {off len : Nat} {w : JV} (h : Sel.Rep root (.container off len) w) :
    (∃ vs, w = arr vs) ∨ (∃ kvs, w = obj kvs) := by
  cases w with
  | arr vs => exact .inl ⟨vs, rfl⟩
  | obj kvs => exact .inr ⟨kvs, rfl⟩
  | null => simp [Sel.Rep, isScalar] at h
  | bool _ => simp [Sel.Rep, isScalar] at h
  | num _ => simp [Sel.Rep, isScalar] at h
  | str _ => simp [Sel.Rep, isScalar] at h

/-- positions of the elements of an array sitting at `a.length` -/
theorem arr_children_rep (vs : List JV) (hg : goodL vs = true) (a b : Bytes) :
    Sel.RepL (a ++ ((entry (arr vs)).2 ++ b)) (layPos (entriesL vs) (a.length + 4 + vs.length * 4)) vs :=
  layPos_rep _ vs hg (a ++ (u32be (C.ARRAY_CONTAINER_TAG + vs.length) ++ wordsL vs)) b _
    (by simp [entry]) (by simp [wordsL_length']; omega)

/-- positions of the member values of an object sitting at `a.length` -/
theorem obj_children_rep (kvs : List (Bytes × JV)) (hg : goodK kvs = true) (a b : Bytes) :
    Sel.RepL (a ++ ((entry (obj kvs)).2 ++ b))
      (layPos (entriesK kvs) (a.length + 4 + kvs.length * 8 + (keyBytes kvs).length)) (kvs.map (·.2)) := by
  have := layPos_rep (a ++ ((entry (obj kvs)).2 ++ b)) (kvs.map (·.2)) (goodK_goodL kvs hg)
    (a ++ (u32be (C.OBJECT_CONTAINER_TAG + kvs.length) ++ (keyWords kvs ++ (wordsK kvs ++ keyBytes kvs)))) b
    (a.length + 4 + kvs.length * 8 + (keyBytes kvs).length)
    (by simp [entry, paysL_snd]) (by simp [wordsK_length', keyWords_length']; omega)
  rwa [entriesL_snd] at this

theorem entriesAt_arr (vs : List JV) (hg : goodL vs = true) (a b : Bytes) (off : Nat) (hoff : off = a.length) :
    entriesAt (a ++ ((entry (arr vs)).2 ++ b)) vs.length (off + 4) = .ok (entriesL vs) := by
  have e : a ++ ((entry (arr vs)).2 ++ b)
      = (a ++ u32be (C.ARRAY_CONTAINER_TAG + vs.length)) ++ (wordsL vs ++ (paysL vs ++ b)) := by simp [entry]
  rw [e]
  exact entriesAt_wordsL vs hg _ _ _ (by simp; omega)

theorem entriesAt_obj_keys (kvs : List (Bytes × JV)) (hg : goodK kvs = true) (a b : Bytes) (off : Nat)
    (hoff : off = a.length) :
    entriesAt (a ++ ((entry (obj kvs)).2 ++ b)) kvs.length (off + 4) = .ok (keyEntries kvs) := by
  have e : a ++ ((entry (obj kvs)).2 ++ b)
      = (a ++ u32be (C.OBJECT_CONTAINER_TAG + kvs.length)) ++ (keyWords kvs ++ (wordsK kvs ++ (keyBytes kvs ++ (paysK kvs ++ b)))) := by
    simp [entry]
  rw [e]
  exact entriesAt_keyWords kvs hg _ _ _ (by simp; omega)

theorem entriesAt_obj_vals (kvs : List (Bytes × JV)) (hg : goodK kvs = true) (a b : Bytes) (off : Nat)
    (hoff : off = a.length) :
    entriesAt (a ++ ((entry (obj kvs)).2 ++ b)) kvs.length (off + 4 + 4 * kvs.length) = .ok (entriesK kvs) := by
  have e : a ++ ((entry (obj kvs)).2 ++ b)
      = (a ++ (u32be (C.OBJECT_CONTAINER_TAG + kvs.length) ++ keyWords kvs)) ++ (wordsK kvs ++ (keyBytes kvs ++ (paysK kvs ++ b))) := by
    simp [entry]
  rw [e]
  exact entriesAt_wordsK kvs hg _ _ _ (by simp [keyWords_length']; omega)

/-- `[*]`: the elements of an array; anything else passes through unchanged -/
theorem selectArrayValues_rep (root : Bytes) (off len : Nat) (w : JV) (h : Sel.Rep root (.container off len) w) :
    ∃ ps, selectArrayValues root off len = .ok ps ∧ Sel.RepL root ps (Spec.stepItem .bracketWildcard w) := by
  have h' := h
  obtain ⟨hs, hg, hlen, a, b, rfl, rfl⟩ := h
  rcases rep_container_cases h' with ⟨vs, rfl⟩ | ⟨kvs, rfl⟩
  · have ⟨hn, hgl⟩ := goodTop_arr_parts hg
    refine ⟨layPos (entriesL vs) (a.length + 4 + vs.length * 4), ?_, ?_⟩
    · simp only [selectArrayValues, headerAt_arr vs hn a b _ rfl, ne_eq, not_true_eq_false, if_false,
        entriesAt_arr vs hgl a b _ rfl]
    · simp only [Spec.stepItem]
      exact arr_children_rep vs hgl a b
  · have ⟨hn, _⟩ := goodTop_obj_parts hg
    refine ⟨[.container a.length len], ?_, ?_⟩
    · simp only [selectArrayValues, headerAt_obj kvs hn a b _ rfl]
      rw [if_pos (fun e => ne_arr_obj e.symm)]
    · simp only [Spec.stepItem]
      exact ⟨h', trivial⟩

/-- `.*`: the member values of an object, in key order -/
theorem selectObjectValues_rep (root : Bytes) (off len : Nat) (w : JV) (h : Sel.Rep root (.container off len) w) :
    ∃ ps, selectObjectValues root off = .ok ps ∧ Sel.RepL root ps (Spec.stepItem .dotWildcard w) := by
  have h' := h
  obtain ⟨hs, hg, hlen, a, b, rfl, rfl⟩ := h
  rcases rep_container_cases h' with ⟨vs, rfl⟩ | ⟨kvs, rfl⟩
  · have ⟨hn, _⟩ := goodTop_arr_parts hg
    refine ⟨[], ?_, trivial⟩
    simp only [selectObjectValues, headerAt_arr vs hn a b _ rfl]
    rw [if_pos (.inl ne_arr_obj)]
  · have ⟨hn, hgk⟩ := goodTop_obj_parts hg
    by_cases h0 : kvs.length = 0
    · have : kvs = [] := List.eq_nil_of_length_eq_zero h0
      subst this
      refine ⟨[], ?_, trivial⟩
      simp only [selectObjectValues, headerAt_obj [] hn a b _ rfl]
      rw [if_pos (.inr rfl)]
    · refine ⟨layPos (entriesK kvs) (a.length + 4 + kvs.length * 8 + (keyBytes kvs).length), ?_, ?_⟩
      · simp only [selectObjectValues, headerAt_obj kvs hn a b _ rfl]
        rw [if_neg (by simp [h0])]
        simp only [entriesAt_obj_keys kvs hgk a b _ rfl, entriesAt_obj_vals kvs hgk a b _ rfl,
          sumLens_keyEntries]
      · simp only [Spec.stepItem]
        exact obj_children_rep kvs hgk a b

/-! ### member lookup -/

/-- index of the first member whose key is `name`, counting from `i` -/
def keyIdx (name : Bytes) : List (Bytes × JV) → Nat → Option Nat
  | [], _ => none
  | (k, _) :: kvs, i => if k == name then some i else keyIdx name kvs (i + 1)

theorem keyIdx_lookup (name : Bytes) (kvs : List (Bytes × JV)) (i : Nat) :
    match keyIdx name kvs i with
    | some j => ∃ d, j = i + d ∧ (kvs.map (·.2))[d]? = Spec.lookup name kvs ∧ (Spec.lookup name kvs).isSome
    | none => Spec.lookup name kvs = none := by
  induction kvs generalizing i with
  | nil => simp [keyIdx, Spec.lookup]
  | cons kv kvs ih =>
    obtain ⟨k, v⟩ := kv
    simp only [keyIdx, Spec.lookup]
    by_cases hk : (k == name) = true
    · simp only [hk, if_true]
      exact ⟨0, rfl, by simp, rfl⟩
    · simp only [hk, if_false, Bool.false_eq_true]
      have := ih (i + 1)
      cases hj : keyIdx name kvs (i + 1) with
      | none => rw [hj] at this; simpa using this
      | some j =>
        rw [hj] at this
        obtain ⟨d, h1, h2, h3⟩ := this
        exact ⟨d + 1, by omega, by simpa using h2, h3⟩

theorem findKey_spec (name : Bytes) (kvs : List (Bytes × JV)) (pre post : Bytes) (off i : Nat)
    (hoff : off = pre.length) :
    findKey (pre ++ (keyBytes kvs ++ post)) name (keyEntries kvs) off i = .ok (keyIdx name kvs i) := by
  induction kvs generalizing pre off i with
  | nil => simp [findKey, keyEntries, keyIdx]
  | cons kv kvs ih =>
    obtain ⟨k, v⟩ := kv
    simp only [keyEntries, List.map_cons, findKey, keyIdx, keyBytes, List.append_assoc]
    have e1 : pre ++ (k ++ (keyBytes kvs ++ post)) = (pre ++ k) ++ (keyBytes kvs ++ post) := by simp
    have hrec := ih (pre ++ k) (off + k.length) (i + 1) (by simp [hoff])
    simp only [keyEntries] at hrec
    by_cases hlen : name.length ≠ k.length
    · rw [if_pos hlen]
      have hne : (k == name) = false := by
        simp only [beq_eq_false_iff_ne, ne_eq]
        intro e; subst e; exact hlen rfl
      simp only [hne, Bool.false_eq_true, if_false]
      rw [e1]; exact hrec
    · rw [if_neg hlen]
      rw [if_neg (by simp [hoff]), if_neg (by simp [hoff])]
      have htk : ((pre ++ (k ++ (keyBytes kvs ++ post))).drop off).take k.length = k := by
        subst hoff; simp
      rw [htk]
      by_cases hk : (k == name) = true
      · simp only [hk, if_true]
      · simp only [hk, if_false, Bool.false_eq_true]
        rw [e1]; exact hrec

/-- `.name` / `:name` / `["name"]`: the member with exactly this key -/
theorem selectByName_rep (root : Bytes) (off len : Nat) (w : JV) (h : Sel.Rep root (.container off len) w)
    (name : Bytes) :
    ∃ ps, selectByName root off name = .ok ps ∧ Sel.RepL root ps (Spec.stepItem (.dotField name) w) := by
  have h' := h
  obtain ⟨hs, hg, hlen, a, b, rfl, rfl⟩ := h
  rcases rep_container_cases h' with ⟨vs, rfl⟩ | ⟨kvs, rfl⟩
  · have ⟨hn, _⟩ := goodTop_arr_parts hg
    refine ⟨[], ?_, trivial⟩
    simp only [selectByName, headerAt_arr vs hn a b _ rfl]
    rw [if_pos (.inl ne_arr_obj)]
  · have ⟨hn, hgk⟩ := goodTop_obj_parts hg
    by_cases h0 : kvs.length = 0
    · have : kvs = [] := List.eq_nil_of_length_eq_zero h0
      subst this
      refine ⟨[], ?_, by simp [Spec.stepItem, Spec.lookup, Sel.RepL]⟩
      simp only [selectByName, headerAt_obj [] hn a b _ rfl]
      rw [if_pos (.inr rfl)]
    · have hfk : findKey (a ++ ((entry (obj kvs)).2 ++ b)) name (keyEntries kvs) (a.length + 4 + kvs.length * 8) 0
          = .ok (keyIdx name kvs 0) := by
        have e : a ++ ((entry (obj kvs)).2 ++ b)
            = (a ++ (u32be (C.OBJECT_CONTAINER_TAG + kvs.length) ++ (keyWords kvs ++ wordsK kvs))) ++ (keyBytes kvs ++ (paysK kvs ++ b)) := by
          simp [entry]
        rw [e]
        exact findKey_spec name kvs _ _ _ 0 (by simp [keyWords_length', wordsK_length']; omega)
      have hch := obj_children_rep kvs hgk a b
      have hkl := keyIdx_lookup name kvs 0
      cases hj : keyIdx name kvs 0 with
      | none =>
        rw [hj] at hkl
        refine ⟨[], ?_, by simp [Spec.stepItem, hkl, Sel.RepL]⟩
        simp only [selectByName, headerAt_obj kvs hn a b _ rfl]
        rw [if_neg (by simp [h0])]
        simp only [entriesAt_obj_keys kvs hgk a b _ rfl, entriesAt_obj_vals kvs hgk a b _ rfl, hfk, hj]
      | some j =>
        rw [hj] at hkl
        obtain ⟨d, hd, hget, _⟩ := hkl
        have hd' : j = d := by omega
        subst hd'
        refine ⟨((layPos (entriesK kvs) (a.length + 4 + kvs.length * 8 + (keyBytes kvs).length))[j]?).toList, ?_, ?_⟩
        · simp only [selectByName, headerAt_obj kvs hn a b _ rfl]
          rw [if_neg (by simp [h0])]
          simp only [entriesAt_obj_keys kvs hgk a b _ rfl, entriesAt_obj_vals kvs hgk a b _ rfl, hfk, hj,
            sumLens_keyEntries]
        · simp only [Spec.stepItem, ← hget]
          exact RepL_get hch j

/-! ### array subscripts -/

theorem convertIndex_lt (i : Index) (n : Nat) (j : Nat) (h : convertIndex i n = some j) : j < n := by
  cases i <;> simp only [convertIndex] at h <;> split at h <;>
    first | (simp only [Option.some.injEq] at h; omega) | simp at h

def idxVal (i : Index) (length : Int) : Int :=
  match i with
  | .index n => n
  | .last n => length + n - 1

def sliceRange (st en length : Int) : List Nat :=
  if st > en ∨ st ≥ length ∨ en < 0 then []
  else
    (List.range ((if en ≥ length then (length - 1).toNat else en.toNat) + 1 - (if st < 0 then 0 else st.toNat))).map
      (· + (if st < 0 then 0 else st.toNat))

theorem convertSlice_eq (s e : Index) (l : Int) :
    convertSlice s e l = sliceRange (idxVal s l) (idxVal e l) l := by
  cases s <;> cases e <;> rfl

theorem sliceRange_lt (st en : Int) (n : Nat) (hn : 0 < n) : ∀ j ∈ sliceRange st en n, j < n := by
  intro j hj
  unfold sliceRange at hj
  split at hj
  · simp at hj
  · simp only [List.mem_map, List.mem_range] at hj
    obtain ⟨x, hx, rfl⟩ := hj
    by_cases h1 : st < 0 <;> by_cases h2 : en ≥ (n : Int) <;>
      simp only [h1, h2, if_true, if_false] at hx ⊢ <;> omega

theorem convertSlice_lt (s e : Index) (n : Nat) (hn : 0 < n) : ∀ j ∈ convertSlice s e n, j < n := by
  rw [convertSlice_eq]; exact sliceRange_lt _ _ n hn

theorem indicesOf_lt (is : List ArrayIndex) (n : Nat) (hn : 0 < n) : ∀ j ∈ indicesOf is n, j < n := by
  intro j hj
  simp only [indicesOf, List.mem_flatMap] at hj
  obtain ⟨ai, _, hj⟩ := hj
  cases ai with
  | index i =>
    simp only [Option.mem_toList, Option.mem_def] at hj
    exact convertIndex_lt i n j hj
  | slice s e => exact convertSlice_lt s e n hn j hj

theorem filterMap_none' {α β : Type} (l : List α) : l.filterMap (fun _ => (none : Option β)) = [] := by
  induction l <;> simp_all

/-- `[i, j to k, last - m, …]`: the selected elements in subscript order, with repetitions -/
theorem selectByIndices_rep (root : Bytes) (off len : Nat) (w : JV) (h : Sel.Rep root (.container off len) w)
    (is : List ArrayIndex) :
    ∃ ps, selectByIndices root off is = .ok ps ∧ Sel.RepL root ps (Spec.stepItem (.arrayIndices is) w) := by
  have h' := h
  obtain ⟨hs, hg, hlen, a, b, rfl, rfl⟩ := h
  rcases rep_container_cases h' with ⟨vs, rfl⟩ | ⟨kvs, rfl⟩
  · have ⟨hn, hgl⟩ := goodTop_arr_parts hg
    by_cases h0 : vs.length = 0
    · have : vs = [] := List.eq_nil_of_length_eq_zero h0
      subst this
      refine ⟨[], ?_, by simp [Spec.stepItem, filterMap_none', Sel.RepL]⟩
      simp only [selectByIndices, headerAt_arr [] hn a b _ rfl]
      rw [if_pos (.inr rfl)]
    · by_cases he : (indicesOf is (vs.length : Int)).isEmpty = true
      · refine ⟨[], ?_, ?_⟩
        · simp only [selectByIndices, headerAt_arr vs hn a b _ rfl]
          rw [if_neg (by simp [h0])]
          simp only [he, if_true]
        · have : indicesOf is (vs.length : Int) = [] := List.isEmpty_iff.mp he
          simp [Spec.stepItem, this, Sel.RepL]
      · have hch := arr_children_rep vs hgl a b
        have hlenps := RepL_length hch
        refine ⟨(indicesOf is (vs.length : Int)).filterMap
            ((layPos (entriesL vs) (a.length + 4 + vs.length * 4))[·]?), ?_, ?_⟩
        · simp only [selectByIndices, headerAt_arr vs hn a b _ rfl]
          rw [if_neg (by simp [h0])]
          simp only [he, Bool.false_eq_true, if_false, entriesAt_arr vs hgl a b _ rfl]
          rw [if_pos]
          simp only [List.all_eq_true, decide_eq_true_eq]
          intro j hj
          rw [hlenps]
          exact indicesOf_lt is vs.length (by omega) j hj
        · simp only [Spec.stepItem]
          exact RepL_pick hch _
  · have ⟨hn, _⟩ := goodTop_obj_parts hg
    refine ⟨[], ?_, trivial⟩
    simp only [selectByIndices, headerAt_obj kvs hn a b _ rfl]
    rw [if_pos (.inl (fun e => ne_arr_obj e.symm))]

/-! ### `select_path` and one step over the frontier -/

/-- the path kinds that are steps (everything except `$`, `@`, filters and arithmetic) -/
def isStep : Path → Bool
  | .dotWildcard | .bracketWildcard | .dotField _ | .colonField _ | .objectField _ | .arrayIndices _ => true
  | _ => false

theorem selectPath_rep (root : Bytes) (off len : Nat) (w : JV) (h : Sel.Rep root (.container off len) w)
    (p : Path) (hp : isStep p = true) :
    ∃ ps, selectPath root off len p = .ok ps ∧ Sel.RepL root ps (Spec.stepItem p w) := by
  cases p with
  | dotWildcard => exact selectObjectValues_rep root off len w h
  | bracketWildcard => exact selectArrayValues_rep root off len w h
  | dotField nm => exact selectByName_rep root off len w h nm
  | colonField nm =>
    obtain ⟨ps, h1, h2⟩ := selectByName_rep root off len w h nm
    refine ⟨ps, h1, ?_⟩
    cases w <;> exact h2
  | objectField nm =>
    obtain ⟨ps, h1, h2⟩ := selectByName_rep root off len w h nm
    refine ⟨ps, h1, ?_⟩
    cases w <;> exact h2
  | arrayIndices is => exact selectByIndices_rep root off len w h is
  | root => simp [isStep] at hp
  | current => simp [isStep] at hp
  | arithmeticExpr e => simp [isStep] at hp
  | filterExpr e => simp [isStep] at hp
  | predicate e => simp [isStep] at hp

def isBW : Path → Bool
  | .bracketWildcard => true
  | _ => false

/-- a scalar survives only `[*]` -/
theorem stepItem_scalar (p : Path) (w : JV) (hs : isScalar w = true) :
    Spec.stepItem p w = if isBW p then [w] else [] := by
  cases w <;> first | (simp [isScalar] at hs; done) | (cases p <;> simp [Spec.stepItem, isBW])

theorem stepAll_scalar (root : Bytes) (p : Path) (ty off len : Nat) (rest : List Pos) :
    stepAll root p (.scalar ty off len :: rest)
      = (stepAll root p rest).map (fun r => if isBW p then .scalar ty off len :: r else r) := by
  cases p <;> rfl

/-- **one step over the whole frontier**: succeeds, and the new frontier represents the
concatenation of the per-item results, in order -/
theorem stepAll_rep (root : Bytes) (p : Path) (hp : isStep p = true) :
    ∀ (ps : List Pos) (ws : List JV), Sel.RepL root ps ws →
      ∃ ps', stepAll root p ps = .ok ps' ∧ Sel.RepL root ps' (ws.flatMap (Spec.stepItem p))
  | [], [], _ => ⟨[], rfl, trivial⟩
  | [], _ :: _, h => h.elim
  | _ :: _, [], h => h.elim
  | .container off len :: ps, w :: ws, h => by
    obtain ⟨qs, hq1, hq2⟩ := selectPath_rep root off len w h.1 p hp
    obtain ⟨rs, hr1, hr2⟩ := stepAll_rep root p hp ps ws h.2
    refine ⟨qs ++ rs, ?_, ?_⟩
    · simp only [stepAll, hq1, hr1, Res.map, Res.bind]
    · simp only [List.flatMap_cons]
      exact RepL_append hq2 hr2
  | .scalar ty off len :: ps, w :: ws, h => by
    obtain ⟨rs, hr1, hr2⟩ := stepAll_rep root p hp ps ws h.2
    have hsc : isScalar w = true := h.1.1
    by_cases hb : isBW p = true
    · refine ⟨.scalar ty off len :: rs, ?_, ?_⟩
      · simp only [stepAll_scalar, hr1, Res.map, Res.bind, hb, if_true]
      · simp only [List.flatMap_cons, stepItem_scalar p w hsc, hb, if_true]
        exact ⟨h.1, hr2⟩
    · have hb' : isBW p = false := by simpa using hb
      refine ⟨rs, ?_, ?_⟩
      · simp only [stepAll_scalar, hr1, Res.map, Res.bind, hb', Bool.false_eq_true, if_false]
      · simp only [List.flatMap_cons, stepItem_scalar p w hsc, hb', Bool.false_eq_true, if_false, List.nil_append]
        exact hr2

end Jsonb
