/-
Root of the phase-7 agreement theorems (tools/rs2lean7.py → Generated/Translated7.lean): the public dispatchers of the
editors of functions.rs WITH their JSON-text branches (translated text parser → translated encoder → `_jsonb` half, or
the `Value`-level edit) against the whole-function models `T.*` of Functions/Text.lean.  See tools/RS2LEAN.md.
K1 the text step (`parse_value` + `write_to_vec` = `T.textToJsonb`), `DocOK` · K2 `array_distinct`, `object_delete`,
`object_pick` · K3 `array_insert`, `array_intersection`, `array_except`, `array_overlap`, `object_insert` ·
K4 `delete_by_index` · K5 `delete_by_name` · K6 `Value::array_length`, `array_length` · K7 `strip_value_nulls`, `strip_nulls` ·
K8 `concat_values`, `concat`.
-/
import JsonbModel.Proofs.TranslatedAgreeK1
import JsonbModel.Proofs.TranslatedAgreeK2
import JsonbModel.Proofs.TranslatedAgreeK3
import JsonbModel.Proofs.TranslatedAgreeK4
import JsonbModel.Proofs.TranslatedAgreeK5
import JsonbModel.Proofs.TranslatedAgreeK6
import JsonbModel.Proofs.TranslatedAgreeK7
import JsonbModel.Proofs.TranslatedAgreeK8
