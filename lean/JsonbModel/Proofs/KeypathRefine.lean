/-
C06 refinement, part 5: `delete_by_keypath` — the recursive descent along a key path, with
raw entries for untouched elements and nested builders along the path.
-/
import JsonbModel.Proofs.StripRefine

namespace Jsonb
open JV

/-! ### builder entries up to what they write -/

/-- `(type, length, payload)` of a stored value -/
def trip (v : JV) : Nat × Nat × Bytes := (ety v, elen v, (entry v).2)

theorem bspec_rawItem' (v : JV) : bspec (rawItem v) = trip v := bspec_rawItem v

theorem bL_congr : ∀ (es es' : List BEntry), es.map bspec = es'.map bspec →
    bwordsL es = bwordsL es' ∧ bpaysL es = bpaysL es' ∧ bsizeL es = bsizeL es' ∧ es.length = es'.length
  | [], [], _ => ⟨rfl, rfl, rfl, rfl⟩
  | [], _ :: _, h => by simp at h
  | _ :: _, [], h => by simp at h
  | e :: es, e' :: es', h => by
    simp only [List.map_cons, List.cons.injEq] at h
    obtain ⟨h1, h2, h3, h4⟩ := bL_congr es es' h.2
    simp only [bwordsL, bpaysL, bsizeL, h.1, h1, h2, h3, List.length_cons, h4, and_self]

def kb (kv : Bytes × BEntry) : Bytes × Nat × Nat × Bytes := (kv.1, bspec kv.2)
def kt (kv : Bytes × JV) : Bytes × Nat × Nat × Bytes := (kv.1, trip kv.2)

theorem bK_congr : ∀ (m m' : List (Bytes × BEntry)), m.map kb = m'.map kb →
    bkeyWords m = bkeyWords m' ∧ bwordsK m = bwordsK m' ∧ bkeyBytes m = bkeyBytes m' ∧ bpaysK m = bpaysK m'
      ∧ bsizeK m = bsizeK m' ∧ m.length = m'.length
  | [], [], _ => ⟨rfl, rfl, rfl, rfl, rfl, rfl⟩
  | [], _ :: _, h => by simp at h
  | _ :: _, [], h => by simp at h
  | (k, e) :: m, (k', e') :: m', h => by
    simp only [List.map_cons, List.cons.injEq, kb, Prod.mk.injEq] at h
    obtain ⟨h1, h2, h3, h4, h5, h6⟩ := bK_congr m m' h.2
    obtain ⟨⟨hk, he⟩, _⟩ := h
    subst hk
    simp only [bkeyWords, bwordsK, bkeyBytes, bpaysK, bsizeK, he, h1, h2, h3, h4, h5, List.length_cons, h6, and_self]

theorem bspec_arr_congr (es es' : List BEntry) (h : es.map bspec = es'.map bspec) :
    bspec (.arr es) = bspec (.arr es') := by
  obtain ⟨h1, h2, h3, h4⟩ := bL_congr es es' h
  simp only [bspec, h1, h2, h3, h4]

theorem bspec_obj_congr (m m' : List (Bytes × BEntry)) (h : m.map kb = m'.map kb) :
    bspec (.obj m) = bspec (.obj m') := by
  obtain ⟨h1, h2, h3, h4, h5, h6⟩ := bK_congr m m' h
  simp only [bspec, h1, h2, h3, h4, h5, h6]

theorem bsizeL_raw (vs : List JV) (hg : goodL vs = true) : bsizeL (vs.map rawItem) = (paysL vs).length := by
  induction vs with
  | nil => rfl
  | cons v vs ih =>
    simp only [goodL, Bool.and_eq_true] at hg
    have hl := elen_lt_of_good v hg.1
    simp only [List.map_cons, bsizeL, bspec_rawItem, paysL, List.length_append, ih hg.2]
    rw [Nat.mod_eq_of_lt (by omega)]; rfl

theorem bsizeK_raw (kvs : List (Bytes × JV)) (hg : goodK kvs = true) :
    bsizeK (kvs.map rawMember) = (paysK kvs).length := by
  induction kvs with
  | nil => rfl
  | cons kv kvs ih =>
    obtain ⟨k, v⟩ := kv
    simp only [goodK, Bool.and_eq_true] at hg
    have hl := elen_lt_of_good v hg.1.2
    simp only [List.map_cons, rawMember, bsizeK, bspec, paysK, List.length_append, ih hg.2]
    rw [Nat.mod_eq_of_lt (by omega)]; rfl

/-- a nested `ArrayBuilder` of raw items writes the same entry as the raw array -/
theorem bspec_arr_raw (ws : List JV) (hg : good (arr ws) = true) :
    bspec (.arr (ws.map rawItem)) = trip (arr ws) := by
  have hl := elen_lt_of_good _ hg
  simp only [good, Bool.and_eq_true, decide_eq_true_eq] at hg
  have hw : headerWord C.ARRAY_CONTAINER_TAG ws.length = C.ARRAY_CONTAINER_TAG + ws.length := by
    rw [tag_arr']; exact headerWord_eq 4 _ hg.1.1
  simp only [bspec, List.length_map, hw, bwordsL_raw ws hg.2, bpaysL_raw, bsizeL_raw ws hg.2, trip, ety]
  rw [← elen_arr, Nat.mod_eq_of_lt (by omega)]
  simp only [entry]

theorem bspec_obj_raw (ms : List (Bytes × JV)) (hg : good (obj ms) = true) :
    bspec (.obj (ms.map rawMember)) = trip (obj ms) := by
  have hl := elen_lt_of_good _ hg
  simp only [good, Bool.and_eq_true, decide_eq_true_eq] at hg
  have hw : headerWord C.OBJECT_CONTAINER_TAG ms.length = C.OBJECT_CONTAINER_TAG + ms.length := by
    rw [tag_obj']; exact headerWord_eq 2 _ hg.1.1.1
  simp only [bspec, List.length_map, hw, bkeyWords_raw ms hg.2, bwordsK_raw ms hg.2, bkeyBytes_raw, bpaysK_raw,
    bsizeK_raw ms hg.2, trip, ety]
  rw [← elen_obj, Nat.mod_eq_of_lt (by omega)]
  simp only [entry]

theorem map_kb_rawMember (kvs : List (Bytes × JV)) : (kvs.map rawMember).map kb = kvs.map kt := by
  induction kvs with
  | nil => rfl
  | cons kv kvs ih => simp only [List.map_cons, ih]; rfl

theorem map_bspec_rawItem (vs : List JV) : (vs.map rawItem).map bspec = vs.map trip := by
  induction vs with
  | nil => rfl
  | cons v vs ih => simp only [List.map_cons, ih, bspec_rawItem']

/-! ### list surgery -/

theorem split_at {α} (vs : List α) (idx : Nat) (h : idx < vs.length) :
    ∃ A w B, vs = A ++ w :: B ∧ A.length = idx := by
  induction vs generalizing idx with
  | nil => simp at h
  | cons v vs ih =>
    cases idx with
    | zero => exact ⟨[], v, vs, rfl, rfl⟩
    | succ n =>
      obtain ⟨A, w, B, h1, h2⟩ := ih n (by simpa using h)
      exact ⟨v :: A, w, B, by rw [h1]; rfl, by simp [h2]⟩

theorem removeAt_split {α} (A : List α) (w : α) (B : List α) : Fn.removeAt (A ++ w :: B) A.length = A ++ B := by
  induction A with
  | nil => rfl
  | cons a A ih => simp [Fn.removeAt, ih]

theorem set_split {α} (A : List α) (w w' : α) (B : List α) : (A ++ w :: B).set A.length w' = A ++ w' :: B := by
  induction A with
  | nil => rfl
  | cons a A ih => simp [ih]

theorem get_split {α} (A : List α) (w : α) (B : List α) : (A ++ w :: B)[A.length]? = some w := by
  induction A with
  | nil => rfl
  | cons a A ih => simp

theorem paysL_append (A B : List JV) : paysL (A ++ B) = paysL A ++ paysL B := by
  induction A with
  | nil => rfl
  | cons a A ih => simp [paysL, ih]

theorem paysK_append (A B : List (Bytes × JV)) : paysK (A ++ B) = paysK A ++ paysK B := by
  induction A with
  | nil => rfl
  | cons a A ih => obtain ⟨k, v⟩ := a; simp [paysK, ih]

theorem keyBytes_append (A B : List (Bytes × JV)) : keyBytes (A ++ B) = keyBytes A ++ keyBytes B := by
  induction A with
  | nil => rfl
  | cons a A ih => obtain ⟨k, v⟩ := a; simp [keyBytes, ih]

/-! ### the array loop of `delete_by_keypath` -/

def prependR (A : List BEntry) : Res (Option (List BEntry)) → Res (Option (List BEntry))
  | .ok (some es) => .ok (some (A ++ es))
  | r => r

theorem prependR_nil (r : Res (Option (List BEntry))) : prependR [] r = r := by
  cases r with
  | ok o => cases o <;> rfl
  | err e => rfl
  | panic s => rfl
  | fuel => rfl

/-- entries before the target index are copied -/
theorem walkA (kp : List KeyPath) (idx : Nat) (B : List (JE × Bytes)) :
    ∀ (A : List JV) (i fuel : Nat), i + A.length = idx → A.length ≤ fuel →
      Fn.delArrItems fuel kp (A.map itemOf ++ B) idx i
        = prependR (A.map rawItem) (Fn.delArrItems (fuel - A.length) kp B idx idx)
  | [], i, fuel, hi, _ => by
    simp only [List.length_nil, Nat.add_zero] at hi
    subst hi
    simp [prependR_nil]
  | a :: A, i, fuel, hi, hf => by
    simp only [List.length_cons] at hi hf
    match fuel, hf with
    | f + 1, hf =>
      have hne : i ≠ idx := by omega
      have ih := walkA kp idx B A (i + 1) f (by omega) (by omega)
      simp only [List.map_cons, List.cons_append, itemOf, Fn.delArrItems, hne, ne_eq, not_false_eq_true, if_true]
      rw [ih]
      have e : f + 1 - (A.length + 1) = f - A.length := by omega
      rw [List.length_cons, e]
      cases Fn.delArrItems (f - A.length) kp B idx idx with
      | ok o => cases o <;> rfl
      | err e => rfl
      | panic s => rfl
      | fuel => rfl

/-- entries after the target index are copied -/
theorem missA (kp : List KeyPath) (idx : Nat) :
    ∀ (A : List JV) (i fuel : Nat), idx < i → A.length + 1 ≤ fuel →
      Fn.delArrItems fuel kp (A.map itemOf) idx i = .ok (some (A.map rawItem))
  | [], i, fuel, _, hf => by
    match fuel, hf with
    | f + 1, _ => simp [Fn.delArrItems]
  | a :: A, i, fuel, hi, hf => by
    simp only [List.length_cons] at hf
    match fuel, hf with
    | f + 1, hf =>
      have hne : i ≠ idx := by omega
      have ih := missA kp idx A (i + 1) f (by omega) (by omega)
      simp only [List.map_cons, itemOf, Fn.delArrItems, hne, ne_eq, not_false_eq_true, if_true]
      rw [ih]
      rfl

/-- at the target with an exhausted path: the element is dropped -/
theorem hit_del (idx : Nat) (w : JV) (B : List JV) (f : Nat) (hf : B.length + 1 ≤ f) :
    Fn.delArrItems (f + 1) [] (itemOf w :: B.map itemOf) idx idx = .ok (some (B.map rawItem)) := by
  simp only [itemOf, Fn.delArrItems, ne_eq, not_true_eq_false, if_false, List.isEmpty_nil, if_true]
  have := missA [] idx B (idx + 1) f (by omega) hf
  exact this

theorem hit_scalar (kp : List KeyPath) (hkp : kp.isEmpty = false) (idx : Nat) (w : JV)
    (hs : Spec.isScalar w = true) (rest : List (JE × Bytes)) (f : Nat) :
    Fn.delArrItems (f + 1) kp (itemOf w :: rest) idx idx = .ok none := by
  have hc : ¬ ety w = C.CONTAINER_TAG := by rw [ety_container_iff, hs]; simp
  simp only [itemOf, Fn.delArrItems, ne_eq, not_true_eq_false, if_false, hkp, Bool.false_eq_true, hc]

theorem hit_arr (kp : List KeyPath) (hkp : kp.isEmpty = false) (idx : Nat) (ws : List JV)
    (hg : good (arr ws) = true) (B : List JV) (f : Nat) (hf : B.length + 1 ≤ f)
    (R : Option (List BEntry))
    (hsub : Fn.delArrKp f kp (C.ARRAY_CONTAINER_TAG + ws.length) (entry (arr ws)).2 = .ok R) :
    Fn.delArrItems (f + 1) kp (itemOf (arr ws) :: B.map itemOf) idx idx
      = .ok (R.map (fun sub => .arr sub :: B.map rawItem)) := by
  have hgt := goodTop_of_good _ hg
  have hdr := readHdr (arr ws) hgt
  simp only [hdrOf, encodeSpec] at hdr
  have hn : ws.length < 536870912 := by
    simp only [good, Bool.and_eq_true, decide_eq_true_eq] at hg; exact hg.1.1
  have hm := missA [] idx B (idx + 1) f (by omega) hf
  simp only [itemOf, Fn.delArrItems, ne_eq, not_true_eq_false, if_false, hkp, Bool.false_eq_true, ety, if_true,
    hdr, hdrType_arr _ hn, hsub]
  cases R with
  | none => rfl
  | some sub => simp only [hm, Option.map_some]

theorem hit_obj (kp : List KeyPath) (hkp : kp.isEmpty = false) (idx : Nat) (ms : List (Bytes × JV))
    (hg : good (obj ms) = true) (B : List JV) (f : Nat) (hf : B.length + 1 ≤ f)
    (R : Option (List (Bytes × BEntry)))
    (hsub : Fn.delObjKp f kp (C.OBJECT_CONTAINER_TAG + ms.length) (entry (obj ms)).2 = .ok R) :
    Fn.delArrItems (f + 1) kp (itemOf (obj ms) :: B.map itemOf) idx idx
      = .ok (R.map (fun sub => .obj sub :: B.map rawItem)) := by
  have hgt := goodTop_of_good _ hg
  have hdr := readHdr (obj ms) hgt
  simp only [hdrOf, encodeSpec] at hdr
  have hn : ms.length < 536870912 := by
    simp only [good, Bool.and_eq_true, decide_eq_true_eq] at hg; exact hg.1.1.1
  have hm := missA [] idx B (idx + 1) f (by omega) hf
  simp only [itemOf, Fn.delArrItems, ne_eq, not_true_eq_false, if_false, hkp, Bool.false_eq_true, ety, if_true,
    hdr, hdrType_obj _ hn, ne_obj_arr, hsub]
  cases R with
  | none => rfl
  | some sub => simp only [hm, Option.map_some]

/-! ### the object loop of `delete_by_keypath` -/

/-- members with a different key are pushed unchanged -/
theorem walkO (kp : List KeyPath) (nm : Bytes) (B : List (Bytes × JE × Bytes)) :
    ∀ (A : List (Bytes × JV)) (acc : List (Bytes × BEntry)) (fuel : Nat),
      (∀ kv ∈ A, (kv.1 != nm) = true) → A.length ≤ fuel →
      Fn.delObjMembers fuel kp nm (A.map memberOf ++ B) acc
        = Fn.delObjMembers (fuel - A.length) kp nm B (Fn.pushAll acc (A.map rawMember))
  | [], acc, fuel, _, _ => by simp [Fn.pushAll]
  | (k, v) :: A, acc, fuel, hA, hf => by
    simp only [List.length_cons] at hf
    match fuel, hf with
    | f + 1, hf =>
      have hk : (k != nm) = true := hA (k, v) (by simp)
      have ih := walkO kp nm B A (bInsert k (.raw (ety v) (elen v) (entry v).2) acc) f
        (fun kv hkv => hA kv (by simp [hkv])) (by omega)
      simp only [List.map_cons, List.cons_append, memberOf, Fn.delObjMembers, hk, if_true]
      rw [ih]
      have e : f + 1 - (A.length + 1) = f - A.length := by omega
      rw [List.length_cons, e]
      rfl

theorem missO (kp : List KeyPath) (nm : Bytes) (A : List (Bytes × JV)) (acc : List (Bytes × BEntry))
    (fuel : Nat) (hA : ∀ kv ∈ A, (kv.1 != nm) = true) (hf : A.length + 1 ≤ fuel) :
    Fn.delObjMembers fuel kp nm (A.map memberOf) acc = .ok (some (Fn.pushAll acc (A.map rawMember))) := by
  have := walkO kp nm [] A acc fuel hA (by omega)
  simp only [List.append_nil] at this
  rw [this]
  have : ∃ f, fuel - A.length = f + 1 := ⟨fuel - A.length - 1, by omega⟩
  obtain ⟨f, hf'⟩ := this
  rw [hf']
  simp [Fn.delObjMembers]

theorem hitO_del (nm : Bytes) (w : JV) (B : List (Bytes × JV)) (acc : List (Bytes × BEntry)) (f : Nat)
    (hB : ∀ kv ∈ B, (kv.1 != nm) = true) (hf : B.length + 1 ≤ f) :
    Fn.delObjMembers (f + 1) [] nm (memberOf (nm, w) :: B.map memberOf) acc
      = .ok (some (Fn.pushAll acc (B.map rawMember))) := by
  simp only [memberOf, Fn.delObjMembers, bne_self_eq_false, Bool.false_eq_true, if_false, List.isEmpty_nil, if_true]
  exact missO [] nm B acc f hB hf

theorem hitO_scalar (kp : List KeyPath) (hkp : kp.isEmpty = false) (nm : Bytes) (w : JV)
    (hs : Spec.isScalar w = true) (rest : List (Bytes × JE × Bytes)) (acc : List (Bytes × BEntry)) (f : Nat) :
    Fn.delObjMembers (f + 1) kp nm (memberOf (nm, w) :: rest) acc = .ok none := by
  have hc : ¬ ety w = C.CONTAINER_TAG := by rw [ety_container_iff, hs]; simp
  simp only [memberOf, Fn.delObjMembers, bne_self_eq_false, Bool.false_eq_true, if_false, hkp, hc]

theorem hitO_arr (kp : List KeyPath) (hkp : kp.isEmpty = false) (nm : Bytes) (ws : List JV)
    (hg : good (arr ws) = true) (B : List (Bytes × JV)) (acc : List (Bytes × BEntry)) (f : Nat)
    (hB : ∀ kv ∈ B, (kv.1 != nm) = true) (hf : B.length + 1 ≤ f)
    (R : Option (List BEntry))
    (hsub : Fn.delArrKp f kp (C.ARRAY_CONTAINER_TAG + ws.length) (entry (arr ws)).2 = .ok R) :
    Fn.delObjMembers (f + 1) kp nm (memberOf (nm, arr ws) :: B.map memberOf) acc
      = .ok (R.map (fun sub => Fn.pushAll (bInsert nm (.arr sub) acc) (B.map rawMember))) := by
  have hgt := goodTop_of_good _ hg
  have hdr := readHdr (arr ws) hgt
  simp only [hdrOf, encodeSpec] at hdr
  have hn : ws.length < 536870912 := by
    simp only [good, Bool.and_eq_true, decide_eq_true_eq] at hg; exact hg.1.1
  simp only [memberOf, Fn.delObjMembers, bne_self_eq_false, Bool.false_eq_true, if_false, hkp, ety, if_true,
    hdr, hdrType_arr _ hn, hsub]
  cases R with
  | none => rfl
  | some sub =>
    simp only [Option.map_some]
    exact missO [] nm B _ f hB hf

theorem hitO_obj (kp : List KeyPath) (hkp : kp.isEmpty = false) (nm : Bytes) (ms : List (Bytes × JV))
    (hg : good (obj ms) = true) (B : List (Bytes × JV)) (acc : List (Bytes × BEntry)) (f : Nat)
    (hB : ∀ kv ∈ B, (kv.1 != nm) = true) (hf : B.length + 1 ≤ f)
    (R : Option (List (Bytes × BEntry)))
    (hsub : Fn.delObjKp f kp (C.OBJECT_CONTAINER_TAG + ms.length) (entry (obj ms)).2 = .ok R) :
    Fn.delObjMembers (f + 1) kp nm (memberOf (nm, obj ms) :: B.map memberOf) acc
      = .ok (R.map (fun sub => Fn.pushAll (bInsert nm (.obj sub) acc) (B.map rawMember))) := by
  have hgt := goodTop_of_good _ hg
  have hdr := readHdr (obj ms) hgt
  simp only [hdrOf, encodeSpec] at hdr
  have hn : ms.length < 536870912 := by
    simp only [good, Bool.and_eq_true, decide_eq_true_eq] at hg; exact hg.1.1.1
  simp only [memberOf, Fn.delObjMembers, bne_self_eq_false, Bool.false_eq_true, if_false, hkp, ety, if_true,
    hdr, hdrType_obj _ hn, ne_obj_arr, hsub]
  cases R with
  | none => rfl
  | some sub =>
    simp only [Option.map_some]
    exact missO [] nm B _ f hB hf

/-! ### the simulation invariant -/

/-- result of the array recursion against the tree-level result `o` -/
def ArrOut (vs : List JV) (o : Option JV) (R : Option (List BEntry)) : Prop :=
  match o with
  | none => R = none
  | some r => ∃ es vs', r = arr vs' ∧ R = some es ∧ es.map bspec = vs'.map trip ∧ goodL vs' = true
      ∧ vs'.length ≤ vs.length ∧ (paysL vs').length ≤ (paysL vs).length

def ObjOut (kvs : List (Bytes × JV)) (o : Option JV) (R : Option (List (Bytes × BEntry))) : Prop :=
  match o with
  | none => R = none
  | some r => ∃ m kvs', r = obj kvs' ∧ R = some m ∧ m.map kb = kvs'.map kt ∧ goodK kvs' = true
      ∧ keysSorted kvs' = true ∧ kvs'.length ≤ kvs.length
      ∧ (keyBytes kvs').length ≤ (keyBytes kvs).length ∧ (paysK kvs').length ≤ (paysK kvs).length

def ArrStmt (kp : List KeyPath) : Prop :=
  ∀ vs, goodL vs = true → vs.length < 536870912 → ∀ fuel, elen (arr vs) + 2 * kp.length ≤ fuel →
    ∃ R, Fn.delArrKp fuel kp (C.ARRAY_CONTAINER_TAG + vs.length) (entry (arr vs)).2 = .ok R
      ∧ ArrOut vs (Spec.delKp (arr vs) kp) R

def ObjStmt (kp : List KeyPath) : Prop :=
  ∀ kvs, goodK kvs = true → keysSorted kvs = true → kvs.length < 536870912 →
    ∀ fuel, elen (obj kvs) + 2 * kp.length ≤ fuel →
    ∃ R, Fn.delObjKp fuel kp (C.OBJECT_CONTAINER_TAG + kvs.length) (entry (obj kvs)).2 = .ok R
      ∧ ObjOut kvs (Spec.delKp (obj kvs) kp) R

theorem goodL_mid (A : List JV) (w : JV) (B : List JV) :
    goodL (A ++ w :: B) = (goodL A && (good w && goodL B)) := by
  rw [goodL_append]; rfl

theorem isEmpty_false_length {α} (l : List α) (h : l.isEmpty = false) : 1 ≤ l.length := by
  cases l with
  | nil => simp at h
  | cons a l => simp

/-- one level of the array recursion, given the statement for the rest of the path -/
theorem arrStep (kp : List KeyPath) (ihA : ArrStmt kp) (ihO : ObjStmt kp)
    (A : List JV) (w : JV) (B : List JV) (hg : goodL (A ++ w :: B) = true)
    (F : Nat) (hF : elen (arr (A ++ w :: B)) + 2 * kp.length + 1 ≤ F) :
    ∃ R, Fn.delArrItems F kp ((A ++ w :: B).map itemOf) A.length 0 = .ok R
      ∧ ArrOut (A ++ w :: B)
          (if kp.isEmpty then some (arr (A ++ B))
           else if Spec.isScalar w then none
           else (Spec.delKp w kp).map (fun w' => arr (A ++ w' :: B))) R := by
  rw [goodL_mid] at hg
  simp only [Bool.and_eq_true] at hg
  obtain ⟨hgA, hgw, hgB⟩ := hg
  have hlen : (A ++ w :: B).length = A.length + 1 + B.length := by simp; omega
  have hpay : (paysL (A ++ w :: B)).length = (paysL A).length + elen w + (paysL B).length := by
    rw [paysL_append]; simp [paysL, elen]; omega
  have hel := elen_arr (A ++ w :: B)
  rw [hlen, hpay] at hel
  rw [hel] at hF
  have hmap : (A ++ w :: B).map itemOf = A.map itemOf ++ (itemOf w :: B.map itemOf) := by simp
  have hwalk := walkA kp A.length (itemOf w :: B.map itemOf) A 0 F (by simp) (by omega)
  obtain ⟨f, hf⟩ : ∃ f, F - A.length = f + 1 := ⟨F - A.length - 1, by omega⟩
  rw [hmap, hwalk, hf]
  cases hkp : kp.isEmpty with
  | true =>
    have : kp = [] := by cases kp <;> simp_all
    subst this
    rw [hit_del A.length w B f (by omega)]
    refine ⟨some (A.map rawItem ++ B.map rawItem), rfl, ?_⟩
    simp only [if_true, ArrOut]
    refine ⟨_, A ++ B, rfl, rfl, ?_, ?_, ?_, ?_⟩
    · rw [← List.map_append, map_bspec_rawItem]
    · rw [goodL_append, hgA, hgB]; rfl
    · simp
    · rw [paysL_append, hpay]; simp
  | false =>
    simp only [Bool.false_eq_true, if_false]
    have hkl := isEmpty_false_length kp hkp
    cases hs : Spec.isScalar w with
    | true =>
      rw [hit_scalar kp hkp A.length w hs _ f]
      exact ⟨none, rfl, by simp [ArrOut]⟩
    | false =>
      simp only [Bool.false_eq_true, if_false]
      cases w with
      | arr ws =>
        have hgw' := hgw
        simp only [good, Bool.and_eq_true, decide_eq_true_eq] at hgw'
        obtain ⟨R', hsub, hout⟩ := ihA ws hgw'.2 hgw'.1.1 f (by omega)
        rw [hit_arr kp hkp A.length ws hgw B f (by omega) R' hsub]
        cases hd : Spec.delKp (arr ws) kp with
        | none =>
          rw [hd] at hout
          simp only [ArrOut] at hout
          subst hout
          exact ⟨none, rfl, by simp [ArrOut]⟩
        | some r =>
          rw [hd] at hout
          simp only [ArrOut] at hout
          obtain ⟨es, ws', hr, hR, henc, hgws', hl1, hl2⟩ := hout
          subst hr; subst hR
          refine ⟨some (A.map rawItem ++ BEntry.arr es :: B.map rawItem), rfl, ?_⟩
          simp only [Option.map_some, ArrOut]
          have hgood' : good (arr ws') = true := by
            have h1 := elen_arr ws
            have h2 := elen_arr ws'
            simp only [good, Bool.and_eq_true, decide_eq_true_eq]
            simp only [elen] at h1 h2
            exact ⟨⟨by omega, by omega⟩, hgws'⟩
          refine ⟨_, A ++ arr ws' :: B, rfl, rfl, ?_, ?_, ?_, ?_⟩
          · simp only [List.map_append, List.map_cons, map_bspec_rawItem]
            rw [bspec_arr_congr es (ws'.map rawItem) (by rw [henc, map_bspec_rawItem]), bspec_arr_raw ws' hgood']
          · rw [goodL_mid, hgA, hgood', hgB]; rfl
          · simp
          · rw [paysL_append, hpay]
            have h1 := elen_arr ws
            have h2 := elen_arr ws'
            simp only [paysL, List.length_append]
            simp only [elen] at h1 h2 ⊢
            omega
      | obj ms =>
        have hgw' := hgw
        simp only [good, Bool.and_eq_true, decide_eq_true_eq] at hgw'
        obtain ⟨R', hsub, hout⟩ := ihO ms hgw'.2 hgw'.1.2 hgw'.1.1.1 f (by omega)
        rw [hit_obj kp hkp A.length ms hgw B f (by omega) R' hsub]
        cases hd : Spec.delKp (obj ms) kp with
        | none =>
          rw [hd] at hout
          simp only [ObjOut] at hout
          subst hout
          exact ⟨none, rfl, by simp [ArrOut]⟩
        | some r =>
          rw [hd] at hout
          simp only [ObjOut] at hout
          obtain ⟨m, ms', hr, hR, henc, hgms', hsms', hl1, hl2, hl3⟩ := hout
          subst hr; subst hR
          refine ⟨some (A.map rawItem ++ BEntry.obj m :: B.map rawItem), rfl, ?_⟩
          simp only [Option.map_some, ArrOut]
          have hgood' : good (obj ms') = true := by
            have h1 := elen_obj ms
            have h2 := elen_obj ms'
            simp only [good, Bool.and_eq_true, decide_eq_true_eq]
            simp only [elen] at h1 h2
            exact ⟨⟨⟨by omega, by omega⟩, hsms'⟩, hgms'⟩
          refine ⟨_, A ++ obj ms' :: B, rfl, rfl, ?_, ?_, ?_, ?_⟩
          · simp only [List.map_append, List.map_cons, map_bspec_rawItem]
            rw [bspec_obj_congr m (ms'.map rawMember) (by rw [henc, map_kb_rawMember]), bspec_obj_raw ms' hgood']
          · rw [goodL_mid, hgA, hgood', hgB]; rfl
          · simp
          · rw [paysL_append, hpay]
            have h1 := elen_obj ms
            have h2 := elen_obj ms'
            simp only [paysL, List.length_append]
            simp only [elen] at h1 h2 ⊢
            omega
      | null => simp [Spec.isScalar] at hs
      | bool b => simp [Spec.isScalar] at hs
      | num n => simp [Spec.isScalar] at hs
      | str s => simp [Spec.isScalar] at hs

/-! ### one level of the object recursion -/

theorem takeWhile_all {α} (p : α → Bool) (l : List α) : ∀ x ∈ l.takeWhile p, p x = true := by
  induction l with
  | nil => intro x hx; simp at hx
  | cons a l ih =>
    intro x hx
    simp only [List.takeWhile_cons] at hx
    split at hx
    · rename_i ha
      simp only [List.mem_cons] at hx
      rcases hx with h | h
      · subst h; exact ha
      · exact ih x h
    · simp at hx

theorem dropWhile_head_false {α} (p : α → Bool) (l : List α) (x : α) (B : List α)
    (h : l.dropWhile p = x :: B) : p x = false := by
  induction l with
  | nil => simp at h
  | cons a l ih =>
    simp only [List.dropWhile_cons] at h
    split at h
    · exact ih h
    · rename_i ha
      simp only [List.cons.injEq] at h
      rw [← h.1]; simpa using ha

theorem removeKey_all_ne (nm : Bytes) (kvs : List (Bytes × JV)) (h : ∀ kv ∈ kvs, (kv.1 != nm) = true) :
    Spec.removeKey nm kvs = kvs := by
  unfold Spec.removeKey
  exact List.filter_eq_self.mpr h

theorem lookup_none_ne (nm : Bytes) (kvs : List (Bytes × JV)) (h : ∀ kv ∈ kvs, (kv.1 != nm) = true) :
    Spec.lookup nm kvs = none := by
  induction kvs with
  | nil => rfl
  | cons kv kvs ih =>
    obtain ⟨k, v⟩ := kv
    have h1 : (k != nm) = true := h (k, v) (by simp)
    have h2 : (k == nm) = false := by simpa [bne] using h1
    simp only [Spec.lookup, h2, Bool.false_eq_true, if_false]
    exact ih (fun kv hkv => h kv (by simp [hkv]))

theorem lookup_split (nm : Bytes) (A : List (Bytes × JV)) (w : JV) (B : List (Bytes × JV))
    (hA : ∀ kv ∈ A, (kv.1 != nm) = true) : Spec.lookup nm (A ++ (nm, w) :: B) = some w := by
  induction A with
  | nil => simp [Spec.lookup]
  | cons kv A ih =>
    obtain ⟨k, v⟩ := kv
    have h1 : (k != nm) = true := hA (k, v) (by simp)
    have h2 : (k == nm) = false := by simpa [bne] using h1
    simp only [List.cons_append, Spec.lookup, h2, Bool.false_eq_true, if_false]
    exact ih (fun kv hkv => hA kv (by simp [hkv]))

theorem removeKey_split (nm : Bytes) (A : List (Bytes × JV)) (w : JV) (B : List (Bytes × JV))
    (hA : ∀ kv ∈ A, (kv.1 != nm) = true) (hB : ∀ kv ∈ B, (kv.1 != nm) = true) :
    Spec.removeKey nm (A ++ (nm, w) :: B) = A ++ B := by
  unfold Spec.removeKey
  rw [List.filter_append, List.filter_cons]
  simp only [bne_self_eq_false, Bool.false_eq_true, if_false]
  rw [List.filter_eq_self.mpr hA, List.filter_eq_self.mpr hB]

theorem replace_split (nm : Bytes) (A : List (Bytes × JV)) (w w' : JV) (B : List (Bytes × JV))
    (hA : ∀ kv ∈ A, (kv.1 != nm) = true) (hB : ∀ kv ∈ B, (kv.1 != nm) = true) :
    (A ++ (nm, w) :: B).map (fun kv => if (kv.1 == nm) = true then (kv.1, w') else kv) = A ++ (nm, w') :: B := by
  have hid : ∀ (L : List (Bytes × JV)), (∀ kv ∈ L, (kv.1 != nm) = true) →
      L.map (fun kv => if (kv.1 == nm) = true then (kv.1, w') else kv) = L := by
    intro L hL
    induction L with
    | nil => rfl
    | cons kv L ih =>
      have h1 : (kv.1 != nm) = true := hL kv (by simp)
      have h2 : (kv.1 == nm) = false := by simpa [bne] using h1
      simp only [List.map_cons, h2, Bool.false_eq_true, if_false]
      rw [ih (fun kv hkv => hL kv (by simp [hkv]))]
  rw [List.map_append, List.map_cons, hid A hA, hid B hB]
  simp

theorem map_fst_rawMember (kvs : List (Bytes × JV)) : (kvs.map rawMember).map (·.1) = kvs.map (·.1) := by
  induction kvs with
  | nil => rfl
  | cons kv kvs ih => simp only [List.map_cons, ih]; rfl

/-- the final map of `delete_jsonb_object_by_keypath`: the members before, the rebuilt member,
the members after -/
theorem assemble (A : List (Bytes × JV)) (nm : Bytes) (w : JV) (B : List (Bytes × JV)) (e : BEntry)
    (hs : keysSorted (A ++ (nm, w) :: B) = true) :
    Fn.pushAll (bInsert nm e (Fn.pushAll [] (A.map rawMember))) (B.map rawMember)
      = A.map rawMember ++ (nm, e) :: B.map rawMember := by
  have hpw := (keysSorted_iff_pairwise _).mp hs
  rw [List.pairwise_append, List.pairwise_cons] at hpw
  obtain ⟨hpa, ⟨hnb, hpb⟩, hab⟩ := hpw
  have hsa : keysSorted A = true := (keysSorted_iff_pairwise _).mpr hpa
  have hsb : keysSorted B = true := (keysSorted_iff_pairwise _).mpr hpb
  rw [pushAll_sorted A hsa]
  have hlt : BLt (A.map rawMember) nm := by
    intro kv hkv
    simp only [List.mem_map] at hkv
    obtain ⟨a, ha, rfl⟩ := hkv
    exact hab a ha (nm, w) (by simp)
  rw [bInsert_append _ nm e hlt]
  have hinc : KeysInc ((B.map rawMember).map (·.1)) := by
    rw [map_fst_rawMember]; exact (keysSorted_iff_inc B).mp hsb
  rw [pushAll_inc _ _ hinc]
  · simp
  · intro kv hkv kv' hkv'
    simp only [List.mem_map] at hkv
    obtain ⟨b, hb, rfl⟩ := hkv
    simp only [List.mem_append, List.mem_map, List.mem_singleton] at hkv'
    rcases hkv' with ⟨a, ha, rfl⟩ | h
    · exact hab a ha b (by simp [hb])
    · subst h; exact hnb b hb

theorem goodK_mid (A : List (Bytes × JV)) (kv : Bytes × JV) (B : List (Bytes × JV)) :
    goodK (A ++ kv :: B) = (goodK A && (goodK [kv] && goodK B)) := by
  rw [goodK_append]
  have : kv :: B = [kv] ++ B := rfl
  rw [this, goodK_append]

theorem keysSorted_same_keys (a b : List (Bytes × JV)) (h : a.map (·.1) = b.map (·.1))
    (hs : keysSorted a = true) : keysSorted b = true := by
  rw [keysSorted_iff_inc] at hs ⊢; rw [← h]; exact hs

theorem ne_of_lt {a b : Bytes} (h : lexCmp a b = .lt) : (b != a) = true := by
  have : ¬ b = a := by
    intro e; subst e; rw [lexCmp_refl] at h; exact Ordering.noConfusion h
  simpa [bne] using this

theorem objStep (kp : List KeyPath) (nm : Bytes) (ihA : ArrStmt kp) (ihO : ObjStmt kp)
    (kvs : List (Bytes × JV)) (hg : goodK kvs = true) (hs : keysSorted kvs = true)
    (F : Nat) (hF : elen (obj kvs) + 2 * kp.length + 1 ≤ F) :
    ∃ R, Fn.delObjMembers F kp nm (kvs.map memberOf) [] = .ok R
      ∧ ObjOut kvs (Spec.delKp.delKpObj kvs nm kp (fun x => Spec.delKp x kp)) R := by
  have hsplit : kvs.takeWhile (fun kv => kv.1 != nm) ++ kvs.dropWhile (fun kv => kv.1 != nm) = kvs :=
    List.takeWhile_append_dropWhile
  have hAne := takeWhile_all (fun kv : Bytes × JV => kv.1 != nm) kvs
  generalize hA : kvs.takeWhile (fun kv => kv.1 != nm) = A at hsplit hAne
  have hel := elen_obj kvs
  rw [hel] at hF
  cases hB : kvs.dropWhile (fun kv => kv.1 != nm) with
  | nil =>
    rw [hB, List.append_nil] at hsplit
    subst hsplit
    have hres : Spec.delKp.delKpObj A nm kp (fun x => Spec.delKp x kp) = some (obj A) := by
      simp only [Spec.delKp.delKpObj, removeKey_all_ne nm A hAne, lookup_none_ne nm A hAne]
      split <;> rfl
    rw [hres, missO kp nm A [] F hAne (by omega), pushAll_sorted A hs]
    refine ⟨_, rfl, ?_⟩
    simp only [ObjOut]
    exact ⟨_, A, rfl, rfl, map_kb_rawMember A, hg, hs, Nat.le_refl _, Nat.le_refl _, Nat.le_refl _⟩
  | cons kv B =>
    obtain ⟨k, w⟩ := kv
    have hk : k = nm := by
      have := dropWhile_head_false (fun kv : Bytes × JV => kv.1 != nm) kvs (k, w) B hB
      simpa [bne] using this
    subst hk
    rw [hB] at hsplit
    subst hsplit
    -- sortedness facts
    have hpw := (keysSorted_iff_pairwise _).mp hs
    rw [List.pairwise_append, List.pairwise_cons] at hpw
    obtain ⟨hpa, ⟨hnb, hpb⟩, hab⟩ := hpw
    have hBne : ∀ kv ∈ B, (kv.1 != k) = true := fun kv hkv => ne_of_lt (hnb kv hkv)
    rw [goodK_mid] at hg
    simp only [Bool.and_eq_true] at hg
    obtain ⟨hgA, hgkw, hgB⟩ := hg
    have hgkw' := hgkw
    simp only [goodK, Bool.and_eq_true, Bool.and_true] at hgkw'
    have hgw : good w = true := hgkw'.2
    have hlen : (A ++ (k, w) :: B).length = A.length + 1 + B.length := by simp; omega
    have hpay : (paysK (A ++ (k, w) :: B)).length = (paysK A).length + elen w + (paysK B).length := by
      rw [paysK_append]; simp [paysK, elen]; omega
    have hkb : (keyBytes (A ++ (k, w) :: B)).length = (keyBytes A).length + k.length + (keyBytes B).length := by
      rw [keyBytes_append]; simp [keyBytes]; omega
    rw [hlen, hpay, hkb] at hF
    have hmap : (A ++ (k, w) :: B).map memberOf = A.map memberOf ++ (memberOf (k, w) :: B.map memberOf) := by simp
    have hwalk := walkO kp k (memberOf (k, w) :: B.map memberOf) A [] F hAne (by omega)
    obtain ⟨f, hf⟩ : ∃ f, F - A.length = f + 1 := ⟨F - A.length - 1, by omega⟩
    rw [hmap, hwalk, hf]
    simp only [Spec.delKp.delKpObj, lookup_split k A w B hAne, removeKey_split k A w B hAne hBne]
    cases hkp : kp.isEmpty with
    | true =>
      have : kp = [] := by cases kp <;> simp_all
      subst this
      rw [hitO_del k w B _ f hBne (by omega)]
      have e : Fn.pushAll (Fn.pushAll [] (A.map rawMember)) (B.map rawMember)
          = Fn.pushAll [] ((A ++ B).map rawMember) := by
        simp only [Fn.pushAll, List.map_append, List.foldl_append]
      have hsAB : keysSorted (A ++ B) = true :=
        keysSorted_sublist (List.Sublist.append_left (List.Sublist.cons _ (List.Sublist.refl B)) A) hs
      rw [e, pushAll_sorted _ hsAB]
      refine ⟨_, rfl, ?_⟩
      simp only [if_true, ObjOut]
      refine ⟨_, A ++ B, rfl, rfl, map_kb_rawMember _, ?_, hsAB, ?_, ?_, ?_⟩
      · rw [goodK_append, hgA, hgB]; rfl
      · simp
      · rw [keyBytes_append, hkb]; simp
      · rw [paysK_append, hpay]; simp
    | false =>
      simp only [Bool.false_eq_true, if_false]
      have hkl := isEmpty_false_length kp hkp
      cases hsc : Spec.isScalar w with
      | true =>
        rw [hitO_scalar kp hkp k w hsc _ _ f]
        exact ⟨none, rfl, by simp [ObjOut]⟩
      | false =>
        simp only [Bool.false_eq_true, if_false]
        cases w with
        | arr ws =>
          have hgw' := hgw
          simp only [good, Bool.and_eq_true, decide_eq_true_eq] at hgw'
          obtain ⟨R', hsub, hout⟩ := ihA ws hgw'.2 hgw'.1.1 f (by omega)
          rw [hitO_arr kp hkp k ws hgw B _ f hBne (by omega) R' hsub]
          cases hd : Spec.delKp (arr ws) kp with
          | none =>
            rw [hd] at hout
            simp only [ArrOut] at hout
            subst hout
            exact ⟨none, rfl, by simp [ObjOut]⟩
          | some r =>
            rw [hd] at hout
            simp only [ArrOut] at hout
            obtain ⟨es, ws', hr, hR, henc, hgws', hl1, hl2⟩ := hout
            subst hr; subst hR
            simp only [Option.map_some, assemble A k (arr ws) B _ hs, replace_split k A _ _ B hAne hBne]
            refine ⟨_, rfl, ?_⟩
            simp only [ObjOut]
            have hgood' : good (arr ws') = true := by
              have h1 := elen_arr ws
              have h2 := elen_arr ws'
              simp only [good, Bool.and_eq_true, decide_eq_true_eq]
              simp only [elen] at h1 h2
              exact ⟨⟨by omega, by omega⟩, hgws'⟩
            refine ⟨_, A ++ (k, arr ws') :: B, rfl, rfl, ?_, ?_, ?_, ?_, ?_, ?_⟩
            · simp only [List.map_append, List.map_cons, map_kb_rawMember, kb, kt]
              rw [bspec_arr_congr es (ws'.map rawItem) (by rw [henc, map_bspec_rawItem]), bspec_arr_raw ws' hgood']
            · rw [goodK_mid, hgA, hgB]
              simp only [goodK, Bool.and_true, Bool.true_and, Bool.and_eq_true]
              exact ⟨hgkw'.1, hgood'⟩
            · exact keysSorted_same_keys _ _ (by simp) hs
            · simp
            · rw [keyBytes_append, hkb]; simp [keyBytes]; omega
            · rw [paysK_append, hpay]
              have h1 := elen_arr ws
              have h2 := elen_arr ws'
              simp only [paysK, List.length_append]
              simp only [elen] at h1 h2 ⊢
              omega
        | obj ms =>
          have hgw' := hgw
          simp only [good, Bool.and_eq_true, decide_eq_true_eq] at hgw'
          obtain ⟨R', hsub, hout⟩ := ihO ms hgw'.2 hgw'.1.2 hgw'.1.1.1 f (by omega)
          rw [hitO_obj kp hkp k ms hgw B _ f hBne (by omega) R' hsub]
          cases hd : Spec.delKp (obj ms) kp with
          | none =>
            rw [hd] at hout
            simp only [ObjOut] at hout
            subst hout
            exact ⟨none, rfl, by simp [ObjOut]⟩
          | some r =>
            rw [hd] at hout
            simp only [ObjOut] at hout
            obtain ⟨m, ms', hr, hR, henc, hgms', hsms', hl1, hl2, hl3⟩ := hout
            subst hr; subst hR
            simp only [Option.map_some, assemble A k (obj ms) B _ hs, replace_split k A _ _ B hAne hBne]
            refine ⟨_, rfl, ?_⟩
            simp only [ObjOut]
            have hgood' : good (obj ms') = true := by
              have h1 := elen_obj ms
              have h2 := elen_obj ms'
              simp only [good, Bool.and_eq_true, decide_eq_true_eq]
              simp only [elen] at h1 h2
              exact ⟨⟨⟨by omega, by omega⟩, hsms'⟩, hgms'⟩
            refine ⟨_, A ++ (k, obj ms') :: B, rfl, rfl, ?_, ?_, ?_, ?_, ?_, ?_⟩
            · simp only [List.map_append, List.map_cons, map_kb_rawMember, kb, kt]
              rw [bspec_obj_congr m (ms'.map rawMember) (by rw [henc, map_kb_rawMember]), bspec_obj_raw ms' hgood']
            · rw [goodK_mid, hgA, hgB]
              simp only [goodK, Bool.and_true, Bool.true_and, Bool.and_eq_true]
              exact ⟨hgkw'.1, hgood'⟩
            · exact keysSorted_same_keys _ _ (by simp) hs
            · simp
            · rw [keyBytes_append, hkb]; simp [keyBytes]; omega
            · rw [paysK_append, hpay]
              have h1 := elen_obj ms
              have h2 := elen_obj ms'
              simp only [paysK, List.length_append]
              simp only [elen] at h1 h2 ⊢
              omega
        | null => simp [Spec.isScalar] at hsc
        | bool b => simp [Spec.isScalar] at hsc
        | num n => simp [Spec.isScalar] at hsc
        | str s => simp [Spec.isScalar] at hsc

/-! ### the whole recursion, by induction on the key path -/

/-- `KeyPath::Index` holds an `i32` -/
def kpOK : List KeyPath → Prop
  | [] => True
  | .index i :: kp => (-2147483648 ≤ i ∧ i ≤ 2147483647) ∧ kpOK kp
  | .name _ :: kp => kpOK kp
  | .quoted _ :: kp => kpOK kp

theorem elen_arr_ge (vs : List JV) : 4 ≤ elen (arr vs) := by rw [elen_arr]; omega
theorem elen_obj_ge (kvs : List (Bytes × JV)) : 4 ≤ elen (obj kvs) := by rw [elen_obj]; omega

theorem objCase (kp : List KeyPath) (nm : Bytes) (ihA : ArrStmt kp) (ihO : ObjStmt kp)
    (kvs : List (Bytes × JV)) (hg : goodK kvs = true) (hs : keysSorted kvs = true) (hn : kvs.length < 536870912)
    (F : Nat) (hF : elen (obj kvs) + 2 * kp.length + 1 ≤ F) :
    ∃ R, (match iterObjEntries (entry (obj kvs)).2 (C.OBJECT_CONTAINER_TAG + kvs.length) with
          | .ok ms => Fn.delObjMembers F kp nm ms []
          | .err e => .err e
          | .panic s => .panic s
          | .fuel => .fuel) = .ok R
      ∧ ObjOut kvs (Spec.delKp.delKpObj kvs nm kp (fun x => Spec.delKp x kp)) R := by
  have hit := iterObjEntries_doc kvs hn hg
  simp only [encodeSpec] at hit
  rw [hit]
  exact objStep kp nm ihA ihO kvs hg hs F hF

theorem delKp_master : ∀ (kp : List KeyPath), kpOK kp → ArrStmt kp ∧ ObjStmt kp
  | [], _ => by
    constructor
    · intro vs _ _ fuel hf
      have := elen_arr_ge vs
      obtain ⟨F, rfl⟩ : ∃ F, fuel = F + 1 := ⟨fuel - 1, by omega⟩
      exact ⟨none, by simp [Fn.delArrKp], by simp [Spec.delKp, ArrOut]⟩
    · intro kvs _ _ _ fuel hf
      have := elen_obj_ge kvs
      obtain ⟨F, rfl⟩ : ∃ F, fuel = F + 1 := ⟨fuel - 1, by omega⟩
      exact ⟨none, by simp [Fn.delObjKp], by simp [Spec.delKp, ObjOut]⟩
  | .index i :: kp, hk => by
    have ⟨ihA, ihO⟩ := delKp_master kp hk.2
    constructor
    · intro vs hg hn fuel hf
      have := elen_arr_ge vs
      simp only [List.length_cons] at hf
      obtain ⟨F, rfl⟩ : ∃ F, fuel = F + 1 := ⟨fuel - 1, by omega⟩
      simp only [Fn.delArrKp, hdrLen_arr _ hn, addI32_ok (vs.length : Int) i (by omega) hk.1]
      by_cases hr : (if i < 0 then (vs.length : Int) + i else i) < 0 ∨ (if i < 0 then (vs.length : Int) + i else i) ≥ vs.length
      · rw [if_pos hr]
        refine ⟨none, rfl, ?_⟩
        rw [Spec.delKp, if_pos hr]; simp [ArrOut]
      · rw [if_neg hr]
        have hlt : (if i < 0 then (vs.length : Int) + i else i).toNat < vs.length := by omega
        obtain ⟨A, w, B, hvs, hAlen⟩ := split_at vs _ hlt
        have hit := iterArray_doc vs hn hg
        simp only [encodeSpec] at hit
        simp only [hit]
        have hspec : Spec.delKp (arr vs) (.index i :: kp)
            = (if kp.isEmpty then some (arr (A ++ B))
               else if Spec.isScalar w then none
               else (Spec.delKp w kp).map (fun w' => arr (A ++ w' :: B))) := by
          rw [Spec.delKp, if_neg hr, ← hAlen, hvs]
          simp only [get_split, removeAt_split]
          split
          · rfl
          · split
            · rfl
            · cases Spec.delKp w kp <;> simp
        rw [hspec, ← hAlen]
        subst hvs
        exact arrStep kp ihA ihO A w B hg F (by omega)
    · intro kvs _ _ _ fuel hf
      have := elen_obj_ge kvs
      obtain ⟨F, rfl⟩ : ∃ F, fuel = F + 1 := ⟨fuel - 1, by omega⟩
      exact ⟨none, by simp [Fn.delObjKp], by simp [Spec.delKp, ObjOut]⟩
  | .name nm :: kp, hk => by
    have ⟨ihA, ihO⟩ := delKp_master kp hk
    constructor
    · intro vs _ _ fuel hf
      have := elen_arr_ge vs
      obtain ⟨F, rfl⟩ : ∃ F, fuel = F + 1 := ⟨fuel - 1, by omega⟩
      exact ⟨none, by simp [Fn.delArrKp], by simp [Spec.delKp, ArrOut]⟩
    · intro kvs hg hs hn fuel hf
      have := elen_obj_ge kvs
      simp only [List.length_cons] at hf
      obtain ⟨F, rfl⟩ : ∃ F, fuel = F + 1 := ⟨fuel - 1, by omega⟩
      rw [Spec.delKp]
      simp only [Fn.delObjKp]
      exact objCase kp nm ihA ihO kvs hg hs hn F (by omega)
  | .quoted nm :: kp, hk => by
    have ⟨ihA, ihO⟩ := delKp_master kp hk
    constructor
    · intro vs _ _ fuel hf
      have := elen_arr_ge vs
      obtain ⟨F, rfl⟩ : ∃ F, fuel = F + 1 := ⟨fuel - 1, by omega⟩
      exact ⟨none, by simp [Fn.delArrKp], by simp [Spec.delKp, ArrOut]⟩
    · intro kvs hg hs hn fuel hf
      have := elen_obj_ge kvs
      simp only [List.length_cons] at hf
      obtain ⟨F, rfl⟩ : ∃ F, fuel = F + 1 := ⟨fuel - 1, by omega⟩
      rw [Spec.delKp]
      simp only [Fn.delObjKp]
      exact objCase kp nm ihA ihO kvs hg hs hn F (by omega)

/-- **delete_by_keypath**: for every good document, every key path (indices within `i32`) and
every prior buffer.  `Spec.delKp = none` (path leads nowhere deletable) copies the document. -/
theorem deleteByKeypath_refines (v : JV) (hg : goodTop v = true) (kp : List KeyPath) (hk : kpOK kp)
    (buf : Bytes) :
    Fn.deleteByKeypath (encodeSpec v) kp buf
      = match Spec.deleteByKeypath v kp with
        | some r => .ok (buf ++ encodeSpec r)
        | none => .err "InvalidJsonType" := by
  have ⟨hA, hO⟩ := delKp_master kp hk
  cases hs : Spec.isScalar v with
  | true =>
    have hsp : Spec.deleteByKeypath v kp = none := by
      cases v <;> first | rfl | simp [Spec.isScalar] at hs
    have hkd := hdrType_hdrOf v hg
    rw [kindOf_scalar v hs] at hkd
    simp only [Fn.deleteByKeypath, readHdr v hg, hkd, hsp]
    rw [if_neg ne_sca_arr, if_neg ne_sca_obj]
  | false =>
    cases v with
    | arr vs =>
      simp only [goodTop, Bool.and_eq_true, decide_eq_true_eq] at hg
      have hdr := readHdr (arr vs) (by simp [goodTop, hg.1, hg.2])
      simp only [hdrOf] at hdr
      have hlen : (encodeSpec (arr vs)).length = elen (arr vs) := rfl
      obtain ⟨R, hR, hout⟩ := hA vs hg.2 hg.1 ((encodeSpec (arr vs)).length + 2 * kp.length + 8) (by omega)
      have hval : (entry (arr vs)).2 = encodeSpec (arr vs) := rfl
      rw [hval] at hR
      simp only [Fn.deleteByKeypath, hdr, hdrType_arr _ hg.1, if_true, hR, Spec.deleteByKeypath]
      cases hd : Spec.delKp (arr vs) kp with
      | none =>
        rw [hd] at hout; simp only [ArrOut] at hout; subst hout
        rfl
      | some r =>
        rw [hd] at hout; simp only [ArrOut] at hout
        obtain ⟨es, vs', hr, hRe, henc, hgv', hl1, _⟩ := hout
        subst hr; subst hRe
        simp only [Option.getD_some]
        rw [buildArrayInto_spec, bspec_arr_congr es (vs'.map rawItem) (by rw [henc, map_bspec_rawItem]),
          ← buildArrayInto_spec]
        exact buildArrayInto_raw buf vs' (by omega) hgv'
    | obj kvs =>
      simp only [goodTop, Bool.and_eq_true, decide_eq_true_eq] at hg
      have hdr := readHdr (obj kvs) (by simp [goodTop, hg.1.1, hg.1.2, hg.2])
      simp only [hdrOf] at hdr
      have hlen : (encodeSpec (obj kvs)).length = elen (obj kvs) := rfl
      obtain ⟨R, hR, hout⟩ := hO kvs hg.2 hg.1.2 hg.1.1 ((encodeSpec (obj kvs)).length + 2 * kp.length + 8) (by omega)
      have hval : (entry (obj kvs)).2 = encodeSpec (obj kvs) := rfl
      rw [hval] at hR
      simp only [Fn.deleteByKeypath, hdr, hdrType_obj _ hg.1.1, ne_obj_arr, if_false, if_true, hR,
        Spec.deleteByKeypath]
      cases hd : Spec.delKp (obj kvs) kp with
      | none =>
        rw [hd] at hout; simp only [ObjOut] at hout; subst hout
        rfl
      | some r =>
        rw [hd] at hout; simp only [ObjOut] at hout
        obtain ⟨m, kvs', hr, hRe, henc, hgk', hsk', hl1, _, _⟩ := hout
        subst hr; subst hRe
        simp only [Option.getD_some]
        rw [buildObjectInto_spec, bspec_obj_congr m (kvs'.map rawMember) (by rw [henc, map_kb_rawMember]),
          ← buildObjectInto_spec]
        exact buildObjectInto_raw buf kvs' (by omega) hgk'
    | null => simp [Spec.isScalar] at hs
    | bool b => simp [Spec.isScalar] at hs
    | num n => simp [Spec.isScalar] at hs
    | str s => simp [Spec.isScalar] at hs

end Jsonb
