/-
Relaxed = crate, part 2: numbers.

`SS.number_sim` (StrictSubset2) shows that whatever the RFC 8259 number reader accepts, the
crate's `parse_json_number` accepts with the same value.  Here the converse: where the RFC reader
fails (no integer digits, a leading zero, `.` without digits, an exponent without digits), the
crate's lexer fails too.  Together: the crate reads a number exactly when the RFC reader does, and
with the same value and the same end.
-/
import JsonbModel.Proofs.RelaxedBound1

namespace Jsonb
namespace RB
open Jsonb.JP Jsonb.SS

/-! ### `Res` plumbing -/

/-- the computation does not return a value -/
def NotOk {α} (x : Res α) : Prop := ∀ a, x ≠ .ok a

theorem NotOk_err {α} (e : String) : NotOk (Res.err e : Res α) := by intro a; simp
theorem NotOk_fuel {α} : NotOk (Res.fuel : Res α) := by intro a; simp

theorem NotOk_bind {α β} {x : Res α} {f : α → Res β} (hx : NotOk x) : NotOk (x >>= f) := by
  intro b
  cases x with
  | ok a => exact absurd rfl (hx a)
  | err e => simp
  | panic s => simp
  | fuel => simp

theorem NotOk_bind_ok {α β} {x : Res α} {a : α} {f : α → Res β} (hx : x = .ok a) (hf : NotOk (f a)) :
    NotOk (x >>= f) := by
  rw [hx]; exact hf

/-! ### The lexer where the RFC reader fails -/

theorem lexSign_view {buf : Bytes} {i : Nat} {bs : Bytes} (h : buf.drop i = bs) :
    lexSign buf i = .ok ((fSign bs).1, i + (signTxt (fSign bs).1).length) := by
  unfold lexSign
  rw [checkNext_view h]
  simp only [bind_ok, pure_eq]
  cases bs with
  | nil => rfl
  | cons c t =>
    by_cases hc : c = 0x2D
    · subst hc; rfl
    · have hf : fSign (c :: t) = (false, c :: t) := by
        unfold fSign
        split
        · rename_i heq; simp only [List.cons.injEq] at heq; exact absurd heq.1 hc
        · rfl
      have hb : (some c == some (0x2D : UInt8)) = false := by simpa using hc
      simp only [List.head?_cons, hb, hf, signTxt, Bool.false_eq_true, if_false, List.length_nil,
        Nat.add_zero]

theorem stepDigits_nondig {buf : Bytes} {j : Nat} {rest : Bytes} (h : buf.drop j = rest)
    (hr : NonDig rest) {len j' : Nat} (hs : stepDigits buf j = .ok (len, j')) : len = 0 := by
  unfold stepDigits at hs
  split at hs
  · exact absurd hs (by simp)
  · rw [stepDigitsLoop_view buf [] (by intro d hd; simp at hd) j 0 rest (by simpa using h) hr] at hs
    simp only [List.length_nil, Nat.add_zero, Res.ok.injEq, Prod.mk.injEq] at hs
    exact hs.1.symm

/-- after `stepDigits` on a non-digit the continuation sees a zero count -/
theorem stepDigits_nondig_bind {buf : Bytes} {j : Nat} {rest : Bytes} {α : Type} (h : buf.drop j = rest)
    (hr : NonDig rest) (g : Nat × Nat → Res α) (hg : ∀ j', NotOk (g (0, j'))) :
    NotOk (stepDigits buf j >>= g) := by
  cases hs : stepDigits buf j with
  | ok p =>
    obtain ⟨len, j'⟩ := p
    have := stepDigits_nondig h hr hs
    subst this
    simp only [bind_ok]
    exact hg j'
  | err e => simp only [bind_err]; exact NotOk_err _
  | panic s => intro a; simp
  | fuel => simp only [bind_fuel]; exact NotOk_fuel

theorem lexInt_nodig {buf : Bytes} {j : Nat} {r : Bytes} (h : buf.drop j = r) (hr : NonDig r) :
    NotOk (lexInt buf j) := by
  unfold lexInt
  rw [checkNext_view h]
  have hz : (r.head? == some (0x30 : UInt8)) = false := by
    cases hh : r.head? with
    | none => rfl
    | some c =>
      have := hr c hh
      have hne : c ≠ 0x30 := by intro he; subst he; simp [JP.isDigit] at this
      simpa using hne
  simp only [bind_ok, hz, Bool.false_eq_true, if_false]
  exact stepDigits_nondig_bind h hr _ (fun j' => by
    simp only [beq_self_eq_true, if_true]; exact NotOk_err _)

theorem lexInt_leading {buf : Bytes} {j : Nat} {c : UInt8} {t : Bytes}
    (h : buf.drop j = 0x30 :: c :: t) (hc : JP.isDigit c = true) : NotOk (lexInt buf j) := by
  unfold lexInt
  rw [checkNext_view h]
  simp only [List.head?_cons, beq_self_eq_true, bind_ok, if_true]
  rw [checkDigit_eq, getv (drop_succ_of_drop h)]
  simp only [List.head?_cons, Option.any_some, hc, bind_ok, if_true]
  exact NotOk_err _

theorem lexFrac_nodig {buf : Bytes} {j : Nat} {r : Bytes} (h : buf.drop j = 0x2E :: r) (hr : NonDig r) :
    NotOk (lexFrac buf j) := by
  unfold lexFrac
  rw [checkNext_view h]
  simp only [List.head?_cons, beq_self_eq_true, bind_ok, if_true]
  exact stepDigits_nondig_bind (drop_succ_of_drop h) hr _ (fun j' => by
    simp only [beq_self_eq_true, if_true]; exact NotOk_err _)

theorem fESign_spec (t : Bytes) :
    ∃ sg u, (sg = [] ∨ sg = [0x2B] ∨ sg = [0x2D]) ∧ t = sg ++ u ∧ (fESign t).2 = u ∧
      (sg = [] → ∀ c, u.head? = some c → c ≠ 0x2D ∧ c ≠ 0x2B) := by
  unfold fESign
  split
  · rename_i u; exact ⟨[0x2D], u, by simp, rfl, rfl, by simp⟩
  · rename_i u; exact ⟨[0x2B], u, by simp, rfl, rfl, by simp⟩
  · rename_i h1 h2
    refine ⟨[], t, by simp, rfl, rfl, ?_⟩
    intro _ c hc
    cases t with
    | nil => simp at hc
    | cons c' r =>
      simp only [List.head?_cons, Option.some.injEq] at hc
      subst hc
      exact ⟨fun he => h1 r (by rw [he]), fun he => h2 r (by rw [he])⟩

theorem sExp_cons (e : UInt8) (t : Bytes) :
    sExp (e :: t) =
      if e == 0x65 || e == 0x45 then
        if (Strict.takeDigits (fESign t).2).1.isEmpty then none
        else some (if (fESign t).1 then -(Strict.digitsVal (Strict.takeDigits (fESign t).2).1 : Int)
                   else Strict.digitsVal (Strict.takeDigits (fESign t).2).1,
                   (Strict.takeDigits (fESign t).2).2, true)
      else some (0, e :: t, false) := by
  unfold sExp fESign
  rfl

/-- the RFC reader's exponent stage fails exactly on `e`/`E`, an optional sign and no digit -/
theorem sExp_none {r2 : Bytes} (h : sExp r2 = none) :
    ∃ e sg u, r2 = e :: (sg ++ u) ∧ (e = 0x65 ∨ e = 0x45) ∧ (sg = [] ∨ sg = [0x2B] ∨ sg = [0x2D]) ∧
      NonDig u ∧ (sg = [] → ∀ c, u.head? = some c → c ≠ 0x2D ∧ c ≠ 0x2B) := by
  cases r2 with
  | nil => simp [sExp] at h
  | cons e t =>
    rw [sExp_cons] at h
    split at h
    · rename_i hE
      have hE' : e = 0x65 ∨ e = 0x45 := by simpa using hE
      obtain ⟨sg, u, hsg, ht, hm, hns⟩ := fESign_spec t
      rw [hm, takeDigits_eq_span] at h
      obtain ⟨h1, h2, h3⟩ := spanDigits_spec u
      split at h
      · rename_i hemp
        have he : (spanDigits u).1 = [] := by simpa using hemp
        rw [he] at h1
        simp only [List.nil_append] at h1
        refine ⟨e, sg, u, by rw [ht], hE', hsg, ?_, hns⟩
        rw [h1]; exact h3
      · exact absurd h (by simp)
    · exact absurd h (by simp)

theorem lexExp_of_sExp_none {buf : Bytes} {j : Nat} {r2 : Bytes} (h : buf.drop j = r2)
    (hs : sExp r2 = none) : NotOk (lexExp buf j) := by
  obtain ⟨e, sg, u, rfl, he, hsg, hu, hns⟩ := sExp_none hs
  have h1 := drop_succ_of_drop h
  have hE : ((some e == some (0x45 : UInt8)) || (some e == some (0x65 : UInt8))) = true := by
    rcases he with rfl | rfl <;> decide
  unfold lexExp
  rw [checkNextEither_view h]
  simp only [List.head?_cons, hE, bind_ok, if_true]
  rw [checkNextEither_view h1]
  rcases hsg with rfl | rfl | rfl
  · simp only [List.nil_append] at h1 ⊢
    have : (u.head? == some (0x2B : UInt8) || u.head? == some (0x2D : UInt8)) = false := by
      cases hh : u.head? with
      | none => rfl
      | some c =>
        obtain ⟨n1, n2⟩ := hns rfl c hh
        simp [n1, n2]
    simp only [this, bind_ok, Bool.false_eq_true, if_false]
    exact stepDigits_nondig_bind h1 hu _ (fun j' => by
      simp only [beq_self_eq_true, if_true]; exact NotOk_err _)
  · simp only [List.cons_append, List.nil_append, List.head?_cons, beq_self_eq_true, Bool.true_or,
      bind_ok, if_true] at h1 ⊢
    exact stepDigits_nondig_bind (drop_succ_of_drop h1) hu _ (fun j' => by
      simp only [beq_self_eq_true, if_true]; exact NotOk_err _)
  · simp only [List.cons_append, List.nil_append, List.head?_cons, beq_self_eq_true, Bool.or_true,
      bind_ok, if_true] at h1 ⊢
    exact stepDigits_nondig_bind (drop_succ_of_drop h1) hu _ (fun j' => by
      simp only [beq_self_eq_true, if_true]; exact NotOk_err _)

/-- **numbers, converse**: where the RFC 8259 number reader fails, the crate's lexer fails -/
theorem lexNumber_of_number_none {buf : Bytes} {i : Nat} (h : Strict.number (buf.drop i) = none) :
    NotOk (lexNumber buf i) := by
  rw [number_eq] at h
  unfold number' at h
  simp only at h
  have hs := fSign_spec (buf.drop i)
  have e1 := lexSign_view (buf := buf) (i := i) rfl
  generalize fSign (buf.drop i) = p0 at h hs e1
  obtain ⟨neg, s1⟩ := p0
  simp only at h hs e1
  have h1 : buf.drop (i + (signTxt neg).length) = s1 := drop_add_of_drop hs
  rw [takeDigits_eq_span] at h
  obtain ⟨d1, d2, d3⟩ := spanDigits_spec s1
  generalize spanDigits s1 = p1 at h d1 d2 d3
  obtain ⟨ip, r1⟩ := p1
  simp only at h d1 d2 d3
  unfold lexNumber
  refine NotOk_bind_ok e1 ?_
  simp only
  split at h
  · -- no integer digits
    rename_i hemp
    have he : ip = [] := by simpa using hemp
    subst he
    simp only [List.nil_append] at d1
    subst d1
    exact NotOk_bind (lexInt_nodig h1 d3)
  rename_i hne
  have hipne : ip ≠ [] := by intro he; rw [he] at hne; simp at hne
  split at h
  · -- a leading zero
    rename_i hlz
    match ip, hlz, d1, d2 with
    | [c], hlz, _, _ => simp at hlz
    | c :: c' :: t, hlz, d1, d2 =>
      simp only [List.length_cons, List.head?_cons, Bool.and_eq_true, decide_eq_true_eq,
        beq_iff_eq, Option.some.injEq] at hlz
      obtain ⟨-, rfl⟩ := hlz
      exact NotOk_bind (lexInt_leading (by rw [h1, d1]; rfl) (d2 c' (by simp)))
  rename_i hlz
  have hIL : IntLit ip := by
    refine ⟨hipne, d2, ?_⟩
    intro hh
    match ip, hh, hlz, hipne with
    | [c], hh, _, _ => simp only [List.head?_cons, Option.some.injEq] at hh; rw [hh]
    | c :: c' :: t, hh, hlz, _ => simp [hh] at hlz
  have e2 : lexInt buf (i + (signTxt neg).length) = .ok (i + (signTxt neg).length + ip.length) :=
    lexInt_lit (h1.trans d1) hIL d3
  have h2 : buf.drop (i + (signTxt neg).length + ip.length) = r1 := drop_add_of_drop (h1.trans d1)
  refine NotOk_bind_ok e2 ?_
  obtain ⟨fp, f1, f2, f3, f4, f5⟩ := sFrac_spec r1
  generalize sFrac r1 = p2 at h f1 f2 f3 f4 f5
  obtain ⟨fd, r2, hasF⟩ := p2
  simp only at h f1 f2 f3 f4 f5
  split at h
  · -- `.` without digits
    rename_i hfe
    simp only [Bool.and_eq_true, List.isEmpty_iff] at hfe
    obtain ⟨hF, hfd⟩ := hfe
    subst hF hfd
    match fp, f1, f2, f3, f4 with
    | none, _, _, f3, _ => simp at f3
    | some f, f1, f2, _, f4 =>
      simp only [Option.getD_some] at f2
      subst f2
      simp only [fracTxt, List.cons_append, List.nil_append] at f1
      exact NotOk_bind (lexFrac_nodig (h2.trans f1) (f4 [] rfl).2)
  rename_i hfe
  have hWfp : WFfp fp := by
    intro f hf
    refine ⟨?_, (f4 f hf).1⟩
    intro he
    subst hf he
    simp at f2 f3
    simp [f2, f3] at hfe
  have hnd2 : NonDig r2 := by
    match fp, f1, f4 with
    | some f, _, f4 => exact (f4 f rfl).2
    | none, f1, _ =>
      have e21 : r1 = r2 := by simpa [fracTxt] using f1
      rw [← e21]; exact d3
  have hnodot : fp = none → NoDot r2 := by
    intro hf
    have e21 : r1 = r2 := by rw [hf] at f1; simpa [fracTxt] using f1
    rw [← e21]; exact f5 hf
  have e3 := lexFrac_lit (h2.trans f1) hWfp hnd2 hnodot
  have h3 : buf.drop (i + (signTxt neg).length + ip.length + (fracTxt fp).length) = r2 :=
    drop_add_of_drop (h2.trans f1)
  refine NotOk_bind_ok e3 ?_
  split at h
  · -- an exponent without digits
    rename_i hse
    exact NotOk_bind (lexExp_of_sExp_none h3 hse)
  · rename_i ev r3 hasE hse
    split at h
    · split at h
      · exact absurd h (by simp)
      · split at h <;> exact absurd h (by simp)
    · exact absurd h (by simp)

theorem parseNumber_of_number_none {buf : Bytes} {i : Nat} (h : Strict.number (buf.drop i) = none) :
    NotOk (parseNumber buf i) := by
  unfold parseNumber
  exact NotOk_bind (lexNumber_of_number_none h)

/-- **numbers, both directions**: the crate's `parse_json_number` at a cursor returns a value
exactly when the RFC 8259 number reader does on the remaining input — the same number, the same
remaining input -/
theorem parseNumber_iff {buf : Bytes} {i : Nat} :
    (∀ v j, parseNumber buf i = .ok (v, j) →
      ∃ n, v = .num n ∧ Strict.number (buf.drop i) = some (n, buf.drop j)) ∧
    (∀ n r, Strict.number (buf.drop i) = some (n, r) →
      ∃ j, parseNumber buf i = .ok (.num n, j) ∧ buf.drop j = r) := by
  refine ⟨?_, fun n r h => number_sim rfl h⟩
  intro v j hp
  cases hs : Strict.number (buf.drop i) with
  | none => exact absurd hp (parseNumber_of_number_none hs _)
  | some q =>
    obtain ⟨n, r⟩ := q
    obtain ⟨j', hj', hr⟩ := number_sim rfl hs
    rw [hp] at hj'
    simp only [Res.ok.injEq, Prod.mk.injEq] at hj'
    obtain ⟨rfl, rfl⟩ := hj'
    exact ⟨n, rfl, by rw [hr]⟩

end RB
end Jsonb
