/-
THE EMBEDDING THEOREM for the comparable key (tree level).

On the domain `keyable 0` (in particular on `inD`: every string / object key has all bytes ≥ 0x20,
every depth byte < 32, every number key-exact) the key `Spec.keyOf 0` sorts bytewise exactly as
`Spec.cmpJV` orders documents:

    lexCmp (keyOf 0 a) (keyOf 0 b) = cmpJV a b.

The proof generalises to keys followed by arbitrary "rests" whose first byte (if any) is a depth
byte `≤ d` (a sibling's or an ancestor's sibling's record head):

    lexCmp (keyOf d a ++ ra) (keyOf d b ++ rb) = (cmpJV a b).then (lexCmp ra rb).
-/
import JsonbModel.Proofs.KeySpec
import JsonbModel.Proofs.KeyNum

namespace Jsonb
open JV

/-! ### bytewise comparison of concatenations -/

theorem then_lt (o : Ordering) : Ordering.lt.then o = .lt := rfl
theorem then_gt (o : Ordering) : Ordering.gt.then o = .gt := rfl
theorem then_eq (o : Ordering) : Ordering.eq.then o = o := rfl

/-- equal-length blocks: the first block decides, else the rests -/
theorem lexCmp_append_eqlen (p q ra rb : Bytes) (h : p.length = q.length) :
    lexCmp (p ++ ra) (q ++ rb) = (lexCmp p q).then (lexCmp ra rb) := by
  induction p generalizing q with
  | nil =>
    cases q with
    | nil => simp [lexCmp]
    | cons y q => simp at h
  | cons x p ih =>
    cases q with
    | nil => simp at h
    | cons y q =>
      simp only [List.cons_append, lexCmp]
      by_cases h1 : x < y
      · simp [h1]
      · by_cases h2 : y < x
        · simp [h1, h2]
        · simp only [h1, h2, if_false]
          exact ih q (by simpa using h)

/-- a "rest": what follows a record inside a key at depth `d` — nothing, or the record head of a
later sibling or of an ancestor's later sibling, whose depth byte is `≤ d` -/
def Rest (d : Nat) : Bytes → Prop
  | [] => True
  | x :: _ => x.toNat ≤ d

theorem Rest.mono {d e : Nat} (h : d ≤ e) : ∀ {r : Bytes}, Rest d r → Rest e r
  | [], _ => trivial
  | _ :: _, hr => Nat.le_trans hr h

theorem Rest.nil (d : Nat) : Rest d [] := trivial

/-- a string whose bytes are all above `d`, followed by a rest at depth `d` -/
def strOK (d : Nat) (s : Bytes) : Bool := s.all (fun y => decide (d < y.toNat))

theorem strOK_cons (d : Nat) (y : UInt8) (s : Bytes) :
    strOK d (y :: s) = true ↔ d < y.toNat ∧ strOK d s = true := by
  simp [strOK]

/-- **strings**: a proper prefix is followed by end-of-key or by a depth byte `≤ d`, below every
string byte; so the shorter string sorts first, exactly as `lexCmp` on the strings -/
theorem lexCmp_str (d : Nat) (s t ra rb : Bytes) (hs : strOK d s = true) (ht : strOK d t = true)
    (hra : Rest d ra) (hrb : Rest d rb) :
    lexCmp (s ++ ra) (t ++ rb) = (lexCmp s t).then (lexCmp ra rb) := by
  induction s generalizing t with
  | nil =>
    cases t with
    | nil => simp [lexCmp]
    | cons y t =>
      rw [strOK_cons] at ht
      cases ra with
      | nil => simp [lexCmp]
      | cons x ra =>
        have hx : x.toNat ≤ d := hra
        have : x < y := by rw [UInt8.lt_iff_toNat_lt]; omega
        simp [lexCmp, this]
  | cons x s ih =>
    rw [strOK_cons] at hs
    cases t with
    | nil =>
      cases rb with
      | nil => simp [lexCmp]
      | cons y rb =>
        have hy : y.toNat ≤ d := hrb
        have h1 : ¬ x < y := by rw [UInt8.lt_iff_toNat_lt]; omega
        have h2 : y < x := by rw [UInt8.lt_iff_toNat_lt]; omega
        simp [lexCmp, h1, h2]
    | cons y t =>
      rw [strOK_cons] at ht
      simp only [List.cons_append, lexCmp]
      by_cases h1 : x < y
      · simp [h1]
      · by_cases h2 : y < x
        · simp [h1, h2]
        · simp only [h1, h2, if_false]
          exact ih t hs.2 ht.2

namespace Spec

/-! ### the shape of a key: `[depth, rank] ++ body` -/

/-- what follows the two-byte head -/
def keyBody : Nat → JV → Bytes
  | _, null => []
  | _, JV.bool _ => []
  | _, num n => Fn.f64Key (Num.asF64 (Num.norm n))
  | _, str s => s
  | d, arr vs => keyL (d + 1) vs
  | d, obj kvs => keyK (d + 1) kvs

/-- the level byte of a record IS the documented rank of the value's kind -/
theorem keyOf_eq (d : Nat) (v : JV) :
    keyOf d v = UInt8.ofNat d :: UInt8.ofNat (rank v) :: keyBody d v := by
  cases v with
  | bool b => cases b <;> rfl
  | _ => rfl

theorem rank_le (v : JV) : rank v ≤ 7 := by
  cases v with
  | bool b => cases b <;> simp [rank]
  | _ => simp [rank]

theorem ofNat_lt_ofNat (a b : Nat) (ha : a < 256) (hb : b < 256) :
    UInt8.ofNat a < UInt8.ofNat b ↔ a < b := by
  rw [UInt8.lt_iff_toNat_lt, UInt8.toNat_ofNat', UInt8.toNat_ofNat']
  simp [Nat.mod_eq_of_lt ha, Nat.mod_eq_of_lt hb]

theorem toNat_ofNat_lt (a : Nat) (ha : a < 256) : (UInt8.ofNat a).toNat = a := by
  rw [UInt8.toNat_ofNat']; exact Nat.mod_eq_of_lt ha

/-- different kinds at the same depth: the level byte decides, and agrees with `rank` -/
theorem key_cmp_rank_ne (a b : JV) (d : Nat) (ra rb : Bytes) (h : rank a ≠ rank b) :
    lexCmp (keyOf d a ++ ra) (keyOf d b ++ rb) = (cmpJV a b).then (lexCmp ra rb) := by
  rw [keyOf_eq, keyOf_eq, cmpJV_rank a b h]
  simp only [List.cons_append, lexCmp_cons_same]
  have ha := rank_le a
  have hb := rank_le b
  simp only [lexCmp, ofNat_lt_ofNat _ _ (show rank a < 256 by omega) (show rank b < 256 by omega),
    ofNat_lt_ofNat _ _ (show rank b < 256 by omega) (show rank a < 256 by omega)]
  rw [ncmp_def]
  by_cases h1 : rank a < rank b
  · simp [h1]
  · have h2 : rank b < rank a := by omega
    simp [h1, h2, h]

theorem keyOf_append_rest (d : Nat) (v : JV) (r : Bytes) :
    keyOf d v ++ r = UInt8.ofNat d :: UInt8.ofNat (rank v) :: (keyBody d v ++ r) := by
  rw [keyOf_eq]; rfl

/-- same kind: compare the bodies -/
theorem key_cmp_same_rank (a b : JV) (d : Nat) (ra rb : Bytes) (h : rank a = rank b) :
    lexCmp (keyOf d a ++ ra) (keyOf d b ++ rb) = lexCmp (keyBody d a ++ ra) (keyBody d b ++ rb) := by
  rw [keyOf_append_rest, keyOf_append_rest, h, lexCmp_cons_same, lexCmp_cons_same]

/-! ### the domain -/

mutual
/-- `keyable d v`: the key of `v`, met at depth `d`, is faithful —
every depth byte fits a `u8`, every string and member name met at depth `e` has all its bytes
`> e`, every number is key-exact -/
def keyable : Nat → JV → Bool
  | d, null => decide (d < 256)
  | d, JV.bool _ => decide (d < 256)
  | d, num n => decide (d < 256) && Num.keyExact n
  | d, str s => decide (d < 256) && strOK d s
  | d, arr vs => decide (d < 256) && keyableL (d + 1) vs
  | d, obj kvs => decide (d < 256) && keyableK (d + 1) kvs
def keyableL : Nat → List JV → Bool
  | _, [] => true
  | d, v :: vs => keyable d v && keyableL d vs
def keyableK : Nat → List (Bytes × JV) → Bool
  | _, [] => true
  | d, (k, v) :: kvs => strOK d k && keyable d v && keyableK d kvs
end

theorem keyable_lt (d : Nat) (v : JV) (h : keyable d v = true) : d < 256 := by
  cases v <;> simp only [keyable, Bool.and_eq_true, decide_eq_true_eq] at h <;>
    first | exact h | exact h.1

/-- the key of a value at depth `d` starts with the depth byte `d`: it is a rest at depth `d` -/
theorem rest_keyOf (d : Nat) (v : JV) (r : Bytes) (hd : d < 256) : Rest d (keyOf d v ++ r) := by
  rw [keyOf_append_rest]
  show (UInt8.ofNat d).toNat ≤ d
  rw [toNat_ofNat_lt d hd]

/-- the keys of the remaining siblings, then the parent's rest -/
theorem rest_keyL (d : Nat) (vs : List JV) (r : Bytes) (hv : keyableL (d + 1) vs = true)
    (hr : Rest d r) : Rest (d + 1) (keyL (d + 1) vs ++ r) := by
  cases vs with
  | nil => exact Rest.mono (Nat.le_succ d) hr
  | cons v vs =>
    simp only [keyableL, Bool.and_eq_true] at hv
    rw [keyL, List.append_assoc]
    exact rest_keyOf _ _ _ (keyable_lt _ _ hv.1)

theorem rest_keyK (d : Nat) (kvs : List (Bytes × JV)) (r : Bytes) (hv : keyableK (d + 1) kvs = true)
    (hr : Rest d r) : Rest (d + 1) (keyK (d + 1) kvs ++ r) := by
  cases kvs with
  | nil => exact Rest.mono (Nat.le_succ d) hr
  | cons kv kvs =>
    obtain ⟨k, v⟩ := kv
    simp only [keyableK, Bool.and_eq_true] at hv
    have hd := keyable_lt _ _ hv.1.2
    rw [keyK]
    show (UInt8.ofNat (d + 1)).toNat ≤ d + 1
    rw [toNat_ofNat_lt _ hd]

/-- a list of records one level down against the parent's rest: the rest's depth byte is
smaller, so "no more elements" sorts first -/
theorem lexCmp_rest_lt (d : Nat) (r : Bytes) (hr : Rest d r) (v : JV) (t : Bytes) (hd : d + 1 < 256) :
    lexCmp r (keyOf (d + 1) v ++ t) = .lt := by
  rw [keyOf_append_rest]
  cases r with
  | nil => rfl
  | cons x r =>
    have hx : x.toNat ≤ d := hr
    have : x < UInt8.ofNat (d + 1) := by
      rw [UInt8.lt_iff_toNat_lt, toNat_ofNat_lt _ hd]; omega
    simp only [lexCmp, this, if_true]

theorem lexCmp_rest_gt (d : Nat) (r : Bytes) (hr : Rest d r) (v : JV) (t : Bytes) (hd : d + 1 < 256) :
    lexCmp (keyOf (d + 1) v ++ t) r = .gt := by
  rw [lexCmp_swap, lexCmp_rest_lt d r hr v t hd]; rfl

/-! ### the embedding, generalised over depth and rests -/

mutual
theorem key_cmp : (a b : JV) → (d : Nat) → keyable d a = true → keyable d b = true →
    (ra rb : Bytes) → Rest d ra → Rest d rb →
    lexCmp (keyOf d a ++ ra) (keyOf d b ++ rb) = (cmpJV a b).then (lexCmp ra rb)
  | null, b, d, _, _, ra, rb, _, _ => by
    cases b with
    | null => rw [key_cmp_same_rank null null d ra rb rfl]; rfl
    | bool y => exact key_cmp_rank_ne _ _ _ _ _ (by cases y <;> simp [rank])
    | _ => exact key_cmp_rank_ne _ _ _ _ _ (by simp [rank])
  | JV.bool x, b, d, _, _, ra, rb, _, _ => by
    cases b with
    | bool y =>
      by_cases hxy : x = y
      · subst hxy
        rw [key_cmp_same_rank (JV.bool x) (JV.bool x) d ra rb rfl]
        simp [cmpJV, keyBody]
      · exact key_cmp_rank_ne _ _ _ _ _ (by cases x <;> cases y <;> simp_all [rank])
    | _ => exact key_cmp_rank_ne _ _ _ _ _ (by cases x <;> simp [rank])
  | num n, b, d, ha, hb, ra, rb, _, _ => by
    cases b with
    | num m =>
      simp only [keyable, Bool.and_eq_true] at ha hb
      rw [key_cmp_same_rank (num n) (num m) d ra rb rfl]
      simp only [keyBody, cmpJV]
      rw [lexCmp_append_eqlen _ _ _ _ (by simp), Num.lexCmp_f64Key_asF64 n m ha.2 hb.2]
    | bool y => exact key_cmp_rank_ne _ _ _ _ _ (by cases y <;> simp [rank])
    | _ => exact key_cmp_rank_ne _ _ _ _ _ (by simp [rank])
  | str s, b, d, ha, hb, ra, rb, hra, hrb => by
    cases b with
    | str t =>
      simp only [keyable, Bool.and_eq_true] at ha hb
      rw [key_cmp_same_rank (str s) (str t) d ra rb rfl]
      simp only [keyBody, cmpJV]
      exact lexCmp_str d s t ra rb ha.2 hb.2 hra hrb
    | bool y => exact key_cmp_rank_ne _ _ _ _ _ (by cases y <;> simp [rank])
    | _ => exact key_cmp_rank_ne _ _ _ _ _ (by simp [rank])
  | arr as, b, d, ha, hb, ra, rb, hra, hrb => by
    cases b with
    | arr bs =>
      simp only [keyable, Bool.and_eq_true] at ha hb
      rw [key_cmp_same_rank (arr as) (arr bs) d ra rb rfl]
      simp only [keyBody, cmpJV]
      exact keyL_cmp as bs d ha.2 hb.2 ra rb hra hrb
    | bool y => exact key_cmp_rank_ne _ _ _ _ _ (by cases y <;> simp [rank])
    | _ => exact key_cmp_rank_ne _ _ _ _ _ (by simp [rank])
  | obj as, b, d, ha, hb, ra, rb, hra, hrb => by
    cases b with
    | obj bs =>
      simp only [keyable, Bool.and_eq_true] at ha hb
      rw [key_cmp_same_rank (obj as) (obj bs) d ra rb rfl]
      simp only [keyBody, cmpJV]
      exact keyK_cmp as bs d ha.2 hb.2 ra rb hra hrb
    | bool y => exact key_cmp_rank_ne _ _ _ _ _ (by cases y <;> simp [rank])
    | _ => exact key_cmp_rank_ne _ _ _ _ _ (by simp [rank])
/-- arrays: element by element; when one runs out its parent's rest (depth byte `≤ d`, or the
end) meets an element record (depth byte `d + 1`): the shorter array sorts first, as `cmpL` -/
theorem keyL_cmp : (as bs : List JV) → (d : Nat) → keyableL (d + 1) as = true →
    keyableL (d + 1) bs = true → (ra rb : Bytes) → Rest d ra → Rest d rb →
    lexCmp (keyL (d + 1) as ++ ra) (keyL (d + 1) bs ++ rb) = (cmpL as bs).then (lexCmp ra rb)
  | [], [], _, _, _, _, _, _, _ => rfl
  | [], b :: bs, d, _, hb, ra, rb, hra, _ => by
    simp only [keyableL, Bool.and_eq_true] at hb
    rw [keyL, keyL, List.append_assoc, List.nil_append,
      lexCmp_rest_lt d ra hra b _ (keyable_lt _ _ hb.1)]; rfl
  | a :: as, [], d, ha, _, ra, rb, _, hrb => by
    simp only [keyableL, Bool.and_eq_true] at ha
    rw [keyL, keyL, List.append_assoc, List.nil_append,
      lexCmp_rest_gt d rb hrb a _ (keyable_lt _ _ ha.1)]; rfl
  | a :: as, b :: bs, d, ha, hb, ra, rb, hra, hrb => by
    simp only [keyableL, Bool.and_eq_true] at ha hb
    rw [keyL, keyL, List.append_assoc, List.append_assoc,
      key_cmp a b (d + 1) ha.1 hb.1 _ _ (rest_keyL d as ra ha.2 hra) (rest_keyL d bs rb hb.2 hrb),
      keyL_cmp as bs d ha.2 hb.2 ra rb hra hrb, cmpL_cons, Ordering.then_assoc]
/-- objects: name, then value, member by member; then by size -/
theorem keyK_cmp : (as bs : List (Bytes × JV)) → (d : Nat) → keyableK (d + 1) as = true →
    keyableK (d + 1) bs = true → (ra rb : Bytes) → Rest d ra → Rest d rb →
    lexCmp (keyK (d + 1) as ++ ra) (keyK (d + 1) bs ++ rb) = (cmpK as bs).then (lexCmp ra rb)
  | [], [], _, _, _, _, _, _, _ => rfl
  | [], (kb, b) :: bs, d, _, hb, ra, rb, hra, _ => by
    simp only [keyableK, Bool.and_eq_true] at hb
    have hd := keyable_lt _ _ hb.1.2
    have := lexCmp_rest_lt d ra hra (str kb) (keyOf (d + 1) b ++ keyK (d + 1) bs ++ rb) hd
    rw [keyK, keyK, List.nil_append]
    simp only [keyOf, List.append_assoc] at this ⊢
    rw [this]; rfl
  | (ka, a) :: as, [], d, ha, _, ra, rb, _, hrb => by
    simp only [keyableK, Bool.and_eq_true] at ha
    have hd := keyable_lt _ _ ha.1.2
    have := lexCmp_rest_gt d rb hrb (str ka) (keyOf (d + 1) a ++ keyK (d + 1) as ++ ra) hd
    rw [keyK, keyK, List.nil_append]
    simp only [keyOf, List.append_assoc] at this ⊢
    rw [this]; rfl
  | (ka, a) :: as, (kb, b) :: bs, d, ha, hb, ra, rb, hra, hrb => by
    simp only [keyableK, Bool.and_eq_true] at ha hb
    have hd := keyable_lt _ _ ha.1.2
    have hA := rest_keyK d as ra ha.2 hra
    have hB := rest_keyK d bs rb hb.2 hrb
    rw [keyK, keyK]
    simp only [List.append_assoc]
    rw [lexCmp_append_left,
      lexCmp_str (d + 1) ka kb _ _ ha.1.1 hb.1.1 (rest_keyOf _ _ _ hd) (rest_keyOf _ _ _ hd),
      key_cmp a b (d + 1) ha.1.2 hb.1.2 _ _ hA hB,
      keyK_cmp as bs d ha.2 hb.2 ra rb hra hrb, cmpK_cons, Ordering.then_assoc, Ordering.then_assoc]
end

/-- **THE EMBEDDING THEOREM** (general form): on keyable documents the comparable key sorts
bytewise (shorter prefix first) exactly as the documented order -/
theorem key_embedding_keyable (a b : JV) (ha : keyable 0 a = true) (hb : keyable 0 b = true) :
    lexCmp (keyOf 0 a) (keyOf 0 b) = cmpJV a b := by
  have := key_cmp a b 0 ha hb [] [] trivial trivial
  simp only [List.append_nil] at this
  rw [this]
  cases cmpJV a b <;> rfl

/-- corollary: keys are equal exactly when the documents compare `Equal` -/
theorem key_eq_iff_keyable (a b : JV) (ha : keyable 0 a = true) (hb : keyable 0 b = true) :
    keyOf 0 a = keyOf 0 b ↔ cmpJV a b = .eq := by
  rw [← key_embedding_keyable a b ha hb, lexCmp_eq_iff]

/-! ### the intended domain `D` -/

/-- all bytes printable-or-above (no C0 control bytes) -/
def strD (s : Bytes) : Bool := s.all (fun y => decide (32 ≤ y.toNat))

mutual
/-- `inDAt d v`: `v` met at depth `d`: all depth bytes `< 32`, all string / member-name bytes
`≥ 0x20`, all numbers key-exact -/
def inDAt : Nat → JV → Bool
  | d, null => decide (d < 32)
  | d, JV.bool _ => decide (d < 32)
  | d, num n => decide (d < 32) && Num.keyExact n
  | d, str s => decide (d < 32) && strD s
  | d, arr vs => decide (d < 32) && inDL (d + 1) vs
  | d, obj kvs => decide (d < 32) && inDK (d + 1) kvs
def inDL : Nat → List JV → Bool
  | _, [] => true
  | d, v :: vs => inDAt d v && inDL d vs
def inDK : Nat → List (Bytes × JV) → Bool
  | _, [] => true
  | d, (k, v) :: kvs => strD k && inDAt d v && inDK d kvs
end

/-- the domain `D` of the embedding theorem -/
def inD (v : JV) : Bool := inDAt 0 v

theorem strOK_of_strD (d : Nat) (s : Bytes) (hd : d < 32) (h : strD s = true) : strOK d s = true := by
  simp only [strD, strOK, List.all_eq_true, decide_eq_true_eq] at h ⊢
  intro y hy; have := h y hy; omega

theorem inDAt_lt (d : Nat) (v : JV) (h : inDAt d v = true) : d < 32 := by
  cases v <;> simp only [inDAt, Bool.and_eq_true, decide_eq_true_eq] at h <;>
    first | exact h | exact h.1

mutual
theorem keyable_of_inDAt : (v : JV) → (d : Nat) → inDAt d v = true → keyable d v = true
  | null, d, h => by simp only [inDAt, keyable, decide_eq_true_eq] at h ⊢; omega
  | JV.bool _, d, h => by simp only [inDAt, keyable, decide_eq_true_eq] at h ⊢; omega
  | num n, d, h => by
    simp only [inDAt, keyable, Bool.and_eq_true, decide_eq_true_eq] at h ⊢
    exact ⟨by omega, h.2⟩
  | str s, d, h => by
    simp only [inDAt, keyable, Bool.and_eq_true, decide_eq_true_eq] at h ⊢
    exact ⟨by omega, strOK_of_strD d s h.1 h.2⟩
  | arr vs, d, h => by
    simp only [inDAt, keyable, Bool.and_eq_true, decide_eq_true_eq] at h ⊢
    exact ⟨by omega, keyableL_of_inDL vs (d + 1) h.2⟩
  | obj kvs, d, h => by
    simp only [inDAt, keyable, Bool.and_eq_true, decide_eq_true_eq] at h ⊢
    exact ⟨by omega, keyableK_of_inDK kvs (d + 1) h.2⟩
theorem keyableL_of_inDL : (vs : List JV) → (d : Nat) → inDL d vs = true → keyableL d vs = true
  | [], _, _ => rfl
  | v :: vs, d, h => by
    simp only [inDL, keyableL, Bool.and_eq_true] at h ⊢
    exact ⟨keyable_of_inDAt v d h.1, keyableL_of_inDL vs d h.2⟩
theorem keyableK_of_inDK : (kvs : List (Bytes × JV)) → (d : Nat) → inDK d kvs = true →
    keyableK d kvs = true
  | [], _, _ => rfl
  | (k, v) :: kvs, d, h => by
    simp only [inDK, keyableK, Bool.and_eq_true] at h ⊢
    exact ⟨⟨strOK_of_strD d k (inDAt_lt d v h.1.2) h.1.1, keyable_of_inDAt v d h.1.2⟩,
      keyableK_of_inDK kvs d h.2⟩
end

/-- **THE EMBEDDING THEOREM** on `D` -/
theorem key_embedding (a b : JV) (ha : inD a = true) (hb : inD b = true) :
    lexCmp (keyOf 0 a) (keyOf 0 b) = cmpJV a b :=
  key_embedding_keyable a b (keyable_of_inDAt a 0 ha) (keyable_of_inDAt b 0 hb)

theorem key_eq_iff (a b : JV) (ha : inD a = true) (hb : inD b = true) :
    keyOf 0 a = keyOf 0 b ↔ cmpJV a b = .eq :=
  key_eq_iff_keyable a b (keyable_of_inDAt a 0 ha) (keyable_of_inDAt b 0 hb)

/-! ### `D` bounds the container nesting (link to the refinement theorem's hypothesis) -/

mutual
theorem cdepth_of_inDAt : (v : JV) → (d : Nat) → inDAt d v = true → d + cdepth v ≤ 32
  | null, d, h => by simp only [inDAt, decide_eq_true_eq] at h; simp only [cdepth]; omega
  | JV.bool _, d, h => by simp only [inDAt, decide_eq_true_eq] at h; simp only [cdepth]; omega
  | num _, d, h => by
    simp only [inDAt, Bool.and_eq_true, decide_eq_true_eq] at h; simp only [cdepth]; omega
  | str _, d, h => by
    simp only [inDAt, Bool.and_eq_true, decide_eq_true_eq] at h; simp only [cdepth]; omega
  | arr vs, d, h => by
    simp only [inDAt, Bool.and_eq_true, decide_eq_true_eq] at h
    have := cdepthL_of_inDL vs (d + 1) h.2
    simp only [cdepth]; omega
  | obj kvs, d, h => by
    simp only [inDAt, Bool.and_eq_true, decide_eq_true_eq] at h
    have := cdepthK_of_inDK kvs (d + 1) h.2
    simp only [cdepth]; omega
/-- (for an empty list only the parent's own bound is available) -/
theorem cdepthL_of_inDL : (vs : List JV) → (d : Nat) → inDL d vs = true →
    d + cdepthL vs ≤ 32 ∨ cdepthL vs = 0
  | [], _, _ => Or.inr rfl
  | v :: vs, d, h => by
    simp only [inDL, Bool.and_eq_true] at h
    have h1 := cdepth_of_inDAt v d h.1
    have h2 := cdepthL_of_inDL vs d h.2
    simp only [cdepthL]
    rcases h2 with h2 | h2
    · left; omega
    · left; rw [h2]; omega
theorem cdepthK_of_inDK : (kvs : List (Bytes × JV)) → (d : Nat) → inDK d kvs = true →
    d + cdepthK kvs ≤ 32 ∨ cdepthK kvs = 0
  | [], _, _ => Or.inr rfl
  | (_, v) :: kvs, d, h => by
    simp only [inDK, Bool.and_eq_true] at h
    have h1 := cdepth_of_inDAt v d h.1.2
    have h2 := cdepthK_of_inDK kvs d h.2
    simp only [cdepthK]
    rcases h2 with h2 | h2
    · left; omega
    · left; rw [h2]; omega
end

theorem cdepth_le_of_inD (v : JV) (h : inD v = true) : cdepth v ≤ 32 := by
  have := cdepth_of_inDAt v 0 h; omega

end Spec
end Jsonb
