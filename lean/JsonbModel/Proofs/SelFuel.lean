/-
QUANTITATIVE FUEL ADEQUACY of `Sel.selFuel` (headline theorems).

`Sel.selFuel root jp = ((root.length + 4) * (pathsIdx jp + 2)) ^ (pathsSize jp + 2) + 16` is the
fuel with which `Selector::select` / `exists` / `predicate_match` are modelled and with which a
chain of operations (C07) runs BOTH the byte-level evaluator and the tree-level denotation.
For every canonical document `v` and every path `jp` the parser can build (`suppPaths`) that does
not start with `@`:

* (A) `selFuel_adequate_model` — the byte-level evaluator `Sel.findPositions`, run with
  `selFuel`, never answers "out of fuel";
* (B) `selFuel_adequate_spec`  — whenever it answers `.ok`, the tree evaluator `Spec.evalPaths`
  run with THE SAME number has an answer (and by `selFuel_exact` it is the represented one);
* (C) `pathOK_of_supp`         — hence the fuel-adequacy conjunct of `PathOK` (ChainSelect.lean)
  always holds: `PathOK v jp ↔ suppPaths jp ∧ jp.head? ≠ some .current`.

How: the fuel is a depth budget.  `wcost b a paths` (SelFuel2) bounds the depth `walk` needs on a
frontier of ≤ `a` positions when one step multiplies a frontier by ≤ `b`; one step over positions
that represent items of the document multiplies the frontier by at most
`(root.length + 1) * (pathIdx p + 1)` (SelFuel1: every child owns a 4-byte entry word; repeated
subscripts `[0,0,0]` are counted by `pathIdx`); the tree evaluator reproduces a model answer
obtained with fuel `F` at every fuel `≥ F + pathsSize jp + 1` (SelFuel3: the slack pays for the
comparison operands, which only the spec runs through `evalPaths`); and
`1 + wcost b 1 jp + pathsSize jp + 1 ≤ 2 + 3 * b ^ pathsSize jp ≤ selFuel` (SelFuel4).
The actual need is additive (a few dozen units on the examples below); `selFuel` is generous.
No Mathlib.
-/
import JsonbModel.Proofs.SelFuel4

namespace Jsonb
open JV Sel

/-- **(A) the model never runs out of fuel at `selFuel`** — in fact at any fuel from
`1 + wcost (selBase …) 1 jp` on -/
theorem findPositions_ne_fuel_of_cost (v : JV) (hg : goodTop v = true) (jp : JsonPath)
    (hs : suppPaths jp = true) (hhead : jp.head? ≠ some .current) (F : Nat)
    (hF : 1 + wcost (selBase (encodeSpec v) jp) 1 jp ≤ F) :
    Sel.findPositions F (encodeSpec v) none jp ≠ .fuel :=
  findPositions_adequate v hg (pathsIdx jp) (selBase (encodeSpec v) jp) (selBase_mul _ jp) jp hs
    (Nat.le_refl _) hhead F hF

/-- **(A)** `Sel.findPositions`, run with `Sel.selFuel`, never answers "out of fuel" -/
theorem selFuel_adequate_model (v : JV) (hg : goodTop v = true) (jp : JsonPath)
    (hs : suppPaths jp = true) (hhead : jp.head? ≠ some .current) :
    Sel.findPositions (Sel.selFuel (encodeSpec v) jp) (encodeSpec v) none jp ≠ .fuel :=
  findPositions_ne_fuel_of_cost v hg jp hs hhead _ (by have := selFuel_covers (encodeSpec v) jp; omega)

/-- a model answer at `selFuel` is already reached at the cost bound -/
theorem findPositions_selFuel_eq (v : JV) (hg : goodTop v = true) (jp : JsonPath)
    (hs : suppPaths jp = true) (hhead : jp.head? ≠ some .current) :
    Sel.findPositions (Sel.selFuel (encodeSpec v) jp) (encodeSpec v) none jp
      = Sel.findPositions (1 + wcost (selBase (encodeSpec v) jp) 1 jp) (encodeSpec v) none jp :=
  findPositions_mono_le rfl (findPositions_ne_fuel_of_cost v hg jp hs hhead _ (Nat.le_refl _))
    (by have := selFuel_covers (encodeSpec v) jp; omega)

/-- **(B), with the items**: a model answer at `selFuel` is the tree evaluator's answer at the
same fuel, and the positions represent it -/
theorem selFuel_adequate_spec_items (v : JV) (hg : goodTop v = true) (jp : JsonPath)
    (hs : suppPaths jp = true) (hhead : jp.head? ≠ some .current) (ps : List Pos)
    (h : Sel.findPositions (Sel.selFuel (encodeSpec v) jp) (encodeSpec v) none jp = .ok ps) :
    ∃ items, Sel.RepL (encodeSpec v) ps items ∧
      Spec.evalPaths (Sel.selFuel (encodeSpec v) jp) v none jp = some items := by
  rw [findPositions_selFuel_eq v hg jp hs hhead] at h
  obtain ⟨items, h1, h2⟩ := findPositions_refines_quant v hg jp (suppPaths_ok jp hs) _ ps h
  exact ⟨items, h1, h2 _ (selFuel_covers (encodeSpec v) jp)⟩

/-- **(B)** the spec, run with the same number, has an answer whenever the model has one -/
theorem selFuel_adequate_spec (v : JV) (hg : goodTop v = true) (jp : JsonPath)
    (hs : suppPaths jp = true) (hhead : jp.head? ≠ some .current) (ps : List Pos)
    (h : Sel.findPositions (Sel.selFuel (encodeSpec v) jp) (encodeSpec v) none jp = .ok ps) :
    (Spec.evalPaths (Sel.selFuel (encodeSpec v) jp) v none jp).isSome = true := by
  obtain ⟨items, _, h2⟩ := selFuel_adequate_spec_items v hg jp hs hhead ps h
  rw [h2]; rfl

/-- **both evaluators at `selFuel`**: either `.ok` with positions that represent exactly the
items the tree evaluator returns AT THE SAME FUEL, or `.err` and the path has no denotation at any
fuel.  (No "out of fuel", no panic.) -/
theorem selFuel_exact (v : JV) (hg : goodTop v = true) (jp : JsonPath)
    (hs : suppPaths jp = true) (hhead : jp.head? ≠ some .current) :
    (∃ ps items, Sel.findPositions (Sel.selFuel (encodeSpec v) jp) (encodeSpec v) none jp = .ok ps ∧
        Sel.RepL (encodeSpec v) ps items ∧
        Spec.evalPaths (Sel.selFuel (encodeSpec v) jp) v none jp = some items) ∨
    (∃ e, Sel.findPositions (Sel.selFuel (encodeSpec v) jp) (encodeSpec v) none jp = .err e ∧
        ∀ f, Spec.evalPaths f v none jp = none) := by
  rcases findPositions_trichotomy v hg jp hs hhead (Sel.selFuel (encodeSpec v) jp) with h | ⟨ps, _, h, _, _⟩ | h
  · exact absurd h (selFuel_adequate_model v hg jp hs hhead)
  · obtain ⟨items, h1, h2⟩ := selFuel_adequate_spec_items v hg jp hs hhead ps h
    exact .inl ⟨ps, items, h, h1, h2⟩
  · exact .inr h

/-- **(C) `PathOK` needs no fuel hypothesis**: its fuel-adequacy conjunct holds for every
supported path on every canonical document -/
theorem pathOK_of_supp (v : JV) (hg : goodTop v = true) (jp : JsonPath) (hs : suppPaths jp = true)
    (hhead : jp.head? ≠ some .current) : PathOK v jp := by
  refine ⟨hs, hhead, ?_⟩
  show (Spec.evalPaths (Sel.selFuel (encodeSpec v) jp) v none jp).isSome = true ∨
    ∃ e, Sel.findPositions (Sel.selFuel (encodeSpec v) jp) (encodeSpec v) none jp = .err e
  rcases selFuel_exact v hg jp hs hhead with ⟨_, items, _, _, h⟩ | ⟨e, h, _⟩
  · exact .inl (by rw [h]; rfl)
  · exact .inr ⟨e, h⟩

theorem pathOK_iff (v : JV) (hg : goodTop v = true) (jp : JsonPath) :
    PathOK v jp ↔ (suppPaths jp = true ∧ jp.head? ≠ some .current) :=
  ⟨fun h => ⟨h.1, h.2.1⟩, fun h => pathOK_of_supp v hg jp h.1 h.2⟩

/-! ### consequences for the two JSONPath operations of a chain (C07): no fuel hypothesis -/

/-- `get_by_path_first` inside a chain -/
theorem selFirst_refines_supp (v : JV) (hg : goodTop v = true) (jp : JsonPath) (hs : suppPaths jp = true)
    (hhead : jp.head? ≠ some .current) :
    Fn.chainStep (encodeSpec v) (.selFirst jp)
      = .ok ((Spec.chainStep v (.selFirst jp)).map encodeSpec) :=
  selFirst_refines v hg jp (pathOK_of_supp v hg jp hs hhead)

/-- `get_by_path_array` inside a chain (the size side condition on the resulting array stays) -/
theorem selArr_refines_supp (v : JV) (hg : goodTop v = true) (jp : JsonPath) (hs : suppPaths jp = true)
    (hhead : jp.head? ≠ some .current)
    (hres : isPredicate jp = false → ∀ items,
      Spec.evalPaths (Spec.chainSelFuel v jp) v none jp = some items → goodTop (arr items) = true) :
    Fn.chainStep (encodeSpec v) (.selArr jp)
      = .ok ((Spec.chainStep v (.selArr jp)).map encodeSpec) :=
  selArr_refines v hg jp (pathOK_of_supp v hg jp hs hhead) hres

/-- the selector entry point itself: `Selector::select` in `All` mode at `selFuel` either writes
the canonical images of exactly the items the spec denotes at the same fuel, or answers `Err`
on a path without denotation -/
theorem findPositions_selFuel_complete (v : JV) (hg : goodTop v = true) (jp : JsonPath)
    (hs : suppPaths jp = true) (hhead : jp.head? ≠ some .current) (items : List JV) (f : Nat)
    (h : Spec.evalPaths f v none jp = some items) :
    ∃ ps, Sel.findPositions (Sel.selFuel (encodeSpec v) jp) (encodeSpec v) none jp = .ok ps ∧
      Sel.RepL (encodeSpec v) ps items ∧
      Spec.evalPaths (Sel.selFuel (encodeSpec v) jp) v none jp = some items := by
  rcases selFuel_exact v hg jp hs hhead with ⟨ps, items', h1, h2, h3⟩ | ⟨_, _, hn⟩
  · have : items = items' := by
      rcases Nat.le_total f (Sel.selFuel (encodeSpec v) jp) with hle | hle
      · have := evalPaths_mono_le v none jp items f _ hle h
        rw [h3] at this; exact (Option.some.inj this).symm
      · have := evalPaths_mono_le v none jp items' _ f hle h3
        rw [h] at this; exact Option.some.inj this
    subst this
    exact ⟨ps, h1, h2, h3⟩
  · rw [hn f] at h; simp at h

/-! ### examples (kernel-checked) -/

/-- `[[1,2,3],{"a":5},"x"]` -/
def exDoc : JV :=
  .arr [.arr [.num (.uint 1), .num (.uint 2), .num (.uint 3)], .obj [([97], .num (.uint 5))], .str [120]]

/-- `$[*][0,0,0,1 to 2]?(@ > 1 && exists(@[*]?(@ == 2)))` -/
def exPath : JsonPath :=
  [.root, .bracketWildcard,
   .arrayIndices [.index (.index 0), .index (.index 0), .index (.index 0), .slice (.index 1) (.index 2)],
   .filterExpr (.binaryOp .and
     (.binaryOp .gt (.paths [.current]) (.value (.num (.uint 1))))
     (.existsFn [.current, .bracketWildcard,
        .filterExpr (.binaryOp .eq (.paths [.current]) (.value (.num (.uint 2))))]))]

example : goodTop exDoc = true := by decide
example : suppPaths exPath = true := by decide
example : (encodeSpec exDoc).length = 54 := by decide
example : pathsSize exPath = 17 ∧ pathsIdx exPath = 4 := by decide
/-- the cost bound with the exact multiplier of this document and path: a few thousand units
(the actual need is 19 for the model and 22 for the spec), against `selFuel = 348 ^ 19 + 16` -/
example : 1 + wcost ((54 + 1) * (4 + 1)) 1 exPath = 75921 := by decide
example : selBase (encodeSpec exDoc) exPath = 348 := by decide

/-- the actual need on this example: 19 units for the model, 22 for the tree evaluator -/
example : Sel.findPositions 18 (encodeSpec exDoc) none exPath = .fuel := by decide +kernel
example : Sel.findPositions 19 (encodeSpec exDoc) none exPath ≠ .fuel := by decide +kernel
example : (Spec.evalPaths 21 exDoc none exPath).isSome = false := by decide +kernel
example : (Spec.evalPaths 22 exDoc none exPath).isSome = true := by decide +kernel

/-- the fuel hypothesis of the chain theorem is discharged for a path WITH filters -/
example : PathOK exDoc exPath :=
  pathOK_of_supp exDoc (by decide) exPath (by decide) (by simp [exPath])

example : Sel.findPositions (Sel.selFuel (encodeSpec exDoc) exPath) (encodeSpec exDoc) none exPath ≠ .fuel :=
  selFuel_adequate_model exDoc (by decide) exPath (by decide) (by simp [exPath])

end Jsonb
