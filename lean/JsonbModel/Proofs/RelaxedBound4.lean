/-
Relaxed = crate, part 4: values, arrays, objects.

`Agree buf x o` (RelaxedBound3) relates a cursor-based crate function to a specification function
on the remaining input, in both directions at once.  By induction on the fuel, `parse_json_value`,
the array loop and the object loop (each at its two entry points: first element / in front of a
comma or the closing bracket) agree with `Relaxed.value`, `Relaxed.elements`, `Relaxed.members`.
-/
import JsonbModel.Proofs.RelaxedBound3

namespace Jsonb
namespace RB
open Jsonb.JP Jsonb.SS

/-! ### `Agree` plumbing -/

theorem Agree_fuel {α : Type} (buf : Bytes) (o : Option (α × Bytes)) :
    Agree buf (Res.fuel : Res (α × Nat)) o := trivial

theorem Agree_err {α : Type} (buf : Bytes) (e : String) : Agree buf (Res.err e : Res (α × Nat)) none := rfl

theorem Agree_ok {α : Type} {buf : Bytes} {a : α} {j : Nat} {o : Option (α × Bytes)}
    (h : o = some (a, buf.drop j)) : Agree buf (Res.ok (a, j)) o := h

theorem Agree_bind {α β : Type} {buf : Bytes} {x : Res (α × Nat)} {f : α × Nat → Res (β × Nat)}
    {o : Option (α × Bytes)} {g : α × Bytes → Option (β × Bytes)} (hx : Agree buf x o)
    (hf : ∀ a j, x = .ok (a, j) → Agree buf (f (a, j)) (g (a, buf.drop j))) :
    Agree buf (x >>= f) (o.bind g) := by
  cases x with
  | ok p =>
    obtain ⟨a, j⟩ := p
    have : o = some (a, buf.drop j) := hx
    subst this
    exact hf a j rfl
  | err e => have : o = none := hx; subst this; rfl
  | panic e => have : o = none := hx; subst this; rfl
  | fuel => trivial

/-! ### Heads of the remaining input -/

/-- dispatch on one expected byte -/
def head1 {α : Type} (l : Bytes) (x : UInt8) (A : Bytes → α) (C : α) : α :=
  match l with
  | [] => C
  | c :: t => if c == x then A t else C

/-- dispatch on two expected bytes -/
def head2 {α : Type} (l : Bytes) (x y : UInt8) (A B : Bytes → α) (C : α) : α :=
  match l with
  | [] => C
  | c :: t => if c == x then A t else if c == y then B t else C

/-! ### The specification, branch by branch -/

theorem value_nil {F : Nat} {bs : Bytes} (h : Relaxed.ws bs = []) : Relaxed.value F bs = none := by
  cases F with
  | zero => rfl
  | succ F => simp only [Relaxed.value, h]

theorem value_ws (F : Nat) (bs : Bytes) : Relaxed.value F (Relaxed.ws bs) = Relaxed.value F bs := by
  cases F with
  | zero => rfl
  | succ F => simp only [Relaxed.value, ws_idem]

theorem value_null {F : Nat} {bs rest : Bytes} (h : Relaxed.ws bs = 0x6E :: rest) :
    Relaxed.value (F + 1) bs = (Strict.expectLit [0x75, 0x6C, 0x6C] rest).map (fun r => (JV.null, r)) := by
  simp only [Relaxed.value, h]
  rw [if_pos (by decide)]

theorem value_true {F : Nat} {bs rest : Bytes} (h : Relaxed.ws bs = 0x74 :: rest) :
    Relaxed.value (F + 1) bs =
      (Strict.expectLit [0x72, 0x75, 0x65] rest).map (fun r => (JV.bool true, r)) := by
  simp only [Relaxed.value, h]
  rw [if_neg (by decide), if_pos (by decide)]

theorem value_false {F : Nat} {bs rest : Bytes} (h : Relaxed.ws bs = 0x66 :: rest) :
    Relaxed.value (F + 1) bs =
      (Strict.expectLit [0x61, 0x6C, 0x73, 0x65] rest).map (fun r => (JV.bool false, r)) := by
  simp only [Relaxed.value, h]
  rw [if_neg (by decide), if_neg (by decide), if_pos (by decide)]

theorem value_num {F : Nat} {bs rest : Bytes} {c : UInt8} (h : Relaxed.ws bs = c :: rest)
    (hc : JP.isDigit c = true ∨ c = 0x2D) :
    Relaxed.value (F + 1) bs = (Strict.number (c :: rest)).map (fun (n, r) => (JV.num n, r)) := by
  obtain ⟨-, -, h3, h4, h5⟩ := digit_facts hc
  have hd : (c == 0x2D || Strict.isDigit c) = true := by
    rcases hc with hc | hc
    · have : Strict.isDigit c = true := hc
      simp [this]
    · simp [hc]
  simp only [Relaxed.value, h, h3, h4, h5, hd, Bool.false_eq_true, if_false, if_true]

theorem value_str {F : Nat} {bs rest : Bytes} (h : Relaxed.ws bs = 0x22 :: rest) :
    Relaxed.value (F + 1) bs = (Relaxed.string rest).map (fun (s, r) => (JV.str s, r)) := by
  simp only [Relaxed.value, h]
  rw [if_neg (by decide), if_neg (by decide), if_neg (by decide), if_neg (by decide), if_pos (by decide)]

theorem value_arr {F : Nat} {bs rest : Bytes} (h : Relaxed.ws bs = 0x5B :: rest) :
    Relaxed.value (F + 1) bs = head1 (Relaxed.ws rest) 0x5D (fun r => some (JV.arr [], r))
      ((Relaxed.elements F rest).map (fun (vs, r) => (JV.arr vs, r))) := by
  simp only [Relaxed.value, h]
  rw [if_neg (by decide), if_neg (by decide), if_neg (by decide), if_neg (by decide), if_neg (by decide),
    if_pos (by decide)]
  generalize Relaxed.ws rest = l
  unfold head1
  split
  · simp
  · rename_i hne
    cases l with
    | nil => rfl
    | cons c t =>
      have hc : c ≠ 0x5D := fun he => hne t (by rw [he])
      have : (c == 0x5D) = false := by simpa using hc
      simp [this]

theorem value_obj {F : Nat} {bs rest : Bytes} (h : Relaxed.ws bs = 0x7B :: rest) :
    Relaxed.value (F + 1) bs = head1 (Relaxed.ws rest) 0x7D (fun r => some (JV.obj [], r))
      ((Relaxed.members F rest).map (fun (kvs, r) => (JV.obj (mkObj kvs), r))) := by
  simp only [Relaxed.value, h]
  rw [if_neg (by decide), if_neg (by decide), if_neg (by decide), if_neg (by decide), if_neg (by decide),
    if_neg (by decide), if_pos (by decide)]
  generalize Relaxed.ws rest = l
  unfold head1
  split
  · simp
  · rename_i hne
    cases l with
    | nil => rfl
    | cons c t =>
      have hc : c ≠ 0x7D := fun he => hne t (by rw [he])
      have : (c == 0x7D) = false := by simpa using hc
      simp [this]

theorem value_bad {F : Nat} {bs rest : Bytes} {c : UInt8} (h : Relaxed.ws bs = c :: rest)
    (h1 : c ≠ 0x6E) (h2 : c ≠ 0x74) (h3 : c ≠ 0x66) (h4 : ¬ (JP.isDigit c = true ∨ c = 0x2D))
    (h5 : c ≠ 0x22) (h6 : c ≠ 0x5B) (h7 : c ≠ 0x7B) : Relaxed.value (F + 1) bs = none := by
  have e1 : (c == 0x6E) = false := by simpa using h1
  have e2 : (c == 0x74) = false := by simpa using h2
  have e3 : (c == 0x66) = false := by simpa using h3
  have e4 : (c == 0x2D || Strict.isDigit c) = false := by
    have : Strict.isDigit c = JP.isDigit c := rfl
    simp only [not_or] at h4
    simp [this, h4.1, h4.2]
  have e5 : (c == 0x22) = false := by simpa using h5
  have e6 : (c == 0x5B) = false := by simpa using h6
  have e7 : (c == 0x7B) = false := by simpa using h7
  simp only [Relaxed.value, h, e1, e2, e3, e4, e5, e6, e7, Bool.false_eq_true, if_false]

/-- after an element: a comma and more elements, or the closing bracket -/
def arrTail (G : Nat) (r : Bytes) : Option (List JV × Bytes) :=
  head2 (Relaxed.ws r) 0x2C 0x5D (fun r' => Relaxed.elements G r') (fun r' => some ([], r')) none

theorem elements_succ (G : Nat) (bs : Bytes) :
    Relaxed.elements (G + 1) bs = (Relaxed.value G bs).bind (fun (v, r) =>
      (arrTail G r).map (fun (vs, r') => (v :: vs, r'))) := by
  simp only [Relaxed.elements]
  cases Relaxed.value G bs with
  | none => rfl
  | some p =>
    obtain ⟨v, r⟩ := p
    simp only [Option.bind_some, arrTail]
    generalize Relaxed.ws r = l
    unfold head2
    split
    · simp
    · simp
    · rename_i hn1 hn2
      cases l with
      | nil => rfl
      | cons c t =>
        have hc1 : c ≠ 0x2C := fun he => hn1 t (by rw [he])
        have hc2 : c ≠ 0x5D := fun he => hn2 t (by rw [he])
        have e1 : (c == 0x2C) = false := by simpa using hc1
        have e2 : (c == 0x5D) = false := by simpa using hc2
        simp [e1, e2]

theorem elements_ws (G : Nat) (bs : Bytes) :
    Relaxed.elements G (Relaxed.ws bs) = Relaxed.elements G bs := by
  cases G with
  | zero => rfl
  | succ G => rw [elements_succ, elements_succ, value_ws]

/-- after a member: a comma and more members, or the closing brace -/
def objTail (G : Nat) (r : Bytes) : Option (List (Bytes × JV) × Bytes) :=
  head2 (Relaxed.ws r) 0x2C 0x7D (fun r' => Relaxed.members G r') (fun r' => some ([], r')) none

/-- a key: white space, then a string -/
def keyOf (bs : Bytes) : Option (Bytes × Bytes) :=
  head1 (Relaxed.ws bs) 0x22 (fun r0 => Relaxed.string r0) none

theorem members_succ (G : Nat) (bs : Bytes) :
    Relaxed.members (G + 1) bs = (keyOf bs).bind (fun (k, r1) =>
      head1 (Relaxed.ws r1) 0x3A (fun r2 => (Relaxed.value G r2).bind (fun (v, r3) =>
        (objTail G r3).map (fun (kvs, r) => ((k, v) :: kvs, r)))) none) := by
  simp only [Relaxed.members, keyOf]
  generalize Relaxed.ws bs = l0
  split
  · rename_i r0
    simp only [head1, beq_self_eq_true, if_true]
    cases Relaxed.string r0 with
    | none => rfl
    | some p =>
      obtain ⟨k, r1⟩ := p
      simp only [Option.bind_some]
      generalize Relaxed.ws r1 = l1
      split
      · rename_i r2
        simp only [beq_self_eq_true, if_true]
        cases Relaxed.value G r2 with
        | none => rfl
        | some q =>
          obtain ⟨v, r3⟩ := q
          simp only [Option.bind_some, objTail]
          generalize Relaxed.ws r3 = l3
          unfold head2
          split
          · simp
          · simp
          · rename_i hn1 hn2
            cases l3 with
            | nil => rfl
            | cons c t =>
              have hc1 : c ≠ 0x2C := fun he => hn1 t (by rw [he])
              have hc2 : c ≠ 0x7D := fun he => hn2 t (by rw [he])
              have e1 : (c == 0x2C) = false := by simpa using hc1
              have e2 : (c == 0x7D) = false := by simpa using hc2
              simp [e1, e2]
      · rename_i hne
        cases l1 with
        | nil => rfl
        | cons c t =>
          have hc : c ≠ 0x3A := fun he => hne t (by rw [he])
          have : (c == 0x3A) = false := by simpa using hc
          simp [this]
  · rename_i hne
    cases l0 with
    | nil => rfl
    | cons c t =>
      have hc : c ≠ 0x22 := fun he => hne t (by rw [he])
      have : (c == 0x22) = false := by simpa using hc
      simp [head1, this]

theorem members_ws (G : Nat) (bs : Bytes) :
    Relaxed.members G (Relaxed.ws bs) = Relaxed.members G bs := by
  cases G with
  | zero => rfl
  | succ G => rw [members_succ, members_succ, keyOf, keyOf, ws_idem]

/-- a value that does not start with a quote is not a string -/
theorem value_kind {F : Nat} {bs rest : Bytes} {c : UInt8} (h : Relaxed.ws bs = c :: rest)
    (hc : c ≠ 0x22) (k r : Bytes) : Relaxed.value (F + 1) bs ≠ some (JV.str k, r) := by
  intro hv
  have e5 : (c == 0x22) = false := by simpa using hc
  simp only [Relaxed.value, h, e5, Bool.false_eq_true, if_false] at hv
  repeat' split at hv
  all_goals simp at hv

/-- the key the object reader expects = a value that is a string -/
theorem keyOf_spec (G : Nat) (bs : Bytes) :
    keyOf bs = match Relaxed.value (G + 1) bs with
      | some (JV.str k, r) => some (k, r)
      | _ => none := by
  unfold keyOf
  cases hl : Relaxed.ws bs with
  | nil => rw [value_nil hl]; rfl
  | cons c t =>
    by_cases hc : c = 0x22
    · subst hc
      rw [value_str hl]
      simp only [head1, beq_self_eq_true, if_true]
      cases Relaxed.string t with
      | none => rfl
      | some p => rfl
    · have e : (c == 0x22) = false := by simpa using hc
      simp only [head1, e, Bool.false_eq_true, if_false]
      cases hv : Relaxed.value (G + 1) bs with
      | none => rfl
      | some p =>
        obtain ⟨v, r⟩ := p
        cases v with
        | str k => exact absurd hv (value_kind hl hc k r)
        | null => rfl
        | bool b => rfl
        | num n => rfl
        | arr vs => rfl
        | obj kvs => rfl

/-! ### Tokens -/

theorem lit_agree {buf : Bytes} {i1 : Nat} {c : UInt8} {t : Bytes} (hdc : buf.drop i1 = c :: t)
    (lit : Bytes) (v : JV) :
    Agree buf (mustAll buf i1 (c :: lit) >>= fun idx => (pure (v, idx) : Res (JV × Nat)))
      ((Strict.expectLit lit t).map (fun r => (v, r))) := by
  cases hm : mustAll buf i1 (c :: lit) with
  | ok j =>
    obtain ⟨-, hd⟩ := mustAll_ok _ hm
    rw [hdc] at hd
    simp only [List.cons_append, List.cons.injEq, true_and] at hd
    subst hd
    simp only [bind_ok, pure_eq]
    rw [expectLit_append]
    rfl
  | err e =>
    refine Agree_notOk (by simp only [bind_err]; exact NotOk_err _) ?_
    cases he : Strict.expectLit lit t with
    | none => rfl
    | some r =>
      have := expectLit_some he
      subst this
      rw [mustAll_view buf (c :: lit) i1 r (by rw [hdc]; rfl)] at hm
      exact absurd hm (by simp)
  | panic e =>
    refine Agree_notOk (by intro a; simp) ?_
    cases he : Strict.expectLit lit t with
    | none => rfl
    | some r =>
      have := expectLit_some he
      subst this
      rw [mustAll_view buf (c :: lit) i1 r (by rw [hdc]; rfl)] at hm
      exact absurd hm (by simp)
  | fuel => exact Agree_fuel _ _

theorem num_agree (buf : Bytes) (i1 : Nat) :
    Agree buf (parseNumber buf i1) ((Strict.number (buf.drop i1)).map (fun (n, r) => (JV.num n, r))) := by
  obtain ⟨h1, h2⟩ := parseNumber_iff (buf := buf) (i := i1)
  cases hp : parseNumber buf i1 with
  | ok p =>
    obtain ⟨v, j⟩ := p
    obtain ⟨n, rfl, hn⟩ := h1 v j hp
    rw [hn]; rfl
  | err e =>
    refine Agree_notOk (NotOk_err _) ?_
    cases hs : Strict.number (buf.drop i1) with
    | none => rfl
    | some q =>
      obtain ⟨j, hj, -⟩ := h2 q.1 q.2 hs
      rw [hp] at hj; exact absurd hj (by simp)
  | panic e =>
    refine Agree_notOk (by intro a; simp) ?_
    cases hs : Strict.number (buf.drop i1) with
    | none => rfl
    | some q =>
      obtain ⟨j, hj, -⟩ := h2 q.1 q.2 hs
      rw [hp] at hj; exact absurd hj (by simp)
  | fuel => exact Agree_fuel _ _

/-! ### The statements -/

def VAgree (F : Nat) : Prop :=
  ∀ buf i, Agree buf (parseJsonValue F buf i) (Relaxed.value F (buf.drop i))

def arrOut (acc : List JV) (o : Option (List JV × Bytes)) : Option (JV × Bytes) :=
  o.map (fun (vs, r) => (JV.arr (acc ++ vs), r))

/-- the array loop in front of a comma or the closing bracket -/
def EAgree (G : Nat) : Prop :=
  ∀ buf i acc, Agree buf (arrLoop G buf i false acc) (arrOut acc (arrTail G (buf.drop i)))

/-- the array loop just after the opening bracket -/
def EFirst (G : Nat) : Prop :=
  ∀ buf i, Agree buf (arrLoop G buf i true [])
    (head1 (Relaxed.ws (buf.drop i)) 0x5D (fun r => some (JV.arr [], r))
      ((Relaxed.elements G (buf.drop i)).map (fun (vs, r) => (JV.arr vs, r))))

def objOut (obj : List (Bytes × JV)) (o : Option (List (Bytes × JV) × Bytes)) : Option (JV × Bytes) :=
  o.map (fun (kvs, r) => (JV.obj (kvs.foldl (fun m kv => insertKV kv.1 kv.2 m) obj), r))

/-- the object loop in front of a comma or the closing brace -/
def MAgree (G : Nat) : Prop :=
  ∀ buf i obj, Agree buf (objLoop G buf i false obj) (objOut obj (objTail G (buf.drop i)))

/-- the object loop just after the opening brace -/
def MFirst (G : Nat) : Prop :=
  ∀ buf i, Agree buf (objLoop G buf i true [])
    (head1 (Relaxed.ws (buf.drop i)) 0x7D (fun r => some (JV.obj [], r))
      ((Relaxed.members G (buf.drop i)).map (fun (kvs, r) => (JV.obj (mkObj kvs), r))))

/-! ### Arrays -/

theorem arrOut_cons (acc : List JV) (v : JV) (o : Option (List JV × Bytes)) :
    arrOut (acc ++ [v]) o = arrOut acc (o.map (fun (vs, r') => (v :: vs, r'))) := by
  cases o with
  | none => rfl
  | some p => simp [arrOut, List.append_assoc]

theorem arrOut_bind {α : Type} (acc : List JV) (o : Option α) (g : α → Option (List JV × Bytes)) :
    arrOut acc (o.bind g) = o.bind (fun a => arrOut acc (g a)) := by
  cases o <;> rfl

/-- one element and the rest of the loop, with the cursor `p` at the element -/
theorem arr_step {G : Nat} (hV : VAgree G) (hE : EAgree G) (buf : Bytes) (p : Nat) (acc : List JV) :
    Agree buf (parseJsonValue G buf p >>= fun (x : JV × Nat) => arrLoop G buf x.2 false (acc ++ [x.1]))
      (arrOut acc (Relaxed.elements (G + 1) (buf.drop p))) := by
  rw [elements_succ, arrOut_bind]
  refine Agree_bind (hV buf p) ?_
  intro v j _
  rw [← arrOut_cons]
  exact hE buf j (acc ++ [v])

theorem EAgree_succ {G : Nat} (hV : VAgree G) (hE : EAgree G) : EAgree (G + 1) := by
  intro buf i acc
  obtain ⟨i1, hsk, -, hd1⟩ := skipUnused_ws buf i
  simp only [arrLoop, hsk, bind_ok, arrTail]
  cases hl : Relaxed.ws (buf.drop i) with
  | nil =>
    have : next buf i1 = .err "InvalidEOF" := by unfold next; rw [getv (hd1.trans hl)]; rfl
    rw [this]; rfl
  | cons c t =>
    have hdc : buf.drop i1 = c :: t := hd1.trans hl
    rw [next_view hdc]
    simp only [bind_ok, head2]
    by_cases h1 : c = 0x5D
    · subst h1
      simp only [beq_self_eq_true, if_true, pure_eq]
      rw [if_neg (by decide)]
      refine Agree_ok ?_
      simp [arrOut, drop_succ_of_drop hdc]
    · have e1 : (c == 0x5D) = false := by simpa using h1
      simp only [e1, Bool.false_eq_true, if_false]
      by_cases h2 : c = 0x2C
      · subst h2
        simp only [Bool.not_false, Bool.true_and, bne_self_eq_false, Bool.false_eq_true, if_false,
          beq_self_eq_true, if_true]
        have := arr_step hV hE buf (i1 + 1) acc
        rw [drop_succ_of_drop hdc] at this
        exact this
      · have e2 : (c == 0x2C) = false := by simpa using h2
        have e3 : (c != 0x2C) = true := by simpa using h2
        simp only [e2, e3, Bool.not_false, Bool.and_self, if_true, Bool.false_eq_true, if_false]
        rfl

theorem elements_nil {G : Nat} {bs : Bytes} (h : Relaxed.ws bs = []) : Relaxed.elements G bs = none := by
  cases G with
  | zero => rfl
  | succ G => rw [elements_succ, value_nil h]; rfl

theorem EFirst_succ {G : Nat} (hV : VAgree G) (hE : EAgree G) : EFirst (G + 1) := by
  intro buf i
  obtain ⟨i1, hsk, -, hd1⟩ := skipUnused_ws buf i
  simp only [arrLoop, hsk, bind_ok]
  cases hl : Relaxed.ws (buf.drop i) with
  | nil =>
    have : next buf i1 = .err "InvalidEOF" := by unfold next; rw [getv (hd1.trans hl)]; rfl
    rw [this, elements_nil hl]; rfl
  | cons c t =>
    have hdc : buf.drop i1 = c :: t := hd1.trans hl
    rw [next_view hdc]
    simp only [bind_ok, head1]
    by_cases h1 : c = 0x5D
    · subst h1
      simp only [beq_self_eq_true, if_true, pure_eq]
      refine Agree_ok ?_
      rw [drop_succ_of_drop hdc]
    · have e1 : (c == 0x5D) = false := by simpa using h1
      simp only [e1, Bool.false_eq_true, if_false, Bool.not_true, Bool.false_and, if_true]
      have := arr_step hV hE buf i1 []
      rw [hd1, elements_ws] at this
      exact this

/-! ### Objects -/

theorem objOut_cons (obj : List (Bytes × JV)) (k : Bytes) (v : JV)
    (o : Option (List (Bytes × JV) × Bytes)) :
    objOut (insertKV k v obj) o = objOut obj (o.map (fun (kvs, r) => ((k, v) :: kvs, r))) := by
  cases o with
  | none => rfl
  | some p => simp [objOut]

theorem objOut_bind {α : Type} (obj : List (Bytes × JV)) (o : Option α)
    (g : α → Option (List (Bytes × JV) × Bytes)) :
    objOut obj (o.bind g) = o.bind (fun a => objOut obj (g a)) := by
  cases o <;> rfl

/-- one member and the rest of the loop, with the cursor `p` at the key -/
theorem obj_step {G : Nat} (hV : VAgree G) (hM : MAgree G) (buf : Bytes) (p : Nat)
    (obj : List (Bytes × JV)) :
    Agree buf (objStep G buf p obj) (objOut obj (Relaxed.members (G + 1) (buf.drop p))) := by
  cases G with
  | zero => simp only [objStep, parseJsonValue, bind_fuel]; exact Agree_fuel _ _
  | succ G' =>
    have hk := keyOf_spec G' (buf.drop p)
    have hv := hV buf p
    rw [members_succ]
    unfold objStep
    cases hx : parseJsonValue (G' + 1) buf p with
    | ok q =>
      obtain ⟨key, i2⟩ := q
      rw [hx] at hv
      have hv' : Relaxed.value (G' + 1) (buf.drop p) = some (key, buf.drop i2) := hv
      rw [hv'] at hk
      simp only [bind_ok]
      cases key with
      | str k =>
        have hk' : keyOf (buf.drop p) = some (k, buf.drop i2) := hk
        rw [hk']
        simp only [isString, Bool.not_true, Bool.false_eq_true, if_false, Option.bind_some]
        obtain ⟨i3, hsk, -, hd3⟩ := skipUnused_ws buf i2
        simp only [hsk, bind_ok]
        cases hl : Relaxed.ws (buf.drop i2) with
        | nil =>
          have : next buf i3 = .err "InvalidEOF" := by unfold next; rw [getv (hd3.trans hl)]; rfl
          rw [this]; rfl
        | cons c t =>
          have hdc : buf.drop i3 = c :: t := hd3.trans hl
          rw [next_view hdc]
          simp only [bind_ok, head1]
          by_cases h1 : c = 0x3A
          · subst h1
            simp only [bne_self_eq_false, Bool.false_eq_true, if_false, beq_self_eq_true, if_true]
            rw [objOut_bind]
            have hv2 := hV buf (i3 + 1)
            rw [drop_succ_of_drop hdc] at hv2
            refine Agree_bind hv2 ?_
            intro v i4 _
            simp only [asStrUnwrap, bind_ok]
            rw [← objOut_cons]
            exact hM buf i4 (insertKV k v obj)
          · have e1 : (c == 0x3A) = false := by simpa using h1
            have e2 : (c != 0x3A) = true := by simpa using h1
            simp only [e1, e2, if_true, Bool.false_eq_true, if_false]
            rfl
      | null => have hk' : keyOf (buf.drop p) = none := hk; rw [hk']; rfl
      | bool b => have hk' : keyOf (buf.drop p) = none := hk; rw [hk']; rfl
      | num n => have hk' : keyOf (buf.drop p) = none := hk; rw [hk']; rfl
      | arr vs => have hk' : keyOf (buf.drop p) = none := hk; rw [hk']; rfl
      | obj kvs => have hk' : keyOf (buf.drop p) = none := hk; rw [hk']; rfl
    | err e =>
      rw [hx] at hv
      have hv' : Relaxed.value (G' + 1) (buf.drop p) = none := hv
      rw [hv'] at hk
      have hk' : keyOf (buf.drop p) = none := hk
      rw [hk']; rfl
    | panic e =>
      rw [hx] at hv
      have hv' : Relaxed.value (G' + 1) (buf.drop p) = none := hv
      rw [hv'] at hk
      have hk' : keyOf (buf.drop p) = none := hk
      rw [hk']; rfl
    | fuel => exact Agree_fuel _ _

theorem MAgree_succ {G : Nat} (hV : VAgree G) (hM : MAgree G) : MAgree (G + 1) := by
  intro buf i obj
  obtain ⟨i1, hsk, -, hd1⟩ := skipUnused_ws buf i
  simp only [objLoop, hsk, bind_ok, objTail]
  cases hl : Relaxed.ws (buf.drop i) with
  | nil =>
    have : next buf i1 = .err "InvalidEOF" := by unfold next; rw [getv (hd1.trans hl)]; rfl
    rw [this]; rfl
  | cons c t =>
    have hdc : buf.drop i1 = c :: t := hd1.trans hl
    rw [next_view hdc]
    simp only [bind_ok, head2]
    by_cases h1 : c = 0x7D
    · subst h1
      simp only [beq_self_eq_true, if_true, pure_eq]
      rw [if_neg (by decide)]
      refine Agree_ok ?_
      simp [objOut, drop_succ_of_drop hdc]
    · have e1 : (c == 0x7D) = false := by simpa using h1
      simp only [e1, Bool.false_eq_true, if_false]
      by_cases h2 : c = 0x2C
      · subst h2
        simp only [Bool.not_false, Bool.true_and, bne_self_eq_false, Bool.false_eq_true, if_false,
          beq_self_eq_true, if_true]
        have := obj_step hV hM buf (i1 + 1) obj
        rw [drop_succ_of_drop hdc] at this
        exact this
      · have e2 : (c == 0x2C) = false := by simpa using h2
        have e3 : (c != 0x2C) = true := by simpa using h2
        simp only [e2, e3, Bool.not_false, Bool.and_self, if_true, Bool.false_eq_true, if_false]
        rfl

theorem members_nil {G : Nat} {bs : Bytes} (h : Relaxed.ws bs = []) : Relaxed.members G bs = none := by
  cases G with
  | zero => rfl
  | succ G => rw [members_succ, keyOf, h]; rfl

theorem MFirst_succ {G : Nat} (hV : VAgree G) (hM : MAgree G) : MFirst (G + 1) := by
  intro buf i
  obtain ⟨i1, hsk, -, hd1⟩ := skipUnused_ws buf i
  simp only [objLoop, hsk, bind_ok]
  cases hl : Relaxed.ws (buf.drop i) with
  | nil =>
    have : next buf i1 = .err "InvalidEOF" := by unfold next; rw [getv (hd1.trans hl)]; rfl
    rw [this, members_nil hl]; rfl
  | cons c t =>
    have hdc : buf.drop i1 = c :: t := hd1.trans hl
    rw [next_view hdc]
    simp only [bind_ok, head1]
    by_cases h1 : c = 0x7D
    · subst h1
      simp only [beq_self_eq_true, if_true, pure_eq]
      refine Agree_ok ?_
      rw [drop_succ_of_drop hdc]
    · have e1 : (c == 0x7D) = false := by simpa using h1
      simp only [e1, Bool.false_eq_true, if_false, Bool.not_true, Bool.false_and, if_true]
      have := obj_step hV hM buf i1 []
      rw [hd1, members_ws] at this
      exact this

/-! ### Values -/

theorem VAgree_succ {F : Nat} (hE : EFirst F) (hM : MFirst F) : VAgree (F + 1) := by
  intro buf i
  obtain ⟨i1, hsk, -, hd1⟩ := skipUnused_ws buf i
  simp only [parseJsonValue, hsk, bind_ok]
  cases hl : Relaxed.ws (buf.drop i) with
  | nil =>
    have : next buf i1 = .err "InvalidEOF" := by unfold next; rw [getv (hd1.trans hl)]; rfl
    rw [this, value_nil hl]; rfl
  | cons c t =>
    have hdc : buf.drop i1 = c :: t := hd1.trans hl
    rw [next_view hdc]
    simp only [bind_ok]
    by_cases h1 : c = 0x6E
    · subst h1
      rw [if_pos (by decide), value_null hl]
      exact lit_agree hdc _ _
    have e1 : (c == 0x6E) = false := by simpa using h1
    rw [if_neg (by simp [e1])]
    by_cases h2 : c = 0x74
    · subst h2
      rw [if_pos (by decide), value_true hl]
      exact lit_agree hdc _ _
    have e2 : (c == 0x74) = false := by simpa using h2
    rw [if_neg (by simp [e2])]
    by_cases h3 : c = 0x66
    · subst h3
      rw [if_pos (by decide), value_false hl]
      exact lit_agree hdc _ _
    have e3 : (c == 0x66) = false := by simpa using h3
    rw [if_neg (by simp [e3])]
    by_cases h4 : JP.isDigit c = true ∨ c = 0x2D
    · have hd : (JP.isDigit c || c == 0x2D) = true := by
        rcases h4 with h4 | h4
        · simp [h4]
        · simp [h4]
      rw [if_pos hd, value_num hl h4, ← hdc]
      exact num_agree buf i1
    have e4 : (JP.isDigit c || c == 0x2D) = false := by
      simp only [not_or] at h4
      simp [h4.1, h4.2]
    rw [if_neg (by simp [e4])]
    by_cases h5 : c = 0x22
    · subst h5
      rw [if_pos (by decide), value_str hl]
      exact string_agree hdc
    have e5 : (c == 0x22) = false := by simpa using h5
    rw [if_neg (by simp [e5])]
    by_cases h6 : c = 0x5B
    · subst h6
      rw [if_pos (by decide), value_arr hl, mustIs_view hdc]
      simp only [bind_ok]
      have := hE buf (i1 + 1)
      rw [drop_succ_of_drop hdc] at this
      exact this
    have e6 : (c == 0x5B) = false := by simpa using h6
    rw [if_neg (by simp [e6])]
    by_cases h7 : c = 0x7B
    · subst h7
      rw [if_pos (by decide), value_obj hl, mustIs_view hdc]
      simp only [bind_ok]
      have := hM buf (i1 + 1)
      rw [drop_succ_of_drop hdc] at this
      exact this
    have e7 : (c == 0x7B) = false := by simpa using h7
    rw [if_neg (by simp [e7]), value_bad hl h1 h2 h3 h4 h5 h6 h7]
    rfl

/-- **the crate's parser and the specification agree at every fuel** -/
theorem agree_all : ∀ F, VAgree F ∧ EAgree F ∧ EFirst F ∧ MAgree F ∧ MFirst F := by
  intro F
  induction F with
  | zero =>
    refine ⟨?_, ?_, ?_, ?_, ?_⟩
    · intro buf i; simp only [parseJsonValue]; exact Agree_fuel _ _
    · intro buf i acc; simp only [arrLoop]; exact Agree_fuel _ _
    · intro buf i; simp only [arrLoop]; exact Agree_fuel _ _
    · intro buf i obj; simp only [objLoop]; exact Agree_fuel _ _
    · intro buf i; simp only [objLoop]; exact Agree_fuel _ _
  | succ F ih =>
    obtain ⟨hV, hE, hE1, hM, hM1⟩ := ih
    exact ⟨VAgree_succ hE1 hM1, EAgree_succ hV hE, EFirst_succ hV hE, MAgree_succ hV hM,
      MFirst_succ hV hM⟩

end RB
end Jsonb
