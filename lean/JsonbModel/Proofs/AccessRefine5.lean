/-
Refinement of the read-only accessors, part 4: `traverse_check_string`, the breadth-first
search for a string value or object key satisfying a predicate.  Every container image is
viewed as a header followed by the entry words and payloads of a list of entries
(`entriesOf`): an array's elements, or an object's keys (as strings) followed by its values.
-/
import JsonbModel.Proofs.AccessRefine4

namespace Jsonb
open JV

/-! ### the tree-level view of one breadth-first step -/

/-- a direct string entry satisfying `p` -/
def isHit (p : Bytes → Bool) : JV → Bool
  | str s => p s
  | _ => false

def directL (p : Bytes → Bool) (es : List JV) : Bool := es.any (isHit p)
def kidsL (es : List JV) : List JV := es.filter (fun v => !isScalar v)

/-- the entries of a container in buffer order -/
def entriesOf : JV → List JV
  | arr vs => vs
  | obj kvs => kvs.map (fun kv => str kv.1) ++ kvs.map (·.2)
  | _ => []

/-- payload offsets of the container entries, starting from `vo` -/
def kidOffs : List JV → Nat → List Nat
  | [], _ => []
  | v :: vs, vo => (if isScalar v then [] else [vo]) ++ kidOffs vs (vo + elen v)

theorem anyString_scalar (p : Bytes → Bool) (v : JV) (hs : isScalar v = true) :
    Spec.anyString p v = isHit p v := by
  cases v <;> simp_all [isScalar, Spec.anyString, isHit]

theorem anyStringL_split (p : Bytes → Bool) (vs : List JV) :
    Spec.anyStringL p vs = (directL p vs || (kidsL vs).any (Spec.anyString p)) := by
  induction vs with
  | nil => rfl
  | cons v vs ih =>
    simp only [Spec.anyStringL, ih, directL, kidsL, List.any_cons, List.filter_cons]
    by_cases hs : isScalar v = true
    · simp only [hs, Bool.not_true, Bool.false_eq_true, if_false, anyString_scalar p v hs, Bool.or_assoc]
    · have hs' : isScalar v = false := by simpa using hs
      have hh : isHit p v = false := by cases v <;> simp_all [isScalar, isHit]
      simp only [hs', Bool.not_false, if_true, hh, Bool.false_or, List.any_cons]
      cases Spec.anyString p v <;> cases (List.any vs (isHit p)) <;> simp

theorem anyStringK_split (p : Bytes → Bool) (kvs : List (Bytes × JV)) :
    Spec.anyStringK p kvs = (kvs.any (fun kv => p kv.1) || Spec.anyStringL p (kvs.map (·.2))) := by
  induction kvs with
  | nil => rfl
  | cons kv kvs ih =>
    obtain ⟨k, v⟩ := kv
    simp only [Spec.anyStringK, ih, List.any_cons, List.map_cons, Spec.anyStringL]
    cases p k <;> cases Spec.anyString p v <;> cases (List.any kvs fun kv => p kv.1) <;> simp

theorem directL_append (p : Bytes → Bool) (a b : List JV) : directL p (a ++ b) = (directL p a || directL p b) := by
  simp [directL]

theorem kidsL_append (a b : List JV) : kidsL (a ++ b) = kidsL a ++ kidsL b := by
  simp [kidsL]

theorem directL_strs (p : Bytes → Bool) (kvs : List (Bytes × JV)) :
    directL p (kvs.map (fun kv => str kv.1)) = kvs.any (fun kv => p kv.1) := by
  induction kvs with
  | nil => rfl
  | cons kv kvs ih => simp only [directL, List.map_cons, List.any_cons, isHit] at ih ⊢; rw [ih]

theorem kidsL_strs (kvs : List (Bytes × JV)) : kidsL (kvs.map (fun kv => str kv.1)) = [] := by
  induction kvs with
  | nil => rfl
  | cons kv kvs ih => simp only [kidsL, List.map_cons, List.filter_cons, isScalar] at ih ⊢; simpa using ih

/-- one breadth-first step on the tree -/
theorem anyString_container (p : Bytes → Bool) (w : JV) (hs : isScalar w = false) :
    Spec.anyString p w = (directL p (entriesOf w) || (kidsL (entriesOf w)).any (Spec.anyString p)) := by
  cases w with
  | arr vs => simp only [Spec.anyString, entriesOf]; exact anyStringL_split p vs
  | obj kvs =>
    simp only [Spec.anyString, entriesOf, anyStringK_split, anyStringL_split, directL_append, kidsL_append,
      directL_strs, kidsL_strs, List.nil_append, Bool.or_assoc]
  | _ => simp [isScalar] at hs

/-! ### counting containers (the fuel measure) -/

mutual
def cnt : JV → Nat
  | arr vs => 1 + cntL vs
  | obj kvs => 1 + cntK kvs
  | _ => 0
def cntL : List JV → Nat
  | [] => 0
  | v :: vs => cnt v + cntL vs
def cntK : List (Bytes × JV) → Nat
  | [] => 0
  | (_, v) :: kvs => cnt v + cntK kvs
end

theorem cntL_append (a b : List JV) : cntL (a ++ b) = cntL a + cntL b := by
  induction a with
  | nil => simp [cntL]
  | cons v vs ih => simp only [List.cons_append, cntL, ih]; omega

theorem cnt_scalar (v : JV) (hs : isScalar v = true) : cnt v = 0 := by
  cases v <;> simp_all [isScalar, cnt]

theorem cntL_kids (es : List JV) : cntL (kidsL es) = cntL es := by
  induction es with
  | nil => rfl
  | cons v vs ih =>
    simp only [kidsL, List.filter_cons] at ih ⊢
    by_cases hs : isScalar v = true
    · simp only [hs, Bool.not_true, Bool.false_eq_true, if_false, cntL, cnt_scalar v hs, ih]; omega
    · have hs' : isScalar v = false := by simpa using hs
      simp only [hs', Bool.not_false, if_true, cntL, ih]

theorem cntL_strs (kvs : List (Bytes × JV)) : cntL (kvs.map (fun kv => str kv.1)) = 0 := by
  induction kvs with
  | nil => rfl
  | cons kv kvs ih => simp only [List.map_cons, cntL, cnt, ih]

theorem cntL_vals (kvs : List (Bytes × JV)) : cntL (kvs.map (·.2)) = cntK kvs := by
  induction kvs with
  | nil => rfl
  | cons kv kvs ih => obtain ⟨k, v⟩ := kv; simp only [List.map_cons, cntL, cntK, ih]

theorem cnt_container (w : JV) (hs : isScalar w = false) : cnt w = 1 + cntL (kidsL (entriesOf w)) := by
  cases w with
  | arr vs => simp only [cnt, entriesOf, cntL_kids]
  | obj kvs => simp only [cnt, entriesOf, cntL_kids, cntL_append, cntL_strs, cntL_vals]; omega
  | _ => simp [isScalar] at hs

mutual
theorem cnt_le : (v : JV) → 4 * cnt v ≤ elen v
  | .null => by simp [cnt]
  | .bool _ => by simp [cnt]
  | .num _ => by simp [cnt]
  | .str _ => by simp [cnt]
  | .arr vs => by
    have := cntL_le vs
    simp only [cnt, elen, entry, List.length_append, u32be_length]
    omega
  | .obj kvs => by
    have := cntK_le kvs
    simp only [cnt, elen, entry, List.length_append, u32be_length]
    omega
theorem cntL_le : (vs : List JV) → 4 * cntL vs ≤ (paysL vs).length
  | [] => by simp [cntL]
  | v :: vs => by
    have h1 := cnt_le v
    have h2 := cntL_le vs
    simp only [cntL, paysL, List.length_append]
    simp only [elen] at h1
    omega
theorem cntK_le : (kvs : List (Bytes × JV)) → 4 * cntK kvs ≤ (paysK kvs).length
  | [] => by simp [cntK]
  | (k, v) :: kvs => by
    have h1 := cnt_le v
    have h2 := cntK_le kvs
    simp only [cntK, paysK, List.length_append]
    simp only [elen] at h1
    omega
end

/-! ### the queue invariant -/

/-- every queued offset designates a good container of the buffer -/
def QInv (buf : Bytes) : List Nat → List JV → Prop
  | [], [] => True
  | o :: os, w :: ws => At buf o w ∧ goodTop w = true ∧ isScalar w = false ∧ QInv buf os ws
  | _, _ => False

theorem QInv_append (buf : Bytes) (os1 : List Nat) (ws1 : List JV) (os2 : List Nat) (ws2 : List JV)
    (h1 : QInv buf os1 ws1) (h2 : QInv buf os2 ws2) : QInv buf (os1 ++ os2) (ws1 ++ ws2) := by
  induction os1 generalizing ws1 with
  | nil =>
    cases ws1 with
    | nil => simpa using h2
    | cons _ _ => simp [QInv] at h1
  | cons o os ih =>
    cases ws1 with
    | nil => simp [QInv] at h1
    | cons w ws =>
      simp only [QInv] at h1
      simp only [List.cons_append, QInv]
      exact ⟨h1.1, h1.2.1, h1.2.2.1, ih ws h1.2.2.2⟩

theorem kidOffs_inv (es : List JV) (hg : goodL es = true) (pre post : Bytes) (vo : Nat) (hvo : vo = pre.length) :
    QInv (pre ++ (paysL es ++ post)) (kidOffs es vo) (kidsL es) := by
  induction es generalizing pre vo with
  | nil => simp [kidOffs, kidsL, QInv]
  | cons v vs ih =>
    simp only [goodL, Bool.and_eq_true] at hg
    have e : pre ++ (paysL (v :: vs) ++ post) = (pre ++ (entry v).2) ++ (paysL vs ++ post) := by simp [paysL]
    have hrest := ih hg.2 (pre ++ (entry v).2) (vo + elen v) (by simp [elen]; omega)
    rw [← e] at hrest
    simp only [kidOffs, kidsL, List.filter_cons] at hrest ⊢
    by_cases hs : isScalar v = true
    · simp only [hs, Bool.not_true, Bool.false_eq_true, if_false, if_true, List.nil_append]
      exact hrest
    · have hs' : isScalar v = false := by simpa using hs
      simp only [hs', Bool.not_false, if_true, Bool.false_eq_true, if_false, List.cons_append, List.nil_append, QInv]
      refine ⟨⟨pre, paysL vs ++ post, by simp [paysL], hvo⟩, good_goodTop v hg.1, trivial, hrest⟩

/-! ### the inner loop over the entries of one container -/

theorem traverseEntries_spec (p : Bytes → Bool) (es : List JV) (hg : goodL es = true) (pre mid post : Bytes)
    (jo vo : Nat) (hjo : jo = pre.length) (hvo : vo = pre.length + 4 * es.length + mid.length) :
    Fn.traverseEntries (pre ++ (wordsL es ++ (mid ++ (paysL es ++ post)))) p es.length jo vo
      = if directL p es then .err "found" else .ok (some (kidOffs es vo)) := by
  induction es generalizing pre mid jo vo with
  | nil => simp [Fn.traverseEntries, directL, kidOffs]
  | cons v vs ih =>
    simp only [goodL, Bool.and_eq_true] at hg
    have hl := elen_lt_of_good v hg.1
    have hr : readU32At (pre ++ (wordsL (v :: vs) ++ (mid ++ (paysL (v :: vs) ++ post)))) jo = some (entry v).1 := by
      simp only [wordsL, List.append_assoc]
      exact readU32At_mid pre _ _ jo hjo (entry_lt v hl)
    have hs : slice (pre ++ (wordsL (v :: vs) ++ (mid ++ (paysL (v :: vs) ++ post)))) vo (vo + elen v)
        = .ok (entry v).2 := by
      have e1 : pre ++ (wordsL (v :: vs) ++ (mid ++ (paysL (v :: vs) ++ post)))
          = (pre ++ (wordsL (v :: vs) ++ mid)) ++ ((entry v).2 ++ (paysL vs ++ post)) := by
        simp [paysL]
      rw [e1]
      exact slice_mid' _ _ _ vo (vo + elen v) (by simp [wordsL_length']; simp at hvo; omega) (by
        simp [wordsL_length', elen]; simp at hvo; omega)
    have hrec : Fn.traverseEntries (pre ++ (wordsL (v :: vs) ++ (mid ++ (paysL (v :: vs) ++ post)))) p vs.length
        (jo + 4) (vo + elen v) = if directL p vs then .err "found" else .ok (some (kidOffs vs (vo + elen v))) := by
      have e2 : pre ++ (wordsL (v :: vs) ++ (mid ++ (paysL (v :: vs) ++ post)))
          = (pre ++ u32be (entry v).1) ++ (wordsL vs ++ ((mid ++ (entry v).2) ++ (paysL vs ++ post))) := by
        simp [wordsL, paysL]
      rw [e2]
      exact ih hg.2 (pre ++ u32be (entry v).1) (mid ++ (entry v).2) (jo + 4) (vo + elen v)
        (by simp; omega) (by simp [elen]; simp at hvo; omega)
    generalize pre ++ (wordsL (v :: vs) ++ (mid ++ (paysL (v :: vs) ++ post))) = buf at hr hs hrec
    simp only [List.length_cons, Fn.traverseEntries, hr, jeType_entry v hl, jeLen_entry v hl, hs, hrec,
      directL, List.any_cons, kidOffs]
    cases v with
    | arr ws => by_cases hd : List.any vs (isHit p) = true <;> simp [ety, isHit, isScalar, hd]
    | obj kws => by_cases hd : List.any vs (isHit p) = true <;> simp [ety, isHit, isScalar, hd]
    | null => simp [ety, isHit, isScalar, tagDefs]
    | bool b => cases b <;> simp [ety, isHit, isScalar, tagDefs]
    | num n => simp [ety, isHit, isScalar, tagDefs]
    | str s =>
      cases hp : p s <;> simp [ety, isHit, isScalar, tagDefs, entry, hp]

/-! ### one iteration of the breadth-first loop -/

/-- the `size` computed from a container header -/
def hdrSize (h : Nat) : Res Nat :=
  if hdrType h = C.SCALAR_CONTAINER_TAG then .ok 1
  else if hdrType h = C.ARRAY_CONTAINER_TAG then .ok (hdrLen h)
  else if hdrType h = C.OBJECT_CONTAINER_TAG then .ok (hdrLen h * 2)
  else .panic "unreachable: invalid jsonb value"

theorem node_generic (p : Bytes → Bool) (es : List JV) (hg : goodL es = true) (h : Nat) (hh : h < 4294967296)
    (hsz : hdrSize h = .ok es.length) (a b : Bytes) (off : Nat) (hoff : off = a.length)
    (fuel : Nat) (queue : List Nat) :
    Fn.traverseLoop (a ++ (u32be h ++ (wordsL es ++ (paysL es ++ b)))) p (fuel + 1) (off :: queue)
      = (if directL p es then .ok true
         else Fn.traverseLoop (a ++ (u32be h ++ (wordsL es ++ (paysL es ++ b)))) p fuel
           (queue ++ kidOffs es (off + 4 + 4 * es.length))) ∧
    QInv (a ++ (u32be h ++ (wordsL es ++ (paysL es ++ b)))) (kidOffs es (off + 4 + 4 * es.length)) (kidsL es) := by
  constructor
  · have hr : readU32At (a ++ (u32be h ++ (wordsL es ++ (paysL es ++ b)))) off = some h :=
      readU32At_mid a h _ off hoff hh
    have ht := traverseEntries_spec p es hg (a ++ u32be h) [] b (off + 4) (off + 4 + 4 * es.length)
      (by simp; omega) (by simp; omega)
    have e : (a ++ u32be h) ++ (wordsL es ++ ([] ++ (paysL es ++ b))) = a ++ (u32be h ++ (wordsL es ++ (paysL es ++ b))) := by
      simp
    rw [e] at ht
    simp only [hdrSize] at hsz
    simp only [Fn.traverseLoop, hr, hsz, ht]
    by_cases hd : directL p es = true
    · simp [hd]
    · simp [hd]
  · have := kidOffs_inv es hg (a ++ (u32be h ++ wordsL es)) b (off + 4 + 4 * es.length)
      (by simp [wordsL_length']; omega)
    simpa using this

theorem wordsL_append (x y : List JV) : wordsL (x ++ y) = wordsL x ++ wordsL y := by
  induction x with
  | nil => rfl
  | cons v vs ih => simp [wordsL, ih]

theorem paysL_appendA (x y : List JV) : paysL (x ++ y) = paysL x ++ paysL y := by
  induction x with
  | nil => rfl
  | cons v vs ih => simp [paysL, ih]

theorem goodL_append_of (x y : List JV) (hx : goodL x = true) (hy : goodL y = true) : goodL (x ++ y) = true := by
  induction x with
  | nil => simpa using hy
  | cons v vs ih =>
    simp only [goodL, Bool.and_eq_true] at hx
    simp only [List.cons_append, goodL, Bool.and_eq_true]
    exact ⟨hx.1, ih hx.2⟩

theorem wordsL_vals (kvs : List (Bytes × JV)) : wordsL (kvs.map (·.2)) = wordsK kvs := by
  induction kvs with
  | nil => rfl
  | cons kv kvs ih => obtain ⟨k, v⟩ := kv; simp [wordsL, wordsK, ih]

theorem paysL_vals (kvs : List (Bytes × JV)) : paysL (kvs.map (·.2)) = paysK kvs := by
  induction kvs with
  | nil => rfl
  | cons kv kvs ih => obtain ⟨k, v⟩ := kv; simp [paysL, paysK, ih]

theorem goodL_strs (kvs : List (Bytes × JV)) (hg : goodK kvs = true) :
    goodL (kvs.map (fun kv => str kv.1)) = true := by
  induction kvs with
  | nil => rfl
  | cons kv kvs ih =>
    obtain ⟨k, v⟩ := kv
    simp only [goodK, Bool.and_eq_true] at hg
    simp only [List.map_cons, goodL, good, Bool.and_eq_true]
    exact ⟨⟨hg.1.1.1, hg.1.1.2⟩, ih hg.2⟩

/-- one iteration on a located good container -/
theorem node_step (p : Bytes → Bool) (buf : Bytes) (off : Nat) (w : JV) (hs : isScalar w = false)
    (hg : goodTop w = true) (hat : At buf off w) (fuel : Nat) (queue : List Nat) :
    Fn.traverseLoop buf p (fuel + 1) (off :: queue)
      = (if directL p (entriesOf w) then .ok true
         else Fn.traverseLoop buf p fuel (queue ++ kidOffs (entriesOf w) (off + 4 + 4 * (entriesOf w).length))) ∧
    QInv buf (kidOffs (entriesOf w) (off + 4 + 4 * (entriesOf w).length)) (kidsL (entriesOf w)) := by
  obtain ⟨a, b, rfl, rfl⟩ := hat
  cases w with
  | arr vs =>
    simp only [goodTop, Bool.and_eq_true, decide_eq_true_eq] at hg
    have := node_generic p vs hg.2 (C.ARRAY_CONTAINER_TAG + vs.length) (arr_header_lt _ hg.1)
      (by simp [hdrSize, hdrType_arr _ hg.1, hdrLen_arr _ hg.1, ne_arr_sca]) a b a.length rfl fuel queue
    simpa [entry, entriesOf] using this
  | obj kvs =>
    simp only [goodTop, Bool.and_eq_true, decide_eq_true_eq] at hg
    have hgl : goodL (kvs.map (fun kv => str kv.1) ++ kvs.map (·.2)) = true :=
      goodL_append_of _ _ (goodL_strs kvs hg.2) (goodK_goodL kvs hg.2)
    have := node_generic p (kvs.map (fun kv => str kv.1) ++ kvs.map (·.2)) hgl
      (C.OBJECT_CONTAINER_TAG + kvs.length) (obj_header_lt _ hg.1.1)
      (by simp [hdrSize, hdrType_obj _ hg.1.1, hdrLen_obj _ hg.1.1, ne_obj_sca, ne_obj_arr]; omega)
      a b a.length rfl fuel queue
    simp only [wordsL_append, paysL_appendA, wordsL_strs, paysL_strs, wordsL_vals, paysL_vals,
      List.append_assoc] at this
    simpa [entry, entriesOf] using this
  | _ => simp [isScalar] at hs

/-! ### the whole search -/

theorem traverseLoop_spec (p : Bytes → Bool) (buf : Bytes) :
    ∀ (fuel : Nat) (os : List Nat) (ws : List JV), QInv buf os ws → cntL ws < fuel →
      Fn.traverseLoop buf p fuel os = .ok (ws.any (Spec.anyString p)) := by
  intro fuel
  induction fuel with
  | zero => intro os ws _ h; omega
  | succ f ih =>
    intro os ws hq hc
    cases os with
    | nil =>
      cases ws with
      | nil => simp [Fn.traverseLoop]
      | cons _ _ => simp [QInv] at hq
    | cons o os =>
      cases ws with
      | nil => simp [QInv] at hq
      | cons w ws =>
        simp only [QInv] at hq
        obtain ⟨hat, hg, hs, hrest⟩ := hq
        obtain ⟨h1, h2⟩ := node_step p buf o w hs hg hat f os
        rw [h1, List.any_cons, anyString_container p w hs]
        by_cases hd : directL p (entriesOf w) = true
        · simp [hd]
        · simp only [hd, Bool.false_eq_true, if_false]
          have hc' : cntL (ws ++ kidsL (entriesOf w)) < f := by
            rw [cntL_append]
            simp only [cntL, cnt_container w hs] at hc
            omega
          rw [ih _ _ (QInv_append buf _ _ _ _ hrest h2) hc']
          simp only [List.any_append, Bool.false_or, Bool.or_comm]

/-- `traverse_check_string`: some string value or object key anywhere in the document
satisfies the predicate -/
theorem traverseCheckString_refines (v : JV) (hg : goodTop v = true) (p : Bytes → Bool) :
    Fn.traverseCheckString (encodeSpec v) p = .ok (Spec.anyString p v) := by
  unfold Fn.traverseCheckString
  by_cases hs : isScalar v = true
  · have hgv := goodTop_scalar v hs hg
    have hgl : goodL [v] = true := by simp [goodL, hgv]
    have := node_generic p [v] hgl C.SCALAR_CONTAINER_TAG sca_lt (by simp [hdrSize, hdrType_sca]) [] [] 0 rfl
      ((encodeSpec v).length + 1) []
    have e : encodeSpec v = [] ++ (u32be C.SCALAR_CONTAINER_TAG ++ (wordsL [v] ++ (paysL [v] ++ []))) := by
      rw [encodeSpec_scalarA v hs]; simp [wordsL, paysL]
    rw [← e] at this
    rw [show (encodeSpec v).length + 2 = ((encodeSpec v).length + 1) + 1 by omega, this.1]
    simp only [directL, List.any_cons, List.any_nil, Bool.or_false, kidOffs, hs, if_true, List.append_nil,
      anyString_scalar p v hs]
    by_cases hh : isHit p v = true
    · simp [hh]
    · simp [hh, Fn.traverseLoop]
  · have hs' : isScalar v = false := by simpa using hs
    have henc : encodeSpec v = (entry v).2 := by
      cases v <;> simp_all [isScalar, encodeSpec]
    have hq : QInv (encodeSpec v) [0] [v] := by
      simp only [QInv]
      exact ⟨⟨[], [], by simp [henc], rfl⟩, hg, hs', trivial⟩
    have hc : cntL [v] < (encodeSpec v).length + 2 := by
      have := cnt_le v
      simp only [cntL, henc, elen] at this ⊢
      omega
    rw [traverseLoop_spec p (encodeSpec v) _ [0] [v] hq hc]
    simp

end Jsonb
