/-
Agreement theorems, phase 6a, part 15: every position of a frontier of the model is a value of its Rust types
(`PosFits`: a `u32` type, `offset + length` inside `usize`) when the document is a Rust slice (`< 2^63` bytes); hence
`Selector::select` = `Sel.select` without a hypothesis on the frontier (`select_agrees'`).
-/
import JsonbModel.Proofs.TranslatedAgreeG14

set_option linter.unusedSimpArgs false
set_option linter.unusedVariables false

namespace Jsonb.TrAgree
open Jsonb.Rs

theorem entriesAt_types_g (root : Bytes) : ∀ (n off : Nat) (es : List (Nat × Nat)), Sel.entriesAt root n off = .ok es →
    ∀ e ∈ es, e.1 < 4294967296 := by
  intro n
  induction n with
  | zero => intro off es h; simp only [Sel.entriesAt, Res.ok.injEq] at h; subst h; simp
  | succ n ih =>
    intro off es h
    rw [Sel.entriesAt] at h
    cases hr : readU32At root off with
    | none => simp [hr] at h
    | some w =>
      simp only [hr] at h
      cases he : Sel.entriesAt root n (off + 4) with
      | ok es' =>
        simp only [he, Res.map, Res.bind, Res.ok.injEq] at h
        subst h
        intro e hmem
        simp only [List.mem_cons] at hmem
        rcases hmem with rfl | hmem
        · exact jeType_lt_g w
        · exact ih _ _ he e hmem
      | err e => simp [he, Res.map, Res.bind] at h
      | panic s => simp [he, Res.map, Res.bind] at h
      | fuel => simp [he, Res.map, Res.bind] at h

theorem mkPos_fits (ty off len : Nat) (ht : ty < 4294967296) (h : off + len < 18446744073709551616) :
    PosFits (Sel.mkPos ty off len) := by
  unfold Sel.mkPos; split <;> simp [PosFits, ht, h]

theorem layPos_fits : ∀ (es : List (Nat × Nat)) (off : Nat), (∀ e ∈ es, e.1 < 4294967296) →
    off + Sel.sumLens es < 18446744073709551616 → ∀ p ∈ Sel.layPos es off, PosFits p := by
  intro es
  induction es with
  | nil => intro off _ _ p hp; simp [Sel.layPos] at hp
  | cons e es ih =>
    intro off ht h p hp
    obtain ⟨ty, len⟩ := e
    rw [sumLens_cons_g] at h
    simp only [Sel.layPos, List.mem_cons] at hp
    rcases hp with rfl | hp
    · exact mkPos_fits ty off len (ht (ty, len) (by simp)) (by simp at h ⊢; omega)
    · exact ih (off + len) (fun e he => ht e (by simp [he])) (by simp at h ⊢; omega) p hp

theorem headerAt_ok_g (root : Bytes) (off ty n : Nat) (h : Sel.headerAt root off = .ok (ty, n)) :
    off + 4 ≤ root.length ∧ n < 536870912 := by
  unfold Sel.headerAt at h
  split at h
  · cases h
  · cases hr : readU32At root off with
    | none => simp [hr] at h
    | some w =>
      simp only [hr, Res.ok.injEq, Prod.mk.injEq] at h
      exact ⟨readU32At_some_le_g root off w hr, by rw [← h.2]; exact hdrLen_lt w⟩

theorem selectObjectValues_fits (root : Bytes) (off : Nat) (hlen : root.length < 9223372036854775808) (ps : List Sel.Pos)
    (h : Sel.selectObjectValues root off = .ok ps) : ∀ p ∈ ps, PosFits p := by
  unfold Sel.selectObjectValues at h
  cases hh : Sel.headerAt root off with
  | ok tn =>
    obtain ⟨ty, n⟩ := tn
    obtain ⟨h4, hn⟩ := headerAt_ok_g root off ty n hh
    simp only [hh] at h
    split at h
    · cases h; simp
    · rename_i hc
      have hn0 : n ≠ 0 := fun h0 => hc (Or.inr h0)
      cases hk : Sel.entriesAt root n (off + 4) with
      | ok ks =>
        cases hv : Sel.entriesAt root n (off + 4 + 4 * n) with
        | ok vs =>
          simp only [hk, hv, Res.ok.injEq] at h
          subst h
          obtain ⟨_, hk2, hk3⟩ := entriesAt_ok_g root _ _ _ hk
          obtain ⟨_, hv2, hv3⟩ := entriesAt_ok_g root _ _ _ hv
          have := hk2 hn0
          have := hv2 hn0
          exact layPos_fits vs _ (entriesAt_types_g root _ _ _ hv) (by omega)
        | err e => simp [hk, hv] at h
        | panic s => simp [hk, hv] at h
        | fuel => simp [hk, hv] at h
      | err e => simp [hk] at h
      | panic s => cases hv : Sel.entriesAt root n (off + 4 + 4 * n) <;> simp [hk, hv] at h
      | fuel => cases hv : Sel.entriesAt root n (off + 4 + 4 * n) <;> simp [hk, hv] at h
  | err e => simp [hh] at h
  | panic s => simp [hh] at h
  | fuel => simp [hh] at h

theorem selectArrayValues_fits (root : Bytes) (off len : Nat) (hlen : root.length < 9223372036854775808)
    (hin : PosFits (.container off len)) (ps : List Sel.Pos)
    (h : Sel.selectArrayValues root off len = .ok ps) : ∀ p ∈ ps, PosFits p := by
  unfold Sel.selectArrayValues at h
  cases hh : Sel.headerAt root off with
  | ok tn =>
    obtain ⟨ty, n⟩ := tn
    obtain ⟨h4, hn⟩ := headerAt_ok_g root off ty n hh
    simp only [hh] at h
    split at h
    · cases h; intro p hp; simp only [List.mem_singleton] at hp; subst hp; exact hin
    · cases hv : Sel.entriesAt root n (off + 4) with
      | ok vs =>
        simp only [hv, Res.ok.injEq] at h
        subst h
        obtain ⟨_, hv2, hv3⟩ := entriesAt_ok_g root _ _ _ hv
        have hb : off + 4 + 4 * n ≤ root.length := by
          by_cases hn0 : n = 0
          · subst hn0; omega
          · exact hv2 hn0
        exact layPos_fits vs _ (entriesAt_types_g root _ _ _ hv) (by omega)
      | err e => simp [hv] at h
      | panic s => simp [hv] at h
      | fuel => simp [hv] at h
  | err e => simp [hh] at h
  | panic s => simp [hh] at h
  | fuel => simp [hh] at h

theorem selectByName_fits (root : Bytes) (off : Nat) (name : Bytes) (hlen : root.length < 9223372036854775808) (ps : List Sel.Pos)
    (h : Sel.selectByName root off name = .ok ps) : ∀ p ∈ ps, PosFits p := by
  unfold Sel.selectByName at h
  cases hh : Sel.headerAt root off with
  | ok tn =>
    obtain ⟨ty, n⟩ := tn
    obtain ⟨h4, hn⟩ := headerAt_ok_g root off ty n hh
    simp only [hh] at h
    split at h
    · cases h; simp
    · rename_i hc
      have hn0 : n ≠ 0 := fun h0 => hc (Or.inr h0)
      cases hk : Sel.entriesAt root n (off + 4) with
      | ok ks =>
        cases hv : Sel.entriesAt root n (off + 4 + 4 * n) with
        | ok vs =>
          simp only [hk, hv] at h
          obtain ⟨_, hk2, hk3⟩ := entriesAt_ok_g root _ _ _ hk
          obtain ⟨_, hv2, hv3⟩ := entriesAt_ok_g root _ _ _ hv
          have := hk2 hn0
          have := hv2 hn0
          have hall := layPos_fits vs (off + 4 + n * 8 + Sel.sumLens ks) (entriesAt_types_g root _ _ _ hv) (by omega)
          cases hf : Sel.findKey root name ks (off + 4 + n * 8) 0 with
          | ok o =>
            cases o with
            | none => simp only [hf, Res.ok.injEq] at h; subst h; simp
            | some i =>
              simp only [hf, Res.ok.injEq] at h
              subst h
              intro p hp
              simp only [Option.mem_toList] at hp
              exact hall p (List.mem_of_getElem? hp)
          | err e => simp [hf] at h
          | panic s => simp [hf] at h
          | fuel => simp [hf] at h
        | err e => simp [hk, hv] at h
        | panic s => simp [hk, hv] at h
        | fuel => simp [hk, hv] at h
      | err e => simp [hk] at h
      | panic s => cases hv : Sel.entriesAt root n (off + 4 + 4 * n) <;> simp [hk, hv] at h
      | fuel => cases hv : Sel.entriesAt root n (off + 4 + 4 * n) <;> simp [hk, hv] at h
  | err e => simp [hh] at h
  | panic s => simp [hh] at h
  | fuel => simp [hh] at h

theorem selectByIndices_fits (root : Bytes) (off : Nat) (is : List ArrayIndex) (hlen : root.length < 9223372036854775808)
    (ps : List Sel.Pos) (h : Sel.selectByIndices root off is = .ok ps) : ∀ p ∈ ps, PosFits p := by
  unfold Sel.selectByIndices at h
  cases hh : Sel.headerAt root off with
  | ok tn =>
    obtain ⟨ty, n⟩ := tn
    obtain ⟨h4, hn⟩ := headerAt_ok_g root off ty n hh
    simp only [hh] at h
    split at h
    · cases h; simp
    · rename_i hc
      have hn0 : n ≠ 0 := fun h0 => hc (Or.inr h0)
      split at h
      · cases h; simp
      · cases hv : Sel.entriesAt root n (off + 4) with
        | ok vs =>
          simp only [hv] at h
          obtain ⟨_, hv2, hv3⟩ := entriesAt_ok_g root _ _ _ hv
          have := hv2 hn0
          have hall := layPos_fits vs (off + 4 + n * 4) (entriesAt_types_g root _ _ _ hv) (by omega)
          split at h
          · simp only [Res.ok.injEq] at h
            subst h
            intro p hp
            simp only [List.mem_filterMap] at hp
            obtain ⟨i, _, hi⟩ := hp
            exact hall p (List.mem_of_getElem? hi)
          · cases h
        | err e => simp [hv] at h
        | panic s => simp [hv] at h
        | fuel => simp [hv] at h
  | err e => simp [hh] at h
  | panic s => simp [hh] at h
  | fuel => simp [hh] at h

theorem selectPath_fits (root : Bytes) (off len : Nat) (p : Path) (hlen : root.length < 9223372036854775808)
    (hin : PosFits (.container off len)) (ps : List Sel.Pos) (h : Sel.selectPath root off len p = .ok ps) :
    ∀ q ∈ ps, PosFits q := by
  cases p <;> simp only [Sel.selectPath] at h
  · cases h
  · cases h
  · exact selectObjectValues_fits root off hlen ps h
  · exact selectArrayValues_fits root off len hlen hin ps h
  · exact selectByName_fits root off _ hlen ps h
  · exact selectByName_fits root off _ hlen ps h
  · exact selectByName_fits root off _ hlen ps h
  · exact selectByIndices_fits root off _ hlen ps h
  · cases h
  · cases h
  · cases h

theorem stepAll_fits (root : Bytes) (p : Path) (hlen : root.length < 9223372036854775808) :
    ∀ (ps : List Sel.Pos), (∀ q ∈ ps, PosFits q) → ∀ r, Sel.stepAll root p ps = .ok r → ∀ q ∈ r, PosFits q := by
  intro ps
  induction ps with
  | nil => intro _ r h; simp only [Sel.stepAll, Res.ok.injEq] at h; subst h; simp
  | cons pos rest ih =>
    intro hin r h
    rw [stepAll_cons] at h
    cases hm : stepOne root p pos with
    | ok ps1 =>
      rw [hm] at h
      cases hr : Sel.stepAll root p rest with
      | ok r2 =>
        simp only [hr, Res.bind, Res.map, Res.ok.injEq] at h
        subst h
        intro q hq
        simp only [List.mem_append] at hq
        rcases hq with hq | hq
        · cases pos with
          | container off len =>
            exact selectPath_fits root off len p hlen (hin _ (by simp)) ps1 hm q hq
          | scalar ty off len =>
            simp only [stepOne, Res.ok.injEq] at hm
            subst hm
            split at hq
            · simp only [List.mem_singleton] at hq; subst hq; exact hin _ (by simp)
            · simp at hq
        · exact ih (fun x hx => hin x (by simp [hx])) r2 hr q hq
      | err e => simp [hr, Res.bind, Res.map] at h
      | panic s => simp [hr, Res.bind, Res.map] at h
      | fuel => simp [hr, Res.bind, Res.map] at h
    | err e => simp [hm, Res.bind] at h
    | panic s => simp [hm, Res.bind] at h
    | fuel => simp [hm, Res.bind] at h

theorem filterAll_sub (root : Bytes) (e : Expr) : ∀ (ps : List Sel.Pos) (w : Nat) (r : List Sel.Pos),
    Sel.filterAll w root e ps = .ok r → ∀ q ∈ r, q ∈ ps := by
  intro ps
  induction ps with
  | nil =>
    intro w r h
    cases w with
    | zero => simp [Sel.filterAll] at h
    | succ w => simp only [Sel.filterAll, Res.ok.injEq] at h; subst h; simp
  | cons pos rest ih =>
    intro w r h
    cases w with
    | zero => simp [Sel.filterAll] at h
    | succ w =>
      rw [filterAll_succ_cons] at h
      cases hm : Sel.filterExpr w root pos e with
      | ok keep =>
        rw [hm] at h
        cases hr : Sel.filterAll w root e rest with
        | ok r2 =>
          simp only [hr, Res.bind, Res.map, Res.ok.injEq] at h
          subst h
          intro q hq
          have := ih w r2 hr
          cases keep with
          | true =>
            simp only [if_true, List.mem_cons] at hq ⊢
            rcases hq with hq | hq
            · exact Or.inl hq
            · exact Or.inr (this q hq)
          | false =>
            simp only [Bool.false_eq_true, if_false] at hq
            simp only [List.mem_cons]
            exact Or.inr (this q hq)
        | err e => simp [hr, Res.bind, Res.map] at h
        | panic s => simp [hr, Res.bind, Res.map] at h
        | fuel => simp [hr, Res.bind, Res.map] at h
      | err e => simp [hm, Res.bind] at h
      | panic s => simp [hm, Res.bind] at h
      | fuel => simp [hm, Res.bind] at h

theorem walk_fits (root : Bytes) (hlen : root.length < 9223372036854775808) :
    ∀ (paths : List Path) (w : Nat) (ps : List Sel.Pos), (∀ q ∈ ps, PosFits q) → ∀ r, Sel.walk w root paths ps = .ok r →
      ∀ q ∈ r, PosFits q := by
  intro paths
  induction paths with
  | nil =>
    intro w ps hin r h
    cases w with
    | zero => simp [Sel.walk] at h
    | succ w => simp only [Sel.walk, Res.ok.injEq] at h; subst h; exact hin
  | cons p rest ih =>
    intro w ps hin r h
    cases w with
    | zero => simp [Sel.walk] at h
    | succ w =>
      rw [walk_succ_cons] at h
      cases hm : walkStep w root p ps with
      | ok ps' =>
        rw [hm] at h
        simp only [Res.bind] at h
        apply ih w ps' _ r h
        cases p <;> simp only [walkStep] at hm
        · cases hm; exact hin
        · cases hm; exact hin
        · exact stepAll_fits root _ hlen ps hin ps' hm
        · exact stepAll_fits root _ hlen ps hin ps' hm
        · exact stepAll_fits root _ hlen ps hin ps' hm
        · exact stepAll_fits root _ hlen ps hin ps' hm
        · exact stepAll_fits root _ hlen ps hin ps' hm
        · exact stepAll_fits root _ hlen ps hin ps' hm
        · exact stepAll_fits root _ hlen ps hin ps' hm
        · exact fun q hq => hin q (filterAll_sub root _ ps w ps' hm q hq)
        · exact fun q hq => hin q (filterAll_sub root _ ps w ps' hm q hq)
      | err e => simp [hm, Res.bind] at h
      | panic s => simp [hm, Res.bind] at h
      | fuel => simp [hm, Res.bind] at h

theorem rootPosition_fits (root : Bytes) (hlen : root.length < 9223372036854775808) : PosFits (Sel.rootPosition root) := by
  unfold Sel.rootPosition
  split
  · split
    · split
      · rename_i w _
        split
        · have := jeLen_lt w; have := jeType_lt_g w
          simp [PosFits]; omega
        · simp [PosFits]; omega
      · simp [PosFits]; omega
    · simp [PosFits]; omega
  · simp [PosFits]; omega

/-- every position of a frontier is a value of its Rust types -/
theorem findPositions_fits (f : Nat) (root : Bytes) (cur : Option Sel.Pos) (paths : List Path)
    (hlen : root.length < 9223372036854775808) (hcur : ∀ c, cur = some c → PosFits c) (ps : List Sel.Pos)
    (h : Sel.findPositions f root cur paths = .ok ps) : ∀ p ∈ ps, PosFits p := by
  cases f with
  | zero => simp [Sel.findPositions] at h
  | succ f =>
    rw [findPositions_succ] at h
    cases hs : startR root cur paths with
    | ok st =>
      rw [hs] at h
      simp only [Res.bind] at h
      apply walk_fits root hlen paths f [st] _ ps h
      intro q hq
      simp only [List.mem_singleton] at hq
      subst hq
      unfold startR at hs
      split at hs
      · cases cur with
        | none => simp at hs
        | some c => simp only [Res.ok.injEq] at hs; subst hs; exact hcur _ rfl
      · simp only [Res.ok.injEq] at hs; subst hs; exact rootPosition_fits root hlen
    | err e => simp [hs, Res.bind] at h
    | panic s => simp [hs, Res.bind] at h
    | fuel => simp [hs, Res.bind] at h

/-- **`Selector::select`** = `Sel.select` (all four modes and the predicate result): for every document that is a Rust
slice, every path whose literals are values of their Rust types, and fuel with which the model answers; `hsize`: the output
fits a `usize` length -/
theorem select_agrees' (jp : JsonPath) (mode : Sel.Mode) (root data : Bytes) (offs : List Nat) (fuel : Nat) (hok : PathsOK jp)
    (hlen : root.length < 9223372036854775808) (hne : Sel.findPositions fuel root none jp ≠ .fuel)
    (hsize : ∀ ps, Sel.findPositions fuel root none jp = .ok ps →
      data.length + 4 + ps.length * (root.length + 8) < 18446744073709551616) :
    AgR (fun r => (r.1, natsG r.2)) (Tr.Selector.select fuel (selOf jp mode) root data (natsG offs))
      (Sel.select jp mode root data offs fuel) :=
  select_agrees jp mode root data offs fuel hok hlen hne
    (fun ps h => findPositions_fits fuel root none jp hlen (fun c hc => by cases hc) ps h) hsize

end Jsonb.TrAgree
