/-
C09 / C16 — escapes in quoted names and string literals of the two path languages.

`PathEsc.Spelled s q` : the text `q` between two quotes is an ESCAPED SPELLING of the byte string
`s` — plain bytes, the eight two-byte escapes, `\uXXXX`, the bracketed form `\u{XXXX}` (exactly four
hex digits), and a high + low surrogate pair (each half in either spelling) for an astral
character.  Unpaired surrogates are NOT in the relation: the parser keeps them as literal text
(`lone_low_literal`, `lone_high_literal`, `high_then_other_literal` state what it does).

* `parseString_spelled`, `string_xquoted` : the scanner `string` (`check_escaped` loop) followed by
  `util::parse_string` returns exactly `s` on every quoted escaped spelling of `s`.
* `XStep`, `XVal`, `XOperand`, `XKey`, `XKeyList` : the token-level rendering relations of
  `PathRoundTrip2a/2b/2e` with quoted tokens given by `Spelled`.
* `RX Leaf` : the expression / step grammar of `PathRT2.R` over these tokens, generic in the family
  `Leaf` of non-recursive atoms; `RX.sound`, `parse_xrooted`, `parse_xpredicate` need only
  `LeafSound Leaf`.  `RE = RX XCmp` (comparisons) is used here, `PathArith` adds arithmetic atoms.
* headline: `parseJsonPath_rendering_rooted_esc`, `parseJsonPath_rendering_predicate_esc`,
  `parseKeyPaths_rendering_esc` (+ `Props.C09_every_rendering_*_esc`, `Props.C16_every_rendering_esc`);
  `RE.of_r`, `XKeyList.of_r` : the existing relations `PathRT2.R`, `PathRT2.RKeyList` are included.
Not covered here: escapes in UNQUOTED names (`raw_string`), the `Style` / unrooted / bare-name
variants of the rendering theorems.
-/
import JsonbModel.Proofs.PathRoundTrip2

namespace Jsonb
open Nom PathParser PathPrint PathRT PathRT2
namespace PathEsc

/-! ## 1. escaped spellings -/

/-- value of one ASCII hex digit (`0-9`, `a-f`, `A-F`) -/
def hexVal (b : UInt8) : Option Nat :=
  if 48 ≤ b ∧ b ≤ 57 then some (b.toNat - 48)
  else if 97 ≤ b ∧ b ≤ 102 then some (b.toNat - 87)
  else if 65 ≤ b ∧ b ≤ 70 then some (b.toNat - 55)
  else none

/-- value of exactly four hex digits -/
def hex4 (h1 h2 h3 h4 : UInt8) : Option Nat :=
  match hexVal h1, hexVal h2, hexVal h3, hexVal h4 with
  | some a, some b, some c, some d => some (((a * 16 + b) * 16 + c) * 16 + d)
  | _, _, _, _ => none

theorem decodeHexVal_eq : ∀ b, PathStr.decodeHexVal b = hexVal b := by bytes_decide

theorem hexVal_lt : ∀ b : UInt8, ∀ a, hexVal b = some a → a < 16 := by
  have : ∀ b : UInt8, (match hexVal b with | some a => decide (a < 16) | none => true) = true := by
    bytes_decide
  intro b a h
  have := this b
  rw [h] at this
  simpa using this

theorem hexVal_brace : hexVal 123 = none := by decide

theorem hex4_spec {h1 h2 h3 h4 : UInt8} {n : Nat} (h : hex4 h1 h2 h3 h4 = some n) :
    PathStr.decodeHexEscape [h1, h2, h3, h4] = .ok n ∧ n < 65536 ∧ h1 ≠ 123 := by
  unfold hex4 at h
  cases e1 : hexVal h1 with
  | none => simp [e1] at h
  | some a =>
  cases e2 : hexVal h2 with
  | none => simp [e1, e2] at h
  | some b =>
  cases e3 : hexVal h3 with
  | none => simp [e1, e2, e3] at h
  | some c =>
  cases e4 : hexVal h4 with
  | none => simp [e1, e2, e3, e4] at h
  | some d =>
    simp only [e1, e2, e3, e4, Option.some.injEq] at h
    have ha := hexVal_lt _ _ e1
    have hb := hexVal_lt _ _ e2
    have hc := hexVal_lt _ _ e3
    have hd := hexVal_lt _ _ e4
    refine ⟨?_, by omega, ?_⟩
    · simp only [PathStr.decodeHexEscape, List.foldl, Res.bind, decodeHexVal_eq, e1, e2, e3, e4]
      congr 1
      omega
    · intro hh; rw [hh, hexVal_brace] at e1; cases e1


/-- `UEsc n u`: `u` is what follows `\u` in a spelling of the UTF-16 code unit `n`: four hex
digits `XXXX`, or the bracketed form `{XXXX}` (exactly four hex digits, as the code requires). -/
inductive UEsc : Nat → Bytes → Prop
  | bare (h1 h2 h3 h4 : UInt8) (n : Nat) : hex4 h1 h2 h3 h4 = some n → UEsc n [h1, h2, h3, h4]
  | braced (h1 h2 h3 h4 : UInt8) (n : Nat) : hex4 h1 h2 h3 h4 = some n →
      UEsc n [123, h1, h2, h3, h4, 125]

theorem UEsc.lt {n : Nat} {u : Bytes} (h : UEsc n u) : n < 65536 := by
  cases h with
  | bare _ _ _ _ _ h => exact (hex4_spec h).2.1
  | braced _ _ _ _ _ h => exact (hex4_spec h).2.1

theorem UEsc.len {n : Nat} {u : Bytes} (h : UEsc n u) : 4 ≤ u.length := by
  cases h <;> simp

/-- what `parse_escaped_string` does with the text after `\u` -/
theorem UEsc.read {n : Nat} {u : Bytes} (h : UEsc n u) :
    ∃ nums, PathStr.decodeHexEscape nums = .ok n ∧
      ∀ rest, PathStr.readUnicode (u ++ rest) = .ok (nums, rest) := by
  cases h with
  | bare h1 h2 h3 h4 _ h =>
    obtain ⟨hd, _, hb⟩ := hex4_spec h
    refine ⟨[h1, h2, h3, h4], hd, fun rest => ?_⟩
    have : (h1 == 123) = false := by simpa using hb
    simp [PathStr.readUnicode, this, PathStr.readExact4]
  | braced h1 h2 h3 h4 _ h =>
    obtain ⟨hd, _, _⟩ := hex4_spec h
    refine ⟨[h1, h2, h3, h4], hd, fun rest => ?_⟩
    simp [PathStr.readUnicode, PathStr.readExact4]

/-- what `check_escaped` does with `\u…` -/
theorem UEsc.check {n : Nat} {u : Bytes} (h : UEsc n u) (rest : Bytes) :
    ∃ k, checkEscaped (92 :: 117 :: (u ++ rest)) = some k ∧
      (92 :: 117 :: (u ++ rest)).drop k = rest ∧ k = 2 + u.length := by
  cases h with
  | bare h1 h2 h3 h4 _ h =>
    obtain ⟨_, _, hb⟩ := hex4_spec h
    exact ⟨6, by simp [checkEscaped, hb], by simp, by simp⟩
  | braced h1 h2 h3 h4 _ h =>
    exact ⟨8, by simp [checkEscaped], by simp, by simp⟩

/-- the code point of a surrogate pair -/
def pairCode (hi lo : Nat) : Nat := 0x10000 + (hi - 0xD800) * 1024 + (lo - 0xDC00)

/-- **Escaped spellings.**  `Spelled s q`: the text `q` (what stands between the quotes) is an
escaped spelling of the byte string `s`:
* a byte other than `\` and `"` stands for itself;
* `\\ \" \/ \b \f \n \r \t` stand for one byte (`simpleEsc`);
* `\uXXXX` or `\u{XXXX}` with a value that is not a surrogate stands for the UTF-8 encoding of that
  code point;
* a high surrogate (`D800..DBFF`) immediately followed by a low surrogate (`DC00..DFFF`), each
  written `\uXXXX` or `\u{XXXX}`, stands for the UTF-8 encoding of the astral code point
  `0x10000 + (hi - 0xD800)·0x400 + (lo - 0xDC00)`.
UNPAIRED surrogates are not in the relation (the parser keeps them as literal text, see
`lone_low_literal` / `lone_high_literal` below). -/
inductive Spelled : Bytes → Bytes → Prop
  | nil : Spelled [] []
  | plain (b : UInt8) (d q : Bytes) : b ≠ 92 → b ≠ 34 → Spelled d q → Spelled (b :: d) (b :: q)
  | esc (x y : UInt8) (d q : Bytes) : simpleEsc x = some y → Spelled d q →
      Spelled (y :: d) (92 :: x :: q)
  | uni (n : Nat) (u d q : Bytes) : UEsc n u → (n < 0xD800 ∨ 0xDFFF < n) → Spelled d q →
      Spelled (PathStr.utf8Encode n ++ d) (92 :: 117 :: (u ++ q))
  | pair (hi lo : Nat) (u1 u2 d q : Bytes) : UEsc hi u1 → UEsc lo u2 →
      (0xD800 ≤ hi ∧ hi ≤ 0xDBFF) → (0xDC00 ≤ lo ∧ lo ≤ 0xDFFF) → Spelled d q →
      Spelled (PathStr.utf8Encode (pairCode hi lo) ++ d)
        (92 :: 117 :: (u1 ++ 92 :: 117 :: (u2 ++ q)))

/-- a quoted token: `"`, an escaped spelling of the valid UTF-8 string `s`, `"` -/
inductive XQuoted : Bytes → Bytes → Prop
  | mk (s body : Bytes) : Spelled s body → validUtf8 s = true → XQuoted s (34 :: (body ++ [34]))

theorem scan_bs (stop : UInt8 → Bool) (n : Nat) (X : Bytes) (i e k : Nat)
    (h : checkEscaped (92 :: X) = some k) :
    scan stop (n + 1) (92 :: X) i e = scan stop n ((92 :: X).drop k) (i + k) (e + 1) := by
  simp only [scan, beq_self_eq_true, if_true, h]

/-- the scanning loop of `string` on a spelling: it stops at the closing quote, having counted
`k` escapes; `k = 0` only if nothing is escaped -/
theorem scan_spelled {d q : Bytes} (h : Spelled d q) (rest : Bytes) :
    ∃ k, (k = 0 → q = d) ∧ k ≤ q.length ∧ ∀ (n i e0 : Nat), q.length + 1 ≤ n →
      strScan n (q ++ 34 :: rest) i e0 = .ok (i + q.length, e0 + k) := by
  induction h with
  | nil =>
    refine ⟨0, fun _ => rfl, by simp, ?_⟩
    intro n i e0 hn
    obtain ⟨n, rfl⟩ : ∃ m, n = m + 1 := ⟨n - 1, by omega⟩
    simp [strScan, scan]
  | plain b d q hb1 hb2 _ ih =>
    obtain ⟨k, hk0, hkl, ih⟩ := ih
    refine ⟨k, fun h => by rw [hk0 h], by simp; omega, ?_⟩
    intro n i e0 hn
    obtain ⟨n, rfl⟩ : ∃ m, n = m + 1 := ⟨n - 1, by omega⟩
    have h1 : (b == 92) = false := by simpa using hb1
    have h2 : (b == 34) = false := by simpa using hb2
    simp only [strScan, List.cons_append, scan, h1, h2, Bool.false_eq_true, if_false]
    have := ih n (i + 1) e0 (by simp at hn; omega)
    simp only [strScan] at this
    rw [this]
    simp only [List.length_cons]
    congr 2; omega
  | esc x y d q hx _ ih =>
    obtain ⟨k, _, hkl, ih⟩ := ih
    refine ⟨k + 1, fun h => by omega, by simp; omega, ?_⟩
    intro n i e0 hn
    obtain ⟨n, rfl⟩ : ∃ m, n = m + 1 := ⟨n - 1, by omega⟩
    have hx117 : (x == 117) = false := by simpa using (simpleEsc_spec hx []).2
    have hce : checkEscaped (92 :: x :: (q ++ 34 :: rest)) = some 2 := by
      simp [checkEscaped, hx117]
    simp only [strScan, List.cons_append]
    rw [scan_bs _ _ _ _ _ _ hce]
    have := ih n (i + 2) (e0 + 1) (by simp at hn; omega)
    simp only [strScan] at this
    simp only [List.drop_succ_cons, List.drop_zero]
    rw [this]
    simp only [List.length_cons]
    congr 2 <;> omega
  | uni c u d q hu _ _ ih =>
    obtain ⟨k, _, hkl, ih⟩ := ih
    refine ⟨k + 1, fun h => by omega, by simp; omega, ?_⟩
    intro n i e0 hn
    obtain ⟨n, rfl⟩ : ∃ m, n = m + 1 := ⟨n - 1, by omega⟩
    obtain ⟨j, hce, hdrop, hj⟩ := hu.check (q ++ 34 :: rest)
    simp only [strScan, List.cons_append, List.append_assoc]
    rw [scan_bs _ _ _ _ _ _ hce, hdrop]
    have := ih n (i + j) (e0 + 1) (by simp at hn; omega)
    simp only [strScan] at this
    rw [this]
    simp only [List.length_cons, List.length_append]
    congr 2 <;> omega
  | pair hi lo u1 u2 d q hu1 hu2 _ _ _ ih =>
    obtain ⟨k, _, hkl, ih⟩ := ih
    refine ⟨k + 2, fun h => by omega, by simp; omega, ?_⟩
    intro n i e0 hn
    have hl1 := hu1.len
    have hl2 := hu2.len
    obtain ⟨n, rfl⟩ : ∃ m, n = m + 1 := ⟨n - 1, by omega⟩
    obtain ⟨n, rfl⟩ : ∃ m, n = m + 1 := ⟨n - 1, by simp at hn; omega⟩
    obtain ⟨j2, hce2, hdrop2, hj2⟩ := hu2.check (q ++ 34 :: rest)
    obtain ⟨j1, hce1, hdrop1, hj1⟩ := hu1.check (92 :: 117 :: (u2 ++ (q ++ 34 :: rest)))
    simp only [strScan, List.cons_append, List.append_assoc]
    rw [scan_bs _ _ _ _ _ _ hce1, hdrop1, scan_bs _ _ _ _ _ _ hce2, hdrop2]
    have := ih n (i + j1 + j2) (e0 + 1 + 1) (by simp at hn; omega)
    simp only [strScan] at this
    rw [this]
    simp only [List.length_cons, List.length_append]
    congr 2 <;> omega

theorem or1024 (a b : Nat) (hb : b < 1024) : (a * 1024 ||| b) = a * 1024 + b := by
  have := Nat.shiftLeft_add_eq_or_of_lt (i := 10) (b := b) (by simpa using hb) a
  rw [Nat.shiftLeft_eq] at this
  simpa using this.symm

/-- the expression computed by the Rust code is the code point of the pair -/
theorem pairCode_eq (hi lo : Nat) (h2 : 0xDC00 ≤ lo ∧ lo ≤ 0xDFFF) :
    ((hi - 0xD800) * 1024 ||| (lo - 0xDC00)) + 0x10000 = pairCode hi lo := by
  rw [or1024 _ _ (by omega)]
  unfold pairCode
  omega

/-- the code point of a surrogate pair is astral: `0x10000 ..= 0x10FFFF` -/
theorem pairCode_range (hi lo : Nat) (h1 : 0xD800 ≤ hi ∧ hi ≤ 0xDBFF) (h2 : 0xDC00 ≤ lo ∧ lo ≤ 0xDFFF) :
    0x10000 ≤ pairCode hi lo ∧ pairCode hi lo ≤ 0x10FFFF := by
  unfold pairCode; omega

theorem parseEscaped_uni {n : Nat} {u : Bytes} (hu : UEsc n u) (hn : n < 0xD800 ∨ 0xDFFF < n)
    (q : Bytes) : PathStr.parseEscaped (117 :: (u ++ q)) = .ok (PathStr.utf8Encode n, q) := by
  obtain ⟨nums, hdec, hread⟩ := hu.read
  have hlt := hu.lt
  have hcu : PathStr.charFromU32Unwrap n = .ok (PathStr.utf8Encode n) := by
    unfold PathStr.charFromU32Unwrap
    rw [if_neg (by omega)]
  have hpu : PathStr.parseEscapedU (u ++ q) = .ok (PathStr.utf8Encode n, q) := by
    unfold PathStr.parseEscapedU
    rw [hread]
    simp only [Res.bind, hdec]
    rw [if_neg (by omega), if_neg (by omega), hcu]
  simp [PathStr.parseEscaped, hpu]

theorem bind_ok' {α β} (a : α) (f : α → Res β) : (Res.ok a).bind f = f a := Eq.trans rfl rfl

theorem parseLowSurrogate_pair {hi lo : Nat} {u2 : Bytes} (nums1 : Bytes) (hu2 : UEsc lo u2)
    (h1 : 0xD800 ≤ hi ∧ hi ≤ 0xDBFF) (h2 : 0xDC00 ≤ lo ∧ lo ≤ 0xDFFF) (q : Bytes) :
  PathStr.parseLowSurrogate nums1 hi (92 :: 117 :: (u2 ++ q))
      = .ok (PathStr.utf8Encode (pairCode hi lo), q) := by
  obtain ⟨nums2, hdec2, hread2⟩ := hu2.read
  have hcu : PathStr.charFromU32Unwrap (pairCode hi lo) = .ok (PathStr.utf8Encode (pairCode hi lo)) := by
    have := pairCode_range hi lo h1 h2
    generalize pairCode hi lo = p at *
    unfold PathStr.charFromU32Unwrap
    rw [if_neg (by omega)]
  unfold PathStr.parseLowSurrogate
  have hl : ¬ (92 :: 117 :: (u2 ++ q)).length < 2 := by simp
  rw [if_neg hl]
  simp only [hread2, bind_ok', hdec2]
  have hc : ¬ ¬ (0xDC00 ≤ lo ∧ lo ≤ 0xDFFF) := by omega
  rw [if_neg hc]
  rw [pairCode_eq hi lo h2, hcu, bind_ok']

theorem parseEscapedU_pair {hi lo : Nat} {u1 u2 : Bytes} (hu1 : UEsc hi u1) (hu2 : UEsc lo u2)
    (h1 : 0xD800 ≤ hi ∧ hi ≤ 0xDBFF) (h2 : 0xDC00 ≤ lo ∧ lo ≤ 0xDFFF) (q : Bytes) : PathStr.parseEscapedU (u1 ++ 92 :: 117 :: (u2 ++ q))
      = .ok (PathStr.utf8Encode (pairCode hi lo), q) := by
  obtain ⟨nums1, hdec1, hread1⟩ := hu1.read
  unfold PathStr.parseEscapedU
  rw [hread1, bind_ok']
  dsimp only
  rw [hdec1, bind_ok']
  rw [if_neg (by omega), if_pos (by omega), parseLowSurrogate_pair nums1 hu2 h1 h2]

theorem parseEscaped_pair {hi lo : Nat} {u1 u2 : Bytes} (hu1 : UEsc hi u1) (hu2 : UEsc lo u2)
    (h1 : 0xD800 ≤ hi ∧ hi ≤ 0xDBFF) (h2 : 0xDC00 ≤ lo ∧ lo ≤ 0xDFFF) (q : Bytes) :
    PathStr.parseEscaped (117 :: (u1 ++ 92 :: 117 :: (u2 ++ q)))
      = .ok (PathStr.utf8Encode (pairCode hi lo), q) := by
  simp [PathStr.parseEscaped, parseEscapedU_pair hu1 hu2 h1 h2 q]

/-- the decoding loop of `util::parse_string` on a spelling of `d` appends exactly `d` -/
theorem parseStringLoop_spelled {d q : Bytes} (h : Spelled d q) :
    ∀ (n : Nat) (buf : Bytes), q.length + 1 ≤ n →
      PathStr.parseStringLoop n q buf = .ok (buf ++ d) := by
  induction h with
  | nil =>
    intro n buf hn
    obtain ⟨n, rfl⟩ : ∃ m, n = m + 1 := ⟨n - 1, by omega⟩
    simp [PathStr.parseStringLoop]
  | plain b d q hb1 hb2 _ ih =>
    intro n buf hn
    obtain ⟨n, rfl⟩ : ∃ m, n = m + 1 := ⟨n - 1, by omega⟩
    have h1 : (b == 92) = false := by simpa using hb1
    simp only [PathStr.parseStringLoop, h1, Bool.false_eq_true, if_false]
    rw [ih n _ (by simp at hn; omega)]
    simp
  | esc x y d q hx _ ih =>
    intro n buf hn
    obtain ⟨n, rfl⟩ : ∃ m, n = m + 1 := ⟨n - 1, by omega⟩
    simp only [PathStr.parseStringLoop, beq_self_eq_true, if_true, (simpleEsc_spec hx q).1, Res.bind]
    rw [ih n _ (by simp at hn; omega)]
    simp
  | uni c u d q hu hc _ ih =>
    intro n buf hn
    obtain ⟨n, rfl⟩ : ∃ m, n = m + 1 := ⟨n - 1, by omega⟩
    simp only [PathStr.parseStringLoop, beq_self_eq_true, if_true, parseEscaped_uni hu hc q, Res.bind]
    rw [ih n _ (by simp at hn; omega)]
    simp
  | pair hi lo u1 u2 d q hu1 hu2 h1 h2 _ ih =>
    intro n buf hn
    obtain ⟨n, rfl⟩ : ∃ m, n = m + 1 := ⟨n - 1, by omega⟩
    simp only [PathStr.parseStringLoop, beq_self_eq_true, if_true,
      parseEscaped_pair hu1 hu2 h1 h2 q, Res.bind]
    rw [ih n _ (by simp at hn; omega)]
    simp

/-- **`util::parse_string` returns exactly `s` on every escaped spelling of `s`.** -/
theorem parseString_spelled {s q : Bytes} (h : Spelled s q) (hu : validUtf8 s = true) :
    PathStr.parseString q = .ok s := by
  unfold PathStr.parseString
  rw [parseStringLoop_spelled h _ [] (by omega)]
  simp [Res.bind, hu]

/-- **`string` (scanner + `parse_string`) returns exactly `s` on `"` spelling-of-`s` `"`**, and
leaves what follows the closing quote. -/
theorem string_xquoted {s q : Bytes} (h : XQuoted s q) (r : Bytes) : string (q ++ r) = .ok s r := by
  cases h with
  | mk body hb hu =>
    obtain ⟨e, he0, hle, hsc⟩ := scan_spelled hb r
    have hscan : strScan ((34 :: (body ++ 34 :: r)).length + 1) (body ++ 34 :: r) 1 0
        = .ok (1 + body.length, 0 + e) := hsc _ 1 0 (by simp; omega)
    have e0 : 34 :: (body ++ [34]) ++ r = 34 :: (body ++ 34 :: r) := by simp
    rw [e0]
    unfold string
    simp only [bne_self_eq_false, Bool.false_eq_true, if_false]
    rw [hscan]
    have hlt : 1 + body.length < (34 :: (body ++ 34 :: r)).length := by simp; omega
    simp only []
    rw [if_pos hlt]
    have htake : (List.take (1 + body.length) (34 :: (body ++ 34 :: r))).drop 1 = body := by
      rw [Nat.add_comm, List.take_succ_cons]; simp
    have hdrop : List.drop (1 + body.length + 1) (34 :: (body ++ 34 :: r)) = r := by
      rw [Nat.add_comm 1 body.length]
      simp
    rw [htake, hdrop]
    by_cases he : e = 0
    · have := he0 he
      subst he
      subst this
      simp [hu]
    · have hne : (0 + e == 0) = false := by simpa using he
      rw [hne]
      simp only [Bool.false_eq_true, if_false]
      rw [if_neg (by omega), parseString_spelled hb hu]
      rfl

theorem XQuoted.head {s q : Bytes} (h : XQuoted s q) : ∃ t, q = 34 :: t := by
  cases h; exact ⟨_, rfl⟩

theorem hex4_of_decode {h1 h2 h3 h4 : UInt8} {n : Nat}
    (h : PathStr.decodeHexEscape [h1, h2, h3, h4] = .ok n) : hex4 h1 h2 h3 h4 = some n := by
  simp only [PathStr.decodeHexEscape, List.foldl, Res.bind, decodeHexVal_eq] at h
  unfold hex4
  cases e1 : hexVal h1 with
  | none => simp [e1] at h
  | some a =>
  cases e2 : hexVal h2 with
  | none => simp [e1, e2] at h
  | some b =>
  cases e3 : hexVal h3 with
  | none => simp [e1, e2, e3] at h
  | some c =>
  cases e4 : hexVal h4 with
  | none => simp [e1, e2, e3, e4] at h
  | some d =>
    have ha := hexVal_lt _ _ e1
    have hb := hexVal_lt _ _ e2
    have hc := hexVal_lt _ _ e3
    have hd := hexVal_lt _ _ e4
    simp only [e1, e2, e3, e4, Res.ok.injEq] at h
    simp only [Option.some.injEq]
    omega

/-- every spelling accepted by the existing relation `QBody` is a spelling here -/
theorem Spelled.of_qbody {d q : Bytes} {e : Nat} (h : QBody d q e) : Spelled d q := by
  induction h with
  | nil => exact .nil
  | plain b d q e h1 h2 _ ih => exact .plain b d q h1 h2 ih
  | esc x y d q e hx _ ih => exact .esc x y d q hx ih
  | uni h1 h2 h3 h4 n d q e hb hdec hn _ ih =>
    have h4' : hex4 h1 h2 h3 h4 = some n := hex4_of_decode hdec
    exact .uni n [h1, h2, h3, h4] d q (.bare h1 h2 h3 h4 n h4') (by omega) ih

theorem XQuoted.of_rquoted {s q : Bytes} (h : RQuoted s q) : XQuoted s q := by
  cases h with
  | mk body e hb hu => exact .mk s body (Spelled.of_qbody hb) hu


/-! ## 2. names, steps, literals and operands whose quoted tokens are escaped spellings -/

/-- one plain path step: every rendering of the existing relation `RStep`, or a quoted name
(after `.` or `:`, or between `[` `]`) given by an escaped spelling -/
inductive XStep : Path → Bytes → Prop
  | plain (p : Path) (s : Bytes) : RStep p s → XStep p s
  | dotField (s q : Bytes) : XQuoted s q → XStep (.dotField s) (46 :: q)
  | colonField (s q : Bytes) : XQuoted s q → XStep (.colonField s) (58 :: q)
  | objectField (s q w1 w2 : Bytes) : XQuoted s q → Ws w1 → Ws w2 →
      XStep (.objectField s) (91 :: (w1 ++ (q ++ (w2 ++ [93]))))

theorem XStep.head {p : Path} {s : Bytes} (h : XStep p s) : ∃ c t, s = c :: t ∧ stepHead c = true := by
  cases h with
  | plain _ _ h => exact h.head
  | dotField => exact ⟨_, _, rfl, by decide⟩
  | colonField => exact ⟨_, _, rfl, by decide⟩
  | objectField => exact ⟨_, _, rfl, by decide⟩

theorem XStep.ns {p : Path} {s : Bytes} (h : XStep p s) (r : Bytes) : dropSpaces (s ++ r) = s ++ r := by
  obtain ⟨c, t, rfl, hc⟩ := h.head
  have : ∀ c, stepHead c = true → isSpace c = false := by bytes_decide
  exact dropSpaces_nonspace _ _ (this c hc)

theorem field_xrender (c : UInt8) {s q : Bytes} (h : XQuoted s q) (r : Bytes) :
    alt (preceded (char c) string) (preceded (char c) rawString) (c :: (q ++ r)) = .ok s r := by
  have h1 := string_xquoted h r
  generalize q ++ r = X at h1 ⊢
  simp [alt, preceded, char, h1, PR.bind]

/-- `inner_path` reads back every step -/
theorem innerPath_xrender {p : Path} {s : Bytes} (h : XStep p s) (r : Bytes)
    (hr : HeadOk isRawDelim r) : innerPath (s ++ r) = .ok p r := by
  cases h with
  | plain _ _ h => exact innerPath_render h r hr
  | dotField s q hq =>
    obtain ⟨t, rfl⟩ := hq.head
    exact innerPath_dot (34 :: t ++ r) r s 34 (t ++ r) rfl (by decide) (field_xrender 46 hq r)
  | colonField s q hq =>
    exact innerPath_colon (q ++ r) r s (field_xrender 58 hq r)
  | objectField s q w1 w2 hq hw1 hw2 =>
    simp only [List.append_assoc, List.cons_append, List.nil_append]
    obtain ⟨qt, hqt⟩ := hq.head
    have h1 : dropSpaces (w1 ++ (q ++ (w2 ++ 93 :: r))) = q ++ (w2 ++ 93 :: r) := by
      rw [dropSpaces_ws _ _ hw1, hqt]; exact dropSpaces_nonspace _ _ (by decide)
    have h1' : dropSpaces (w1 ++ (q ++ (w2 ++ 93 :: r))) = 34 :: (qt ++ (w2 ++ 93 :: r)) := by
      rw [h1, hqt]; rfl
    have h2 : dropSpaces (w2 ++ 93 :: r) = 93 :: r := by
      rw [dropSpaces_ws _ _ hw2]; exact dropSpaces_nonspace _ _ (by decide)
    have h3 := string_xquoted hq (w2 ++ 93 :: r)
    exact innerPath_of _ _ _ (bracketWildcard_miss _ _ _ h1' (by decide))
      (arrayIndices_quote _ _ h1') (objectField_hit _ _ _ _ _ h1 h3 h2)

theorem innerPathWs_xrender {p : Path} {s : Bytes} (h : XStep p s) (x : Bytes)
    (hx : HeadOk isRawDelim x) (i : Bytes) (hi : dropSpaces i = s ++ x) :
    delimited ws innerPath ws i = .ok p (dropSpaces x) := by
  simp [delimited, ws_eq, hi, innerPath_xrender h x hx, PR.bind]

/-- a sequence of plain steps: any white space before and after each step -/
inductive XPlainSteps : List Path → Bytes → Prop
  | nil : XPlainSteps [] []
  | cons (p : Path) (ps : List Path) (w s w' t : Bytes) : Ws w → XStep p s → Ws w' →
      XPlainSteps ps t → XPlainSteps (p :: ps) (w ++ (s ++ (w' ++ t)))

theorem XPlainSteps.of_r {ps : List Path} {t : Bytes} (h : RPlainSteps ps t) : XPlainSteps ps t := by
  induction h with
  | nil => exact .nil
  | cons p ps w s w' t hw hs hw' _ ih => exact .cons p ps w s w' t hw (.plain p s hs) hw' ih

theorem XPlainSteps.follow {ps : List Path} {t : Bytes} (h : XPlainSteps ps t) (r : Bytes)
    (hr : HeadOk isRawDelim r) : HeadOk isRawDelim (t ++ r) := by
  cases h with
  | nil => exact hr
  | cons p ps w s w' t hw hs hw' ht =>
    cases w with
    | nil =>
      obtain ⟨c, t', rfl, hc⟩ := hs.head
      exact HeadOk.cons (stepHead_delim c hc)
    | cons b w => exact HeadOk.cons (space_rawDelim b hw.cons.1)

theorem xplainSteps_loop {ps : List Path} {s : Bytes} (h : XPlainSteps ps s) (r : Bytes)
    (hr : HeadOk afterSteps (dropSpaces r)) :
    ∀ (i : Bytes), dropSpaces i = dropSpaces (s ++ r) → ∀ (m : Nat) (acc : List Path),
      i.length < m → ∃ r', many0Loop (delimited ws innerPath ws) m i acc
        = .ok (acc.reverse ++ ps) r' ∧ dropSpaces r' = dropSpaces r := by
  have hrd : HeadOk isRawDelim r :=
    HeadOk.of_dropSpaces space_rawDelim (hr.mono afterSteps_delim)
  induction h with
  | nil =>
    intro i hi m acc hm
    obtain ⟨m, rfl⟩ : ∃ k, m = k + 1 := ⟨m - 1, by omega⟩
    have he := innerPathWs_error i (by rw [hi]; exact hr.mono afterSteps_noStep)
    exact ⟨i, by simp [many0Loop, he], hi⟩
  | cons p ps w s w' t hw hs hw' ht ih =>
    intro i hi m acc hm
    obtain ⟨m, rfl⟩ : ∃ k, m = k + 1 := ⟨m - 1, by omega⟩
    have hi' : dropSpaces i = s ++ (w' ++ (t ++ r)) := by
      rw [hi]; simp only [List.append_assoc]
      rw [dropSpaces_ws _ _ hw, hs.ns]
    have hx : HeadOk isRawDelim (w' ++ (t ++ r)) :=
      HeadOk.ws_append space_rawDelim hw' (ht.follow r hrd)
    have hstep := innerPathWs_xrender hs _ hx i hi'
    have hd : dropSpaces (w' ++ (t ++ r)) = dropSpaces (t ++ r) := dropSpaces_ws _ _ hw'
    rw [hd] at hstep
    have hlen : (dropSpaces (t ++ r)).length < i.length := by
      have h1 := dropSpaces_length i
      have h2 := dropSpaces_length (t ++ r)
      rw [hi'] at h1
      obtain ⟨c, t', rfl, _⟩ := hs.head
      simp at h1 h2 ⊢
      omega
    have hne : ((dropSpaces (t ++ r)).length == i.length) = false := by
      simp; omega
    obtain ⟨r', h1, h2⟩ := ih (dropSpaces (t ++ r)) (dropSpaces_idem _) m (p :: acc) (by omega)
    refine ⟨r', ?_, h2⟩
    simp only [many0Loop, hstep, hne, Bool.false_eq_true, if_false]
    rw [h1]
    simp

/-- a literal: every rendering of the existing relation `RVal`, or a string literal given by an
escaped spelling -/
inductive XVal : PathValue → Bytes → Prop
  | plain (v : PathValue) (s : Bytes) : RVal v s → XVal v s
  | str (s q : Bytes) : XQuoted s q → XVal (.str s) q

theorem XVal.head {v : PathValue} {s : Bytes} (h : XVal v s) :
    ∃ c t, s = c :: t ∧ valHead c = true := by
  cases h with
  | plain _ _ h => exact h.head
  | str s q hq =>
    obtain ⟨t, rfl⟩ := hq.head
    exact ⟨34, t, rfl, by decide⟩

/-- `path_value` reads back every literal -/
theorem pathValue_xrender {v : PathValue} {s : Bytes} (h : XVal v s) (r : Bytes)
    (hr : HeadOk numFollow r) : pathValue (s ++ r) = .ok v r := by
  cases h with
  | plain _ _ h => exact pathValue_render h r hr
  | str s q hq =>
    rw [pathValue_eq]
    obtain ⟨t, rfl⟩ := hq.head
    have h123 := pvA123_error 34 (t ++ r) (by decide)
    have h4 : pvA4 (34 :: (t ++ r)) = .error :=
      map_error (terminated_error (u64_nondigit _ _ (by decide)))
    have h5 : pvA5 (34 :: (t ++ r)) = .error :=
      map_error (terminated_error (i64_nondigit _ _ (by decide) (by decide) (by decide)))
    have h6 : pvA6 (34 :: (t ++ r)) = .error := map_error (double_error_head _ _ (by decide))
    have h7 : pvA7 (34 :: t ++ r) = .ok (.str s) r := map_ok (string_xquoted hq r)
    simp only [List.cons_append] at h7 ⊢
    rw [alt_error h123.1, alt_error h123.2.1, alt_error h123.2.2, alt_error h4, alt_error h5,
      alt_error h6]
    exact h7

/-- an operand (of a comparison or of an arithmetic operator): `$`/`@` followed by plain steps,
or a literal; trailing white space included -/
inductive XOperand (rp : Bool) : Expr → Bytes → Prop
  | paths (hd : Path) (ps : List Path) (c : UInt8) (t w : Bytes) : RHead rp hd c →
      XPlainSteps ps t → Ws w → XOperand rp (.paths (hd :: ps)) (c :: (t ++ w))
  | value (v : PathValue) (s w : Bytes) : XVal v s → Ws w → XOperand rp (.value v) (s ++ w)

theorem XOperand.of_r {rp : Bool} {x : Expr} {s : Bytes} (h : ROperand rp x s) : XOperand rp x s := by
  cases h with
  | paths hd ps c t w hh ht hw => exact .paths hd ps c t w hh (.of_r ht) hw
  | value v s w hv hw => exact .value v s w (.plain v s hv) hw

theorem XOperand.head {rp : Bool} {x : Expr} {s : Bytes} (h : XOperand rp x s) :
    ∃ c t, s = c :: t ∧ operandHead c = true := by
  cases h with
  | paths hd ps c t w hh =>
    cases hh
    · exact ⟨36, _, rfl, by decide⟩
    · exact ⟨64, _, rfl, by decide⟩
  | value v s w hv =>
    obtain ⟨c, t, rfl, hc⟩ := hv.head
    exact ⟨c, _, rfl, by simp [operandHead, hc]⟩

theorem XOperand.ns {rp : Bool} {x : Expr} {s : Bytes} (h : XOperand rp x s) (r : Bytes) :
    dropSpaces (s ++ r) = s ++ r := by
  obtain ⟨c, t, rfl, hc⟩ := h.head
  exact dropSpaces_nonspace _ _ (operandHead_ns c hc)

/-- what may follow an operand (after white space): a byte that ends a step sequence and a number
(every operator byte, `)`, `&`, `|`) -/
def xFollow (c : UInt8) : Bool := afterSteps c && numFollow c

theorem opFollow_xFollow : ∀ c, opFollow c = true → xFollow c = true := by bytes_decide
theorem xFollow_afterSteps : ∀ c, xFollow c = true → afterSteps c = true := by bytes_decide
theorem xFollow_numFollow : ∀ c, xFollow c = true → numFollow c = true := by bytes_decide

/-- `delimited(multispace0, inner_expr, multispace0)` reads back every operand -/
theorem operand_xrender {rp : Bool} {x : Expr} {s : Bytes} (h : XOperand rp x s) (r : Bytes)
    (hr : HeadOk xFollow (dropSpaces r)) (i : Bytes) (hi : dropSpaces i = dropSpaces (s ++ r)) :
    delimited ws (innerExpr rp) ws i = .ok x (dropSpaces r) := by
  rw [h.ns] at hi
  cases h with
  | paths hd ps c t w hh ht hw =>
    have hd' : dropSpaces (w ++ r) = dropSpaces r := dropSpaces_ws _ _ hw
    obtain ⟨r', h1, h2⟩ := xplainSteps_loop ht (w ++ r)
      (by rw [hd']; exact hr.mono xFollow_afterSteps) (t ++ (w ++ r)) rfl
      ((t ++ (w ++ r)).length + 1) [] (by omega)
    have hm : many0 (delimited ws innerPath ws) (t ++ (w ++ r)) = .ok ps r' := by
      unfold many0; rw [h1]; simp
    have he := exprPaths_render hh _ _ _ hm
    have hie : innerExpr rp (c :: (t ++ (w ++ r))) = .ok (.paths (hd :: ps)) r' := by
      unfold innerExpr
      exact alt_ok (map_ok he)
    have := delimited_ws (innerExpr rp) i _ _ _ (by rw [hi]; simp) hie
    rw [this, h2, hd']
  | value v s w hv hw =>
    obtain ⟨c, t, rfl, hc⟩ := hv.head
    have hc36 : ∀ c, valHead c = true → c ≠ 36 ∧ c ≠ 64 := by bytes_decide
    have hd' : dropSpaces (w ++ r) = dropSpaces r := dropSpaces_ws _ _ hw
    have hf : HeadOk numFollow (w ++ r) :=
      HeadOk.of_dropSpaces space_numFollow (by rw [hd']; exact hr.mono xFollow_numFollow)
    have hpv : pathValue (c :: (t ++ (w ++ r))) = .ok v (w ++ r) := pathValue_xrender hv (w ++ r) hf
    have hie : innerExpr rp (c :: (t ++ (w ++ r))) = .ok (.value v) (w ++ r) := by
      unfold innerExpr
      rw [alt_error (map_error (exprPaths_error rp c _ (hc36 c hc).1 (hc36 c hc).2))]
      exact map_ok hpv
    have := delimited_ws (innerExpr rp) i _ _ _ (by rw [hi]; simp) hie
    rw [this, hd']

/-- `expr_atom` reads back every comparison -/
theorem cmp_xrender (R : Bool → Parser Expr) {rp : Bool} {o : BinOp} {l r : Expr}
    {sl so sr : Bytes} (w1 : Bytes) (hl : XOperand rp l sl) (ho : ROp o so) (hw1 : Ws w1)
    (hr : XOperand rp r sr) (rest : Bytes) (hrest : HeadOk opFollow (dropSpaces rest)) (i : Bytes)
    (hi : dropSpaces i = dropSpaces (sl ++ (so ++ (w1 ++ (sr ++ rest))))) :
    exprAtom R rp i = .ok (.binaryOp o l r) (dropSpaces rest) := by
  obtain ⟨oc, ot, hso, hoc, hons⟩ := ho.head
  have hd1 : dropSpaces (so ++ (w1 ++ (sr ++ rest))) = so ++ (w1 ++ (sr ++ rest)) := by
    rw [hso]; exact dropSpaces_nonspace _ _ hons
  have hL1 : delimited ws (innerExpr rp) ws i = .ok l (so ++ (w1 ++ (sr ++ rest))) := by
    have := operand_xrender hl (so ++ (w1 ++ (sr ++ rest)))
      (by rw [hd1, hso]; exact HeadOk.cons (opFollow_xFollow _ hoc)) i hi
    rw [this, hd1]
  have hX : HeadOk (fun c => c != 61 && c != 62) (w1 ++ (sr ++ rest)) := by
    obtain ⟨c, t, rfl, hc⟩ := hr.head
    cases w1 with
    | nil => exact HeadOk.cons (operandHead_notOp c (by simp [hc]))
    | cons b w => exact HeadOk.cons (operandHead_notOp b (by simp [hw1.cons.1]))
  have hop := op_render ho (w1 ++ (sr ++ rest)) hX
  have hL2 : delimited ws (innerExpr rp) ws (w1 ++ (sr ++ rest)) = .ok r (dropSpaces rest) :=
    operand_xrender hr rest (hrest.mono opFollow_xFollow) _ (dropSpaces_ws _ _ hw1)
  have hB1 : eaB1 rp i = .error :=
    map_error (tuple3_error2 hL1 (binaryArithOp_error_op ho _))
  have hB2 : eaB2 rp i = .ok (.binaryOp o l r) (dropSpaces rest) :=
    map_ok (tuple3_ok hL1 hop hL2)
  rw [exprAtom_eq, alt_error hB1]
  exact alt_ok hB2


/-! ## 3. the expression grammar over an arbitrary family of leaf atoms -/

/-- `RX Leaf k rp e s`: the text `s` is a rendering of `e` as nonterminal `k` (same nonterminals
and the same layout freedom as `PathRT2.R`), where
* the non-recursive atoms are given by the parameter `Leaf` (comparisons in this file; comparisons
  and arithmetic atoms in `PathArith`);
* plain steps are `XStep`s, i.e. quoted names may be any escaped spelling. -/
inductive RX (Leaf : Bool → Expr → Bytes → Prop) : Kind → Bool → Expr → Bytes → Prop
  | leaf (rp : Bool) (e : Expr) (s : Bytes) : Leaf rp e s → RX Leaf .atom rp e s
  | paren (rp : Bool) (e : Expr) (w1 s w2 : Bytes) : Ws w1 → RX Leaf .orL rp e s → Ws w2 →
      RX Leaf .atom rp e (40 :: (w1 ++ (s ++ (w2 ++ [41]))))
  | exists_ (rp : Bool) (hd : Path) (ps : List Path) (c : UInt8) (w1 w2 t w3 : Bytes) : Ws w1 →
      Ws w2 → RHead false hd c → RX Leaf .steps false (.paths ps) t → Ws w3 →
      RX Leaf .atom rp (.existsFn (hd :: ps))
        (kwExists ++ (w1 ++ 40 :: (w2 ++ c :: (t ++ (w3 ++ [41])))))
  | andTailNil (rp : Bool) (acc : Expr) : RX Leaf (.andTail acc) rp acc []
  | andTailCons (rp : Bool) (acc x e : Expr) (w1 w2 s t : Bytes) : Ws w1 → Ws w2 →
      RX Leaf .atom rp x s → RX Leaf (.andTail (.binaryOp .and acc x)) rp e t →
      RX Leaf (.andTail acc) rp e (w1 ++ 38 :: 38 :: (w2 ++ (s ++ t)))
  | andL (rp : Bool) (a e : Expr) (s t : Bytes) : RX Leaf .atom rp a s →
      RX Leaf (.andTail a) rp e t → RX Leaf .andL rp e (s ++ t)
  | orTailNil (rp : Bool) (acc : Expr) : RX Leaf (.orTail acc) rp acc []
  | orTailCons (rp : Bool) (acc x e : Expr) (w1 w2 s t : Bytes) : Ws w1 → Ws w2 →
      RX Leaf .andL rp x s → RX Leaf (.orTail (.binaryOp .or acc x)) rp e t →
      RX Leaf (.orTail acc) rp e (w1 ++ 124 :: 124 :: (w2 ++ (s ++ t)))
  | orL (rp : Bool) (a e : Expr) (s t : Bytes) : RX Leaf .andL rp a s →
      RX Leaf (.orTail a) rp e t → RX Leaf .orL rp e (s ++ t)
  | stepsNil : RX Leaf .steps false (.paths []) []
  | stepsPlain (p : Path) (ps : List Path) (w s w' t : Bytes) : Ws w → XStep p s → Ws w' →
      RX Leaf .steps false (.paths ps) t →
      RX Leaf .steps false (.paths (p :: ps)) (w ++ (s ++ (w' ++ t)))
  | stepsFilter (e : Expr) (ps : List Path) (w0 w1 w2 s w3 w4 t : Bytes) : Ws w0 → Ws w1 → Ws w2 →
      RX Leaf .orL false e s → Ws w3 → Ws w4 → RX Leaf .steps false (.paths ps) t →
      RX Leaf .steps false (.paths (.filterExpr e :: ps))
        (w0 ++ 63 :: (w1 ++ 40 :: (w2 ++ (s ++ (w3 ++ 41 :: (w4 ++ t))))))

/-- what a family of leaf atoms has to satisfy: `expr_atom` (whatever the recursive `expr_or`
is) reads the atom back, up to white space, whenever what follows is the end of input, `)`, `&&`
or `||` -/
def LeafSound (Leaf : Bool → Expr → Bytes → Prop) : Prop :=
  ∀ rp e s, Leaf rp e s → ∀ (Rr : Bool → Parser Expr) (r : Bytes), AtomFollow (dropSpaces r) →
    ∃ r', exprAtom Rr rp (dropSpaces (s ++ r)) = .ok e r' ∧ dropSpaces r' = dropSpaces r

variable {Leaf : Bool → Expr → Bytes → Prop}

theorem path_xplain (R : Bool → Parser Expr) {p : Path} {s : Bytes} (h : XStep p s) (x : Bytes)
    (hx : HeadOk isRawDelim x) (i : Bytes) (hi : dropSpaces i = s ++ x) :
    path R i = .ok p (dropSpaces x) := by
  unfold path
  exact alt_ok (innerPathWs_xrender h x hx i hi)

theorem RX.andTail_follow {acc : Expr} {rp : Bool} {e : Expr} {t : Bytes}
    (h : RX Leaf (.andTail acc) rp e t) (r : Bytes) (hr : AndFollow (dropSpaces r)) :
    AtomFollow (dropSpaces (t ++ r)) := by
  cases h with
  | andTailNil => exact Or.inl hr
  | andTailCons _ _ x _ w1 w2 s t hw1 =>
    refine Or.inr ⟨w2 ++ (s ++ t) ++ r, ?_⟩
    simp only [List.append_assoc, List.cons_append]
    rw [dropSpaces_ws _ _ hw1]
    exact dropSpaces_nonspace _ _ (by decide)

theorem RX.orTail_follow {acc : Expr} {rp : Bool} {e : Expr} {t : Bytes}
    (h : RX Leaf (.orTail acc) rp e t) (r : Bytes) (hr : OrFollow (dropSpaces r)) :
    AndFollow (dropSpaces (t ++ r)) := by
  cases h with
  | orTailNil => exact Or.inl hr
  | orTailCons _ _ x _ w1 w2 s t hw1 =>
    refine Or.inr ⟨w2 ++ (s ++ t) ++ r, ?_⟩
    simp only [List.append_assoc, List.cons_append]
    rw [dropSpaces_ws _ _ hw1]
    exact dropSpaces_nonspace _ _ (by decide)

theorem RX.steps_follow {rp : Bool} {e : Expr} {t : Bytes} (h : RX Leaf .steps rp e t) (r : Bytes)
    (hr : HeadOk isRawDelim r) : HeadOk isRawDelim (t ++ r) := by
  cases h with
  | stepsNil => exact hr
  | stepsPlain p ps w s w' t hw hs =>
    cases w with
    | nil =>
      obtain ⟨c, t', rfl, hc⟩ := hs.head
      exact HeadOk.cons (stepHead_delim c hc)
    | cons b w => exact HeadOk.cons (space_rawDelim b hw.cons.1)
  | stepsFilter e ps w0 w1 w2 s w3 w4 t hw0 =>
    cases w0 with
    | nil => exact HeadOk.cons (by decide)
    | cons b w => exact HeadOk.cons (space_rawDelim b hw0.cons.1)

/-- The parser model reads every rendering back (statement per nonterminal: `PathRT2.Goal`). -/
theorem RX.sound (hLeaf : LeafSound Leaf) {k : Kind} {rp : Bool} {e : Expr} {s : Bytes}
    (h : RX Leaf k rp e s) : Goal k rp e s := by
  induction h with
  | leaf rp e s hl =>
    intro n _ rest hrest
    exact hLeaf rp e s hl (exprOr n) rest hrest
  | paren rp e w1 s w2 hw1 _ hw2 ih =>
    intro n hn rest _
    obtain ⟨m, rfl⟩ : ∃ m, n = m + 1 := ⟨n - 1, by simp at hn; omega⟩
    have hfol : dropSpaces (w2 ++ 41 :: rest) = 41 :: rest := by
      rw [dropSpaces_ws _ _ hw2]; exact dropSpaces_nonspace _ _ (by decide)
    obtain ⟨r', h1, h2⟩ := ih m (by simp at hn; omega) (w2 ++ 41 :: rest)
      (by rw [hfol]; exact Or.inr ⟨rest, rfl⟩)
    refine ⟨rest, ?_, rfl⟩
    simp only [List.append_assoc, List.cons_append, List.nil_append]
    rw [dropSpaces_nonspace _ _ (by decide)]
    obtain ⟨b1, b2, b3⟩ := eaB123_error rp 40 (w1 ++ (s ++ (w2 ++ 41 :: rest))) (by decide) (by decide)
    rw [exprAtom_eq, alt_error b1, alt_error b2, alt_error b3]
    apply alt_ok
    exact eaB4_render _ rp _ _ r' rest e (dropSpaces_ws _ _ hw1) h1 (by rw [h2, hfol])
  | exists_ rp hd ps c w1 w2 t w3 hw1 hw2 hh _ hw3 ih =>
    intro n hn rest _
    have hfol : dropSpaces (w3 ++ 41 :: rest) = 41 :: rest := by
      rw [dropSpaces_ws _ _ hw3]; exact dropSpaces_nonspace _ _ (by decide)
    obtain ⟨r', h1, h2⟩ := ih ps rfl n (by simp at hn; omega) (w3 ++ 41 :: rest)
      (by rw [hfol]; exact HeadOk.cons (by decide)) (t ++ (w3 ++ 41 :: rest)) rfl
      ((t ++ (w3 ++ 41 :: rest)).length + 1) [] (by omega)
    have hm : many0 (path (exprOr n)) (t ++ (w3 ++ 41 :: rest)) = .ok ps r' := by
      unfold many0; rw [h1]; simp
    refine ⟨rest, ?_, rfl⟩
    simp only [List.append_assoc, List.cons_append, List.nil_append]
    have hk : kwExists ++ (w1 ++ 40 :: (w2 ++ c :: (t ++ (w3 ++ 41 :: rest))))
        = 101 :: ([120, 105, 115, 116, 115] ++ (w1 ++ 40 :: (w2 ++ c :: (t ++ (w3 ++ 41 :: rest))))) := rfl
    have hds : dropSpaces (kwExists ++ (w1 ++ 40 :: (w2 ++ c :: (t ++ (w3 ++ 41 :: rest)))))
        = kwExists ++ (w1 ++ 40 :: (w2 ++ c :: (t ++ (w3 ++ 41 :: rest)))) := by
      rw [hk]; exact dropSpaces_nonspace _ _ (by decide)
    rw [hds]
    obtain ⟨b1, b2, b3⟩ := eaB123_error rp 101
      ([120, 105, 115, 116, 115] ++ (w1 ++ 40 :: (w2 ++ c :: (t ++ (w3 ++ 41 :: rest))))) (by decide) (by decide)
    have b4 := eaB4_error (exprOr n) rp 101
      ([120, 105, 115, 116, 115] ++ (w1 ++ 40 :: (w2 ++ c :: (t ++ (w3 ++ 41 :: rest))))) (by decide)
    rw [← hk] at b1 b2 b3 b4
    rw [exprAtom_eq, alt_error b1, alt_error b2, alt_error b3, alt_error b4]
    apply map_ok
    have hcs : isSpace c = false := by cases hh <;> decide
    exact existsFn_render _ _ _ _ r' rest hd c ps
      (by rw [dropSpaces_ws _ _ hw1]; exact dropSpaces_nonspace _ _ (by decide))
      (by rw [dropSpaces_ws _ _ hw2]; exact dropSpaces_nonspace _ _ hcs) hh hm (by rw [h2, hfol])
  | andTailNil rp acc =>
    intro n _ r hr i hi m accL hm
    obtain ⟨m, rfl⟩ : ∃ k, m = k + 1 := ⟨m - 1, by omega⟩
    have hsep := sepAnd_error i (by rw [hi]; exact hr)
    exact ⟨i, [], by simp [sepList1Loop, hsep], rfl, hi⟩
  | andTailCons rp acc x e w1 w2 s t hw1 hw2 _ ht ihx iht =>
    intro n hn r hr i hi m accL hm
    obtain ⟨m, rfl⟩ : ∃ k, m = k + 1 := ⟨m - 1, by omega⟩
    have hi' : dropSpaces i = 38 :: 38 :: (w2 ++ (s ++ (t ++ r))) := by
      rw [hi]; simp only [List.append_assoc, List.cons_append]
      rw [dropSpaces_ws _ _ hw1]; exact dropSpaces_nonspace _ _ (by decide)
    have hsep := sepAnd_hit i _ hi'
    rw [dropSpaces_ws _ _ hw2] at hsep
    obtain ⟨r1, h1, h2⟩ := ihx n (by simp at hn; omega) (t ++ r) (ht.andTail_follow r hr)
    have hl1 := dropSpaces_length i
    have hl2 := dropSpaces_length (s ++ (t ++ r))
    have hl3 := dropSpaces_length (t ++ r)
    rw [hi'] at hl1 hm
    simp only [List.length_cons, List.length_append] at hl1 hl2 hl3 hm
    have hne : ((dropSpaces (s ++ (t ++ r))).length == i.length) = false := by
      simp; omega
    obtain ⟨r', xs, h3, h4, h5⟩ := iht n (by simp at hn; omega) r hr r1 h2 m (x :: accL)
      (by rw [h2]; omega)
    refine ⟨r', x :: xs, ?_, h4, h5⟩
    simp only [sepList1Loop, hsep, hne, Bool.false_eq_true, if_false, h1]
    rw [h3]
    simp
  | andL rp a e s t hs ht ihs iht =>
    intro n hn r hr
    obtain ⟨r1, h1, h2⟩ := ihs n (by simp at hn; omega) (t ++ r) (ht.andTail_follow r hr)
    obtain ⟨r', xs, h3, h4, h5⟩ := iht n (by simp at hn; omega) r hr r1 h2 (r1.length + 1) [a]
      (by have := dropSpaces_length r1; omega)
    refine ⟨r', ?_, h5⟩
    simp only [List.append_assoc]
    unfold exprAnd separatedList1
    rw [h1]
    simp only [PR.bind]
    rw [h3]
    simp [foldBin, h4]
  | orTailNil rp acc =>
    intro n _ r hr i hi m accL hm
    obtain ⟨m, rfl⟩ : ∃ k, m = k + 1 := ⟨m - 1, by omega⟩
    have hsep := sepOr_error i (by rw [hi]; exact hr)
    exact ⟨i, [], by simp [sepList1Loop, hsep], rfl, hi⟩
  | orTailCons rp acc x e w1 w2 s t hw1 hw2 _ ht ihx iht =>
    intro n hn r hr i hi m accL hm
    obtain ⟨m, rfl⟩ : ∃ k, m = k + 1 := ⟨m - 1, by omega⟩
    have hi' : dropSpaces i = 124 :: 124 :: (w2 ++ (s ++ (t ++ r))) := by
      rw [hi]; simp only [List.append_assoc, List.cons_append]
      rw [dropSpaces_ws _ _ hw1]; exact dropSpaces_nonspace _ _ (by decide)
    have hsep := sepOr_hit i _ hi'
    rw [dropSpaces_ws _ _ hw2] at hsep
    obtain ⟨r1, h1, h2⟩ := ihx n (by simp at hn; omega) (t ++ r) (ht.orTail_follow r hr)
    have hl1 := dropSpaces_length i
    have hl2 := dropSpaces_length (s ++ (t ++ r))
    have hl3 := dropSpaces_length (t ++ r)
    rw [hi'] at hl1 hm
    simp only [List.length_cons, List.length_append] at hl1 hl2 hl3 hm
    have hne : ((dropSpaces (s ++ (t ++ r))).length == i.length) = false := by
      simp; omega
    obtain ⟨r', xs, h3, h4, h5⟩ := iht n (by simp at hn; omega) r hr r1 h2 m (x :: accL)
      (by rw [h2]; omega)
    refine ⟨r', x :: xs, ?_, h4, h5⟩
    simp only [sepList1Loop, hsep, hne, Bool.false_eq_true, if_false, h1]
    rw [h3]
    simp
  | orL rp a e s t hs ht ihs iht =>
    intro n hn r hr
    obtain ⟨r1, h1, h2⟩ := ihs n (by simp at hn; omega) (t ++ r) (ht.orTail_follow r hr)
    obtain ⟨r', xs, h3, h4, h5⟩ := iht n (by simp at hn; omega) r hr r1 h2 (r1.length + 1) [a]
      (by have := dropSpaces_length r1; omega)
    refine ⟨r', ?_, h5⟩
    simp only [List.append_assoc]
    unfold exprOrStep separatedList1
    rw [h1]
    simp only [PR.bind]
    rw [h3]
    simp [foldBin, h4]
  | stepsNil =>
    intro ps hps n _ r hr i hi m acc hm
    cases hps
    obtain ⟨m, rfl⟩ : ∃ k, m = k + 1 := ⟨m - 1, by omega⟩
    have he := path_error (exprOr n) i (by rw [hi]; exact hr.mono (by bytes_decide))
    exact ⟨i, by simp [many0Loop, he], hi⟩
  | stepsPlain p ps w s w' t hw hs hw' ht iht =>
    intro ps' hps n hn r hr i hi m acc hm
    cases hps
    obtain ⟨m, rfl⟩ : ∃ k, m = k + 1 := ⟨m - 1, by omega⟩
    have hrd : HeadOk isRawDelim r :=
      HeadOk.of_dropSpaces space_rawDelim (hr.mono afterPath_delim)
    have hi' : dropSpaces i = s ++ (w' ++ (t ++ r)) := by
      rw [hi]; simp only [List.append_assoc]
      rw [dropSpaces_ws _ _ hw, hs.ns]
    have hx : HeadOk isRawDelim (w' ++ (t ++ r)) :=
      HeadOk.ws_append space_rawDelim hw' (ht.steps_follow r hrd)
    have hstep := path_xplain (exprOr n) hs _ hx i hi'
    rw [dropSpaces_ws _ _ hw'] at hstep
    have hlen : (dropSpaces (t ++ r)).length < i.length := by
      have h1 := dropSpaces_length i
      have h2 := dropSpaces_length (t ++ r)
      rw [hi'] at h1
      obtain ⟨c, t', rfl, _⟩ := hs.head
      simp at h1 h2 ⊢
      omega
    have hne : ((dropSpaces (t ++ r)).length == i.length) = false := by simp; omega
    obtain ⟨r', h1, h2⟩ := iht ps rfl n (by simp at hn; omega) r hr (dropSpaces (t ++ r))
      (dropSpaces_idem _) m (p :: acc) (by omega)
    refine ⟨r', ?_, h2⟩
    simp only [many0Loop, hstep, hne, Bool.false_eq_true, if_false]
    rw [h1]
    simp
  | stepsFilter e ps w0 w1 w2 s w3 w4 t hw0 hw1 hw2 _ hw3 hw4 _ ihe iht =>
    intro ps' hps n hn r hr i hi m acc hm
    cases hps
    obtain ⟨m, rfl⟩ : ∃ k, m = k + 1 := ⟨m - 1, by omega⟩
    obtain ⟨n', rfl⟩ : ∃ k, n = k + 1 := ⟨n - 1, by simp at hn; omega⟩
    have hi' : dropSpaces i = 63 :: (w1 ++ 40 :: (w2 ++ (s ++ (w3 ++ 41 :: (w4 ++ (t ++ r)))))) := by
      rw [hi]; simp only [List.append_assoc, List.cons_append]
      rw [dropSpaces_ws _ _ hw0]; exact dropSpaces_nonspace _ _ (by decide)
    have hfol : dropSpaces (w3 ++ 41 :: (w4 ++ (t ++ r))) = 41 :: (w4 ++ (t ++ r)) := by
      rw [dropSpaces_ws _ _ hw3]; exact dropSpaces_nonspace _ _ (by decide)
    obtain ⟨r1, h1, h2⟩ := ihe n' (by simp at hn; omega) (w3 ++ 41 :: (w4 ++ (t ++ r)))
      (by rw [hfol]; exact Or.inr ⟨_, rfl⟩)
    have hstep := path_filter (exprOr (n' + 1)) i _ _ _ r1 (w4 ++ (t ++ r)) e hi'
      (by rw [dropSpaces_ws _ _ hw1]; exact dropSpaces_nonspace _ _ (by decide))
      (dropSpaces_ws _ _ hw2) h1 (by rw [h2, hfol])
    rw [dropSpaces_ws _ _ hw4] at hstep
    have hlen : (dropSpaces (t ++ r)).length < i.length := by
      have h1 := dropSpaces_length i
      have h2 := dropSpaces_length (t ++ r)
      rw [hi'] at h1
      simp at h1 h2 ⊢
      omega
    have hne : ((dropSpaces (t ++ r)).length == i.length) = false := by simp; omega
    obtain ⟨r', h3, h4⟩ := iht ps rfl (n' + 1) (by simp at hn; omega) r hr (dropSpaces (t ++ r))
      (dropSpaces_idem _) m (.filterExpr e :: acc) (by omega)
    refine ⟨r', ?_, h4⟩
    simp only [many0Loop, hstep, hne, Bool.false_eq_true, if_false]
    rw [h3]
    simp

/-- A rendered predicate expression, with any white space around it, parses to `[Predicate(e)]`. -/
theorem parse_xpredicate (hLeaf : LeafSound Leaf) {e : Expr} {s : Bytes} (h : RX Leaf .orL true e s)
    (w0 w1 : Bytes) (hw0 : Ws w0) (hw1 : Ws w1) :
    parseJsonPath (w0 ++ (s ++ w1)) = .ok [.predicate e] := by
  unfold parseJsonPath
  generalize hN : (w0 ++ (s ++ w1)).length = N
  have hsN : s.length ≤ N := by rw [← hN]; simp; omega
  obtain ⟨r', h1, h2⟩ := h.sound hLeaf N hsN w1 (by rw [dropSpaces_ws_nil w1 hw1]; exact Or.inl rfl)
  rw [dropSpaces_ws_nil w1 hw1] at h2
  have hpred : predicate (N + 1) (dropSpaces (s ++ w1)) = .ok [.predicate e] [] := by
    unfold predicate
    apply map_ok (a := e)
    have := delimited_ws (exprOr (N + 1) true) (dropSpaces (s ++ w1)) _ r' e (dropSpaces_idem _) h1
    rw [h2] at this
    exact this
  have hpp : predicateOrPaths (N + 1) (dropSpaces (s ++ w1)) = .ok [.predicate e] [] := by
    unfold predicateOrPaths
    exact alt_ok hpred
  have := delimited_ws (predicateOrPaths (N + 1)) (w0 ++ (s ++ w1)) _ [] _ (dropSpaces_ws _ _ hw0) hpp
  unfold jsonPath
  rw [this]
  rfl

theorem RX.plain_prefix {k : Kind} {rp : Bool} {e : Expr} {s : Bytes} (h : RX Leaf k rp e s) :
    k = .steps → ∀ r, dropSpaces r = [] → ∀ i, dropSpaces i = dropSpaces (s ++ r) →
    ∀ m acc, i.length < m →
    ∃ xs r', many0Loop (delimited ws innerPath ws) m i acc = .ok (acc.reverse ++ xs) r' ∧
      HeadOk (fun c => c == 63) (dropSpaces r') := by
  induction h with
  | stepsNil =>
    intro _ r hr i hi m acc hm
    obtain ⟨m, rfl⟩ : ∃ k, m = k + 1 := ⟨m - 1, by omega⟩
    have hi0 : dropSpaces i = [] := by rw [hi]; exact hr
    have he := innerPathWs_error i (by rw [hi0]; exact HeadOk.nil)
    exact ⟨[], i, by simp [many0Loop, he], by rw [hi0]; exact HeadOk.nil⟩
  | stepsPlain p ps w s w' t hw hs hw' ht iht =>
    intro _ r hr i hi m acc hm
    obtain ⟨m, rfl⟩ : ∃ k, m = k + 1 := ⟨m - 1, by omega⟩
    have hrd : HeadOk isRawDelim r :=
      HeadOk.of_dropSpaces space_rawDelim (by rw [hr]; exact HeadOk.nil)
    have hi' : dropSpaces i = s ++ (w' ++ (t ++ r)) := by
      rw [hi]; simp only [List.append_assoc]
      rw [dropSpaces_ws _ _ hw, hs.ns]
    have hx : HeadOk isRawDelim (w' ++ (t ++ r)) :=
      HeadOk.ws_append space_rawDelim hw' (ht.steps_follow r hrd)
    have hstep := innerPathWs_xrender hs _ hx i hi'
    rw [dropSpaces_ws _ _ hw'] at hstep
    have hlen : (dropSpaces (t ++ r)).length < i.length := by
      have h1 := dropSpaces_length i
      have h2 := dropSpaces_length (t ++ r)
      rw [hi'] at h1
      obtain ⟨c, t', rfl, _⟩ := hs.head
      simp at h1 h2 ⊢
      omega
    have hne : ((dropSpaces (t ++ r)).length == i.length) = false := by simp; omega
    obtain ⟨xs, r', h1, h2⟩ := iht rfl r hr (dropSpaces (t ++ r)) (dropSpaces_idem _) m (p :: acc)
      (by omega)
    refine ⟨p :: xs, r', ?_, h2⟩
    simp only [many0Loop, hstep, hne, Bool.false_eq_true, if_false]
    rw [h1]
    simp
  | stepsFilter e ps w0 w1 w2 s w3 w4 t hw0 =>
    intro _ r hr i hi m acc hm
    obtain ⟨m, rfl⟩ : ∃ k, m = k + 1 := ⟨m - 1, by omega⟩
    have hi' : dropSpaces i = 63 :: (w1 ++ 40 :: (w2 ++ (s ++ (w3 ++ 41 :: (w4 ++ (t ++ r)))))) := by
      rw [hi]; simp only [List.append_assoc, List.cons_append]
      rw [dropSpaces_ws _ _ hw0]; exact dropSpaces_nonspace _ _ (by decide)
    have he := innerPathWs_error i (by rw [hi']; exact HeadOk.cons (by decide))
    exact ⟨[], i, by simp [many0Loop, he], by rw [hi']; exact HeadOk.cons (by decide)⟩
  | leaf => intro hk; cases hk
  | paren => intro hk; cases hk
  | exists_ => intro hk; cases hk
  | andTailNil => intro hk; cases hk
  | andTailCons => intro hk; cases hk
  | andL => intro hk; cases hk
  | orTailNil => intro hk; cases hk
  | orTailCons => intro hk; cases hk
  | orL => intro hk; cases hk

/-- the `predicate` alternative fails (recoverably) on `$` followed by rendered steps -/
theorem exprOrStep_xrooted_error (Rr : Bool → Parser Expr) {ps : List Path} {t : Bytes}
    (h : RX Leaf .steps false (.paths ps) t) (w1 : Bytes) (hw1 : Ws w1) :
    exprOrStep Rr true (36 :: (t ++ w1)) = .error := by
  obtain ⟨xs, r', h1, h2⟩ := h.plain_prefix rfl w1 (dropSpaces_ws_nil w1 hw1) (t ++ w1) rfl
    ((t ++ w1).length + 1) [] (by omega)
  have hm : many0 (delimited ws innerPath ws) (t ++ w1) = .ok xs r' := by
    unfold many0; rw [h1]; simp
  have hie : innerExpr true (36 :: (t ++ w1)) = .ok (.paths (.root :: xs)) r' := by
    unfold innerExpr
    exact alt_ok (map_ok (exprPaths_render (RHead.root true) _ _ _ hm))
  have hL := delimited_ws (innerExpr true) (36 :: (t ++ w1)) _ r' _
    (dropSpaces_nonspace _ _ (by decide)) hie
  obtain ⟨ho1, ho2⟩ := ops_error_filterHead _ h2
  have b1 : eaB1 true (36 :: (t ++ w1)) = .error := map_error (tuple3_error2 hL ho1)
  have b2 : eaB2 true (36 :: (t ++ w1)) = .error := map_error (tuple3_error2 hL ho2)
  have b3 : eaB3 true (36 :: (t ++ w1)) = .error := by
    unfold eaB3
    apply map_error
    simp [pair, unaryArithOp_error 36 _ (by decide) (by decide), PR.bind]
  have b4 := eaB4_error Rr true 36 (t ++ w1) (by decide)
  have b5 : eaB5 Rr (36 :: (t ++ w1)) = .error := by
    unfold eaB5
    apply map_error
    simp [existsFn, preceded, tag_miss 101 _ 36 (t ++ w1) (by decide), kwExists, PR.bind]
  have hatom : exprAtom Rr true (36 :: (t ++ w1)) = .error := by
    rw [exprAtom_eq, alt_error b1, alt_error b2, alt_error b3, alt_error b4]
    exact b5
  have hand : exprAnd Rr true (36 :: (t ++ w1)) = .error := by
    simp [exprAnd, separatedList1, hatom, PR.bind]
  simp [exprOrStep, separatedList1, hand, PR.bind]

/-- `$` followed by a rendered sequence of plain and filter steps, with any white space around,
parses to `Root :: steps`. -/
theorem parse_xrooted (hLeaf : LeafSound Leaf) {ps : List Path} {t : Bytes}
    (h : RX Leaf .steps false (.paths ps) t) (w0 w1 : Bytes)
    (hw0 : Ws w0) (hw1 : Ws w1) : parseJsonPath (w0 ++ 36 :: (t ++ w1)) = .ok (.root :: ps) := by
  unfold parseJsonPath
  generalize hN : (w0 ++ 36 :: (t ++ w1)).length = N
  have htN : t.length ≤ N + 1 := by rw [← hN]; simp; omega
  have hpred : predicate (N + 1) (36 :: (t ++ w1)) = .error := by
    unfold predicate
    apply map_error
    exact delimited_ws_error _ _ _ (dropSpaces_nonspace _ _ (by decide))
      (exprOrStep_xrooted_error (exprOr N) h w1 hw1)
  obtain ⟨r', h1, h2⟩ := h.sound hLeaf ps rfl (N + 1) htN w1
    (by rw [dropSpaces_ws_nil w1 hw1]; exact HeadOk.nil) (t ++ w1) rfl ((t ++ w1).length + 1) []
    (by omega)
  rw [dropSpaces_ws_nil w1 hw1] at h2
  have hm : many0 (path (exprOr (N + 1))) (t ++ w1) = .ok ps r' := by
    unfold many0; rw [h1]; simp
  have hpaths : paths (N + 1) (36 :: (t ++ w1)) = .ok (.root :: ps) r' := by
    simp [paths, map, pair, opt, prePath, alt, value, char, hm, PR.bind]
  have hpp : predicateOrPaths (N + 1) (36 :: (t ++ w1)) = .ok (.root :: ps) r' := by
    unfold predicateOrPaths
    rw [alt_error hpred]
    exact hpaths
  have := delimited_ws (predicateOrPaths (N + 1)) (w0 ++ 36 :: (t ++ w1)) _ r' _
    (by rw [dropSpaces_ws _ _ hw0]; exact dropSpaces_nonspace _ _ (by decide)) hpp
  unfold jsonPath
  rw [this, h2]
  rfl


/-! ## 4. comparisons as leaf atoms; JSONPath theorems -/

/-- a comparison `l op r` of two operands, any white space before it and around the operator -/
inductive XCmp : Bool → Expr → Bytes → Prop
  | mk (rp : Bool) (o : BinOp) (l r : Expr) (w0 sl so w1 sr : Bytes) : Ws w0 → XOperand rp l sl →
      ROp o so → Ws w1 → XOperand rp r sr →
      XCmp rp (.binaryOp o l r) (w0 ++ (sl ++ (so ++ (w1 ++ sr))))

theorem XCmp.sound : LeafSound XCmp := by
  intro rp e s h Rr rest hrest
  cases h with
  | mk o l r w0 sl so w1 sr hw0 hl ho hw1 hr =>
    refine ⟨dropSpaces rest, ?_, dropSpaces_idem _⟩
    apply cmp_xrender _ w1 hl ho hw1 hr rest hrest.opFollow
    rw [dropSpaces_idem]
    simp only [List.append_assoc]
    rw [dropSpaces_ws _ _ hw0]

/-- the rendering relation of this file: `PathRT2.R` with escaped spellings in every quoted name
and string literal -/
abbrev RE := RX XCmp

/-- every rendering of the existing relation is a rendering here -/
theorem RE.of_r {k : Kind} {rp : Bool} {e : Expr} {s : Bytes} (h : R k rp e s) : RE k rp e s := by
  induction h with
  | cmp rp o l r w0 sl so w1 sr hw0 hl ho hw1 hr =>
    exact .leaf _ _ _ (.mk rp o l r w0 sl so w1 sr hw0 (.of_r hl) ho hw1 (.of_r hr))
  | paren rp e w1 s w2 hw1 _ hw2 ih => exact .paren rp e w1 s w2 hw1 ih hw2
  | exists_ rp hd ps c w1 w2 t w3 hw1 hw2 hh _ hw3 ih => exact .exists_ rp hd ps c w1 w2 t w3 hw1 hw2 hh ih hw3
  | andTailNil rp acc => exact .andTailNil rp acc
  | andTailCons rp acc x e w1 w2 s t hw1 hw2 _ _ ihx iht => exact .andTailCons rp acc x e w1 w2 s t hw1 hw2 ihx iht
  | andL rp a e s t _ _ ihs iht => exact .andL rp a e s t ihs iht
  | orTailNil rp acc => exact .orTailNil rp acc
  | orTailCons rp acc x e w1 w2 s t hw1 hw2 _ _ ihx iht => exact .orTailCons rp acc x e w1 w2 s t hw1 hw2 ihx iht
  | orL rp a e s t _ _ ihs iht => exact .orL rp a e s t ihs iht
  | stepsNil => exact .stepsNil
  | stepsPlain p ps w s w' t hw hs hw' _ ih => exact .stepsPlain p ps w s w' t hw (.plain p s hs) hw' ih
  | stepsFilter e ps w0 w1 w2 s w3 w4 t hw0 hw1 hw2 _ hw3 hw4 _ ihe iht =>
    exact .stepsFilter e ps w0 w1 w2 s w3 w4 t hw0 hw1 hw2 ihe hw3 hw4 iht

end PathEsc

open PathEsc PathRT2 in
/-- **Every rendering, rooted paths, escaped spellings allowed.**  `PathEsc.RE .steps false
(.paths ps) t`: `t` renders the steps `ps` (plain steps and filter steps, arbitrary white space
where the grammar has `multispace0`), where every quoted name (`."…"`, `:"…"`, `["…"]`) and every
string literal inside a filter is ANY escaped spelling (`PathEsc.Spelled`) of its value; then
`ws $ t ws` parses to `Root :: ps`. -/
theorem parseJsonPath_rendering_rooted_esc {ps : List Path} {t : Bytes}
    (h : RE .steps false (.paths ps) t) (w0 w1 : Bytes) (hw0 : Ws w0) (hw1 : Ws w1) :
    parseJsonPath (w0 ++ 36 :: (t ++ w1)) = .ok (.root :: ps) :=
  parse_xrooted XCmp.sound h w0 w1 hw0 hw1

open PathEsc PathRT2 in
/-- **Every rendering, top-level predicates, escaped spellings allowed.** -/
theorem parseJsonPath_rendering_predicate_esc {e : Expr} {s : Bytes} (h : RE .orL true e s)
    (w0 w1 : Bytes) (hw0 : Ws w0) (hw1 : Ws w1) :
    parseJsonPath (w0 ++ (s ++ w1)) = .ok [.predicate e] :=
  parse_xpredicate XCmp.sound h w0 w1 hw0 hw1

namespace PathEsc

/-! ## 5. key paths -/

/-- one key path element: a decimal `i32`; a quoted name in any escaped spelling; an unquoted
`goodName` -/
inductive XKey : KeyPath → Bytes → Prop
  | index (i : Int) : inI32 i → XKey (.index i) (intBytes i)
  | quoted (s q : Bytes) : XQuoted s q → XKey (.quoted s) q
  | name (s : Bytes) : goodName s = true → XKey (.name s) s

theorem XKey.of_r {k : KeyPath} {s : Bytes} (h : RKey k s) : XKey k s := by
  cases h with
  | index i hi => exact .index i hi
  | quoted s' _ hq => exact .quoted s' _ (.of_rquoted hq)
  | name s hs => exact .name s hs

theorem XKey.head {k : KeyPath} {s : Bytes} (h : XKey k s) :
    ∃ c t, s = c :: t ∧ isSpace c = false := by
  cases h with
  | index i hi => exact (RKey.index i hi).head
  | quoted s q hq =>
    obtain ⟨t, rfl⟩ := hq.head
    exact ⟨34, t, rfl, by decide⟩
  | name s hs => exact (RKey.name s hs).head

/-- `key_path` reads back every element -/
theorem keyPath_xrender {k : KeyPath} {s : Bytes} (h : XKey k s) (r : Bytes) (hr : HeadOk kpFollow r) :
    keyPath (s ++ r) = .ok k r := by
  cases h with
  | index i hi => exact keyPath_render (.index i hi) r hr
  | name s hs => exact keyPath_render (.name s hs) r hr
  | quoted s q hq =>
    unfold keyPath
    obtain ⟨t, rfl⟩ := hq.head
    have h1 : i32 (34 :: (t ++ r)) = .error := i32_nondigit _ _ (by decide) (by decide) (by decide)
    have h2 : string (34 :: (t ++ r)) = .ok s r := string_xquoted hq r
    show alt _ _ (34 :: (t ++ r)) = _
    rw [alt_error (map_error h1)]
    exact alt_ok (map_ok h2)

theorem keyPathWs_xrender {k : KeyPath} {s w w' : Bytes} (hk : XKey k s) (hw : Ws w) (hw' : Ws w')
    (c : UInt8) (t : Bytes) (hc : c = 44 ∨ c = 125) :
    delimited ws keyPath ws (w ++ (s ++ (w' ++ c :: t))) = .ok k (c :: t) := by
  obtain ⟨b, t', hs, hb⟩ := hk.head
  have h1 : dropSpaces (w ++ (s ++ (w' ++ c :: t))) = s ++ (w' ++ c :: t) := by
    rw [dropSpaces_ws _ _ hw, hs]; exact dropSpaces_nonspace _ _ hb
  have hfol : HeadOk kpFollow (w' ++ c :: t) := by
    cases w' with
    | nil => exact HeadOk.cons (by rcases hc with rfl | rfl <;> decide)
    | cons x w'' => exact HeadOk.cons (by simp [kpFollow, hw'.cons.1])
  have h2 := keyPath_xrender hk (w' ++ c :: t) hfol
  have h3 : dropSpaces (w' ++ c :: t) = c :: t := by
    rw [dropSpaces_ws _ _ hw', dropSpaces_nonspace c t (by rcases hc with rfl | rfl <;> decide)]
  simp [delimited, ws_eq, h1, h2, h3, PR.bind]

/-- the body of `{ … }`: elements with any white space around them, separated by commas -/
inductive XKeyList : List KeyPath → Bytes → Prop
  | one (k : KeyPath) (w s w' : Bytes) : Ws w → XKey k s → Ws w' → XKeyList [k] (w ++ (s ++ w'))
  | cons (k : KeyPath) (ks : List KeyPath) (w s w' t : Bytes) : Ws w → XKey k s → Ws w' →
      XKeyList ks t → XKeyList (k :: ks) (w ++ (s ++ (w' ++ 44 :: t)))

theorem XKeyList.of_r {ks : List KeyPath} {t : Bytes} (h : RKeyList ks t) : XKeyList ks t := by
  induction h with
  | one k w s w' hw hk hw' => exact .one k w s w' hw (.of_r hk) hw'
  | cons k ks w s w' t hw hk hw' _ ih => exact .cons k ks w s w' t hw (.of_r hk) hw' ih

theorem xkeyList_loop {ks : List KeyPath} {t : Bytes} (h : XKeyList ks t) (r : Bytes) :
    ∀ (n : Nat) (acc : List KeyPath), t.length < n →
    sepList1Loop (char 44) (delimited ws keyPath ws) n (44 :: (t ++ 125 :: r)) acc =
      .ok (acc.reverse ++ ks) (125 :: r) := by
  induction h with
  | one k w s w' hw hk hw' =>
    intro n acc hn
    obtain ⟨c, t', hs, _⟩ := hk.head
    have hl : 0 < s.length := by rw [hs]; simp
    obtain ⟨n, rfl⟩ : ∃ m, n = m + 1 := ⟨n - 1, by omega⟩
    obtain ⟨n, rfl⟩ : ∃ m, n = m + 1 := ⟨n - 1, by simp at hn; omega⟩
    have hstep := keyPathWs_xrender hk hw hw' 125 r (Or.inr rfl)
    simp only [List.append_assoc]
    simp only [sepList1Loop, char, beq_self_eq_true, if_true]
    rw [if_neg (by simp)]
    rw [hstep]
    simp
  | cons k ks w s w' t hw hk hw' ht ih =>
    intro n acc hn
    obtain ⟨n, rfl⟩ : ∃ m, n = m + 1 := ⟨n - 1, by omega⟩
    have hstep := keyPathWs_xrender hk hw hw' 44 (t ++ 125 :: r) (Or.inl rfl)
    simp only [List.append_assoc, List.cons_append]
    simp only [sepList1Loop, char, beq_self_eq_true, if_true]
    rw [if_neg (by simp)]
    rw [hstep]
    simp only []
    rw [ih n (k :: acc) (by simp at hn; omega)]
    simp

theorem xkeyList_sep {ks : List KeyPath} {t : Bytes} (h : XKeyList ks t) (r : Bytes) :
    separatedList1 (char 44) (delimited ws keyPath ws) (t ++ 125 :: r) = .ok ks (125 :: r) := by
  cases h with
  | one k w s w' hw hk hw' =>
    have hstep := keyPathWs_xrender hk hw hw' 125 r (Or.inr rfl)
    simp only [List.append_assoc]
    unfold separatedList1
    rw [hstep]
    simp [PR.bind, sepList1Loop, char]
  | cons k ks w s w' t hw hk hw' ht =>
    have hstep := keyPathWs_xrender hk hw hw' 44 (t ++ 125 :: r) (Or.inl rfl)
    simp only [List.append_assoc, List.cons_append]
    unfold separatedList1
    rw [hstep]
    simp only [PR.bind]
    rw [xkeyList_loop ht r _ [k] (by simp; omega)]
    simp

end PathEsc

open PathEsc PathRT2 Nom PathParser in
/-- **Key paths, every rendering, escaped spellings allowed.**  `ws { ws e1 ws , … , ws en ws } ws`
(n ≥ 1) with elements a decimal `i32`, a quoted name in ANY escaped spelling (`PathEsc.Spelled`),
or an unquoted `goodName` parses to `[e1, …, en]`. -/
theorem parseKeyPaths_rendering_esc {ks : List KeyPath} {t : Bytes} (h : XKeyList ks t)
    (w0 w1 : Bytes) (hw0 : Ws w0) (hw1 : Ws w1) :
    parseKeyPaths (w0 ++ 123 :: (t ++ 125 :: w1)) = .ok ks := by
  have h0 : dropSpaces (w0 ++ 123 :: (t ++ 125 :: w1)) = 123 :: (t ++ 125 :: w1) := by
    rw [dropSpaces_ws _ _ hw0]; exact PathRT.dropSpaces_nonspace _ _ (by decide)
  have h1 := xkeyList_sep h w1
  have h2 := dropSpaces_ws_nil w1 hw1
  unfold parseKeyPaths keyPaths
  simp [alt, delimited, preceded, terminated, PathRT.ws_eq, h0, char, h1, h2, PR.bind, finish]


/-! ## 6. unpaired surrogates: what the parser actually does (not part of `Spelled`) -/
namespace PathEsc

theorem hexDigit_ascii : ∀ b : UInt8, hexVal b ≠ none → PathStr.utf8Encode b.toNat = [b] := by
  bytes_decide

theorem hex4_digits {h1 h2 h3 h4 : UInt8} {n : Nat} (h : hex4 h1 h2 h3 h4 = some n) :
    PathStr.encodeInvalidUnicode [h1, h2, h3, h4] = [92, 117, h1, h2, h3, h4] := by
  unfold hex4 at h
  have e1 : hexVal h1 ≠ none := by intro e; simp [e] at h
  have e2 : hexVal h2 ≠ none := by intro e; cases hexVal h1 <;> simp [e] at h
  have e3 : hexVal h3 ≠ none := by intro e; cases hexVal h1 <;> cases hexVal h2 <;> simp [e] at h
  have e4 : hexVal h4 ≠ none := by
    intro e; cases hexVal h1 <;> cases hexVal h2 <;> cases hexVal h3 <;> simp [e] at h
  simp [PathStr.encodeInvalidUnicode, hexDigit_ascii _ e1, hexDigit_ascii _ e2, hexDigit_ascii _ e3,
    hexDigit_ascii _ e4]

/-- `UEsc.read` with the digits exposed: `ds` are the four hex digits of the spelling -/
theorem UEsc.read' {n : Nat} {u : Bytes} (h : UEsc n u) :
    ∃ ds, (u = ds ∨ u = 123 :: (ds ++ [125])) ∧ PathStr.decodeHexEscape ds = .ok n ∧
      PathStr.encodeInvalidUnicode ds = 92 :: 117 :: ds ∧
      ∀ rest, PathStr.readUnicode (u ++ rest) = .ok (ds, rest) := by
  cases h with
  | bare h1 h2 h3 h4 _ h =>
    obtain ⟨hd, _, hb⟩ := hex4_spec h
    refine ⟨[h1, h2, h3, h4], Or.inl rfl, hd, hex4_digits h, fun rest => ?_⟩
    have : (h1 == 123) = false := by simpa using hb
    simp [PathStr.readUnicode, this, PathStr.readExact4]
  | braced h1 h2 h3 h4 _ h =>
    obtain ⟨hd, _, _⟩ := hex4_spec h
    refine ⟨[h1, h2, h3, h4], Or.inr rfl, hd, hex4_digits h, fun rest => ?_⟩
    simp [PathStr.readUnicode, PathStr.readExact4]

/-- **A lone LOW surrogate** (`\uDC00`..`\uDFFF`, either spelling) is not decoded: the parser
keeps the six bytes `\uXXXX` as literal text (a bracketed spelling loses its braces). -/
theorem lone_low_literal {n : Nat} {u : Bytes} (hu : UEsc n u) (hn : 0xDC00 ≤ n ∧ n ≤ 0xDFFF)
    (q : Bytes) : ∃ ds, (u = ds ∨ u = 123 :: (ds ++ [125])) ∧
      PathStr.parseEscaped (117 :: (u ++ q)) = .ok (92 :: 117 :: ds, q) := by
  obtain ⟨ds, hds, hdec, henc, hread⟩ := hu.read'
  refine ⟨ds, hds, ?_⟩
  have hpu : PathStr.parseEscapedU (u ++ q) = .ok (92 :: 117 :: ds, q) := by
    unfold PathStr.parseEscapedU
    rw [hread, bind_ok']
    simp only [hdec, bind_ok']
    rw [if_pos hn, henc]
  simp [PathStr.parseEscaped, hpu]

/-- **A HIGH surrogate that is not followed by `\u`** is kept as the literal text `\uXXXX`. -/
theorem lone_high_literal {n : Nat} {u : Bytes} (hu : UEsc n u) (hn : 0xD800 ≤ n ∧ n ≤ 0xDBFF)
    (q : Bytes) (hq : ∀ t, q ≠ 92 :: 117 :: t) : ∃ ds, (u = ds ∨ u = 123 :: (ds ++ [125])) ∧
      PathStr.parseEscaped (117 :: (u ++ q)) = .ok (92 :: 117 :: ds, q) := by
  obtain ⟨ds, hds, hdec, henc, hread⟩ := hu.read'
  refine ⟨ds, hds, ?_⟩
  have hlow : PathStr.parseLowSurrogate ds n q = .ok (92 :: 117 :: ds, q) := by
    unfold PathStr.parseLowSurrogate
    split
    · rw [henc]
    · split
      · rename_i d2 _; exact absurd rfl (hq d2)
      · rw [henc]
  have hpu : PathStr.parseEscapedU (u ++ q) = .ok (92 :: 117 :: ds, q) := by
    unfold PathStr.parseEscapedU
    rw [hread, bind_ok']
    simp only [hdec, bind_ok']
    rw [if_neg (by omega), if_pos hn, hlow]
  simp [PathStr.parseEscaped, hpu]

/-- **A HIGH surrogate followed by a `\u` escape that is not a low surrogate**: BOTH escapes are
kept as literal text (the second one is not decoded either, whatever its value). -/
theorem high_then_other_literal {n m : Nat} {u1 u2 : Bytes} (hu1 : UEsc n u1) (hu2 : UEsc m u2)
    (hn : 0xD800 ≤ n ∧ n ≤ 0xDBFF) (hm : ¬ (0xDC00 ≤ m ∧ m ≤ 0xDFFF)) (q : Bytes) :
    ∃ ds1 ds2, (u1 = ds1 ∨ u1 = 123 :: (ds1 ++ [125])) ∧ (u2 = ds2 ∨ u2 = 123 :: (ds2 ++ [125])) ∧
      PathStr.parseEscaped (117 :: (u1 ++ 92 :: 117 :: (u2 ++ q)))
        = .ok (92 :: 117 :: ds1 ++ 92 :: 117 :: ds2, q) := by
  obtain ⟨ds1, hds1, hdec1, henc1, hread1⟩ := hu1.read'
  obtain ⟨ds2, hds2, hdec2, henc2, hread2⟩ := hu2.read'
  refine ⟨ds1, ds2, hds1, hds2, ?_⟩
  have hlow : PathStr.parseLowSurrogate ds1 n (92 :: 117 :: (u2 ++ q))
      = .ok (92 :: 117 :: ds1 ++ 92 :: 117 :: ds2, q) := by
    unfold PathStr.parseLowSurrogate
    have hl : ¬ (92 :: 117 :: (u2 ++ q)).length < 2 := by simp
    rw [if_neg hl]
    simp only [hread2, bind_ok', hdec2]
    rw [if_pos hm, henc1, henc2]
  have hpu : PathStr.parseEscapedU (u1 ++ 92 :: 117 :: (u2 ++ q))
      = .ok (92 :: 117 :: ds1 ++ 92 :: 117 :: ds2, q) := by
    unfold PathStr.parseEscapedU
    rw [hread1, bind_ok']
    simp only [hdec1, bind_ok']
    rw [if_neg (by omega), if_pos hn, hlow]
  simp [PathStr.parseEscaped, hpu]

end PathEsc

/-! ## 7. property-shaped statements (same form as `C09_every_rendering_*`, `C16_every_rendering`) -/
namespace Props
open PathEsc PathRT2

/-- **C09, every rendering of a rooted path, with escapes.**  As `C09_every_rendering_rooted`, and
every quoted member name (`."…"`, `:"…"`, `["…"]`) and every string literal of a filter may be ANY
escaped spelling of its value: plain bytes, the eight two-byte escapes, `\uXXXX`, `\u{XXXX}`, and
surrogate pairs (high + low, each in either spelling) for astral characters. -/
theorem C09_every_rendering_rooted_esc {ps : List Path} {t : Bytes}
    (h : RE .steps false (.paths ps) t) (w0 w1 : Bytes) (hw0 : Ws w0) (hw1 : Ws w1) :
    parseJsonPath (w0 ++ 36 :: (t ++ w1)) = .ok (.root :: ps) :=
  parseJsonPath_rendering_rooted_esc h w0 w1 hw0 hw1

/-- **C09, every rendering of a top-level predicate, with escapes.** -/
theorem C09_every_rendering_predicate_esc {e : Expr} {s : Bytes} (h : RE .orL true e s)
    (w0 w1 : Bytes) (hw0 : Ws w0) (hw1 : Ws w1) :
    parseJsonPath (w0 ++ (s ++ w1)) = .ok [.predicate e] :=
  parseJsonPath_rendering_predicate_esc h w0 w1 hw0 hw1

/-- the new relation contains the old one: the two theorems above imply
`C09_every_rendering_rooted` / `C09_every_rendering_predicate` -/
theorem C09_esc_contains_plain {k : Kind} {rp : Bool} {e : Expr} {s : Bytes} (h : R k rp e s) :
    RE k rp e s := RE.of_r h

/-- **C16, every brace-delimited list with any spacing, with escapes.**  As `C16_every_rendering`,
and a quoted name may be ANY escaped spelling of its value. -/
theorem C16_every_rendering_esc {ks : List KeyPath} {t : Bytes} (h : XKeyList ks t) (w0 w1 : Bytes)
    (hw0 : Ws w0) (hw1 : Ws w1) : parseKeyPaths (w0 ++ 123 :: (t ++ 125 :: w1)) = .ok ks :=
  parseKeyPaths_rendering_esc h w0 w1 hw0 hw1

theorem C16_esc_contains_plain {ks : List KeyPath} {t : Bytes} (h : RKeyList ks t) : XKeyList ks t :=
  XKeyList.of_r h

/-- the scanner + `parse_string` model returns exactly `s` on every quoted escaped spelling of `s` -/
theorem C09_C16_string_decodes {s q : Bytes} (h : XQuoted s q) (r : Bytes) :
    PathParser.string (q ++ r) = .ok s r := string_xquoted h r

end Props

/-! ## examples (kernel-checked) -/
namespace PathEsc.Examples
open PathRT2

/-- `$."caf\u{00e9}"` is the member name `café` -/
example : parseJsonPath [36, 46, 34, 99, 97, 102, 92, 117, 123, 48, 48, 101, 57, 125, 34]
    = .ok [.root, .dotField [99, 97, 102, 0xC3, 0xA9]] := by rfl

/-- the same text through the theorem -/
example : parseJsonPath [36, 46, 34, 99, 97, 102, 92, 117, 123, 48, 48, 101, 57, 125, 34]
    = .ok [.root, .dotField [99, 97, 102, 0xC3, 0xA9]] := by
  have hq : XQuoted [99, 97, 102, 0xC3, 0xA9] (34 :: ([99, 97, 102, 92, 117, 123, 48, 48, 101, 57, 125] ++ [34])) :=
    .mk _ _ (.plain 99 _ _ (by decide) (by decide) (.plain 97 _ _ (by decide) (by decide)
      (.plain 102 _ _ (by decide) (by decide)
        (.uni 233 [123, 48, 48, 101, 57, 125] [] [] (.braced 48 48 101 57 233 (by decide +kernel))
          (by decide) .nil)))) (by decide +kernel)
  have hs : RE .steps false (.paths _) _ :=
    .stepsPlain _ _ [] _ [] _ Ws.nil (.dotField _ _ hq) Ws.nil .stepsNil
  have := parseJsonPath_rendering_rooted_esc hs [] [] Ws.nil Ws.nil
  refine Eq.trans (congrArg parseJsonPath ?_) this
  decide +kernel

/-- `{"😀",a}`: the surrogate pair is the astral character U+1F600 (UTF-8 `F0 9F 98 80`) -/
example : parseKeyPaths [123, 34, 92, 117, 100, 56, 51, 100, 92, 117, 100, 101, 48, 48, 34, 44, 97, 125]
    = .ok [.quoted [0xF0, 0x9F, 0x98, 0x80], .name [97]] := by decide +kernel

example : pairCode 0xD83D 0xDE00 = 0x1F600 := by decide

/-- the same text through the theorem -/
example : parseKeyPaths [123, 34, 92, 117, 100, 56, 51, 100, 92, 117, 100, 101, 48, 48, 34, 44, 97, 125]
    = .ok [.quoted [0xF0, 0x9F, 0x98, 0x80], .name [97]] := by
  have hq : XQuoted [0xF0, 0x9F, 0x98, 0x80]
      (34 :: ([92, 117, 100, 56, 51, 100, 92, 117, 100, 101, 48, 48] ++ [34])) :=
    .mk _ _ (.pair 0xD83D 0xDE00 [100, 56, 51, 100] [100, 101, 48, 48] [] []
      (.bare 100 56 51 100 _ (by decide +kernel)) (.bare 100 101 48 48 _ (by decide +kernel))
      (by decide) (by decide) .nil) (by decide +kernel)
  have l : XKeyList _ _ :=
    .cons _ _ [] _ [] _ (by decide) (.quoted _ _ hq) (by decide)
      (.one _ [] _ [] (by decide) (.name [97] (by decide)) (by decide))
  have := parseKeyPaths_rendering_esc l [] [] (by decide) (by decide)
  refine Eq.trans (congrArg parseKeyPaths ?_) this
  decide +kernel

/-- mixed spellings of a pair, bracketed high + plain low, inside a filter string literal:
`$?(@.a == "\u{D83D}\uDE00\n")` -/
example : parseJsonPath [36, 63, 40, 64, 46, 97, 32, 61, 61, 32, 34, 92, 117, 123, 68, 56, 51, 68, 125,
      92, 117, 68, 69, 48, 48, 92, 110, 34, 41]
    = .ok [.root, .filterExpr (.binaryOp .eq (.paths [.current, .dotField [97]])
        (.value (.str [0xF0, 0x9F, 0x98, 0x80, 10])))] := by rfl

/-- unpaired surrogates stay literal text: `{"\udc00"}` is the 6-byte name `\udc00`;
`{"\ud83dx"}` is `\ud83dx`; `{"\ud83dA"}` is `\ud83dA` (the `A` is not decoded) -/
example : parseKeyPaths [123, 34, 92, 117, 100, 99, 48, 48, 34, 125]
    = .ok [.quoted [92, 117, 100, 99, 48, 48]] := by decide +kernel
example : parseKeyPaths [123, 34, 92, 117, 100, 56, 51, 100, 120, 34, 125]
    = .ok [.quoted [92, 117, 100, 56, 51, 100, 120]] := by decide +kernel
example : parseKeyPaths [123, 34, 92, 117, 100, 56, 51, 100, 92, 117, 48, 48, 52, 49, 34, 125]
    = .ok [.quoted [92, 117, 100, 56, 51, 100, 92, 117, 48, 48, 52, 49]] := by decide +kernel

end PathEsc.Examples
end Jsonb

#print axioms Jsonb.PathEsc.parseString_spelled
#print axioms Jsonb.PathEsc.string_xquoted
#print axioms Jsonb.PathEsc.RX.sound
#print axioms Jsonb.PathEsc.parse_xrooted
#print axioms Jsonb.PathEsc.parse_xpredicate
#print axioms Jsonb.PathEsc.XCmp.sound
#print axioms Jsonb.PathEsc.RE.of_r
#print axioms Jsonb.parseJsonPath_rendering_rooted_esc
#print axioms Jsonb.parseJsonPath_rendering_predicate_esc
#print axioms Jsonb.parseKeyPaths_rendering_esc
#print axioms Jsonb.PathEsc.lone_low_literal
#print axioms Jsonb.PathEsc.lone_high_literal
#print axioms Jsonb.PathEsc.high_then_other_literal
#print axioms Jsonb.Props.C09_every_rendering_rooted_esc
#print axioms Jsonb.Props.C09_every_rendering_predicate_esc
#print axioms Jsonb.Props.C16_every_rendering_esc
#print axioms Jsonb.Props.C09_C16_string_decodes
