/-
Agreement theorems, phase 5a, part 8: `exists_jsonb_key`, `exists_all_keys`, `exists_any_keys`.  The source walks the
keys / elements lazily (`break` at the first match), the model of Functions/Access.lean collects them first: the
translation EQUALS the lazy walk for every input and equals the model wherever the model answers; the remaining case
(the model panics, the source has answered `true`) is stated and witnessed.
-/
import JsonbModel.Proofs.TranslatedAgreeE7

set_option linter.unusedSimpArgs false
set_option linter.unusedVariables false

namespace Jsonb.TrAgree
open Jsonb.Rs

/-! ## exists_jsonb_key

The source walks the keys (the elements) with the crate's iterators and `break`s at the first match; the model
(`Fn.existsJsonbKey`) collects `iterObjKeys` / `iterArray` first.  On a container whose LATER key / element slices are
out of range the model panics where the source has already answered `true`.  The translation is proved EQUAL to the
lazy walk (`existsKeyLazy`), and equal to the model wherever the model does not panic. -/

/-- the keys of an object, up to the first one equal to `key` -/
def keysAnyLazy (value key : Bytes) : Nat → Nat → Nat → Res Bool
  | 0, _, _ => .ok false
  | n+1, jo, ko =>
    match readU32At value jo with
    | none => .ok false
    | some w =>
      match Jsonb.slice value ko (ko + jeLen w) with
      | .ok k => if k = key then .ok true else keysAnyLazy value key n (jo + 4) (ko + jeLen w)
      | .err e => .err e
      | .panic s => .panic s
      | .fuel => .fuel

/-- the elements of an array, up to the first string equal to `key` -/
def itemsAnyLazy (value key : Bytes) : Nat → Nat → Nat → Res Bool
  | 0, _, _ => .ok false
  | n+1, jo, vo =>
    match readU32At value jo with
    | none => .ok false
    | some w =>
      match Jsonb.slice value vo (vo + jeLen w) with
      | .ok item =>
        if jeType w = C.STRING_TAG ∧ item = key then .ok true else itemsAnyLazy value key n (jo + 4) (vo + jeLen w)
      | .err e => .err e
      | .panic s => .panic s
      | .fuel => .fuel

def existsKeyLazy (value : Bytes) (header : Nat) (key : Bytes) : Res Bool :=
  if hdrType header = C.OBJECT_CONTAINER_TAG then keysAnyLazy value key (hdrLen header) 4 (8 * hdrLen header + 4)
  else if hdrType header = C.ARRAY_CONTAINER_TAG then itemsAnyLazy value key (hdrLen header) 4 (4 * hdrLen header + 4)
  else .ok false

theorem ejk_loop1 (key k : Bytes) (m : Bool) :
    Tr.exists_jsonb_key.loop1 key k m = if k = key then Ctl.val (.done true) else Ctl.val (.next m) := by
  unfold Tr.exists_jsonb_key.loop1
  by_cases h : k = key
  · subst h; simp [Rs.loopStep]
  · have h' : ¬ (key = k) := fun e => h e.symm
    simp [h, h', Rs.loopStep]

theorem ejk_loop2 (key : Bytes) (ty len : Nat) (item : Bytes) (m : Bool) :
    Tr.exists_jsonb_key.loop2 key (⟨(ty : Nat), (len : Nat)⟩, item) m =
      if ty = C.STRING_TAG ∧ item = key then Ctl.val (.done true) else Ctl.val (.next m) := by
  unfold Tr.exists_jsonb_key.loop2
  by_cases h : ty = C.STRING_TAG
  · have h' : ((ty : Nat) : Int) = (C.STRING_TAG : Int) := by omega
    by_cases hk : item = key
    · subst hk; simp [h, h', Rs.loopStep]
    · have hk' : ¬ (key = item) := fun e => hk e.symm
      simp [h, h', hk, hk', Rs.loopStep]
  · have h' : ¬ (((ty : Nat) : Int) = (C.STRING_TAG : Int)) := by omega
    simp [h, h', Rs.loopStep]

theorem ejk_obj_run (value key : Bytes) (length : Nat) : ∀ (n jo ko idx fuel : Nat), idx + n = length → n < fuel →
    jo + n * 4 + 4 < 18446744073709551616 → ko + n * 268435456 + 268435456 < 18446744073709551616 →
    length + 1 < 18446744073709551616 →
    Rs.forIter fuel Tr.ObjectKeyIterator.next (keyIt value jo ko length idx) false (Tr.exists_jsonb_key.loop1 key) =
      (match keysAnyLazy value key n jo ko with
       | .ok b => Ctl.val b
       | .err e => (Ctl.ret (.err e) : Ctl Bool Bool)
       | .panic s => Ctl.ret (.panic s)
       | .fuel => Ctl.ret .fuel) := by
  intro n
  induction n with
  | zero =>
    intro jo ko idx fuel hi hf hjo hko hl
    obtain ⟨f, rfl⟩ : ∃ f, fuel = f + 1 := ⟨fuel - 1, by omega⟩
    rw [Rs.forIter, object_key_iterator_next_agrees value jo ko length idx (by omega) (by omega) (by omega)]
    simp [show idx ≥ length by omega, keysAnyLazy]
  | succ n ih =>
    intro jo ko idx fuel hi hf hjo hko hl
    obtain ⟨f, rfl⟩ : ∃ f, fuel = f + 1 := ⟨fuel - 1, by omega⟩
    rw [Rs.forIter, object_key_iterator_next_agrees value jo ko length idx (by omega) (by omega) (by omega), keysAnyLazy]
    simp only [show ¬ (idx ≥ length) by omega, if_false]
    cases hr : readU32At value jo with
    | none => rfl
    | some w =>
      have hw := jeLen_lt w
      simp only []
      cases hs : Jsonb.slice value ko (ko + jeLen w) with
      | ok k =>
        simp only [ejk_loop1]
        by_cases hk : k = key
        · simp [hk]
        · simp only [hk, if_false]
          exact ih (jo + 4) (ko + jeLen w) (idx + 1) f (by omega) (by omega) (by omega) (by omega) hl
      | err e => rfl
      | panic e => rfl
      | fuel => rfl

theorem ejk_arr_run (value key : Bytes) (length : Nat) : ∀ (n jo vo idx fuel : Nat), idx + n = length → n < fuel →
    jo + n * 4 + 4 < 18446744073709551616 → vo + n * 268435456 + 268435456 < 18446744073709551616 →
    length + 1 < 18446744073709551616 →
    Rs.forIter fuel Tr.ArrayIterator.next (arrIt value jo vo length idx) false (Tr.exists_jsonb_key.loop2 key) =
      (match itemsAnyLazy value key n jo vo with
       | .ok b => Ctl.val b
       | .err e => (Ctl.ret (.err e) : Ctl Bool Bool)
       | .panic s => Ctl.ret (.panic s)
       | .fuel => Ctl.ret .fuel) := by
  intro n
  induction n with
  | zero =>
    intro jo vo idx fuel hi hf hjo hvo hl
    obtain ⟨f, rfl⟩ : ∃ f, fuel = f + 1 := ⟨fuel - 1, by omega⟩
    rw [Rs.forIter, array_iterator_next_agrees value jo vo length idx (by omega) (by omega) (by omega)]
    simp [show idx ≥ length by omega, itemsAnyLazy]
  | succ n ih =>
    intro jo vo idx fuel hi hf hjo hvo hl
    obtain ⟨f, rfl⟩ : ∃ f, fuel = f + 1 := ⟨fuel - 1, by omega⟩
    rw [Rs.forIter, array_iterator_next_agrees value jo vo length idx (by omega) (by omega) (by omega), itemsAnyLazy]
    simp only [show ¬ (idx ≥ length) by omega, if_false]
    cases hr : readU32At value jo with
    | none => rfl
    | some w =>
      have hw := jeLen_lt w
      simp only []
      cases hs : Jsonb.slice value vo (vo + jeLen w) with
      | ok item =>
        simp only [ofJE, JE.ofWord, ejk_loop2]
        by_cases hk : jeType w = C.STRING_TAG ∧ item = key
        · simp [hk]
        · simp only [hk, if_false]
          exact ih (jo + 4) (vo + jeLen w) (idx + 1) f (by omega) (by omega) (by omega) (by omega) hl
      | err e => rfl
      | panic e => rfl
      | fuel => rfl

/-- `exists_jsonb_key` IS the lazy walk, for every buffer, header word and key -/
theorem exists_jsonb_key_lazy (value : Bytes) (header : Nat) (key : Bytes) (fuel : Nat) (hf : 536870912 < fuel) :
    Tr.exists_jsonb_key fuel value (header : Int) key = existsKeyLazy value header key := by
  have hL := hdrLen_lt header
  unfold Tr.exists_jsonb_key existsKeyLazy
  simp only [hdrType_eq]
  by_cases h1 : hdrType header = C.OBJECT_CONTAINER_TAG
  · simp only [h1, decide_true, if_true, iteate_object_keys_agrees, Ctl.ofRes_ok', Ctl.val_bind']
    rw [ejk_obj_run value key (hdrLen header) (hdrLen header) 4 (8 * hdrLen header + 4) 0 fuel (by omega) (by omega)
      (by omega) (by omega) (by omega)]
    cases keysAnyLazy value key (hdrLen header) 4 (8 * hdrLen header + 4) <;> rfl
  · by_cases h2 : hdrType header = C.ARRAY_CONTAINER_TAG
    · simp only [h1, h2, decide_false, decide_true, Bool.false_eq_true, if_false, if_true, iterate_array_agrees,
        Ctl.ofRes_ok', Ctl.val_bind']
      rw [ejk_arr_run value key (hdrLen header) (hdrLen header) 4 (4 * hdrLen header + 4) 0 fuel (by omega) (by omega)
        (by omega) (by omega) (by omega)]
      cases itemsAnyLazy value key (hdrLen header) 4 (4 * hdrLen header + 4) <;> rfl
    · simp [h1, h2, Ctl.run]

/-! ### the lazy walk against the model's eager one -/

theorem iterObjKeysLoop_ne_fuel' (value : Bytes) : ∀ (n jo ko : Nat), iterObjKeysLoop value n jo ko ≠ .fuel := by
  intro n
  induction n with
  | zero => intro jo ko; simp [iterObjKeysLoop]
  | succ n ih =>
    intro jo ko
    simp only [iterObjKeysLoop]
    cases readU32At value jo with
    | none => simp
    | some w =>
      simp only []
      have hs := slice_ne_fuel value ko (ko + jeLen w)
      cases h1 : Jsonb.slice value ko (ko + jeLen w) with
      | ok item =>
        simp only []
        have := ih (jo + 4) (ko + jeLen w)
        cases h : iterObjKeysLoop value n (jo + 4) (ko + jeLen w) <;> simp_all
      | err e => simp
      | panic s => simp
      | fuel => exact absurd h1 hs

theorem iterObjKeysLoop_ne_err (value : Bytes) : ∀ (n jo ko : Nat) (e : String), iterObjKeysLoop value n jo ko ≠ .err e := by
  intro n
  induction n with
  | zero => intro jo ko e; simp [iterObjKeysLoop]
  | succ n ih =>
    intro jo ko e
    simp only [iterObjKeysLoop]
    cases readU32At value jo with
    | none => simp
    | some w =>
      simp only []
      cases h1 : Jsonb.slice value ko (ko + jeLen w) with
      | ok item =>
        simp only []
        cases h : iterObjKeysLoop value n (jo + 4) (ko + jeLen w) with
        | err e' => exact absurd h (ih _ _ _)
        | _ => simp
      | err e' => exact absurd h1 (slice_ne_err _ _ _ _)
      | panic s => simp
      | fuel => simp

theorem keysAnyLazy_eager (value key : Bytes) : ∀ (n jo ko : Nat),
    match iterObjKeysLoop value n jo ko with
    | .ok ks => keysAnyLazy value key n jo ko = .ok (ks.any (· == key))
    | .panic s => keysAnyLazy value key n jo ko = .panic s ∨ keysAnyLazy value key n jo ko = .ok true
    | _ => True := by
  intro n
  induction n with
  | zero => intro jo ko; simp [iterObjKeysLoop, keysAnyLazy]
  | succ n ih =>
    intro jo ko
    rw [iterObjKeysLoop, keysAnyLazy]
    cases readU32At value jo with
    | none => simp
    | some w =>
      simp only []
      cases Jsonb.slice value ko (ko + jeLen w) with
      | ok k =>
        simp only []
        have := ih (jo + 4) (ko + jeLen w)
        cases hrest : iterObjKeysLoop value n (jo + 4) (ko + jeLen w) with
        | ok ks =>
          simp only [hrest] at this ⊢
          by_cases hk : k = key
          · simp [hk]
          · simp [hk, this]
        | panic e =>
          simp only [hrest] at this ⊢
          by_cases hk : k = key
          · simp [hk]
          · simpa [hk] using this
        | err e => trivial
        | fuel => trivial
      | err e => trivial
      | panic e => simp
      | fuel => trivial

theorem itemsAnyLazy_eager (value key : Bytes) : ∀ (n jo vo : Nat),
    match iterArrayLoop value n jo vo with
    | .ok items => itemsAnyLazy value key n jo vo = .ok (items.any (fun (je, v) => je.ty == C.STRING_TAG && v == key))
    | .panic s => itemsAnyLazy value key n jo vo = .panic s ∨ itemsAnyLazy value key n jo vo = .ok true
    | _ => True := by
  intro n
  induction n with
  | zero => intro jo vo; simp [iterArrayLoop, itemsAnyLazy]
  | succ n ih =>
    intro jo vo
    rw [iterArrayLoop, itemsAnyLazy]
    cases readU32At value jo with
    | none => simp
    | some w =>
      simp only []
      cases Jsonb.slice value vo (vo + jeLen w) with
      | ok item =>
        simp only []
        have := ih (jo + 4) (vo + jeLen w)
        cases hrest : iterArrayLoop value n (jo + 4) (vo + jeLen w) with
        | ok items =>
          simp only [hrest] at this ⊢
          by_cases hk : jeType w = C.STRING_TAG ∧ item = key
          · simp [hk, JE.ofWord]
          · simp only [hk, if_false, this, List.any_cons, JE.ofWord]
            have : (jeType w == C.STRING_TAG && item == key) = false := by
              by_cases h1 : jeType w = C.STRING_TAG
              · have : ¬ item = key := fun h => hk ⟨h1, h⟩
                simp [h1, this]
              · simp [h1]
            simp [this]
        | panic e =>
          simp only [hrest] at this ⊢
          by_cases hk : jeType w = C.STRING_TAG ∧ item = key
          · simp [hk]
          · simpa [hk] using this
        | err e => trivial
        | fuel => trivial
      | err e => trivial
      | panic e => simp
      | fuel => trivial

/-- wherever the model answers, the lazy walk (= the translated source) gives the same answer -/
theorem existsKeyLazy_of_model (value : Bytes) (header : Nat) (key : Bytes) (b : Bool)
    (h : Fn.existsJsonbKey value header key = .ok b) : existsKeyLazy value header key = .ok b := by
  unfold Fn.existsJsonbKey at h
  unfold existsKeyLazy
  by_cases h1 : hdrType header = C.OBJECT_CONTAINER_TAG
  · simp only [h1, if_true] at h ⊢
    have := keysAnyLazy_eager value key (hdrLen header) 4 (8 * hdrLen header + 4)
    unfold iterObjKeys at h
    cases hk : iterObjKeysLoop value (hdrLen header) 4 (8 * hdrLen header + 4) with
    | ok ks => simp only [hk, Res.map, Res.bind, Res.ok.injEq] at h this; rw [this, h]
    | err e => simp [hk, Res.map, Res.bind] at h
    | panic e => simp [hk, Res.map, Res.bind] at h
    | fuel => simp [hk, Res.map, Res.bind] at h
  · by_cases h2 : hdrType header = C.ARRAY_CONTAINER_TAG
    · rw [if_neg h1, if_pos h2] at h ⊢
      have := itemsAnyLazy_eager value key (hdrLen header) 4 (4 * hdrLen header + 4)
      unfold iterArray at h
      cases hk : iterArrayLoop value (hdrLen header) 4 (4 * hdrLen header + 4) with
      | ok items => simp only [hk, Res.map, Res.bind, Res.ok.injEq] at h this; rw [this, h]
      | err e => simp [hk, Res.map, Res.bind] at h
      | panic e => simp [hk, Res.map, Res.bind] at h
      | fuel => simp [hk, Res.map, Res.bind] at h
    · rw [if_neg h1, if_neg h2] at h ⊢; exact h

/-- the only difference: the model panics on a malformed container where the source has already answered `true` -/
theorem existsKeyLazy_cases (value : Bytes) (header : Nat) (key : Bytes) :
    existsKeyLazy value header key = Fn.existsJsonbKey value header key ∨
      (existsKeyLazy value header key = .ok true ∧ ∃ s, Fn.existsJsonbKey value header key = .panic s) := by
  unfold Fn.existsJsonbKey existsKeyLazy
  by_cases h1 : hdrType header = C.OBJECT_CONTAINER_TAG
  · simp only [h1, if_true]
    have := keysAnyLazy_eager value key (hdrLen header) 4 (8 * hdrLen header + 4)
    unfold iterObjKeys
    cases hk : iterObjKeysLoop value (hdrLen header) 4 (8 * hdrLen header + 4) with
    | ok ks => simp only [hk] at this; left; rw [this]; rfl
    | panic e =>
      simp only [hk] at this
      rcases this with h | h
      · left; rw [h]; rfl
      · right; exact ⟨h, e, rfl⟩
    | err e => exact absurd hk (iterObjKeysLoop_ne_err value _ _ _ e)
    | fuel => exact absurd hk (iterObjKeysLoop_ne_fuel' value _ _ _)
  · by_cases h2 : hdrType header = C.ARRAY_CONTAINER_TAG
    · rw [if_neg h1, if_pos h2, if_neg h1, if_pos h2]
      have := itemsAnyLazy_eager value key (hdrLen header) 4 (4 * hdrLen header + 4)
      unfold iterArray
      cases hk : iterArrayLoop value (hdrLen header) 4 (4 * hdrLen header + 4) with
      | ok items => simp only [hk] at this; left; rw [this]; rfl
      | panic e =>
        simp only [hk] at this
        rcases this with h | h
        · left; rw [h]; rfl
        · right; exact ⟨h, e, rfl⟩
      | err e => exact absurd hk (iterArrayLoop_ne_err value _ _ _ e)
      | fuel => exact absurd hk (iterArrayLoop_ne_fuel value _ _ _)
    · rw [if_neg h1, if_neg h2, if_neg h1, if_neg h2]; left; trivial

/-! ## exists_all_keys / exists_any_keys -/

/-- the loops of `exists_all_keys` / `exists_any_keys` over the lazy per-key walk -/
def existsAllLazy (value : Bytes) (header : Nat) : List Bytes → Res Bool
  | [] => .ok true
  | k :: ks =>
    if validUtf8 k then
      match existsKeyLazy value header k with
      | .ok true => existsAllLazy value header ks
      | .ok false => .ok false
      | .err e => .err e
      | .panic s => .panic s
      | .fuel => .fuel
    else .ok false

def existsAnyLazy (value : Bytes) (header : Nat) : List Bytes → Res Bool
  | [] => .ok false
  | k :: ks =>
    if validUtf8 k then
      match existsKeyLazy value header k with
      | .ok true => .ok true
      | .ok false => existsAnyLazy value header ks
      | .err e => .err e
      | .panic s => .panic s
      | .fuel => .fuel
    else existsAnyLazy value header ks

theorem eall_loop1 (value : Bytes) (header : Nat) (key : Bytes) (fuel : Nat) (hf : 536870912 < fuel) :
    Tr.exists_all_keys.loop1 fuel value (header : Int) key () =
      if validUtf8 key then
        match existsKeyLazy value header key with
        | .ok true => Ctl.val (.next ())
        | .ok false => Ctl.ret (.ok false)
        | .err e => Ctl.ret (.err e)
        | .panic s => Ctl.ret (.panic s)
        | .fuel => Ctl.ret .fuel
      else Ctl.ret (.ok false) := by
  unfold Tr.exists_all_keys.loop1
  by_cases hv : validUtf8 key = true
  · simp only [Rs.strFromUtf8, hv, if_true, Rs.resOpt, Ctl.val_bind', exists_jsonb_key_lazy value header key fuel hf]
    cases existsKeyLazy value header key with
    | ok b => cases b <;> simp [Rs.loopStep]
    | err e => simp [Ctl.ofRes, Rs.loopStep]
    | panic e => simp [Ctl.ofRes, Rs.loopStep]
    | fuel => simp [Ctl.ofRes, Rs.loopStep]
  · simp [Rs.strFromUtf8, hv, Rs.resOpt, Rs.loopStep]

theorem eany_loop1 (value : Bytes) (header : Nat) (key : Bytes) (fuel : Nat) (hf : 536870912 < fuel) :
    Tr.exists_any_keys.loop1 fuel value (header : Int) key () =
      if validUtf8 key then
        match existsKeyLazy value header key with
        | .ok true => Ctl.ret (.ok true)
        | .ok false => Ctl.val (.next ())
        | .err e => Ctl.ret (.err e)
        | .panic s => Ctl.ret (.panic s)
        | .fuel => Ctl.ret .fuel
      else Ctl.val (.next ()) := by
  unfold Tr.exists_any_keys.loop1
  by_cases hv : validUtf8 key = true
  · simp only [Rs.strFromUtf8, hv, if_true, Rs.resOpt, Ctl.val_bind', exists_jsonb_key_lazy value header key fuel hf]
    cases existsKeyLazy value header key with
    | ok b => cases b <;> simp [Rs.loopStep]
    | err e => simp [Ctl.ofRes, Rs.loopStep]
    | panic e => simp [Ctl.ofRes, Rs.loopStep]
    | fuel => simp [Ctl.ofRes, Rs.loopStep]
  · simp [Rs.strFromUtf8, hv, Rs.resOpt, Rs.loopStep]

theorem eall_run (value : Bytes) (header : Nat) (fuel : Nat) (hf : 536870912 < fuel) : ∀ (keys : List Bytes),
    (Rs.forIn keys () (Tr.exists_all_keys.loop1 fuel value (header : Int)) >>= fun _ => (Ctl.ret (Res.ok true) : Ctl Bool Bool))
      = Ctl.ret (existsAllLazy value header keys) := by
  intro keys
  induction keys with
  | nil => rfl
  | cons k ks ih =>
    rw [Rs.forIn, eall_loop1 value header k fuel hf, existsAllLazy]
    by_cases hv : validUtf8 k = true
    · simp only [hv, if_true]
      cases existsKeyLazy value header k with
      | ok b => cases b with
        | true => exact ih
        | false => rfl
      | err e => rfl
      | panic e => rfl
      | fuel => rfl
    · simp [hv]

theorem eany_run (value : Bytes) (header : Nat) (fuel : Nat) (hf : 536870912 < fuel) : ∀ (keys : List Bytes),
    (Rs.forIn keys () (Tr.exists_any_keys.loop1 fuel value (header : Int)) >>= fun _ => (Ctl.ret (Res.ok false) : Ctl Bool Bool))
      = Ctl.ret (existsAnyLazy value header keys) := by
  intro keys
  induction keys with
  | nil => rfl
  | cons k ks ih =>
    rw [Rs.forIn, eany_loop1 value header k fuel hf, existsAnyLazy]
    by_cases hv : validUtf8 k = true
    · simp only [hv, if_true]
      cases existsKeyLazy value header k with
      | ok b => cases b with
        | true => rfl
        | false => exact ih
      | err e => rfl
      | panic e => rfl
      | fuel => rfl
    · simp only [hv, Bool.false_eq_true, if_false]; exact ih

theorem header_or_zero (value : Bytes) :
    Rs.resUnwrapOr (Tr.read_u32 value 0) 0 = .ok ((((readU32At value 0).getD 0 : Nat)) : Int) := by
  rw [read_u32_zero]
  cases readU32At value 0 <;> rfl

/-- `exists_all_keys(value, keys)`: the loop over the keys with the lazy per-key walk, for every buffer and key list -/
theorem exists_all_keys_agrees (value : Bytes) (keys : List Bytes) (fuel : Nat) (hf : 536870912 < fuel) (text : Res Bool) :
    Tr.exists_all_keys fuel value keys text =
      if isJsonb value then existsAllLazy value ((readU32At value 0).getD 0) keys else text := by
  unfold Tr.exists_all_keys
  rw [is_jsonb_agrees, header_or_zero]
  cases hj : isJsonb value
  · simp [Ctl.ofRes, Ctl.run]
  · simp only [Ctl.ofRes_ok', Ctl.val_bind', Ctl.pure_eq', Bool.not_true, Bool.false_eq_true, if_false, if_true]
    exact (congrArg Ctl.run (eall_run value _ fuel hf keys)).trans (Ctl.run_ret' _)

theorem exists_any_keys_agrees (value : Bytes) (keys : List Bytes) (fuel : Nat) (hf : 536870912 < fuel) (text : Res Bool) :
    Tr.exists_any_keys fuel value keys text =
      if isJsonb value then existsAnyLazy value ((readU32At value 0).getD 0) keys else text := by
  unfold Tr.exists_any_keys
  rw [is_jsonb_agrees, header_or_zero]
  cases hj : isJsonb value
  · simp [Ctl.ofRes, Ctl.run]
  · simp only [Ctl.ofRes_ok', Ctl.val_bind', Ctl.pure_eq', Bool.not_true, Bool.false_eq_true, if_false, if_true]
    exact (congrArg Ctl.run (eany_run value _ fuel hf keys)).trans (Ctl.run_ret' _)

/-- wherever the model `Fn.existsAllKeys` answers (it panics on some malformed containers where the source has
already decided), the lazy loop gives the same answer -/
theorem existsAllLazy_of_model (value : Bytes) (header : Nat) : ∀ (keys : List Bytes) (b : Bool),
    Fn.existsAllKeys.go value header keys = .ok b → existsAllLazy value header keys = .ok b := by
  intro keys
  induction keys with
  | nil => intro b h; simpa [Fn.existsAllKeys.go, existsAllLazy] using h
  | cons k ks ih =>
    intro b h
    rw [Fn.existsAllKeys.go] at h
    rw [existsAllLazy]
    by_cases hv : validUtf8 k = true
    · simp only [hv, if_true] at h ⊢
      cases hm : Fn.existsJsonbKey value header k with
      | ok r =>
        rw [existsKeyLazy_of_model value header k r hm]
        cases r with
        | true => simp only [hm] at h; exact ih b h
        | false => simpa [hm] using h
      | err e => simp [hm] at h
      | panic e => simp [hm] at h
      | fuel => simp [hm] at h
    · simpa [hv] using h

theorem existsAnyLazy_of_model (value : Bytes) (header : Nat) : ∀ (keys : List Bytes) (b : Bool),
    Fn.existsAnyKeys.go value header keys = .ok b → existsAnyLazy value header keys = .ok b := by
  intro keys
  induction keys with
  | nil => intro b h; simpa [Fn.existsAnyKeys.go, existsAnyLazy] using h
  | cons k ks ih =>
    intro b h
    rw [Fn.existsAnyKeys.go] at h
    rw [existsAnyLazy]
    by_cases hv : validUtf8 k = true
    · simp only [hv, if_true] at h ⊢
      cases hm : Fn.existsJsonbKey value header k with
      | ok r =>
        rw [existsKeyLazy_of_model value header k r hm]
        cases r with
        | true => simpa [hm] using h
        | false => simp only [hm] at h; exact ih b h
      | err e => simp [hm] at h
      | panic e => simp [hm] at h
      | fuel => simp [hm] at h
    · simp only [hv, Bool.false_eq_true, if_false] at h ⊢; exact ih b h

/-- `exists_all_keys` / `exists_any_keys` on JSONB input: the model's answer, wherever the model answers -/
theorem exists_all_keys_model (value : Bytes) (keys : List Bytes) (fuel : Nat) (hf : 536870912 < fuel) (text : Res Bool)
    (hj : isJsonb value = true) (b : Bool) (h : Fn.existsAllKeys value keys = .ok b) :
    Tr.exists_all_keys fuel value keys text = .ok b := by
  rw [exists_all_keys_agrees value keys fuel hf, hj, if_pos rfl]
  exact existsAllLazy_of_model value _ keys b h

theorem exists_any_keys_model (value : Bytes) (keys : List Bytes) (fuel : Nat) (hf : 536870912 < fuel) (text : Res Bool)
    (hj : isJsonb value = true) (b : Bool) (h : Fn.existsAnyKeys value keys = .ok b) :
    Tr.exists_any_keys fuel value keys text = .ok b := by
  rw [exists_any_keys_agrees value keys fuel hf, hj, if_pos rfl]
  exact existsAnyLazy_of_model value _ keys b h

theorem exists_jsonb_key_model (value : Bytes) (header : Nat) (key : Bytes) (fuel : Nat) (hf : 536870912 < fuel) (b : Bool)
    (h : Fn.existsJsonbKey value header key = .ok b) : Tr.exists_jsonb_key fuel value (header : Int) key = .ok b := by
  rw [exists_jsonb_key_lazy value header key fuel hf]; exact existsKeyLazy_of_model value header key b h

/-- the difference, recorded: either the translated source agrees with the model, or it has answered `true` where the
model panics (a later key / element slice of a malformed container is out of range) -/
theorem exists_jsonb_key_cases (value : Bytes) (header : Nat) (key : Bytes) (fuel : Nat) (hf : 536870912 < fuel) :
    Tr.exists_jsonb_key fuel value (header : Int) key = Fn.existsJsonbKey value header key ∨
      (Tr.exists_jsonb_key fuel value (header : Int) key = .ok true ∧ ∃ s, Fn.existsJsonbKey value header key = .panic s) := by
  rw [exists_jsonb_key_lazy value header key fuel hf]; exact existsKeyLazy_cases value header key

/-- a witness of that difference: an object of two keys whose second key slice is out of range; the first key is `a` -/
def earlyDoc : Bytes :=
  [0x40, 0, 0, 2, 0x10, 0, 0, 1, 0x10, 0, 0, 100, 0, 0, 0, 0, 0, 0, 0, 0, 0x61]

theorem exists_jsonb_key_early_witness :
    Fn.existsJsonbKey earlyDoc 0x40000002 [0x61] = .panic "slice index out of range" ∧
      existsKeyLazy earlyDoc 0x40000002 [0x61] = .ok true := by
  constructor <;> decide

end Jsonb.TrAgree
