/-
Layout-generic rendering of JSONPath filter expressions and paths with filter steps, and the
proof that the parser model reads every rendering back to the rendered AST (`R.sound`,
`parse_predicate`, `parse_rooted`).
-/
import JsonbModel.Proofs.PathRoundTrip2b

namespace Jsonb
namespace PathRT2
open Nom PathParser PathPrint PathRT

/-! ### the rendering relation -/

/-- the nonterminals of the expression grammar; the two `Tail` kinds carry the expression
accumulated so far (`expr_and`/`expr_or` fold their operand lists to the left) -/
inductive Kind where
  | atom
  | andTail (acc : Expr)
  | andL
  | orTail (acc : Expr)
  | orL
  | steps

/-- `R k rp e s`: the text `s` is a rendering of `e` as nonterminal `k`; `rp` = inside a
top-level predicate (where `@` is not allowed).
* `atom`: a comparison `l op r`, a parenthesised `orL`, or `exists(path)`;
* `andL`: atoms separated by `&&`; `orL`: `andL`s separated by `||` (both left-associative);
* `steps`: a sequence of plain steps and filter steps `?( orL )` (`e = .paths steps`).
Whitespace runs (`Ws`) are arbitrary, including empty. -/
inductive R : Kind → Bool → Expr → Bytes → Prop
  | cmp (rp : Bool) (o : BinOp) (l r : Expr) (w0 sl so w1 sr : Bytes) : Ws w0 → ROperand rp l sl →
      ROp o so → Ws w1 → ROperand rp r sr →
      R .atom rp (.binaryOp o l r) (w0 ++ (sl ++ (so ++ (w1 ++ sr))))
  | paren (rp : Bool) (e : Expr) (w1 s w2 : Bytes) : Ws w1 → R .orL rp e s → Ws w2 →
      R .atom rp e (40 :: (w1 ++ (s ++ (w2 ++ [41]))))
  | exists_ (rp : Bool) (hd : Path) (ps : List Path) (c : UInt8) (w1 w2 t w3 : Bytes) : Ws w1 →
      Ws w2 → RHead false hd c → R .steps false (.paths ps) t → Ws w3 →
      R .atom rp (.existsFn (hd :: ps)) (kwExists ++ (w1 ++ 40 :: (w2 ++ c :: (t ++ (w3 ++ [41])))))
  | andTailNil (rp : Bool) (acc : Expr) : R (.andTail acc) rp acc []
  | andTailCons (rp : Bool) (acc x e : Expr) (w1 w2 s t : Bytes) : Ws w1 → Ws w2 → R .atom rp x s →
      R (.andTail (.binaryOp .and acc x)) rp e t →
      R (.andTail acc) rp e (w1 ++ 38 :: 38 :: (w2 ++ (s ++ t)))
  | andL (rp : Bool) (a e : Expr) (s t : Bytes) : R .atom rp a s → R (.andTail a) rp e t →
      R .andL rp e (s ++ t)
  | orTailNil (rp : Bool) (acc : Expr) : R (.orTail acc) rp acc []
  | orTailCons (rp : Bool) (acc x e : Expr) (w1 w2 s t : Bytes) : Ws w1 → Ws w2 → R .andL rp x s →
      R (.orTail (.binaryOp .or acc x)) rp e t →
      R (.orTail acc) rp e (w1 ++ 124 :: 124 :: (w2 ++ (s ++ t)))
  | orL (rp : Bool) (a e : Expr) (s t : Bytes) : R .andL rp a s → R (.orTail a) rp e t →
      R .orL rp e (s ++ t)
  | stepsNil : R .steps false (.paths []) []
  | stepsPlain (p : Path) (ps : List Path) (w s w' t : Bytes) : Ws w → RStep p s → Ws w' →
      R .steps false (.paths ps) t → R .steps false (.paths (p :: ps)) (w ++ (s ++ (w' ++ t)))
  | stepsFilter (e : Expr) (ps : List Path) (w0 w1 w2 s w3 w4 t : Bytes) : Ws w0 → Ws w1 → Ws w2 →
      R .orL false e s → Ws w3 → Ws w4 → R .steps false (.paths ps) t →
      R .steps false (.paths (.filterExpr e :: ps))
        (w0 ++ 63 :: (w1 ++ 40 :: (w2 ++ (s ++ (w3 ++ 41 :: (w4 ++ t))))))

/-! ### what may follow -/

def OrFollow (x : Bytes) : Prop := x = [] ∨ ∃ t, x = 41 :: t
def AndFollow (x : Bytes) : Prop := OrFollow x ∨ ∃ t, x = 124 :: 124 :: t
def AtomFollow (x : Bytes) : Prop := AndFollow x ∨ ∃ t, x = 38 :: 38 :: t

theorem AtomFollow.opFollow {x : Bytes} (h : AtomFollow x) : HeadOk opFollow x := by
  rcases h with ((rfl | ⟨t, rfl⟩) | ⟨t, rfl⟩) | ⟨t, rfl⟩
  · exact HeadOk.nil
  · exact HeadOk.cons (by decide)
  · exact HeadOk.cons (by decide)
  · exact HeadOk.cons (by decide)

abbrev sepAnd : Parser Bytes := delimited ws (tag [38, 38]) ws
abbrev sepOr : Parser Bytes := delimited ws (tag [124, 124]) ws

theorem sepAnd_error (i : Bytes) (h : AndFollow (dropSpaces i)) : sepAnd i = .error := by
  apply delimited_ws_error _ i _ rfl
  rcases h with (h | ⟨t, h⟩) | ⟨t, h⟩ <;> rw [h] <;> simp [tag, isPrefix]

theorem sepOr_error (i : Bytes) (h : OrFollow (dropSpaces i)) : sepOr i = .error := by
  apply delimited_ws_error _ i _ rfl
  rcases h with h | ⟨t, h⟩ <;> rw [h] <;> simp [tag, isPrefix]

theorem sepAnd_hit (i X : Bytes) (h : dropSpaces i = 38 :: 38 :: X) :
    sepAnd i = .ok [38, 38] (dropSpaces X) :=
  delimited_ws _ i _ X _ h (tag_hit [38, 38] X)

theorem sepOr_hit (i X : Bytes) (h : dropSpaces i = 124 :: 124 :: X) :
    sepOr i = .ok [124, 124] (dropSpaces X) :=
  delimited_ws _ i _ X _ h (tag_hit [124, 124] X)

/-- what may follow a path with filter steps (after whitespace) -/
def afterPath (c : UInt8) : Bool := afterSteps c && c != 63

theorem afterPath_delim : ∀ c, afterPath c = true → isRawDelim c = true := by bytes_decide
theorem afterPath_noStep : ∀ c, afterPath c = true → (!stepHead c) = true := by bytes_decide
theorem afterPath_noFilter : ∀ c, afterPath c = true → c ≠ 63 := by bytes_decide

/-! ### single grammar functions on abstract inputs -/

theorem unaryArithOp_error (c : UInt8) (X : Bytes) (h1 : c ≠ 43) (h2 : c ≠ 45) :
    unaryArithOp (c :: X) = .error := by
  simp [unaryArithOp, alt, value, char, h1, h2, PR.bind]

/-- the operand-based alternatives of `expr_atom` fail on a byte that starts no operand -/
theorem eaB123_error (rp : Bool) (c : UInt8) (X : Bytes) (h : notExprHead c = true)
    (h1 : isSpace c = false) :
    eaB1 rp (c :: X) = .error ∧ eaB2 rp (c :: X) = .error ∧ eaB3 rp (c :: X) = .error := by
  have f : ∀ c, notExprHead c = true → c ≠ 43 ∧ c ≠ 45 := by bytes_decide
  obtain ⟨h2, h3⟩ := f c h
  have hL : delimited ws (innerExpr rp) ws (c :: X) = .error :=
    delimited_ws_error _ _ _ (dropSpaces_nonspace c X h1) (innerExpr_error_head rp c X h)
  refine ⟨map_error (tuple3_error1 hL), map_error (tuple3_error1 hL), ?_⟩
  unfold eaB3
  apply map_error
  simp [pair, unaryArithOp_error c X h2 h3, PR.bind]

theorem eaB4_render (R : Bool → Parser Expr) (rp : Bool) (Y1 Y2 r' r : Bytes) (e : Expr)
    (h1 : dropSpaces Y1 = Y2) (h2 : R rp Y2 = .ok e r') (h3 : dropSpaces r' = 41 :: r) :
    eaB4 R rp (40 :: Y1) = .ok e r := by
  simp [eaB4, delimited, terminated, preceded, char, ws_eq, h1, h2, h3, PR.bind]

theorem eaB4_error (R : Bool → Parser Expr) (rp : Bool) (c : UInt8) (X : Bytes) (h : c ≠ 40) :
    eaB4 R rp (c :: X) = .error := by
  simp [eaB4, delimited, terminated, char, h, PR.bind]

theorem existsFn_render (R : Bool → Parser Expr) (Y1 Y2 Y3 r' r : Bytes) (hd : Path) (c : UInt8)
    (ps : List Path) (h1 : dropSpaces Y1 = 40 :: Y2) (h2 : dropSpaces Y2 = c :: Y3)
    (hh : RHead false hd c) (h3 : many0 (path R) Y3 = .ok ps r') (h4 : dropSpaces r' = 41 :: r) :
    existsFn R (kwExists ++ Y1) = .ok (hd :: ps) r := by
  have ht := tag_hit kwExists Y1
  cases hh <;>
    simp [existsFn, preceded, delimited, terminated, existsPaths, map, pair, alt, value, char,
      ws_eq, ht, h1, h2, h3, h4, PR.bind]

theorem path_error (R : Bool → Parser Expr) (i : Bytes)
    (h : HeadOk (fun c => !stepHead c && c != 63) (dropSpaces i)) : path R i = .error := by
  have h1 := innerPathWs_error i (h.mono (by bytes_decide))
  have h2 : delimited ws (filterExpr R) ws i = .error := by
    apply delimited_ws_error _ i _ rfl
    cases hd : dropSpaces i with
    | nil => simp [filterExpr, delimited, char, PR.bind]
    | cons c t =>
      rw [hd] at h
      have : c ≠ 63 := by have := h.head; simp at this; exact this.2
      simp [filterExpr, delimited, char, this, PR.bind]
  unfold path
  rw [alt_error h1]
  exact map_error h2

theorem path_plain (R : Bool → Parser Expr) {p : Path} {s : Bytes} (h : RStep p s) (x : Bytes)
    (hx : HeadOk isRawDelim x) (i : Bytes) (hi : dropSpaces i = s ++ x) :
    path R i = .ok p (dropSpaces x) := by
  unfold path
  exact alt_ok (innerPathWs_render h x hx i hi)

theorem path_filter (R : Bool → Parser Expr) (i Y1 Y2 Y3 r' Y4 : Bytes) (e : Expr)
    (h0 : dropSpaces i = 63 :: Y1) (h1 : dropSpaces Y1 = 40 :: Y2) (h2 : dropSpaces Y2 = Y3)
    (h3 : R false Y3 = .ok e r') (h4 : dropSpaces r' = 41 :: Y4) :
    path R i = .ok (.filterExpr e) (dropSpaces Y4) := by
  have hip := innerPathWs_error i (by rw [h0]; exact HeadOk.cons (by decide))
  unfold path
  rw [alt_error hip]
  simp [map, delimited, filterExpr, char, ws_eq, h0, h1, h2, h3, h4, PR.bind]

/-! ### soundness of the rendering relation -/

/-- what the parser does on a rendering, per nonterminal.  `n` is the fuel of the recursive
`expr_or` (at least the length of the text); `r` is the rest of the input; results are stated
up to the whitespace at the start of the remaining input. -/
def Goal : Kind → Bool → Expr → Bytes → Prop
  | .atom, rp, e, s => ∀ n, s.length ≤ n → ∀ r, AtomFollow (dropSpaces r) →
      ∃ r', exprAtom (exprOr n) rp (dropSpaces (s ++ r)) = .ok e r' ∧ dropSpaces r' = dropSpaces r
  | .andTail acc, rp, e, s => ∀ n, s.length ≤ n → ∀ r, AndFollow (dropSpaces r) →
      ∀ i, dropSpaces i = dropSpaces (s ++ r) → ∀ m accL, (dropSpaces i).length < m →
      ∃ r' xs, sepList1Loop sepAnd (exprAtom (exprOr n) rp) m i accL = .ok (accL.reverse ++ xs) r' ∧
        xs.foldl (Expr.binaryOp .and) acc = e ∧ dropSpaces r' = dropSpaces r
  | .andL, rp, e, s => ∀ n, s.length ≤ n → ∀ r, AndFollow (dropSpaces r) →
      ∃ r', exprAnd (exprOr n) rp (dropSpaces (s ++ r)) = .ok e r' ∧ dropSpaces r' = dropSpaces r
  | .orTail acc, rp, e, s => ∀ n, s.length ≤ n → ∀ r, OrFollow (dropSpaces r) →
      ∀ i, dropSpaces i = dropSpaces (s ++ r) → ∀ m accL, (dropSpaces i).length < m →
      ∃ r' xs, sepList1Loop sepOr (exprAnd (exprOr n) rp) m i accL = .ok (accL.reverse ++ xs) r' ∧
        xs.foldl (Expr.binaryOp .or) acc = e ∧ dropSpaces r' = dropSpaces r
  | .orL, rp, e, s => ∀ n, s.length ≤ n → ∀ r, OrFollow (dropSpaces r) →
      ∃ r', exprOrStep (exprOr n) rp (dropSpaces (s ++ r)) = .ok e r' ∧ dropSpaces r' = dropSpaces r
  | .steps, _, e, s => ∀ ps, e = .paths ps → ∀ n, s.length ≤ n → ∀ r,
      HeadOk afterPath (dropSpaces r) → ∀ i, dropSpaces i = dropSpaces (s ++ r) →
      ∀ m acc, i.length < m →
      ∃ r', many0Loop (path (exprOr n)) m i acc = .ok (acc.reverse ++ ps) r' ∧
        dropSpaces r' = dropSpaces r

theorem R.andTail_follow {acc : Expr} {rp : Bool} {e : Expr} {t : Bytes}
    (h : R (.andTail acc) rp e t) (r : Bytes) (hr : AndFollow (dropSpaces r)) :
    AtomFollow (dropSpaces (t ++ r)) := by
  cases h with
  | andTailNil => exact Or.inl hr
  | andTailCons _ _ x _ w1 w2 s t hw1 =>
    refine Or.inr ⟨w2 ++ (s ++ t) ++ r, ?_⟩
    simp only [List.append_assoc, List.cons_append]
    rw [dropSpaces_ws _ _ hw1]
    exact dropSpaces_nonspace _ _ (by decide)

theorem R.orTail_follow {acc : Expr} {rp : Bool} {e : Expr} {t : Bytes}
    (h : R (.orTail acc) rp e t) (r : Bytes) (hr : OrFollow (dropSpaces r)) :
    AndFollow (dropSpaces (t ++ r)) := by
  cases h with
  | orTailNil => exact Or.inl hr
  | orTailCons _ _ x _ w1 w2 s t hw1 =>
    refine Or.inr ⟨w2 ++ (s ++ t) ++ r, ?_⟩
    simp only [List.append_assoc, List.cons_append]
    rw [dropSpaces_ws _ _ hw1]
    exact dropSpaces_nonspace _ _ (by decide)

theorem R.steps_follow {rp : Bool} {e : Expr} {t : Bytes} (h : R .steps rp e t) (r : Bytes)
    (hr : HeadOk isRawDelim r) : HeadOk isRawDelim (t ++ r) := by
  cases h with
  | stepsNil => exact hr
  | stepsPlain p ps w s w' t hw hs =>
    cases w with
    | nil =>
      obtain ⟨c, t', rfl, hc⟩ := hs.head
      exact HeadOk.cons (stepHead_delim c hc)
    | cons b w => exact HeadOk.cons (space_rawDelim b hw.cons.1)
  | stepsFilter e ps w0 w1 w2 s w3 w4 t hw0 =>
    cases w0 with
    | nil => exact HeadOk.cons (by decide)
    | cons b w => exact HeadOk.cons (space_rawDelim b hw0.cons.1)

theorem exprOr_succ (m : Nat) : exprOr (m + 1) = exprOrStep (exprOr m) := rfl

/-- The parser model reads every rendering back (statement per nonterminal: `Goal`). -/
theorem R.sound {k : Kind} {rp : Bool} {e : Expr} {s : Bytes} (h : R k rp e s) : Goal k rp e s := by
  induction h with
  | cmp rp o l r w0 sl so w1 sr hw0 hl ho hw1 hr =>
    intro n _ rest hrest
    refine ⟨dropSpaces rest, ?_, dropSpaces_idem _⟩
    apply cmp_render _ w1 hl ho hw1 hr rest hrest.opFollow
    rw [dropSpaces_idem]
    simp only [List.append_assoc]
    rw [dropSpaces_ws _ _ hw0]
  | paren rp e w1 s w2 hw1 _ hw2 ih =>
    intro n hn rest _
    obtain ⟨m, rfl⟩ : ∃ m, n = m + 1 := ⟨n - 1, by simp at hn; omega⟩
    have hfol : dropSpaces (w2 ++ 41 :: rest) = 41 :: rest := by
      rw [dropSpaces_ws _ _ hw2]; exact dropSpaces_nonspace _ _ (by decide)
    obtain ⟨r', h1, h2⟩ := ih m (by simp at hn; omega) (w2 ++ 41 :: rest)
      (by rw [hfol]; exact Or.inr ⟨rest, rfl⟩)
    refine ⟨rest, ?_, rfl⟩
    simp only [List.append_assoc, List.cons_append, List.nil_append]
    rw [dropSpaces_nonspace _ _ (by decide)]
    obtain ⟨b1, b2, b3⟩ := eaB123_error rp 40 (w1 ++ (s ++ (w2 ++ 41 :: rest))) (by decide) (by decide)
    rw [exprAtom_eq, alt_error b1, alt_error b2, alt_error b3]
    apply alt_ok
    exact eaB4_render _ rp _ _ r' rest e (dropSpaces_ws _ _ hw1) h1 (by rw [h2, hfol])
  | exists_ rp hd ps c w1 w2 t w3 hw1 hw2 hh _ hw3 ih =>
    intro n hn rest _
    have hfol : dropSpaces (w3 ++ 41 :: rest) = 41 :: rest := by
      rw [dropSpaces_ws _ _ hw3]; exact dropSpaces_nonspace _ _ (by decide)
    obtain ⟨r', h1, h2⟩ := ih ps rfl n (by simp at hn; omega) (w3 ++ 41 :: rest)
      (by rw [hfol]; exact HeadOk.cons (by decide)) (t ++ (w3 ++ 41 :: rest)) rfl
      ((t ++ (w3 ++ 41 :: rest)).length + 1) [] (by omega)
    have hm : many0 (path (exprOr n)) (t ++ (w3 ++ 41 :: rest)) = .ok ps r' := by
      unfold many0; rw [h1]; simp
    refine ⟨rest, ?_, rfl⟩
    simp only [List.append_assoc, List.cons_append, List.nil_append]
    have hk : kwExists ++ (w1 ++ 40 :: (w2 ++ c :: (t ++ (w3 ++ 41 :: rest))))
        = 101 :: ([120, 105, 115, 116, 115] ++ (w1 ++ 40 :: (w2 ++ c :: (t ++ (w3 ++ 41 :: rest))))) := rfl
    have hds : dropSpaces (kwExists ++ (w1 ++ 40 :: (w2 ++ c :: (t ++ (w3 ++ 41 :: rest)))))
        = kwExists ++ (w1 ++ 40 :: (w2 ++ c :: (t ++ (w3 ++ 41 :: rest)))) := by
      rw [hk]; exact dropSpaces_nonspace _ _ (by decide)
    rw [hds]
    obtain ⟨b1, b2, b3⟩ := eaB123_error rp 101
      ([120, 105, 115, 116, 115] ++ (w1 ++ 40 :: (w2 ++ c :: (t ++ (w3 ++ 41 :: rest))))) (by decide) (by decide)
    have b4 := eaB4_error (exprOr n) rp 101
      ([120, 105, 115, 116, 115] ++ (w1 ++ 40 :: (w2 ++ c :: (t ++ (w3 ++ 41 :: rest))))) (by decide)
    rw [← hk] at b1 b2 b3 b4
    rw [exprAtom_eq, alt_error b1, alt_error b2, alt_error b3, alt_error b4]
    apply map_ok
    have hcs : isSpace c = false := by cases hh <;> decide
    exact existsFn_render _ _ _ _ r' rest hd c ps
      (by rw [dropSpaces_ws _ _ hw1]; exact dropSpaces_nonspace _ _ (by decide))
      (by rw [dropSpaces_ws _ _ hw2]; exact dropSpaces_nonspace _ _ hcs) hh hm (by rw [h2, hfol])
  | andTailNil rp acc =>
    intro n _ r hr i hi m accL hm
    obtain ⟨m, rfl⟩ : ∃ k, m = k + 1 := ⟨m - 1, by omega⟩
    have hsep := sepAnd_error i (by rw [hi]; exact hr)
    exact ⟨i, [], by simp [sepList1Loop, hsep], rfl, hi⟩
  | andTailCons rp acc x e w1 w2 s t hw1 hw2 _ ht ihx iht =>
    intro n hn r hr i hi m accL hm
    obtain ⟨m, rfl⟩ : ∃ k, m = k + 1 := ⟨m - 1, by omega⟩
    have hi' : dropSpaces i = 38 :: 38 :: (w2 ++ (s ++ (t ++ r))) := by
      rw [hi]; simp only [List.append_assoc, List.cons_append]
      rw [dropSpaces_ws _ _ hw1]; exact dropSpaces_nonspace _ _ (by decide)
    have hsep := sepAnd_hit i _ hi'
    rw [dropSpaces_ws _ _ hw2] at hsep
    obtain ⟨r1, h1, h2⟩ := ihx n (by simp at hn; omega) (t ++ r) (ht.andTail_follow r hr)
    have hl1 := dropSpaces_length i
    have hl2 := dropSpaces_length (s ++ (t ++ r))
    have hl3 := dropSpaces_length (t ++ r)
    rw [hi'] at hl1 hm
    simp only [List.length_cons, List.length_append] at hl1 hl2 hl3 hm
    have hne : ((dropSpaces (s ++ (t ++ r))).length == i.length) = false := by
      simp; omega
    obtain ⟨r', xs, h3, h4, h5⟩ := iht n (by simp at hn; omega) r hr r1 h2 m (x :: accL)
      (by rw [h2]; omega)
    refine ⟨r', x :: xs, ?_, h4, h5⟩
    simp only [sepList1Loop, hsep, hne, Bool.false_eq_true, if_false, h1]
    rw [h3]
    simp
  | andL rp a e s t hs ht ihs iht =>
    intro n hn r hr
    obtain ⟨r1, h1, h2⟩ := ihs n (by simp at hn; omega) (t ++ r) (ht.andTail_follow r hr)
    obtain ⟨r', xs, h3, h4, h5⟩ := iht n (by simp at hn; omega) r hr r1 h2 (r1.length + 1) [a]
      (by have := dropSpaces_length r1; omega)
    refine ⟨r', ?_, h5⟩
    simp only [List.append_assoc]
    unfold exprAnd separatedList1
    rw [h1]
    simp only [PR.bind]
    rw [h3]
    simp [foldBin, h4]
  | orTailNil rp acc =>
    intro n _ r hr i hi m accL hm
    obtain ⟨m, rfl⟩ : ∃ k, m = k + 1 := ⟨m - 1, by omega⟩
    have hsep := sepOr_error i (by rw [hi]; exact hr)
    exact ⟨i, [], by simp [sepList1Loop, hsep], rfl, hi⟩
  | orTailCons rp acc x e w1 w2 s t hw1 hw2 _ ht ihx iht =>
    intro n hn r hr i hi m accL hm
    obtain ⟨m, rfl⟩ : ∃ k, m = k + 1 := ⟨m - 1, by omega⟩
    have hi' : dropSpaces i = 124 :: 124 :: (w2 ++ (s ++ (t ++ r))) := by
      rw [hi]; simp only [List.append_assoc, List.cons_append]
      rw [dropSpaces_ws _ _ hw1]; exact dropSpaces_nonspace _ _ (by decide)
    have hsep := sepOr_hit i _ hi'
    rw [dropSpaces_ws _ _ hw2] at hsep
    obtain ⟨r1, h1, h2⟩ := ihx n (by simp at hn; omega) (t ++ r) (ht.orTail_follow r hr)
    have hl1 := dropSpaces_length i
    have hl2 := dropSpaces_length (s ++ (t ++ r))
    have hl3 := dropSpaces_length (t ++ r)
    rw [hi'] at hl1 hm
    simp only [List.length_cons, List.length_append] at hl1 hl2 hl3 hm
    have hne : ((dropSpaces (s ++ (t ++ r))).length == i.length) = false := by
      simp; omega
    obtain ⟨r', xs, h3, h4, h5⟩ := iht n (by simp at hn; omega) r hr r1 h2 m (x :: accL)
      (by rw [h2]; omega)
    refine ⟨r', x :: xs, ?_, h4, h5⟩
    simp only [sepList1Loop, hsep, hne, Bool.false_eq_true, if_false, h1]
    rw [h3]
    simp
  | orL rp a e s t hs ht ihs iht =>
    intro n hn r hr
    obtain ⟨r1, h1, h2⟩ := ihs n (by simp at hn; omega) (t ++ r) (ht.orTail_follow r hr)
    obtain ⟨r', xs, h3, h4, h5⟩ := iht n (by simp at hn; omega) r hr r1 h2 (r1.length + 1) [a]
      (by have := dropSpaces_length r1; omega)
    refine ⟨r', ?_, h5⟩
    simp only [List.append_assoc]
    unfold exprOrStep separatedList1
    rw [h1]
    simp only [PR.bind]
    rw [h3]
    simp [foldBin, h4]
  | stepsNil =>
    intro ps hps n _ r hr i hi m acc hm
    cases hps
    obtain ⟨m, rfl⟩ : ∃ k, m = k + 1 := ⟨m - 1, by omega⟩
    have he := path_error (exprOr n) i (by rw [hi]; exact hr.mono (by bytes_decide))
    exact ⟨i, by simp [many0Loop, he], hi⟩
  | stepsPlain p ps w s w' t hw hs hw' ht iht =>
    intro ps' hps n hn r hr i hi m acc hm
    cases hps
    obtain ⟨m, rfl⟩ : ∃ k, m = k + 1 := ⟨m - 1, by omega⟩
    have hrd : HeadOk isRawDelim r :=
      HeadOk.of_dropSpaces space_rawDelim (hr.mono afterPath_delim)
    have hi' : dropSpaces i = s ++ (w' ++ (t ++ r)) := by
      rw [hi]; simp only [List.append_assoc]
      rw [dropSpaces_ws _ _ hw, hs.ns]
    have hx : HeadOk isRawDelim (w' ++ (t ++ r)) :=
      HeadOk.ws_append space_rawDelim hw' (ht.steps_follow r hrd)
    have hstep := path_plain (exprOr n) hs _ hx i hi'
    rw [dropSpaces_ws _ _ hw'] at hstep
    have hlen : (dropSpaces (t ++ r)).length < i.length := by
      have h1 := dropSpaces_length i
      have h2 := dropSpaces_length (t ++ r)
      rw [hi'] at h1
      obtain ⟨c, t', rfl, _⟩ := hs.head
      simp at h1 h2 ⊢
      omega
    have hne : ((dropSpaces (t ++ r)).length == i.length) = false := by simp; omega
    obtain ⟨r', h1, h2⟩ := iht ps rfl n (by simp at hn; omega) r hr (dropSpaces (t ++ r))
      (dropSpaces_idem _) m (p :: acc) (by omega)
    refine ⟨r', ?_, h2⟩
    simp only [many0Loop, hstep, hne, Bool.false_eq_true, if_false]
    rw [h1]
    simp
  | stepsFilter e ps w0 w1 w2 s w3 w4 t hw0 hw1 hw2 _ hw3 hw4 _ ihe iht =>
    intro ps' hps n hn r hr i hi m acc hm
    cases hps
    obtain ⟨m, rfl⟩ : ∃ k, m = k + 1 := ⟨m - 1, by omega⟩
    obtain ⟨n', rfl⟩ : ∃ k, n = k + 1 := ⟨n - 1, by simp at hn; omega⟩
    have hi' : dropSpaces i = 63 :: (w1 ++ 40 :: (w2 ++ (s ++ (w3 ++ 41 :: (w4 ++ (t ++ r)))))) := by
      rw [hi]; simp only [List.append_assoc, List.cons_append]
      rw [dropSpaces_ws _ _ hw0]; exact dropSpaces_nonspace _ _ (by decide)
    have hfol : dropSpaces (w3 ++ 41 :: (w4 ++ (t ++ r))) = 41 :: (w4 ++ (t ++ r)) := by
      rw [dropSpaces_ws _ _ hw3]; exact dropSpaces_nonspace _ _ (by decide)
    obtain ⟨r1, h1, h2⟩ := ihe n' (by simp at hn; omega) (w3 ++ 41 :: (w4 ++ (t ++ r)))
      (by rw [hfol]; exact Or.inr ⟨_, rfl⟩)
    have hstep := path_filter (exprOr (n' + 1)) i _ _ _ r1 (w4 ++ (t ++ r)) e hi'
      (by rw [dropSpaces_ws _ _ hw1]; exact dropSpaces_nonspace _ _ (by decide))
      (dropSpaces_ws _ _ hw2) h1 (by rw [h2, hfol])
    rw [dropSpaces_ws _ _ hw4] at hstep
    have hlen : (dropSpaces (t ++ r)).length < i.length := by
      have h1 := dropSpaces_length i
      have h2 := dropSpaces_length (t ++ r)
      rw [hi'] at h1
      simp at h1 h2 ⊢
      omega
    have hne : ((dropSpaces (t ++ r)).length == i.length) = false := by simp; omega
    obtain ⟨r', h3, h4⟩ := iht ps rfl (n' + 1) (by simp at hn; omega) r hr (dropSpaces (t ++ r))
      (dropSpaces_idem _) m (.filterExpr e :: acc) (by omega)
    refine ⟨r', ?_, h4⟩
    simp only [many0Loop, hstep, hne, Bool.false_eq_true, if_false]
    rw [h3]
    simp

/-! ### top level -/

theorem finish_ok {α} (a : α) (e : String) : finish (.ok a []) e = .ok a := rfl

/-- A rendered predicate expression, with any whitespace around it, parses to `[Predicate(e)]`. -/
theorem parse_predicate {e : Expr} {s : Bytes} (h : R .orL true e s) (w0 w1 : Bytes) (hw0 : Ws w0)
    (hw1 : Ws w1) : parseJsonPath (w0 ++ (s ++ w1)) = .ok [.predicate e] := by
  unfold parseJsonPath
  generalize hN : (w0 ++ (s ++ w1)).length = N
  have hsN : s.length ≤ N := by rw [← hN]; simp; omega
  obtain ⟨r', h1, h2⟩ := h.sound N hsN w1 (by rw [dropSpaces_ws_nil w1 hw1]; exact Or.inl rfl)
  rw [dropSpaces_ws_nil w1 hw1] at h2
  have hpred : predicate (N + 1) (dropSpaces (s ++ w1)) = .ok [.predicate e] [] := by
    unfold predicate
    apply map_ok (a := e)
    have := delimited_ws (exprOr (N + 1) true) (dropSpaces (s ++ w1)) _ r' e (dropSpaces_idem _) h1
    rw [h2] at this
    exact this
  have hpp : predicateOrPaths (N + 1) (dropSpaces (s ++ w1)) = .ok [.predicate e] [] := by
    unfold predicateOrPaths
    exact alt_ok hpred
  have := delimited_ws (predicateOrPaths (N + 1)) (w0 ++ (s ++ w1)) _ [] _ (dropSpaces_ws _ _ hw0) hpp
  unfold jsonPath
  rw [this]
  rfl

/-- on a rendered step sequence, `many0(inner_path)` reads the plain steps up to the first
filter step (or the end) -/
theorem R.plain_prefix {k : Kind} {rp : Bool} {e : Expr} {s : Bytes} (h : R k rp e s) :
    k = .steps → ∀ r, dropSpaces r = [] → ∀ i, dropSpaces i = dropSpaces (s ++ r) →
    ∀ m acc, i.length < m →
    ∃ xs r', many0Loop (delimited ws innerPath ws) m i acc = .ok (acc.reverse ++ xs) r' ∧
      HeadOk (fun c => c == 63) (dropSpaces r') := by
  induction h with
  | stepsNil =>
    intro _ r hr i hi m acc hm
    obtain ⟨m, rfl⟩ : ∃ k, m = k + 1 := ⟨m - 1, by omega⟩
    have hi0 : dropSpaces i = [] := by rw [hi]; exact hr
    have he := innerPathWs_error i (by rw [hi0]; exact HeadOk.nil)
    exact ⟨[], i, by simp [many0Loop, he], by rw [hi0]; exact HeadOk.nil⟩
  | stepsPlain p ps w s w' t hw hs hw' ht iht =>
    intro _ r hr i hi m acc hm
    obtain ⟨m, rfl⟩ : ∃ k, m = k + 1 := ⟨m - 1, by omega⟩
    have hrd : HeadOk isRawDelim r :=
      HeadOk.of_dropSpaces space_rawDelim (by rw [hr]; exact HeadOk.nil)
    have hi' : dropSpaces i = s ++ (w' ++ (t ++ r)) := by
      rw [hi]; simp only [List.append_assoc]
      rw [dropSpaces_ws _ _ hw, hs.ns]
    have hx : HeadOk isRawDelim (w' ++ (t ++ r)) :=
      HeadOk.ws_append space_rawDelim hw' (ht.steps_follow r hrd)
    have hstep := innerPathWs_render hs _ hx i hi'
    rw [dropSpaces_ws _ _ hw'] at hstep
    have hlen : (dropSpaces (t ++ r)).length < i.length := by
      have h1 := dropSpaces_length i
      have h2 := dropSpaces_length (t ++ r)
      rw [hi'] at h1
      obtain ⟨c, t', rfl, _⟩ := hs.head
      simp at h1 h2 ⊢
      omega
    have hne : ((dropSpaces (t ++ r)).length == i.length) = false := by simp; omega
    obtain ⟨xs, r', h1, h2⟩ := iht rfl r hr (dropSpaces (t ++ r)) (dropSpaces_idem _) m (p :: acc)
      (by omega)
    refine ⟨p :: xs, r', ?_, h2⟩
    simp only [many0Loop, hstep, hne, Bool.false_eq_true, if_false]
    rw [h1]
    simp
  | stepsFilter e ps w0 w1 w2 s w3 w4 t hw0 =>
    intro _ r hr i hi m acc hm
    obtain ⟨m, rfl⟩ : ∃ k, m = k + 1 := ⟨m - 1, by omega⟩
    have hi' : dropSpaces i = 63 :: (w1 ++ 40 :: (w2 ++ (s ++ (w3 ++ 41 :: (w4 ++ (t ++ r)))))) := by
      rw [hi]; simp only [List.append_assoc, List.cons_append]
      rw [dropSpaces_ws _ _ hw0]; exact dropSpaces_nonspace _ _ (by decide)
    have he := innerPathWs_error i (by rw [hi']; exact HeadOk.cons (by decide))
    exact ⟨[], i, by simp [many0Loop, he], by rw [hi']; exact HeadOk.cons (by decide)⟩
  | cmp => intro hk; cases hk
  | paren => intro hk; cases hk
  | exists_ => intro hk; cases hk
  | andTailNil => intro hk; cases hk
  | andTailCons => intro hk; cases hk
  | andL => intro hk; cases hk
  | orTailNil => intro hk; cases hk
  | orTailCons => intro hk; cases hk
  | orL => intro hk; cases hk

theorem ops_error_filterHead (X : Bytes) (h : HeadOk (fun c => c == 63) X) :
    binaryArithOp X = .error ∧ op X = .error := by
  cases X with
  | nil => exact ⟨by simp [binaryArithOp, alt, value, char, PR.bind],
      by simp [op, alt, value, tag, isPrefix, char, PR.bind]⟩
  | cons c t =>
    have : c = 63 := by simpa using h.head
    subst this
    exact ⟨by simp [binaryArithOp, alt, value, char, PR.bind],
      by simp [op, alt, value, tag, isPrefix, char, PR.bind]⟩

/-- the `predicate` alternative fails (recoverably) on `$` followed by rendered steps -/
theorem exprOrStep_rooted_error (Rr : Bool → Parser Expr) {ps : List Path} {t : Bytes}
    (h : R .steps false (.paths ps) t) (w1 : Bytes) (hw1 : Ws w1) :
    exprOrStep Rr true (36 :: (t ++ w1)) = .error := by
  obtain ⟨xs, r', h1, h2⟩ := h.plain_prefix rfl w1 (dropSpaces_ws_nil w1 hw1) (t ++ w1) rfl
    ((t ++ w1).length + 1) [] (by omega)
  have hm : many0 (delimited ws innerPath ws) (t ++ w1) = .ok xs r' := by
    unfold many0; rw [h1]; simp
  have hie : innerExpr true (36 :: (t ++ w1)) = .ok (.paths (.root :: xs)) r' := by
    unfold innerExpr
    exact alt_ok (map_ok (exprPaths_render (RHead.root true) _ _ _ hm))
  have hL := delimited_ws (innerExpr true) (36 :: (t ++ w1)) _ r' _
    (dropSpaces_nonspace _ _ (by decide)) hie
  obtain ⟨ho1, ho2⟩ := ops_error_filterHead _ h2
  have b1 : eaB1 true (36 :: (t ++ w1)) = .error := map_error (tuple3_error2 hL ho1)
  have b2 : eaB2 true (36 :: (t ++ w1)) = .error := map_error (tuple3_error2 hL ho2)
  have b3 : eaB3 true (36 :: (t ++ w1)) = .error := by
    unfold eaB3
    apply map_error
    simp [pair, unaryArithOp_error 36 _ (by decide) (by decide), PR.bind]
  have b4 := eaB4_error Rr true 36 (t ++ w1) (by decide)
  have b5 : eaB5 Rr (36 :: (t ++ w1)) = .error := by
    unfold eaB5
    apply map_error
    simp [existsFn, preceded, tag_miss 101 _ 36 (t ++ w1) (by decide), kwExists, PR.bind]
  have hatom : exprAtom Rr true (36 :: (t ++ w1)) = .error := by
    rw [exprAtom_eq, alt_error b1, alt_error b2, alt_error b3, alt_error b4]
    exact b5
  have hand : exprAnd Rr true (36 :: (t ++ w1)) = .error := by
    simp [exprAnd, separatedList1, hatom, PR.bind]
  simp [exprOrStep, separatedList1, hand, PR.bind]

/-- `$` followed by a rendered sequence of plain and filter steps, with any whitespace around,
parses to `Root :: steps`. -/
theorem parse_rooted {ps : List Path} {t : Bytes} (h : R .steps false (.paths ps) t) (w0 w1 : Bytes)
    (hw0 : Ws w0) (hw1 : Ws w1) : parseJsonPath (w0 ++ 36 :: (t ++ w1)) = .ok (.root :: ps) := by
  unfold parseJsonPath
  generalize hN : (w0 ++ 36 :: (t ++ w1)).length = N
  have htN : t.length ≤ N + 1 := by rw [← hN]; simp; omega
  have hpred : predicate (N + 1) (36 :: (t ++ w1)) = .error := by
    unfold predicate
    apply map_error
    exact delimited_ws_error _ _ _ (dropSpaces_nonspace _ _ (by decide))
      (exprOrStep_rooted_error (exprOr N) h w1 hw1)
  obtain ⟨r', h1, h2⟩ := h.sound ps rfl (N + 1) htN w1
    (by rw [dropSpaces_ws_nil w1 hw1]; exact HeadOk.nil) (t ++ w1) rfl ((t ++ w1).length + 1) []
    (by omega)
  rw [dropSpaces_ws_nil w1 hw1] at h2
  have hm : many0 (path (exprOr (N + 1))) (t ++ w1) = .ok ps r' := by
    unfold many0; rw [h1]; simp
  have hpaths : paths (N + 1) (36 :: (t ++ w1)) = .ok (.root :: ps) r' := by
    simp [paths, map, pair, opt, prePath, alt, value, char, hm, PR.bind]
  have hpp : predicateOrPaths (N + 1) (36 :: (t ++ w1)) = .ok (.root :: ps) r' := by
    unfold predicateOrPaths
    rw [alt_error hpred]
    exact hpaths
  have := delimited_ws (predicateOrPaths (N + 1)) (w0 ++ 36 :: (t ++ w1)) _ r' _
    (by rw [dropSpaces_ws _ _ hw0]; exact dropSpaces_nonspace _ _ (by decide)) hpp
  unfold jsonPath
  rw [this, h2]
  rfl

end PathRT2
end Jsonb
