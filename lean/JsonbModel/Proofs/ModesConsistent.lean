/-
C15 — selection modes are mutually consistent, stated between the MODEL results (no spec in
between): what array-mode, mixed-mode and first-mode return is determined by what all-mode returns
on the same document, path and fuel, because `select` runs one `find_positions` and differs only
in the writer.

All-mode into empty buffers returns `(dataAll, offsAll)`.  The items are the documents that
`offsAll` delimits in `dataAll`: `dataAll = items.flatMap encodeSpec`, `offsAll = ends 0 items`
(`chunks_ends` below: cutting `dataAll` at `offsAll` gives back `items.map encodeSpec`).
-/
import JsonbModel.Proofs.SelectRefine4
import JsonbModel.Proofs.SelectRefine5

namespace Jsonb
open JV Sel

/-! ### the offsets delimit the items -/

/-- cut `data` at the absolute end offsets `offs`, the first chunk starting at `start` -/
def chunks (data : Bytes) : Nat → List Nat → List Bytes
  | _, [] => []
  | start, e :: es => ((data.drop start).take (e - start)) :: chunks data e es

theorem ends_length (acc : Nat) : ∀ ws : List JV, (ends acc ws).length = ws.length
  | [] => rfl
  | w :: ws => by simp [ends, ends_length _ ws]

theorem ends_shift (a b : Nat) : ∀ ws : List JV, ends (a + b) ws = (ends a ws).map (· + b)
  | [] => rfl
  | w :: ws => by
    simp only [ends, List.map_cons]
    rw [show a + b + (encodeSpec w).length = a + (encodeSpec w).length + b by omega, ends_shift _ b ws]

theorem chunks_ends_aux (pre : Bytes) : ∀ (ws : List JV) (post : Bytes),
    chunks (pre ++ (ws.flatMap encodeSpec ++ post)) pre.length (ends pre.length ws) = ws.map encodeSpec
  | [], _ => rfl
  | w :: ws, post => by
    simp only [ends, chunks, List.flatMap_cons, List.map_cons]
    congr 1
    · simp [List.append_assoc]
    · have := chunks_ends_aux (pre ++ encodeSpec w) ws post
      simp only [List.length_append, List.append_assoc] at this ⊢
      exact this

/-- **the offsets delimit the items**: cutting the all-mode data at the all-mode offsets gives the
encoded items back, one by one -/
theorem chunks_ends (ws : List JV) :
    chunks (ws.flatMap encodeSpec) 0 (ends 0 ws) = ws.map encodeSpec := by
  have := chunks_ends_aux [] ws []
  simpa using this

/-- two item lists with the same all-mode output have the same encodings item by item -/
theorem items_determined (ws ws' : List JV)
    (hd : ws.flatMap encodeSpec = ws'.flatMap encodeSpec) (ho : ends 0 ws = ends 0 ws') :
    ws.map encodeSpec = ws'.map encodeSpec := by
  rw [← chunks_ends ws, ← chunks_ends ws', hd, ho]

/-! ### one frontier, four writers -/

theorem RepL_take {root : Bytes} {ps : List Pos} {ws : List JV} (h : Sel.RepL root ps ws) (n : Nat) :
    Sel.RepL root (ps.take n) (ws.take n) := by
  induction n generalizing ps ws with
  | zero => simp only [List.take_zero]; trivial
  | succ n ih =>
    cases ps <;> cases ws
    · trivial
    · exact h.elim
    · exact h.elim
    · exact ⟨h.1, ih h.2⟩

/-- The frontier behind an all-mode answer: positions that represent some items, and the answer is
the items' documents with their running end offsets. -/
theorem all_frontier (v : JV) (hg : goodTop v = true) (jp : JsonPath) (hok : okPaths jp = true)
    (hnp : isPredicate jp = false) (fuel : Nat) (dataAll : Bytes) (offsAll : List Nat)
    (hall : select jp .all (encodeSpec v) [] [] fuel = .ok (dataAll, offsAll)) :
    ∃ ps items, findPositions fuel (encodeSpec v) none jp = .ok ps ∧ Sel.RepL (encodeSpec v) ps items ∧
      dataAll = items.flatMap encodeSpec ∧ offsAll = ends 0 items := by
  unfold select at hall
  cases hf : findPositions fuel (encodeSpec v) none jp with
  | ok ps =>
    rw [hf] at hall
    simp only [hnp, Bool.false_eq_true, if_false] at hall
    obtain ⟨items, h1, _⟩ := findPositions_refines v hg jp hok fuel ps hf
    rw [buildValues_rep _ ps items h1] at hall
    have := Res.ok.inj hall
    simp only [List.nil_append, List.length_nil, Prod.mk.injEq] at this
    exact ⟨ps, items, rfl, h1, this.1.symm, this.2.symm⟩
  | err e => rw [hf] at hall; simp at hall
  | panic s => rw [hf] at hall; simp at hall
  | fuel => rw [hf] at hall; simp at hall

/-- **array-mode returns one array holding exactly the all-mode items.**  For a good document, a
non-predicate path without unsupported steps and any fuel: if all-mode (into empty buffers)
answers `(dataAll, offsAll)`, these are the documents of some `items` with their running end
offsets, and array-mode — into any caller buffers, with the same fuel — answers the one document
`encodeSpec (arr items)` and pushes one offset, the end of the data.  Size hypotheses: the
document is shorter than 2^28 bytes (so every item fits an entry word) and there are fewer than
2^29 items (so the count fits the header word). -/
theorem array_holds_all_items (v : JV) (hg : goodTop v = true) (jp : JsonPath) (hok : okPaths jp = true)
    (hnp : isPredicate jp = false) (hsmall : (encodeSpec v).length < 268435456)
    (fuel : Nat) (dataAll : Bytes) (offsAll : List Nat)
    (hall : select jp .all (encodeSpec v) [] [] fuel = .ok (dataAll, offsAll)) :
    ∃ items, dataAll = items.flatMap encodeSpec ∧ offsAll = ends 0 items ∧
      (items.length < 536870912 → ∀ (data : Bytes) (offs : List Nat),
        select jp .array (encodeSpec v) data offs fuel
          = .ok (data ++ encodeSpec (arr items), offs ++ [(data ++ encodeSpec (arr items)).length])) := by
  obtain ⟨ps, items, hf, h1, hd, ho⟩ := all_frontier v hg jp hok hnp fuel dataAll offsAll hall
  refine ⟨items, hd, ho, fun hn data offs => ?_⟩
  simp only [select, hf, hnp, Bool.false_eq_true, if_false]
  exact buildArrayOf_rep _ ps items h1 (repL_goodL hsmall h1) hn data offs

/-- the number of items is the number of all-mode offsets: the count hypothesis of
`array_holds_all_items` can be read off the all-mode answer -/
theorem array_holds_all_items' (v : JV) (hg : goodTop v = true) (jp : JsonPath) (hok : okPaths jp = true)
    (hnp : isPredicate jp = false) (hsmall : (encodeSpec v).length < 268435456)
    (fuel : Nat) (dataAll : Bytes) (offsAll : List Nat)
    (hall : select jp .all (encodeSpec v) [] [] fuel = .ok (dataAll, offsAll))
    (hn : offsAll.length < 536870912) (data : Bytes) (offs : List Nat) :
    ∃ items, dataAll = items.flatMap encodeSpec ∧ offsAll = ends 0 items ∧
      chunks dataAll 0 offsAll = items.map encodeSpec ∧
      select jp .array (encodeSpec v) data offs fuel
        = .ok (data ++ encodeSpec (arr items), offs ++ [(data ++ encodeSpec (arr items)).length]) := by
  obtain ⟨items, hd, ho, h⟩ := array_holds_all_items v hg jp hok hnp hsmall fuel dataAll offsAll hall
  have hl : items.length < 536870912 := by rw [← ends_length 0 items, ← ho]; exact hn
  exact ⟨items, hd, ho, by rw [hd, ho]; exact chunks_ends items, h hl data offs⟩

/-- **mixed-mode**: the array of the all-mode items when there are two or more of them, otherwise
exactly the all-mode answer (framed into the caller's buffers) -/
theorem mixed_from_all (v : JV) (hg : goodTop v = true) (jp : JsonPath) (hok : okPaths jp = true)
    (hnp : isPredicate jp = false) (hsmall : (encodeSpec v).length < 268435456)
    (fuel : Nat) (dataAll : Bytes) (offsAll : List Nat)
    (hall : select jp .all (encodeSpec v) [] [] fuel = .ok (dataAll, offsAll)) :
    ∃ items, dataAll = items.flatMap encodeSpec ∧ offsAll = ends 0 items ∧
      (items.length < 536870912 → ∀ (data : Bytes) (offs : List Nat),
        select jp .mixed (encodeSpec v) data offs fuel
          = if items.length > 1
            then .ok (data ++ encodeSpec (arr items), offs ++ [(data ++ encodeSpec (arr items)).length])
            else .ok (data ++ dataAll, offs ++ offsAll.map (· + data.length))) := by
  obtain ⟨ps, items, hf, h1, hd, ho⟩ := all_frontier v hg jp hok hnp fuel dataAll offsAll hall
  refine ⟨items, hd, ho, fun hn data offs => ?_⟩
  simp only [select, hf, hnp, Bool.false_eq_true, if_false, RepL_length h1]
  by_cases hm : items.length > 1
  · rw [if_pos hm, if_pos hm]
    exact buildArrayOf_rep _ ps items h1 (repL_goodL hsmall h1) hn data offs
  · rw [if_neg hm, if_neg hm, buildValues_rep _ ps items h1, hd, ho, ← ends_shift]
    simp

/-- mixed-mode with at most one item needs no size hypothesis -/
theorem mixed_from_all_small (v : JV) (hg : goodTop v = true) (jp : JsonPath) (hok : okPaths jp = true)
    (hnp : isPredicate jp = false) (fuel : Nat) (dataAll : Bytes) (offsAll : List Nat)
    (hall : select jp .all (encodeSpec v) [] [] fuel = .ok (dataAll, offsAll))
    (hle : offsAll.length ≤ 1) (data : Bytes) (offs : List Nat) :
    select jp .mixed (encodeSpec v) data offs fuel
      = .ok (data ++ dataAll, offs ++ offsAll.map (· + data.length)) := by
  obtain ⟨ps, items, hf, h1, hd, ho⟩ := all_frontier v hg jp hok hnp fuel dataAll offsAll hall
  have hl : ¬ items.length > 1 := by rw [← ends_length 0 items, ← ho]; omega
  simp only [select, hf, hnp, Bool.false_eq_true, if_false, RepL_length h1, if_neg hl]
  rw [buildValues_rep _ ps items h1, hd, ho, ← ends_shift]
  simp

/-- **first-mode = the first all-mode item or nothing**: the document of the first item with its end
offset, and nothing at all when all-mode returns nothing -/
theorem first_from_all (v : JV) (hg : goodTop v = true) (jp : JsonPath) (hok : okPaths jp = true)
    (hnp : isPredicate jp = false) (fuel : Nat) (dataAll : Bytes) (offsAll : List Nat)
    (hall : select jp .all (encodeSpec v) [] [] fuel = .ok (dataAll, offsAll)) :
    ∃ items, dataAll = items.flatMap encodeSpec ∧ offsAll = ends 0 items ∧
      ∀ (data : Bytes) (offs : List Nat),
        select jp .first (encodeSpec v) data offs fuel
          = .ok (data ++ (items.take 1).flatMap encodeSpec, offs ++ ends data.length (items.take 1)) := by
  obtain ⟨ps, items, hf, h1, hd, ho⟩ := all_frontier v hg jp hok hnp fuel dataAll offsAll hall
  refine ⟨items, hd, ho, fun data offs => ?_⟩
  simp only [select, hf, hnp, Bool.false_eq_true, if_false]
  exact buildValues_rep _ _ _ (RepL_take h1 1) data offs

/-- the first delimited item of an all-mode answer, framed into the caller's buffers: the bytes up
to the first offset and that offset; nothing when there is no offset -/
def firstCut (dataAll : Bytes) (offsAll : List Nat) (data : Bytes) (offs : List Nat) : Bytes × List Nat :=
  match offsAll with
  | [] => (data, offs)
  | e :: _ => (data ++ dataAll.take e, offs ++ [data.length + e])

/-- first-mode in terms of the all-mode answer alone: the bytes up to the first offset, and that
offset; nothing when there is no offset -/
theorem first_from_all_bytes (v : JV) (hg : goodTop v = true) (jp : JsonPath) (hok : okPaths jp = true)
    (hnp : isPredicate jp = false) (fuel : Nat) (dataAll : Bytes) (offsAll : List Nat)
    (hall : select jp .all (encodeSpec v) [] [] fuel = .ok (dataAll, offsAll)) (data : Bytes) (offs : List Nat) :
    select jp .first (encodeSpec v) data offs fuel
      = .ok (firstCut dataAll offsAll data offs) := by
  obtain ⟨items, hd, ho, h⟩ := first_from_all v hg jp hok hnp fuel dataAll offsAll hall
  rw [h data offs, hd, ho]
  cases items with
  | nil => simp [ends, firstCut]
  | cons w ws => simp [ends, firstCut, List.flatMap_cons]

/-- an all-mode error (or panic, or fuel exhaustion) is the same in every mode: it comes from
`find_positions`, or (for all-mode) from a writer that every other mode runs on a prefix -/
theorem findPositions_failure_all_modes (jp : JsonPath) (root data : Bytes) (offs : List Nat) (fuel : Nat)
    (m : Mode) :
    (∀ e, findPositions fuel root none jp = .err e → select jp m root data offs fuel = .err e) ∧
    (∀ s, findPositions fuel root none jp = .panic s → select jp m root data offs fuel = .panic s) ∧
    (findPositions fuel root none jp = .fuel → select jp m root data offs fuel = .fuel) := by
  refine ⟨fun e h => ?_, fun s h => ?_, fun h => ?_⟩ <;> simp only [select, h]

/-- **all four modes from one item list**: on a good document shorter than 2^28 bytes, for a
non-predicate path without unsupported steps and any fuel, either `find_positions` fails and
every mode fails with it in the same way, or there is one list of items and
* all-mode writes each item as its own document, one running end offset per item,
* first-mode writes the first of them (or nothing),
* array-mode writes the one array of them and pushes one offset,
* mixed-mode is array-mode for two or more items and all-mode otherwise
(the last two when there are fewer than 2^29 items) -/
theorem modes_consistent (v : JV) (hg : goodTop v = true) (jp : JsonPath) (hok : okPaths jp = true)
    (hnp : isPredicate jp = false) (hsmall : (encodeSpec v).length < 268435456) (fuel : Nat) :
    (∃ items : List JV,
      (∀ data offs, select jp .all (encodeSpec v) data offs fuel
          = .ok (data ++ items.flatMap encodeSpec, offs ++ ends data.length items)) ∧
      (∀ data offs, select jp .first (encodeSpec v) data offs fuel
          = .ok (data ++ (items.take 1).flatMap encodeSpec, offs ++ ends data.length (items.take 1))) ∧
      (items.length < 536870912 → ∀ data offs,
        select jp .array (encodeSpec v) data offs fuel
          = .ok (data ++ encodeSpec (arr items), offs ++ [(data ++ encodeSpec (arr items)).length]) ∧
        select jp .mixed (encodeSpec v) data offs fuel
          = if items.length > 1 then select jp .array (encodeSpec v) data offs fuel
            else select jp .all (encodeSpec v) data offs fuel)) ∨
    (∃ failure : Res (Bytes × List Nat), failure.isOk = false ∧
      ∀ m data offs, select jp m (encodeSpec v) data offs fuel = failure) := by
  cases hf : findPositions fuel (encodeSpec v) none jp with
  | ok ps =>
    obtain ⟨items, h1, _⟩ := findPositions_refines v hg jp hok fuel ps hf
    refine .inl ⟨items, fun data offs => ?_, fun data offs => ?_, fun hn data offs => ⟨?_, ?_⟩⟩
    · simp only [select, hf, hnp, Bool.false_eq_true, if_false]
      exact buildValues_rep _ ps items h1 data offs
    · simp only [select, hf, hnp, Bool.false_eq_true, if_false]
      exact buildValues_rep _ _ _ (RepL_take h1 1) data offs
    · simp only [select, hf, hnp, Bool.false_eq_true, if_false]
      exact buildArrayOf_rep _ ps items h1 (repL_goodL hsmall h1) hn data offs
    · rw [mixed_rule jp _ data offs fuel ps hf hnp, RepL_length h1]
  | err e => exact .inr ⟨.err e, rfl, fun m data offs => by simp only [select, hf]⟩
  | panic s => exact .inr ⟨.panic s, rfl, fun m data offs => by simp only [select, hf]⟩
  | fuel => exact .inr ⟨.fuel, rfl, fun m data offs => by simp only [select, hf]⟩

/-- the same for the paths `parse_json_path` can produce (`suppPaths`) -/
theorem array_holds_all_items_supp (v : JV) (hg : goodTop v = true) (jp : JsonPath) (hs : suppPaths jp = true)
    (hnp : isPredicate jp = false) (hsmall : (encodeSpec v).length < 268435456)
    (fuel : Nat) (dataAll : Bytes) (offsAll : List Nat)
    (hall : select jp .all (encodeSpec v) [] [] fuel = .ok (dataAll, offsAll)) :
    ∃ items, dataAll = items.flatMap encodeSpec ∧ offsAll = ends 0 items ∧
      (items.length < 536870912 → ∀ (data : Bytes) (offs : List Nat),
        select jp .array (encodeSpec v) data offs fuel
          = .ok (data ++ encodeSpec (arr items), offs ++ [(data ++ encodeSpec (arr items)).length])) :=
  array_holds_all_items v hg jp (suppPaths_ok jp hs) hnp hsmall fuel dataAll offsAll hall

end Jsonb
