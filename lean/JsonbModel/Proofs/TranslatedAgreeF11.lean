/-
Phase 5b: the `convert_to_comparable` family.  F11: the primitives of RustPrelude5b.lean and the order-preserving
8-byte image of an `f64` (`s ^ (((s >> 63) as u64) >> 1) as i64`, top bit toggled) against `Fn.f64Key`.
-/
import JsonbModel.Proofs.TranslatedAgreeF10
import JsonbModel.Proofs.KeyNum

set_option linter.unusedSimpArgs false
set_option linter.unusedVariables false

namespace Jsonb.TrAgree
open Jsonb.Rs

/-- `depth.saturating_add(1)` on a `u8` is the model's `incDepth` -/
theorem saturatingAdd_u8 (d : Nat) (hd : d ≤ 255) :
    Rs.saturatingAdd .u8 (d : Int) 1 = ((if d + 1 ≤ 255 then d + 1 else 255 : Nat) : Int) := by
  unfold Rs.saturatingAdd
  have h1 : IntTy.u8.maxVal = 255 := by decide
  have h2 : IntTy.u8.minVal = 0 := by decide
  rw [h1, h2]
  by_cases h : d + 1 ≤ 255
  · rw [if_neg (by omega), if_neg (by omega), if_pos h]; simp
  · rw [if_pos (by omega), if_neg h]; rfl

/-- complement of the low `n` bits -/
theorem xor_low_mask (n x : Nat) (hx : x < 2 ^ n) : x ^^^ (2 ^ n - 1) = 2 ^ n - 1 - x := by
  apply Nat.eq_of_testBit_eq
  intro i
  rw [Nat.testBit_xor, Nat.testBit_two_pow_sub_one]
  have : 2 ^ n - 1 - x = 2 ^ n - (x + 1) := by omega
  rw [this, Nat.testBit_two_pow_sub_succ hx]
  by_cases hi : i < n
  · simp [hi]
  · have hlt : x < 2 ^ i := Nat.lt_of_lt_of_le hx (Nat.pow_le_pow_right (by omega) (by omega))
    simp [hi, Nat.testBit_lt_two_pow hlt]

theorem xor_128_lo : ∀ b : Fin 128, b.val ^^^ 128 = b.val + 128 := by decide
theorem xor_128_hi : ∀ b : Fin 128, (b.val + 128) ^^^ 128 = b.val := by decide

/-- `n.to_bits() as i64` -/
theorem cast_i64_bits (bits : Nat) (h : bits < 18446744073709551616) :
    Rs.cast .i64 (Rs.f64ToBits bits) =
      if bits < 9223372036854775808 then (bits : Int) else (bits : Int) - 18446744073709551616 := by
  unfold Rs.cast Rs.wrap Rs.f64ToBits
  have hb : IntTy.i64.bits = 64 := rfl
  have hs : IntTy.i64.signed = true := rfl
  simp only [hb, hs, true_and]
  have e1 : ((2 ^ 64 : Nat) : Int) = 18446744073709551616 := by norm_num
  have e2 : ((2 ^ (64 - 1) : Nat) : Int) = 9223372036854775808 := by norm_num
  rw [e1, e2]
  have hm : (bits : Int) % 18446744073709551616 = (bits : Int) := by omega
  rw [hm]
  by_cases hlt : bits < 9223372036854775808
  · rw [if_neg (by omega), if_pos hlt]
  · rw [if_pos (by omega), if_neg hlt]

/-- `s >> 63` on the `i64`: `0` or `-1` -/
theorem shr63_i64 (s : Int) (h : -9223372036854775808 ≤ s ∧ s < 9223372036854775808) :
    Rs.shr .i64 s 63 = .ok (if 0 ≤ s then 0 else -1) := by
  unfold Rs.shr
  have hb : IntTy.i64.bits = 64 := rfl
  rw [hb, if_pos (by omega)]
  have e1 : (((2 ^ (63 : Int).toNat : Nat)) : Int) = 9223372036854775808 := by rfl
  rw [e1]
  congr 1
  by_cases h0 : 0 ≤ s
  · rw [if_pos h0]; omega
  · rw [if_neg h0]; omega

/-- `((s >> 63) as u64) >> 1`: `0` or `0x7fff…` -/
theorem shr1_mask (x : Int) (hx : x = 0 ∨ x = -1) :
    Rs.shr .u64 (Rs.cast .u64 x) 1 = .ok (if x = 0 then 0 else 9223372036854775807) := by
  unfold Rs.shr Rs.cast Rs.wrap
  have hb : IntTy.u64.bits = 64 := rfl
  have hs : IntTy.u64.signed = false := rfl
  simp only [hb, hs, Bool.false_eq_true, false_and, if_false]
  rw [if_pos (by omega)]
  have e1 : ((2 ^ 64 : Nat) : Int) = 18446744073709551616 := by norm_num
  have e2 : (((2 ^ (1 : Int).toNat : Nat)) : Int) = 2 := by rfl
  rw [e1, e2]
  rcases hx with rfl | rfl
  · simp
  · rw [if_neg (by omega)]; congr 1

/-- complement of the low `n` bits below a set bit `n` -/
theorem xor_low_mask_hi (n y : Nat) (hy : y < 2 ^ n) : (2 ^ n + y) ^^^ (2 ^ n - 1) = 2 ^ n + (2 ^ n - 1 - y) := by
  apply Nat.eq_of_testBit_eq
  intro i
  rw [Nat.testBit_xor, Nat.testBit_two_pow_sub_one]
  have e : 2 ^ n - 1 - y = 2 ^ n - (y + 1) := by omega
  rcases Nat.lt_trichotomy i n with hi | hi | hi
  · rw [Nat.testBit_two_pow_add_gt hi, Nat.testBit_two_pow_add_gt hi, e, Nat.testBit_two_pow_sub_succ hy]
    simp [hi]
  · subst hi
    rw [Nat.testBit_two_pow_add_eq, Nat.testBit_two_pow_add_eq, Nat.testBit_lt_two_pow hy,
      Nat.testBit_lt_two_pow (by omega : 2 ^ i - 1 - y < 2 ^ i)]
    simp
  · have hp : 2 ^ (n + 1) ≤ 2 ^ i := Nat.pow_le_pow_right (by omega) (by omega)
    have h2 : 2 ^ (n + 1) = 2 ^ n + 2 ^ n := by rw [Nat.pow_succ]; omega
    rw [Nat.testBit_lt_two_pow (by omega : 2 ^ n + y < 2 ^ i),
      Nat.testBit_lt_two_pow (by omega : 2 ^ n + (2 ^ n - 1 - y) < 2 ^ i)]
    simp [Nat.not_lt_of_gt hi]

/-- the bits of the image before the sign byte is toggled -/
def keyPre (bits : Nat) : Nat :=
  if bits < 9223372036854775808 then bits else 9223372036854775808 + (18446744073709551615 - bits)

theorem bitsOf_i64 (x : Int) (h : -9223372036854775808 ≤ x ∧ x < 9223372036854775808) :
    Rs.bitsOf .i64 x = if 0 ≤ x then x.toNat else (x + 18446744073709551616).toNat := by
  unfold Rs.bitsOf
  have hb : IntTy.i64.bits = 64 := rfl
  rw [hb]
  have e1 : ((2 ^ 64 : Nat) : Int) = 18446744073709551616 := by norm_num
  rw [e1]
  by_cases h0 : 0 ≤ x
  · rw [if_pos h0]; omega
  · rw [if_neg h0]; omega

/-- `(s ^ mask).to_be_bytes()` -/
theorem key_xor_bytes (bits : Nat) (h : bits < 18446744073709551616) :
    Rs.toBeBytes .i64 (Rs.bitxorS .i64 (Rs.cast .i64 (Rs.f64ToBits bits))
        (Rs.cast .i64 (if (if (0 : Int) ≤ Rs.cast .i64 (Rs.f64ToBits bits) then (0 : Int) else -1) = 0 then (0 : Int) else 9223372036854775807)))
      = beN 8 (keyPre bits) := by
  rw [cast_i64_bits bits h]
  unfold Rs.bitxorS
  rw [Rs.toBeBytes_wrap]
  have hc0 : Rs.cast .i64 (0 : Int) = 0 := Rs.cast_of_inRange _ _ (by decide)
  have hc1 : Rs.cast .i64 (9223372036854775807 : Int) = 9223372036854775807 := Rs.cast_of_inRange _ _ (by decide)
  by_cases hlt : bits < 9223372036854775808
  · have h0 : (0 : Int) ≤ (bits : Int) := by omega
    simp only [if_pos hlt, if_pos h0, if_true, hc0, keyPre]
    rw [bitsOf_i64 _ (by omega), bitsOf_i64 _ (by omega), if_pos h0, if_pos (by omega)]
    simp only [Int.toNat_natCast, Int.toNat_zero, Nat.xor_zero]
    exact toBeBytes_nat .i64 bits (by
      have : (2 : Nat) ^ IntTy.i64.bits = 18446744073709551616 := by norm_num [IntTy.bits]
      omega)
  · have h0 : ¬ (0 : Int) ≤ (bits : Int) - 18446744073709551616 := by omega
    have hne : ¬ ((-1 : Int) = 0) := by omega
    simp only [if_neg hlt, if_neg h0, if_neg hne, hc1, keyPre]
    rw [bitsOf_i64 _ (by omega), bitsOf_i64 _ (by omega), if_neg h0, if_pos (by omega)]
    have e1 : ((bits : Int) - 18446744073709551616 + 18446744073709551616).toNat = 2 ^ 63 + (bits - 9223372036854775808) := by
      have : (2 : Nat) ^ 63 = 9223372036854775808 := by norm_num
      omega
    have e2 : (9223372036854775807 : Int).toNat = 2 ^ 63 - 1 := by
      have : (2 : Nat) ^ 63 = 9223372036854775808 := by norm_num
      omega
    rw [e1, e2, xor_low_mask_hi 63 _ (by
      have : (2 : Nat) ^ 63 = 9223372036854775808 := by norm_num
      omega)]
    have e3 : 2 ^ 63 + (2 ^ 63 - 1 - (bits - 9223372036854775808)) = 9223372036854775808 + (18446744073709551615 - bits) := by
      have : (2 : Nat) ^ 63 = 9223372036854775808 := by norm_num
      omega
    rw [e3]
    exact toBeBytes_nat .i64 _ (by
      have : (2 : Nat) ^ IntTy.i64.bits = 18446744073709551616 := by norm_num [IntTy.bits]
      omega)

theorem beN_add_mul (w n k : Nat) : beN w (n + 256 ^ w * k) = beN w n := by
  induction w generalizing k with
  | zero => rfl
  | succ w ih =>
    have e : n + 256 ^ (w + 1) * k = n + 256 ^ w * (256 * k) := by rw [Nat.pow_succ, Nat.mul_assoc]
    simp only [beN]
    rw [e, ih (256 * k), Nat.add_mul_div_left _ _ (Nat.pow_pos (by omega)), Nat.add_mul_mod_self_left]

theorem beN7_shift (M : Nat) : beN 7 (9223372036854775808 + M) = beN 7 M := by
  have := beN_add_mul 7 M 128
  have e : (256 : Nat) ^ 7 * 128 = 9223372036854775808 := by norm_num
  rw [e, Nat.add_comm] at this
  exact this

theorem beN8_cons (N : Nat) : beN 8 N = UInt8.ofNat (N / 72057594037927936 % 256) :: beN 7 N := by
  have e : (256 : Nat) ^ 7 = 72057594037927936 := by norm_num
  rw [← e]; rfl

theorem index_beN8 (N : Nat) (h : N < 18446744073709551616) :
    Rs.index (beN 8 N) 0 = .ok ((N / 72057594037927936 : Nat) : Int) := by
  have hq : N / 72057594037927936 < 256 := by omega
  rw [beN8_cons]
  simp only [Rs.index]
  rw [if_neg (by omega)]
  simp only [Int.toNat_zero, List.getElem?_cons_zero]
  congr 2
  simp only [UInt8.toNat_ofNat']
  omega

/-- `b[0] ^= 0x80` on the eight bytes of a value below `2^63`: the top bit is set -/
theorem key_toggle_lo (N : Nat) (hlt : N < 9223372036854775808) :
    Rs.setIndex (beN 8 N) 0 (Rs.bitxor ((N / 72057594037927936 : Nat) : Int) 128) =
      .ok (beN 8 (9223372036854775808 + N)) := by
  unfold Rs.setIndex Rs.bitxor
  rw [if_pos (by simp)]
  congr 1
  simp only [Int.toNat_natCast, Int.toNat_zero, Rs.u8]
  have h128 : (128 : Int).toNat = 128 := rfl
  rw [h128, beN8_cons, beN8_cons, List.set_cons_zero]
  have hb : N / 72057594037927936 < 128 := by omega
  have := xor_128_lo ⟨N / 72057594037927936, hb⟩
  simp only [] at this
  have e1 : (9223372036854775808 + N) / 72057594037927936 = N / 72057594037927936 + 128 := by omega
  rw [this, beN7_shift, e1, Nat.mod_eq_of_lt (by omega : N / 72057594037927936 + 128 < 256)]

/-- the same on a value with the top bit set: it is cleared -/
theorem key_toggle_hi (M : Nat) (hM : M < 9223372036854775808) :
    Rs.setIndex (beN 8 (9223372036854775808 + M)) 0
        (Rs.bitxor (((9223372036854775808 + M) / 72057594037927936 : Nat) : Int) 128) = .ok (beN 8 M) := by
  unfold Rs.setIndex Rs.bitxor
  rw [if_pos (by simp)]
  congr 1
  simp only [Int.toNat_natCast, Int.toNat_zero, Rs.u8]
  have h128 : (128 : Int).toNat = 128 := rfl
  rw [h128, beN8_cons, beN8_cons, List.set_cons_zero]
  have hb : M / 72057594037927936 < 128 := by omega
  have e1 : (9223372036854775808 + M) / 72057594037927936 = M / 72057594037927936 + 128 := by omega
  have := xor_128_hi ⟨M / 72057594037927936, hb⟩
  simp only [] at this
  rw [e1, this, beN7_shift, Nat.mod_eq_of_lt (by omega : M / 72057594037927936 < 256)]

theorem keyPre_lt (bits : Nat) (h : bits < 18446744073709551616) : keyPre bits < 18446744073709551616 := by
  unfold keyPre; split <;> omega

/-- toggling the sign byte of the pre-image gives the model's `f64Key` -/
theorem key_image (bits : Nat) (h : bits < 18446744073709551616) :
    Rs.setIndex (beN 8 (keyPre bits)) 0 (Rs.bitxor ((keyPre bits / 72057594037927936 : Nat) : Int) 128) =
      .ok (Fn.f64Key bits) := by
  by_cases hlt : bits < 9223372036854775808
  · have hk : keyPre bits = bits := by unfold keyPre; rw [if_pos hlt]
    have hs : ¬ (F64.signBit bits = true) := by
      unfold F64.signBit
      have : bits / 9223372036854775808 = 0 := by omega
      rw [this]; decide
    rw [hk, key_toggle_lo bits hlt]
    unfold Fn.f64Key
    rw [if_neg hs]
    congr 2; omega
  · obtain ⟨m, rfl⟩ : ∃ m, bits = 9223372036854775808 + m := ⟨bits - 9223372036854775808, by omega⟩
    have hk : keyPre (9223372036854775808 + m) = 9223372036854775808 + (9223372036854775807 - m) := by
      unfold keyPre; rw [if_neg hlt]; omega
    have hs : F64.signBit (9223372036854775808 + m) = true := by
      unfold F64.signBit
      have : (9223372036854775808 + m) / 9223372036854775808 = 1 := by omega
      rw [this]; decide
    rw [hk, key_toggle_hi _ (by omega)]
    unfold Fn.f64Key
    rw [if_pos hs]
    congr 2; omega

end Jsonb.TrAgree
