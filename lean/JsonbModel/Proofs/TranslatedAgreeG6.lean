/-
Agreement theorems, phase 6a, part 6: `build_scalar_array` = `Sel.buildArrayOf` (the entry area is reserved with
zeros; after the payload of an item has been appended its entry word is patched into the reserved area).
-/
import JsonbModel.Proofs.TranslatedAgreeG5
import JsonbModel.Proofs.SerLayout

set_option linter.unusedSimpArgs false
set_option linter.unusedVariables false

namespace Jsonb.TrAgree
open Jsonb.Rs

/-! ## the patch loop `for (i, b) in jentry.to_be_bytes().iter().enumerate() { data[jentry_offset + i] = *b; }` -/

theorem bsa_loop1_step (idx k : Nat) (b : UInt8) (buf : Bytes) (h : idx + k < 18446744073709551616) :
    Tr.Selector.build_scalar_array.loop1 (idx : Int) ((k : Int), ((b.toNat : Nat) : Int)) buf =
      if idx + k < buf.length then Ctl.val (.next (buf.set (idx + k) b)) else Ctl.ret (.panic "index out of bounds") := by
  unfold Tr.Selector.build_scalar_array.loop1
  simp only [Rs.add_usize_nat _ _ h, Ctl.ofRes_ok', Ctl.val_bind', setIndex_nat]
  by_cases hb : idx + k < buf.length
  · simp only [hb, if_true, Ctl.ofRes_ok', Ctl.val_bind', Ctl.pure_eq', Rs.loopStep_val']
  · simp only [hb, if_false, Ctl.ofRes_panic', Ctl.ret_bind', Rs.loopStep_panic']

theorem bsa_patch_run (idx : Nat) : ∀ (bs : Bytes) (k : Nat) (buf : Bytes), idx + k + bs.length ≤ buf.length →
    buf.length < 18446744073709551616 →
    Rs.forIn (Rs.enumerateFrom k (Rs.iterBytes bs)) buf (Tr.Selector.build_scalar_array.loop1 (idx : Int))
      = Ctl.val (setBytes buf (idx + k) bs) := by
  intro bs
  induction bs with
  | nil => intro k buf _ _; simp [Rs.iterBytes, Rs.enumerateFrom, Rs.forIn, setBytes]
  | cons b bs ih =>
    intro k buf h hl
    simp only [List.length_cons] at h
    have hstep := bsa_loop1_step idx k b buf (by omega)
    rw [if_pos (by omega)] at hstep
    simp only [Rs.iterBytes, List.map_cons, Rs.enumerateFrom] at ih ⊢
    rw [Rs.forIn_next _ _ _ _ _ hstep, ih (k + 1) _ (by simp; omega) (by simpa using hl), setBytes]
    congr 1

/-- the patch of one entry word into the reserved area -/
theorem bsa_patch (a z b : Bytes) (w : Nat) (hw : w < 4294967296) (hz : z.length = 4)
    (hl : (a ++ (z ++ b)).length < 18446744073709551616) :
    Rs.forIn (Rs.enumerate (Rs.iterBytes (Rs.toBeBytes .u32 (w : Int)))) (a ++ (z ++ b))
        (Tr.Selector.build_scalar_array.loop1 ((a.length : Nat) : Int)) = Ctl.val (a ++ (u32be w ++ b)) := by
  rw [Rs.toBeBytes_u32_nat _ hw, Rs.enumerate, bsa_patch_run a.length (beN 4 w) 0 _ (by simp; omega) hl]
  rw [Nat.add_zero, setBytes_mid a z b (beN 4 w) (by simp [hz])]
  rfl

/-! ## the item loop -/

theorem add_usize_four_g (n : Nat) (h : n + 4 < 18446744073709551616) : Rs.add .usize (n : Int) 4 = .ok ((n + 4 : Nat) : Int) :=
  Rs.add_usize_nat n 4 h

theorem slice_not_err_g (root : Bytes) (a b : Nat) (e : String) : Jsonb.slice root a b ≠ .err e := by
  unfold Jsonb.slice; split <;> simp
theorem slice_not_fuel_g (root : Bytes) (a b : Nat) : Jsonb.slice root a b ≠ .fuel := by
  unfold Jsonb.slice; split <;> simp

theorem arrayParts_nil_g (root : Bytes) : Sel.arrayParts root [] = .ok ([], []) := rfl

/-- one iteration of the item loop: payload appended, entry word patched -/
theorem bsa_loop2_cons (root : Bytes) (p : Sel.Pos) (ps : List Sel.Pos) (a pays : Bytes) (k : Nat)
    (hp : PosFits p) (hd : a.length + 4 * (k + 1) + pays.length + root.length < 18446744073709551616) :
    Tr.Selector.build_scalar_array.loop2 root ((p :: ps).map ofPos, a ++ (zeros (4 * (k + 1)) ++ pays), (a.length : Int)) =
      match p with
      | .container off len =>
        (match Jsonb.slice root off (off + len) with
         | .ok q => Ctl.val (.next (ps.map ofPos,
             (a ++ u32be (C.CONTAINER_TAG ||| (len % 4294967296))) ++ (zeros (4 * k) ++ (pays ++ q)),
             (((a ++ u32be (C.CONTAINER_TAG ||| (len % 4294967296))).length : Nat) : Int)))
         | .err e => Ctl.ret (.err e)
         | .panic s => Ctl.ret (.panic s)
         | .fuel => Ctl.ret .fuel)
      | .scalar ty off len =>
        (match (if len > 0 then Jsonb.slice root off (off + len) else .ok []) with
         | .ok q => Ctl.val (.next (ps.map ofPos,
             (a ++ u32be (ty ||| (len % 4294967296))) ++ (zeros (4 * k) ++ (pays ++ q)),
             (((a ++ u32be (ty ||| (len % 4294967296))).length : Nat) : Int)))
         | .err e => Ctl.ret (.err e)
         | .panic s => Ctl.ret (.panic s)
         | .fuel => Ctl.ret .fuel) := by
  have hz : zeros (4 * (k + 1)) = zeros 4 ++ zeros (4 * k) := by
    have := zeros_succ4 k
    rw [Nat.mul_comm 4 (k + 1), Nat.mul_comm 4 k]; exact this
  unfold Tr.Selector.build_scalar_array.loop2
  cases p with
  | container off len =>
    simp only [PosFits] at hp
    simp only [List.map_cons, Rs.popFront, ofPos, Rs.add_usize_nat off len hp, Ctl.ofRes_ok', Ctl.val_bind', slice_model]
    cases hs : Jsonb.slice root off (off + len) with
    | ok q =>
      have hq := slice_len_le_g root _ _ q hs
      have hw : C.CONTAINER_TAG ||| (len % 4294967296) < 4294967296 := or_lt_u32 _ _ (by decide) (Nat.mod_lt _ (by decide))
      have hww : ((headerWord C.CONTAINER_TAG len : Nat) : Int) = ((C.CONTAINER_TAG ||| (len % 4294967296) : Nat) : Int) := rfl
      simp only [Ctl.ofRes_ok', Ctl.val_bind', Ctl.pure_eq', Rs.extendFromSlice, header_term, hww]
      have hshape : a ++ (zeros (4 * (k + 1)) ++ pays) ++ q = a ++ (zeros 4 ++ (zeros (4 * k) ++ (pays ++ q))) := by
        rw [hz]; simp only [List.append_assoc]
      rw [hshape, bsa_patch a (zeros 4) _ _ hw (by simp) (by simp; omega)]
      simp only [Ctl.val_bind']
      rw [add_usize_four_g a.length (by omega)]
      simp only [Ctl.ofRes_ok', Ctl.val_bind', Ctl.pure_eq', Rs.loopStep_val', List.append_assoc, List.length_append, u32be,
        beN_length]
    | err e => simp [Ctl.ofRes, Rs.loopStep]
    | panic s => simp [Ctl.ofRes, Rs.loopStep]
    | fuel => simp [Ctl.ofRes, Rs.loopStep]
  | scalar ty off len =>
    simp only [PosFits] at hp
    have hw : ty ||| (len % 4294967296) < 4294967296 := or_lt_u32 _ _ hp.1 (Nat.mod_lt _ (by decide))
    have hww : ((headerWord ty len : Nat) : Int) = ((ty ||| (len % 4294967296) : Nat) : Int) := rfl
    simp only [List.map_cons, Rs.popFront, ofPos, Ctl.pure_eq', Ctl.val_bind']
    by_cases hl : len > 0
    · have hl' : ((len : Int) > 0) := by omega
      simp only [hl, hl', decide_true, if_true, Rs.add_usize_nat off len hp.2, Ctl.ofRes_ok', Ctl.val_bind', slice_model]
      cases hs : Jsonb.slice root off (off + len) with
      | ok q =>
        have hq := slice_len_le_g root _ _ q hs
        simp only [Ctl.ofRes_ok', Ctl.val_bind', Ctl.pure_eq', Rs.extendFromSlice, header_term, hww]
        have hshape : a ++ (zeros (4 * (k + 1)) ++ pays) ++ q = a ++ (zeros 4 ++ (zeros (4 * k) ++ (pays ++ q))) := by
          rw [hz]; simp only [List.append_assoc]
        rw [hshape, bsa_patch a (zeros 4) _ _ hw (by simp) (by simp; omega)]
        simp only [Ctl.val_bind']
        rw [add_usize_four_g a.length (by omega)]
        simp only [Ctl.ofRes_ok', Ctl.val_bind', Ctl.pure_eq', Rs.loopStep_val', List.append_assoc, List.length_append, u32be,
          beN_length]
      | err e => simp [Ctl.ofRes, Rs.loopStep]
      | panic s => simp [Ctl.ofRes, Rs.loopStep]
      | fuel => simp [Ctl.ofRes, Rs.loopStep]
    · have hl' : ¬ ((len : Int) > 0) := by omega
      simp only [hl, hl', decide_false, Bool.false_eq_true, if_false, Ctl.pure_eq', Ctl.val_bind', header_term, hww]
      have hshape : a ++ (zeros (4 * (k + 1)) ++ pays) = a ++ (zeros 4 ++ (zeros (4 * k) ++ (pays ++ []))) := by
        rw [hz]; simp only [List.append_assoc, List.append_nil]
      rw [hshape, bsa_patch a (zeros 4) _ _ hw (by simp) (by simp; omega)]
      simp only [Ctl.val_bind']
      rw [add_usize_four_g a.length (by omega)]
      simp only [Ctl.ofRes_ok', Ctl.val_bind', Ctl.pure_eq', Rs.loopStep_val', List.append_assoc, List.length_append, u32be,
        beN_length]

theorem bsa_loop2_nil (root : Bytes) (data : Bytes) (jo : Int) :
    Tr.Selector.build_scalar_array.loop2 root ([], data, jo) = Ctl.val (.done ([], data, jo)) := by
  unfold Tr.Selector.build_scalar_array.loop2
  simp [Rs.popFront, Rs.loopStep]

/-- the item loop = `Sel.arrayParts`: the entry words in the reserved area, the payloads behind -/
theorem bsa_run (root : Bytes) : ∀ (ps : List Sel.Pos) (a pays : Bytes),
    (∀ p ∈ ps, PosFits p) → a.length + 4 * ps.length + pays.length + ps.length * root.length < 18446744073709551616 →
    Rs.whileFuel (ps.length + 1) (ps.map ofPos, a ++ (zeros (4 * ps.length) ++ pays), (a.length : Int))
        (Tr.Selector.build_scalar_array.loop2 root) =
      match Sel.arrayParts root ps with
      | .ok (ws, qs) => Ctl.val ([], a ++ (ws ++ (pays ++ qs)), ((a.length + 4 * ps.length : Nat) : Int))
      | .err e => Ctl.ret (.err e)
      | .panic s => Ctl.ret (.panic s)
      | .fuel => Ctl.ret .fuel := by
  intro ps
  induction ps with
  | nil =>
    intro a pays _ _
    simp only [List.length_nil, List.map_nil, arrayParts_nil_g, Nat.mul_zero]
    rw [Rs.whileFuel_done _ _ _ _ (bsa_loop2_nil root _ _)]
    simp [zeros]
  | cons p ps ih =>
    intro a pays hf hd
    have hmul : (ps.length + 1) * root.length = ps.length * root.length + root.length := by
      rw [Nat.add_mul]; simp
    simp only [List.length_cons] at hd ⊢
    have hs := bsa_loop2_cons root p ps a pays ps.length (hf p (by simp)) (by omega)
    have hf' : ∀ q ∈ ps, PosFits q := fun q hq => hf q (by simp [hq])
    cases p with
    | container off len =>
      simp only [Sel.arrayParts] at hs ⊢
      cases hsl : Jsonb.slice root off (off + len) with
      | ok q =>
        rw [hsl] at hs
        have hq := slice_len_le_g root _ _ q hsl
        rw [Rs.whileFuel_next _ _ _ _ hs, ih _ _ hf' (by simp [u32be]; omega)]
        cases Sel.arrayParts root ps with
        | ok r =>
          obtain ⟨ws, qs⟩ := r
          simp only [List.append_assoc, List.length_append, u32be, beN_length]
          congr 3; omega
        | err e => rfl
        | panic s => rfl
        | fuel => rfl
      | err e => exact absurd hsl (slice_not_err_g _ _ _ _)
      | panic s =>
        rw [hsl] at hs; rw [Rs.whileFuel_ret _ _ _ _ hs]
      | fuel => exact absurd hsl (slice_not_fuel_g _ _ _)
    | scalar ty off len =>
      simp only [Sel.arrayParts] at hs ⊢
      cases hsl : (if len > 0 then Jsonb.slice root off (off + len) else Res.ok []) with
      | ok q =>
        rw [hsl] at hs
        have hq : q.length ≤ root.length := by
          by_cases hl : len > 0
          · rw [if_pos hl] at hsl; exact slice_len_le_g root _ _ q hsl
          · rw [if_neg hl] at hsl; cases hsl; simp
        rw [Rs.whileFuel_next _ _ _ _ hs, ih _ _ hf' (by simp [u32be]; omega)]
        cases Sel.arrayParts root ps with
        | ok r =>
          obtain ⟨ws, qs⟩ := r
          simp only [List.append_assoc, List.length_append, u32be, beN_length]
          congr 3; omega
        | err e => rfl
        | panic s => rfl
        | fuel => rfl
      | err e =>
        by_cases hl : len > 0
        · rw [if_pos hl] at hsl; exact absurd hsl (slice_not_err_g _ _ _ _)
        · rw [if_neg hl] at hsl; cases hsl
      | panic s =>
        rw [hsl] at hs; rw [Rs.whileFuel_ret _ _ _ _ hs]
      | fuel =>
        by_cases hl : len > 0
        · rw [if_pos hl] at hsl; exact absurd hsl (slice_not_fuel_g _ _ _)
        · rw [if_neg hl] at hsl; cases hsl

/-- the bytes `arrayParts` answers: four per item plus at most the buffer per item -/
theorem arrayParts_len_g (root : Bytes) : ∀ (ps : List Sel.Pos) (ws qs : Bytes), Sel.arrayParts root ps = .ok (ws, qs) →
    ws.length = 4 * ps.length ∧ qs.length ≤ ps.length * root.length := by
  intro ps
  induction ps with
  | nil => intro ws qs h; simp only [arrayParts_nil_g, Res.ok.injEq, Prod.mk.injEq] at h; simp [← h.1, ← h.2]
  | cons p ps ih =>
    intro ws qs h
    have hmul : (ps.length + 1) * root.length = ps.length * root.length + root.length := by
      rw [Nat.add_mul]; simp
    cases p with
    | container off len =>
      simp only [Sel.arrayParts] at h
      cases hsl : Jsonb.slice root off (off + len) with
      | ok q =>
        have hq := slice_len_le_g root _ _ q hsl
        rw [hsl] at h
        cases hr : Sel.arrayParts root ps with
        | ok r =>
          obtain ⟨ws', qs'⟩ := r
          rw [hr] at h
          simp only [Res.ok.injEq, Prod.mk.injEq] at h
          obtain ⟨h1, h2⟩ := ih _ _ hr
          simp only [← h.1, ← h.2, List.length_append, List.length_cons, u32be, beN_length]
          omega
        | err e => rw [hr] at h; simp [Res.map, Res.bind] at h
        | panic s => rw [hr] at h; simp at h
        | fuel => rw [hr] at h; simp [Res.map, Res.bind] at h
      | err e => exact absurd hsl (slice_not_err_g _ _ _ _)
      | panic s => rw [hsl] at h; simp at h
      | fuel => exact absurd hsl (slice_not_fuel_g _ _ _)
    | scalar ty off len =>
      simp only [Sel.arrayParts] at h
      cases hsl : (if len > 0 then Jsonb.slice root off (off + len) else Res.ok []) with
      | ok q =>
        have hq : q.length ≤ root.length := by
          by_cases hl : len > 0
          · rw [if_pos hl] at hsl; exact slice_len_le_g root _ _ q hsl
          · rw [if_neg hl] at hsl; cases hsl; simp
        rw [hsl] at h
        cases hr : Sel.arrayParts root ps with
        | ok r =>
          obtain ⟨ws', qs'⟩ := r
          rw [hr] at h
          simp only [Res.ok.injEq, Prod.mk.injEq] at h
          obtain ⟨h1, h2⟩ := ih _ _ hr
          simp only [← h.1, ← h.2, List.length_append, List.length_cons, u32be, beN_length]
          omega
        | err e => rw [hr] at h; simp [Res.map, Res.bind] at h
        | panic s => rw [hr] at h; simp at h
        | fuel => rw [hr] at h; simp [Res.map, Res.bind] at h
      | err e =>
        by_cases hl : len > 0
        · rw [if_pos hl] at hsl; exact absurd hsl (slice_not_err_g _ _ _ _)
        · rw [if_neg hl] at hsl; cases hsl
      | panic s => rw [hsl] at h; simp at h
      | fuel =>
        by_cases hl : len > 0
        · rw [if_pos hl] at hsl; exact absurd hsl (slice_not_fuel_g _ _ _)
        · rw [if_neg hl] at hsl; cases hsl

/-! ## build_scalar_array -/

theorem build_scalar_array_agrees (root : Bytes) (ps : List Sel.Pos) (data : Bytes) (offs : List Nat)
    (hf : ∀ p ∈ ps, PosFits p) (hd : data.length + 4 + ps.length * (root.length + 4) < 18446744073709551616) :
    Tr.Selector.build_scalar_array root (ps.map ofPos) data (natsG offs) =
      (Sel.buildArrayOf root ps data offs).map (fun r => (([] : List Tr.Position), r.1, natsG r.2)) := by
  unfold Tr.Selector.build_scalar_array Sel.buildArrayOf
  have hmul : ps.length * (root.length + 4) = ps.length * root.length + 4 * ps.length := by
    rw [Nat.mul_add]; omega
  have hlen : Rs.len (ps.map ofPos) = ((ps.length : Nat) : Int) := by simp [Rs.len]
  have hw := headerWord_lt C.ARRAY_CONTAINER_TAG ps.length (by decide)
  simp only [hlen, header_term, Ctl.pure_eq', Ctl.val_bind']
  rw [writeU32BE_nat _ _ hw]
  have hl2 : Rs.len (data ++ u32be (headerWord C.ARRAY_CONTAINER_TAG ps.length)) = (((data ++ u32be (headerWord C.ARRAY_CONTAINER_TAG ps.length)).length : Nat) : Int) := rfl
  rw [hl2]
  have h4 : (4 : Int) = ((4 : Nat) : Int) := rfl
  rw [h4, Rs.mul_usize_nat 4 ps.length (by omega)]
  simp only [Ctl.ofRes_ok', Ctl.val_bind']
  rw [Rs.add_usize_nat _ _ (by simp [u32be]; omega)]
  simp only [Ctl.ofRes_ok', Ctl.val_bind']
  rw [resize_zeros _ (4 * ps.length) _ rfl]
  have hl : ((ps.length : Nat) : Int).toNat + 1 = ps.length + 1 := by simp
  have hshape : data ++ u32be (headerWord C.ARRAY_CONTAINER_TAG ps.length) ++ zeros (4 * ps.length) =
      (data ++ u32be (headerWord C.ARRAY_CONTAINER_TAG ps.length)) ++ (zeros (4 * ps.length) ++ []) := by simp
  rw [hl, hshape, bsa_run root ps _ [] hf (by simp [u32be]; omega)]
  cases hap : Sel.arrayParts root ps with
  | ok r =>
    obtain ⟨ws, qs⟩ := r
    simp only [Ctl.val_bind', Rs.len, Rs.vecPush, Ctl.run, Res.map, Res.bind, List.nil_append, natsG, List.map_append,
      List.map_cons, List.map_nil, List.append_assoc]
    have hwq : (ws ++ qs).length ≤ ps.length * (root.length + 4) := by
      have := arrayParts_len_g root ps ws qs hap
      simp only [List.length_append]; rw [hmul]; omega
    rw [cast_u64_nat_g _ (by simp only [List.length_append, u32be, beN_length] at hwq ⊢; omega)]
    rfl
  | err e => rfl
  | panic s => rfl
  | fuel => rfl

end Jsonb.TrAgree
