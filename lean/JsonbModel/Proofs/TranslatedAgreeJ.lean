/-
Agreement theorems, phase 6d (root): the PATH PARSERS of jsonpath/parser.rs and keypath.rs and the PRINTERS (`Display`
impls) of jsonpath/path.rs and keypath.rs (properties C09, C16), translated from source by tools/rs2lean6d.py
(Generated/Translated6d.lean), equal the hand-written models `PathParser.lean` (over `Nom.lean`) and `PathPrint.lean`.
`lake build JsonbModel.Proofs.TranslatedAgreeJ`.
  J1  the hand-written scanners `check_escaped`, `raw_string`, `string` = `checkEscaped`, `rawString`, `PathParser.string`
      (the callee `util::parse_string` is a parameter: `PSpec`)
  J2  `Agr`: naturality of every nom combinator of Nom.lean in the type of the syntax trees
  J3  `key_path`, `key_paths`, `parse_key_paths` = `keyPath`, `keyPaths`, `parseKeyPaths`                      (C16)
  J4  representation maps (`ofPath`, `ofExpr`, …); `bracket_wildcard` … `inner_expr` = the model's grammar      (C09)
  J5  the recursive group (`filter_expr` … `expr_or`, fuel) and `predicate` … `json_path`, `parse_json_path`
      = `exprOr` … `parseJsonPath`                                                                             (C09)
  J6  `impl Display` for integers / `Number`, `KeyPath`, `KeyPaths` = `printKeyPath`, `printKeyPaths`           (C16)
  J7  `impl Display` for `Index`, `ArrayIndex`, `PathValue`, the operators, `Path` / `Expr`, `JsonPath`
      = `printIndex` … `printJsonPath`                                                                         (C09)
  J8  (NOT imported here: it needs phase 6b's TranslatedAgreeH5) the bridge: `PathStr.parseString` ≈ `JP.parseString`,
      `PSpec Tr.parse_string`, `parse_key_paths_translated`, `parse_json_path_translated`
  J9  (NOT imported here: it needs phase 5a's TranslatedAgreeE7) `ofKeyPath = ofKP`, `ofIdx = ofIndex`, `ofNumber = ofNum`
-/
import JsonbModel.Proofs.TranslatedAgreeJ1
import JsonbModel.Proofs.TranslatedAgreeJ2
import JsonbModel.Proofs.TranslatedAgreeJ3
import JsonbModel.Proofs.TranslatedAgreeJ4
import JsonbModel.Proofs.TranslatedAgreeJ5
import JsonbModel.Proofs.TranslatedAgreeJ6
import JsonbModel.Proofs.TranslatedAgreeJ7
