/-
Strict ⊆ relaxed, part 4: the crate's loops (`parse_json_value` after white space, the array
loop and the object loop at their three entry points) in cursor-view form, and small facts about
the strict reader (`expectLit`, first byte of a value).
-/
import JsonbModel.Proofs.StrictSubset2
import JsonbModel.Proofs.StrictSubset3

namespace Jsonb
namespace SS
open Jsonb.JP

/-- the crate function either runs out of the model's fuel or returns `a` -/
def FuelOr {α} (x : Res α) (a : α) : Prop := x = .fuel ∨ x = .ok a

theorem FuelOr_fuel {α} (a : α) : FuelOr (Res.fuel : Res α) a := Or.inl rfl
theorem FuelOr_ok {α} (a : α) : FuelOr (Res.ok a) a := Or.inr rfl

/-- sequencing: if the first step is fuel-or-`a` and the continuation on `a` is fuel-or-`b` -/
theorem FuelOr_bind {α β} {x : Res α} {a : α} {f : α → Res β} {b : β}
    (hx : FuelOr x a) (hf : FuelOr (f a) b) : FuelOr (x >>= f) b := by
  rcases hx with hx | hx
  · rw [hx]; exact Or.inl rfl
  · rw [hx]; exact hf

/-! ### `parse_json_value` skips strict white space -/

theorem pv_skip {buf : Bytes} {i : Nat} {w s : Bytes} (h : buf.drop i = w ++ s) (hw : AllWs w)
    (ht : Tok s) (F : Nat) : parseJsonValue F buf i = parseJsonValue F buf (i + w.length) := by
  cases F with
  | zero => simp [parseJsonValue]
  | succ F =>
    simp only [parseJsonValue]
    rw [skipUnused_ws hw h ht, skipUnused_view (drop_add_of_drop h) ht]

/-! ### The array loop -/

theorem arrLoop_close {buf : Bytes} {i : Nat} {w r : Bytes} (h : buf.drop i = w ++ 0x5D :: r)
    (hw : AllWs w) (F : Nat) (first : Bool) (acc : List JV) :
    arrLoop (F + 1) buf i first acc = .ok (.arr acc, i + w.length + 1) := by
  have ht : Tok (0x5D :: r) := Tok_cons _ (by decide) (by decide)
  simp only [arrLoop]
  rw [skipUnused_ws hw h ht]
  simp only [bind_ok, next_view (drop_add_of_drop h), beq_self_eq_true, if_true, pure_eq]

theorem arrLoop_comma {buf : Bytes} {i : Nat} {w bs : Bytes} (h : buf.drop i = w ++ 0x2C :: bs)
    (hw : AllWs w) (F : Nat) (acc : List JV) :
    arrLoop (F + 1) buf i false acc = (do
      let (value, idx) ← parseJsonValue F buf (i + w.length + 1)
      arrLoop F buf idx false (acc ++ [value])) := by
  have ht : Tok (0x2C :: bs) := Tok_cons _ (by decide) (by decide)
  simp only [arrLoop]
  rw [skipUnused_ws hw h ht]
  simp only [bind_ok, next_view (drop_add_of_drop h)]
  rw [if_neg (by decide), if_neg (by decide)]
  rfl

theorem arrLoop_first {buf : Bytes} {i : Nat} {bs : Bytes} {c : UInt8} {rest : Bytes}
    (h : buf.drop i = bs) (hs : Strict.skipWs bs = c :: rest) (hc : StartByte c)
    (F : Nat) (acc : List JV) :
    arrLoop (F + 1) buf i true acc = (do
      let (value, idx) ← parseJsonValue F buf i
      arrLoop F buf idx false (acc ++ [value])) := by
  obtain ⟨w, hw, he, -⟩ := skipWs_decomp bs
  rw [hs] at he
  have ht : Tok (c :: rest) := Tok_start _ hc
  have h' := h.trans he
  simp only [arrLoop]
  rw [skipUnused_ws hw h' ht]
  simp only [bind_ok, next_view (drop_add_of_drop h'), (StartByte_facts hc).2.2.1,
    Bool.false_eq_true, if_false, Bool.not_true, Bool.false_and, if_true]
  rw [pv_skip h' hw ht]

/-! ### The object loop -/

theorem objLoop_close {buf : Bytes} {i : Nat} {w r : Bytes} (h : buf.drop i = w ++ 0x7D :: r)
    (hw : AllWs w) (F : Nat) (first : Bool) (obj : List (Bytes × JV)) :
    objLoop (F + 1) buf i first obj = .ok (.obj obj, i + w.length + 1) := by
  have ht : Tok (0x7D :: r) := Tok_cons _ (by decide) (by decide)
  simp only [objLoop]
  rw [skipUnused_ws hw h ht]
  simp only [bind_ok, next_view (drop_add_of_drop h), beq_self_eq_true, if_true, pure_eq]

/-- what the object loop does once the cursor `p` is at the key -/
def objStep (F : Nat) (buf : Bytes) (p : Nat) (obj : List (Bytes × JV)) : Res (JV × Nat) := do
  let (key, idx) ← parseJsonValue F buf p
  if !isString key then .err "KeyMustBeAString"
  else do
    let idx ← skipUnused buf idx
    let c ← next buf idx
    if c != 0x3A then .err "ExpectedColon"
    else do
      let (value, idx) ← parseJsonValue F buf (idx + 1)
      let k ← asStrUnwrap key
      objLoop F buf idx false (insertKV k value obj)

theorem objLoop_comma {buf : Bytes} {i : Nat} {w bs : Bytes} (h : buf.drop i = w ++ 0x2C :: bs)
    (hw : AllWs w) (F : Nat) (obj : List (Bytes × JV)) :
    objLoop (F + 1) buf i false obj = objStep F buf (i + w.length + 1) obj := by
  have ht : Tok (0x2C :: bs) := Tok_cons _ (by decide) (by decide)
  simp only [objLoop, objStep]
  rw [skipUnused_ws hw h ht]
  simp only [bind_ok, next_view (drop_add_of_drop h)]
  rw [if_neg (by decide), if_neg (by decide)]
  rfl

theorem objLoop_first {buf : Bytes} {i : Nat} {bs : Bytes} {rest : Bytes}
    (h : buf.drop i = bs) (hs : Strict.skipWs bs = 0x22 :: rest)
    (F : Nat) (obj : List (Bytes × JV)) :
    objLoop (F + 1) buf i true obj = objStep F buf i obj := by
  obtain ⟨w, hw, he, -⟩ := skipWs_decomp bs
  rw [hs] at he
  have ht : Tok (0x22 :: rest) := Tok_cons _ (by decide) (by decide)
  have h' := h.trans he
  simp only [objLoop, objStep]
  rw [skipUnused_ws hw h' ht]
  simp only [bind_ok, next_view (drop_add_of_drop h')]
  rw [if_neg (by decide), if_neg (by decide)]
  simp only [if_true]
  rw [pv_skip h' hw ht]

/-! ### Strict reader: small facts -/

theorem expectLit_some {lit bs r : Bytes} (h : Strict.expectLit lit bs = some r) : bs = lit ++ r := by
  unfold Strict.expectLit at h
  split at h
  · rename_i hp
    simp only [Option.some.injEq] at h
    obtain ⟨t, rfl⟩ := List.isPrefixOf_iff_prefix.mp hp
    simp at h
    rw [h]
  · exact absurd h (by simp)

/-- a strict-white-space split of the input around what the skipper leaves -/
theorem skipWs_split {bs : Bytes} {s : Bytes} (h : Strict.skipWs bs = s) :
    ∃ w, AllWs w ∧ bs = w ++ s := by
  obtain ⟨w, hw, he, -⟩ := skipWs_decomp bs
  exact ⟨w, hw, by rw [← h]; exact he⟩

/-- a key / string value at a cursor preceded by strict white space -/
theorem key_sim {buf : Bytes} {p : Nat} {bs r0 k r1 : Bytes} (h : buf.drop p = bs)
    (hs : Strict.skipWs bs = 0x22 :: r0) (hb : Strict.strBody (r0.length + 1) r0 = some (k, r1))
    (hu : validUtf8 k = true) :
    ∃ j, buf.drop j = r1 ∧ ∀ F, FuelOr (parseJsonValue F buf p) (.str k, j) := by
  obtain ⟨w, hw, he⟩ := skipWs_split hs
  have h' := h.trans he
  have ht : Tok (0x22 :: r0) := Tok_cons _ (by decide) (by decide)
  obtain ⟨j, hj, hr⟩ := string_sim (drop_add_of_drop h') hb hu
  refine ⟨j, hr, ?_⟩
  intro F
  rw [pv_skip h' hw ht]
  cases F with
  | zero => exact Or.inl rfl
  | succ F => rw [pv_string F (drop_add_of_drop h'), hj]; exact Or.inr rfl

/-- a value the strict reader accepts starts (after white space) with one of the bytes
`parse_json_value` dispatches on -/
theorem value_start {n : Nat} {bs : Bytes} {v : JV} {r : Bytes}
    (h : Strict.value n bs = some (v, r)) :
    ∃ c rest, Strict.skipWs bs = c :: rest ∧ StartByte c := by
  cases n with
  | zero => simp [Strict.value] at h
  | succ n =>
    unfold Strict.value at h
    split at h
    · exact absurd h (by simp)
    · rename_i b rest heq
      refine ⟨b, rest, heq, ?_⟩
      by_cases hsb : StartByte b
      · exact hsb
      · exfalso
        simp only [StartByte, not_or] at hsb
        obtain ⟨h1, h2, h3, h4, h5, h6, h7, h8⟩ := hsb
        have hd : Strict.isDigit b = false := by
          have : JP.isDigit b = false := by simpa using h4
          exact this
        simp [h1, h2, h3, hd, h5, h6, h7, h8] at h

end SS
end Jsonb
