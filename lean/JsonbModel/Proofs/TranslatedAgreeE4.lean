/-
Agreement theorems, phase 5a, part 4: `type_of` = `Fn.typeOf`, `as_null` / `as_bool` / `as_number` / `as_str`
= `Fn.asNull` / `Fn.asBool` / `Fn.asNumber` / `Fn.asStr`.
-/
import JsonbModel.Proofs.TranslatedAgreeE3

set_option linter.unusedSimpArgs false
set_option linter.unusedVariables false

namespace Jsonb.TrAgree
open Jsonb.Rs

/-! ## type_of -/

theorem natCast_eq_iff (a b : Nat) : (((a : Nat) : Int) = ((b : Nat) : Int)) ↔ a = b := Int.natCast_inj

theorem type_of_agrees (value : Bytes) (text : Res Bytes) :
    Tr.type_of value text = if isJsonb value then (Fn.typeOf value).map Rs.strLit else text := by
  unfold Tr.type_of Fn.typeOf
  rw [is_jsonb_agrees, read_u32_zero, read_u32_four]
  cases hj : isJsonb value
  · simp [Ctl.ofRes, Ctl.run]
  · cases hr : readU32At value 0 with
    | none => simp [Ctl.ofRes, Ctl.run, Res.map, Res.bind, C.NULL_TAG, C.TRUE_TAG, C.FALSE_TAG, C.NUMBER_TAG, C.STRING_TAG]
    | some w =>
      simp only [Ctl.ofRes_ok', Ctl.val_bind', Ctl.pure_eq', Bool.not_true, Bool.false_eq_true, if_false,
        if_true, hdrType_eq]
      by_cases h1 : hdrType w = C.SCALAR_CONTAINER_TAG
      · simp only [h1, decide_true, if_true]
        cases hr4 : readU32At value 4 with
        | none => simp [Ctl.ofRes, Ctl.run, Res.map, Res.bind, C.NULL_TAG, C.TRUE_TAG, C.FALSE_TAG, C.NUMBER_TAG, C.STRING_TAG]
        | some e =>
          simp only [Ctl.ofRes_ok', Ctl.val_bind', decode_jentry_agrees, natCast_eq_iff,
            C.NULL_TAG, C.TRUE_TAG, C.FALSE_TAG, C.NUMBER_TAG, C.STRING_TAG]
          generalize jeType e = ty
          by_cases t1 : ty = 0
          · simp [t1, Ctl.run, Res.map, Res.bind]
          · by_cases t2a : ty = 1073741824
            · simp [t2a, Ctl.run, Res.map, Res.bind]
            · by_cases t2b : ty = 805306368
              · simp [t2b, Ctl.run, Res.map, Res.bind]
              · by_cases t3 : ty = 536870912
                · simp [t3, Ctl.run, Res.map, Res.bind]
                · by_cases t4 : ty = 268435456
                  · simp [t4, Ctl.run, Res.map, Res.bind]
                  · simp [t1, t2a, t2b, t3, t4, Ctl.run, Res.map, Res.bind]
      · by_cases h2 : hdrType w = C.ARRAY_CONTAINER_TAG
        · simp only [if_neg h1, if_pos h2, decide_eq_true_eq]; rfl
        · by_cases h3 : hdrType w = C.OBJECT_CONTAINER_TAG
          · simp only [if_neg h1, if_neg h2, if_pos h3, decide_eq_true_eq]; rfl
          · simp only [if_neg h1, if_neg h2, if_neg h3, decide_eq_true_eq]; rfl

/-! ## as_null / as_bool / as_number / as_str -/

theorem as_null_agrees (value : Bytes) (text : Res (Option Unit)) :
    Tr.as_null value text = if isJsonb value then Fn.asNull value else text := by
  unfold Tr.as_null Fn.asNull Fn.scalarWord
  rw [is_jsonb_agrees, read_u32_zero, read_u32_four]
  cases hj : isJsonb value
  · simp [Ctl.ofRes, Ctl.run]
  · cases hr : readU32At value 0 with
    | none => simp [Ctl.ofRes, Ctl.run, Rs.okQ]
    | some w =>
      simp only [Rs.okQ_ok', Ctl.ofRes_ok', Ctl.val_bind', Ctl.pure_eq', Bool.not_true, Bool.false_eq_true, if_false,
        if_true, hdrType_eq]
      by_cases h1 : hdrType w = C.SCALAR_CONTAINER_TAG
      · simp only [h1, decide_true, if_true]
        cases hr4 : readU32At value 4 with
        | none => simp [Ctl.run, Rs.okQ]
        | some e =>
          simp only [Rs.okQ_ok', Ctl.val_bind', natCast_eq_iff]
          by_cases t : e = C.NULL_TAG
          · simp only [if_pos t, decide_eq_true_eq]; rfl
          · simp only [if_neg t, decide_eq_true_eq]; rfl
      · simp only [if_neg h1, decide_eq_true_eq]; rfl

theorem as_bool_agrees (value : Bytes) (text : Res (Option Bool)) :
    Tr.as_bool value text = if isJsonb value then Fn.asBool value else text := by
  unfold Tr.as_bool Fn.asBool Fn.scalarWord
  rw [is_jsonb_agrees, read_u32_zero, read_u32_four]
  cases hj : isJsonb value
  · simp [Ctl.ofRes, Ctl.run]
  · cases hr : readU32At value 0 with
    | none => simp [Ctl.ofRes, Ctl.run, Rs.okQ]
    | some w =>
      simp only [Rs.okQ_ok', Ctl.ofRes_ok', Ctl.val_bind', Ctl.pure_eq', Bool.not_true, Bool.false_eq_true, if_false,
        if_true, hdrType_eq]
      by_cases h1 : hdrType w = C.SCALAR_CONTAINER_TAG
      · simp only [h1, decide_true, if_true]
        cases hr4 : readU32At value 4 with
        | none => simp [Ctl.run, Rs.okQ]
        | some e =>
          simp only [Rs.okQ_ok', Ctl.val_bind', natCast_eq_iff]
          -- in whatever order the source tests the two tags
          have hft : ¬ (C.FALSE_TAG = C.TRUE_TAG) := by decide
          have htf : ¬ (C.TRUE_TAG = C.FALSE_TAG) := by decide
          by_cases t : e = C.FALSE_TAG
          · subst t; simp [hft, Ctl.run]
          · by_cases t' : e = C.TRUE_TAG
            · subst t'; simp [htf, Ctl.run]
            · simp [t, t', Ctl.run]
      · simp only [if_neg h1, decide_eq_true_eq]; rfl

theorem slice_ok_length (value : Bytes) (a b : Nat) (p : Bytes) (h : Jsonb.slice value a b = .ok p) : p.length = b - a := by
  unfold Jsonb.slice at h
  split at h
  · cases h; simp; omega
  · cases h

theorem as_str_agrees (value : Bytes) (text : Res (Option Bytes)) :
    Tr.as_str value text = if isJsonb value then Fn.asStr value else text := by
  unfold Tr.as_str Fn.asStr Fn.scalarWord
  rw [is_jsonb_agrees, read_u32_zero, read_u32_four]
  cases hj : isJsonb value
  · simp [Ctl.ofRes, Ctl.run]
  · cases hr : readU32At value 0 with
    | none => simp [Ctl.ofRes, Ctl.run, Rs.okQ]
    | some w =>
      simp only [Rs.okQ_ok', Ctl.ofRes_ok', Ctl.val_bind', Ctl.pure_eq', Bool.not_true, Bool.false_eq_true, if_false,
        if_true, hdrType_eq]
      by_cases h1 : hdrType w = C.SCALAR_CONTAINER_TAG
      · simp only [h1, decide_true, if_true]
        cases hr4 : readU32At value 4 with
        | none => simp [Ctl.run, Rs.okQ]
        | some e =>
          have hl := jeLen_lt e
          simp (disch := omega) only [Rs.okQ_ok', Ctl.val_bind', Ctl.ofRes_ok', decode_jentry_agrees, natCast_eq_iff,
            Rs.usize_nat (jeLen e) (by omega), Rs.add_usize_ok']
          by_cases t : jeType e = C.STRING_TAG
          · simp only [if_pos t, decide_eq_true_eq]
            rw [slice_int value _ _ 8 (8 + jeLen e)]
            rotate_left
            · omega
            · omega
            cases Jsonb.slice value 8 (8 + jeLen e) <;> rfl
          · simp only [if_neg t, decide_eq_true_eq]; rfl
      · simp only [if_neg h1, decide_eq_true_eq]; rfl

/-- `Number::decode` answers `Ok` or `Err`, never a panic -/
theorem num_dec_total (bs : Bytes) : (∃ n, Num.dec bs = .ok n) ∨ (∃ e, Num.dec bs = .err e) := by
  unfold Num.dec
  cases bs with
  | nil => exact Or.inr ⟨_, rfl⟩
  | cons t rest =>
    dsimp only
    repeat' split
    all_goals first | exact Or.inl ⟨_, rfl⟩ | exact Or.inr ⟨_, rfl⟩

theorem as_number_agrees (value : Bytes) (text : Res (Option Tr.Number)) :
    Tr.as_number value text = if isJsonb value then (Fn.asNumber value).map (Option.map ofNum) else text := by
  unfold Tr.as_number Fn.asNumber Fn.scalarWord
  rw [is_jsonb_agrees, read_u32_zero, read_u32_four]
  cases hj : isJsonb value
  · simp [Ctl.ofRes, Ctl.run]
  · cases hr : readU32At value 0 with
    | none => simp [Ctl.ofRes, Ctl.run, Rs.okQ, Res.map, Res.bind]
    | some w =>
      simp only [Rs.okQ_ok', Ctl.ofRes_ok', Ctl.val_bind', Ctl.pure_eq', Bool.not_true, Bool.false_eq_true, if_false,
        if_true, hdrType_eq]
      by_cases h1 : hdrType w = C.SCALAR_CONTAINER_TAG
      · simp only [h1, decide_true, if_true]
        cases hr4 : readU32At value 4 with
        | none => simp [Ctl.run, Rs.okQ, Res.map, Res.bind]
        | some e =>
          have hl := jeLen_lt e
          simp (disch := omega) only [Rs.okQ_ok', Ctl.val_bind', Ctl.ofRes_ok', decode_jentry_agrees, natCast_eq_iff,
            Rs.usize_nat (jeLen e) (by omega), Rs.add_usize_ok']
          by_cases t : jeType e = C.NUMBER_TAG
          · simp only [if_pos t, decide_eq_true_eq]
            rw [slice_int value _ _ 8 (8 + jeLen e)]
            rotate_left
            · omega
            · omega
            cases hs : Jsonb.slice value 8 (8 + jeLen e) with
            | ok p =>
              have hp := slice_ok_length _ _ _ _ hs
              simp only [Ctl.ofRes_ok', Ctl.val_bind']
              rw [decode_agrees p (by omega)]
              rcases num_dec_total p with ⟨n, hn⟩ | ⟨x, hn⟩ <;> rw [hn] <;> rfl
            | err x => rfl
            | panic x => rfl
            | fuel => rfl
          · simp only [if_neg t, decide_eq_true_eq]; rfl
      · simp only [if_neg h1, decide_eq_true_eq]; rfl

end Jsonb.TrAgree
