/-
Phase 4: `write_entry` / `ArrayBuilder::build_into` / `ObjectBuilder::build_into`, translated from
src/builder.rs, are the model's `buildEntry` / `buildArrayInto` / `buildObjectInto` — mutual structural
induction on the builder tree, with the fuel adequacy bound `2 * depth < fuel`.
-/
import JsonbModel.Proofs.TranslatedAgreeD1

set_option linter.unusedSimpArgs false
set_option linter.unusedVariables false

namespace Jsonb.TrAgree
open Jsonb.Rs

theorem bspec_raw (ty len : Nat) (d : Bytes) : bspec (.raw ty len d) = (ty, len, d) := by simp [bspec]

/-- the key loop of `ObjectBuilder::build_into` is the model's `buildObjKeys` (no recursion here) -/
theorem build_obj_keys : ∀ (kvs : List (Bytes × BEntry)) (b : Bytes) (idx acc : Nat),
    idx + kvs.length * 4 ≤ b.length → b.length + (bkeyBytes kvs).length < 18446744073709551616 →
    acc + (bkeyBytes kvs).length < 18446744073709551616 →
    ∃ b', buildObjKeys b idx acc kvs = .ok (b', idx + kvs.length * 4, acc + (bkeyBytes kvs).length) ∧
      b'.length = b.length + (bkeyBytes kvs).length ∧
      Rs.forIn (ofBKVs kvs) ((acc : Int), b, (idx : Int)) Tr.ObjectBuilder.build_into.loop1 =
        (Ctl.val (((acc + (bkeyBytes kvs).length : Nat) : Int), b', ((idx + kvs.length * 4 : Nat) : Int)) :
          Ctl (Int × Bytes) (Int × Bytes × Int)) := by
  intro kvs
  induction kvs with
  | nil =>
    intro b idx acc _ _ _
    exact ⟨b, by simp [buildObjKeys, bkeyBytes], by simp [bkeyBytes], by simp [ofBKVs, Rs.forIn_nil, bkeyBytes]⟩
  | cons kv kvs ih =>
    intro b idx acc hidx hb hacc
    obtain ⟨k, v⟩ := kv
    simp only [List.length_cons, bkeyBytes, List.length_append] at hidx hb hacc
    obtain ⟨b2, h2, hl2⟩ := replaceJentry_ok' (b ++ k) (jentryWord C.STRING_TAG k.length) idx
      (by rw [List.length_append]; omega)
    rw [List.length_append] at hl2
    obtain ⟨b3, h3, hl3, hrun3⟩ := ih b2 (idx + 4) (acc + k.length) (by omega) (by omega) (by omega)
    have hstep := ob_loop1_step k (ofBE v) b b2 acc idx (by omega) (by omega) h2
    refine ⟨b3, ?_, ?_, ?_⟩
    · simp only [buildObjKeys, h2, h3, List.length_cons, bkeyBytes, List.length_append]; congr 3 <;> omega
    · simp only [bkeyBytes, List.length_append]; omega
    · simp only [ofBKVs]
      rw [Rs.forIn_next _ _ _ _ _ hstep, hrun3]
      simp only [List.length_cons, bkeyBytes, List.length_append]
      have e1 : acc + k.length + (bkeyBytes kvs).length = acc + (k.length + (bkeyBytes kvs).length) := by omega
      have e2 : idx + 4 + kvs.length * 4 = idx + (kvs.length + 1) * 4 := by omega
      rw [e1, e2]

mutual
/-- **`write_entry`, translated from source, is the model's `buildEntry`** (= what `bspec` lays out:
`buildEntry_spec`) for every builder tree in the Rust domain, every buffer that stays below `2^64`
bytes, and every fuel above twice the nesting depth -/
theorem write_entry_spec : (e : BEntry) → (b : Bytes) → (g : Nat) → 2 * bdepth e < g → fitsB e →
    b.length + (bpay e).length < 18446744073709551616 →
    (bspec e).1 < 4294967296 ∧ (bspec e).2.1 < 4294967296 ∧
      Tr.write_entry g b (ofBE e) = .ok (⟨((bspec e).1 : Nat), ((bspec e).2.1 : Nat)⟩, b ++ bpay e)
  | .raw ty len d, b, g, hg, hf, _ => by
    obtain ⟨g, rfl⟩ : ∃ g', g = g' + 1 := ⟨g - 1, by omega⟩
    simp only [fitsB] at hf
    simp only [bspec_raw, bpay, ofBE]
    exact ⟨hf.1, hf.2, write_entry_raw g b _ d⟩
  | .arr es, b, g, hg, hf, hsz => by
    simp only [bdepth] at hg
    simp only [fitsB] at hf
    rw [bpay_arr_length] at hsz
    obtain ⟨g, rfl⟩ : ∃ g', g = g' + 2 := ⟨g - 2, by omega⟩
    have hlen0 : ((b ++ u32be (headerWord C.ARRAY_CONTAINER_TAG es.length)) ++ zeros (es.length * 4)).length
        = b.length + 4 + es.length * 4 := by simp [u32be, zeros]; omega
    obtain ⟨b', hm, hl, hrun⟩ := build_arr_loop es
      ((b ++ u32be (headerWord C.ARRAY_CONTAINER_TAG es.length)) ++ zeros (es.length * 4))
      (b.length + 4) (4 + es.length * 4) g (by omega) hf.1
      (by omega) (by omega) (by omega)
    have hspec := buildEntry_spec (.arr es) b
    simp only [buildEntry, hm] at hspec
    simp only [Res.ok.injEq, Prod.mk.injEq] at hspec
    obtain ⟨hb', hty, hlen⟩ := hspec
    refine ⟨by rw [← hty]; decide, by rw [← hlen]; exact Nat.mod_lt _ (by decide), ?_⟩
    simp only [ofBE]
    rw [write_entry_arr, array_build_into_succ _ _ _ (by rw [ofBEs_length]; omega)]
    rw [ofBEs_length, hrun]
    simp only [Ctl.val_bind', Ctl.run_ret', Res.bind, make_container_jentry_agrees]
    rw [← hty, ← hlen, bpay, ← hb']
  | .obj kvs, b, g, hg, hf, hsz => by
    simp only [bdepth] at hg
    simp only [fitsB] at hf
    rw [bpay_obj_length] at hsz
    obtain ⟨g, rfl⟩ : ∃ g', g = g' + 2 := ⟨g - 2, by omega⟩
    have hlen0 : ((b ++ u32be (headerWord C.OBJECT_CONTAINER_TAG kvs.length)) ++ zeros (kvs.length * 8)).length
        = b.length + 4 + kvs.length * 8 := by simp [u32be, zeros]; omega
    obtain ⟨b1, hm1, hl1, hrun1⟩ := build_obj_keys kvs
      ((b ++ u32be (headerWord C.OBJECT_CONTAINER_TAG kvs.length)) ++ zeros (kvs.length * 8))
      (b.length + 4) (4 + kvs.length * 8) (by omega) (by omega) (by omega)
    rw [hlen0] at hl1
    obtain ⟨b', hm, hl, hrun⟩ := build_obj_vals kvs b1 (b.length + 4 + kvs.length * 4)
      (4 + kvs.length * 8 + (bkeyBytes kvs).length) g (by omega) hf.1
      (by omega) (by omega) (by omega)
    have hspec := buildEntry_spec (.obj kvs) b
    simp only [buildEntry, hm1, hm] at hspec
    simp only [Res.ok.injEq, Prod.mk.injEq] at hspec
    obtain ⟨hb', hty, hlen⟩ := hspec
    refine ⟨by rw [← hty]; decide, by rw [← hlen]; exact Nat.mod_lt _ (by decide), ?_⟩
    simp only [ofBE]
    rw [write_entry_obj, object_build_into_succ _ _ _ (by rw [ofBKVs_length]; omega)]
    rw [ofBKVs_length, hrun1]
    simp only [Ctl.val_bind']
    rw [hrun]
    simp only [Ctl.val_bind', Ctl.run_ret', Res.bind, make_container_jentry_agrees]
    rw [← hty, ← hlen, bpay, ← hb']
/-- the entry loop of `ArrayBuilder::build_into` is the model's `buildArrLoop` -/
theorem build_arr_loop : (es : List BEntry) → (b : Bytes) → (idx acc g : Nat) → 2 * bdepthL es < g → fitsBL es →
    idx + es.length * 4 ≤ b.length → b.length + (bpaysL es).length < 18446744073709551616 →
    acc + bsizeL es < 18446744073709551616 →
    ∃ b', buildArrLoop b idx acc es = .ok (b', acc + bsizeL es) ∧ b'.length = b.length + (bpaysL es).length ∧
      Rs.forIn (ofBEs es) (b, (acc : Int), (idx : Int))
          (Tr.ArrayBuilder.build_into.loop1 (Tr.write_entry g)) =
        (Ctl.val (b', ((acc + bsizeL es : Nat) : Int), ((idx + es.length * 4 : Nat) : Int)) :
          Ctl (Int × Bytes) (Bytes × Int × Int))
  | [], b, idx, acc, g, _, _, _, _, _ =>
    ⟨b, by simp [buildArrLoop, bsizeL], by simp [bpaysL], by simp [ofBEs, Rs.forIn_nil, bsizeL]⟩
  | e :: es, b, idx, acc, g, hg, hf, hidx, hb, hacc => by
    simp only [bdepthL] at hg
    simp only [fitsBL] at hf
    simp only [bpaysL, bsizeL, List.length_append] at hb hacc
    simp only [List.length_cons] at hidx
    obtain ⟨hty, hlen, hcall⟩ := write_entry_spec e b g (by omega) hf.1 (by simp only [bpay]; omega)
    have hmod : (bspec e).2.1 % 4294967296 = (bspec e).2.1 := Nat.mod_eq_of_lt hlen
    rw [hmod] at hacc
    obtain ⟨b2, h2, hl2⟩ := replaceJentry_ok' (b ++ bpay e) (jentryWord (bspec e).1 (bspec e).2.1) idx
      (by rw [List.length_append]; omega)
    rw [List.length_append] at hl2
    simp only [bpay] at hl2
    obtain ⟨b3, hm3, hl3, hrun3⟩ := build_arr_loop es b2 (idx + 4) (acc + (bspec e).2.1) g (by omega) hf.2
      (by omega) (by omega) (by omega)
    have hstep := ab_loop1_step (Tr.write_entry g) (ofBE e) b (b ++ bpay e) b2 acc idx (bspec e).1 (bspec e).2.1
      hcall hty hlen (by omega) (by rw [List.length_append]; simp only [bpay]; omega) h2
    refine ⟨b3, ?_, ?_, ?_⟩
    · simp only [buildArrLoop, buildEntry_spec e b, hmod, bsizeL]
      simp only [bpay] at h2
      rw [h2]; dsimp only; rw [hm3, Nat.add_assoc]
    · simp only [bpaysL, List.length_append]; omega
    · simp only [ofBEs]
      rw [Rs.forIn_next _ _ _ _ _ hstep, hrun3]
      simp only [List.length_cons, bsizeL, hmod]
      have e1 : acc + (bspec e).2.1 + bsizeL es = acc + ((bspec e).2.1 + bsizeL es) := by omega
      have e2 : idx + 4 + es.length * 4 = idx + (es.length + 1) * 4 := by omega
      rw [e1, e2]
/-- the value loop of `ObjectBuilder::build_into` is the model's `buildObjVals` -/
theorem build_obj_vals : (kvs : List (Bytes × BEntry)) → (b : Bytes) → (idx acc g : Nat) → 2 * bdepthK kvs < g →
    fitsBK kvs → idx + kvs.length * 4 ≤ b.length → b.length + (bpaysK kvs).length < 18446744073709551616 →
    acc + bsizeK kvs < 18446744073709551616 →
    ∃ b', buildObjVals b idx acc kvs = .ok (b', acc + bsizeK kvs) ∧ b'.length = b.length + (bpaysK kvs).length ∧
      Rs.forIn (ofBKVs kvs) (b, (acc : Int), (idx : Int))
          (Tr.ObjectBuilder.build_into.loop2 (Tr.write_entry g)) =
        (Ctl.val (b', ((acc + bsizeK kvs : Nat) : Int), ((idx + kvs.length * 4 : Nat) : Int)) :
          Ctl (Int × Bytes) (Bytes × Int × Int))
  | [], b, idx, acc, g, _, _, _, _, _ =>
    ⟨b, by simp [buildObjVals, bsizeK], by simp [bpaysK], by simp [ofBKVs, Rs.forIn_nil, bsizeK]⟩
  | (k, e) :: kvs, b, idx, acc, g, hg, hf, hidx, hb, hacc => by
    simp only [bdepthK] at hg
    simp only [fitsBK] at hf
    simp only [bpaysK, bsizeK, List.length_append] at hb hacc
    simp only [List.length_cons] at hidx
    obtain ⟨hty, hlen, hcall⟩ := write_entry_spec e b g (by omega) hf.1 (by simp only [bpay]; omega)
    have hmod : (bspec e).2.1 % 4294967296 = (bspec e).2.1 := Nat.mod_eq_of_lt hlen
    rw [hmod] at hacc
    obtain ⟨b2, h2, hl2⟩ := replaceJentry_ok' (b ++ bpay e) (jentryWord (bspec e).1 (bspec e).2.1) idx
      (by rw [List.length_append]; omega)
    rw [List.length_append] at hl2
    simp only [bpay] at hl2
    obtain ⟨b3, hm3, hl3, hrun3⟩ := build_obj_vals kvs b2 (idx + 4) (acc + (bspec e).2.1) g (by omega) hf.2
      (by omega) (by omega) (by omega)
    have hstep := ob_loop2_step (Tr.write_entry g) k (ofBE e) b (b ++ bpay e) b2 acc idx (bspec e).1 (bspec e).2.1
      hcall hty hlen (by omega) (by rw [List.length_append]; simp only [bpay]; omega) h2
    refine ⟨b3, ?_, ?_, ?_⟩
    · simp only [buildObjVals, buildEntry_spec e b, hmod, bsizeK]
      simp only [bpay] at h2
      rw [h2]; dsimp only; rw [hm3, Nat.add_assoc]
    · simp only [bpaysK, List.length_append]; omega
    · simp only [ofBKVs]
      rw [Rs.forIn_next _ _ _ _ _ hstep, hrun3]
      simp only [List.length_cons, bsizeK, hmod]
      have e1 : acc + (bspec e).2.1 + bsizeK kvs = acc + ((bspec e).2.1 + bsizeK kvs) := by omega
      have e2 : idx + 4 + kvs.length * 4 = idx + (kvs.length + 1) * 4 := by omega
      rw [e1, e2]
end

/-! ## statements against the model functions as they are -/

/-- a result of the builder model `(buffer, type, length)` seen from the translation -/
def ofBuilt (r : Bytes × Nat × Nat) : Tr.JEntry × Bytes := (⟨(r.2.1 : Nat), (r.2.2 : Nat)⟩, r.1)

/-- **`write_entry` = `buildEntry`** -/
theorem write_entry_agrees (e : BEntry) (b : Bytes) (g : Nat) (hg : 2 * bdepth e < g) (hf : fitsB e)
    (hsz : b.length + (bpay e).length < 18446744073709551616) :
    Tr.write_entry g b (ofBE e) = (buildEntry b e).map ofBuilt := by
  obtain ⟨_, _, ht⟩ := write_entry_spec e b g hg hf hsz
  rw [ht, buildEntry_spec]; rfl

/-- **`ArrayBuilder::build_into`, translated from source, is the model's `buildArrayInto`** (the function
the editors' theorems of C06 / C07 / C13 / C17 are about); the returned `usize` is the measured length -/
theorem array_build_into_agrees (es : List BEntry) (b : Bytes) (g : Nat) (hg : 2 * bdepthL es + 1 < g)
    (hf : fitsB (.arr es)) (hsz : b.length + (bpay (.arr es)).length < 18446744073709551616) :
    Tr.ArrayBuilder.build_into g ⟨ofBEs es⟩ b =
      (buildArrayInto b es).map (fun b' => (((4 + es.length * 4 + bsizeL es : Nat) : Int), b')) := by
  obtain ⟨g, rfl⟩ : ∃ g', g = g' + 1 := ⟨g - 1, by omega⟩
  rw [buildArrayInto_spec]
  simp only [fitsB] at hf
  rw [bpay_arr_length] at hsz
  have hlen0 : ((b ++ u32be (headerWord C.ARRAY_CONTAINER_TAG es.length)) ++ zeros (es.length * 4)).length
      = b.length + 4 + es.length * 4 := by simp [u32be, zeros]; omega
  obtain ⟨b', hm, hl, hrun⟩ := build_arr_loop es
    ((b ++ u32be (headerWord C.ARRAY_CONTAINER_TAG es.length)) ++ zeros (es.length * 4))
    (b.length + 4) (4 + es.length * 4) g (by omega) hf.1
    (by omega) (by omega) (by omega)
  have hspec := buildEntry_spec (.arr es) b
  simp only [buildEntry, hm] at hspec
  simp only [Res.ok.injEq, Prod.mk.injEq] at hspec
  rw [array_build_into_succ _ _ _ (by rw [ofBEs_length]; omega), ofBEs_length, hrun]
  simp only [Ctl.val_bind', Ctl.run_ret', Res.map, Res.bind]
  rw [hspec.1]

/-- **`ObjectBuilder::build_into`, translated from source, is the model's `buildObjectInto`** -/
theorem object_build_into_agrees (kvs : List (Bytes × BEntry)) (b : Bytes) (g : Nat) (hg : 2 * bdepthK kvs + 1 < g)
    (hf : fitsB (.obj kvs)) (hsz : b.length + (bpay (.obj kvs)).length < 18446744073709551616) :
    Tr.ObjectBuilder.build_into g ⟨ofBKVs kvs⟩ b =
      (buildObjectInto b kvs).map (fun b' =>
        (((4 + kvs.length * 8 + (bkeyBytes kvs).length + bsizeK kvs : Nat) : Int), b')) := by
  obtain ⟨g, rfl⟩ : ∃ g', g = g' + 1 := ⟨g - 1, by omega⟩
  rw [buildObjectInto_spec]
  simp only [fitsB] at hf
  rw [bpay_obj_length] at hsz
  have hlen0 : ((b ++ u32be (headerWord C.OBJECT_CONTAINER_TAG kvs.length)) ++ zeros (kvs.length * 8)).length
      = b.length + 4 + kvs.length * 8 := by simp [u32be, zeros]; omega
  obtain ⟨b1, hm1, hl1, hrun1⟩ := build_obj_keys kvs
    ((b ++ u32be (headerWord C.OBJECT_CONTAINER_TAG kvs.length)) ++ zeros (kvs.length * 8))
    (b.length + 4) (4 + kvs.length * 8) (by omega) (by omega) (by omega)
  rw [hlen0] at hl1
  obtain ⟨b', hm, hl, hrun⟩ := build_obj_vals kvs b1 (b.length + 4 + kvs.length * 4)
    (4 + kvs.length * 8 + (bkeyBytes kvs).length) g (by omega) hf.1
    (by omega) (by omega) (by omega)
  have hspec := buildEntry_spec (.obj kvs) b
  simp only [buildEntry, hm1, hm] at hspec
  simp only [Res.ok.injEq, Prod.mk.injEq] at hspec
  rw [object_build_into_succ _ _ _ (by rw [ofBKVs_length]; omega), ofBKVs_length, hrun1]
  simp only [Ctl.val_bind']
  rw [hrun]
  simp only [Ctl.val_bind', Ctl.run_ret', Res.map, Res.bind]
  rw [hspec.1]

/-- with fuel 0 the translated functions answer `Res.fuel`, the model a buffer: the fuel bound is necessary -/
theorem build_into_fuel_zero (es : List BEntry) (b : Bytes) :
    Tr.ArrayBuilder.build_into 0 ⟨ofBEs es⟩ b = .fuel ∧ buildArrayInto b es ≠ .fuel := by
  refine ⟨rfl, ?_⟩
  rw [buildArrayInto_spec]; intro h; cases h

end Jsonb.TrAgree
