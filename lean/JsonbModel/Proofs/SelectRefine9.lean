/-
C08 refinement, part 9: the public API, both directions.

For a supported path (everything `parse_json_path` produces) on a good document and with enough
fuel, `select` (all-mode), `exists` and `predicate_match` answer `Ok` with exactly what the spec
denotes, or `Err` exactly when the spec has no denotation.  They never panic.
-/
import JsonbModel.Proofs.SelectRefine4
import JsonbModel.Proofs.SelectRefine8

namespace Jsonb
open JV Sel

/-- completeness of all-mode at equal fuel: if the spec denotes `items`, `select` returns their
documents -/
theorem select_all_complete (v₀ : JV) (hg : goodTop v₀ = true) (jp : JsonPath) (hs : suppPaths jp = true)
    (hhead : jp.head? ≠ some .current) (hnp : isPredicate jp = false) (f : Nat) (items : List JV)
    (h : Spec.evalPaths f v₀ none jp = some items) (data : Bytes) (offs : List Nat) :
    select jp .all (encodeSpec v₀) data offs f
      = .ok (data ++ items.flatMap encodeSpec, offs ++ ends data.length items) := by
  obtain ⟨ps, h1, h2⟩ := findPositions_complete v₀ hg jp hs hhead f items h
  simp only [select, h1, hnp, Bool.false_eq_true, if_false]
  exact buildValues_rep _ ps items h2 data offs

/-- **all-mode, exact**: with enough fuel, `Ok` with the documents of the denoted items and their
running end offsets, or `Err` and the path has no denotation -/
theorem select_all_exact (v₀ : JV) (hg : goodTop v₀ = true) (jp : JsonPath) (hs : suppPaths jp = true)
    (hhead : jp.head? ≠ some .current) (hnp : isPredicate jp = false) (data : Bytes) (offs : List Nat) :
    ∃ F, ∀ fuel, F ≤ fuel →
      (∃ items, Ev (fun f => Spec.evalPaths f v₀ none jp) items ∧
        select jp .all (encodeSpec v₀) data offs fuel
          = .ok (data ++ items.flatMap encodeSpec, offs ++ ends data.length items)) ∨
      (∃ e, select jp .all (encodeSpec v₀) data offs fuel = .err e ∧
        ∀ f, Spec.evalPaths f v₀ none jp = none) := by
  obtain ⟨F, hF⟩ := findPositions_exact v₀ hg jp hs hhead
  refine ⟨F, fun fuel hle => ?_⟩
  rcases hF fuel hle with ⟨ps, items, h1, h2, h3⟩ | ⟨e, h1, h2⟩
  · refine .inl ⟨items, h3, ?_⟩
    simp only [select, h1, hnp, Bool.false_eq_true, if_false]
    exact buildValues_rep _ ps items h2 data offs
  · exact .inr ⟨e, by simp only [select, h1], h2⟩

/-- **`exists`, exact** -/
theorem exists_exact (v₀ : JV) (hg : goodTop v₀ = true) (jp : JsonPath) (hs : suppPaths jp = true)
    (hhead : jp.head? ≠ some .current) (hnp : isPredicate jp = false) :
    ∃ F, ∀ fuel, F ≤ fuel →
      (∃ items, Ev (fun f => Spec.evalPaths f v₀ none jp) items ∧
        exists_ jp (encodeSpec v₀) fuel = .ok (!items.isEmpty)) ∨
      (∃ e, exists_ jp (encodeSpec v₀) fuel = .err e ∧ ∀ f, Spec.evalPaths f v₀ none jp = none) := by
  obtain ⟨F, hF⟩ := findPositions_exact v₀ hg jp hs hhead
  refine ⟨F, fun fuel hle => ?_⟩
  rcases hF fuel hle with ⟨ps, items, h1, h2, h3⟩ | ⟨e, h1, h2⟩
  · refine .inl ⟨items, h3, ?_⟩
    simp only [exists_, hnp, Bool.false_eq_true, if_false, h1, Res.map, Res.bind, RepL_isEmpty h2]
  · exact .inr ⟨e, by simp only [exists_, hnp, Bool.false_eq_true, if_false, h1, Res.map, Res.bind], h2⟩

/-- **`predicate_match`, exact** (on a predicate path) -/
theorem predicateMatch_exact (v₀ : JV) (hg : goodTop v₀ = true) (jp : JsonPath) (hs : suppPaths jp = true)
    (hp : isPredicate jp = true) :
    ∃ F, ∀ fuel, F ≤ fuel →
      (∃ items, Ev (fun f => Spec.evalPaths f v₀ none jp) items ∧
        predicateMatch jp (encodeSpec v₀) fuel = .ok (!items.isEmpty)) ∨
      (∃ e, predicateMatch jp (encodeSpec v₀) fuel = .err e ∧ ∀ f, Spec.evalPaths f v₀ none jp = none) := by
  have hhead : jp.head? ≠ some .current := by
    cases jp with
    | nil => simp
    | cons p rest => cases p <;> simp_all [isPredicate]
  obtain ⟨F, hF⟩ := findPositions_exact v₀ hg jp hs hhead
  refine ⟨F, fun fuel hle => ?_⟩
  rcases hF fuel hle with ⟨ps, items, h1, h2, h3⟩ | ⟨e, h1, h2⟩
  · refine .inl ⟨items, h3, ?_⟩
    simp only [predicateMatch, hp, Bool.not_true, Bool.false_eq_true, if_false, h1, Res.map, Res.bind,
      RepL_isEmpty h2]
  · exact .inr ⟨e, by simp only [predicateMatch, hp, Bool.not_true, Bool.false_eq_true, if_false, h1,
      Res.map, Res.bind], h2⟩

/-- `select` never panics on a supported path and a good document whose size fits the entry
fields (all-mode and first-mode need no size bound) -/
theorem select_all_no_panic (v₀ : JV) (hg : goodTop v₀ = true) (jp : JsonPath) (hs : suppPaths jp = true)
    (hhead : jp.head? ≠ some .current) (fuel : Nat) (data : Bytes) (offs : List Nat) (s : String) :
    select jp .all (encodeSpec v₀) data offs fuel ≠ .panic s := by
  rcases findPositions_trichotomy v₀ hg jp hs hhead fuel with h | ⟨ps, items, h, h2, _⟩ | ⟨e, h, _⟩
  · simp [select, h]
  · simp only [select, h]
    split
    · simp
    · rw [buildValues_rep _ ps items h2]; simp
  · simp [select, h]

end Jsonb
