/-
C10: JSON text is never misread as binary.  For every byte string whose first byte can start a
JSON text other than a space (`n t f " - 0-9 [ {`, or white space `\t \n \r \x0c`, or the `\` of
the lenient escaped white space) and that is shorter than 2^27 bytes, the binary decoder returns
an error, so `from_slice` falls through to the text parser.
-/
import JsonbModel.Functions.Text
import JsonbModel.Proofs.DecTotal

namespace Jsonb

theorem readEntries_short (n : Nat) (bs : Bytes) (h : bs.length < 4 * n) : readEntries n bs = none := by
  induction n generalizing bs with
  | zero => omega
  | succ n ih =>
    simp only [readEntries]
    cases hr : readU32 bs with
    | none => rfl
    | some p =>
      obtain ⟨e, bs'⟩ := p
      have hlen : bs'.length + 4 = bs.length := by
        simp only [readU32, readBe] at hr
        split at hr
        · simp at hr; rw [← hr.2]; simp; omega
        · simp at hr
      simp only []
      rw [ih bs' (by omega)]

/-- the first byte decides the three type bits of the header word -/
theorem hdr_of_first (b0 b1 b2 b3 : UInt8) (rest : Bytes) :
    readU32 (b0 :: b1 :: b2 :: b3 :: rest)
      = some (b0.toNat * 16777216 + b1.toNat * 65536 + b2.toNat * 256 + b3.toNat, rest) := by
  have : ofBe [b0, b1, b2, b3] = b0.toNat * 16777216 + b1.toNat * 65536 + b2.toNat * 256 + b3.toNat := by
    rw [ofBe_cons, ofBe_cons, ofBe_cons, ofBe_cons]; simp [ofBe]; omega
  simp only [readU32, readBe, List.length_cons]
  rw [if_pos (by omega)]
  simp only [List.take_succ_cons, List.take_zero, List.drop_succ_cons, List.drop_zero, this]

/-- bytes that can start a JSON text (the space 0x20 excluded) -/
def jsonStart (b : UInt8) : Bool :=
  b == 0x6E || b == 0x74 || b == 0x66 || b == 0x22 || b == 0x2D || (0x30 ≤ b && b ≤ 0x39) ||
  b == 0x5B || b == 0x7B || b == 0x09 || b == 0x0A || b == 0x0D || b == 0x0C || b == 0x5C

/-- … as a fact about the byte's numeric value: type bits 000 or 011 (no container type), 001
(scalar bits, but the byte is not 0x20), or 010 with the five count bits ≥ 0x1B -/
theorem jsonStart_cases : ∀ n, n < 256 → jsonStart (UInt8.ofNat n) = true →
    (n / 32 = 0 ∨ n / 32 = 3) ∨ (n / 32 = 1 ∧ n ≠ 32) ∨ (n / 32 = 2 ∧ 27 ≤ n % 32) := by
  decide +kernel

theorem hdrType_eq (h : Nat) : hdrType h = (h / 536870912 % 8) * 536870912 := by
  have h1 := and_hi h 29 3
  rw [← p29', ← mHT'] at h1
  exact h1
where
  p29' : (536870912 : Nat) = 2 ^ 29 := by simp
  mHT' : C.CONTAINER_HEADER_TYPE_MASK = (2 ^ 3 - 1) * 2 ^ 29 := by simp [C.CONTAINER_HEADER_TYPE_MASK]

theorem hdrLen_eq (h : Nat) : hdrLen h = h % 536870912 := by
  have h1 := Nat.and_two_pow_sub_one_eq_mod h 29
  rw [show (2 : Nat) ^ 29 - 1 = C.CONTAINER_HEADER_LEN_MASK by simp [C.CONTAINER_HEADER_LEN_MASK],
    show (2 : Nat) ^ 29 = 536870912 by simp] at h1
  exact h1

theorem hdr_arith (H b0 b1 b2 b3 : Nat) (hb0 : b0 < 256) (hb1 : b1 < 256) (hb2 : b2 < 256) (hb3 : b3 < 256)
    (hH : b0 * 16777216 + b1 * 65536 + b2 * 256 + b3 = H) :
    H / 536870912 = b0 / 32 ∧ (b0 % 32) * 16777216 ≤ H % 536870912 := by
  have h1 := Nat.div_add_mod b0 32
  have h2 : b0 % 32 < 32 := Nat.mod_lt _ (by decide)
  have e : H = ((b0 % 32) * 16777216 + (b1 * 65536 + b2 * 256 + b3)) + (b0 / 32) * 536870912 := by omega
  have hlt : (b0 % 32) * 16777216 + (b1 * 65536 + b2 * 256 + b3) < 536870912 := by omega
  constructor
  · rw [e, Nat.add_mul_div_right _ _ (by decide), Nat.div_eq_of_lt hlt]; simp
  · rw [e, Nat.add_mul_mod_self_right, Nat.mod_eq_of_lt hlt]; omega

theorem decJsonb_text_err (fuel : Nat) (b0 b1 b2 b3 : UInt8) (rest : Bytes)
    (hs : jsonStart b0 = true) (hl : rest.length + 4 < 134217728) :
    ∃ e, decJsonb (fuel + 1) (b0 :: b1 :: b2 :: b3 :: rest) = .err e := by
  have hb0 := b0.toNat_lt; have hb1 := b1.toNat_lt; have hb2 := b2.toNat_lt; have hb3 := b3.toNat_lt
  have hc := jsonStart_cases b0.toNat hb0 (by rw [show UInt8.ofNat b0.toNat = b0 by simp]; exact hs)
  simp only [decJsonb, hdr_of_first]
  generalize hH : b0.toNat * 16777216 + b1.toNat * 65536 + b2.toNat * 256 + b3.toNat = H
  have ⟨hd2, hm⟩ := hdr_arith H b0.toNat b1.toNat b2.toNat b3.toNat hb0 hb1 hb2 hb3 hH
  have ht : hdrType H = (b0.toNat / 32) * 536870912 := by
    rw [hdrType_eq, hd2, Nat.mod_eq_of_lt (by omega)]
  have s1 : C.SCALAR_CONTAINER_TAG = 1 * 536870912 := by decide
  have s2 : C.ARRAY_CONTAINER_TAG = 4 * 536870912 := by decide
  have s3 : C.OBJECT_CONTAINER_TAG = 2 * 536870912 := by decide
  rcases hc with (h | h) | ⟨h, hne⟩ | ⟨h, hbig⟩
  · rw [ht, h, s1, s2, s3]
    rw [if_neg (by omega), if_neg (by omega), if_neg (by omega)]; exact ⟨_, rfl⟩
  · rw [ht, h, s1, s2, s3]
    rw [if_neg (by omega), if_neg (by omega), if_neg (by omega)]; exact ⟨_, rfl⟩
  · rw [ht, h, s1]
    rw [if_pos rfl, if_pos (by omega)]; exact ⟨_, rfl⟩
  · rw [ht, h, s1, s2, s3]
    rw [if_neg (by omega), if_neg (by omega), if_pos rfl, hdrLen_eq]
    rw [readEntries_short _ _ (by
      have : 27 * 16777216 ≤ H % 536870912 := Nat.le_trans (Nat.mul_le_mul_right _ hbig) hm
      omega)]
    exact ⟨_, rfl⟩

theorem parseJsonb_text_err (t : Bytes) (b0 : UInt8) (tl : Bytes) (ht : t = b0 :: tl)
    (hs : jsonStart b0 = true) (hl : t.length < 134217728) :
    ∃ e, parseJsonb t = .err e := by
  subst ht
  unfold parseJsonb
  split
  · exact ⟨_, rfl⟩
  · rename_i h4
    match tl, h4, hl with
    | [], h4, _ => simp at h4
    | [_], h4, _ => simp at h4
    | [_, _], h4, _ => simp at h4
    | b1 :: b2 :: b3 :: rest, _, hl =>
      have hf : decFuel (b0 :: b1 :: b2 :: b3 :: rest) = (decFuel (b0 :: b1 :: b2 :: b3 :: rest) - 1) + 1 := by
        simp [decFuel]
      obtain ⟨e, he⟩ := decJsonb_text_err (decFuel (b0 :: b1 :: b2 :: b3 :: rest) - 1) b0 b1 b2 b3 rest hs
        (by simp only [List.length_cons] at hl; omega)
      rw [hf, he]; exact ⟨_, rfl⟩

/-- **text fallback**: such a text is decoded by the text parser, never misread as binary -/
theorem fromSlice_text (t : Bytes) (b0 : UInt8) (tl : Bytes) (ht : t = b0 :: tl)
    (hs : jsonStart b0 = true) (hl : t.length < 134217728) :
    T.fromSlice t = parseValue t := by
  obtain ⟨e, he⟩ := parseJsonb_text_err t b0 tl ht hs hl
  simp [T.fromSlice, he]

end Jsonb
