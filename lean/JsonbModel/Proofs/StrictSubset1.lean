/-
Strict ⊆ relaxed, part 1: white space, the cursor view, literals.

`Strict.parse` (Spec/StrictJson.lean) works on the remaining input (a suffix of the text); the
crate's parser (`JsonParser.lean`) works on the whole buffer and a cursor.  The two are related
through the view `buf.drop i = remaining input`.
-/
import JsonbModel.Proofs.JsonParserRender
import JsonbModel.Spec.StrictJson

namespace Jsonb
namespace SS
open Jsonb.JP

/-! ### White space -/

/-- every byte is RFC 8259 white space -/
def AllWs (w : Bytes) : Prop := ∀ c ∈ w, Strict.isWs c = true

theorem AllWs_nil : AllWs [] := by intro c h; simp at h

theorem isWs_of_strict {c : UInt8} (h : Strict.isWs c = true) : JP.isWs c = true := by
  simp only [Strict.isWs, Bool.or_eq_true, beq_iff_eq] at h
  rcases h with ((h | h) | h) | h <;> (subst h; decide)

/-- the strict skipper removes a prefix of strict white space and stops at a non-white-space
byte (or the end) -/
theorem skipWs_decomp (bs : Bytes) :
    ∃ w, AllWs w ∧ bs = w ++ Strict.skipWs bs ∧
      ∀ c, (Strict.skipWs bs).head? = some c → Strict.isWs c = false := by
  induction bs with
  | nil => exact ⟨[], AllWs_nil, by simp [Strict.skipWs], by simp [Strict.skipWs]⟩
  | cons b bs ih =>
    by_cases hb : Strict.isWs b = true
    · obtain ⟨w, hw, he, hn⟩ := ih
      refine ⟨b :: w, ?_, ?_, ?_⟩
      · intro c hc
        rcases List.mem_cons.mp hc with rfl | hc
        · exact hb
        · exact hw c hc
      · simp only [Strict.skipWs, hb, if_true, List.cons_append]
        rw [← he]
      · simpa only [Strict.skipWs, hb, if_true] using hn
    · have hb' : Strict.isWs b = false := by simpa using hb
      refine ⟨[], AllWs_nil, by simp [Strict.skipWs, hb'], ?_⟩
      intro c hc
      simp only [Strict.skipWs, hb', Bool.false_eq_true, if_false, List.head?_cons,
        Option.some.injEq] at hc
      subst hc; exact hb'

theorem skipWs_idem (bs : Bytes) : Strict.skipWs (Strict.skipWs bs) = Strict.skipWs bs := by
  induction bs with
  | nil => simp [Strict.skipWs]
  | cons b bs ih =>
    by_cases hb : Strict.isWs b = true
    · simpa only [Strict.skipWs, hb, if_true] using ih
    · have hb' : Strict.isWs b = false := by simpa using hb
      simp [Strict.skipWs, hb']

/-- **white space**: whatever the strict skipper consumes, `skip_unused` consumes, provided
the next byte is not one of the crate's extra white-space starters (form feed, backslash) -/
theorem skipUnused_ws {buf : Bytes} {w : Bytes} (hw : AllWs w) :
    ∀ {i : Nat} {s : Bytes}, buf.drop i = w ++ s → Tok s → skipUnused buf i = .ok (i + w.length) := by
  induction w with
  | nil => intro i s h ht; simpa using skipUnused_view (by simpa using h) ht
  | cons c w ih =>
    intro i s h ht
    have h' : buf.drop i = c :: (w ++ s) := by simpa using h
    have hlt := lt_of_drop_cons h'
    rw [skipUnused, dif_pos hlt]
    simp only [getUnwrap_lt _ _ _ hlt, bind_ok, getElem_of_drop h' hlt,
      isWs_of_strict (hw c (by simp)), if_true]
    rw [ih (fun x hx => hw x (by simp [hx])) (drop_succ_of_drop h') ht]
    simp only [List.length_cons]; congr 1; omega

/-- `skip_unused` at a cursor whose remaining input is `bs`, when the strict skipper stops at
a token byte -/
theorem skipUnused_skipWs {buf : Bytes} {i : Nat} {bs : Bytes} (h : buf.drop i = bs)
    (ht : Tok (Strict.skipWs bs)) :
    ∃ j, skipUnused buf i = .ok j ∧ buf.drop j = Strict.skipWs bs ∧ i ≤ j := by
  obtain ⟨w, hw, he, -⟩ := skipWs_decomp bs
  refine ⟨i + w.length, skipUnused_ws hw (h.trans he) ht, ?_, by omega⟩
  exact drop_add_of_drop (h.trans he)

theorem Tok_cons {c : UInt8} (s : Bytes) (h1 : JP.isWs c = false) (h2 : c ≠ 0x5C) : Tok (c :: s) := by
  intro x hx; simp only [List.head?_cons, Option.some.injEq] at hx; subst hx; exact ⟨h1, h2⟩

end SS
end Jsonb
