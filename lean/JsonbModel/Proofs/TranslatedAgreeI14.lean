/-
Phase 6c, editors: the `strip_nulls` family.  I14: the loops against `Fn.stripItems` / `Fn.stripMembers`, the group
(`strip_nulls_array`, `strip_nulls_object`) by strong induction on the model's fuel.
-/
import JsonbModel.Proofs.TranslatedAgreeI13

set_option linter.unusedSimpArgs false
set_option linter.unusedVariables false

namespace Jsonb.TrAgree
open Jsonb.Rs

theorem stripItems_cons (f : Nat) (x : JE × Bytes) (rest : List (JE × Bytes)) :
    Fn.stripItems (f + 1) (x :: rest) =
      match stripHeadOf (fun ih => Fn.stripObject f ih x.2) (fun ih => Fn.stripArray f ih x.2) x with
      | .ok e => (Fn.stripItems f rest).map (e :: ·)
      | .err e => .err e
      | .panic s => .panic s
      | .fuel => .fuel := by
  obtain ⟨je, item⟩ := x
  rw [Fn.stripItems]
  rfl

theorem stripMembers_cons (f : Nat) (m : Bytes × JE × Bytes) (rest : List (Bytes × JE × Bytes)) (acc : List (Bytes × BEntry)) :
    Fn.stripMembers (f + 1) (m :: rest) acc =
      match stripMemberOf (fun ih => Fn.stripObject f ih m.2.2) (fun ih => Fn.stripArray f ih m.2.2) m acc with
      | .ok acc' => Fn.stripMembers f rest acc'
      | .err e => .err e
      | .panic s => .panic s
      | .fuel => .fuel := by
  obtain ⟨key, je, item⟩ := m
  rw [Fn.stripMembers]
  unfold stripMemberOf
  dsimp only
  by_cases hc : je.ty = C.CONTAINER_TAG
  · simp only [if_pos hc]
    cases readU32At item 0 with
    | none => rfl
    | some ih =>
      dsimp only
      by_cases hO : hdrType ih = C.OBJECT_CONTAINER_TAG
      · simp only [if_pos hO]
        cases Fn.stripObject f ih item <;> rfl
      · simp only [if_neg hO]
        by_cases hA : hdrType ih = C.ARRAY_CONTAINER_TAG
        · simp only [if_pos hA]
          cases Fn.stripArray f ih item <;> rfl
        · simp only [if_neg hA]
  · simp only [if_neg hc]
    by_cases hn : je.ty = C.NULL_TAG
    · simp only [if_pos hn]
    · simp only [if_neg hn]

/-- the loop of `strip_nulls_array` is the model's `stripItems` -/
theorem sa_run (recO : Int → Bytes → Res Tr.ObjectBuilder) (recA : Int → Bytes → Res Tr.ArrayBuilder) :
    ∀ (items : List (JE × Bytes)) (f : Nat) (acc : List BEntry), StripRecOK f recO recA →
      (∀ x ∈ items, x.2.length < 1152921504606846976) →
      LoopVal (Rs.forIn (items.map ofItem) (arrB acc) (Tr.strip_nulls_array.loop1 recO recA) : Ctl Tr.ArrayBuilder Tr.ArrayBuilder)
        ((Fn.stripItems f items).map (fun es => arrB (acc ++ es))) := by
  intro items
  induction items with
  | nil =>
    intro f acc _ _
    cases f with
    | zero => simp only [Fn.stripItems, Res.map, Res.bind, LoopVal]
    | succ f => simp only [Fn.stripItems, Res.map, Res.bind, LoopVal, List.map_nil, Rs.forIn_nil, List.append_nil]
  | cons x items ih =>
    intro f acc hrec hb
    cases f with
    | zero => simp only [Fn.stripItems, Res.map, Res.bind, LoopVal]
    | succ f =>
      have hx := hb x List.mem_cons_self
      have hstep := sa_loop1_step recO recA x acc (fun ih => Fn.stripObject f ih x.2) (fun ih => Fn.stripArray f ih x.2)
        (fun ih _ _ h1 h2 => (hrec f (by omega) ih x.2 hx).1 h1 h2)
        (fun ih _ _ h1 h2 => (hrec f (by omega) ih x.2 hx).2 h1 h2)
      rw [stripItems_cons, List.map_cons]
      cases hm : stripHeadOf (fun ih => Fn.stripObject f ih x.2) (fun ih => Fn.stripArray f ih x.2) x with
      | fuel => simp only [Res.map, Res.bind, LoopVal]
      | panic s => simp only [Res.map, Res.bind, LoopVal]
      | err e =>
        rw [hm] at hstep
        simp only [Res.map, Res.bind, StepRel] at hstep
        simp only [Res.map, Res.bind, LoopVal]
        exact Rs.forIn_ret _ _ _ _ _ hstep
      | ok e =>
        rw [hm] at hstep
        simp only [Res.map, Res.bind, StepRel] at hstep
        rw [Rs.forIn_next _ _ _ _ _ hstep]
        have hnext := ih f (acc ++ [e]) (hrec.mono (by omega)) (fun y hy => hb y (List.mem_cons_of_mem _ hy))
        dsimp only
        cases hr : Fn.stripItems f items with
        | fuel => simp only [Res.map, Res.bind, LoopVal]
        | panic s => simp only [Res.map, Res.bind, LoopVal]
        | err e' => rw [hr] at hnext; simpa only [Res.map, Res.bind, LoopVal] using hnext
        | ok es =>
          rw [hr] at hnext
          simp only [Res.map, Res.bind, LoopVal, List.append_assoc, List.singleton_append] at hnext ⊢
          exact hnext

/-- the loop of `strip_nulls_object` is the model's `stripMembers` -/
theorem so_run (recO : Int → Bytes → Res Tr.ObjectBuilder) (recA : Int → Bytes → Res Tr.ArrayBuilder) :
    ∀ (ms : List (Bytes × JE × Bytes)) (f : Nat) (acc : List (Bytes × BEntry)), StripRecOK f recO recA →
      (∀ x ∈ ms, x.2.2.length < 1152921504606846976) →
      LoopVal (Rs.forIn (ms.map ofMember) (objB acc) (Tr.strip_nulls_object.loop1 recO recA) : Ctl Tr.ObjectBuilder Tr.ObjectBuilder)
        ((Fn.stripMembers f ms acc).map objB) := by
  intro ms
  induction ms with
  | nil =>
    intro f acc _ _
    cases f with
    | zero => simp only [Fn.stripMembers, Res.map, Res.bind, LoopVal]
    | succ f => simp only [Fn.stripMembers, Res.map, Res.bind, LoopVal, List.map_nil, Rs.forIn_nil]
  | cons m ms ih =>
    intro f acc hrec hb
    cases f with
    | zero => simp only [Fn.stripMembers, Res.map, Res.bind, LoopVal]
    | succ f =>
      have hx := hb m List.mem_cons_self
      have hstep := so_loop1_step recO recA m acc (fun ih => Fn.stripObject f ih m.2.2) (fun ih => Fn.stripArray f ih m.2.2)
        (fun ih _ _ h1 h2 => (hrec f (by omega) ih m.2.2 hx).1 h1 h2)
        (fun ih _ _ h1 h2 => (hrec f (by omega) ih m.2.2 hx).2 h1 h2)
      rw [stripMembers_cons, List.map_cons]
      cases hm : stripMemberOf (fun ih => Fn.stripObject f ih m.2.2) (fun ih => Fn.stripArray f ih m.2.2) m acc with
      | fuel => simp only [Res.map, Res.bind, LoopVal]
      | panic s => simp only [Res.map, Res.bind, LoopVal]
      | err e =>
        rw [hm] at hstep
        simp only [Res.map, Res.bind, StepRel] at hstep
        simp only [Res.map, Res.bind, LoopVal]
        exact Rs.forIn_ret _ _ _ _ _ hstep
      | ok acc' =>
        rw [hm] at hstep
        simp only [Res.map, Res.bind, StepRel] at hstep
        rw [Rs.forIn_next _ _ _ _ _ hstep]
        exact ih f acc' (hrec.mono (by omega)) (fun y hy => hb y (List.mem_cons_of_mem _ hy))

/-- one unfolding of `strip_nulls_array` -/
theorem strip_nulls_array_step (g f : Nat) (h : Nat) (value : Bytes) (hlen : value.length < 1152921504606846976)
    (hg : 536870913 < g) (hrec : StripRecOK f (Tr.strip_nulls_object g) (Tr.strip_nulls_array g))
    (hne : Fn.stripArray (f + 1) h value ≠ .fuel) (hnp : (Fn.stripArray (f + 1) h value).isPanic = false) :
    Tr.strip_nulls_array (g + 1) (h : Int) value = (Fn.stripArray (f + 1) h value).map arrB := by
  rw [Tr.strip_nulls_array]
  rw [Fn.stripArray] at hne hnp ⊢
  have hL := hdrLen_lt h
  simp only [hdrLen_cast, array_builder_new_agrees (hdrLen h) (by omega), Ctl.ofRes_ok', Ctl.val_bind', iterate_array_agrees]
  have hi : ∃ items, iterArray value h = .ok items := by
    apply res_ok_of _ (iterArray_ne_fuel value h) _ (iterArray_ne_err value h)
    cases hia : iterArray value h with
    | panic s => rw [hia] at hnp; simp [Res.isPanic] at hnp
    | _ => rfl
  obtain ⟨items, hit⟩ := hi
  rw [hit] at hne hnp ⊢
  dsimp only at hne hnp ⊢
  rw [forIter_of_drain _ _ g _ (items.map ofItem) _ (drain_array_ok value h g items (by omega) hit)]
  have hrun := sa_run (Tr.strip_nulls_object g) (Tr.strip_nulls_array g) items f [] hrec
    (fun x hx => by have := iterArray_item_le value h items hit x hx; omega)
  have hb0 : (⟨ofBEs []⟩ : Tr.ArrayBuilder) = arrB [] := rfl
  rw [hb0]
  cases hm : Fn.stripItems f items with
  | fuel => exact absurd hm hne
  | panic s => rw [hm] at hnp; simp [Res.isPanic] at hnp
  | err e =>
    rw [hm] at hrun
    simp only [LoopVal, Res.map, Res.bind] at hrun
    simp only [hrun, Ctl.ret_bind', Ctl.run_ret', Res.map, Res.bind]
  | ok es =>
    rw [hm] at hrun
    simp only [LoopVal, Res.map, Res.bind, List.nil_append] at hrun
    simp only [hrun, Ctl.val_bind', Ctl.run_ret', Res.map, Res.bind]

/-- one unfolding of `strip_nulls_object` -/
theorem strip_nulls_object_step (g f : Nat) (h : Nat) (value : Bytes) (hlen : value.length < 1152921504606846976)
    (hg : 536870913 < g) (hrec : StripRecOK f (Tr.strip_nulls_object g) (Tr.strip_nulls_array g))
    (hne : Fn.stripObject (f + 1) h value ≠ .fuel) (hnp : (Fn.stripObject (f + 1) h value).isPanic = false) :
    Tr.strip_nulls_object (g + 1) (h : Int) value = (Fn.stripObject (f + 1) h value).map objB := by
  rw [Tr.strip_nulls_object]
  rw [Fn.stripObject] at hne hnp ⊢
  have hL := hdrLen_lt h
  simp only [object_builder_new_agrees, Ctl.ofRes_ok', Ctl.val_bind', iterate_object_entries_agrees]
  have hi : ∃ ms, iterObjEntries value h = .ok ms := by
    apply res_ok_of _ _ _ (iterObjEntries_ne_err value h)
    · intro c; rw [c] at hne; exact hne rfl
    · cases hia : iterObjEntries value h with
      | panic s => rw [hia] at hnp; simp [Res.isPanic] at hnp
      | _ => rfl
  obtain ⟨ms, hms⟩ := hi
  rw [hms] at hne hnp ⊢
  dsimp only at hne hnp ⊢
  rw [forIter_of_drain _ _ g _ (ms.map ofMember) _ (drain_object_ok value h g ms (by omega) hms)]
  have hrun := so_run (Tr.strip_nulls_object g) (Tr.strip_nulls_array g) ms f [] hrec
    (fun x hx => by have := iterObjEntries_item_le value h ms hms x hx; omega)
  have hb0 : (⟨ofBKVs []⟩ : Tr.ObjectBuilder) = objB [] := rfl
  rw [hb0]
  cases hm : Fn.stripMembers f ms [] with
  | fuel => exact absurd hm hne
  | panic s => rw [hm] at hnp; simp [Res.isPanic] at hnp
  | err e =>
    rw [hm] at hrun
    simp only [LoopVal, Res.map, Res.bind] at hrun
    simp only [hrun, Ctl.ret_bind', Ctl.run_ret', Res.map, Res.bind]
  | ok es =>
    rw [hm] at hrun
    simp only [LoopVal, Res.map, Res.bind] at hrun
    simp only [hrun, Ctl.val_bind', Ctl.run_ret', Res.map, Res.bind]

/-- the `strip_nulls` group: wherever the model with fuel `f` answers without panicking, the translation with fuel
`g > f + 2^29 + 1` computes the model's builder -/
theorem strip_all : ∀ f g : Nat, f + 536870914 < g → ∀ (h : Nat) (value : Bytes), value.length < 1152921504606846976 →
    (Fn.stripObject f h value ≠ .fuel → (Fn.stripObject f h value).isPanic = false →
      Tr.strip_nulls_object g (h : Int) value = (Fn.stripObject f h value).map objB) ∧
    (Fn.stripArray f h value ≠ .fuel → (Fn.stripArray f h value).isPanic = false →
      Tr.strip_nulls_array g (h : Int) value = (Fn.stripArray f h value).map arrB) := by
  intro f
  induction f using Nat.strong_induction_on with
  | _ f IH =>
    intro g hfg h value hlen
    cases f with
    | zero =>
      constructor
      · intro hne _; exact absurd (by rw [Fn.stripObject]) hne
      · intro hne _; exact absurd (by rw [Fn.stripArray]) hne
    | succ f =>
      obtain ⟨g', rfl⟩ : ∃ m, g = m + 1 := ⟨g - 1, by omega⟩
      have hrec : StripRecOK f (Tr.strip_nulls_object g') (Tr.strip_nulls_array g') :=
        fun f' hf' h' v' hv' => IH f' (by omega) g' (by omega) h' v' hv'
      exact ⟨fun hne hnp => strip_nulls_object_step g' f h value hlen (by omega) hrec hne hnp,
        fun hne hnp => strip_nulls_array_step g' f h value hlen (by omega) hrec hne hnp⟩

end Jsonb.TrAgree
