/-
Key paths (`keypath.rs`): every rendering `{ e1 , e2 , … }` with arbitrary whitespace around
braces, commas and elements, and with quoted names using the two-byte escapes, is read back by
`parse_key_paths`.
-/
import JsonbModel.Proofs.PathRoundTrip2a

namespace Jsonb
namespace PathRT2
open Nom PathParser PathPrint PathRT

/-- Renderings of one key path element: a decimal `i32`; a quoted name (escapes `\\ \" \/ \b \f
\n \r \t` decoded); an unquoted name (`goodName`: non-empty, no delimiter or backslash, valid
UTF-8, not something nom's `i32` accepts a prefix of). -/
inductive RKey : KeyPath → Bytes → Prop
  | index (i : Int) : inI32 i → RKey (.index i) (intBytes i)
  | quoted (s q : Bytes) : RQuoted s q → RKey (.quoted s) q
  | name (s : Bytes) : goodName s = true → RKey (.name s) s

/-- what may follow an element: whitespace, `,` or `}` -/
def kpFollow (c : UInt8) : Bool := isSpace c || c == 44 || c == 125

theorem kpFollow_notDigit : ∀ c, kpFollow c = true → notDigit c = true := by bytes_decide
theorem kpFollow_delim : ∀ c, kpFollow c = true → isRawDelim c = true := by bytes_decide

theorem RKey.head {k : KeyPath} {s : Bytes} (h : RKey k s) :
    ∃ c t, s = c :: t ∧ isSpace c = false := by
  cases h with
  | index i hi =>
    obtain ⟨b, t, h, hs, _⟩ := intBytes_head i
    exact ⟨b, t, h, hs⟩
  | quoted s q hq =>
    obtain ⟨t, rfl⟩ := hq.head
    exact ⟨34, t, rfl, by decide⟩
  | name s hs =>
    cases s with
    | nil => simp [goodName] at hs
    | cons b t =>
      have hg : (b :: t).all plainNameByte = true ∧ validUtf8 (b :: t) = true ∧
          isError (i32 (b :: t)) = true := by simpa [goodName, and_assoc] using hs
      exact ⟨b, t, rfl, plainNameByte_not_space b ((List.all_eq_true.mp hg.1) b (by simp))⟩

/-- `key_path` reads back every rendering of an element -/
theorem keyPath_render {k : KeyPath} {s : Bytes} (h : RKey k s) (r : Bytes) (hr : HeadOk kpFollow r) :
    keyPath (s ++ r) = .ok k r := by
  have hnd : noDigitHead r := noDigitHead_of (hr.mono kpFollow_notDigit)
  have hdl : delimHead r := delimHead_of (hr.mono kpFollow_delim)
  unfold keyPath
  cases h with
  | index i hi => exact alt_ok (map_ok (i32_intBytes i hi r hnd))
  | quoted s q hq =>
    obtain ⟨t, rfl⟩ := hq.head
    have h1 : i32 (34 :: (t ++ r)) = .error := i32_nondigit _ _ (by decide) (by decide) (by decide)
    have h2 : string (34 :: (t ++ r)) = .ok s r := string_quoted hq r
    show alt _ _ (34 :: (t ++ r)) = _
    rw [alt_error (map_error h1)]
    exact alt_ok (map_ok h2)
  | name s hs =>
    cases s with
    | nil => simp [goodName] at hs
    | cons b t =>
      have hg : (b :: t).all plainNameByte = true ∧ validUtf8 (b :: t) = true ∧
          isError (i32 (b :: t)) = true := by simpa [goodName, and_assoc] using hs
      obtain ⟨hall, hu, herr⟩ := hg
      have hb : plainNameByte b = true := (List.all_eq_true.mp hall) b (by simp)
      obtain ⟨p1, p2, p3, _⟩ := plainNameByte_props b hb
      have h1 : i32 (b :: (t ++ r)) = .error := i32_error_append b t r p1 p2 herr
      have h2 : string (b :: (t ++ r)) = .error :=
        string_error _ (by intro t' e; simp at e; exact p3 e.1)
      have h3 : rawString (b :: (t ++ r)) = .ok (b :: t) r :=
        rawString_plain (b :: t) r (by simp) hall hu hdl
      show alt _ _ (b :: (t ++ r)) = _
      rw [alt_error (map_error h1), alt_error (map_error h2)]
      exact map_ok h3

/-- `delimited(multispace0, key_path, multispace0)` on an element with whitespace around it -/
theorem keyPathWs_render {k : KeyPath} {s w w' : Bytes} (hk : RKey k s) (hw : Ws w) (hw' : Ws w')
    (c : UInt8) (t : Bytes) (hc : c = 44 ∨ c = 125) :
    delimited ws keyPath ws (w ++ (s ++ (w' ++ c :: t))) = .ok k (c :: t) := by
  obtain ⟨b, t', hs, hb⟩ := hk.head
  have h1 : dropSpaces (w ++ (s ++ (w' ++ c :: t))) = s ++ (w' ++ c :: t) := by
    rw [dropSpaces_ws _ _ hw, hs]; exact dropSpaces_nonspace _ _ hb
  have hfol : HeadOk kpFollow (w' ++ c :: t) := by
    cases w' with
    | nil => exact HeadOk.cons (by rcases hc with rfl | rfl <;> decide)
    | cons x w'' => exact HeadOk.cons (by simp [kpFollow, hw'.cons.1])
  have h2 := keyPath_render hk (w' ++ c :: t) hfol
  have h3 : dropSpaces (w' ++ c :: t) = c :: t := by
    rw [dropSpaces_ws _ _ hw', dropSpaces_nonspace c t (by rcases hc with rfl | rfl <;> decide)]
  simp [delimited, ws_eq, h1, h2, h3, PR.bind]

/-- Renderings of the body of `{ … }`: elements with any whitespace around them, separated by
commas. -/
inductive RKeyList : List KeyPath → Bytes → Prop
  | one (k : KeyPath) (w s w' : Bytes) : Ws w → RKey k s → Ws w' → RKeyList [k] (w ++ (s ++ w'))
  | cons (k : KeyPath) (ks : List KeyPath) (w s w' t : Bytes) : Ws w → RKey k s → Ws w' →
      RKeyList ks t → RKeyList (k :: ks) (w ++ (s ++ (w' ++ 44 :: t)))

theorem keyList_loop {ks : List KeyPath} {t : Bytes} (h : RKeyList ks t) (r : Bytes) :
    ∀ (n : Nat) (acc : List KeyPath), t.length < n →
    sepList1Loop (char 44) (delimited ws keyPath ws) n (44 :: (t ++ 125 :: r)) acc =
      .ok (acc.reverse ++ ks) (125 :: r) := by
  induction h with
  | one k w s w' hw hk hw' =>
    intro n acc hn
    obtain ⟨c, t', hs, _⟩ := hk.head
    have hl : 0 < s.length := by rw [hs]; simp
    obtain ⟨n, rfl⟩ : ∃ m, n = m + 1 := ⟨n - 1, by omega⟩
    obtain ⟨n, rfl⟩ : ∃ m, n = m + 1 := ⟨n - 1, by simp at hn; omega⟩
    have hstep := keyPathWs_render hk hw hw' 125 r (Or.inr rfl)
    simp only [List.append_assoc]
    simp only [sepList1Loop, char, beq_self_eq_true, if_true]
    rw [if_neg (by simp)]
    rw [hstep]
    simp
  | cons k ks w s w' t hw hk hw' ht ih =>
    intro n acc hn
    obtain ⟨n, rfl⟩ : ∃ m, n = m + 1 := ⟨n - 1, by omega⟩
    have hstep := keyPathWs_render hk hw hw' 44 (t ++ 125 :: r) (Or.inl rfl)
    simp only [List.append_assoc, List.cons_append]
    simp only [sepList1Loop, char, beq_self_eq_true, if_true]
    rw [if_neg (by simp)]
    rw [hstep]
    simp only []
    rw [ih n (k :: acc) (by simp at hn; omega)]
    simp

theorem keyList_sep {ks : List KeyPath} {t : Bytes} (h : RKeyList ks t) (r : Bytes) :
    separatedList1 (char 44) (delimited ws keyPath ws) (t ++ 125 :: r) = .ok ks (125 :: r) := by
  cases h with
  | one k w s w' hw hk hw' =>
    have hstep := keyPathWs_render hk hw hw' 125 r (Or.inr rfl)
    simp only [List.append_assoc]
    unfold separatedList1
    rw [hstep]
    simp [PR.bind, sepList1Loop, char]
  | cons k ks w s w' t hw hk hw' ht =>
    have hstep := keyPathWs_render hk hw hw' 44 (t ++ 125 :: r) (Or.inl rfl)
    simp only [List.append_assoc, List.cons_append]
    unfold separatedList1
    rw [hstep]
    simp only [PR.bind]
    rw [keyList_loop ht r _ [k] (by simp; omega)]
    simp

/-- Every rendering `ws { e1 , … , en } ws` (n ≥ 1) parses to `[e1, …, en]`. -/
theorem parse_keyPaths_render {ks : List KeyPath} {t : Bytes} (h : RKeyList ks t) (w0 w1 : Bytes)
    (hw0 : Ws w0) (hw1 : Ws w1) : parseKeyPaths (w0 ++ 123 :: (t ++ 125 :: w1)) = .ok ks := by
  have h0 : dropSpaces (w0 ++ 123 :: (t ++ 125 :: w1)) = 123 :: (t ++ 125 :: w1) := by
    rw [dropSpaces_ws _ _ hw0]; exact dropSpaces_nonspace _ _ (by decide)
  have h1 := keyList_sep h w1
  have h2 := dropSpaces_ws_nil w1 hw1
  unfold parseKeyPaths keyPaths
  simp [alt, delimited, preceded, terminated, ws_eq, h0, char, h1, h2, PR.bind, finish]

theorem keyPath_brace (X : Bytes) : keyPath (125 :: X) = .error := by
  have a : i32 (125 :: X) = .error := i32_nondigit _ _ (by decide) (by decide) (by decide)
  have b : string (125 :: X) = .error := string_error _ (by intro t e; simp at e)
  have c : rawString (125 :: X) = .error := by
    simp [rawString, rawScan, scan, isRawDelim, rawDelims]
  unfold keyPath
  rw [alt_error (map_error a), alt_error (map_error b)]
  exact map_error c

/-- `ws { ws } ws` parses to the empty list. -/
theorem parse_keyPaths_empty (w0 w w1 : Bytes) (hw0 : Ws w0) (hw : Ws w) (hw1 : Ws w1) :
    parseKeyPaths (w0 ++ 123 :: (w ++ 125 :: w1)) = .ok [] := by
  have h0 : dropSpaces (w0 ++ 123 :: (w ++ 125 :: w1)) = 123 :: (w ++ 125 :: w1) := by
    rw [dropSpaces_ws _ _ hw0]; exact dropSpaces_nonspace _ _ (by decide)
  have h1 : dropSpaces (w ++ 125 :: w1) = 125 :: w1 := by
    rw [dropSpaces_ws _ _ hw]; exact dropSpaces_nonspace _ _ (by decide)
  have h2 := dropSpaces_ws_nil w1 hw1
  have h3 := keyPath_brace w1
  unfold parseKeyPaths keyPaths
  simp [alt, delimited, preceded, terminated, map, separatedList1, ws_eq, h0, h1, h2, h3, char,
    PR.bind, finish]

/-- the `Display` output of good key paths is a rendering -/
theorem keyList_print_rend (ks : List KeyPath) :
    ∀ (k : KeyPath), (k :: ks).all goodKP = true → RKeyList (k :: ks) (printKeyPath k ++ commaList ks) := by
  have one : ∀ k, goodKP k = true → RKey k (printKeyPath k) := by
    intro k hk
    cases k with
    | index i => exact .index i (by simpa [goodKP] using hk)
    | quoted s =>
      have e : printKeyPath (.quoted s) = 34 :: (s ++ [34]) := by simp [printKeyPath]
      rw [e]
      exact .quoted s _ (RQuoted.of_good s (by simpa [goodKP] using hk))
    | name s => exact .name s (by simpa [goodKP] using hk)
  induction ks with
  | nil =>
    intro k h
    have hk : goodKP k = true := by simpa using h
    have := RKeyList.one k [] _ [] Ws.nil (one k hk) Ws.nil
    simpa [commaList] using this
  | cons b bs ih =>
    intro k h
    have hk : goodKP k = true ∧ (b :: bs).all goodKP = true := by simpa using h
    have := RKeyList.cons k (b :: bs) [] _ [] _ Ws.nil (one k hk.1) Ws.nil (ih b hk.2)
    simpa [commaList] using this

end PathRT2
end Jsonb
