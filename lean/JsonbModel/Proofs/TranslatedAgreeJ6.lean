/-
Agreement theorems, phase 6d, part 6 (properties C16 / C09, printers): the `Display` impls of keypath.rs (`KeyPath`,
`KeyPaths`) and of the non-recursive types of jsonpath/path.rs (`Index`, `ArrayIndex`, `PathValue`, the three operator
enums) translated from source APPEND the text the model's printers of `PathPrint.lean` compute.
-/
import JsonbModel.Proofs.TranslatedAgreeJ5
import JsonbModel.PathPrint

set_option linter.unusedSimpArgs false
set_option linter.unusedVariables false

namespace Jsonb.TrAgree
open Jsonb.PathPrint

/-! ## integers -/

theorem displayNat_eq (n : Nat) : Rs.displayNat n = decBytes n := by
  induction n using Nat.strongRecOn with
  | _ n ih =>
    unfold PathPrint.decBytes
    by_cases h : n < 10
    · simp only [h, dite_true, Rs.displayNat, Nat.toDigits_of_lt_base h, List.map_cons, List.map_nil]
      rw [Nat.toNat_digitChar_of_lt_ten h]
    · have h' : 10 ≤ n := by omega
      simp only [h, dite_false]
      rw [← ih (n / 10) (by omega)]
      simp only [Rs.displayNat, Nat.toDigits_of_base_le (by decide : 1 < 10) h', List.map_append, List.map_cons, List.map_nil]
      rw [Nat.toNat_digitChar_of_lt_ten (by omega)]

theorem displayInt_eq (x : Int) : Rs.displayInt x = intBytes x := by
  unfold Rs.displayInt intBytes
  simp only [displayNat_eq]

theorem natDigits_eq (n : Nat) : Fn.natDigits n = decBytes n := displayNat_eq n

theorem intDigits_eq (i : Int) : Fn.intDigits i = intBytes i := by
  unfold Fn.intDigits intBytes
  by_cases h : i < 0
  · have : (-i).toNat = i.natAbs := by omega
    simp [h, this, natDigits_eq]
  · have : i.toNat = i.natAbs := by omega
    simp [h, this, natDigits_eq]

theorem displayNumber_eq (fmt : Nat → Bytes) (n : Num) : Rs.displayNumber fmt (ofNumber n) = printNum fmt n := by
  cases n with
  | int i => simp [Rs.displayNumber, Rs.numberToNum, ofNumber, Fn.numToString, printNum, intDigits_eq]
  | uint n => simp [Rs.displayNumber, Rs.numberToNum, ofNumber, Fn.numToString, printNum, natDigits_eq]
  | float b => simp [Rs.displayNumber, Rs.numberToNum, ofNumber, Fn.numToString, printNum]

/-! ## the literal texts of the printers -/

theorem dlit_0 : Rs.strLit "\"" = [34] := pp_strLit_bytes _ _ (by decide)
theorem dlit_1 : Rs.strLit "{" = [123] := pp_strLit_bytes _ _ (by decide)
theorem dlit_2 : Rs.strLit "," = [44] := pp_strLit_bytes _ _ (by decide)
theorem dlit_3 : Rs.strLit "}" = [125] := pp_strLit_bytes _ _ (by decide)
theorem dlit_4 : Rs.strLit "last" = [108, 97, 115, 116] := pp_strLit_bytes _ _ (by decide)
theorem dlit_5 : Rs.strLit "+" = [43] := pp_strLit_bytes _ _ (by decide)
theorem dlit_6 : Rs.strLit " to " = [32, 116, 111, 32] := pp_strLit_bytes _ _ (by decide)
theorem dlit_7 : Rs.strLit "null" = [110, 117, 108, 108] := pp_strLit_bytes _ _ (by decide)
theorem dlit_8 : Rs.strLit "true" = [116, 114, 117, 101] := pp_strLit_bytes _ _ (by decide)
theorem dlit_9 : Rs.strLit "false" = [102, 97, 108, 115, 101] := pp_strLit_bytes _ _ (by decide)
theorem dlit_10 : Rs.strLit "&&" = [38, 38] := pp_strLit_bytes _ _ (by decide)
theorem dlit_11 : Rs.strLit "||" = [124, 124] := pp_strLit_bytes _ _ (by decide)
theorem dlit_12 : Rs.strLit "==" = [61, 61] := pp_strLit_bytes _ _ (by decide)
theorem dlit_13 : Rs.strLit "!=" = [33, 61] := pp_strLit_bytes _ _ (by decide)
theorem dlit_14 : Rs.strLit "<" = [60] := pp_strLit_bytes _ _ (by decide)
theorem dlit_15 : Rs.strLit "<=" = [60, 61] := pp_strLit_bytes _ _ (by decide)
theorem dlit_16 : Rs.strLit ">" = [62] := pp_strLit_bytes _ _ (by decide)
theorem dlit_17 : Rs.strLit ">=" = [62, 61] := pp_strLit_bytes _ _ (by decide)
theorem dlit_18 : Rs.strLit "-" = [45] := pp_strLit_bytes _ _ (by decide)
theorem dlit_19 : Rs.strLit "*" = [42] := pp_strLit_bytes _ _ (by decide)
theorem dlit_20 : Rs.strLit "/" = [47] := pp_strLit_bytes _ _ (by decide)
theorem dlit_21 : Rs.strLit "%" = [37] := pp_strLit_bytes _ _ (by decide)
theorem dlit_22 : Rs.strLit "$" = [36] := pp_strLit_bytes _ _ (by decide)
theorem dlit_23 : Rs.strLit "@" = [64] := pp_strLit_bytes _ _ (by decide)
theorem dlit_24 : Rs.strLit ".*" = [46, 42] := pp_strLit_bytes _ _ (by decide)
theorem dlit_25 : Rs.strLit "[*]" = [91, 42, 93] := pp_strLit_bytes _ _ (by decide)
theorem dlit_26 : Rs.strLit ":" = [58] := pp_strLit_bytes _ _ (by decide)
theorem dlit_27 : Rs.strLit "." = [46] := pp_strLit_bytes _ _ (by decide)
theorem dlit_28 : Rs.strLit "[\"" = [91, 34] := pp_strLit_bytes _ _ (by decide)
theorem dlit_29 : Rs.strLit "\"]" = [34, 93] := pp_strLit_bytes _ _ (by decide)
theorem dlit_30 : Rs.strLit "[" = [91] := pp_strLit_bytes _ _ (by decide)
theorem dlit_31 : Rs.strLit ", " = [44, 32] := pp_strLit_bytes _ _ (by decide)
theorem dlit_32 : Rs.strLit "]" = [93] := pp_strLit_bytes _ _ (by decide)
theorem dlit_33 : Rs.strLit "?(" = [63, 40] := pp_strLit_bytes _ _ (by decide)
theorem dlit_34 : Rs.strLit ")" = [41] := pp_strLit_bytes _ _ (by decide)
theorem dlit_35 : Rs.strLit " " = [32] := pp_strLit_bytes _ _ (by decide)
theorem dlit_36 : Rs.strLit "(" = [40] := pp_strLit_bytes _ _ (by decide)
theorem dlit_37 : Rs.strLit "exists(" = [101, 120, 105, 115, 116, 115, 40] := pp_strLit_bytes _ _ (by decide)

/-- `f.push_str(..)` and the literals, normalised -/
macro "disp_simp" : tactic => `(tactic| simp only [Rs.pushStr, bind, Res.bind, pure, dlit_0, dlit_1, dlit_2, dlit_3, dlit_4, dlit_5, dlit_6, dlit_7, dlit_8, dlit_9, dlit_10, dlit_11, dlit_12, dlit_13, dlit_14, dlit_15, dlit_16, dlit_17, dlit_18, dlit_19, dlit_20, dlit_21, dlit_22, dlit_23, dlit_24, dlit_25, dlit_26, dlit_27, dlit_28, dlit_29, dlit_30, dlit_31, dlit_32, dlit_33, dlit_34, dlit_35, dlit_36, dlit_37, displayInt_eq, displayNumber_eq])

/-! ## lists with a separator: `for (i, x) in xs.iter().enumerate() { if i > 0 { sep } x }` -/

/-- every element preceded by the separator -/
def sepAll {α : Type} (sep : Bytes) (pr : α → Bytes) : List α → Bytes
  | [] => []
  | x :: xs => sep ++ pr x ++ sepAll sep pr xs

/-- the first element bare, the others preceded by the separator -/
def sepList {α : Type} (sep : Bytes) (pr : α → Bytes) : List α → Bytes
  | [] => []
  | x :: xs => pr x ++ sepAll sep pr xs

theorem fold_sepAll {α β : Type} (sep : Bytes) (pr : α → Bytes) (of : α → β) (body : Int × β → Bytes → Res Bytes)
    (hbody : ∀ (i : Nat) (x : α) (f : Bytes), body ((i : Int), of x) f = .ok (f ++ (if i > 0 then sep else []) ++ pr x)) :
    ∀ (l : List α) (k : Nat) (f : Bytes), 0 < k →
      Rs.foldRes (Rs.enumerateFrom k (l.map of)) f body = .ok (f ++ sepAll sep pr l) := by
  intro l
  induction l with
  | nil => intro k f _; simp [Rs.enumerateFrom, Rs.foldRes, sepAll]
  | cons x xs ih =>
    intro k f hk
    simp only [List.map_cons, Rs.enumerateFrom, Rs.foldRes, hbody, Res.bind]
    rw [ih (k + 1) _ (by omega)]
    simp [sepAll, hk]

theorem fold_sepList {α β : Type} (sep : Bytes) (pr : α → Bytes) (of : α → β) (body : Int × β → Bytes → Res Bytes)
    (hbody : ∀ (i : Nat) (x : α) (f : Bytes), body ((i : Int), of x) f = .ok (f ++ (if i > 0 then sep else []) ++ pr x))
    (l : List α) (f : Bytes) :
    Rs.foldRes (Rs.enumerate (l.map of)) f body = .ok (f ++ sepList sep pr l) := by
  cases l with
  | nil => simp [Rs.enumerate, Rs.enumerateFrom, Rs.foldRes, sepList]
  | cons x xs =>
    simp only [Rs.enumerate, List.map_cons, Rs.enumerateFrom, Rs.foldRes, Res.bind]
    have := hbody 0 x f
    simp only [Nat.lt_irrefl, if_false, List.append_nil] at this
    rw [this]
    show Rs.foldRes (Rs.enumerateFrom 1 (List.map of xs)) (f ++ pr x) body = _
    rw [fold_sepAll sep pr of body hbody xs 1 _ (by omega)]
    simp [sepList]

theorem printKeyPathList_eq (l : List KeyPath) : printKeyPathList l = sepList [44] printKeyPath l := by
  cases l with
  | nil => rfl
  | cons x xs =>
    induction xs generalizing x with
    | nil => simp [printKeyPathList, sepList, sepAll]
    | cons y ys ih => simp only [printKeyPathList, sepList, sepAll] at ih ⊢; rw [ih y]; simp

theorem printArrayIndexList_eq (l : List ArrayIndex) : printArrayIndexList l = sepList [44, 32] printArrayIndex l := by
  cases l with
  | nil => rfl
  | cons x xs =>
    induction xs generalizing x with
    | nil => simp [printArrayIndexList, sepList, sepAll]
    | cons y ys ih => simp only [printArrayIndexList, sepList, sepAll] at ih ⊢; rw [ih y]; simp

/-! ## keypath.rs -/

theorem key_path_fmt_agrees (k : KeyPath) (f : Bytes) :
    Tr.Display.KeyPath.fmt (ofKeyPath k) f = .ok (f ++ printKeyPath k) := by
  cases k <;> (unfold Tr.Display.KeyPath.fmt ofKeyPath printKeyPath; disp_simp) <;> (try simp)

/-- **`impl Display for KeyPaths`** (C16) -/
theorem key_paths_fmt_agrees (l : List KeyPath) (f : Bytes) :
    Tr.Display.KeyPaths.fmt (ofKeyPaths l) f = .ok (f ++ printKeyPaths l) := by
  unfold Tr.Display.KeyPaths.fmt ofKeyPaths printKeyPaths
  disp_simp
  rw [fold_sepList [44] printKeyPath ofKeyPath _ (fun i x f => by
    simp only [key_path_fmt_agrees]
    by_cases hi : i > 0
    · have : ((i : Int) > 0) := by omega
      simp [hi, this]
    · have : ¬ ((i : Int) > 0) := by omega
      simp [hi, this])]
  simp [printKeyPathList_eq]

/-- `x.to_string()` of key paths -/
theorem key_paths_to_string (l : List KeyPath) : Tr.Display.KeyPaths.fmt (ofKeyPaths l) [] = .ok (printKeyPaths l) := by
  simpa using key_paths_fmt_agrees l []

end Jsonb.TrAgree
